(* C03, section H: END-TO-END theorems.  configuration -> history -> forall x.

   The composition theorems of Proofs/Premade.v assume facts about the
   calibrators and the kernel (cals_in_range, outs_nondecr, knondecr, out_range ...);
   the reachable-feasibility theorems deliver per-variable invariants (pwl_inv,
   cat_inv, lat_inv, lin_inv ...); Proofs/PremadeInit.v discharges the initial-value
   hypotheses from the validity of the configuration.  Here the chain is closed:

     model description md (what the premade_lib builders derive from a model config)
       |  md_ok md : configuration facts only
       v
     layer descriptors + initial values           (section G: init_feasible_xxx)
       |  ANY well-shaped history ops
       v
     every reached state satisfies every layer invariant   (section A: reachable_feasible_xxx,
                                                             used through their one-step instances)
       |  xxx_invariant_feeds_composition
       v
     hypotheses of the composition theorems        (sections B/C)
       v
     the model function built from the weights of the state is monotone / bounded for ALL inputs.

   One heterogeneous state machine: a state holds one value per LAYER (a PWL
   calibrator's kernel column together with its learned missing output, a
   categorical kernel column, a lattice kernel tensor, a linear kernel column);
   an Update hands every layer arbitrary raw values of the right shape and then
   applies every constraint (tf_keras Optimizer.apply_gradients: assign all
   variables, then constrain each of them); Restore k / Init as in Model/Premade.v. *)
From Coq Require Import Permutation.
From TFL Require Import Model.Premade Proofs.Premade.
From TFL Require Import Proofs.PWLEval Proofs.LinearEval Proofs.LatticeInterp.
From TFL Require Proofs.Representations.
From TFL Require Import Proofs.LatticeSpec Proofs.LatticeSpecFacts Proofs.LatticeFinalize Proofs.LatticeMono.
From TFL Require Import Model.PWLProject Proofs.PWLProject Model.PWLInit Proofs.PWLInit.
From TFL Require Import Model.LinearProject Proofs.PartialOrder Proofs.TopoSort Proofs.LinearProject.
From TFL Require Import Model.LatticeInit Proofs.LatticeInit Proofs.PremadeInit.
From TFL Require Import Model.PremadeKFL Proofs.PremadeKFL Proofs.PremadeInitKFL.
Open Scope Q_scope.

(* ====================================================================== *)
(* 1. One state machine for all layers of a model                           *)
(* ====================================================================== *)
(* the learned missing output of a PWL calibrator with a default_value:
   NaiveBoundsConstraints(output_min, output_max), either bound optional *)
Record miss_desc := mkMiss { ms_lo : option Q; ms_hi : option Q; ms_init : Q }.
Definition miss_inv (m : miss_desc) (q : Q) : Prop := within (ms_lo m) (ms_hi m) q.
Definition miss_desc_ok (m : miss_desc) : Prop :=
  (forall a b, ms_lo m = Some a -> ms_hi m = Some b -> a <= b) /\ miss_inv m (ms_init m).

Inductive lval :=
| VPwl (col : list Q) (mo : option Q)     (* kernel column bias :: heights; missing output weight if any *)
| VCat (vals : list Q)                    (* categorical kernel column *)
| VLat (f : tens)                         (* lattice kernel tensor over sizes ++ [units] *)
| VLin (k : list Q) (b : Q)               (* linear kernel column and bias (0 when the layer has no bias) *)
| VKfl (p : MK.params).                   (* KroneckerFactoredLattice: kernel, scale, bias *)

Inductive ldesc :=
| LDPwl (d : pwl_desc) (m : option miss_desc)
| LDCat (d : cat_desc)
| LDLat (d : lat_desc)
| LDLin (d : lin_desc) (use_bias : bool)
| LDKfl (d : kfl_desc) (units : nat).

Definition miss_con (m : option miss_desc) (o : option Q) : option Q :=
  match m, o with Some d, Some q => Some (naive_bounds (ms_lo d) (ms_hi d) q) | _, _ => o end.

Definition lvar (d : ldesc) : var lval :=
  match d with
  | LDPwl p m => mkVar (VPwl (pd_init p) (option_map ms_init m))
                       (fun v => match v with VPwl w o => VPwl (v_con (pwl_var p) w) (miss_con m o) | _ => v end)
  | LDCat c => mkVar (VCat (cd_init c)) (fun v => match v with VCat w => VCat (v_con (cat_var c) w) | _ => v end)
  | LDLat l => mkVar (VLat (ld_init l)) (fun v => match v with VLat f => VLat (v_con (lat_var l) f) | _ => v end)
  | LDLin l ub => mkVar (VLin (nd_init l) 0)   (* bias_initializer Constant(0); the bias has no constraint *)
                        (fun v => match v with VLin k b => VLin (v_con (lin_var l) k) (if ub then b else 0) | _ => v end)
  | LDKfl d _ => mkVar (VKfl (kd_init d)) (fun v => match v with VKfl raw => VKfl (v_con (kfl_var d) raw) | _ => v end)
  end.

(* a KFL layer with [units] units: one scale row and one bias per unit *)
Definition kfl_units (units : nat) (p : MK.params) : Prop :=
  length (MK.p_scale p) = units /\ length (MK.p_bias p) = units.

(* raw values an optimizer step can leave in the variables of a layer: right kind, right shape *)
Definition lshape (d : ldesc) (v : lval) : Prop :=
  match d, v with
  | LDPwl p m, VPwl w o => pwl_shape p w /\ (m = None <-> o = None)
  | LDCat c, VCat w => length w = cd_n c
  | LDLat _, VLat _ => True
  | LDLin l _, VLin k _ => length k = nd_n l
  | LDKfl d units, VKfl raw => kfl_shape d raw /\ kfl_units units raw
  | _, _ => False
  end.

(* normalization_order = 1 (weighted average): the L1 norm is one, or the constraint found a norm below its
   epsilon and left the (sign-clipped) weights as they were (C06_norm_one_or_zero) - known finding D32 *)
Definition lin_collapsed (k : list Q) : Prop := qsum (map qabs k) < norm_eps.
Definition lin_norm_inv (l : lin_desc) (k : list Q) : Prop :=
  lc_norm (nd_cfg l) = 1%nat -> qsum (map qabs k) == 1 \/ lin_collapsed k.

(* the per-layer invariant: the invariants of sections A/B plus the lengths *)
Definition linv (d : ldesc) (v : lval) : Prop :=
  match d, v with
  | LDPwl p m, VPwl w o => pwl_inv p w /\ length w = S (pd_n p) /\
      match m, o with Some md, Some q => miss_inv md q | None, None => True | _, _ => False end
  | LDCat c, VCat w => cat_inv c w /\ length w = cd_n c
  | LDLat l, VLat f => lat_inv l f
  | LDLin l ub, VLin k b => lin_inv l k /\ length k = nd_n l /\ (ub = false -> b = 0) /\ lin_norm_inv l k
  | LDKfl d units, VKfl p => kfl_inv d p /\ kfl_units units p
  | _, _ => False
  end.

Definition ldesc_ok (d : ldesc) : Prop :=
  match d with
  | LDPwl p m => pwl_desc_ok p /\ length (pd_init p) = S (pd_n p) /\
                 match m with Some md => miss_desc_ok md | None => True end
  | LDCat c => cat_desc_ok c /\ length (cd_init c) = cd_n c
  | LDLat l => lat_desc_ok l
  | LDLin l _ => lin_valid (nd_cfg l) (nd_n l) /\ lin_inv l (nd_init l) /\ length (nd_init l) = nd_n l /\
                 lin_norm_inv l (nd_init l)
  | LDKfl d units => kfl_desc_ok d /\ kfl_units units (kd_init d)
  end.

(* "constraint(anything well-shaped) is feasible", read off the reachable-feasibility
   theorems of section A: the state after the one-step history [Update w] *)
Lemma one_step_state {val} (v : var val) (w : val) : In [v_con v w] (run [v] [Update (fun _ => w)]).
Proof. left. reflexivity. Qed.
Lemma Forall2_single {A B} (R : A -> B -> Prop) a b : Forall2 R [a] [b] -> R a b.
Proof. intros H. inversion H; subst. assumption. Qed.
Lemma one_step_shaped {val D} (Shape : D -> val -> Prop) d w : Shape d w ->
  ops_shaped val D Shape [d] [Update (fun _ => w)].
Proof. intros H delta [E|[]] i d' Hd. injection E as <-. destruct i as [|i]; cbn in Hd.
  injection Hd as <-. exact H. destruct i; discriminate. Qed.

Lemma pwl_con_inv p w : pwl_desc_ok p -> pwl_shape p w -> pwl_inv p (v_con (pwl_var p) w).
Proof. intros Hp Hs. apply Forall2_single.
  apply (reachable_feasible_pwl [p] [Update (fun _ => w)]).
  - intros d [<-|[]]. exact Hp.
  - apply one_step_shaped. exact Hs.
  - apply (one_step_state (pwl_var p) w). Qed.
Lemma cat_con_inv' c w : cat_desc_ok c -> length w = cd_n c -> cat_inv c (v_con (cat_var c) w).
Proof. intros Hc Hs. apply Forall2_single.
  apply (reachable_feasible_categorical [c] [Update (fun _ => w)]).
  - intros d [<-|[]]. exact Hc.
  - apply (one_step_shaped (fun d w => length w = cd_n d)). exact Hs.
  - apply (one_step_state (cat_var c) w). Qed.
Lemma lat_con_inv l f : lat_desc_ok l -> lat_inv l (v_con (lat_var l) f).
Proof. intros Hl. apply Forall2_single.
  apply (reachable_feasible_lattice [l] [Update (fun _ => f)]).
  - intros d [<-|[]]. exact Hl.
  - apply (one_step_state (lat_var l) f). Qed.
Lemma lin_con_inv l k : lin_valid (nd_cfg l) (nd_n l) -> lin_inv l (nd_init l) -> length k = nd_n l ->
  lin_inv l (v_con (lin_var l) k).
Proof. intros Hv Hi Hs. apply Forall2_single.
  apply (reachable_feasible_linear [l] [Update (fun _ => k)]).
  - intros d [<-|[]]. split; assumption.
  - apply (one_step_shaped (fun d w => length w = nd_n d)). exact Hs.
  - apply (one_step_state (lin_var l) k). Qed.

Lemma cat_con_length c w : cat_desc_ok c -> length w = cd_n c -> length (v_con (cat_var c) w) = cd_n c.
Proof. intros (Hac & Hr & _) Hl. cbn [cat_var v_con]. unfold cat_con.
  assert (Hpr : pairs_in_range (cd_pairs c) w) by (intros i j Hij; rewrite Hl; apply Hr; exact Hij).
  destruct (cat_defined (cd_pairs c) (cd_lo c) (cd_hi c) w Hac Hpr) as [r [E Hlr]]. rewrite E. lia. Qed.
Lemma lin_con_length l k : lin_valid (nd_cfg l) (nd_n l) -> length k = nd_n l -> length (v_con (lin_var l) k) = nd_n l.
Proof. intros Hv Hl. cbn [lin_var v_con]. unfold lin_con.
  destruct (lin_defined (nd_rt l) (nd_cfg l) (nd_n l) k Hv Hl) as [r [E Hlr]]. rewrite E. exact Hlr. Qed.

Lemma qsum_qabs_peq : forall a b, peq a b -> qsum (map qabs a) == qsum (map qabs b).
Proof. induction a as [|x a IH]; intros [|y b] [Hl H]; try discriminate. reflexivity.
  cbn [map qsum]. rewrite (IH b). pose proof (H 0%nat) as H0. cbn in H0. rewrite H0. reflexivity.
  split. cbn in Hl; lia. intros k. exact (H (S k)). Qed.
Lemma lin_con_norm l k : lin_valid (nd_cfg l) (nd_n l) -> length k = nd_n l -> lin_norm_inv l (v_con (lin_var l) k).
Proof. intros Hv Hl N. cbn [lin_var v_con]. unfold lin_con.
  destruct (lin_defined (nd_rt l) (nd_cfg l) (nd_n l) k Hv Hl) as [r [E _]]. rewrite E.
  destruct (lin_norm1 (nd_rt l) (nd_cfg l) (nd_n l) k r Hv Hl N E) as [w3 [_ [A|[A B]]]].
  left. exact A. right. unfold lin_collapsed. rewrite (qsum_qabs_peq r w3 B). exact A. Qed.

Lemma kfl_con_inv d raw : kfl_desc_ok d -> kfl_shape d raw -> kfl_inv d (v_con (kfl_var d) raw).
Proof. intros Hd Hs. apply Forall2_single.
  apply (reachable_feasible_kfl [d] [Update (fun _ => raw)]).
  - intros d' [<-|[]]. exact Hd.
  - apply (one_step_shaped kfl_shape). exact Hs.
  - apply (one_step_state (kfl_var d) raw). Qed.
Lemma apply_step_scale_len root c p st : length (MK.p_scale (MK.apply_step root c p st)) = length (MK.p_scale p).
Proof. destruct st; cbn [MK.apply_step MK.p_scale]; try reflexivity;
  unfold MK.scale_variable_constraint, MK.scale_constraints_call; destruct (MK.has_bounds c); rewrite ?map_length; reflexivity. Qed.
Lemma run_scale_len root c : forall steps p, length (MK.p_scale (MK.run root c steps p)) = length (MK.p_scale p).
Proof. unfold MK.run. induction steps as [|st steps IH]; intros p; cbn [fold_left]. reflexivity.
  rewrite IH. apply apply_step_scale_len. Qed.
Lemma kfl_con_units d units raw : kfl_units units (kd_init d) -> kfl_units units raw -> kfl_units units (v_con (kfl_var d) raw).
Proof. intros [_ Hi] [Hs Hb]. cbn [kfl_var v_con]. unfold kfl_update, kfl_units. rewrite run_scale_len, PK.run_bias.
  unfold kfl_fix_bias. destruct (MK.has_bounds (kd_cfg d)); cbn [MK.p_scale MK.p_bias]; auto. Qed.

Lemma miss_con_inv m q : (forall a b, ms_lo m = Some a -> ms_hi m = Some b -> a <= b) ->
  miss_inv m (naive_bounds (ms_lo m) (ms_hi m) q).
Proof. intros Hb. unfold miss_inv, within. destruct (ms_lo m) as [a|], (ms_hi m) as [b|].
  - pose proof (naive_bounds_both a b q (Hb a b eq_refl eq_refl)) as [A B].
    split; intros x E; injection E as <-; assumption.
  - pose proof (naive_bounds_one_sided a 0 q) as [A _]. split; intros x E; [injection E as <-; exact A|discriminate].
  - pose proof (naive_bounds_one_sided 0 b q) as [_ B]. split; intros x E; [discriminate|injection E as <-; exact B].
  - split; intros x E; discriminate. Qed.

(* every state reached by any well-shaped history satisfies every layer invariant *)
Theorem reachable_feasible_layers ds ops : (forall d, In d ds -> ldesc_ok d) ->
  ops_shaped lval ldesc lshape ds ops ->
  forall s, In s (run (map lvar ds) ops) -> Forall2 linv ds s.
Proof. intros H Hops s Hs.
  apply (reachable_feasible lval ldesc lvar linv lshape ds) with (ops := ops); try assumption.
  - intros d Hd. specialize (H d Hd). destruct d as [p m|c|l|l ub|kd units]; cbn [lvar v_init linv ldesc_ok] in *.
    + destruct H as (Hp & Hl & Hm). split. apply Hp. split. exact Hl.
      destruct m as [md|]; cbn [option_map]. apply Hm. exact I.
    + destruct H as (Hc & Hl). split. apply Hc. exact Hl.
    + apply H.
    + destruct H as (_ & Hi & Hl & Hn). split. exact Hi. split. exact Hl. split. reflexivity. exact Hn.
    + destruct H as ((_ & _ & _ & _ & Hi) & Hu). split; assumption.
  - intros d w Hd Hw. specialize (H d Hd).
    destruct d as [p m|c|l|l ub|kd units]; destruct w as [w o|w|f|k b|raw]; cbn [lshape] in Hw; try contradiction;
      cbn [lvar v_con linv ldesc_ok] in *.
    + destruct H as (Hp & Hl & Hm). destruct Hw as [Hsh Ho]. split. apply pwl_con_inv; assumption.
      split. { change (length (pwl_project_col (pd_cfg p) w) = S (pd_n p)). rewrite pwl_project_col_length.
               destruct Hsh as (b & hs & -> & Hh). cbn [length]. lia. }
      destruct m as [md|], o as [q|]; cbn [miss_con]; try exact I.
      * apply miss_con_inv. apply Hm.
      * destruct Ho as [_ Ho]. specialize (Ho eq_refl). discriminate.
      * destruct Ho as [Ho _]. specialize (Ho eq_refl). discriminate.
    + destruct H as (Hc & Hl). split. apply cat_con_inv'; assumption. apply cat_con_length; assumption.
    + apply lat_con_inv. exact H.
    + destruct H as (Hv & Hi & Hl & _). split. apply lin_con_inv; assumption. split. apply lin_con_length; assumption.
      split. intros ->. reflexivity. apply lin_con_norm; assumption.
    + destruct H as (Hd' & Hu). destruct Hw as [Hs' Hu']. split. apply kfl_con_inv; assumption. apply kfl_con_units; assumption. Qed.

(* ====================================================================== *)
(* 2. From the layer invariants to the hypotheses of the composition theorems *)
(* ====================================================================== *)
(* ---- lattice: the kernel matrix [prod sizes, 1] of a kernel tensor (units = 1) ---- *)
Definition kmat_of (sizes : list nat) (f : tens) : list (list Q) :=
  map (fun i => [f (i ++ [0%nat])]) (all_idx sizes).

Lemma kmat_wf sizes f : wfK 1 (kmat_of sizes f) 0.
Proof. split. lia. unfold kmat_of. apply Forall_forall. intros r Hr. apply in_map_iff in Hr.
  destruct Hr as [i [<- _]]. reflexivity. Qed.
Lemma kmat_length sizes f : length (kmat_of sizes f) = prodn sizes.
Proof. unfold kmat_of. rewrite map_length. apply Representations.all_idx_length. Qed.
Lemma kmat_represents sizes f : represents sizes 1 (kmat_of sizes f) f.
Proof. intros i u Hv Hu. assert (u = 0%nat) by lia. subst u. unfold kern, of_list. rewrite memo_ok by exact Hv.
  assert (E : column 0 (kmat_of sizes f) = map (fun i => f (i ++ [0%nat])) (all_idx sizes)).
  { unfold column, kmat_of. rewrite map_map. reflexivity. }
  rewrite E. pose proof (Representations.nth_flat_all_idx (fun i => f (i ++ [0%nat])) 0 sizes i Hv) as R.
  cbv beta in R. unfold idx in *. rewrite R. reflexivity. Qed.

Lemma lat_state_facts l f : cfg_valid (ld_cfg l) -> l_units (ld_cfg l) = 1%nat -> lat_inv l f ->
  let c := ld_cfg l in let K := kmat_of (l_sizes c) f in
  sizes_ok (l_sizes c) /\ wfK 1 K 0 /\ length K = prodn (l_sizes c) /\
  (forall d, (d < length (l_sizes c))%nat -> nth d (l_monos c) 0%Z = 1%Z ->
     knondecr (l_sizes c) (kern (l_sizes c) K 0) d) /\
  (forall lo hi, l_min c = Some lo -> l_max c = Some hi ->
     forall i, valid (l_sizes c) i -> lo <= kern (l_sizes c) K 0 i <= hi).
Proof. intros Hc Hu (Hm & Hlo & Hhi) c K. pose proof Hc as (Hs & _ & Hlm & _).
  assert (Hr : represents (l_sizes c) (l_units c) K f) by (unfold c; rewrite Hu; apply kmat_represents).
  assert (H0 : (0 < l_units c)%nat) by (unfold c; lia).
  split. apply Forall_forall. exact Hs. split. apply kmat_wf. split. apply kmat_length. split.
  - intros d Hd Ed. apply (monotone_kernel_knondecr c K f 0 d Hr H0 Hm); [|exact Hd].
    apply mono_dims_spec. split. fold c in Hlm. lia. rewrite Ed. discriminate.
  - intros lo hi Elo Ehi. apply (kernel_bounds_kern c K f 0 lo hi Hr H0).
    fold c in Hlo. rewrite Elo in Hlo. exact Hlo. fold c in Hhi. rewrite Ehi in Hhi. exact Hhi. Qed.

(* ---- PWL calibrators: tables built from fixed input_keypoints ---- *)
Lemma kp_diffs_cons : forall r a, kp_diffs (a :: r) = map2 (fun b a => b - a) r (a :: r).
Proof. induction r as [|b r IH]; intros a. reflexivity.
  change (kp_diffs (a :: b :: r)) with ((b - a) :: kp_diffs (b :: r)). rewrite IH. reflexivity. Qed.
Lemma kp_diffs_lengths ks : kp_diffs ks = kp_lengths ks.
Proof. destruct ks as [|a r]. reflexivity. unfold kp_lengths. cbn [tl]. apply kp_diffs_cons. Qed.
Lemma diffs_increasing : forall ks, (forall l, In l (kp_diffs ks) -> 0 < l) -> increasing ks.
Proof. induction ks as [|a ks IH]; intros H. exact I. destruct ks as [|b r]. exact I.
  change (kp_diffs (a :: b :: r)) with ((b - a) :: kp_diffs (b :: r)) in H. split.
  - pose proof (H (b - a) (or_introl eq_refl)). lra.
  - apply IH. intros l Hl. apply H. right. exact Hl. Qed.

Lemma convert_some v clamp a : v = Some a ->
  fst (convert_constraints v clamp) = a /\ snd (convert_constraints v clamp) <> BNone.
Proof. intros ->. cbn. split. reflexivity. destruct clamp; discriminate. Qed.

Lemma pwl_state_facts s w : pwl_spec_ok s -> pwl_inv (pwl_spec_desc s) w -> length w = S (length (ps_kps s) - 1) ->
  let kps := kp_lefts (ps_kps s) in let lens := kp_diffs (ps_kps s) in
  (exists e, segments kps lens e) /\ length w = S (length kps) /\ Forall (fun l => 0 < l) lens /\
  (ps_mono s = 1%Z -> outs_nondecr w) /\ (ps_mono s = (-1)%Z -> outs_nonincr w) /\
  (~ (ps_mono s <> 0%Z /\ ps_conv s <> 0%Z) ->
   forall lo hi, fst (output_range (ps_range s)) = Some lo -> snd (output_range (ps_range s)) = Some hi ->
   forall y, In y (kp_outs w) -> lo <= y <= hi).
Proof. intros (Hn & Hl & _) (Hinc & Hdec & Hb) Hlen kps lens.
  assert (Hpos : forall l, In l (kp_diffs (ps_kps s)) -> 0 < l) by (rewrite kp_diffs_lengths; exact Hl).
  split. { exists (last (ps_kps s) 0). apply fixed_segments. apply diffs_increasing. exact Hpos. }
  split. { unfold kps. rewrite fixed_lefts_length. lia. }
  split. { apply Forall_forall. exact Hpos. }
  cbn [pwl_spec_desc pd_cfg pwl_spec_cfg pwl_layer_cfg p_mono p_conv p_cmin p_cmax p_min p_max] in *.
  split. { intros E. apply pwl_inv_nondecr. apply Hinc. exact E. }
  split. { intros E. apply pwl_inv_nonincr. apply Hdec. exact E. }
  intros Hg lo hi Elo Ehi. destruct (Hb Hg) as [A B].
  destruct (convert_some _ (ps_clamp_min s) lo Elo) as [E1 N1]. destruct (convert_some _ (ps_clamp_max s) hi Ehi) as [E2 N2].
  specialize (A N1). specialize (B N2). rewrite E1 in A. rewrite E2 in B. apply pwl_inv_range; assumption. Qed.

(* one configured bound only *)
Lemma lat_state_one_sided l f : l_units (ld_cfg l) = 1%nat -> lat_inv l f ->
  let c := ld_cfg l in let K := kmat_of (l_sizes c) f in
  (forall lo, l_min c = Some lo -> forall i, valid (l_sizes c) i -> lo <= kern (l_sizes c) K 0 i) /\
  (forall hi, l_max c = Some hi -> forall i, valid (l_sizes c) i -> kern (l_sizes c) K 0 i <= hi).
Proof. intros Hu (_ & Hlo & Hhi) c K.
  assert (Hr : forall i, valid (l_sizes c) i -> kern (l_sizes c) K 0 i == f (i ++ [0%nat]) /\ valid (l_shape c) (i ++ [0%nat])).
  { intros i Hi. split. apply (kmat_represents (l_sizes c) f i 0%nat Hi). lia.
    unfold l_shape. apply valid_app_unit. exact Hi. unfold c. lia. }
  split.
  - intros lo E i Hi. destruct (Hr i Hi) as [-> Hv]. fold c in Hlo. rewrite E in Hlo. apply Hlo. exact Hv.
  - intros hi E i Hi. destruct (Hr i Hi) as [-> Hv]. fold c in Hhi. rewrite E in Hhi. apply Hhi. exact Hv. Qed.

Lemma pwl_state_one_sided s w : pwl_inv (pwl_spec_desc s) w -> ~ (ps_mono s <> 0%Z /\ ps_conv s <> 0%Z) ->
  (forall lo, fst (output_range (ps_range s)) = Some lo -> forall y, In y (kp_outs w) -> lo <= y) /\
  (forall hi, snd (output_range (ps_range s)) = Some hi -> forall y, In y (kp_outs w) -> y <= hi).
Proof. intros (_ & _ & Hb) Hg.
  cbn [pwl_spec_desc pd_cfg pwl_spec_cfg pwl_layer_cfg p_mono p_conv p_cmin p_cmax p_min p_max] in Hb.
  destruct (Hb Hg) as [A B]. rewrite keypoint_outputs_kp_outs in A, B. split.
  - intros lo E y Hy. destruct (convert_some _ (ps_clamp_min s) lo E) as [E1 N1]. specialize (A N1). rewrite E1 in A.
    rewrite Forall_forall in A. apply A. exact Hy.
  - intros hi E y Hy. destruct (convert_some _ (ps_clamp_max s) hi E) as [E2 N2]. specialize (B N2). rewrite E2 in B.
    rewrite Forall_forall in B. apply B. exact Hy. Qed.

(* a finite list has a least and a greatest element: the other end of a one-sided bound *)
Lemma list_range (l : list Q) : forall y, In y l -> qminl l <= y <= qmaxl l.
Proof. intros y Hy. split. apply qminl_le; exact Hy. apply qmaxl_ge; exact Hy. Qed.

(* ====================================================================== *)
(* 3. The calibration layer of a premade model                               *)
(* ====================================================================== *)
(* one feature's calibrator as build_multi_unit_calibration_layers creates it (units = 1):
   PWLCalibration (section G's pwl_spec, kind PKUniform) with missing_input_value =
   feature_config.default_value, impute_missing = (default_value is not None), learned missing
   output; or CategoricalCalibration (cat_spec) with default_input_value = default_value *)
Inductive cal_spec :=
| CSPwl (s : pwl_spec) (default : option Q)
| CSCat (s : cat_spec) (default : option Z).

Definition miss_of (s : pwl_spec) (default : option Q) : option miss_desc :=
  match default with
  | Some _ => let lo := fst (output_range (ps_range s)) in let hi := snd (output_range (ps_range s)) in
              Some (mkMiss lo hi (pwl_missing_init lo hi (ps_clamp_min s) (ps_clamp_max s)))
  | None => None
  end.
Definition cal_ldesc (c : cal_spec) : ldesc :=
  match c with
  | CSPwl s dv => LDPwl (pwl_spec_desc s) (miss_of s dv)
  | CSCat s _ => LDCat (cat_spec_desc s)
  end.
(* the calibrator function (Model/Premade.v calib) realised by the weights v of the layer *)
Definition cal_of (c : cal_spec) (v : lval) : calib :=
  match c, v with
  | CSPwl s dv, VPwl col mo =>
      CPwl (kp_lefts (ps_kps s)) (kp_diffs (ps_kps s)) col
           (match dv, mo with Some m, Some o => Some (m, o) | _, _ => None end)
  | CSCat s dv, VCat vals => CCat vals dv
  | _, _ => dcal
  end.
(* a regular (non-missing) input of the feature, in terms of the configuration only *)
Definition cs_regular (c : cal_spec) (x : Q) : Prop :=
  match c with
  | CSPwl _ (Some m) => ~ x == m
  | CSPwl _ None => True
  | CSCat s d => (0 <= cast_int x < Z.of_nat (cs_n s))%Z /\ d <> Some (cast_int x)
  end.

(* how premade_lib wires feature f (canonical monotonicity; pwl_calibration_always_monotonic) to its
   calibrator when the calibrator's output goes to a layer expecting range r:
   PWL monotonicity = calibrator_mono, output range / init range = _output_range(r), UniformOutputInitializer;
   categorical: monotonicities = the feature's pair list. *)
Definition cal_wired (f : fmono) (always : bool) (r : layer_range) (oi : list Q) (c : cal_spec) : Prop :=
  match c with
  | CSPwl s dv =>
      (exists m, f = MNum m /\ ps_mono s = calibrator_mono m always) /\
      ps_range s = r /\ ps_oi s = oi /\ ps_kind s = PKUniform /\ pwl_spec_ok s
  | CSCat s dv =>
      f = MPairs (cs_pairs s) /\ cs_range s = r /\ cat_spec_ok s
  end.
(* the guard of known finding D2 (C04: the output BOUNDS of a PWL calibrator that is monotone AND
   convex / concave are not re-established by the projection); needed wherever the RANGE of an input
   calibrator matters: always in front of a lattice (clip_inputs=False), for the bounds of a linear model *)
Definition cal_d2_free (c : cal_spec) : Prop :=
  match c with CSPwl s _ => ~ (ps_mono s <> 0%Z /\ ps_conv s <> 0%Z) | CSCat _ _ => True end.

Lemma length_pwl_linear_init nk imin imax mono kps : kps_ok nk kps ->
  (2 <= nk)%nat -> length (pwl_linear_init_col nk imin imax mono kps) = nk.
Proof. intros Hk Hn. unfold pwl_linear_init_col. destruct (mono =? -1)%Z; cbn [length];
  rewrite ?map_length, heights_length by exact Hk; lia. Qed.

Lemma length_ediff1d oi : length (ediff1d oi) = length oi.
Proof. destruct oi as [|a r]. reflexivity. cbn [ediff1d length]. rewrite map2_length. cbn [length]. lia. Qed.

Lemma pwl_spec_init_length s : pwl_spec_ok s ->
  (ps_kind s = PKOutputCalibration -> length (ps_oi s) = length (ps_kps s)) ->
  length (pwl_spec_init s) = S (length (ps_kps s) - 1).
Proof. intros (Hn & Hl & _) Ho. unfold pwl_spec_init. destruct (ps_kind s).
  - unfold premade_pwl_init. rewrite length_pwl_linear_init. lia. split. reflexivity. exact Hl. exact Hn.
  - destruct (convert_all_constraints _ _ _ _) as [[[imin imax] k1] k2].
    rewrite length_pwl_linear_init. lia. exact I. exact Hn.
  - rewrite length_ediff1d, Ho by reflexivity. lia. Qed.

Lemma cat_spec_init_length s : cat_spec_ok s -> length (cat_spec_init s) = cs_n s.
Proof. intros (Hac & Hr & Hl). unfold cat_spec_init, cat_build_init.
  assert (G : forall lo hi, length (cat_con (cs_pairs s) lo hi (cs_raw s)) = cs_n s).
  { intros lo hi. unfold cat_con.
    assert (Hpr : pairs_in_range (cs_pairs s) (cs_raw s)) by (intros i j Hij; rewrite Hl; apply Hr; exact Hij).
    destruct (cat_defined (cs_pairs s) lo hi (cs_raw s) Hac Hpr) as [r [E Hlr]]. rewrite E. lia. }
  generalize (G (fst (output_range (cs_range s))) (snd (output_range (cs_range s)))).
  destruct (cs_pairs s); destruct (fst (output_range (cs_range s))); destruct (snd (output_range (cs_range s))); auto. Qed.

Lemma miss_of_ok s dv : pwl_spec_ok s -> match miss_of s dv with Some md => miss_desc_ok md | None => True end.
Proof. intros (_ & _ & _ & _ & _ & Hb & _). destruct dv as [m|]; cbn [miss_of]; [|exact I].
  split; cbn [ms_lo ms_hi ms_init]. exact Hb.
  unfold miss_inv, pwl_missing_init; cbn [ms_lo ms_hi ms_init].
  pose proof (convert_range _ _ (ps_clamp_min s) (ps_clamp_max s) Hb) as Hcv.
  destruct (convert_all_constraints _ _ _ _) as [[[imin imax] k1] k2]. destruct Hcv as (Hr & Hlo & Hhi).
  split; intros a Ea. specialize (Hlo a Ea). lra. specialize (Hhi a Ea). lra. Qed.

(* section G: the descriptor of a wired calibrator is acceptable - initial values included *)
Lemma cal_ldesc_ok f always r oi c : cal_wired f always r oi c -> ldesc_ok (cal_ldesc c).
Proof. destruct c as [s dv|s dv]; cbn [cal_wired cal_ldesc ldesc_ok].
  - intros (_ & _ & _ & Ek & Hok). split. apply pwl_spec_desc_ok. exact Hok.
    split. { cbn [pwl_spec_desc pd_init pd_n]. apply pwl_spec_init_length. exact Hok. rewrite Ek. discriminate. }
    apply miss_of_ok. exact Hok.
  - intros (_ & _ & Hok). split. apply cat_spec_desc_ok. exact Hok.
    cbn [cat_spec_desc cd_init cd_n]. apply cat_spec_init_length. exact Hok. Qed.

(* the calibrator hypotheses of the composition theorems, from the layer invariant:
   the shape of the calibrator, its direction, and (with both range ends configured) its range *)
Definition cs_default (c : cal_spec) : option Z := match c with CSCat _ d => d | CSPwl _ _ => None end.
Definition cal_form (c : cal_spec) (cal : calib) : Prop :=
  match c with
  | CSPwl s dv => exists col miss, cal = CPwl (kp_lefts (ps_kps s)) (kp_diffs (ps_kps s)) col miss /\
       Forall (fun l => 0 < l) (kp_diffs (ps_kps s)) /\
       (forall x, cs_regular c x -> regular_input cal x) /\
       (ps_mono s = 1%Z -> outs_nondecr col) /\ (ps_mono s = (-1)%Z -> outs_nonincr col)
  | CSCat s dv => exists vals, cal = CCat vals dv /\ length vals = cs_n s /\ feasible (cs_pairs s) vals
  end.

Lemma cal_state_facts f always r oi c v : cal_wired f always r oi c -> linv (cal_ldesc c) v ->
  cal_form c (cal_of c v) /\
  (cal_d2_free c -> forall lo hi, output_range r = (Some lo, Some hi) -> lo <= hi -> calib_range (cal_of c v) lo hi).
Proof. destruct c as [s dv|s dv]; cbn [cal_wired cal_ldesc cal_d2_free]; intros Hw Hi.
  - destruct Hw as (_ & Er & _ & _ & Hok).
    destruct v as [w o|w|g|k b|kp]; cbn [linv] in Hi; try contradiction. destruct Hi as (Hinv & Hlen & Hm).
    cbn [pwl_spec_desc pd_n] in Hlen.
    destruct (pwl_state_facts s w Hok Hinv Hlen) as (Hseg & Hl & Hpos & Hinc & Hdec & Hrange).
    cbn [cal_of cal_form]. split.
    + eexists _, _. split. reflexivity. split. exact Hpos. split; [|split; assumption].
      intros x Hx. cbn [cs_regular] in Hx. destruct dv as [m|], o as [q|]; cbn [regular_input]; auto.
    + intros Hg lo hi Eo Hle. rewrite Er in Hrange. rewrite Eo in Hrange. cbn [fst snd] in Hrange.
      cbn [calib_range]. split. exact Hseg. split. exact Hl. split. exact (Hrange Hg lo hi eq_refl eq_refl).
      destruct dv as [m|]; [|exact I]. cbn [miss_of] in Hm. destruct o as [q|]; [|contradiction].
      unfold miss_inv in Hm; cbn [ms_lo ms_hi] in Hm. rewrite Er, Eo in Hm. cbn [fst snd] in Hm. destruct Hm as [A B].
      split. apply A. reflexivity. apply B. reflexivity.
  - destruct Hw as (_ & Er & Hok).
    destruct v as [w o|w|g|k b|kp]; cbn [linv] in Hi; try contradiction. destruct Hi as ((Hf & Hb) & Hlen).
    cbn [cat_spec_desc cd_pairs cd_lo cd_hi cd_n] in *. cbn [cal_of cal_form]. split.
    + exists w. split. reflexivity. split; assumption.
    + intros _ lo hi Eo Hle. rewrite Er, Eo in Hb. cbn [fst snd] in Hb. cbn [calib_range]. intros x Hx.
      destruct (Hb x Hx) as [A B]. split. apply B. reflexivity. intros h E; injection E as <-; exact Hle.
      apply A. reflexivity. Qed.

(* ---- list plumbing ---- *)
Lemma Forall2_nth {A B} (R : A -> B -> Prop) l l' i da db : Forall2 R l l' -> (i < length l)%nat ->
  R (nth i l da) (nth i l' db).
Proof. intros H. revert i. induction H as [|a b l l' Hab H IH]; intros i Hi; cbn in Hi. lia.
  destruct i as [|i]; cbn [nth]. exact Hab. apply IH. lia. Qed.
Lemma Forall2_len {A B} (R : A -> B -> Prop) l l' : Forall2 R l l' -> length l = length l'.
Proof. induction 1; cbn; congruence. Qed.
Lemma map2_app_exact {A B C} (g : A -> B -> C) : forall a b b', length a = length b -> map2 g a (b ++ b') = map2 g a b.
Proof. induction a as [|x a IH]; intros [|y b] b' H; try discriminate. destruct b'; reflexivity.
  cbn [app map2]. f_equal. apply IH. cbn in H; lia. Qed.
Lemma in_map_nth {A B} (g : A -> B) (P : B -> Prop) l da : (forall i, (i < length l)%nat -> P (g (nth i l da))) ->
  forall d, In d (map g l) -> P d.
Proof. intros H d Hd. apply in_map_iff in Hd. destruct Hd as [a [<- Ha]]. destruct (In_nth _ _ da Ha) as [i [Hi <-]]. auto. Qed.

(* ====================================================================== *)
(* 4. tfl.premade.CalibratedLattice (all_vertices)                           *)
(* ====================================================================== *)
(* The model description: what premade.CalibratedLattice.__init__ hands to the builders.
     cl_feats   canonical monotonicity of every feature (MNum 1 / -1 / 0, MPairs pair list)
     cl_always  pwl_calibration_always_monotonic of every feature
     cl_cals    the calibrator layer of every feature (build_calibration_layers, INPUT_TO_LATTICE, units 1)
     cl_lat     the Lattice layer (build_lattice_layer, all_vertices; LinearInitializer with cl_unis)
     cl_scheme  model_config.interpolation
     cl_outc    the output calibrator (build_output_calibration_layer) when output_calibration is set
     cl_min / cl_max / cl_oi   output_min / output_max / output_initialization *)
Record cl_model := mkCL {
  cl_feats : list fmono; cl_always : list bool; cl_cals : list cal_spec;
  cl_lat : lat_spec; cl_unis : list Z; cl_scheme : scheme;
  cl_outc : option pwl_spec;
  cl_min : option Q; cl_max : option Q; cl_oi : list Q }.
Definition cl_sizes (md : cl_model) : list nat := l_sizes (ls_cfg (cl_lat md)).

(* np.linspace(0.0, 1.0, num=n) *)
Definition linspace01 (n : nat) : list Q := map (fun k => qn k / qn (n - 1)) (seq 0 n).
(* build_output_calibration_layer: keypoints linspace(0, 1, len(output_initialization)), monotonicity 1,
   no convexity, no clamps, bounds = the model's, Constant(ediff1d(output_initialization)) *)
Definition outc_wired (omin omax : option Q) (oi : list Q) (s : pwl_spec) : Prop :=
  ps_kps s = linspace01 (length oi) /\ ps_mono s = 1%Z /\ ps_conv s = 0%Z /\
  ps_clamp_min s = false /\ ps_clamp_max s = false /\
  ps_range s = ModelOutput omin omax /\ ps_oi s = oi /\ ps_kind s = PKOutputCalibration /\ pwl_spec_ok s.

Definition dcs : cal_spec := CSCat (mkCatS [] InputToFinalCalibration 0 []) None.
Definition dval : lval := VLin [] 0.

(* validity: CONFIGURATION facts only (no statement about any weight, initial or later).
   Guards tied to known findings, all inside the component predicates:
     D1  lat_spec_ok: not (trapezoid trust with a monotone conditional feature while Edgeworth trusts exist)
     D2  cal_d2_free: no input calibrator both monotone and convex / concave
     D65 lat_spec_ok / pwl_spec_ok: output_initialization inside [output_min, output_max] (oi_in_bounds),
         sorted when it initialises the output calibrator *)
Definition cl_ok (md : cl_model) : Prop :=
  let c := ls_cfg (cl_lat md) in let n := length (cl_feats md) in
  length (cl_cals md) = n /\ length (cl_always md) = n /\ length (l_sizes c) = n /\
  (* build_calibration_layers: feature i -> calibrator i with range [0, lattice_size_i - 1] *)
  (forall i, (i < n)%nat ->
     cal_wired (nth i (cl_feats md) (MNum 0)) (nth i (cl_always md) false)
               (InputToLattice (nth i (l_sizes c) 0%nat)) (cl_oi md) (nth i (cl_cals md) dcs) /\
     cal_d2_free (nth i (cl_cals md) dcs)) /\
  (* build_lattice_layer: one unit, monotonicities = _monotonicities_from_feature_configs, bounds and
     init range = _output_range(INPUT_TO_FINAL_CALIBRATION if output_calibration else MODEL_OUTPUT) *)
  l_units c = 1%nat /\ l_monos c = map lattice_dim_mono (cl_feats md) /\
  ls_kind (cl_lat md) = LKLinear (cl_unis md) /\ ls_oi (cl_lat md) = cl_oi md /\
  ls_range (cl_lat md) = (match cl_outc md with Some _ => InputToFinalCalibration
                                           | None => ModelOutput (cl_min md) (cl_max md) end) /\
  lat_spec_ok (cl_lat md) /\
  match cl_outc md with Some s => outc_wired (cl_min md) (cl_max md) (cl_oi md) s | None => True end.

(* the layers, in state order: calibrators, lattice, output calibrator *)
Definition cl_descs (md : cl_model) : list ldesc :=
  map cal_ldesc (cl_cals md) ++ LDLat (lat_spec_desc (cl_lat md)) ::
  match cl_outc md with Some s => [LDPwl (pwl_spec_desc s) None] | None => [] end.
Definition cl_vars (md : cl_model) : list (var lval) := map lvar (cl_descs md).

(* the model function realised by the weights of a state *)
Definition lat_K (sizes : list nat) (v : lval) : list (list Q) := match v with VLat f => kmat_of sizes f | _ => [] end.
Definition outc_of (s : option pwl_spec) (v : lval) : out_calib :=
  match s, v with Some s, VPwl col _ => Some (kp_lefts (ps_kps s), kp_diffs (ps_kps s), col) | _, _ => None end.
Definition cl_eval (md : cl_model) (st : list lval) (x : list Q) : Q :=
  let n := length (cl_cals md) in
  cal_lattice_eval (cl_scheme md) (cl_sizes md) (lat_K (cl_sizes md) (nth n st dval))
                   (map2 cal_of (cl_cals md) st) (outc_of (cl_outc md) (nth (S n) st dval)) x.

Lemma linspace01_length n : length (linspace01 n) = n.
Proof. unfold linspace01. rewrite map_length, seq_length. reflexivity. Qed.

Lemma outc_desc_ok omin omax oi s : outc_wired omin omax oi s -> ldesc_ok (LDPwl (pwl_spec_desc s) None).
Proof. intros (Ek & _ & _ & _ & _ & _ & Eo & _ & Hok). cbn [ldesc_ok]. split. apply pwl_spec_desc_ok. exact Hok.
  split; [|exact I]. cbn [pwl_spec_desc pd_init pd_n]. apply pwl_spec_init_length. exact Hok.
  intros _. rewrite Eo, Ek, linspace01_length. reflexivity. Qed.

(* section G: every layer descriptor of a valid model is acceptable *)
Lemma cl_descs_ok md : cl_ok md -> forall d, In d (cl_descs md) -> ldesc_ok d.
Proof. intros (Hc & _ & _ & Hw & _ & _ & _ & _ & _ & Hl & Ho) d Hd. unfold cl_descs in Hd.
  apply in_app_or in Hd. destruct Hd as [Hd|[<-|Hd]].
  - revert d Hd. apply (in_map_nth cal_ldesc ldesc_ok (cl_cals md) dcs). intros i Hi.
    eapply cal_ldesc_ok. apply (Hw i). lia.
  - cbn [ldesc_ok]. apply lat_spec_desc_ok. exact Hl.
  - destruct (cl_outc md) as [s|]; [|destruct Hd]. destruct Hd as [<-|[]]. eapply outc_desc_ok. exact Ho. Qed.

(* sections A/B: every reached state satisfies every layer invariant *)
Lemma cl_reachable md ops st : cl_ok md -> ops_shaped lval ldesc lshape (cl_descs md) ops ->
  In st (run (cl_vars md) ops) -> Forall2 linv (cl_descs md) st.
Proof. intros Hok Hops Hs. exact (reachable_feasible_layers (cl_descs md) ops (cl_descs_ok md Hok) Hops st Hs). Qed.

Lemma cl_state_split md st : Forall2 linv (cl_descs md) st ->
  exists s1 f s3, st = s1 ++ VLat f :: s3 /\ Forall2 linv (map cal_ldesc (cl_cals md)) s1 /\
    lat_inv (lat_spec_desc (cl_lat md)) f /\
    match cl_outc md with
    | Some s => exists w o, s3 = [VPwl w o] /\ pwl_inv (pwl_spec_desc s) w /\ length w = S (length (ps_kps s) - 1)
    | None => s3 = []
    end.
Proof. unfold cl_descs. intros H. apply Forall2_app_inv_l in H. destruct H as (s1 & s2 & H1 & H2 & ->).
  inversion H2 as [|d v l s3 Hv H3]; subst. destruct v as [w o|w|f|k b|kp]; cbn [linv] in Hv; try contradiction.
  exists s1, f, s3. split. reflexivity. split. exact H1. split. exact Hv.
  destruct (cl_outc md) as [s|].
  - inversion H3 as [|d v l s4 Hv' H4]; subst. inversion H4; subst.
    destruct v as [w o|w|g|k b|kp]; cbn [linv] in Hv'; try contradiction. destruct Hv' as (A & B & _).
    exists w, o. split. reflexivity. split. exact A. exact B.
  - inversion H3. reflexivity. Qed.

Lemma lat_spec_cfg s : ld_cfg (lat_spec_desc s) = ls_cfg s.
Proof. reflexivity. Qed.

(* the invariants of a reached state ARE the hypotheses of the composition theorems *)
Lemma cl_state_facts md st : cl_ok md -> Forall2 linv (cl_descs md) st ->
  let sizes := cl_sizes md in let n := length (cl_feats md) in
  let K := lat_K sizes (nth (length (cl_cals md)) st dval) in
  let cals := map2 cal_of (cl_cals md) st in
  let oc := outc_of (cl_outc md) (nth (S (length (cl_cals md))) st dval) in
  sizes <> [] /\ sizes_ok sizes /\ wfK 1 K 0 /\ length cals = length sizes /\ length sizes = n /\
  cals_in_range sizes cals /\
  (forall i, (i < n)%nat -> lattice_dim_mono (nth i (cl_feats md) (MNum 0)) = 1%Z -> knondecr sizes (kern sizes K 0) i) /\
  out_monotone oc /\
  (forall i, (i < n)%nat -> cal_form (nth i (cl_cals md) dcs) (nth i cals dcal)) /\
  (forall lo hi, cl_min md = Some lo -> cl_max md = Some hi ->
     (oc = None -> forall i, valid sizes i -> lo <= kern sizes K 0 i <= hi) /\ out_range oc lo hi) /\
  (* only one bound configured: the other end is the least / greatest weight of the last layer *)
  (forall lo, cl_min md = Some lo -> exists hi,
     (oc = None -> forall i, valid sizes i -> lo <= kern sizes K 0 i <= hi) /\ out_range oc lo hi) /\
  (forall hi, cl_max md = Some hi -> exists lo,
     (oc = None -> forall i, valid sizes i -> lo <= kern sizes K 0 i <= hi) /\ out_range oc lo hi).
Proof. intros (Hc & Ha & Hsz & Hw & Hu & Hm & Hk & Hoi & Hr & Hl & Ho) H.
  destruct (cl_state_split md st H) as (s1 & f & s3 & -> & H1 & Hf & H3). clear H.
  assert (L1 : length s1 = length (cl_cals md)) by (rewrite <- (Forall2_len _ _ _ H1), map_length; reflexivity).
  cbv zeta. rewrite app_nth2 by lia. rewrite L1, Nat.sub_diag. cbn [nth lat_K].
  rewrite app_nth2 by lia. replace (S (length (cl_cals md)) - length s1)%nat with 1%nat by lia. cbn [nth].
  rewrite map2_app_exact by lia.
  pose proof Hl as (Hcfg & _ & _ & Hne & Emin & Emax & _).
  pose proof (lat_state_facts (lat_spec_desc (cl_lat md)) f Hcfg Hu Hf) as Hlat. cbv zeta in Hlat. rewrite lat_spec_cfg in Hlat.
  pose proof (lat_state_one_sided (lat_spec_desc (cl_lat md)) f Hu Hf) as Hone. cbv zeta in Hone. rewrite lat_spec_cfg in Hone.
  fold (cl_sizes md) in Hlat, Hne, Hsz, Hone. destruct Hlat as (Hso & Hwf & LK & Hmono & Hbnd). destruct Hone as [Hlow Hupp].
  set (sizes := cl_sizes md) in *. set (cals := map2 cal_of (cl_cals md) s1).
  assert (Lc : length cals = length sizes) by (unfold cals; rewrite map2_length; lia).
  (* calibrator i of the state *)
  assert (Hcal : forall i, (i < length (cl_feats md))%nat ->
            nth i cals dcal = cal_of (nth i (cl_cals md) dcs) (nth i s1 dval) /\
            linv (cal_ldesc (nth i (cl_cals md) dcs)) (nth i s1 dval)).
  { intros i Hi. split. unfold cals. apply nth_map2; lia.
    pose proof (Forall2_nth linv _ _ i (cal_ldesc dcs) dval H1 ltac:(rewrite map_length; lia)) as G.
    rewrite map_nth in G. exact G. }
  split. exact Hne. split. exact Hso. split. exact Hwf. split. exact Lc. split. exact Hsz.
  split; [|split; [|split; [|split; [|split; [|split]]]]].
  - intros j Hj. destruct (Hcal j ltac:(lia)) as [-> Hinv].
    destruct (Hw j ltac:(lia)) as [Hwj Hgj].
    destruct (cal_state_facts _ _ _ _ _ _ Hwj Hinv) as [_ G]. apply G. exact Hgj. reflexivity.
    pose proof (qn_size_ge sizes j Hso Hj). lra.
  - intros i Hi Ei. apply Hmono. lia. rewrite Hm.
    rewrite nth_indep with (d' := lattice_dim_mono (MNum 0)) by (rewrite map_length; lia). rewrite map_nth. exact Ei.
  - destruct (cl_outc md) as [s|]; [|exact I]. destruct H3 as (w & o & -> & Hinv & Hlen).
    destruct Ho as (_ & Em & _ & _ & _ & _ & _ & _ & Hok). cbn [nth outc_of out_monotone].
    destruct (pwl_state_facts s w Hok Hinv Hlen) as (_ & _ & Hpos & Hinc & _). split. exact Hpos. apply Hinc. exact Em.
  - intros i Hi. destruct (Hcal i Hi) as [-> Hinv].
    destruct (cal_state_facts _ _ _ _ _ _ (proj1 (Hw i Hi)) Hinv) as [G _]. exact G.
  - intros lo hi Elo Ehi. destruct (cl_outc md) as [s|].
    + destruct H3 as (w & o & -> & Hinv & Hlen). cbn [nth outc_of]. split. discriminate.
      destruct Ho as (_ & Em & Ec & _ & _ & Er & _ & _ & Hok). cbn [out_range].
      destruct (pwl_state_facts s w Hok Hinv Hlen) as (Hseg & Hl' & _ & _ & _ & Hrange).
      split. exact Hseg. split. exact Hl'. apply Hrange. intros [_ E]. apply E. exact Ec.
      rewrite Er. exact Elo. rewrite Er. exact Ehi.
    + subst s3. cbn [nth outc_of out_range]. split; [|exact I]. intros _. apply Hbnd.
      rewrite Emin, Hr. exact Elo. rewrite Emax, Hr. exact Ehi.
  - intros lo Elo. destruct (cl_outc md) as [s|].
    + destruct H3 as (w & o & -> & Hinv & Hlen). cbn [nth outc_of].
      destruct Ho as (_ & Em & Ec & _ & _ & Er & _ & _ & Hok). exists (qmaxl (kp_outs w)). split. discriminate.
      destruct (pwl_state_facts s w Hok Hinv Hlen) as (Hseg & Hl' & _).
      destruct (pwl_state_one_sided s w Hinv ltac:(intros [_ E]; apply E; exact Ec)) as [A _].
      cbn [out_range]. split. exact Hseg. split. exact Hl'. intros y Hy. split.
      apply (A lo); [rewrite Er; exact Elo|exact Hy]. apply qmaxl_ge. exact Hy.
    + subst s3. cbn [nth outc_of out_range]. exists (qmaxl (column 0 (kmat_of sizes f))). split; [|exact I]. intros _ i Hi. split.
      apply (Hlow lo); [rewrite Emin, Hr; exact Elo|exact Hi]. apply (kern_minmax sizes _ 0 LK i Hi).
  - intros hi Ehi. destruct (cl_outc md) as [s|].
    + destruct H3 as (w & o & -> & Hinv & Hlen). cbn [nth outc_of].
      destruct Ho as (_ & Em & Ec & _ & _ & Er & _ & _ & Hok). exists (qminl (kp_outs w)). split. discriminate.
      destruct (pwl_state_facts s w Hok Hinv Hlen) as (Hseg & Hl' & _).
      destruct (pwl_state_one_sided s w Hinv ltac:(intros [_ E]; apply E; exact Ec)) as [_ B].
      cbn [out_range]. split. exact Hseg. split. exact Hl'. intros y Hy. split.
      apply qminl_le. exact Hy. apply (B hi); [rewrite Er; exact Ehi|exact Hy].
    + subst s3. cbn [nth outc_of out_range]. exists (qminl (column 0 (kmat_of sizes f))). split; [|exact I]. intros _ i Hi. split.
      apply (kern_minmax sizes _ 0 LK i Hi). apply (Hupp hi); [rewrite Emax, Hr; exact Ehi|exact Hi]. Qed.

Lemma calibrator_mono_nonzero m always : m <> 0%Z -> calibrator_mono m always = m.
Proof. intros H. unfold calibrator_mono. destruct (Z.eqb_spec m 0). contradiction. reflexivity. Qed.

(* ---------------------------------------------------------------------- *)
(* END-TO-END: configuration -> any history -> every input                   *)
(* ---------------------------------------------------------------------- *)
Theorem calibrated_lattice_end_to_end : forall md ops st,
  cl_ok md -> ops_shaped lval ldesc lshape (cl_descs md) ops -> In st (run (cl_vars md) ops) ->
  let F := cl_eval md st in let n := length (cl_feats md) in
  (* (i) increasing / decreasing numeric feature i, every pair of regular inputs, in or out of range *)
  (forall i x v, (i < n)%nat -> length x = n ->
     cs_regular (nth i (cl_cals md) dcs) (nth i x 0) -> cs_regular (nth i (cl_cals md) dcs) v -> nth i x 0 <= v ->
     (nth i (cl_feats md) (MNum 0) = MNum 1 -> F x <= F (set_nth i v x)) /\
     (nth i (cl_feats md) (MNum 0) = MNum (-1) -> F (set_nth i v x) <= F x)) /\
  (* categorical feature i, ordering pair (a, b), neither bucket being the default (missing) one *)
  (forall i x ps a b, (i < n)%nat -> length x = n ->
     nth i (cl_feats md) (MNum 0) = MPairs ps -> In (a, b) ps ->
     cs_default (nth i (cl_cals md) dcs) <> Some (Z.of_nat a) -> cs_default (nth i (cl_cals md) dcs) <> Some (Z.of_nat b) ->
     F (set_nth i (qn a) x) <= F (set_nth i (qn b) x)) /\
  (* (ii) bounds, for every input vector (missing values, unknown buckets, out-of-range numbers included);
     each configured bound on its own *)
  (forall lo x, cl_min md = Some lo -> length x = n -> lo <= F x) /\
  (forall hi x, cl_max md = Some hi -> length x = n -> F x <= hi).
Proof. intros md ops st Hok Hops Hs F n.
  pose proof (cl_reachable md ops st Hok Hops Hs) as Hinv.
  pose proof (cl_state_facts md st Hok Hinv) as Hfacts. cbv zeta in Hfacts.
  destruct Hfacts as (Hne & Hso & Hwf & Lc & Ls & Hrange & Hmono & Hom & Hform & _ & Hlow & Hupp).
  pose proof Hok as (_ & _ & _ & Hw & _). fold n in Ls, Hmono, Hform, Hw.
  unfold F, cl_eval. split; [|split; [|split]].
  - intros i x v Hi Hx Rx Rv Hle. specialize (Hform i Hi). specialize (Hw i Hi). destruct Hw as [Hw _].
    assert (Hdir : forall m, (m = 1 \/ m = -1)%Z -> nth i (cl_feats md) (MNum 0) = MNum m ->
              exists s dv, nth i (cl_cals md) dcs = CSPwl s dv /\ ps_mono s = m).
    { intros m Hm E. destruct (nth i (cl_cals md) dcs) as [s dv|s dv]; cbn [cal_wired] in Hw.
      - destruct Hw as ((m' & E' & Em) & _). rewrite E in E'. injection E' as <-. exists s, dv. split. reflexivity.
        rewrite Em. apply calibrator_mono_nonzero. lia.
      - destruct Hw as (E' & _). rewrite E in E'. discriminate. }
    assert (Hk : forall m, (m = 1 \/ m = -1)%Z -> nth i (cl_feats md) (MNum 0) = MNum m ->
              knondecr (cl_sizes md) (kern (cl_sizes md) (lat_K (cl_sizes md) (nth (length (cl_cals md)) st dval)) 0) i).
    { intros m Hm E. apply Hmono. exact Hi. rewrite E. cbn [lattice_dim_mono]. destruct (Z.eqb_spec m 0); [lia|reflexivity]. }
    split; intros E.
    + destruct (Hdir 1%Z (or_introl eq_refl) E) as (s & dv & Ec & Em). rewrite Ec in *. cbn [cal_form] in Hform.
      destruct Hform as (col & miss & Ecal & _ & Hreg & Hinc & _).
      refine (proj1 (compose_monotone_lattice _ _ _ _ _ x i v _ _ col miss Hso Hwf Lc ltac:(lia) ltac:(lia) Hrange
                (Hk 1%Z (or_introl eq_refl) E) Hom Ecal _ _ Hle) (Hinc Em)); apply Hreg; assumption.
    + destruct (Hdir (-1)%Z (or_intror eq_refl) E) as (s & dv & Ec & Em). rewrite Ec in *. cbn [cal_form] in Hform.
      destruct Hform as (col & miss & Ecal & _ & Hreg & _ & Hdec).
      refine (proj2 (compose_monotone_lattice _ _ _ _ _ x i v _ _ col miss Hso Hwf Lc ltac:(lia) ltac:(lia) Hrange
                (Hk (-1)%Z (or_intror eq_refl) E) Hom Ecal _ _ Hle) (Hdec Em)); apply Hreg; assumption.
  - intros i x ps a b Hi Hx E Hab Da Db. specialize (Hform i Hi). specialize (Hw i Hi). destruct Hw as [Hw _].
    destruct (nth i (cl_cals md) dcs) as [s dv|s dv]; cbn [cal_wired] in Hw.
    { destruct Hw as ((m' & E' & _) & _). rewrite E in E'. discriminate. }
    destruct Hw as (E' & _ & (_ & Hin & _)). rewrite E in E'. injection E' as ->.
    cbn [cal_form] in Hform. destruct Hform as (vals & Ecal & Lv & Hfe). cbn [cs_default] in Da, Db.
    destruct (Hin a b Hab) as [Ha Hb].
    apply (compose_monotone_lattice_categorical _ _ _ _ _ x i vals dv a b Hso Hwf Lc ltac:(lia) ltac:(lia) Hrange); try assumption; try lia.
    apply Hmono. exact Hi. rewrite E. destruct (cs_pairs s); [destruct Hab|reflexivity].
    apply Hfe. exact Hab.
  - intros lo x Elo Hx. destruct (Hlow lo Elo) as (hi & HK & Hor).
    apply (bounded_lattice (cl_scheme md) _ _ _ _ lo hi x); try assumption; lia.
  - intros hi x Ehi Hx. destruct (Hupp hi Ehi) as (lo & HK & Hor).
    apply (bounded_lattice (cl_scheme md) _ _ _ _ lo hi x); try assumption; lia. Qed.

(* ---- the hypotheses are satisfiable: a concrete model and a hostile history ----
   feature 0: numeric, increasing, keypoints 0, 1, 3, default_value -1 (learned missing output), lattice_size 2;
   feature 1: categorical, 3 buckets, ordering pair (0, 2), default_value -1, lattice_size 3
              (RandomUniform draw 7/8, -1/4, 1/8: out of order and out of range, repaired by build());
   output_min -2, output_max 2, output_initialization [-2, 2], no output calibration, hypercube interpolation. *)
Definition ex_cl_pwl : pwl_spec := mkPwlS [0; 1; 3] 1 0 false false 8 (InputToLattice 2) [-(2); 2] PKUniform.
Definition ex_cl_cat : cat_spec := mkCatS [(0, 2)]%nat (InputToLattice 3) 3 [7#8; -(1#4); 1#8].
Definition ex_cl_lat : lat_spec :=
  mkLatS (mkLat [2; 3]%nat 1 [1; 1]%Z [] [] (Some (-(2))) (Some 2)) true (fun K => K)
         (ModelOutput (Some (-(2))) (Some 2)) [-(2); 2] (LKLinear [0; 0]%Z).
Definition ex_cl : cl_model :=
  mkCL [MNum 1; MPairs [(0, 2)]%nat] [false; false] [CSPwl ex_cl_pwl (Some (-(1))); CSCat ex_cl_cat (Some (-1)%Z)]
       ex_cl_lat [0; 0]%Z Hypercube None (Some (-(2))) (Some 2) [-(2); 2].

Example ex_cl_ok : cl_ok ex_cl.
Proof. unfold cl_ok, ex_cl; cbn [cl_feats cl_always cl_cals cl_lat cl_unis cl_outc cl_min cl_max cl_oi length].
  split. reflexivity. split. reflexivity. split. reflexivity. split.
  { intros i Hi. destruct i as [|[|i]]; [| |lia]; cbn [nth cal_wired].
    - split; [|intros [_ E]; apply E; reflexivity].
      split. exists 1%Z. split; reflexivity. split. reflexivity. split. reflexivity. split. reflexivity.
      apply ex_pwl_common. cbn; lia. intros l H; cbn in H; in_cases H. right; right; reflexivity.
      intros a b Ha Hb; inversion Ha; inversion Hb; subst. vm_compute; discriminate. exact I.
    - split; [|exact I]. split. reflexivity. split. reflexivity. split; [|split].
      + apply (acyclic_rank _ (fun x => x)). intros a b H. cbn in H. destruct H as [H|[]]; inversion H; subst; lia.
      + intros i' j H. cbn in H. destruct H as [H|[]]; inversion H; subst; cbn; lia.
      + reflexivity. }
  split. reflexivity. split. reflexivity. split. reflexivity. split. reflexivity. split. reflexivity.
  split; [|exact I].
  unfold lat_spec_ok, ex_cl_lat; cbn [ls_cfg ls_ran ls_range ls_oi ls_kind]. split.
  { apply ex_cfg_ok; try reflexivity; try lia; try lra. intros s H; in_cases H. intros m H; in_cases H. }
  split. left; reflexivity. split. intros [H _]; apply H; reflexivity. split. discriminate.
  split. reflexivity. split. reflexivity.
  split. { split. discriminate. intros x H. split; intros b Hb; inversion Hb; subst; in_cases H. }
  split. reflexivity. intros d. nth_cases d. Qed.

(* a hostile 2-step history: a step that throws every weight far outside its feasible set
   (decreasing calibrator, reversed buckets, decreasing kernel far outside the bounds), then another one *)
Definition ex_cl_raw1 (i : nat) : lval :=
  match i with
  | 0%nat => VPwl [-(100); 7; -(50)] (Some 9)
  | 1%nat => VCat [5; -(3); 0]
  | _ => VLat (fun i => 10 - 7 * qn (nth 0 i 0%nat) - 4 * qn (nth 1 i 0%nat))
  end.
Definition ex_cl_raw2 (i : nat) : lval :=
  match i with
  | 0%nat => VPwl [1#4; 1#2; 5] (Some (-(3)))
  | 1%nat => VCat [0; 3; 3#2]
  | _ => VLat (fun i => qn (nth 0 i 0%nat) * (1#2) + qn (nth 1 i 0%nat) * (3#2) - qn (nth 1 i 0%nat * nth 1 i 0%nat))
  end.
Definition ex_cl_ops : list (op lval) := [Update ex_cl_raw1; Update ex_cl_raw2].

Example ex_cl_ops_shaped : ops_shaped lval ldesc lshape (cl_descs ex_cl) ex_cl_ops.
Proof. intros delta H i d Hd. cbn in H.
  destruct H as [H|[H|[]]]; injection H as <-;
    (destruct i as [|[|[|i]]]; cbn in Hd; [| | |destruct i; discriminate]; injection Hd as <-; cbn [lshape];
     [split; [eexists _, _; split; reflexivity|split; discriminate]|reflexivity|exact I]). Qed.

Lemma final_in_run {val} (vs : list (var val)) ops : In (final vs ops) (run vs ops).
Proof. unfold final. assert (G : forall (ops : list (op val)) h, h <> [] -> fold_left (step vs) ops h <> []).
  { clear. induction ops as [|o ops IH]; intros h Hh; cbn [fold_left]. exact Hh. apply IH. destruct o; discriminate. }
  unfold run. specialize (G ops [init_state vs] ltac:(discriminate)).
  destruct (fold_left (step vs) ops [init_state vs]); [congruence|left; reflexivity]. Qed.

(* the model after the history, evaluated: increasing in feature 0 (in range, beyond the last keypoint),
   ordered along the pair (0, 2), missing value and unknown bucket inside the bounds *)
Example ex_cl_values :
  let F := cl_eval ex_cl (final (cl_vars ex_cl) ex_cl_ops) in
  Qle_bool (F [0; 0]) (F [1#2; 0]) && Qle_bool (F [1#2; 0]) (F [2; 0]) && Qle_bool (F [2; 0]) (F [100; 0]) &&
  Qle_bool (F [1; 0]) (F [1; 2]) &&
  Qle_bool (-(2)) (F [-(1); -(1)]) && Qle_bool (F [-(1); -(1)]) 2 && Qle_bool (-(2)) (F [7; 5]) && Qle_bool (F [7; 5]) 2 &&
  negb (Qle_bool (F [100; 0]) (F [0; 0])) = true.
Proof. vm_compute. reflexivity. Qed.

(* ====================================================================== *)
(* 5. tfl.premade.CalibratedLinear                                           *)
(* ====================================================================== *)
(* The model description: what premade.CalibratedLinear.__init__ hands to the builders.
     cn_lin       the Linear layer (build_linear_layer): square-root oracle, constraint configuration, inputs
     cn_use_bias  model_config.use_bias
   weighted_average = output_min is not None or output_max is not None or output_calibration:
     monotonicities [1] * n, normalization_order 1, no bias; otherwise monotonicities from the features
     (_monotonicities_from_feature_configs), no normalization, bias iff use_bias.
   Calibrators: range MODEL_OUTPUT, or INPUT_TO_FINAL_CALIBRATION under an output calibrator. *)
Record cn_model := mkCN {
  cn_feats : list fmono; cn_always : list bool; cn_cals : list cal_spec;
  cn_lin : lin_spec; cn_use_bias : bool;
  cn_outc : option pwl_spec;
  cn_min : option Q; cn_max : option Q; cn_oi : list Q }.
Definition is_some {A} (o : option A) : bool := match o with Some _ => true | None => false end.
Definition cn_weighted (md : cn_model) : bool := is_some (cn_min md) || is_some (cn_max md) || is_some (cn_outc md).
Definition cn_range (md : cn_model) : layer_range :=
  match cn_outc md with Some _ => InputToFinalCalibration | None => ModelOutput (cn_min md) (cn_max md) end.
Definition cn_bias (md : cn_model) : bool := if cn_weighted md then false else cn_use_bias md.

(* validity: configuration facts only.  D65 guard: pwl_spec_ok of every input calibrator contains oi_in_bounds *)
Definition cn_ok (md : cn_model) : Prop :=
  let n := length (cn_feats md) in
  (1 <= n)%nat /\ length (cn_cals md) = n /\ length (cn_always md) = n /\ ns_n (cn_lin md) = n /\
  (forall i, (i < n)%nat ->
     cal_wired (nth i (cn_feats md) (MNum 0)) (nth i (cn_always md) false) (cn_range md) (cn_oi md) (nth i (cn_cals md) dcs)) /\
  lc_monos (ns_cfg (cn_lin md)) = premade_linear_monos (cn_feats md) (cn_weighted md) /\
  lc_norm (ns_cfg (cn_lin md)) = (if cn_weighted md then 1 else 0)%nat /\
  lin_valid (ns_cfg (cn_lin md)) n /\
  (forall a b, cn_min md = Some a -> cn_max md = Some b -> a <= b) /\
  match cn_outc md with Some s => outc_wired (cn_min md) (cn_max md) (cn_oi md) s | None => True end.

Definition outc_descs (o : option pwl_spec) : list ldesc :=
  match o with Some s => [LDPwl (pwl_spec_desc s) None] | None => [] end.
Definition cn_descs (md : cn_model) : list ldesc :=
  map cal_ldesc (cn_cals md) ++ LDLin (lin_spec_desc (cn_lin md)) (cn_bias md) :: outc_descs (cn_outc md).
Definition cn_vars (md : cn_model) : list (var lval) := map lvar (cn_descs md).

Definition lin_k (v : lval) : list Q := match v with VLin k _ => k | _ => [] end.
Definition lin_b (v : lval) : Q := match v with VLin _ b => b | _ => 0 end.
Definition cn_kernel (md : cn_model) (st : list lval) : list Q := lin_k (nth (length (cn_cals md)) st dval).
Definition cn_eval (md : cn_model) (st : list lval) (x : list Q) : Q :=
  let n := length (cn_cals md) in
  cal_linear_eval (cn_kernel md st) (lin_b (nth n st dval)) (map2 cal_of (cn_cals md) st)
                  (outc_of (cn_outc md) (nth (S n) st dval)) x.

(* any input of the feature's domain: every number; a bucket index or default_value *)
Definition cs_domain (c : cal_spec) (x : Q) : Prop :=
  match c with
  | CSPwl _ _ => True
  | CSCat s d => (0 <= cast_int x < Z.of_nat (cs_n s))%Z \/ (d = Some (cast_int x) /\ (0 < cs_n s)%nat)
  end.
Lemma cs_domain_input c cal x : cal_form c cal -> cs_domain c x -> domain_input cal x.
Proof. destruct c as [s dv|s dv]; cbn [cal_form cs_domain].
  - intros (col & miss & -> & _) _. exact I.
  - intros (vals & -> & Lv & _) H. cbn [domain_input]. rewrite Lv. destruct H as [H|[H Hn]]. left; exact H.
    right. split. exact H. destruct vals; [cbn in Lv; lia|discriminate]. Qed.

Lemma qsum_qabs_nonneg : forall k, (forall q, In q k -> 0 <= q) -> qsum (map qabs k) == qsum k.
Proof. induction k as [|q k IH]; intros H; cbn [map qsum]. reflexivity.
  rewrite IH by (intros; apply H; right; assumption). pose proof (H q (or_introl eq_refl)). qcases; lra. Qed.

Lemma premade_linear_init_norm l : lin_norm_inv (lin_spec_desc l) (premade_linear_init (ns_n l)) \/ ns_n l = 0%nat.
Proof. destruct (ns_n l) as [|n] eqn:E. right; reflexivity. left. intros _. left.
  destruct (premade_linear_init_average (S n) ltac:(lia)) as (_ & Hp & Hs). rewrite qsum_qabs_nonneg; assumption. Qed.

Lemma cn_lin_desc_ok md : cn_ok md -> ldesc_ok (LDLin (lin_spec_desc (cn_lin md)) (cn_bias md)).
Proof. intros (Hn & _ & _ & En & _ & Em & _ & Hv & _). cbn [ldesc_ok lin_spec_desc nd_cfg nd_n nd_init].
  rewrite En. split. exact Hv. split.
  { rewrite <- En. apply (init_feasible_linear (cn_lin md)). split. rewrite En. exact Hv.
    rewrite Em. apply premade_linear_monos_not_decreasing. }
  split. unfold premade_linear_init. apply repeat_length.
  rewrite <- En. destruct (premade_linear_init_norm (cn_lin md)) as [H|H]. exact H. lia. Qed.

Lemma cn_descs_ok md : cn_ok md -> forall d, In d (cn_descs md) -> ldesc_ok d.
Proof. intros Hok d Hd. pose proof Hok as (_ & Hc & _ & _ & Hw & _ & _ & _ & _ & Ho). unfold cn_descs in Hd.
  apply in_app_or in Hd. destruct Hd as [Hd|[<-|Hd]].
  - revert d Hd. apply (in_map_nth cal_ldesc ldesc_ok (cn_cals md) dcs). intros i Hi.
    eapply cal_ldesc_ok. apply (Hw i). lia.
  - apply cn_lin_desc_ok. exact Hok.
  - unfold outc_descs in Hd. destruct (cn_outc md) as [s|]; [|destruct Hd]. destruct Hd as [<-|[]]. eapply outc_desc_ok. exact Ho. Qed.

Lemma cn_reachable md ops st : cn_ok md -> ops_shaped lval ldesc lshape (cn_descs md) ops ->
  In st (run (cn_vars md) ops) -> Forall2 linv (cn_descs md) st.
Proof. intros Hok Hops Hs. exact (reachable_feasible_layers (cn_descs md) ops (cn_descs_ok md Hok) Hops st Hs). Qed.

(* calibrators ++ one middle layer ++ optional output calibrator *)
Lemma state_split cals mid outc st : Forall2 linv (map cal_ldesc cals ++ mid :: outc_descs outc) st ->
  exists s1 vm s3, st = s1 ++ vm :: s3 /\ Forall2 linv (map cal_ldesc cals) s1 /\ length s1 = length cals /\ linv mid vm /\
    match outc with
    | Some s => exists w o, s3 = [VPwl w o] /\ pwl_inv (pwl_spec_desc s) w /\ length w = S (length (ps_kps s) - 1)
    | None => s3 = []
    end.
Proof. intros H. apply Forall2_app_inv_l in H. destruct H as (s1 & s2 & H1 & H2 & ->).
  inversion H2 as [|d v l s3 Hv H3]; subst.
  exists s1, v, s3. split. reflexivity. split. exact H1.
  split. { rewrite <- (Forall2_len _ _ _ H1), map_length. reflexivity. } split. exact Hv.
  unfold outc_descs in H3. destruct outc as [s|].
  - inversion H3 as [|d v' l s4 Hv' H4]; subst. inversion H4; subst.
    destruct v' as [w o|w|g|k b|kp]; cbn [linv] in Hv'; try contradiction. destruct Hv' as (A & B & _).
    exists w, o. split. reflexivity. split. exact A. exact B.
  - inversion H3. reflexivity. Qed.

Lemma outc_state_facts omin omax oi s w : outc_wired omin omax oi s ->
  pwl_inv (pwl_spec_desc s) w -> length w = S (length (ps_kps s) - 1) ->
  let oc : out_calib := Some (kp_lefts (ps_kps s), kp_diffs (ps_kps s), w) in
  out_monotone oc /\ forall lo hi, omin = Some lo -> omax = Some hi -> out_range oc lo hi.
Proof. intros (_ & Em & Ec & _ & _ & Er & _ & _ & Hok) Hinv Hlen oc.
  destruct (pwl_state_facts s w Hok Hinv Hlen) as (Hseg & Hl' & Hpos & Hinc & _ & Hrange). split.
  - split. exact Hpos. apply Hinc. exact Em.
  - intros lo hi Elo Ehi. cbn [out_range]. split. exact Hseg. split. exact Hl'. apply Hrange.
    intros [_ E]. apply E. exact Ec. rewrite Er. exact Elo. rewrite Er. exact Ehi. Qed.

Lemma cn_state_facts md st : cn_ok md -> Forall2 linv (cn_descs md) st ->
  let n := length (cn_feats md) in
  let k := cn_kernel md st in let b := lin_b (nth (length (cn_cals md)) st dval) in
  let cals := map2 cal_of (cn_cals md) st in
  let oc := outc_of (cn_outc md) (nth (S (length (cn_cals md))) st dval) in
  length k = n /\ length cals = n /\
  (forall i, (i < n)%nat -> lattice_dim_mono (nth i (cn_feats md) (MNum 0)) = 1%Z -> 0 <= nth i k 0) /\
  out_monotone oc /\
  (forall i, (i < n)%nat -> cal_form (nth i (cn_cals md) dcs) (nth i cals dcal)) /\
  (forall lo hi, cn_min md = Some lo -> cn_max md = Some hi ->
     out_range oc lo hi /\
     (oc = None -> b = 0 /\ (forall q, In q k -> 0 <= q) /\ (~ lin_collapsed k -> qsum k == 1) /\
        forall i, (i < n)%nat -> cal_d2_free (nth i (cn_cals md) dcs) -> calib_range (nth i cals dcal) lo hi)).
Proof. intros (Hn & Hc & Ha & En & Hw & Em & Enorm & Hv & Hle & Ho) H. unfold cn_descs in H.
  destruct (state_split _ _ _ st H) as (s1 & vm & s3 & -> & H1 & L1 & Hmid & H3). clear H.
  unfold cn_kernel. cbv zeta. rewrite app_nth2 by lia. rewrite L1, Nat.sub_diag. cbn [nth].
  rewrite app_nth2 by lia. replace (S (length (cn_cals md)) - length s1)%nat with 1%nat by lia. cbn [nth].
  rewrite map2_app_exact by lia.
  destruct vm as [w o|w|g|k b|kp]; cbn [linv] in Hmid; try contradiction. destruct Hmid as (Hinv & Lk & Hb & Hnorm).
  cbn [lin_k lin_b]. cbn [lin_spec_desc nd_n nd_cfg] in Lk, Hnorm. unfold lin_norm_inv in Hnorm. cbn [lin_spec_desc nd_cfg] in Hnorm.
  set (cals := map2 cal_of (cn_cals md) s1).
  assert (Hcal : forall i, (i < length (cn_feats md))%nat ->
            nth i cals dcal = cal_of (nth i (cn_cals md) dcs) (nth i s1 dval) /\
            linv (cal_ldesc (nth i (cn_cals md) dcs)) (nth i s1 dval)).
  { intros i Hi. split. unfold cals. apply nth_map2; lia.
    pose proof (Forall2_nth linv _ _ i (cal_ldesc dcs) dval H1 ltac:(rewrite map_length; lia)) as G.
    rewrite map_nth in G. exact G. }
  (* sign of weight i *)
  assert (Hsign : forall i, nth i (lc_monos (ns_cfg (cn_lin md))) 0%Z = 1%Z -> 0 <= nth i k 0).
  { intros i E. destruct (Hinv i) as [A _]. apply A. exact E. }
  split. lia. split. { unfold cals. rewrite map2_length. lia. }
  split; [|split; [|split]].
  - intros i Hi Ei. apply Hsign. rewrite Em. unfold premade_linear_monos. destruct (cn_weighted md).
    + rewrite nth_indep with (d' := 1%Z) by (rewrite repeat_length; exact Hi). apply nth_repeat.
    + rewrite nth_indep with (d' := lattice_dim_mono (MNum 0)) by (rewrite map_length; exact Hi). rewrite map_nth. exact Ei.
  - destruct (cn_outc md) as [s|]; [|exact I]. destruct H3 as (w & o & -> & Hi' & Hl'). cbn [nth outc_of].
    apply (outc_state_facts _ _ _ s w Ho Hi' Hl').
  - intros i Hi. destruct (Hcal i Hi) as [-> Hi'].
    destruct (cal_state_facts _ _ _ _ _ _ (Hw i Hi) Hi') as [G _]. exact G.
  - intros lo hi Elo Ehi. destruct (cn_outc md) as [s|] eqn:Eoc.
    + destruct H3 as (w & o & -> & Hi' & Hl'). cbn [nth outc_of]. split; [|discriminate].
      apply (outc_state_facts _ _ _ s w Ho Hi' Hl'); assumption.
    + subst s3. cbn [nth outc_of out_range]. split. exact I. intros _.
      assert (Ew : cn_weighted md = true) by (unfold cn_weighted; rewrite Elo; reflexivity).
      rewrite Ew in Enorm, Em. unfold cn_bias in Hb. rewrite Ew in Hb.
      assert (Hpos : forall q, In q k -> 0 <= q).
      { intros q Hq. destruct (In_nth _ _ 0 Hq) as [j [Hj <-]]. apply Hsign. rewrite Em. unfold premade_linear_monos.
        rewrite nth_indep with (d' := 1%Z) by (rewrite repeat_length; lia). apply nth_repeat. }
      split. apply Hb. reflexivity. split. exact Hpos. split.
      * intros Hnc. destruct (Hnorm Enorm) as [A|A]; [|contradiction]. rewrite <- (qsum_qabs_nonneg k Hpos). exact A.
      * intros i Hi Hg. destruct (Hcal i Hi) as [-> Hi'].
        destruct (cal_state_facts _ _ _ _ _ _ (Hw i Hi) Hi') as [_ G]. apply (G Hg).
        unfold cn_range. rewrite Eoc, Elo, Ehi. reflexivity. exact (Hle lo hi Elo Ehi). Qed.

(* The state of C03_bounded_refuted_weighted_average_zero (all weights clipped to zero, normalization
   skipped) is a collapsed one; the initial weights are not. *)
Lemma d32_state_collapsed : lin_collapsed [0; 0] /\ forall n, (1 <= n)%nat -> ~ lin_collapsed (premade_linear_init n).
Proof. split. vm_compute. reflexivity. intros n Hn. unfold lin_collapsed.
  destruct (premade_linear_init_average n Hn) as (_ & Hp & Hs). rewrite qsum_qabs_nonneg by exact Hp. rewrite Hs.
  unfold norm_eps. intros H. vm_compute in H. discriminate. Qed.

Theorem calibrated_linear_end_to_end : forall md ops st,
  cn_ok md -> ops_shaped lval ldesc lshape (cn_descs md) ops -> In st (run (cn_vars md) ops) ->
  let F := cn_eval md st in let n := length (cn_feats md) in
  (forall i x v, (i < n)%nat -> length x = n ->
     cs_regular (nth i (cn_cals md) dcs) (nth i x 0) -> cs_regular (nth i (cn_cals md) dcs) v -> nth i x 0 <= v ->
     (nth i (cn_feats md) (MNum 0) = MNum 1 -> F x <= F (set_nth i v x)) /\
     (nth i (cn_feats md) (MNum 0) = MNum (-1) -> F (set_nth i v x) <= F x)) /\
  (forall i x ps a b, (i < n)%nat -> length x = n ->
     nth i (cn_feats md) (MNum 0) = MPairs ps -> In (a, b) ps ->
     cs_default (nth i (cn_cals md) dcs) <> Some (Z.of_nat a) -> cs_default (nth i (cn_cals md) dcs) <> Some (Z.of_nat b) ->
     F (set_nth i (qn a) x) <= F (set_nth i (qn b) x)) /\
  (* bounds.  Under an output calibrator: unconditionally.  Without one (weighted average of the calibrators):
     outside known findings D2 (calibrator bounds) and D32 (the combiner weights all clipped to zero and the
     normalization skipped: lin_collapsed), for every input of the features' domains *)
  (forall lo hi x, cn_min md = Some lo -> cn_max md = Some hi -> length x = n ->
     (cn_outc md = None ->
        (forall i, (i < n)%nat -> cal_d2_free (nth i (cn_cals md) dcs)) /\ ~ lin_collapsed (cn_kernel md st) /\
        (lo <= 0 <= hi \/ forall i, (i < n)%nat -> cs_domain (nth i (cn_cals md) dcs) (nth i x 0))) ->
     lo <= F x <= hi).
Proof. intros md ops st Hok Hops Hs F n.
  pose proof (cn_reachable md ops st Hok Hops Hs) as Hinv.
  pose proof (cn_state_facts md st Hok Hinv) as Hfacts. cbv zeta in Hfacts.
  destruct Hfacts as (Lk & Lc & Hsign & Hom & Hform & Hbnd).
  pose proof Hok as (_ & _ & _ & _ & Hw & _). fold n in Lk, Lc, Hsign, Hform, Hw.
  unfold F, cn_eval. split; [|split].
  - intros i x v Hi Hx Rx Rv Hle. specialize (Hform i Hi). specialize (Hw i Hi).
    assert (Hdir : forall m, (m = 1 \/ m = -1)%Z -> nth i (cn_feats md) (MNum 0) = MNum m ->
              exists s dv, nth i (cn_cals md) dcs = CSPwl s dv /\ ps_mono s = m).
    { intros m Hm E. destruct (nth i (cn_cals md) dcs) as [s dv|s dv]; cbn [cal_wired] in Hw.
      - destruct Hw as ((m' & E' & Em) & _). rewrite E in E'. injection E' as <-. exists s, dv. split. reflexivity.
        rewrite Em. apply calibrator_mono_nonzero. lia.
      - destruct Hw as (E' & _). rewrite E in E'. discriminate. }
    assert (Hk : forall m, (m = 1 \/ m = -1)%Z -> nth i (cn_feats md) (MNum 0) = MNum m -> 0 <= nth i (cn_kernel md st) 0).
    { intros m Hm E. apply Hsign. exact Hi. rewrite E. cbn [lattice_dim_mono]. destruct (Z.eqb_spec m 0); [lia|reflexivity]. }
    split; intros E.
    + destruct (Hdir 1%Z (or_introl eq_refl) E) as (s & dv & Ec & Em). rewrite Ec in *. cbn [cal_form] in Hform.
      destruct Hform as (col & miss & Ecal & Hpos & Hreg & Hinc & _).
      refine (proj1 (compose_monotone_linear (cn_kernel md st) _ (map2 cal_of (cn_cals md) st) _ x i v _ _ col miss ltac:(lia) ltac:(lia) ltac:(lia)
                (Hk 1%Z (or_introl eq_refl) E) Hom Ecal Hpos _ _ Hle) (Hinc Em)); apply Hreg; assumption.
    + destruct (Hdir (-1)%Z (or_intror eq_refl) E) as (s & dv & Ec & Em). rewrite Ec in *. cbn [cal_form] in Hform.
      destruct Hform as (col & miss & Ecal & Hpos & Hreg & _ & Hdec).
      refine (proj2 (compose_monotone_linear (cn_kernel md st) _ (map2 cal_of (cn_cals md) st) _ x i v _ _ col miss ltac:(lia) ltac:(lia) ltac:(lia)
                (Hk (-1)%Z (or_intror eq_refl) E) Hom Ecal Hpos _ _ Hle) (Hdec Em)); apply Hreg; assumption.
  - intros i x ps a b Hi Hx E Hab Da Db. specialize (Hform i Hi). specialize (Hw i Hi).
    destruct (nth i (cn_cals md) dcs) as [s dv|s dv]; cbn [cal_wired] in Hw.
    { destruct Hw as ((m' & E' & _) & _). rewrite E in E'. discriminate. }
    destruct Hw as (E' & _ & (_ & Hin & _)). rewrite E in E'. injection E' as ->.
    cbn [cal_form] in Hform. destruct Hform as (vals & Ecal & Lv & Hfe). cbn [cs_default] in Da, Db.
    destruct (Hin a b Hab) as [Ha Hb].
    apply (compose_monotone_linear_categorical (cn_kernel md st) _ (map2 cal_of (cn_cals md) st) _ x i vals dv a b ltac:(lia) ltac:(lia) ltac:(lia)); try assumption; try lia.
    apply Hsign. exact Hi. rewrite E. destruct (cs_pairs s); [destruct Hab|reflexivity].
    apply Hfe. exact Hab.
  - intros lo hi x Elo Ehi Hx Hg. destruct (Hbnd lo hi Elo Ehi) as [Hor Hnone].
    destruct (outc_of (cn_outc md) (nth (S (length (cn_cals md))) st dval)) as [oc|] eqn:Eoc.
    + rewrite <- Eoc in *. clear Hnone.
      assert (Hgen : forall k b, length k = n -> lo <= cal_linear_eval k b (map2 cal_of (cn_cals md) st)
                  (outc_of (cn_outc md) (nth (S (length (cn_cals md))) st dval)) x <= hi).
      { intros k b _. unfold cal_linear_eval. apply out_eval_range. exact Hor. rewrite Eoc. discriminate. }
      apply Hgen. exact Lk.
    + destruct (Hnone eq_refl) as (Eb & Hpos & Hsum & Hcr). rewrite Eb.
      assert (Enone : cn_outc md = None).
      { destruct (cn_outc md) as [s|] eqn:E'; [|reflexivity]. exfalso.
        pose proof (cn_reachable md ops st Hok Hops Hs) as Hinv'. unfold cn_descs in Hinv'. rewrite E' in Hinv'.
        destruct (state_split _ _ _ st Hinv') as (s1 & vm & s3 & -> & _ & L1 & _ & (w & o & -> & _)).
        rewrite app_nth2 in Eoc by lia. replace (S (length (cn_cals md)) - length s1)%nat with 1%nat in Eoc by lia.
        cbn in Eoc. discriminate. }
      destruct (Hg Enone) as (Hd2 & Hnc & Hdom).
      apply bounded_linear; try lia; [|exact I]. intros _. split. exact Hpos. split. apply Hsum. exact Hnc.
      intros j Hj. split. apply Hcr. lia. apply Hd2. lia.
      destruct Hdom as [H0|Hdom]. left; exact H0. right. apply (cs_domain_input (nth j (cn_cals md) dcs)).
      apply Hform. lia. apply Hdom. lia. Qed.

(* ---- the hypotheses are satisfiable; the D32 guard is necessary ----
   feature 0: numeric, increasing, keypoints 0, 1, 3; feature 1: categorical, 2 buckets, pair (0, 1);
   output_min 1, output_max 2, output_initialization [1, 2], no output calibration: a weighted average *)
Definition ex_cn_pwl : pwl_spec := mkPwlS [0; 1; 3] 1 0 false false 8 (ModelOutput (Some 1) (Some 2)) [1; 2] PKUniform.
Definition ex_cn_cat : cat_spec := mkCatS [(0, 1)]%nat (ModelOutput (Some 1) (Some 2)) 2 [2; 1].
Definition ex_cn : cn_model :=
  mkCN [MNum 1; MPairs [(0, 1)]%nat] [false; false] [CSPwl ex_cn_pwl None; CSCat ex_cn_cat None]
       (mkLinS (fun q => q) d32_cfg 2) true None (Some 1) (Some 2) [1; 2].

Example ex_cn_ok : cn_ok ex_cn.
Proof. unfold cn_ok, ex_cn; cbn [cn_feats cn_always cn_cals cn_lin cn_use_bias cn_outc cn_min cn_max cn_oi length ns_n ns_cfg].
  split. lia. split. reflexivity. split. reflexivity. split. reflexivity. split.
  { intros i Hi. destruct i as [|[|i]]; [| |lia]; cbn [nth cal_wired].
    - split. exists 1%Z. split; reflexivity. split. reflexivity. split. reflexivity. split. reflexivity.
      apply ex_pwl_common. cbn; lia. intros l H; cbn in H; in_cases H. right; right; reflexivity.
      intros a b Ha Hb; inversion Ha; inversion Hb; subst. lra.
      split. discriminate. intros x H. split; intros b Hb; inversion Hb; subst; cbn in H; in_cases H.
    - split. reflexivity. split. reflexivity. split; [|split].
      + apply (acyclic_rank _ (fun x => x)). intros a b H. cbn in H. destruct H as [H|[]]; inversion H; subst; lia.
      + intros i' j H. cbn in H. destruct H as [H|[]]; inversion H; subst; cbn; lia.
      + reflexivity. }
  split. reflexivity. split. reflexivity. split. exact d32_cfg_valid.
  split. intros a b Ha Hb. inversion Ha; inversion Hb; subst. lra. exact I. Qed.

(* a gentle step, then the hostile step of known finding D32 (every combiner weight driven negative) *)
Definition ex_cn_raw1 (i : nat) : lval :=
  match i with
  | 0%nat => VPwl [1#2; 1; -(1)] None
  | 1%nat => VCat [3; 0]
  | _ => VLin [3; 1] 5
  end.
Definition ex_cn_raw2 (i : nat) : lval :=
  match i with
  | 0%nat => VPwl [1; 1#2; 1#2] None
  | 1%nat => VCat [1; 2]
  | _ => VLin [-(5); -(7)] 0
  end.
Example ex_cn_ops_shaped : ops_shaped lval ldesc lshape (cn_descs ex_cn) [Update ex_cn_raw1; Update ex_cn_raw2].
Proof. intros delta H i d Hd. cbn in H.
  destruct H as [H|[H|[]]]; injection H as <-;
    (destruct i as [|[|[|i]]]; cbn in Hd; [| | |destruct i; discriminate]; injection Hd as <-; cbn [lshape];
     [split; [eexists _, _; split; reflexivity|split; reflexivity]|reflexivity|reflexivity]). Qed.

Example ex_cn_values :
  let s1 := final (cn_vars ex_cn) [Update ex_cn_raw1] in
  let s2 := final (cn_vars ex_cn) [Update ex_cn_raw1; Update ex_cn_raw2] in
  (* after the first step: a weighted average (3/4, 1/4), not collapsed, inside [1, 2], increasing *)
  (cn_kernel ex_cn s1 = [3#4; 1#4] /\ ~ lin_collapsed (cn_kernel ex_cn s1) /\
   Qle_bool 1 (cn_eval ex_cn s1 [0; 0]) && Qle_bool (cn_eval ex_cn s1 [0; 0]) (cn_eval ex_cn s1 [2; 0]) &&
   Qle_bool (cn_eval ex_cn s1 [2; 0]) (cn_eval ex_cn s1 [2; 1]) && Qle_bool (cn_eval ex_cn s1 [2; 1]) 2 = true) /\
  (* after the second: collapsed, and the model outputs 0 < output_min although every calibrator is inside [1, 2] *)
  (cn_kernel ex_cn s2 = [0; 0] /\ lin_collapsed (cn_kernel ex_cn s2) /\ cn_eval ex_cn s2 [2; 1] < 1).
Proof. cbv zeta. split; split; [vm_compute; reflexivity| |vm_compute; reflexivity|].
  - split. intros H. vm_compute in H. discriminate. vm_compute. reflexivity.
  - split; vm_compute; reflexivity. Qed.

(* ====================================================================== *)
(* 6. tfl.premade.CalibratedLattice, parameterization = 'kronecker_factored'  *)
(* ====================================================================== *)
(* ck_kfl: the KroneckerFactoredLattice layer as build_lattice_layer creates it (section G's kfl_spec):
   lattice_sizes = the common lattice size, one unit, num_terms terms, monotonicities =
   _monotonicities_from_feature_configs, clip_inputs=False, bounds = _output_range, the constraint
   applications of one optimizer update (ks_steps), the tf.random.uniform oracle (ks_samples).
   kfl_spec_ok contains the guard of known finding D57: every update applies BOTH constraints
   (tf_keras Optimizer.apply_gradients; legacy optimizers given the variables in layer order:
   C03_kfl_legacy_layer_order_is_update). *)
Record ck_model := mkCK {
  ck_feats : list fmono; ck_always : list bool; ck_cals : list cal_spec;
  ck_kfl : kfl_spec;
  ck_outc : option pwl_spec;
  ck_min : option Q; ck_max : option Q; ck_oi : list Q }.
Definition kfl_monos_of (feats : list fmono) : list bool := map (fun f => negb (lattice_dim_mono f =? 0)%Z) feats.

Definition ck_ok (md : ck_model) : Prop :=
  let s := ck_kfl md in let c := ks_cfg s in let n := length (ck_feats md) in
  length (ck_cals md) = n /\ length (ck_always md) = n /\ ks_dims s = n /\ ks_units s = 1%nat /\
  (forall i, (i < n)%nat ->
     cal_wired (nth i (ck_feats md) (MNum 0)) (nth i (ck_always md) false)
               (InputToLattice (MK.c_size c)) (ck_oi md) (nth i (ck_cals md) dcs) /\
     cal_d2_free (nth i (ck_cals md) dcs)) /\
  MK.c_monos c = Some (kfl_monos_of (ck_feats md)) /\ MK.c_clip c = false /\
  ks_range s = (match ck_outc md with Some _ => InputToFinalCalibration
                                    | None => ModelOutput (ck_min md) (ck_max md) end) /\
  kfl_spec_ok s /\
  match ck_outc md with Some o => outc_wired (ck_min md) (ck_max md) (ck_oi md) o | None => True end.

Definition ck_descs (md : ck_model) : list ldesc :=
  map cal_ldesc (ck_cals md) ++ LDKfl (kfl_spec_desc (ck_kfl md)) 1 :: outc_descs (ck_outc md).
Definition ck_vars (md : ck_model) : list (var lval) := map lvar (ck_descs md).
Definition kfl_p (v : lval) : MK.params := match v with VKfl p => p | _ => MK.mkPar [] [] [] end.
Definition ck_eval (md : ck_model) (st : list lval) (x : list Q) : Q :=
  let n := length (ck_cals md) in
  cal_kfl_eval (ks_cfg (ck_kfl md)) (kfl_p (nth n st dval)) (map2 cal_of (ck_cals md) st)
               (outc_of (ck_outc md) (nth (S n) st dval)) x.

Lemma ck_descs_ok md : ck_ok md -> forall d, In d (ck_descs md) -> ldesc_ok d.
Proof. intros (Hc & _ & _ & Eu & Hw & _ & _ & _ & Hk & Ho) d Hd. unfold ck_descs in Hd.
  apply in_app_or in Hd. destruct Hd as [Hd|[<-|Hd]].
  - revert d Hd. apply (in_map_nth cal_ldesc ldesc_ok (ck_cals md) dcs). intros i Hi.
    eapply cal_ldesc_ok. apply (Hw i). lia.
  - cbn [ldesc_ok]. split. apply kfl_spec_desc_ok. exact Hk.
    cbn [kfl_spec_desc kd_init]. unfold kfl_units, kfl_spec_init, premade_kfl_init; cbn [MK.p_scale MK.p_bias].
    unfold MK.scale_init, MK.bias_init. rewrite !repeat_length. auto.
  - unfold outc_descs in Hd. destruct (ck_outc md) as [s|]; [|destruct Hd]. destruct Hd as [<-|[]]. eapply outc_desc_ok. exact Ho. Qed.

Lemma ck_reachable md ops st : ck_ok md -> ops_shaped lval ldesc lshape (ck_descs md) ops ->
  In st (run (ck_vars md) ops) -> Forall2 linv (ck_descs md) st.
Proof. intros Hok Hops Hs. exact (reachable_feasible_layers (ck_descs md) ops (ck_descs_ok md Hok) Hops st Hs). Qed.

Lemma ck_state_facts md st : ck_ok md -> Forall2 linv (ck_descs md) st ->
  let c := ks_cfg (ck_kfl md) in let n := length (ck_feats md) in
  let p := kfl_p (nth (length (ck_cals md)) st dval) in
  let cals := map2 cal_of (ck_cals md) st in
  let oc := outc_of (ck_outc md) (nth (S (length (ck_cals md))) st dval) in
  PK.cfg_ok c n /\ kfl_feasible c n p /\ MK.canon_monos (MK.c_monos c) = Some (kfl_monos_of (ck_feats md)) /\
  (0 < length (MK.p_scale p))%nat /\ (0 < length (MK.p_bias p))%nat /\
  length cals = n /\ cals_in_range (repeat (MK.c_size c) n) cals /\
  out_monotone oc /\
  (forall i, (i < n)%nat -> cal_form (nth i (ck_cals md) dcs) (nth i cals dcal)) /\
  (forall lo hi, ck_min md = Some lo -> ck_max md = Some hi ->
     (oc = None -> MK.c_min c = Some lo /\ MK.c_max c = Some hi) /\ out_range oc lo hi).
Proof. intros (Hc & Ha & Ed & Eu & Hw & Em & Ecl & Er & Hk & Ho) H. unfold ck_descs in H.
  destruct (state_split _ _ _ st H) as (s1 & vm & s3 & -> & H1 & L1 & Hmid & H3). clear H.
  cbv zeta. rewrite app_nth2 by lia. rewrite L1, Nat.sub_diag. cbn [nth].
  rewrite app_nth2 by lia. replace (S (length (ck_cals md)) - length s1)%nat with 1%nat by lia. cbn [nth].
  rewrite map2_app_exact by lia.
  destruct vm as [w o|w|g|k b|p]; cbn [linv] in Hmid; try contradiction. destruct Hmid as (Hinv & Hsc & Hbi).
  cbn [kfl_p]. unfold kfl_inv in Hinv. cbn [kfl_spec_desc kd_cfg kd_dims] in Hinv. rewrite Ed in Hinv.
  pose proof Hk as (_ & Hcfg & _ & _ & _ & Emin & Emax & _). rewrite Ed in Hcfg.
  set (c := ks_cfg (ck_kfl md)) in *. set (cals := map2 cal_of (ck_cals md) s1).
  assert (Hcal : forall i, (i < length (ck_feats md))%nat ->
            nth i cals dcal = cal_of (nth i (ck_cals md) dcs) (nth i s1 dval) /\
            linv (cal_ldesc (nth i (ck_cals md) dcs)) (nth i s1 dval)).
  { intros i Hi. split. unfold cals. apply nth_map2; lia.
    pose proof (Forall2_nth linv _ _ i (cal_ldesc dcs) dval H1 ltac:(rewrite map_length; lia)) as G.
    rewrite map_nth in G. exact G. }
  pose proof Hcfg as (HL & Hd1 & _).
  split. exact Hcfg. split. exact Hinv. split.
  { rewrite Em. unfold kfl_monos_of. destruct (ck_feats md) as [|f fs]; [cbn in Hd1; lia|reflexivity]. }
  split. lia. split. lia. split. { unfold cals. rewrite map2_length. lia. }
  split; [|split; [|split]].
  - intros j Hj. rewrite repeat_length in Hj. destruct (Hcal j Hj) as [-> Hi'].
    destruct (Hw j Hj) as [Hwj Hgj]. rewrite nth_repeat_lt by exact Hj.
    destruct (cal_state_facts _ _ _ _ _ _ Hwj Hi') as [_ G]. apply G. exact Hgj. reflexivity.
    pose proof (qn_size_ge [MK.c_size c] 0 ltac:(repeat constructor; exact HL) ltac:(cbn; lia)) as G0. cbn [nth] in G0. lra.
  - destruct (ck_outc md) as [s|]; [|exact I]. destruct H3 as (w & o & -> & Hi' & Hl'). cbn [nth outc_of].
    apply (outc_state_facts _ _ _ s w Ho Hi' Hl').
  - intros i Hi. destruct (Hcal i Hi) as [-> Hi'].
    destruct (cal_state_facts _ _ _ _ _ _ (proj1 (Hw i Hi)) Hi') as [G _]. exact G.
  - intros lo hi Elo Ehi. destruct (ck_outc md) as [s|].
    + destruct H3 as (w & o & -> & Hi' & Hl'). cbn [nth outc_of]. split. discriminate.
      apply (outc_state_facts _ _ _ s w Ho Hi' Hl'); assumption.
    + subst s3. cbn [nth outc_of out_range]. split; [|exact I]. intros _.
      rewrite Emin, Emax, Er. cbn [output_range fst snd]. auto. Qed.

Lemma nth_kfl_monos feats i : (i < length feats)%nat -> lattice_dim_mono (nth i feats (MNum 0)) = 1%Z ->
  nth i (kfl_monos_of feats) false = true.
Proof. intros Hi E. unfold kfl_monos_of.
  rewrite nth_indep with (d' := negb (lattice_dim_mono (MNum 0) =? 0)%Z) by (rewrite map_length; exact Hi).
  rewrite (map_nth (fun f => negb (lattice_dim_mono f =? 0)%Z)). rewrite E. reflexivity. Qed.

Theorem calibrated_kfl_end_to_end : forall md ops st,
  ck_ok md -> ops_shaped lval ldesc lshape (ck_descs md) ops -> In st (run (ck_vars md) ops) ->
  let F := ck_eval md st in let n := length (ck_feats md) in
  (forall i x v, (i < n)%nat -> length x = n ->
     cs_regular (nth i (ck_cals md) dcs) (nth i x 0) -> cs_regular (nth i (ck_cals md) dcs) v -> nth i x 0 <= v ->
     (nth i (ck_feats md) (MNum 0) = MNum 1 -> F x <= F (set_nth i v x)) /\
     (nth i (ck_feats md) (MNum 0) = MNum (-1) -> F (set_nth i v x) <= F x)) /\
  (forall i x ps a b, (i < n)%nat -> length x = n ->
     nth i (ck_feats md) (MNum 0) = MPairs ps -> In (a, b) ps ->
     cs_default (nth i (ck_cals md) dcs) <> Some (Z.of_nat a) -> cs_default (nth i (ck_cals md) dcs) <> Some (Z.of_nat b) ->
     F (set_nth i (qn a) x) <= F (set_nth i (qn b) x)) /\
  (forall lo hi x, ck_min md = Some lo -> ck_max md = Some hi -> length x = n -> lo <= F x <= hi).
Proof. intros md ops st Hok Hops Hs F n.
  pose proof (ck_reachable md ops st Hok Hops Hs) as Hinv.
  pose proof (ck_state_facts md st Hok Hinv) as Hfacts. cbv zeta in Hfacts.
  destruct Hfacts as (Hcfg & Hfe & Ecan & Hsc & Hbi & Lc & Hrange & Hom & Hform & Hbnd).
  pose proof Hok as (_ & _ & _ & _ & Hw & _). fold n in Hcfg, Hfe, Lc, Hrange, Hform, Hw.
  unfold F, ck_eval. split; [|split].
  - intros i x v Hi Hx Rx Rv Hle. specialize (Hform i Hi). specialize (Hw i Hi). destruct Hw as [Hw _].
    assert (Hdir : forall m, (m = 1 \/ m = -1)%Z -> nth i (ck_feats md) (MNum 0) = MNum m ->
              exists s dv, nth i (ck_cals md) dcs = CSPwl s dv /\ ps_mono s = m).
    { intros m Hm E. destruct (nth i (ck_cals md) dcs) as [s dv|s dv]; cbn [cal_wired] in Hw.
      - destruct Hw as ((m' & E' & Em) & _). rewrite E in E'. injection E' as <-. exists s, dv. split. reflexivity.
        rewrite Em. apply calibrator_mono_nonzero. lia.
      - destruct Hw as (E' & _). rewrite E in E'. discriminate. }
    assert (Hk : forall m, (m = 1 \/ m = -1)%Z -> nth i (ck_feats md) (MNum 0) = MNum m ->
              nth i (kfl_monos_of (ck_feats md)) false = true).
    { intros m Hm E. apply nth_kfl_monos. exact Hi. rewrite E. cbn [lattice_dim_mono]. destruct (Z.eqb_spec m 0); [lia|reflexivity]. }
    split; intros E.
    + destruct (Hdir 1%Z (or_introl eq_refl) E) as (s & dv & Ec & Em). rewrite Ec in *. cbn [cal_form] in Hform.
      destruct Hform as (col & miss & Ecal & _ & Hreg & Hinc & _).
      refine (proj1 (compose_monotone_kfl _ n _ _ _ _ x i v _ _ col miss Hcfg Hfe Ecan
                (Hk 1%Z (or_introl eq_refl) E) Lc Hx Hi Hrange Hom Ecal _ _ Hle) (Hinc Em)); apply Hreg; assumption.
    + destruct (Hdir (-1)%Z (or_intror eq_refl) E) as (s & dv & Ec & Em). rewrite Ec in *. cbn [cal_form] in Hform.
      destruct Hform as (col & miss & Ecal & _ & Hreg & _ & Hdec).
      refine (proj2 (compose_monotone_kfl _ n _ _ _ _ x i v _ _ col miss Hcfg Hfe Ecan
                (Hk (-1)%Z (or_intror eq_refl) E) Lc Hx Hi Hrange Hom Ecal _ _ Hle) (Hdec Em)); apply Hreg; assumption.
  - intros i x ps a b Hi Hx E Hab Da Db. specialize (Hform i Hi). specialize (Hw i Hi). destruct Hw as [Hw _].
    destruct (nth i (ck_cals md) dcs) as [s dv|s dv]; cbn [cal_wired] in Hw.
    { destruct Hw as ((m' & E' & _) & _). rewrite E in E'. discriminate. }
    destruct Hw as (E' & _ & (_ & Hin & _)). rewrite E in E'. injection E' as ->.
    cbn [cal_form] in Hform. destruct Hform as (vals & Ecal & Lv & Hfeas). cbn [cs_default] in Da, Db.
    destruct (Hin a b Hab) as [Ha Hb].
    apply (compose_monotone_kfl_categorical _ n _ _ _ _ x i vals dv a b Hcfg Hfe Ecan); try assumption; try lia.
    apply nth_kfl_monos. exact Hi. rewrite E. destruct (cs_pairs s); [destruct Hab|reflexivity].
    apply Hfeas. exact Hab.
  - intros lo hi x Elo Ehi Hx. destruct (Hbnd lo hi Elo Ehi) as [HK Hor].
    apply (bounded_kfl _ n); assumption. Qed.

(* the hypotheses are satisfiable: one increasing feature into a two-term KFL layer bounded by [-1, 1],
   both constraint orders of an update; a hostile history (scale sign flipped, kernel reversed) *)
Definition ex_ck (steps : list MK.step) : ck_model :=
  mkCK [MNum 1] [false] [CSPwl (mkPwlS [0; 1; 3] 1 0 false false 8 (InputToLattice 2) [-(1); 1] PKUniform) None]
       (ex_kfl steps) None (Some (-(1))) (Some 1) [-(1); 1].
Example ex_ck_ok : ck_ok (ex_ck [MK.StepS; MK.StepK]) /\ ck_ok (ex_ck [MK.StepK; MK.StepS]).
Proof. split; (unfold ck_ok, ex_ck; cbn [ck_feats ck_always ck_cals ck_kfl ck_outc ck_min ck_max ck_oi length];
  split; [reflexivity|split; [reflexivity|split; [reflexivity|split; [reflexivity|split]]]];
  [intros i Hi; destruct i as [|i]; [|lia]; cbn [nth cal_wired cal_d2_free]; split; [|intros [_ E]; apply E; reflexivity];
   split; [exists 1%Z; split; reflexivity|split; [reflexivity|split; [reflexivity|split; [reflexivity|]]]];
   apply ex_pwl_common; [cbn; lia|intros l H; cbn in H; in_cases H|right; right; reflexivity|
     intros a b Ha Hb; inversion Ha; inversion Hb; subst; vm_compute; discriminate|exact I]
  |split; [reflexivity|split; [reflexivity|split; [reflexivity|split; [apply ex_kfl_ok|exact I]]]]]). Qed.
Definition ex_ck_raw (i : nat) : lval :=
  match i with
  | 0%nat => VPwl [5; -(1); -(2)] None
  | _ => VKfl (MK.mkPar [[ [[100; -(7)]]; [[-(3); 2]] ]] [[ -(50); 1#3 ]] [33])
  end.
Example ex_ck_history : forall steps,
  ops_shaped lval ldesc lshape (ck_descs (ex_ck steps)) [Update ex_ck_raw; Restore 0; Update ex_ck_raw].
Proof. intros steps delta H i d Hd. cbn in H.
  destruct H as [H|[H|[H|[]]]]; try discriminate; injection H as <-;
    (destruct i as [|[|i]]; cbn in Hd; [| |destruct i; discriminate]; injection Hd as <-; cbn [lshape];
     [split; [eexists _, _; split; reflexivity|split; reflexivity]|]);
    (split; [|split; reflexivity]); unfold kfl_shape, PK.shaped; cbn;
    repeat constructor. Qed.
Example ex_ck_values : forall steps, steps = [MK.StepS; MK.StepK] \/ steps = [MK.StepK; MK.StepS] ->
  let F := ck_eval (ex_ck steps) (final (ck_vars (ex_ck steps)) [Update ex_ck_raw; Restore 0; Update ex_ck_raw]) in
  Qle_bool (F [0]) (F [1#2]) && Qle_bool (F [1#2]) (F [2]) && Qle_bool (F [2]) (F [50]) &&
  Qle_bool (-(1)) (F [-(9)]) && Qle_bool (F [50]) 1 = true.
Proof. intros steps [->| ->]; vm_compute; reflexivity. Qed.

(* ====================================================================== *)
(* 7. tfl.premade.CalibratedLatticeEnsemble: explicit lattices (all_vertices), averaged outputs *)
(* ====================================================================== *)
(* Model description (lattices = a list of feature lists; also what set_random_lattice_ensemble and
   set_crystals_lattice_ensemble leave in the config; use_linear_combination = False):
     en_cals     every calibrator UNIT (build_calibration_layers: one unit per feature with shared calibration,
                 one per (lattice, position) with separate_calibrators), each projected independently (C04_per_unit)
     en_members  per lattice: the features it reads (indices into en_feats, in dimension order), the calibrator
                 unit in front of every dimension, its Lattice layer (build_lattice_layer inside an ensemble)
   A lattice may read a feature at several positions. *)
Record en_member := mkEM { em_idx : list nat; em_cal : list nat; em_lat : lat_spec; em_unis : list Z }.
Record en_model := mkEN {
  en_feats : list fmono; en_always : list bool; en_cals : list cal_spec; en_members : list en_member;
  en_scheme : scheme; en_outc : option pwl_spec;
  en_min : option Q; en_max : option Q; en_oi : list Q }.

Definition em_ok (md : en_model) (m : en_member) : Prop :=
  let c := ls_cfg (em_lat m) in let k := length (l_sizes c) in
  length (em_idx m) = k /\ length (em_cal m) = k /\
  (* every dimension p: feature, calibrator unit with range [0, lattice_size - 1] (D2 guard) *)
  (forall p, (p < k)%nat ->
     let f := nth p (em_idx m) 0%nat in let u := nth p (em_cal m) 0%nat in
     (f < length (en_feats md))%nat /\ (u < length (en_cals md))%nat /\
     cal_wired (nth f (en_feats md) (MNum 0)) (nth f (en_always md) false)
               (InputToLattice (nth p (l_sizes c) 0%nat)) (en_oi md) (nth u (en_cals md) dcs) /\
     cal_d2_free (nth u (en_cals md) dcs)) /\
  (* build_lattice_layer *)
  l_units c = 1%nat /\ l_monos c = map (fun f => lattice_dim_mono (nth f (en_feats md) (MNum 0))) (em_idx m) /\
  ls_kind (em_lat m) = LKLinear (em_unis m) /\ ls_oi (em_lat m) = en_oi md /\
  ls_range (em_lat m) = (match en_outc md with Some _ => InputToFinalCalibration
                                              | None => ModelOutput (en_min md) (en_max md) end) /\
  lat_spec_ok (em_lat m).

Definition en_ok (md : en_model) : Prop :=
  length (en_always md) = length (en_feats md) /\ (1 <= length (en_members md))%nat /\
  (forall m, In m (en_members md) -> em_ok md m) /\
  (* every calibrator unit calibrates some feature for some lattice size *)
  (forall u, (u < length (en_cals md))%nat -> exists f always size,
     cal_wired f always (InputToLattice size) (en_oi md) (nth u (en_cals md) dcs)) /\
  match en_outc md with Some s => outc_wired (en_min md) (en_max md) (en_oi md) s | None => True end.

Definition en_lat_descs (md : en_model) : list ldesc := map (fun m => LDLat (lat_spec_desc (em_lat m))) (en_members md).
Definition en_descs (md : en_model) : list ldesc :=
  map cal_ldesc (en_cals md) ++ en_lat_descs md ++ outc_descs (en_outc md).
Definition en_vars (md : en_model) : list (var lval) := map lvar (en_descs md).

Definition en_member_of (md : en_model) (st : list lval) (j : nat) (m : en_member) : member :=
  let sizes := l_sizes (ls_cfg (em_lat m)) in
  mkMember (em_idx m) (map (fun u => cal_of (nth u (en_cals md) dcs) (nth u st dval)) (em_cal m)) (en_scheme md) sizes
           (lat_K sizes (nth (length (en_cals md) + j) st dval)).
Definition en_members_of (md : en_model) (st : list lval) : list member :=
  map2 (en_member_of md st) (seq 0 (length (en_members md))) (en_members md).
Definition en_eval (md : en_model) (st : list lval) (x : list Q) : Q :=
  ensemble_eval (en_members_of md st) Average
                (outc_of (en_outc md) (nth (length (en_cals md) + length (en_members md)) st dval)) x.
(* calibrator unit u stands in front of a dimension that reads feature i *)
Definition en_reader (md : en_model) (i u : nat) : Prop :=
  exists m p, In m (en_members md) /\ (p < length (em_idx m))%nat /\ nth p (em_idx m) 0%nat = i /\ nth p (em_cal m) 0%nat = u.

Lemma en_descs_ok md : en_ok md -> forall d, In d (en_descs md) -> ldesc_ok d.
Proof. intros (_ & _ & Hm & Hu & Ho) d Hd. unfold en_descs in Hd.
  apply in_app_or in Hd. destruct Hd as [Hd|Hd]; [|apply in_app_or in Hd; destruct Hd as [Hd|Hd]].
  - revert d Hd. apply (in_map_nth cal_ldesc ldesc_ok (en_cals md) dcs). intros u Hlt.
    destruct (Hu u Hlt) as (f & al & size & Hw). eapply cal_ldesc_ok. exact Hw.
  - unfold en_lat_descs in Hd. apply in_map_iff in Hd. destruct Hd as [m [<- Hin]]. cbn [ldesc_ok].
    apply lat_spec_desc_ok. apply (Hm m Hin).
  - unfold outc_descs in Hd. destruct (en_outc md) as [s|]; [|destruct Hd]. destruct Hd as [<-|[]]. eapply outc_desc_ok. exact Ho. Qed.

Lemma en_reachable md ops st : en_ok md -> ops_shaped lval ldesc lshape (en_descs md) ops ->
  In st (run (en_vars md) ops) -> Forall2 linv (en_descs md) st.
Proof. intros Hok Hops Hs. exact (reachable_feasible_layers (en_descs md) ops (en_descs_ok md Hok) Hops st Hs). Qed.

Lemma state_split_n cals mids outc st : Forall2 linv (map cal_ldesc cals ++ mids ++ outc_descs outc) st ->
  exists s1 s2 s3, st = s1 ++ s2 ++ s3 /\ Forall2 linv (map cal_ldesc cals) s1 /\ length s1 = length cals /\
    Forall2 linv mids s2 /\ length s2 = length mids /\
    match outc with
    | Some s => exists w o, s3 = [VPwl w o] /\ pwl_inv (pwl_spec_desc s) w /\ length w = S (length (ps_kps s) - 1)
    | None => s3 = []
    end.
Proof. intros H. apply Forall2_app_inv_l in H. destruct H as (s1 & s23 & H1 & H23 & ->).
  apply Forall2_app_inv_l in H23. destruct H23 as (s2 & s3 & H2 & H3 & ->).
  exists s1, s2, s3. split. reflexivity. split. exact H1.
  split. { rewrite <- (Forall2_len _ _ _ H1), map_length. reflexivity. } split. exact H2.
  split. { rewrite <- (Forall2_len _ _ _ H2). reflexivity. }
  unfold outc_descs in H3. destruct outc as [s|].
  - inversion H3 as [|d v' l s4 Hv' H4]; subst. inversion H4; subst.
    destruct v' as [w o|w|g|k b|kp]; cbn [linv] in Hv'; try contradiction. destruct Hv' as (A & B & _).
    exists w, o. split. reflexivity. split. exact A. exact B.
  - inversion H3. reflexivity. Qed.

Definition dem : en_member := mkEM [] [] (mkLatS (mkLat [] 0 [] [] [] None None) false (fun K => K) InputToFinalCalibration [] (LKLinear [])) [].
Definition dmem : member := mkMember [] [] Hypercube [] [].

Lemma en_state_facts md st : en_ok md -> Forall2 linv (en_descs md) st ->
  let nc := length (en_cals md) in let nm := length (en_members md) in
  let oc := outc_of (en_outc md) (nth (nc + nm) st dval) in
  (* calibrator units *)
  (forall u, (u < nc)%nat -> linv (cal_ldesc (nth u (en_cals md) dcs)) (nth u st dval)) /\
  (* members *)
  (forall M, In M (en_members_of md st) -> exists j m, In m (en_members md) /\ M = en_member_of md st j m /\
     member_ok M /\
     (forall q, (q < length (em_idx m))%nat ->
        lattice_dim_mono (nth (nth q (em_idx m) 0%nat) (en_feats md) (MNum 0)) = 1%Z ->
        knondecr (m_sizes M) (kern (m_sizes M) (m_K M) 0) q) /\
     (forall lo hi, en_min md = Some lo -> en_max md = Some hi -> en_outc md = None ->
        forall i, valid (m_sizes M) i -> lo <= kern (m_sizes M) (m_K M) 0 i <= hi)) /\
  (* output calibrator *)
  out_monotone oc /\ (forall lo hi, en_min md = Some lo -> en_max md = Some hi -> out_range oc lo hi) /\
  (en_outc md = None <-> oc = None).
Proof. intros (Hal & Hnm & Hm & Hu & Ho) H. unfold en_descs in H.
  destruct (state_split_n _ _ _ st H) as (s1 & s2 & s3 & -> & H1 & L1 & H2 & L2 & H3). clear H.
  unfold en_lat_descs in L2, H2. rewrite map_length in L2. cbv zeta.
  assert (Hunit : forall u, (u < length (en_cals md))%nat ->
            nth u (s1 ++ s2 ++ s3) dval = nth u s1 dval /\ linv (cal_ldesc (nth u (en_cals md) dcs)) (nth u s1 dval)).
  { intros u Hlt. split. apply app_nth1. lia.
    pose proof (Forall2_nth linv _ _ u (cal_ldesc dcs) dval H1 ltac:(rewrite map_length; lia)) as G.
    rewrite map_nth in G. exact G. }
  split; [|split; [|split; [|split]]].
  - intros u Hlt. destruct (Hunit u Hlt) as [-> G]. exact G.
  - intros M HM. unfold en_members_of in HM. destruct (In_nth _ _ dmem HM) as [j [Hj Ej]].
    rewrite map2_length, seq_length, Nat.min_id in Hj.
    rewrite (nth_map2 (en_member_of md (s1 ++ s2 ++ s3)) _ _ j 0%nat dem dmem) in Ej by (rewrite ?seq_length; lia).
    rewrite seq_nth in Ej by lia. cbn [Nat.add] in Ej.
    set (m := nth j (en_members md) dem) in *. assert (Hin : In m (en_members md)) by (apply nth_In; lia).
    exists j, m. split. exact Hin. split. symmetry; exact Ej. subst M.
    destruct (Hm m Hin) as (Li & Lcal & Hdim & Eu & Emon & _ & _ & Er & Hl).
    (* the kernel of member j *)
    pose proof (Forall2_nth linv _ _ j (LDLat (lat_spec_desc (em_lat dem))) dval H2 ltac:(rewrite map_length; lia)) as G.
    rewrite (map_nth (fun m => LDLat (lat_spec_desc (em_lat m)))) in G. fold m in G.
    assert (En : nth (length (en_cals md) + j) (s1 ++ s2 ++ s3) dval = nth j s2 dval).
    { rewrite app_nth2 by lia. replace (length (en_cals md) + j - length s1)%nat with j by lia. apply app_nth1. lia. }
    unfold en_member_of. rewrite En. destruct (nth j s2 dval) as [w o|w|f|k b|kp]; cbn [linv] in G; try contradiction.
    cbn [lat_K m_sizes m_K m_cals m_idx].
    pose proof Hl as (Hcfg & _ & _ & Hne & Emin & Emax & _).
    pose proof (lat_state_facts (lat_spec_desc (em_lat m)) f Hcfg Eu G) as Hlat. cbv zeta in Hlat. rewrite lat_spec_cfg in Hlat.
    destruct Hlat as (Hso & Hwf & LK & Hmono & Hbnd).
    set (sizes := l_sizes (ls_cfg (em_lat m))) in *.
    split; [|split].
    + (* member_ok *)
      split. exact Hne. split. exact Hso. split. exact Hwf. split. exact LK.
      split. cbn [m_cals]. rewrite map_length. exact Lcal. split. exact Li.
      intros q Hq. cbn [m_cals m_sizes] in *.
      rewrite nth_indep with (d' := (fun u => cal_of (nth u (en_cals md) dcs) (nth u (s1 ++ s2 ++ s3) dval)) 0%nat)
        by (rewrite map_length; lia).
      rewrite (map_nth (fun u => cal_of (nth u (en_cals md) dcs) (nth u (s1 ++ s2 ++ s3) dval))).
      destruct (Hdim q Hq) as (_ & Hlt & Hw & Hg). destruct (Hunit _ Hlt) as [-> Hinv].
      destruct (cal_state_facts _ _ _ _ _ _ Hw Hinv) as [_ R]. apply R. exact Hg. reflexivity.
      pose proof (qn_size_ge sizes q Hso Hq). lra.
    + intros q Hq Eq. apply Hmono. lia. rewrite Emon.
      rewrite nth_indep with (d' := (fun f => lattice_dim_mono (nth f (en_feats md) (MNum 0))) 0%nat) by (rewrite map_length; lia).
      rewrite (map_nth (fun f => lattice_dim_mono (nth f (en_feats md) (MNum 0)))). exact Eq.
    + intros lo hi Elo Ehi Enone. apply Hbnd. rewrite Emin, Er, Enone. exact Elo. rewrite Emax, Er, Enone. exact Ehi.
  - rewrite app_nth2 by lia. rewrite app_nth2 by lia.
    replace (length (en_cals md) + length (en_members md) - length s1 - length s2)%nat with 0%nat by lia.
    destruct (en_outc md) as [s|]; [|exact I]. destruct H3 as (w & o & -> & Hi' & Hl'). cbn [nth outc_of].
    apply (outc_state_facts _ _ _ s w Ho Hi' Hl').
  - intros lo hi Elo Ehi. rewrite app_nth2 by lia. rewrite app_nth2 by lia.
    replace (length (en_cals md) + length (en_members md) - length s1 - length s2)%nat with 0%nat by lia.
    destruct (en_outc md) as [s|]; [|exact I]. destruct H3 as (w & o & -> & Hi' & Hl'). cbn [nth outc_of].
    apply (outc_state_facts _ _ _ s w Ho Hi' Hl'); assumption.
  - rewrite app_nth2 by lia. rewrite app_nth2 by lia.
    replace (length (en_cals md) + length (en_members md) - length s1 - length s2)%nat with 0%nat by lia.
    destruct (en_outc md) as [s|]. destruct H3 as (w & o & -> & _). cbn [nth outc_of]. split; discriminate.
    cbn [outc_of]. split; reflexivity. Qed.

Lemma ensemble_average_monotone ms oc x i v : out_monotone oc -> (i < length x)%nat ->
  (forall m, In m ms -> member_ok m /\
     reads_monotone (m_idx m) (m_cals m) (fun q => knondecr (m_sizes m) (kern (m_sizes m) (m_K m) 0) q) i (nth i x 0) v) ->
  ensemble_eval ms Average oc x <= ensemble_eval ms Average oc (set_nth i v x).
Proof. intros Ho Hi H. rewrite !ensemble2_of_ensemble. apply ensemble2_compose_monotone. exact I. exact Ho. exact Hi.
  intros m2 Hin. apply in_map_iff in Hin. destruct Hin as [m [<- Hm]]. destruct (H m Hm) as [A B]. split. exact A. exact B. Qed.

Theorem ensemble_end_to_end : forall md ops st,
  en_ok md -> ops_shaped lval ldesc lshape (en_descs md) ops -> In st (run (en_vars md) ops) ->
  let F := en_eval md st in let n := length (en_feats md) in
  (forall i x v, (i < n)%nat -> length x = n ->
     (forall u, en_reader md i u -> cs_regular (nth u (en_cals md) dcs) (nth i x 0) /\ cs_regular (nth u (en_cals md) dcs) v) ->
     nth i x 0 <= v ->
     (nth i (en_feats md) (MNum 0) = MNum 1 -> F x <= F (set_nth i v x)) /\
     (nth i (en_feats md) (MNum 0) = MNum (-1) -> F (set_nth i v x) <= F x)) /\
  (forall i x ps a b, (i < n)%nat -> length x = n ->
     nth i (en_feats md) (MNum 0) = MPairs ps -> In (a, b) ps ->
     (forall u, en_reader md i u -> cs_default (nth u (en_cals md) dcs) <> Some (Z.of_nat a) /\
                                    cs_default (nth u (en_cals md) dcs) <> Some (Z.of_nat b)) ->
     F (set_nth i (qn a) x) <= F (set_nth i (qn b) x)) /\
  (forall lo hi x, en_min md = Some lo -> en_max md = Some hi -> lo <= F x <= hi).
Proof. intros md ops st Hok Hops Hs F n.
  pose proof (en_reachable md ops st Hok Hops Hs) as Hinv.
  pose proof (en_state_facts md st Hok Hinv) as Hfacts. cbv zeta in Hfacts.
  destruct Hfacts as (Hunit & Hmem & Hom & Hor & Hnone).
  pose proof Hok as (_ & Hnm & Hm & _).
  (* the general step: the calibrated value of feature i does not decrease at any reader *)
  assert (Core : forall i x v, (i < length x)%nat ->
            lattice_dim_mono (nth i (en_feats md) (MNum 0)) = 1%Z ->
            (forall u, en_reader md i u -> (u < length (en_cals md))%nat ->
               calib_eval (cal_of (nth u (en_cals md) dcs) (nth u st dval)) (nth i x 0) <=
               calib_eval (cal_of (nth u (en_cals md) dcs) (nth u st dval)) v) ->
            F x <= F (set_nth i v x)).
  { intros i x v Hi Emono Hcal. unfold F, en_eval. apply ensemble_average_monotone. exact Hom. exact Hi.
    intros M HM. destruct (Hmem M HM) as (j & m & Hin & -> & Hmok & Hk & _). split. exact Hmok.
    intros q Hq Eq. cbn [en_member_of m_idx m_cals] in *. split.
    - apply Hk. exact Hq. rewrite Eq. exact Emono.
    - destruct (Hm m Hin) as (Li & Lcal & Hdim & _). destruct (Hdim q ltac:(lia)) as (_ & Hlt & _).
      rewrite nth_indep with (d' := (fun u => cal_of (nth u (en_cals md) dcs) (nth u st dval)) 0%nat)
        by (rewrite map_length; lia).
      rewrite (map_nth (fun u => cal_of (nth u (en_cals md) dcs) (nth u st dval))).
      apply Hcal; [|exact Hlt]. exists m, q. auto. }
  (* what a reader of feature i looks like *)
  assert (Hread : forall i u, en_reader md i u -> (u < length (en_cals md))%nat /\
            exists al size, cal_wired (nth i (en_feats md) (MNum 0)) al (InputToLattice size) (en_oi md) (nth u (en_cals md) dcs)).
  { intros i u (m & p & Hin & Hp & Ei & Eu). destruct (Hm m Hin) as (Li & _ & Hdim & _).
    destruct (Hdim p ltac:(lia)) as (_ & Hlt & Hw & _). cbv zeta in Hw. rewrite Ei, Eu in *. split. exact Hlt. eauto. }
  assert (Hnum : forall i x v m0, (m0 = 1 \/ m0 = -1)%Z -> (i < length x)%nat ->
            nth i (en_feats md) (MNum 0) = MNum m0 ->
            (forall u, en_reader md i u -> cs_regular (nth u (en_cals md) dcs) (nth i x 0) /\ cs_regular (nth u (en_cals md) dcs) v) ->
            (if (m0 =? 1)%Z then nth i x 0 <= v else v <= nth i x 0) -> F x <= F (set_nth i v x)).
  { intros i x v m0 Hm0 Hi E Hreg Hle. apply Core. exact Hi.
    rewrite E. cbn [lattice_dim_mono]. destruct (Z.eqb_spec m0 0); [lia|reflexivity].
    intros u Hr Hlt. destruct (Hread i u Hr) as (_ & al & size & Hw). destruct (Hreg u Hr) as [Rx Rv].
    pose proof (Hunit u Hlt) as Hiu. destruct (cal_state_facts _ _ _ _ _ _ Hw Hiu) as [Hform _].
    destruct (nth u (en_cals md) dcs) as [s dv|s dv]; cbn [cal_wired] in Hw.
    - destruct Hw as ((m' & E' & Em) & _). rewrite E in E'. injection E' as <-.
      rewrite calibrator_mono_nonzero in Em by lia.
      cbn [cal_form] in Hform. destruct Hform as (col & miss & Ecal & Hpos & Hrg & Hinc & Hdec). rewrite Ecal in *.
      destruct Hm0 as [-> | ->]; cbn [Z.eqb] in Hle.
      + apply (calib_pwl_monotone _ _ col miss (nth i x 0) v Hpos (Hrg _ Rx) (Hrg _ Rv) Hle). apply Hinc. exact Em.
      + apply (calib_pwl_monotone _ _ col miss v (nth i x 0) Hpos (Hrg _ Rv) (Hrg _ Rx) Hle). apply Hdec. exact Em.
    - destruct Hw as (E' & _). rewrite E in E'. discriminate. }
  split; [|split].
  - intros i x v Hi Hx Hreg Hle. split; intros E.
    + apply (Hnum i x v 1%Z); auto; lia.
    + pose proof (Hnum i (set_nth i v x) (nth i x 0) (-1)%Z (or_intror eq_refl) ltac:(rewrite set_nth_length; lia) E) as G.
      rewrite set_nth_twice, set_nth_self in G. apply G.
      * intros u Hr. rewrite nth_set_nth_same by lia. destruct (Hreg u Hr). split; assumption.
      * cbn [Z.eqb]. rewrite nth_set_nth_same by lia. exact Hle.
  - intros i x ps a b Hi Hx E Hab Hdef.
    pose proof (Core i (set_nth i (qn a) x) (qn b) ltac:(rewrite set_nth_length; lia)) as G.
    rewrite set_nth_twice in G. apply G.
    + rewrite E. destruct ps; [destruct Hab|reflexivity].
    + intros u Hr Hlt. rewrite nth_set_nth_same by lia. destruct (Hread i u Hr) as (_ & al & size & Hw). destruct (Hdef u Hr) as [Da Db].
      pose proof (Hunit u Hlt) as Hiu. destruct (cal_state_facts _ _ _ _ _ _ Hw Hiu) as [Hform _].
      destruct (nth u (en_cals md) dcs) as [s dv|s dv]; cbn [cal_wired] in Hw.
      { destruct Hw as ((m' & E' & _) & _). rewrite E in E'. discriminate. }
      destruct Hw as (E' & _ & (_ & Hin & _)). rewrite E in E'. injection E' as ->.
      cbn [cal_form] in Hform. destruct Hform as (vals & Ecal & Lv & Hfe). rewrite Ecal. cbn [cs_default] in Da, Db.
      destruct (Hin a b Hab) as [Ha Hb]. apply calib_cat_pair; try assumption; try lia. apply Hfe. exact Hab.
  - intros lo hi x Elo Ehi. unfold F, en_eval. apply ensemble_bounded; [|apply Hor; assumption].
    intros Eoc. apply Hnone in Eoc. split.
    + cbn [comb_average_like]. unfold en_members_of. rewrite map2_length, seq_length, Nat.min_id. lia.
    + intros M HM. destruct (Hmem M HM) as (j & m & Hin & -> & Hmok & _ & Hb). split. exact Hmok.
      apply Hb; assumption. Qed.

(* the hypotheses are satisfiable: three features (increasing, decreasing with a default value, categorical with a
   pair), shared calibrators, two 2x2 lattices reading features (0, 1) and (0, 2), outputs averaged, bounds [0, 1] *)
Definition ex_en_pwl (mono : Z) : pwl_spec := mkPwlS [0; 1; 3] mono 0 false false 8 (InputToLattice 2) [0; 1] PKUniform.
Definition ex_en_cat : cat_spec := mkCatS [(0, 1)]%nat (InputToLattice 2) 2 [3; -(1)].
Definition ex_en_lat : lat_spec :=
  mkLatS (mkLat [2; 2]%nat 1 [1; 1]%Z [] [] (Some 0) (Some 1)) true (fun K => K)
         (ModelOutput (Some 0) (Some 1)) [0; 1] (LKLinear [0; 0]%Z).
Definition ex_en : en_model :=
  mkEN [MNum 1; MNum (-1); MPairs [(0, 1)]%nat] [false; false; false]
       [CSPwl (ex_en_pwl 1) None; CSPwl (ex_en_pwl (-1)) (Some (-(1))); CSCat ex_en_cat None]
       [mkEM [0; 1]%nat [0; 1]%nat ex_en_lat [0; 0]%Z; mkEM [0; 2]%nat [0; 2]%nat ex_en_lat [0; 0]%Z]
       Hypercube None (Some 0) (Some 1) [0; 1].

Lemma ex_en_pwl_ok mono : (mono = 1 \/ mono = -1)%Z -> pwl_spec_ok (ex_en_pwl mono).
Proof. intros Hm. apply ex_pwl_common. cbn; lia. intros l H; cbn in H; in_cases H. unfold z3; lia.
  intros a b Ha Hb; inversion Ha; inversion Hb; subst. vm_compute; discriminate. exact I. Qed.
Lemma ex_en_cat_ok : cat_spec_ok ex_en_cat.
Proof. split; [|split].
  - apply (acyclic_rank _ (fun x => x)). intros a b H. cbn in H. destruct H as [H|[]]; inversion H; subst; lia.
  - intros i' j H. cbn in H. destruct H as [H|[]]; inversion H; subst; cbn; lia.
  - reflexivity. Qed.
Lemma ex_en_lat_ok : lat_spec_ok ex_en_lat.
Proof. unfold lat_spec_ok, ex_en_lat; cbn [ls_cfg ls_ran ls_range ls_oi ls_kind]. split.
  { apply ex_cfg_ok; try reflexivity; try lia; try lra. intros s H; in_cases H. intros m H; in_cases H. }
  split. left; reflexivity. split. intros [H _]; apply H; reflexivity. split. discriminate.
  split. reflexivity. split. reflexivity.
  split. { split. discriminate. intros x H. split; intros b Hb; inversion Hb; subst; in_cases H. }
  split. reflexivity. intros d. nth_cases d. Qed.

Example ex_en_ok : en_ok ex_en.
Proof. assert (W0 : cal_wired (MNum 1) false (InputToLattice 2) [0; 1] (CSPwl (ex_en_pwl 1) None)).
  { split. exists 1%Z. split; reflexivity. split. reflexivity. split. reflexivity. split. reflexivity. apply ex_en_pwl_ok. lia. }
  assert (W1 : cal_wired (MNum (-1)) false (InputToLattice 2) [0; 1] (CSPwl (ex_en_pwl (-1)) (Some (-(1))))).
  { split. exists (-1)%Z. split; reflexivity. split. reflexivity. split. reflexivity. split. reflexivity. apply ex_en_pwl_ok. lia. }
  assert (W2 : cal_wired (MPairs [(0, 1)]%nat) false (InputToLattice 2) [0; 1] (CSCat ex_en_cat None)).
  { split. reflexivity. split. reflexivity. exact ex_en_cat_ok. }
  assert (G : forall mono dv, cal_d2_free (CSPwl (ex_en_pwl mono) dv)) by (intros mono dv [_ E]; apply E; reflexivity).
  unfold en_ok, ex_en; cbn [en_feats en_always en_cals en_members en_outc en_min en_max en_oi length].
  split. reflexivity. split. lia. split; [|split; [|exact I]].
  - intros m [<-|[<-|[]]]; unfold em_ok; cbn [em_idx em_cal em_lat em_unis ex_en_lat ls_cfg l_sizes length en_feats en_always en_cals en_outc en_min en_max en_oi];
      (split; [reflexivity|split; [reflexivity|split]]);
      [intros p Hp; destruct p as [|[|p]]; [| |lia]; cbn [nth]; (split; [lia|split; [lia|split; [assumption|auto]]]); exact I
      |split; [reflexivity|split; [reflexivity|split; [reflexivity|split; [reflexivity|split; [reflexivity|exact ex_en_lat_ok]]]]]
      |intros p Hp; destruct p as [|[|p]]; [| |lia]; cbn [nth]; (split; [lia|split; [lia|split; [assumption|auto]]]); exact I
      |split; [reflexivity|split; [reflexivity|split; [reflexivity|split; [reflexivity|split; [reflexivity|exact ex_en_lat_ok]]]]]].
  - intros u Hu. destruct u as [|[|[|u]]]; [| | |lia]; cbn [nth]; eauto. Qed.

Definition ex_en_raw (i : nat) : lval :=
  match i with
  | 0%nat => VPwl [9; -(4); 2] None
  | 1%nat => VPwl [-(3); 5; 5] (Some 40)
  | 2%nat => VCat [1; 0]
  | 3%nat => VLat (fun i => 3 - 2 * qn (nth 0 i 0%nat) + qn (nth 1 i 0%nat))
  | _ => VLat (fun i => qn (nth 0 i 0%nat) * (1#2) - qn (nth 1 i 0%nat) * (1#4))
  end.
Example ex_en_history : ops_shaped lval ldesc lshape (en_descs ex_en) [Update ex_en_raw; Init; Restore 1].
Proof. intros delta H i d Hd. cbn in H. destruct H as [H|[H|[H|[]]]]; try discriminate. injection H as <-.
  destruct i as [|[|[|[|[|i]]]]]; cbn in Hd; try (destruct i; discriminate); injection Hd as <-; cbn [lshape];
    try exact I; try reflexivity; (split; [eexists _, _; split; reflexivity|split; try reflexivity; discriminate]). Qed.
Example ex_en_values :
  let F := en_eval ex_en (final (en_vars ex_en) [Update ex_en_raw; Init; Restore 1]) in
  Qle_bool (F [0; 0; 0]) (F [2; 0; 0]) && Qle_bool (F [2; 0; 0]) (F [9; 0; 0]) &&
  Qle_bool (F [1; 5; 0]) (F [1; 1#2; 0]) && Qle_bool (F [1; 1; 0]) (F [1; 1; 1]) &&
  Qle_bool 0 (F [1; -(1); 7]) && Qle_bool (F [1; -(1); 7]) 1 = true.
Proof. vm_compute. reflexivity. Qed.
