(* Lemmas about the Lattice kernel initialisers (Model/LatticeInit.v), for C10. *)
From TFL Require Export Model.LatticeInit Proofs.LatticeSpecFacts.
From Coq Require Import Permutation.
Open Scope Q_scope.

(* ------------------------------------------------------------------ *)
(* qnat                                                                 *)
(* ------------------------------------------------------------------ *)
Lemma qnat_S n : qnat (S n) == qnat n + 1.
Proof. unfold qnat. rewrite Nat2Z.inj_succ. unfold Z.succ. rewrite inject_Z_plus. reflexivity. Qed.
Lemma qnat_0 : qnat 0 == 0. Proof. reflexivity. Qed.
Lemma qnat_nonneg n : 0 <= qnat n.
Proof. induction n as [|n IH]. rewrite qnat_0; lra. rewrite qnat_S; lra. Qed.
Lemma qnat_pos n : (1 <= n)%nat -> 1 <= qnat n.
Proof. destruct n as [|n]; [lia|]. intros _. rewrite qnat_S. pose proof (qnat_nonneg n). lra. Qed.
Lemma qnat_pred n : (1 <= n)%nat -> qnat (n - 1) == qnat n - 1.
Proof. destruct n as [|n]; [lia|]. intros _. replace (S n - 1)%nat with n by lia. rewrite qnat_S. lra. Qed.
Lemma qnat_plus a b : qnat (a + b) == qnat a + qnat b.
Proof. unfold qnat. rewrite Nat2Z.inj_add, inject_Z_plus. reflexivity. Qed.

(* ------------------------------------------------------------------ *)
(* _linspace                                                            *)
(* ------------------------------------------------------------------ *)
Lemma linspace_length a b n : length (linspace a b n) = n.
Proof. unfold linspace. rewrite map_length, seq_length. reflexivity. Qed.
Lemma linspace_nth a b n k : (k < n)%nat -> nth k (linspace a b n) 0 = linspace_at a b n k.
Proof. intros H. unfold linspace. apply nth_map_seq. exact H. Qed.

Lemma linspace_at_one a b k : linspace_at a b 1 k = a.
Proof. reflexivity. Qed.
Lemma linspace_at_eq a b n k : (2 <= n)%nat -> linspace_at a b n k == a + (b - a) * qnat k / (qnat n - 1).
Proof. intros H. unfold linspace_at. destruct (Nat.eqb_spec n 1); [lia|]. apply Qred_correct. Qed.

(* the common increment of consecutive entries *)
Definition lin_step (a b : Q) (n : nat) : Q := if (n =? 1)%nat then 0 else (b - a) / (qnat n - 1).
Lemma linspace_at_succ a b n k : (1 <= n)%nat -> linspace_at a b n (S k) == linspace_at a b n k + lin_step a b n.
Proof. intros H. unfold lin_step. destruct (Nat.eqb_spec n 1) as [->|Hn].
  - rewrite !linspace_at_one. lra.
  - rewrite !linspace_at_eq by lia. rewrite qnat_S.
    assert (Hd : ~ qnat n - 1 == 0) by (pose proof (qnat_pos (n - 1) ltac:(lia)); rewrite qnat_pred in * by lia; lra).
    field. exact Hd. Qed.
Lemma lin_step_nonneg a b n : (1 <= n)%nat -> a <= b -> 0 <= lin_step a b n.
Proof. intros H Hab. unfold lin_step. destruct (Nat.eqb_spec n 1) as [->|Hn]. lra.
  assert (Hd : 0 < qnat n - 1) by (pose proof (qnat_pos (n - 1) ltac:(lia)); rewrite qnat_pred in * by lia; lra).
  apply Qle_shift_div_l. exact Hd. lra. Qed.
Lemma linspace_at_first a b n : (1 <= n)%nat -> linspace_at a b n 0 == a.
Proof. intros H. destruct (Nat.eq_dec n 1) as [->|Hn]. reflexivity.
  rewrite linspace_at_eq by lia. rewrite qnat_0. unfold Qdiv. lra. Qed.
Lemma linspace_at_last a b n : (2 <= n)%nat -> linspace_at a b n (n - 1) == b.
Proof. intros H. rewrite linspace_at_eq by lia. rewrite qnat_pred by lia.
  assert (Hd : ~ qnat n - 1 == 0) by (pose proof (qnat_pos (n - 1) ltac:(lia)); rewrite qnat_pred in * by lia; lra).
  field. exact Hd. Qed.
Lemma linspace_at_mono a b n : (1 <= n)%nat -> a <= b ->
  forall k j, (j <= k)%nat -> linspace_at a b n j <= linspace_at a b n k.
Proof. intros H Hab. induction k as [|k IH]; intros j Hj.
  - replace j with 0%nat by lia. lra.
  - destruct (Nat.eq_dec j (S k)) as [->|Hne]. lra.
    rewrite linspace_at_succ by exact H. pose proof (lin_step_nonneg a b n H Hab). specialize (IH j ltac:(lia)). lra. Qed.
Lemma linspace_at_range a b n k : (1 <= n)%nat -> a <= b -> (k <= n - 1)%nat ->
  a <= linspace_at a b n k /\ linspace_at a b n k <= b.
Proof. intros H Hab Hk. split.
  - rewrite <- (linspace_at_first a b n H) at 1. apply linspace_at_mono; auto; lia.
  - destruct (Nat.eq_dec n 1) as [->|Hn]. rewrite linspace_at_one. exact Hab.
    rewrite <- (linspace_at_last a b n ltac:(lia)) at 2. apply linspace_at_mono; auto. Qed.
(* the decreasing ramp is the mirror image of the increasing one *)
Lemma linspace_at_dec r n k : (1 <= n)%nat -> linspace_at r 0 n k == r - linspace_at 0 r n k.
Proof. intros H. destruct (Nat.eq_dec n 1) as [->|Hn]. rewrite !linspace_at_one. lra.
  rewrite !linspace_at_eq by lia.
  assert (Hd : ~ qnat n - 1 == 0) by (pose proof (qnat_pos (n - 1) ltac:(lia)); rewrite qnat_pred in * by lia; lra).
  field. exact Hd. Qed.

(* ------------------------------------------------------------------ *)
(* the per-dimension profile  one_d  in closed form                     *)
(* ------------------------------------------------------------------ *)
Lemma nth_skipn_add {A} p : forall (l : list A) j d, nth j (skipn p l) d = nth (p + j) l d.
Proof. induction p as [|p IH]; intros l j d. reflexivity.
  destruct l as [|x l]; cbn. destruct j; reflexivity. apply IH. Qed.

Lemma half_facts s : (s + s mod 2 = 2 * ((s + 1) / 2))%nat /\ (s mod 2 <= 1)%nat /\ (s / 2 = (s + 1) / 2 - s mod 2)%nat.
Proof.
  pose proof (Nat.div_mod s 2 ltac:(lia)) as H1. pose proof (Nat.mod_upper_bound s 2 ltac:(lia)) as H2.
  pose proof (Nat.div_mod (s + 1) 2 ltac:(lia)) as H3. pose proof (Nat.mod_upper_bound (s + 1) 2 ltac:(lia)) as H4.
  assert (H5 : ((s + 1) mod 2 = 1 - s mod 2)%nat).
  { rewrite Nat.add_mod by lia. destruct (s mod 2)%nat as [|[|q]] eqn:E; try lia; reflexivity. }
  lia. Qed.

Definition uni_prof (u : Z) (s : nat) (r : Q) (k : nat) : Q :=
  let h := ((s + 1) / 2)%nat in let p := (s mod 2)%nat in
  if (u =? 1)%Z then (if (k <? h)%nat then linspace_at r 0 h k else linspace_at 0 r h (p + (k - h)))
  else (if (k <? h)%nat then linspace_at 0 r h k else linspace_at r 0 h (p + (k - h))).
Definition prof_at (m u : Z) (s : nat) (r : Q) (k : nat) : Q :=
  if nz m then linspace_at 0 r s k else if nz u then uni_prof u s r k else 0.

Lemma one_d_length m u s r : length (one_d m u s r) = s.
Proof. unfold one_d. destruct (half_facts s) as (H1 & H2 & H3).
  destruct (nz m). apply linspace_length. destruct (nz u); [|apply repeat_length].
  destruct (u =? 1)%Z; rewrite app_length, skipn_length, !linspace_length; lia. Qed.

Lemma one_d_nth m u s r k : (k < s)%nat -> nth k (one_d m u s r) 0 = prof_at m u s r k.
Proof. intros Hk. unfold one_d, prof_at. destruct (half_facts s) as (H1 & H2 & H3).
  destruct (nz m). apply linspace_nth; exact Hk.
  destruct (nz u); [|apply nth_repeat].
  unfold uni_prof. cbv zeta. set (h := ((s + 1) / 2)%nat) in *. set (p := (s mod 2)%nat) in *.
  destruct (u =? 1)%Z; destruct (Nat.ltb_spec k h) as [Hlt|Hge].
  - rewrite app_nth1 by (rewrite linspace_length; exact Hlt). apply linspace_nth; exact Hlt.
  - rewrite app_nth2 by (rewrite linspace_length; exact Hge). rewrite linspace_length, nth_skipn_add.
    apply linspace_nth. lia.
  - rewrite app_nth1 by (rewrite linspace_length; exact Hlt). apply linspace_nth; exact Hlt.
  - rewrite app_nth2 by (rewrite linspace_length; exact Hge). rewrite linspace_length, nth_skipn_add.
    apply linspace_nth. lia. Qed.

(* peak = r - valley *)
Lemma uni_prof_peak_eq u s r k : (1 <= s)%nat -> (u =? 1)%Z = false -> uni_prof u s r k == r - uni_prof 1 s r k.
Proof. intros Hs Hu. unfold uni_prof. cbv zeta. rewrite Hu. change (1 =? 1)%Z with true. cbv iota.
  destruct (half_facts s) as (H1 & H2 & H3).
  destruct (k <? (s + 1) / 2)%nat; rewrite linspace_at_dec by lia; lra. Qed.

Lemma valley_range s r k : (1 <= s)%nat -> 0 <= r -> (k < s)%nat -> 0 <= uni_prof 1 s r k /\ uni_prof 1 s r k <= r.
Proof. intros Hs Hr Hk. unfold uni_prof. cbv zeta. change (1 =? 1)%Z with true. cbv iota.
  destruct (half_facts s) as (H1 & H2 & H3). set (h := ((s + 1) / 2)%nat) in *. set (p := (s mod 2)%nat) in *.
  destruct (Nat.ltb_spec k h) as [Hlt|Hge].
  - rewrite linspace_at_dec by lia. pose proof (linspace_at_range 0 r h k ltac:(lia) Hr ltac:(lia)). lra.
  - apply linspace_at_range; try lia. exact Hr. Qed.

Lemma valley_first s r : (1 <= s)%nat -> uni_prof 1 s r 0 == r.
Proof. intros Hs. unfold uni_prof. cbv zeta. change (1 =? 1)%Z with true. cbv iota.
  destruct (half_facts s) as (H1 & H2 & H3).
  destruct (Nat.ltb_spec 0 ((s + 1) / 2)) as [Hlt|Hge]; [|lia]. apply linspace_at_first. lia. Qed.

Lemma valley_centre s r : (2 <= s)%nat -> uni_prof 1 s r (s / 2) == 0.
Proof. intros Hs. unfold uni_prof. cbv zeta. change (1 =? 1)%Z with true. cbv iota.
  destruct (half_facts s) as (H1 & H2 & H3). set (h := ((s + 1) / 2)%nat) in *. set (p := (s mod 2)%nat) in *.
  destruct (Nat.ltb_spec (s / 2) h) as [Hlt|Hge].
  - assert (p = 1%nat) by lia. assert (2 <= h)%nat by lia.
    replace (s / 2)%nat with (h - 1)%nat by lia. apply linspace_at_last. lia.
  - assert (p = 0%nat) by lia. replace (p + (s / 2 - h))%nat with 0%nat by lia. apply linspace_at_first. lia. Qed.

(* valley: non-increasing while k < s/2, non-decreasing afterwards -- the split
   that _project_partial_monotonicity uses (is_first_part = i < size // 2) *)
Lemma valley_shape s r k : 0 <= r -> (S k < s)%nat ->
  if (k <? s / 2)%nat then uni_prof 1 s r (S k) <= uni_prof 1 s r k
  else uni_prof 1 s r k <= uni_prof 1 s r (S k).
Proof. intros Hr Hk. unfold uni_prof. cbv zeta. change (1 =? 1)%Z with true. cbv iota.
  destruct (half_facts s) as (H1 & H2 & H3). set (h := ((s + 1) / 2)%nat) in *. set (p := (s mod 2)%nat) in *.
  assert (Hh : (1 <= h)%nat) by lia.
  pose proof (linspace_at_mono 0 r h Hh Hr) as Hm.
  destruct (Nat.ltb_spec k (s / 2)) as [Hf|Hf]; destruct (Nat.ltb_spec k h) as [Hkh|Hkh];
    destruct (Nat.ltb_spec (S k) h) as [Hsh|Hsh]; try lia.
  - rewrite !linspace_at_dec by exact Hh. specialize (Hm (S k) k ltac:(lia)). lra.
  - assert (p = 0%nat) by lia. replace (p + (S k - h))%nat with 0%nat by lia.
    rewrite linspace_at_first by exact Hh. rewrite linspace_at_dec by exact Hh.
    pose proof (linspace_at_range 0 r h k Hh Hr ltac:(lia)). lra.
  - assert (p = 1%nat) by lia. assert (2 <= h)%nat by lia. replace k with (h - 1)%nat by lia.
    rewrite linspace_at_last by lia.
    pose proof (linspace_at_range 0 r h (p + (S (h - 1) - h)) Hh Hr ltac:(lia)). lra.
  - apply Hm. lia. Qed.

(* increments along a monotone dimension are constant *)
Lemma prof_mono_step m u s r k : nz m = true -> (1 <= s)%nat ->
  prof_at m u s r (S k) == prof_at m u s r k + lin_step 0 r s.
Proof. intros Hm Hs. unfold prof_at. rewrite Hm. apply linspace_at_succ. exact Hs. Qed.

(* every profile lies in [0, r]; an unconstrained dimension contributes 0 *)
Lemma prof_range m u s r k : (1 <= s)%nat -> 0 <= r -> (k < s)%nat -> 0 <= prof_at m u s r k /\ prof_at m u s r k <= r.
Proof. intros Hs Hr Hk. unfold prof_at. destruct (nz m).
  - apply linspace_at_range; auto; lia.
  - destruct (nz u); [|lra]. destruct (u =? 1)%Z eqn:Eu.
    + apply Z.eqb_eq in Eu. subst u. apply valley_range; assumption.
    + rewrite uni_prof_peak_eq by assumption. pose proof (valley_range s r k Hs Hr Hk). lra. Qed.
Lemma prof_unconstrained m u s r k : nz m = false -> nz u = false -> prof_at m u s r k = 0.
Proof. intros Hm Hu. unfold prof_at. rewrite Hm, Hu. reflexivity. Qed.

(* where each profile attains 0 and r *)
Definition arg_lo (m u : Z) (s : nat) : nat :=
  if nz m then 0%nat else if nz u then (if (u =? 1)%Z then (s / 2)%nat else 0%nat) else 0%nat.
Definition arg_hi (m u : Z) (s : nat) : nat :=
  if nz m then (s - 1)%nat else if nz u then (if (u =? 1)%Z then 0%nat else (s / 2)%nat) else 0%nat.
Lemma arg_lo_lt m u s : (2 <= s)%nat -> (arg_lo m u s < s)%nat.
Proof. intros Hs. unfold arg_lo. pose proof (Nat.div_lt s 2 ltac:(lia) ltac:(lia)).
  destruct (nz m); [lia|]. destruct (nz u); [|lia]. destruct (u =? 1)%Z; lia. Qed.
Lemma arg_hi_lt m u s : (2 <= s)%nat -> (arg_hi m u s < s)%nat.
Proof. intros Hs. unfold arg_hi. pose proof (Nat.div_lt s 2 ltac:(lia) ltac:(lia)).
  destruct (nz m); [lia|]. destruct (nz u); [|lia]. destruct (u =? 1)%Z; lia. Qed.
Lemma prof_arg_lo m u s r : (2 <= s)%nat -> prof_at m u s r (arg_lo m u s) == 0.
Proof. intros Hs. unfold prof_at, arg_lo. destruct (nz m). apply linspace_at_first; lia.
  destruct (nz u); [|reflexivity]. destruct (u =? 1)%Z eqn:Eu.
  - apply Z.eqb_eq in Eu. subst u. apply valley_centre. exact Hs.
  - rewrite uni_prof_peak_eq by (auto; lia). rewrite valley_first by lia. lra. Qed.
Lemma prof_arg_hi m u s r : (2 <= s)%nat -> prof_at m u s r (arg_hi m u s) == (if nz m || nz u then r else 0).
Proof. intros Hs. unfold prof_at, arg_hi. destruct (nz m); cbn [orb]. apply linspace_at_last; lia.
  destruct (nz u); [|reflexivity]. destruct (u =? 1)%Z eqn:Eu.
  - apply Z.eqb_eq in Eu. subst u. apply valley_first. lia.
  - rewrite uni_prof_peak_eq by (auto; lia). rewrite valley_centre by lia. lra. Qed.

(* ------------------------------------------------------------------ *)
(* sums over dimensions                                                 *)
(* ------------------------------------------------------------------ *)
Lemma qsum_seq_diff (F G : nat -> Q) d : (forall e, e <> d -> F e == G e) ->
  forall n a, (a <= d < a + n)%nat -> qsum (map F (seq a n)) == qsum (map G (seq a n)) + (F d - G d).
Proof. intros HFG. induction n as [|n IH]; intros a Ha. lia. cbn [seq map qsum].
  destruct (Nat.eq_dec a d) as [->|Hne].
  - rewrite (qsum_map_ext F G (seq (S d) n)). lra.
    intros e He. apply in_seq in He. apply HFG. lia.
  - rewrite (HFG a Hne). rewrite (IH (S a)) by lia. lra. Qed.

Lemma qsum_seq_upd (g : nat -> nat -> Q) i d k n : (d < n)%nat -> (d < length i)%nat ->
  qsum (map (fun e => g e (nth e (upd i d k) 0%nat)) (seq 0 n)) ==
  qsum (map (fun e => g e (nth e i 0%nat)) (seq 0 n)) + (g d k - g d (nth d i 0%nat)).
Proof. intros Hd Hl.
  rewrite (qsum_seq_diff (fun e => g e (nth e (upd i d k) 0%nat)) (fun e => g e (nth e i 0%nat)) d).
  - cbv beta. rewrite nth_upd_same by exact Hl. reflexivity.
  - intros e He. cbv beta. rewrite nth_upd_other by auto. reflexivity.
  - lia. Qed.

Lemma count_nz_sum l : qsum (map (fun d => if nz (nth d l 0%Z) then 1 else 0) (seq 0 (length l))) == qnat (count_nz l).
Proof. induction l as [|z l IH]. reflexivity.
  cbn [length]. rewrite <- cons_seq, <- seq_shift. cbn [map qsum]. rewrite map_map. cbn [nth].
  rewrite IH. unfold count_nz. cbn [filter]. destruct (nz z); cbn [length]; [rewrite qnat_S|]; lra. Qed.

Lemma count_nz_repeat1 n : count_nz (repeat 1%Z n) = n.
Proof. induction n as [|n IH]. reflexivity. unfold count_nz in *. cbn. rewrite IH. reflexivity. Qed.
Lemma count_nz_zero_nth l d : count_nz l = 0%nat -> nz (nth d l 0%Z) = false.
Proof. revert d. induction l as [|z l IH]; intros d H. destruct d; reflexivity.
  unfold count_nz in *. cbn [filter] in H. destruct (nz z) eqn:E; [cbn in H; lia|].
  destruct d; cbn [nth]. exact E. apply IH. exact H. Qed.

(* ------------------------------------------------------------------ *)
(* the unit axis                                                        *)
(* ------------------------------------------------------------------ *)
Lemma valid_units_coord sizes units i d : valid (sizes ++ [units]) i -> (d < length sizes)%nat ->
  (nth d i 0 < nth d sizes 0)%nat.
Proof. intros Hv Hd. pose proof (valid_nth _ _ d Hv ltac:(rewrite app_length; cbn; lia)) as H.
  rewrite app_nth1 in H by exact Hd. exact H. Qed.
Lemma valid_units_length sizes units i : valid (sizes ++ [units]) i -> length i = S (length sizes).
Proof. intros Hv. rewrite (valid_length _ _ Hv), app_length. cbn. lia. Qed.

(* ------------------------------------------------------------------ *)
(* linear_initializer                                                   *)
(* ------------------------------------------------------------------ *)
Section Linear.
Variables (sizes : list nat) (omin omax : Q) (monos unis : list Z) (units : nat).
Let rank := length sizes.
Let sh := sizes ++ [units].
Let r := lin_dim_range sizes omin omax monos unis.
Let em := lin_eff_monos sizes monos unis.
Let f := linear_init_fn sizes omin omax monos unis.

Definition lprof (d k : nat) : Q := prof_at (nth d em 0%Z) (nth d unis 0%Z) (nth d sizes 0%nat) r k.

Lemma lin_fn_valid i : valid sh i -> f i == qsum (map (fun d => lprof d (nth d i 0%nat)) (seq 0 rank)) + omin.
Proof. intros Hv. unfold f, linear_init_fn. fold rank.
  rewrite (qsum_map_ext _ (fun d => lprof d (nth d i 0%nat))). reflexivity.
  intros d Hd. apply in_seq in Hd. unfold lin_profile, lprof. fold em r.
  rewrite one_d_nth. reflexivity. apply (valid_units_coord sizes units); [exact Hv|unfold rank in Hd; lia]. Qed.

Lemma lin_fn_upd i d k : valid sh i -> (d < rank)%nat -> (k < nth d sizes 0)%nat ->
  f (upd i d k) == f i + (lprof d k - lprof d (nth d i 0%nat)).
Proof. intros Hv Hd Hk.
  assert (Hv' : valid sh (upd i d k)).
  { apply upd_valid. exact Hv. unfold sh. rewrite app_nth1 by exact Hd. exact Hk. }
  rewrite (lin_fn_valid _ Hv'), (lin_fn_valid _ Hv).
  rewrite (qsum_seq_upd lprof i d k rank Hd). lra.
  rewrite (valid_units_length sizes units i Hv). unfold rank in Hd. lia. Qed.

Lemma lin_dim_range_nonneg : omin <= omax -> 0 <= r.
Proof. intros H. unfold r, lin_dim_range.
  pose proof (qnat_nonneg (lin_num_constraint_dims sizes monos unis)) as Hn.
  destruct (Qeq_dec (qnat (lin_num_constraint_dims sizes monos unis)) 0) as [E|E].
  - rewrite E. unfold Qdiv. rewrite Qinv_0 || (change (/ 0) with 0). lra.
  - apply Qle_shift_div_l; lra. Qed.

(* monotone dimension: constant non-negative increments *)
Lemma lin_fn_mono_step i d : valid sh i -> (d < rank)%nat -> nz (nth d em 0%Z) = true ->
  (S (nth d i 0) < nth d sizes 0)%nat ->
  f (upd i d (S (nth d i 0%nat))) == f i + lin_step 0 r (nth d sizes 0%nat).
Proof. intros Hv Hd Hm Hs. pose proof (lin_fn_upd i d _ Hv Hd Hs) as HU. rewrite HU. clear HU. unfold lprof.
  rewrite prof_mono_step by (auto; lia). lra. Qed.

(* unimodal dimension *)
Lemma lin_fn_valley i d : omin <= omax -> valid sh i -> (d < rank)%nat -> nz (nth d em 0%Z) = false ->
  nth d unis 0%Z = 1%Z -> (S (nth d i 0) < nth d sizes 0)%nat ->
  if (nth d i 0 <? nth d sizes 0 / 2)%nat then f (upd i d (S (nth d i 0%nat))) <= f i
  else f i <= f (upd i d (S (nth d i 0%nat))).
Proof. intros Hb Hv Hd Hm Hu Hs. pose proof (lin_fn_upd i d _ Hv Hd Hs) as HU. unfold lprof, prof_at in HU.
  rewrite Hm, Hu in HU. change (nz 1) with true in HU. cbv iota in HU.
  pose proof (valley_shape (nth d sizes 0%nat) r (nth d i 0%nat) (lin_dim_range_nonneg Hb) Hs) as H.
  destruct (nth d i 0 <? nth d sizes 0 / 2)%nat; lra. Qed.
Lemma lin_fn_peak i d : omin <= omax -> valid sh i -> (d < rank)%nat -> nz (nth d em 0%Z) = false ->
  nz (nth d unis 0%Z) = true -> nth d unis 0%Z <> 1%Z -> (S (nth d i 0) < nth d sizes 0)%nat ->
  if (nth d i 0 <? nth d sizes 0 / 2)%nat then f i <= f (upd i d (S (nth d i 0%nat)))
  else f (upd i d (S (nth d i 0%nat))) <= f i.
Proof. intros Hb Hv Hd Hm Hu Hu1 Hs. pose proof (lin_fn_upd i d _ Hv Hd Hs) as HU. unfold lprof, prof_at in HU.
  rewrite Hm, Hu in HU. apply Z.eqb_neq in Hu1.
  pose proof (uni_prof_peak_eq (nth d unis 0%Z) (nth d sizes 0%nat) r (S (nth d i 0%nat)) ltac:(lia) Hu1) as E1.
  pose proof (uni_prof_peak_eq (nth d unis 0%Z) (nth d sizes 0%nat) r (nth d i 0%nat) ltac:(lia) Hu1) as E2.
  pose proof (valley_shape (nth d sizes 0%nat) r (nth d i 0%nat) (lin_dim_range_nonneg Hb) Hs) as H.
  destruct (nth d i 0 <? nth d sizes 0 / 2)%nat; lra. Qed.

(* unconstrained dimension: the kernel does not depend on it *)
Lemma lin_fn_const i d k : valid sh i -> (d < rank)%nat -> nz (nth d em 0%Z) = false ->
  nz (nth d unis 0%Z) = false -> (k < nth d sizes 0)%nat -> f (upd i d k) == f i.
Proof. intros Hv Hd Hm Hu Hk. pose proof (lin_fn_upd i d _ Hv Hd Hk) as HU. rewrite HU. clear HU. unfold lprof.
  rewrite !prof_unconstrained by assumption. lra. Qed.

(* range *)
Hypothesis Hsizes : forall s, In s sizes -> (2 <= s)%nat.
Hypothesis Hunits : (1 <= units)%nat.
Hypothesis Hrank : (1 <= rank)%nat.
Hypothesis Hlm : length monos = rank.
Hypothesis Hlu : length unis = rank.
Hypothesis Hdisj : forall d, nz (nth d monos 0%Z) && nz (nth d unis 0%Z) = false.
Hypothesis Hb : omin <= omax.

Lemma size_ge2 d : (d < rank)%nat -> (2 <= nth d sizes 0)%nat.
Proof. intros Hd. apply Hsizes. apply nth_In. exact Hd. Qed.

Definition cind (d : nat) : Q := if nz (nth d em 0%Z) || nz (nth d unis 0%Z) then 1 else 0.

Lemma em_length : length em = rank.
Proof. unfold em, lin_eff_monos. destruct (count_nz monos + count_nz unis =? 0)%nat.
  apply repeat_length. exact Hlm. Qed.
Lemma em_disj d : nz (nth d em 0%Z) && nz (nth d unis 0%Z) = false.
Proof. unfold em, lin_eff_monos. destruct (Nat.eqb_spec (count_nz monos + count_nz unis) 0) as [E|E]; [|apply Hdisj].
  rewrite (count_nz_zero_nth unis d) by lia. apply andb_false_r. Qed.
Lemma count_em : (count_nz em + count_nz unis)%nat = lin_num_constraint_dims sizes monos unis.
Proof. unfold em, lin_eff_monos, lin_num_constraint_dims.
  destruct (Nat.eqb_spec (count_nz monos + count_nz unis) 0) as [E|E]; [|reflexivity].
  rewrite count_nz_repeat1. lia. Qed.
Lemma ncd_pos : (1 <= lin_num_constraint_dims sizes monos unis)%nat.
Proof. unfold lin_num_constraint_dims. destruct (Nat.eqb_spec (count_nz monos + count_nz unis) 0); [exact Hrank|lia]. Qed.

Lemma cind_sum : qsum (map cind (seq 0 rank)) == qnat (lin_num_constraint_dims sizes monos unis).
Proof. rewrite <- count_em, qnat_plus.
  rewrite <- (count_nz_sum em), <- (count_nz_sum unis), em_length, Hlu, <- qsum_map_plus.
  apply qsum_map_ext. intros d _. unfold cind. pose proof (em_disj d) as H.
  destruct (nz (nth d em 0%Z)), (nz (nth d unis 0%Z)); cbn in *; try discriminate; lra. Qed.

Lemma total_range : qnat (lin_num_constraint_dims sizes monos unis) * r == omax - omin.
Proof. unfold r, lin_dim_range. pose proof (qnat_pos _ ncd_pos). field. lra. Qed.

Lemma lprof_bounds d k : (d < rank)%nat -> (k < nth d sizes 0)%nat -> 0 <= lprof d k /\ lprof d k <= cind d * r.
Proof. intros Hd Hk. unfold lprof, cind. pose proof (lin_dim_range_nonneg Hb) as Hr.
  destruct (nz (nth d em 0%Z)) eqn:Em; [|destruct (nz (nth d unis 0%Z)) eqn:Eu]; cbn [orb].
  - pose proof (prof_range (nth d em 0%Z) (nth d unis 0%Z) (nth d sizes 0%nat) r k ltac:(lia) Hr Hk). lra.
  - pose proof (prof_range (nth d em 0%Z) (nth d unis 0%Z) (nth d sizes 0%nat) r k ltac:(lia) Hr Hk). lra.
  - rewrite prof_unconstrained by assumption. lra. Qed.

Lemma lin_fn_in_range i : valid sh i -> omin <= f i /\ f i <= omax.
Proof. intros Hv. rewrite (lin_fn_valid i Hv).
  assert (H0 : 0 <= qsum (map (fun d => lprof d (nth d i 0%nat)) (seq 0 rank))).
  { apply qsum_map_nonneg. intros d Hd. apply in_seq in Hd.
    apply lprof_bounds. lia. apply (valid_units_coord sizes units); [exact Hv|unfold rank in Hd; lia]. }
  assert (H1 : qsum (map (fun d => lprof d (nth d i 0%nat)) (seq 0 rank)) <= qsum (map (fun d => cind d * r) (seq 0 rank))).
  { apply qsum_map_le. intros d Hd. apply in_seq in Hd.
    apply lprof_bounds. lia. apply (valid_units_coord sizes units); [exact Hv|unfold rank in Hd; lia]. }
  rewrite (qsum_map_ext (fun d => cind d * r) (fun d => r * cind d)) in H1 by (intros; lra).
  rewrite qsum_map_scale, cind_sum in H1. pose proof total_range. lra. Qed.

(* the two extreme vertices *)
Definition corner (pick : Z -> Z -> nat -> nat) : idx :=
  map (fun d => pick (nth d em 0%Z) (nth d unis 0%Z) (nth d sizes 0%nat)) (seq 0 rank) ++ [0%nat].
Lemma corner_nth pick d : (d < rank)%nat -> nth d (corner pick) 0%nat = pick (nth d em 0%Z) (nth d unis 0%Z) (nth d sizes 0%nat).
Proof. intros Hd. unfold corner. rewrite app_nth1 by (rewrite map_length, seq_length; exact Hd).
  exact (nth_map_seq (fun d => pick (nth d em 0%Z) (nth d unis 0%Z) (nth d sizes 0%nat)) rank d 0%nat Hd). Qed.
Lemma corner_valid pick : (forall m u s, (2 <= s)%nat -> (pick m u s < s)%nat) -> valid sh (corner pick).
Proof. intros Hp. apply valid_iff. unfold sh, corner. rewrite !app_length, map_length, seq_length. cbn [length]. split. reflexivity.
  fold rank. intros e He. destruct (Nat.ltb_spec e rank) as [Hlt|Hge].
  - rewrite !app_nth1 by (rewrite ?map_length, ?seq_length; exact Hlt).
    rewrite (nth_map_seq (fun d => pick (nth d em 0%Z) (nth d unis 0%Z) (nth d sizes 0%nat)) rank e 0%nat Hlt). apply Hp. apply size_ge2. exact Hlt.
  - assert (e = rank) by lia. subst e. rewrite !app_nth2 by (rewrite ?map_length, ?seq_length; unfold rank; lia).
    rewrite map_length, seq_length. unfold rank. rewrite Nat.sub_diag. cbn. lia. Qed.

Lemma lin_fn_min_attained : exists i, valid sh i /\ f i == omin.
Proof. exists (corner arg_lo). assert (Hv : valid sh (corner arg_lo)) by (apply corner_valid; intros; apply arg_lo_lt; assumption).
  split. exact Hv. rewrite (lin_fn_valid _ Hv).
  rewrite (qsum_map_ext _ (fun _ => 0 * 0)).
  - rewrite qsum_map_scale. lra.
  - intros d Hd. apply in_seq in Hd. rewrite corner_nth by lia. unfold lprof. rewrite prof_arg_lo. lra. apply size_ge2. lia. Qed.
Lemma lin_fn_max_attained : exists i, valid sh i /\ f i == omax.
Proof. exists (corner arg_hi). assert (Hv : valid sh (corner arg_hi)) by (apply corner_valid; intros; apply arg_hi_lt; assumption).
  split. exact Hv. rewrite (lin_fn_valid _ Hv).
  rewrite (qsum_map_ext _ (fun d => r * cind d)).
  - rewrite qsum_map_scale, cind_sum. pose proof total_range. lra.
  - intros d Hd. apply in_seq in Hd. rewrite corner_nth by lia. unfold lprof. rewrite prof_arg_hi by (apply size_ge2; lia).
    unfold cind. destruct (nz (nth d em 0%Z) || nz (nth d unis 0%Z)); lra. Qed.
End Linear.

(* ------------------------------------------------------------------ *)
(* linear_init (memoised, Qred, None handling): user-level statements   *)
(* ------------------------------------------------------------------ *)
Lemma linear_init_val sizes omin omax monos unis units i : valid (sizes ++ [units]) i ->
  linear_init sizes omin omax monos unis units i ==
  linear_init_fn sizes omin omax (zeros_if_none (length sizes) monos) (zeros_if_none (length sizes) unis) i.
Proof. intros Hv. unfold linear_init. rewrite memo_ok by exact Hv. apply Qred_correct. Qed.

Lemma eff_monos_same sizes monos unis : (count_nz monos + count_nz unis <> 0)%nat -> lin_eff_monos sizes monos unis = monos.
Proof. intros H. unfold lin_eff_monos. destruct (Nat.eqb_spec (count_nz monos + count_nz unis) 0); [lia|reflexivity]. Qed.
Lemma count_nz_pos l d : nz (nth d l 0%Z) = true -> (count_nz l <> 0)%nat.
Proof. intros H E. rewrite (count_nz_zero_nth l d E) in H. discriminate. Qed.
Lemma eff_monos_all sizes monos unis d : (count_nz monos + count_nz unis = 0)%nat -> (d < length sizes)%nat ->
  nth d (lin_eff_monos sizes monos unis) 0%Z = 1%Z.
Proof. intros H Hd. unfold lin_eff_monos. rewrite H. cbn [Nat.eqb].
  rewrite nth_indep with (d' := 1%Z) by (rewrite repeat_length; exact Hd). apply nth_repeat. Qed.

Section LinearTop.
Variables (sizes : list nat) (omin omax : Q) (monos unis : option (list Z)) (units : nat).
Let rank := length sizes.
Let sh := sizes ++ [units].
Let zm := zeros_if_none rank monos.
Let zu := zeros_if_none rank unis.
Let W := linear_init sizes omin omax monos unis units.
Let r := lin_dim_range sizes omin omax zm zu.

Lemma W_val i : valid sh i -> W i == linear_init_fn sizes omin omax zm zu i.
Proof. apply linear_init_val. Qed.
Lemma sh_nth d : (d < rank)%nat -> nth d sh 0%nat = nth d sizes 0%nat.
Proof. intros Hd. unfold sh. apply app_nth1. exact Hd. Qed.

(* dimension d is treated as monotone by the initialiser *)
Definition lin_mono_dim (d : nat) : Prop := nz (nth d (lin_eff_monos sizes zm zu) 0%Z) = true.

Lemma linear_mono_dim_step d i : (d < rank)%nat -> lin_mono_dim d -> valid sh i ->
  (S (nth d i 0) < nth d sizes 0)%nat ->
  W (upd i d (S (nth d i 0%nat))) == W i + lin_step 0 r (nth d sizes 0%nat).
Proof. intros Hd Hm Hv Hs.
  assert (Hv' : valid sh (upd i d (S (nth d i 0%nat)))) by (apply upd_valid; [exact Hv|rewrite sh_nth by exact Hd; exact Hs]).
  rewrite (W_val _ Hv'), (W_val _ Hv). apply (lin_fn_mono_step sizes omin omax zm zu units); assumption. Qed.

Lemma linear_mono_dim d : omin <= omax -> (d < rank)%nat -> lin_mono_dim d -> mono_along sh d W.
Proof. intros Hb Hd Hm i Hv Hs. rewrite sh_nth in Hs by exact Hd.
  rewrite (linear_mono_dim_step d i Hd Hm Hv Hs).
  pose proof (lin_step_nonneg 0 r (nth d sizes 0%nat) ltac:(lia) (lin_dim_range_nonneg sizes omin omax zm zu Hb)). lra. Qed.

(* a configured monotone dimension is a monotone dimension of the initialiser;
   with nothing configured every dimension is *)
Lemma configured_mono_dim d : nz (nth d zm 0%Z) = true -> lin_mono_dim d.
Proof. intros H. unfold lin_mono_dim. rewrite eff_monos_same. exact H.
  pose proof (count_nz_pos zm d H). lia. Qed.
Lemma unconstrained_all_mono d : (count_nz zm + count_nz zu = 0)%nat -> (d < rank)%nat -> lin_mono_dim d.
Proof. intros H Hd. unfold lin_mono_dim. rewrite eff_monos_all by assumption. reflexivity. Qed.

Lemma linear_unimodal_dim d i : omin <= omax -> (d < rank)%nat -> nz (nth d zm 0%Z) = false ->
  nz (nth d zu 0%Z) = true -> valid sh i -> (S (nth d i 0) < nth d sizes 0)%nat ->
  let nxt := upd i d (S (nth d i 0%nat)) in
  let first_part := (nth d i 0 <? nth d sizes 0 / 2)%nat in
  if (nth d zu 0 =? 1)%Z
  then (if first_part then W nxt <= W i else W i <= W nxt)        (* valley *)
  else (if first_part then W i <= W nxt else W nxt <= W i).       (* peak *)
Proof. intros Hb Hd Hm Hu Hv Hs nxt fp.
  assert (Hv' : valid sh nxt) by (apply upd_valid; [exact Hv|rewrite sh_nth by exact Hd; exact Hs]).
  assert (Hem : nz (nth d (lin_eff_monos sizes zm zu) 0%Z) = false).
  { rewrite eff_monos_same. exact Hm. pose proof (count_nz_pos zu d Hu). lia. }
  pose proof (W_val _ Hv') as E1. pose proof (W_val _ Hv) as E2.
  destruct (Z.eqb_spec (nth d zu 0%Z) 1) as [E|E].
  - pose proof (lin_fn_valley sizes omin omax zm zu units i d Hb Hv Hd Hem E Hs) as H.
    unfold fp, nxt in *. destruct (nth d i 0 <? nth d sizes 0 / 2)%nat; lra.
  - pose proof (lin_fn_peak sizes omin omax zm zu units i d Hb Hv Hd Hem Hu E Hs) as H.
    unfold fp, nxt in *. destruct (nth d i 0 <? nth d sizes 0 / 2)%nat; lra. Qed.

Lemma linear_constant_dim d i k : (d < rank)%nat -> nz (nth d zm 0%Z) = false -> nz (nth d zu 0%Z) = false ->
  (count_nz zm + count_nz zu <> 0)%nat -> valid sh i -> (k < nth d sizes 0)%nat -> W (upd i d k) == W i.
Proof. intros Hd Hm Hu Hc Hv Hk.
  assert (Hv' : valid sh (upd i d k)) by (apply upd_valid; [exact Hv|rewrite sh_nth by exact Hd; exact Hk]).
  rewrite (W_val _ Hv'), (W_val _ Hv). apply (lin_fn_const sizes omin omax zm zu units); try assumption.
  rewrite eff_monos_same by exact Hc. exact Hm. Qed.

(* tf.tile over units *)
Lemma linear_units_tiled i u : valid sh i -> (u < units)%nat -> W (upd i rank u) == W i.
Proof. intros Hv Hu.
  assert (Hv' : valid sh (upd i rank u)).
  { apply upd_valid. exact Hv. unfold sh, rank. rewrite unit_axis_nth. exact Hu. }
  rewrite (W_val _ Hv'), (W_val _ Hv). unfold linear_init_fn.
  rewrite (qsum_map_ext _ (fun d => nth (nth d i 0%nat) (lin_profile sizes omin omax zm zu d) 0)). reflexivity.
  intros d Hd. apply in_seq in Hd. rewrite nth_upd_other by (unfold rank; lia). reflexivity. Qed.

Lemma linear_range :
  (forall s, In s sizes -> (2 <= s)%nat) -> (1 <= units)%nat -> (1 <= rank)%nat ->
  length zm = rank -> length zu = rank ->
  (forall d, nz (nth d zm 0%Z) && nz (nth d zu 0%Z) = false) -> omin <= omax ->
  (forall i, valid sh i -> omin <= W i /\ W i <= omax) /\
  (exists i, valid sh i /\ W i == omin) /\ (exists i, valid sh i /\ W i == omax).
Proof. intros H1 H2 H3 H4 H5 H6 H7. split; [|split].
  - intros i Hv. rewrite (W_val _ Hv). apply (lin_fn_in_range sizes omin omax zm zu units H2 H3 H4 H5 H6 H7). exact Hv.
  - destruct (lin_fn_min_attained sizes omin omax zm zu units H1 H2 H3 H4 H5) as [i [Hv E]].
    exists i. split. exact Hv. rewrite (W_val _ Hv). exact E.
  - destruct (lin_fn_max_attained sizes omin omax zm zu units H1 H2 H3 H4 H5 H6) as [i [Hv E]].
    exists i. split. exact Hv. rewrite (W_val _ Hv). exact E. Qed.
End LinearTop.

(* ------------------------------------------------------------------ *)
(* random_monotonic_initializer                                         *)
(* ------------------------------------------------------------------ *)
Lemma idx_eqb_true a b : idx_eqb a b = true <-> a = b.
Proof. unfold idx_eqb. destruct (list_eq_dec Nat.eq_dec a b); split; congruence. Qed.
Lemma idx_eqb_refl a : idx_eqb a a = true. Proof. apply idx_eqb_true. reflexivity. Qed.

Lemma index_of_lt v l : In v l -> (index_of v l < length l)%nat.
Proof. induction l as [|x l IH]; intros H. destruct H. cbn [index_of length].
  destruct (idx_eqb v x) eqn:E. lia. destruct H as [->|H]. rewrite idx_eqb_refl in E. discriminate.
  specialize (IH H). lia. Qed.
Lemma index_of_nth v l : In v l -> nth (index_of v l) l [] = v.
Proof. induction l as [|x l IH]; intros H. destruct H. cbn [index_of].
  destruct (idx_eqb v x) eqn:E. apply idx_eqb_true in E. subst. reflexivity.
  destruct H as [->|H]. rewrite idx_eqb_refl in E. discriminate. cbn [nth]. apply IH. exact H. Qed.
Lemma index_of_app_in v a b : In v a -> index_of v (a ++ b) = index_of v a.
Proof. induction a as [|x a IH]; intros H. destruct H. cbn [app index_of].
  destruct (idx_eqb v x) eqn:E. reflexivity. f_equal. apply IH.
  destruct H as [->|H]. rewrite idx_eqb_refl in E. discriminate. exact H. Qed.
Lemma index_of_app_notin v a b : ~ In v a -> index_of v (a ++ b) = (length a + index_of v b)%nat.
Proof. induction a as [|x a IH]; intros H. reflexivity. cbn [app index_of length].
  destruct (idx_eqb v x) eqn:E. apply idx_eqb_true in E. subst. exfalso. apply H. left. reflexivity.
  rewrite IH. lia. intros H'. apply H. right. exact H'. Qed.

Lemma valid_app_firstn a b i : valid (a ++ b) i -> valid a (firstn (length a) i).
Proof. revert i. induction a as [|s a IH]; intros i Hv. constructor.
  cbn [app] in Hv. inversion Hv; subst. cbn [length firstn]. constructor. assumption. apply IH. assumption. Qed.
Lemma firstn_upd n : forall i d k, (d < n)%nat -> firstn n (upd i d k) = upd (firstn n i) d k.
Proof. induction n as [|n IH]; intros i d k Hd. lia.
  destruct i as [|x i]. reflexivity. destruct d; cbn. reflexivity. f_equal. apply IH. lia. Qed.
Lemma nth_firstn_lt {A} n : forall (l : list A) d (x : A), (d < n)%nat -> nth d (firstn n l) x = nth d l x.
Proof. induction n as [|n IH]; intros l d x Hd. lia. destruct l as [|y l]. reflexivity.
  destruct d; cbn. reflexivity. apply IH. lia. Qed.

Lemma vsum_upd_succ v d : (d < length v)%nat -> vsum (upd v d (S (nth d v 0%nat))) = S (vsum v).
Proof. unfold vsum. revert d. induction v as [|x v IH]; intros d Hd; cbn [length] in Hd. lia.
  destruct d; cbn [upd nth fold_right]. lia. rewrite IH by lia. lia. Qed.
Lemma vsum_valid_le sizes v : valid sizes v -> (vsum v <= vsum (map pred sizes))%nat.
Proof. unfold vsum. induction 1; cbn [map fold_right]. lia. lia. Qed.
Lemma level_set_in sizes v : valid sizes v -> In v (level_set sizes (vsum v)).
Proof. intros Hv. unfold level_set. apply filter_In. split. apply all_idx_valid. exact Hv. apply Nat.eqb_refl. Qed.
Lemma level_set_inv sizes L v : In v (level_set sizes L) -> valid sizes v /\ vsum v = L.
Proof. unfold level_set. intros H. apply filter_In in H. destruct H as [H1 H2]. split.
  apply all_idx_valid. exact H1. apply Nat.eqb_eq. exact H2. Qed.

Lemma concat_perm {A} (order blocks : list (list A)) :
  Forall2 (@Permutation A) order blocks -> Permutation (concat order) (concat blocks).
Proof. induction 1; cbn. constructor. apply Permutation_app; assumption. Qed.

(* vertices of later levels receive larger parameter indices *)
Lemma blocks_index_order sizes : forall order n0 n,
  Forall2 (@Permutation idx) order (map (level_set sizes) (seq n0 n)) ->
  (forall v, In v (concat order) -> (n0 <= vsum v)%nat) /\
  (forall x y, In x (concat order) -> In y (concat order) -> (vsum x < vsum y)%nat ->
     (index_of x (concat order) < index_of y (concat order))%nat).
Proof. induction order as [|blk order IH]; intros n0 n H.
  - split. intros v []. intros x y [].
  - destruct n as [|n]; cbn [seq map] in H; inversion H; subst.
    match goal with Hp : Permutation blk _ |- _ => rename Hp into Hblk end.
    match goal with Hf : Forall2 _ order _ |- _ => destruct (IH (S n0) n Hf) as [IH1 IH2] end.
    assert (Hlv : forall v, In v blk -> vsum v = n0).
    { intros v Hv. apply (Permutation_in _ Hblk) in Hv. apply level_set_inv in Hv. tauto. }
    cbn [concat]. split.
    + intros v Hv. apply in_app_iff in Hv. destruct Hv as [Hv|Hv]. rewrite (Hlv v Hv). lia.
      specialize (IH1 v Hv). lia.
    + intros x y Hx Hy Hlt. apply in_app_iff in Hx. apply in_app_iff in Hy.
      assert (Hy' : ~ In y blk).
      { intros Hy'. rewrite (Hlv y Hy') in Hlt. destruct Hx as [Hx|Hx]. rewrite (Hlv x Hx) in Hlt. lia.
        specialize (IH1 x Hx). lia. }
      destruct Hy as [Hy|Hy]; [contradiction|].
      rewrite (index_of_app_notin y blk _ Hy').
      destruct (in_dec (list_eq_dec Nat.eq_dec) x blk) as [Hxb|Hxb].
      * rewrite (index_of_app_in x blk _ Hxb). pose proof (index_of_lt x blk Hxb). lia.
      * destruct Hx as [Hx|Hx]; [contradiction|]. rewrite (index_of_app_notin x blk _ Hxb).
        specialize (IH2 x y Hx Hy Hlt). lia. Qed.

Section RandomMono.
Variables (sizes : list nat) (units : nat) (order : list (list idx)) (samples : list Q) (lo hi : Q).
Let rank := length sizes.
Let sh := sizes ++ [units].
Let F := concat order.
Let W := random_mono_init sizes units order samples.
(* np.random.shuffle: every level is numbered in SOME order *)
Hypothesis Horder : Forall2 (@Permutation idx) order (levels sizes).
(* tf.sort(tf.random.uniform([n], lo, hi)): a sorted vector with one entry per numbered vertex, inside [lo, hi] *)
Hypothesis Hsorted : forall a b, (a <= b)%nat -> (b < length samples)%nat -> nth a samples 0 <= nth b samples 0.
Hypothesis Hlen : length samples = length F.
Hypothesis Hrange : forall x, In x samples -> lo <= x /\ x <= hi.

Lemma vertex_numbered v : valid sizes v -> In v F.
Proof. intros Hv. unfold F. apply (Permutation_in _ (Permutation_sym (concat_perm _ _ Horder))).
  apply in_concat. exists (level_set sizes (vsum v)). split.
  - unfold levels. apply in_map. apply in_seq. pose proof (vsum_valid_le sizes v Hv). unfold num_levels. lia.
  - apply level_set_in. exact Hv. Qed.

Lemma rm_val i : valid sh i -> W i = nth (index_of (firstn rank i) F) samples 0.
Proof. intros Hv. unfold W, random_mono_init. rewrite memo_ok by exact Hv. reflexivity. Qed.

Lemma random_mono_all_dims d : (d < rank)%nat -> mono_along sh d W.
Proof. intros Hd i Hv Hs.
  assert (Hsd : nth d sh 0%nat = nth d sizes 0%nat) by (apply app_nth1; exact Hd). rewrite Hsd in Hs.
  assert (Hv' : valid sh (upd i d (S (nth d i 0%nat)))) by (apply upd_valid; [exact Hv|rewrite Hsd; exact Hs]).
  rewrite (rm_val _ Hv), (rm_val _ Hv'). rewrite firstn_upd by exact Hd.
  set (v := firstn rank i).
  assert (Hvv : valid sizes v) by (apply (valid_app_firstn sizes [units]); exact Hv).
  assert (Hnd : nth d i 0%nat = nth d v 0%nat) by (unfold v; rewrite nth_firstn_lt by exact Hd; reflexivity).
  rewrite Hnd in *.
  assert (Hvv' : valid sizes (upd v d (S (nth d v 0%nat)))) by (apply upd_valid; assumption).
  pose proof (vertex_numbered _ Hvv) as Hin. pose proof (vertex_numbered _ Hvv') as Hin'.
  destruct (blocks_index_order sizes order 0 (num_levels sizes) Horder) as [_ Hord].
  assert (Hlt : (vsum v < vsum (upd v d (S (nth d v 0%nat))))%nat).
  { rewrite vsum_upd_succ. lia. rewrite (valid_length _ _ Hvv). exact Hd. }
  specialize (Hord _ _ Hin Hin' Hlt). fold F in Hord.
  apply Hsorted. lia. rewrite Hlen. apply index_of_lt. exact Hin'. Qed.

Lemma random_mono_in_range i : valid sh i -> lo <= W i /\ W i <= hi.
Proof. intros Hv. rewrite (rm_val _ Hv). apply Hrange. apply nth_In. rewrite Hlen. apply index_of_lt.
  apply vertex_numbered. apply (valid_app_firstn sizes [units]). exact Hv. Qed.

Lemma random_mono_units_tiled i u : valid sh i -> (u < units)%nat -> W (upd i rank u) = W i.
Proof. intros Hv Hu.
  assert (Hv' : valid sh (upd i rank u)).
  { apply upd_valid. exact Hv. unfold sh, rank. rewrite unit_axis_nth. exact Hu. }
  rewrite (rm_val _ Hv), (rm_val _ Hv'). f_equal. f_equal.
  clear. unfold rank. revert i. induction sizes as [|s sz IH]; intros i; cbn. reflexivity.
  destruct i as [|x i]; cbn. reflexivity. f_equal. apply IH. Qed.
End RandomMono.

(* ------------------------------------------------------------------ *)
(* trust / dominance / joint constraints on the linear initialiser      *)
(* ------------------------------------------------------------------ *)
(* the inequalities of lattice_lib.assert_constraints for the families that
   Proofs/LatticeSpec.v does not define *)
Definition mono_dominance_holds (sh : list nat) (p : nat * nat) (f : tens) : Prop :=
  let '(dm, wk) := p in
  forall b i j, valid sh b -> (S i < nth dm sh 0)%nat -> (S j < nth wk sh 0)%nat ->
    let mid := (f (at2 b dm wk (S i) (S j)) + f (at2 b dm wk i j)) * (1#2) in
    mid <= f (at2 b dm wk (S i) j) /\ f (at2 b dm wk i (S j)) <= mid.
Definition range_dominance_holds (sh : list nat) (p : nat * nat) (f : tens) : Prop :=
  let '(dm, wk) := p in
  forall b i j, valid sh b -> (i < nth dm sh 0)%nat -> (j < nth wk sh 0)%nat ->
    f (at2 b dm wk i (nth wk sh 0 - 1)%nat) - f (at2 b dm wk i 0%nat) <=
    f (at2 b dm wk (nth dm sh 0 - 1)%nat j) - f (at2 b dm wk 0%nat j).
Definition joint_mono_holds (sh : list nat) (p : nat * nat) (f : tens) : Prop :=
  let '(d1, d2) := p in
  forall b i j, valid sh b -> (S i < nth d1 sh 0)%nat -> (S j < nth d2 sh 0)%nat ->
    let mid := (f (at2 b d1 d2 (S i) j) + f (at2 b d1 d2 i (S j))) * (1#2) in
    mid <= f (at2 b d1 d2 (S i) (S j)) /\ f (at2 b d1 d2 i j) <= mid.

Lemma lin_step_antitone r n n' : 0 <= r -> (2 <= n)%nat -> (n <= n')%nat -> lin_step 0 r n' <= lin_step 0 r n.
Proof. intros Hr Hn Hnn. unfold lin_step.
  destruct (Nat.eqb_spec n' 1); [lia|]. destruct (Nat.eqb_spec n 1); [lia|].
  assert (H1 : 0 < qnat n - 1) by (pose proof (qnat_pos (n - 1) ltac:(lia)); rewrite qnat_pred in * by lia; lra).
  assert (H2 : qnat n - 1 <= qnat n' - 1).
  { replace n' with (n + (n' - n))%nat by lia. rewrite qnat_plus. pose proof (qnat_nonneg (n' - n)). lra. }
  set (x := (r - 0) / (qnat n - 1)).
  assert (Hx : 0 <= x) by (unfold x; apply Qle_shift_div_l; lra).
  assert (Ex : x * (qnat n - 1) == r - 0) by (unfold x; field; lra).
  apply Qle_shift_div_r. lra. pose proof (qmul_le_l x _ _ Hx H2). lra. Qed.

Section LinearTrust.
Variables (sizes : list nat) (omin omax : Q) (monos unis : option (list Z)) (units : nat).
Let rank := length sizes.
Let sh := sizes ++ [units].
Let zm := zeros_if_none rank monos.
Let zu := zeros_if_none rank unis.
Let em := lin_eff_monos sizes zm zu.
Let r := lin_dim_range sizes omin omax zm zu.
Let W := linear_init sizes omin omax monos unis units.
Let P := lprof sizes omin omax zm zu.

(* the kernel is additive: moving two coordinates adds two independent increments *)
Lemma linear_at2 b m c i j : valid sh b -> (m < rank)%nat -> (c < rank)%nat -> m <> c ->
  (i < nth m sizes 0)%nat -> (j < nth c sizes 0)%nat ->
  W (at2 b m c i j) == W b + (P m i - P m (nth m b 0%nat)) + (P c j - P c (nth c b 0%nat)).
Proof. intros Hv Hm Hc Hne Hi Hj. unfold at2.
  assert (Hv1 : valid sh (upd b m i)) by (apply upd_valid; [exact Hv|unfold sh; rewrite app_nth1 by exact Hm; exact Hi]).
  assert (Hv2 : valid sh (upd (upd b m i) c j)) by (apply upd_valid; [exact Hv1|unfold sh; rewrite app_nth1 by exact Hc; exact Hj]).
  unfold W. rewrite (linear_init_val _ _ _ _ _ _ _ Hv2), (linear_init_val _ _ _ _ _ _ _ Hv).
  pose proof (lin_fn_upd sizes omin omax zm zu units (upd b m i) c j Hv1 Hc Hj) as E2.
  pose proof (lin_fn_upd sizes omin omax zm zu units b m i Hv Hm Hi) as E1.
  rewrite nth_upd_other in E2 by exact Hne. unfold P. fold rank zm zu in E1, E2 |- *. lra. Qed.

Hypothesis Hb : omin <= omax.
Hypothesis Hsizes : forall s, In s sizes -> (2 <= s)%nat.

Lemma sh_size d : (d < rank)%nat -> nth d sh 0%nat = nth d sizes 0%nat.
Proof. intros Hd. unfold sh. apply app_nth1. exact Hd. Qed.
Lemma sz2 d : (d < rank)%nat -> (2 <= nth d sizes 0)%nat.
Proof. intros Hd. apply Hsizes. apply nth_In. exact Hd. Qed.

(* Edgeworth trusts of both directions always hold: every 2x2 square is flat *)
Lemma linear_edgeworth m c dir : (m < rank)%nat -> (c < rank)%nat -> m <> c -> edgeworth_holds sh (m, c, dir) W.
Proof. intros Hm Hc Hne b i j Hv Hi Hj. rewrite sh_size in Hi, Hj by assumption.
  assert (E : esq W m c i j b == 0).
  { unfold esq. rewrite !linear_at2 by (auto; lia). lra. }
  destruct (0 <? dir)%Z; lra. Qed.

(* a trapezoid trust holds when the initialiser leaves the conditional dimension unconstrained *)
Lemma linear_trapezoid_free_cond m c dir : (m < rank)%nat -> (c < rank)%nat -> m <> c ->
  nz (nth c em 0%Z) = false -> nz (nth c zu 0%Z) = false -> trapezoid_holds sh (m, c, dir) W.
Proof. intros Hm Hc Hne Hcm Hcu b j Hv Hj. cbv zeta. rewrite sh_size in Hj by assumption. rewrite sh_size by assumption.
  pose proof (sz2 m Hm).
  assert (E : forall i k, (i < nth m sizes 0)%nat -> (k < nth c sizes 0)%nat ->
              W (at2 b m c i k) == W b + (P m i - P m (nth m b 0%nat))).
  { intros i k Hi Hk. rewrite linear_at2 by auto. unfold P, lprof. fold rank zm zu em.
    rewrite !(prof_unconstrained (nth c em 0%Z)) by assumption. lra. }
  pose proof (E 0%nat j ltac:(lia) ltac:(lia)). pose proof (E 0%nat (S j) ltac:(lia) ltac:(lia)).
  pose proof (E (nth m sizes 0 - 1)%nat j ltac:(lia) ltac:(lia)).
  pose proof (E (nth m sizes 0 - 1)%nat (S j) ltac:(lia) ltac:(lia)).
  destruct (0 <? dir)%Z; lra. Qed.

(* monotonic dominance holds when the dominant dimension has no more vertices than the weak one *)
Lemma linear_mono_dominance dm wk : (dm < rank)%nat -> (wk < rank)%nat -> dm <> wk ->
  nz (nth dm em 0%Z) = true -> nz (nth wk em 0%Z) = true -> (nth dm sizes 0 <= nth wk sizes 0)%nat ->
  mono_dominance_holds sh (dm, wk) W.
Proof. intros Hd Hw Hne Hdm Hwm Hs b i j Hv Hi Hj. cbv zeta. rewrite sh_size in Hi, Hj by assumption.
  rewrite !linear_at2 by (auto; lia). unfold P, lprof. fold rank zm zu em r.
  rewrite !(prof_mono_step (nth dm em 0%Z)) by (auto; lia). rewrite !(prof_mono_step (nth wk em 0%Z)) by (auto; lia).
  pose proof (lin_step_antitone r _ _ (lin_dim_range_nonneg sizes omin omax zm zu Hb) (sz2 dm Hd) Hs). fold r. lra. Qed.

(* range dominance between two monotone dimensions always holds: both ranges are r *)
Lemma linear_range_dominance dm wk : (dm < rank)%nat -> (wk < rank)%nat -> dm <> wk ->
  nz (nth dm em 0%Z) = true -> nz (nth wk em 0%Z) = true -> range_dominance_holds sh (dm, wk) W.
Proof. intros Hd Hw Hne Hdm Hwm b i j Hv Hi Hj. rewrite !sh_size in * by assumption.
  pose proof (sz2 dm Hd). pose proof (sz2 wk Hw).
  rewrite !linear_at2 by (auto; lia). unfold P, lprof, prof_at. fold rank zm zu em r. rewrite Hdm, Hwm.
  rewrite !linspace_at_last by lia. rewrite !linspace_at_first by lia. lra. Qed.

(* joint monotonicity holds when neither dimension is unimodal *)
Lemma linear_joint_mono d1 d2 : (d1 < rank)%nat -> (d2 < rank)%nat -> d1 <> d2 ->
  (nz (nth d1 em 0%Z) = true \/ nz (nth d1 zu 0%Z) = false) ->
  (nz (nth d2 em 0%Z) = true \/ nz (nth d2 zu 0%Z) = false) -> joint_mono_holds sh (d1, d2) W.
Proof. intros H1 H2 Hne Hd1 Hd2 b i j Hv Hi Hj. cbv zeta. rewrite sh_size in Hi, Hj by assumption.
  rewrite !linear_at2 by (auto; lia).
  assert (Hstep : forall d k, (d < rank)%nat -> (nz (nth d em 0%Z) = true \/ nz (nth d zu 0%Z) = false) ->
                   P d k <= P d (S k)).
  { intros d k Hd [Hm|Hu]; unfold P, lprof; fold rank zm zu em r.
    - rewrite (prof_mono_step (nth d em 0%Z)) by (auto; pose proof (sz2 d Hd); lia).
      pose proof (lin_step_nonneg 0 r (nth d sizes 0%nat) ltac:(pose proof (sz2 d Hd); lia) (lin_dim_range_nonneg sizes omin omax zm zu Hb)).
      fold r in H. lra.
    - destruct (nz (nth d em 0%Z)) eqn:Em.
      + rewrite (prof_mono_step (nth d em 0%Z)) by (auto; pose proof (sz2 d Hd); lia).
        pose proof (lin_step_nonneg 0 r (nth d sizes 0%nat) ltac:(pose proof (sz2 d Hd); lia) (lin_dim_range_nonneg sizes omin omax zm zu Hb)).
        fold r in H. lra.
      + rewrite !prof_unconstrained by assumption. lra. }
  pose proof (Hstep d1 i H1 Hd1). pose proof (Hstep d2 j H2 Hd2). lra. Qed.
End LinearTrust.

(* ------------------------------------------------------------------ *)
(* Props-level packaging                                                *)
(* ------------------------------------------------------------------ *)
Lemma linear_monotone_dims sizes omin omax monos unis units d :
  let rank := length sizes in
  let zm := zeros_if_none rank monos in let zu := zeros_if_none rank unis in
  let W := linear_init sizes omin omax monos unis units in
  omin <= omax -> (d < rank)%nat ->
  (nz (nth d zm 0%Z) = true \/ (count_nz zm + count_nz zu = 0)%nat) ->
  mono_along (sizes ++ [units]) d W /\
  forall i, valid (sizes ++ [units]) i -> (S (nth d i 0) < nth d sizes 0)%nat ->
    W (upd i d (S (nth d i 0%nat))) == W i + lin_step 0 (lin_dim_range sizes omin omax zm zu) (nth d sizes 0%nat).
Proof. intros rank zm zu W Hb Hd Hm.
  assert (Hmd : lin_mono_dim sizes monos unis d).
  { destruct Hm as [Hm|Hm]. apply configured_mono_dim; exact Hm. apply unconstrained_all_mono; assumption. }
  split. apply linear_mono_dim; assumption.
  intros i Hv Hs. apply linear_mono_dim_step; assumption. Qed.

Lemma default_init_params_spec omin omax :
  (forall x, omin = Some x -> fst (default_init_params omin omax) = x) /\
  (forall y, omax = Some y -> snd (default_init_params omin omax) = y).
Proof. unfold default_init_params. destruct omin, omax; cbn; split; intros ? E; inversion E; reflexivity. Qed.
Lemma default_init_params_unbounded : default_init_params None None = (0, 1).
Proof. reflexivity. Qed.
Lemma default_init_params_one_sided a b :
  default_init_params (Some a) None = (a, qmax 1 a) /\ default_init_params None (Some b) = (qmin 0 b, b).
Proof. split; reflexivity. Qed.
