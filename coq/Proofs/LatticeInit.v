(* Lemmas about the Lattice kernel initialisers (Model/LatticeInit.v), for C10. *)
From TFL Require Export Model.LatticeInit Proofs.LatticeSpecFacts.
From Coq Require Import Permutation.
Open Scope Q_scope.

(* ------------------------------------------------------------------ *)
(* qnat                                                                 *)
(* ------------------------------------------------------------------ *)
Lemma qnat_S n : qnat (S n) == qnat n + 1.
Proof. unfold qnat. rewrite Nat2Z.inj_succ. unfold Z.succ. rewrite inject_Z_plus. reflexivity. Qed.
Lemma qnat_0 : qnat 0 == 0. Proof. reflexivity. Qed.
Lemma qnat_nonneg n : 0 <= qnat n.
Proof. induction n as [|n IH]. rewrite qnat_0; lra. rewrite qnat_S; lra. Qed.
Lemma qnat_pos n : (1 <= n)%nat -> 1 <= qnat n.
Proof. destruct n as [|n]; [lia|]. intros _. rewrite qnat_S. pose proof (qnat_nonneg n). lra. Qed.
Lemma qnat_pred n : (1 <= n)%nat -> qnat (n - 1) == qnat n - 1.
Proof. destruct n as [|n]; [lia|]. intros _. replace (S n - 1)%nat with n by lia. rewrite qnat_S. lra. Qed.
Lemma qnat_plus a b : qnat (a + b) == qnat a + qnat b.
Proof. unfold qnat. rewrite Nat2Z.inj_add, inject_Z_plus. reflexivity. Qed.

(* ------------------------------------------------------------------ *)
(* _linspace                                                            *)
(* ------------------------------------------------------------------ *)
Lemma linspace_length a b n : length (linspace a b n) = n.
Proof. unfold linspace. rewrite map_length, seq_length. reflexivity. Qed.
Lemma linspace_nth a b n k : (k < n)%nat -> nth k (linspace a b n) 0 = linspace_at a b n k.
Proof. intros H. unfold linspace. apply nth_map_seq. exact H. Qed.

Lemma linspace_at_one a b k : linspace_at a b 1 k = a.
Proof. reflexivity. Qed.
Lemma linspace_at_eq a b n k : (2 <= n)%nat -> linspace_at a b n k == a + (b - a) * qnat k / (qnat n - 1).
Proof. intros H. unfold linspace_at. destruct (Nat.eqb_spec n 1); [lia|]. apply Qred_correct. Qed.

(* the common increment of consecutive entries *)
Definition lin_step (a b : Q) (n : nat) : Q := if (n =? 1)%nat then 0 else (b - a) / (qnat n - 1).
Lemma linspace_at_succ a b n k : (1 <= n)%nat -> linspace_at a b n (S k) == linspace_at a b n k + lin_step a b n.
Proof. intros H. unfold lin_step. destruct (Nat.eqb_spec n 1) as [->|Hn].
  - rewrite !linspace_at_one. lra.
  - rewrite !linspace_at_eq by lia. rewrite qnat_S.
    assert (Hd : ~ qnat n - 1 == 0) by (pose proof (qnat_pos (n - 1) ltac:(lia)); rewrite qnat_pred in * by lia; lra).
    field. exact Hd. Qed.
Lemma lin_step_nonneg a b n : (1 <= n)%nat -> a <= b -> 0 <= lin_step a b n.
Proof. intros H Hab. unfold lin_step. destruct (Nat.eqb_spec n 1) as [->|Hn]. lra.
  assert (Hd : 0 < qnat n - 1) by (pose proof (qnat_pos (n - 1) ltac:(lia)); rewrite qnat_pred in * by lia; lra).
  apply Qle_shift_div_l. exact Hd. lra. Qed.
Lemma linspace_at_first a b n : (1 <= n)%nat -> linspace_at a b n 0 == a.
Proof. intros H. destruct (Nat.eq_dec n 1) as [->|Hn]. reflexivity.
  rewrite linspace_at_eq by lia. rewrite qnat_0. unfold Qdiv. lra. Qed.
Lemma linspace_at_last a b n : (2 <= n)%nat -> linspace_at a b n (n - 1) == b.
Proof. intros H. rewrite linspace_at_eq by lia. rewrite qnat_pred by lia.
  assert (Hd : ~ qnat n - 1 == 0) by (pose proof (qnat_pos (n - 1) ltac:(lia)); rewrite qnat_pred in * by lia; lra).
  field. exact Hd. Qed.
Lemma linspace_at_mono a b n : (1 <= n)%nat -> a <= b ->
  forall k j, (j <= k)%nat -> linspace_at a b n j <= linspace_at a b n k.
Proof. intros H Hab. induction k as [|k IH]; intros j Hj.
  - replace j with 0%nat by lia. lra.
  - destruct (Nat.eq_dec j (S k)) as [->|Hne]. lra.
    rewrite linspace_at_succ by exact H. pose proof (lin_step_nonneg a b n H Hab). specialize (IH j ltac:(lia)). lra. Qed.
Lemma linspace_at_range a b n k : (1 <= n)%nat -> a <= b -> (k <= n - 1)%nat ->
  a <= linspace_at a b n k /\ linspace_at a b n k <= b.
Proof. intros H Hab Hk. split.
  - rewrite <- (linspace_at_first a b n H) at 1. apply linspace_at_mono; auto; lia.
  - destruct (Nat.eq_dec n 1) as [->|Hn]. rewrite linspace_at_one. exact Hab.
    rewrite <- (linspace_at_last a b n ltac:(lia)) at 2. apply linspace_at_mono; auto. Qed.
(* the decreasing ramp is the mirror image of the increasing one *)
Lemma linspace_at_dec r n k : (1 <= n)%nat -> linspace_at r 0 n k == r - linspace_at 0 r n k.
Proof. intros H. destruct (Nat.eq_dec n 1) as [->|Hn]. rewrite !linspace_at_one. lra.
  rewrite !linspace_at_eq by lia.
  assert (Hd : ~ qnat n - 1 == 0) by (pose proof (qnat_pos (n - 1) ltac:(lia)); rewrite qnat_pred in * by lia; lra).
  field. exact Hd. Qed.

(* ------------------------------------------------------------------ *)
(* the per-dimension profile  one_d  in closed form                     *)
(* ------------------------------------------------------------------ *)
Lemma nth_skipn_add {A} p : forall (l : list A) j d, nth j (skipn p l) d = nth (p + j) l d.
Proof. induction p as [|p IH]; intros l j d. reflexivity.
  destruct l as [|x l]; cbn. destruct j; reflexivity. apply IH. Qed.

Lemma half_facts s : (s + s mod 2 = 2 * ((s + 1) / 2))%nat /\ (s mod 2 <= 1)%nat /\ (s / 2 = (s + 1) / 2 - s mod 2)%nat.
Proof.
  pose proof (Nat.div_mod s 2 ltac:(lia)) as H1. pose proof (Nat.mod_upper_bound s 2 ltac:(lia)) as H2.
  pose proof (Nat.div_mod (s + 1) 2 ltac:(lia)) as H3. pose proof (Nat.mod_upper_bound (s + 1) 2 ltac:(lia)) as H4.
  assert (H5 : ((s + 1) mod 2 = 1 - s mod 2)%nat).
  { rewrite Nat.add_mod by lia. destruct (s mod 2)%nat as [|[|q]] eqn:E; try lia; reflexivity. }
  lia. Qed.

Definition uni_prof (u : Z) (s : nat) (r : Q) (k : nat) : Q :=
  let h := ((s + 1) / 2)%nat in let p := (s mod 2)%nat in
  if (u =? 1)%Z then (if (k <? h)%nat then linspace_at r 0 h k else linspace_at 0 r h (p + (k - h)))
  else (if (k <? h)%nat then linspace_at 0 r h k else linspace_at r 0 h (p + (k - h))).
Definition prof_at (m u : Z) (s : nat) (r : Q) (k : nat) : Q :=
  if nz m then linspace_at 0 r s k else if nz u then uni_prof u s r k else 0.

Lemma one_d_length m u s r : length (one_d m u s r) = s.
Proof. unfold one_d. destruct (half_facts s) as (H1 & H2 & H3).
  destruct (nz m). apply linspace_length. destruct (nz u); [|apply repeat_length].
  destruct (u =? 1)%Z; rewrite app_length, skipn_length, !linspace_length; lia. Qed.

Lemma one_d_nth m u s r k : (k < s)%nat -> nth k (one_d m u s r) 0 = prof_at m u s r k.
Proof. intros Hk. unfold one_d, prof_at. destruct (half_facts s) as (H1 & H2 & H3).
  destruct (nz m). apply linspace_nth; exact Hk.
  destruct (nz u); [|apply nth_repeat].
  unfold uni_prof. cbv zeta. set (h := ((s + 1) / 2)%nat) in *. set (p := (s mod 2)%nat) in *.
  destruct (u =? 1)%Z; destruct (Nat.ltb_spec k h) as [Hlt|Hge].
  - rewrite app_nth1 by (rewrite linspace_length; exact Hlt). apply linspace_nth; exact Hlt.
  - rewrite app_nth2 by (rewrite linspace_length; exact Hge). rewrite linspace_length, nth_skipn_add.
    apply linspace_nth. lia.
  - rewrite app_nth1 by (rewrite linspace_length; exact Hlt). apply linspace_nth; exact Hlt.
  - rewrite app_nth2 by (rewrite linspace_length; exact Hge). rewrite linspace_length, nth_skipn_add.
    apply linspace_nth. lia. Qed.

(* peak = r - valley *)
Lemma uni_prof_peak_eq u s r k : (1 <= s)%nat -> (u =? 1)%Z = false -> uni_prof u s r k == r - uni_prof 1 s r k.
Proof. intros Hs Hu. unfold uni_prof. cbv zeta. rewrite Hu. change (1 =? 1)%Z with true. cbv iota.
  destruct (half_facts s) as (H1 & H2 & H3).
  destruct (k <? (s + 1) / 2)%nat; rewrite linspace_at_dec by lia; lra. Qed.

Lemma valley_range s r k : (1 <= s)%nat -> 0 <= r -> (k < s)%nat -> 0 <= uni_prof 1 s r k /\ uni_prof 1 s r k <= r.
Proof. intros Hs Hr Hk. unfold uni_prof. cbv zeta. change (1 =? 1)%Z with true. cbv iota.
  destruct (half_facts s) as (H1 & H2 & H3). set (h := ((s + 1) / 2)%nat) in *. set (p := (s mod 2)%nat) in *.
  destruct (Nat.ltb_spec k h) as [Hlt|Hge].
  - rewrite linspace_at_dec by lia. pose proof (linspace_at_range 0 r h k ltac:(lia) Hr ltac:(lia)). lra.
  - apply linspace_at_range; try lia. exact Hr. Qed.

Lemma valley_first s r : (1 <= s)%nat -> uni_prof 1 s r 0 == r.
Proof. intros Hs. unfold uni_prof. cbv zeta. change (1 =? 1)%Z with true. cbv iota.
  destruct (half_facts s) as (H1 & H2 & H3).
  destruct (Nat.ltb_spec 0 ((s + 1) / 2)) as [Hlt|Hge]; [|lia]. apply linspace_at_first. lia. Qed.

Lemma valley_centre s r : (2 <= s)%nat -> uni_prof 1 s r (s / 2) == 0.
Proof. intros Hs. unfold uni_prof. cbv zeta. change (1 =? 1)%Z with true. cbv iota.
  destruct (half_facts s) as (H1 & H2 & H3). set (h := ((s + 1) / 2)%nat) in *. set (p := (s mod 2)%nat) in *.
  destruct (Nat.ltb_spec (s / 2) h) as [Hlt|Hge].
  - assert (p = 1%nat) by lia. assert (2 <= h)%nat by lia.
    replace (s / 2)%nat with (h - 1)%nat by lia. apply linspace_at_last. lia.
  - assert (p = 0%nat) by lia. replace (p + (s / 2 - h))%nat with 0%nat by lia. apply linspace_at_first. lia. Qed.

(* valley: non-increasing while k < s/2, non-decreasing afterwards -- the split
   that _project_partial_monotonicity uses (is_first_part = i < size // 2) *)
Lemma valley_shape s r k : 0 <= r -> (S k < s)%nat ->
  if (k <? s / 2)%nat then uni_prof 1 s r (S k) <= uni_prof 1 s r k
  else uni_prof 1 s r k <= uni_prof 1 s r (S k).
Proof. intros Hr Hk. unfold uni_prof. cbv zeta. change (1 =? 1)%Z with true. cbv iota.
  destruct (half_facts s) as (H1 & H2 & H3). set (h := ((s + 1) / 2)%nat) in *. set (p := (s mod 2)%nat) in *.
  assert (Hh : (1 <= h)%nat) by lia.
  pose proof (linspace_at_mono 0 r h Hh Hr) as Hm.
  destruct (Nat.ltb_spec k (s / 2)) as [Hf|Hf]; destruct (Nat.ltb_spec k h) as [Hkh|Hkh];
    destruct (Nat.ltb_spec (S k) h) as [Hsh|Hsh]; try lia.
  - rewrite !linspace_at_dec by exact Hh. specialize (Hm (S k) k ltac:(lia)). lra.
  - assert (p = 0%nat) by lia. replace (p + (S k - h))%nat with 0%nat by lia.
    rewrite linspace_at_first by exact Hh. rewrite linspace_at_dec by exact Hh.
    pose proof (linspace_at_range 0 r h k Hh Hr ltac:(lia)). lra.
  - assert (p = 1%nat) by lia. assert (2 <= h)%nat by lia. replace k with (h - 1)%nat by lia.
    rewrite linspace_at_last by lia.
    pose proof (linspace_at_range 0 r h (p + (S (h - 1) - h)) Hh Hr ltac:(lia)). lra.
  - apply Hm. lia. Qed.

(* increments along a monotone dimension are constant *)
Lemma prof_mono_step m u s r k : nz m = true -> (1 <= s)%nat ->
  prof_at m u s r (S k) == prof_at m u s r k + lin_step 0 r s.
Proof. intros Hm Hs. unfold prof_at. rewrite Hm. apply linspace_at_succ. exact Hs. Qed.

(* every profile lies in [0, r]; an unconstrained dimension contributes 0 *)
Lemma prof_range m u s r k : (1 <= s)%nat -> 0 <= r -> (k < s)%nat -> 0 <= prof_at m u s r k /\ prof_at m u s r k <= r.
Proof. intros Hs Hr Hk. unfold prof_at. destruct (nz m).
  - apply linspace_at_range; auto; lia.
  - destruct (nz u); [|lra]. destruct (u =? 1)%Z eqn:Eu.
    + apply Z.eqb_eq in Eu. subst u. apply valley_range; assumption.
    + rewrite uni_prof_peak_eq by assumption. pose proof (valley_range s r k Hs Hr Hk). lra. Qed.
Lemma prof_unconstrained m u s r k : nz m = false -> nz u = false -> prof_at m u s r k = 0.
Proof. intros Hm Hu. unfold prof_at. rewrite Hm, Hu. reflexivity. Qed.

(* where each profile attains 0 and r *)
Definition arg_lo (m u : Z) (s : nat) : nat :=
  if nz m then 0%nat else if nz u then (if (u =? 1)%Z then (s / 2)%nat else 0%nat) else 0%nat.
Definition arg_hi (m u : Z) (s : nat) : nat :=
  if nz m then (s - 1)%nat else if nz u then (if (u =? 1)%Z then 0%nat else (s / 2)%nat) else 0%nat.
Lemma arg_lo_lt m u s : (2 <= s)%nat -> (arg_lo m u s < s)%nat.
Proof. intros Hs. unfold arg_lo. pose proof (Nat.div_lt s 2 ltac:(lia) ltac:(lia)).
  destruct (nz m); [lia|]. destruct (nz u); [|lia]. destruct (u =? 1)%Z; lia. Qed.
Lemma arg_hi_lt m u s : (2 <= s)%nat -> (arg_hi m u s < s)%nat.
Proof. intros Hs. unfold arg_hi. pose proof (Nat.div_lt s 2 ltac:(lia) ltac:(lia)).
  destruct (nz m); [lia|]. destruct (nz u); [|lia]. destruct (u =? 1)%Z; lia. Qed.
Lemma prof_arg_lo m u s r : (2 <= s)%nat -> prof_at m u s r (arg_lo m u s) == 0.
Proof. intros Hs. unfold prof_at, arg_lo. destruct (nz m). apply linspace_at_first; lia.
  destruct (nz u); [|reflexivity]. destruct (u =? 1)%Z eqn:Eu.
  - apply Z.eqb_eq in Eu. subst u. apply valley_centre. exact Hs.
  - rewrite uni_prof_peak_eq by (auto; lia). rewrite valley_first by lia. lra. Qed.
Lemma prof_arg_hi m u s r : (2 <= s)%nat -> prof_at m u s r (arg_hi m u s) == (if nz m || nz u then r else 0).
Proof. intros Hs. unfold prof_at, arg_hi. destruct (nz m); cbn [orb]. apply linspace_at_last; lia.
  destruct (nz u); [|reflexivity]. destruct (u =? 1)%Z eqn:Eu.
  - apply Z.eqb_eq in Eu. subst u. apply valley_first. lia.
  - rewrite uni_prof_peak_eq by (auto; lia). rewrite valley_centre by lia. lra. Qed.

(* ------------------------------------------------------------------ *)
(* sums over dimensions                                                 *)
(* ------------------------------------------------------------------ *)
Lemma qsum_seq_diff (F G : nat -> Q) d : (forall e, e <> d -> F e == G e) ->
  forall n a, (a <= d < a + n)%nat -> qsum (map F (seq a n)) == qsum (map G (seq a n)) + (F d - G d).
Proof. intros HFG. induction n as [|n IH]; intros a Ha. lia. cbn [seq map qsum].
  destruct (Nat.eq_dec a d) as [->|Hne].
  - rewrite (qsum_map_ext F G (seq (S d) n)). lra.
    intros e He. apply in_seq in He. apply HFG. lia.
  - rewrite (HFG a Hne). rewrite (IH (S a)) by lia. lra. Qed.

Lemma qsum_seq_upd (g : nat -> nat -> Q) i d k n : (d < n)%nat -> (d < length i)%nat ->
  qsum (map (fun e => g e (nth e (upd i d k) 0%nat)) (seq 0 n)) ==
  qsum (map (fun e => g e (nth e i 0%nat)) (seq 0 n)) + (g d k - g d (nth d i 0%nat)).
Proof. intros Hd Hl.
  rewrite (qsum_seq_diff (fun e => g e (nth e (upd i d k) 0%nat)) (fun e => g e (nth e i 0%nat)) d).
  - cbv beta. rewrite nth_upd_same by exact Hl. reflexivity.
  - intros e He. cbv beta. rewrite nth_upd_other by auto. reflexivity.
  - lia. Qed.

Lemma count_nz_sum l : qsum (map (fun d => if nz (nth d l 0%Z) then 1 else 0) (seq 0 (length l))) == qnat (count_nz l).
Proof. induction l as [|z l IH]. reflexivity.
  cbn [length]. rewrite <- cons_seq, <- seq_shift. cbn [map qsum]. rewrite map_map. cbn [nth].
  rewrite IH. unfold count_nz. cbn [filter]. destruct (nz z); cbn [length]; [rewrite qnat_S|]; lra. Qed.

Lemma count_nz_repeat1 n : count_nz (repeat 1%Z n) = n.
Proof. induction n as [|n IH]. reflexivity. unfold count_nz in *. cbn. rewrite IH. reflexivity. Qed.
Lemma count_nz_zero_nth l d : count_nz l = 0%nat -> nz (nth d l 0%Z) = false.
Proof. revert d. induction l as [|z l IH]; intros d H. destruct d; reflexivity.
  unfold count_nz in *. cbn [filter] in H. destruct (nz z) eqn:E; [cbn in H; lia|].
  destruct d; cbn [nth]. exact E. apply IH. exact H. Qed.

(* ------------------------------------------------------------------ *)
(* the unit axis                                                        *)
(* ------------------------------------------------------------------ *)
Lemma valid_units_coord sizes units i d : valid (sizes ++ [units]) i -> (d < length sizes)%nat ->
  (nth d i 0 < nth d sizes 0)%nat.
Proof. intros Hv Hd. pose proof (valid_nth _ _ d Hv ltac:(rewrite app_length; cbn; lia)) as H.
  rewrite app_nth1 in H by exact Hd. exact H. Qed.
Lemma valid_units_length sizes units i : valid (sizes ++ [units]) i -> length i = S (length sizes).
Proof. intros Hv. rewrite (valid_length _ _ Hv), app_length. cbn. lia. Qed.

(* ------------------------------------------------------------------ *)
(* linear_initializer                                                   *)
(* ------------------------------------------------------------------ *)
Section Linear.
Variables (sizes : list nat) (omin omax : Q) (monos unis : list Z) (units : nat).
Let rank := length sizes.
Let sh := sizes ++ [units].
Let r := lin_dim_range sizes omin omax monos unis.
Let em := lin_eff_monos sizes monos unis.
Let f := linear_init_fn sizes omin omax monos unis.

Definition lprof (d k : nat) : Q := prof_at (nth d em 0%Z) (nth d unis 0%Z) (nth d sizes 0%nat) r k.

Lemma lin_fn_valid i : valid sh i -> f i == qsum (map (fun d => lprof d (nth d i 0%nat)) (seq 0 rank)) + omin.
Proof. intros Hv. unfold f, linear_init_fn. fold rank.
  rewrite (qsum_map_ext _ (fun d => lprof d (nth d i 0%nat))). reflexivity.
  intros d Hd. apply in_seq in Hd. unfold lin_profile, lprof. fold em r.
  rewrite one_d_nth. reflexivity. apply (valid_units_coord sizes units); [exact Hv|unfold rank in Hd; lia]. Qed.

Lemma lin_fn_upd i d k : valid sh i -> (d < rank)%nat -> (k < nth d sizes 0)%nat ->
  f (upd i d k) == f i + (lprof d k - lprof d (nth d i 0%nat)).
Proof. intros Hv Hd Hk.
  assert (Hv' : valid sh (upd i d k)).
  { apply upd_valid. exact Hv. unfold sh. rewrite app_nth1 by exact Hd. exact Hk. }
  rewrite (lin_fn_valid _ Hv'), (lin_fn_valid _ Hv).
  rewrite (qsum_seq_upd lprof i d k rank Hd). lra.
  rewrite (valid_units_length sizes units i Hv). unfold rank in Hd. lia. Qed.

Lemma lin_dim_range_nonneg : omin <= omax -> 0 <= r.
Proof. intros H. unfold r, lin_dim_range.
  pose proof (qnat_nonneg (lin_num_constraint_dims sizes monos unis)) as Hn.
  destruct (Qeq_dec (qnat (lin_num_constraint_dims sizes monos unis)) 0) as [E|E].
  - rewrite E. unfold Qdiv. rewrite Qinv_0 || (change (/ 0) with 0). lra.
  - apply Qle_shift_div_l; lra. Qed.

(* monotone dimension: constant non-negative increments *)
Lemma lin_fn_mono_step i d : valid sh i -> (d < rank)%nat -> nz (nth d em 0%Z) = true ->
  (S (nth d i 0) < nth d sizes 0)%nat ->
  f (upd i d (S (nth d i 0%nat))) == f i + lin_step 0 r (nth d sizes 0%nat).
Proof. intros Hv Hd Hm Hs. pose proof (lin_fn_upd i d _ Hv Hd Hs) as HU. rewrite HU. clear HU. unfold lprof.
  rewrite prof_mono_step by (auto; lia). lra. Qed.

(* unimodal dimension *)
Lemma lin_fn_valley i d : omin <= omax -> valid sh i -> (d < rank)%nat -> nz (nth d em 0%Z) = false ->
  nth d unis 0%Z = 1%Z -> (S (nth d i 0) < nth d sizes 0)%nat ->
  if (nth d i 0 <? nth d sizes 0 / 2)%nat then f (upd i d (S (nth d i 0%nat))) <= f i
  else f i <= f (upd i d (S (nth d i 0%nat))).
Proof. intros Hb Hv Hd Hm Hu Hs. pose proof (lin_fn_upd i d _ Hv Hd Hs) as HU. unfold lprof, prof_at in HU.
  rewrite Hm, Hu in HU. change (nz 1) with true in HU. cbv iota in HU.
  pose proof (valley_shape (nth d sizes 0%nat) r (nth d i 0%nat) (lin_dim_range_nonneg Hb) Hs) as H.
  destruct (nth d i 0 <? nth d sizes 0 / 2)%nat; lra. Qed.
Lemma lin_fn_peak i d : omin <= omax -> valid sh i -> (d < rank)%nat -> nz (nth d em 0%Z) = false ->
  nz (nth d unis 0%Z) = true -> nth d unis 0%Z <> 1%Z -> (S (nth d i 0) < nth d sizes 0)%nat ->
  if (nth d i 0 <? nth d sizes 0 / 2)%nat then f i <= f (upd i d (S (nth d i 0%nat)))
  else f (upd i d (S (nth d i 0%nat))) <= f i.
Proof. intros Hb Hv Hd Hm Hu Hu1 Hs. pose proof (lin_fn_upd i d _ Hv Hd Hs) as HU. unfold lprof, prof_at in HU.
  rewrite Hm, Hu in HU. apply Z.eqb_neq in Hu1.
  rewrite !uni_prof_peak_eq in HU by (auto; lia).
  pose proof (valley_shape (nth d sizes 0%nat) r (nth d i 0%nat) (lin_dim_range_nonneg Hb) Hs) as H.
  destruct (nth d i 0 <? nth d sizes 0 / 2)%nat; lra. Qed.

(* unconstrained dimension: the kernel does not depend on it *)
Lemma lin_fn_const i d k : valid sh i -> (d < rank)%nat -> nz (nth d em 0%Z) = false ->
  nz (nth d unis 0%Z) = false -> (k < nth d sizes 0)%nat -> f (upd i d k) == f i.
Proof. intros Hv Hd Hm Hu Hk. pose proof (lin_fn_upd i d _ Hv Hd Hk) as HU. rewrite HU. clear HU. unfold lprof.
  rewrite !prof_unconstrained by assumption. lra. Qed.

(* range *)
Hypothesis Hsizes : forall s, In s sizes -> (2 <= s)%nat.
Hypothesis Hunits : (1 <= units)%nat.
Hypothesis Hrank : (1 <= rank)%nat.
Hypothesis Hlm : length monos = rank.
Hypothesis Hlu : length unis = rank.
Hypothesis Hdisj : forall d, nz (nth d monos 0%Z) && nz (nth d unis 0%Z) = false.
Hypothesis Hb : omin <= omax.

Lemma size_ge2 d : (d < rank)%nat -> (2 <= nth d sizes 0)%nat.
Proof. intros Hd. apply Hsizes. apply nth_In. exact Hd. Qed.

Definition cind (d : nat) : Q := if nz (nth d em 0%Z) || nz (nth d unis 0%Z) then 1 else 0.

Lemma em_length : length em = rank.
Proof. unfold em, lin_eff_monos. destruct (count_nz monos + count_nz unis =? 0)%nat.
  apply repeat_length. exact Hlm. Qed.
Lemma em_disj d : nz (nth d em 0%Z) && nz (nth d unis 0%Z) = false.
Proof. unfold em, lin_eff_monos. destruct (Nat.eqb_spec (count_nz monos + count_nz unis) 0) as [E|E]; [|apply Hdisj].
  rewrite (count_nz_zero_nth unis d) by lia. apply andb_false_r. Qed.
Lemma count_em : (count_nz em + count_nz unis)%nat = lin_num_constraint_dims sizes monos unis.
Proof. unfold em, lin_eff_monos, lin_num_constraint_dims.
  destruct (Nat.eqb_spec (count_nz monos + count_nz unis) 0) as [E|E]; [|reflexivity].
  rewrite count_nz_repeat1. lia. Qed.
Lemma ncd_pos : (1 <= lin_num_constraint_dims sizes monos unis)%nat.
Proof. unfold lin_num_constraint_dims. destruct (Nat.eqb_spec (count_nz monos + count_nz unis) 0); [exact Hrank|lia]. Qed.

Lemma cind_sum : qsum (map cind (seq 0 rank)) == qnat (lin_num_constraint_dims sizes monos unis).
Proof. rewrite <- count_em, qnat_plus.
  rewrite <- (count_nz_sum em), <- (count_nz_sum unis), em_length, Hlu, <- qsum_map_plus.
  apply qsum_map_ext. intros d _. unfold cind. pose proof (em_disj d) as H.
  destruct (nz (nth d em 0%Z)), (nz (nth d unis 0%Z)); cbn in *; try discriminate; lra. Qed.

Lemma total_range : qnat (lin_num_constraint_dims sizes monos unis) * r == omax - omin.
Proof. unfold r, lin_dim_range. pose proof (qnat_pos _ ncd_pos). field. lra. Qed.

Lemma lprof_bounds d k : (d < rank)%nat -> (k < nth d sizes 0)%nat -> 0 <= lprof d k /\ lprof d k <= cind d * r.
Proof. intros Hd Hk. unfold lprof, cind. pose proof (lin_dim_range_nonneg Hb) as Hr.
  destruct (nz (nth d em 0%Z)) eqn:Em; [|destruct (nz (nth d unis 0%Z)) eqn:Eu]; cbn [orb].
  - pose proof (prof_range (nth d em 0%Z) (nth d unis 0%Z) (nth d sizes 0%nat) r k ltac:(lia) Hr Hk). lra.
  - pose proof (prof_range (nth d em 0%Z) (nth d unis 0%Z) (nth d sizes 0%nat) r k ltac:(lia) Hr Hk). lra.
  - rewrite prof_unconstrained by assumption. lra. Qed.

Lemma lin_fn_in_range i : valid sh i -> omin <= f i /\ f i <= omax.
Proof. intros Hv. rewrite (lin_fn_valid i Hv).
  assert (H0 : 0 <= qsum (map (fun d => lprof d (nth d i 0%nat)) (seq 0 rank))).
  { apply qsum_map_nonneg. intros d Hd. apply in_seq in Hd.
    apply lprof_bounds. lia. apply (valid_units_coord sizes units); [exact Hv|unfold rank in Hd; lia]. }
  assert (H1 : qsum (map (fun d => lprof d (nth d i 0%nat)) (seq 0 rank)) <= qsum (map (fun d => cind d * r) (seq 0 rank))).
  { apply qsum_map_le. intros d Hd. apply in_seq in Hd.
    apply lprof_bounds. lia. apply (valid_units_coord sizes units); [exact Hv|unfold rank in Hd; lia]. }
  rewrite (qsum_map_ext (fun d => cind d * r) (fun d => r * cind d)) in H1 by (intros; lra).
  rewrite qsum_map_scale, cind_sum in H1. pose proof total_range. lra. Qed.

(* the two extreme vertices *)
Definition corner (pick : Z -> Z -> nat -> nat) : idx :=
  map (fun d => pick (nth d em 0%Z) (nth d unis 0%Z) (nth d sizes 0%nat)) (seq 0 rank) ++ [0%nat].
Lemma corner_nth pick d : (d < rank)%nat -> nth d (corner pick) 0%nat = pick (nth d em 0%Z) (nth d unis 0%Z) (nth d sizes 0%nat).
Proof. intros Hd. unfold corner. rewrite app_nth1 by (rewrite map_length, seq_length; exact Hd).
  apply nth_map_seq. exact Hd. Qed.
Lemma corner_valid pick : (forall m u s, (2 <= s)%nat -> (pick m u s < s)%nat) -> valid sh (corner pick).
Proof. intros Hp. apply valid_iff. unfold sh, corner. rewrite !app_length, map_length, seq_length. cbn [length]. split. reflexivity.
  fold rank. intros e He. destruct (Nat.ltb_spec e rank) as [Hlt|Hge].
  - rewrite !app_nth1 by (rewrite ?map_length, ?seq_length; exact Hlt).
    rewrite nth_map_seq by exact Hlt. apply Hp. apply size_ge2. exact Hlt.
  - assert (e = rank) by lia. subst e. rewrite !app_nth2 by (rewrite ?map_length, ?seq_length; unfold rank; lia).
    rewrite map_length, seq_length. unfold rank. rewrite Nat.sub_diag. cbn. lia. Qed.

Lemma lin_fn_min_attained : exists i, valid sh i /\ f i == omin.
Proof. exists (corner arg_lo). assert (Hv : valid sh (corner arg_lo)) by (apply corner_valid; intros; apply arg_lo_lt; assumption).
  split. exact Hv. rewrite (lin_fn_valid _ Hv).
  rewrite (qsum_map_ext _ (fun _ => 0 * 0)).
  - rewrite qsum_map_scale. lra.
  - intros d Hd. apply in_seq in Hd. rewrite corner_nth by lia. unfold lprof. rewrite prof_arg_lo. lra. apply size_ge2. lia. Qed.
Lemma lin_fn_max_attained : exists i, valid sh i /\ f i == omax.
Proof. exists (corner arg_hi). assert (Hv : valid sh (corner arg_hi)) by (apply corner_valid; intros; apply arg_hi_lt; assumption).
  split. exact Hv. rewrite (lin_fn_valid _ Hv).
  rewrite (qsum_map_ext _ (fun d => r * cind d)).
  - rewrite qsum_map_scale, cind_sum. pose proof total_range. lra.
  - intros d Hd. apply in_seq in Hd. rewrite corner_nth by lia. unfold lprof. rewrite prof_arg_hi by (apply size_ge2; lia).
    unfold cind. destruct (nz (nth d em 0%Z) || nz (nth d unis 0%Z)); lra. Qed.
End Linear.
