(* Lemmas about Model/Regularizers.v (property C13): the code-shaped regularizers equal
   the documented sums, are non-negative, linear in the amounts, and vanish on the
   documented kernels. *)
From TFL Require Import Model.Regularizers.
Open Scope Q_scope.

(* ------------------------------------------------------------------ *)
(* Generic facts about sums and slicing                                *)
(* ------------------------------------------------------------------ *)
Lemma qsum_map_zero {A} (l : list A) : qsum (map (fun _ => 0) l) == 0.
Proof. induction l as [|a l IH]; cbn [map qsum]. reflexivity. rewrite IH. lra. Qed.

Lemma qsum_map_zero_ext {A} (g : A -> Q) l : (forall x, In x l -> g x == 0) -> qsum (map g l) == 0.
Proof. intros H. rewrite (qsum_map_ext g (fun _ => 0) l H). apply qsum_map_zero. Qed.

Lemma qsum_flat_map {A B} (g : B -> Q) (F : A -> list B) l :
  qsum (map g (flat_map F l)) == qsum (map (fun a => qsum (map g (F a))) l).
Proof. induction l as [|a l IH]; cbn [flat_map map qsum]. reflexivity.
  rewrite map_app, qsum_app, IH. reflexivity. Qed.

Lemma qsum_swap {A B} (f : A -> B -> Q) la lb :
  qsum (map (fun a => qsum (map (fun b => f a b) lb)) la) ==
  qsum (map (fun b => qsum (map (fun a => f a b) la)) lb).
Proof. induction la as [|a la IH]; cbn [map qsum].
  - rewrite qsum_map_zero. reflexivity.
  - rewrite IH. symmetry. apply (qsum_map_plus (fun b => f a b) (fun b => qsum (map (fun a0 => f a0 b) la))). Qed.

Lemma qsum_map_nth (f : Q -> Q) l :
  qsum (map f l) = qsum (map (fun i => f (nth i l 0)) (seq 0 (length l))).
Proof. induction l as [|a l IH]; cbn [length seq map qsum]. reflexivity.
  rewrite <- seq_shift, map_map. cbn [nth]. rewrite IH. reflexivity. Qed.

(* sum_{k < n} [k+1 < n] X k = sum_{k < n-1} X k *)
Lemma qsum_seq_guard (X : nat -> Q) n :
  qsum (map (fun k => if (S k <? n)%nat then X k else 0) (seq 0 n)) == qsum (map X (seq 0 (n - 1))).
Proof. destruct n as [|n]. reflexivity.
  replace (S n - 1)%nat with n by lia. rewrite seq_S, map_app, qsum_app. cbn [map qsum Nat.add].
  rewrite Nat.ltb_irrefl.
  rewrite (qsum_map_ext (fun k => if (S k <? S n)%nat then X k else 0) X).
  lra. intros k Hk. apply in_seq in Hk. destruct (Nat.ltb_spec (S k) (S n)). reflexivity. lia. Qed.

Lemma qsum_seq_S (Y : nat -> Q) n : qsum (map Y (seq 0 (S n))) == qsum (map Y (seq 0 n)) + Y n.
Proof. rewrite seq_S, map_app, qsum_app. cbn [map qsum Nat.add]. lra. Qed.

Lemma tl_map {A B} (f : A -> B) l : tl (map f l) = map f (tl l).
Proof. destruct l; reflexivity. Qed.
Lemma removelast_map {A B} (f : A -> B) l : removelast (map f l) = map f (removelast l).
Proof. induction l as [|a l IH]; cbn [map removelast]. reflexivity.
  destruct l as [|b l]. reflexivity. cbn [map] in *. rewrite IH. reflexivity. Qed.
Lemma tl_seq a n : tl (seq a n) = seq (S a) (n - 1).
Proof. destruct n; cbn [seq tl]. reflexivity. replace (S n - 1)%nat with n by lia. reflexivity. Qed.
Lemma removelast_seq n : forall a, removelast (seq a n) = seq a (n - 1).
Proof. induction n as [|n IH]; intros a. reflexivity.
  cbn [seq]. destruct n as [|n]. reflexivity.
  change (removelast (a :: seq (S a) (S n))) with (a :: removelast (seq (S a) (S n))).
  rewrite IH. replace (S (S n) - 1)%nat with (S n) by lia. replace (S n - 1)%nat with n by lia. reflexivity. Qed.
Lemma tl_map_seq {B} (f : nat -> B) n : tl (map f (seq 0 n)) = map (fun k => f (S k)) (seq 0 (n - 1)).
Proof. rewrite tl_map, tl_seq, <- seq_shift, map_map. reflexivity. Qed.
Lemma removelast_map_seq {B} (f : nat -> B) n : removelast (map f (seq 0 n)) = map f (seq 0 (n - 1)).
Proof. rewrite removelast_map, removelast_seq. reflexivity. Qed.
Lemma map2_map {A B C D} (op : B -> C -> D) (F : A -> B) (G : A -> C) l :
  map2 op (map F l) (map G l) = map (fun x => op (F x) (G x)) l.
Proof. induction l as [|a l IH]; cbn [map map2]. reflexivity. rewrite IH. reflexivity. Qed.
Lemma map2_removelast {A B C} (op : A -> B -> C) l : forall m, length m = S (length l) ->
  map2 op l (removelast m) = map2 op l m.
Proof. induction l as [|a l IH]; intros m Hm. reflexivity.
  destruct m as [|b m]; [discriminate|]. destruct m as [|b' m]; [discriminate|].
  change (removelast (b :: b' :: m)) with (b :: removelast (b' :: m)). cbn [map2].
  rewrite IH. reflexivity. cbn [length] in *. lia. Qed.

Lemma nth_tl {A} (l : list A) i d : nth i (tl l) d = nth (S i) l d.
Proof. destruct l; [destruct i|]; reflexivity. Qed.
Lemma length_tl {A} (l : list A) : length (tl l) = (length l - 1)%nat.
Proof. destruct l; cbn; lia. Qed.
Lemma skipn2_tl {A} (l : list A) : skipn 2 l = tl (tl l).
Proof. destruct l as [|a [|b l]]; reflexivity. Qed.

(* ------------------------------------------------------------------ *)
(* nz / truthiness                                                      *)
(* ------------------------------------------------------------------ *)
Lemma nz_false q : nz q = false -> q == 0.
Proof. unfold nz. rewrite negb_false_iff. apply Qeq_bool_iff. Qed.
Lemma nz_true q : nz q = true -> ~ q == 0.
Proof. unfold nz. rewrite negb_true_iff. apply Qeq_bool_neq. Qed.

Lemma sq_nonneg x : 0 <= sq x.
Proof. unfold sq. destruct (Qlt_le_dec x 0).
  - setoid_replace (x * x) with ((- x) * (- x)) by ring. apply qmul_nonneg; lra.
  - apply qmul_nonneg; assumption. Qed.
Global Instance sq_proper : Proper (Qeq ==> Qeq) sq.
Proof. intros a b H. unfold sq. rewrite H. reflexivity. Qed.
Lemma sq_even x : sq (- x) == sq x. Proof. unfold sq. ring. Qed.
Lemma qabs_even x : qabs (- x) == qabs x. Proof. qcases; lra. Qed.
Lemma qabs_0 : qabs 0 == 0. Proof. qcases; lra. Qed.
Lemma sq_0 : sq 0 == 0. Proof. unfold sq. ring. Qed.

Lemma sum1_nonneg f r : (forall x, 0 <= f x) -> 0 <= sum1 f r.
Proof. intros H. unfold sum1. apply qsum_map_nonneg. intros; apply H. Qed.
Lemma sum2_nonneg f m : (forall x, 0 <= f x) -> 0 <= sum2 f m.
Proof. intros H. unfold sum2. apply qsum_map_nonneg. intros; apply sum1_nonneg, H. Qed.
Lemma sum3_nonneg f p : (forall x, 0 <= f x) -> 0 <= sum3 f p.
Proof. intros H. unfold sum3. apply qsum_map_nonneg. intros; apply sum2_nonneg, H. Qed.

(* ================================================================== *)
(* PWL regularizers                                                     *)
(* ================================================================== *)

(* every early return / losses-list branch computes l1 * |.|_1 + l2 * |.|_2^2 *)
Lemma pwl_losses_closed l1 l2 m : pwl_losses l1 l2 m == l1 * sum2 qabs m + l2 * sum2 sq m.
Proof. unfold pwl_losses. destruct (nz l1) eqn:E1, (nz l2) eqn:E2; cbn [app];
  try (apply nz_false in E1; rewrite E1); try (apply nz_false in E2; rewrite E2); lra. Qed.

Lemma both_off l1 l2 : negb (nz l1) && negb (nz l2) = true -> l1 == 0 /\ l2 == 0.
Proof. rewrite andb_true_iff, !negb_true_iff. intros [H1 H2]. split; apply nz_false; assumption. Qed.

Definition lap_rows (cyclic : bool) (units : nat) (x : list row) : list row :=
  if cyclic then tl x ++ [rneg (col_sums units (tl x))] else tl x.

Lemma pwl_laplacian_closed l1 l2 cyc units x :
  pwl_laplacian l1 l2 cyc units x == l1 * sum2 qabs (lap_rows cyc units x) + l2 * sum2 sq (lap_rows cyc units x).
Proof. unfold pwl_laplacian, lap_rows. destruct (negb (nz l1) && negb (nz l2)) eqn:E.
  - destruct (both_off _ _ E) as [-> ->]. lra.
  - apply pwl_losses_closed. Qed.
Lemma pwl_hessian_closed l1 l2 cyc units x :
  pwl_hessian l1 l2 cyc units x ==
  l1 * sum2 qabs (pwl_nonlinearity cyc units x []) + l2 * sum2 sq (pwl_nonlinearity cyc units x []).
Proof. unfold pwl_hessian. destruct (negb (nz l1) && negb (nz l2)) eqn:E.
  - destruct (both_off _ _ E) as [-> ->]. lra.
  - apply pwl_losses_closed. Qed.
Definition wrinkle_rows cyc units x := sl_diff (pwl_nonlinearity cyc units x (firstn 1 (skipn 1 (tl x)))).
Lemma pwl_wrinkle_closed l1 l2 cyc units x : (3 <= length x)%nat ->
  pwl_wrinkle l1 l2 cyc units x == l1 * sum2 qabs (wrinkle_rows cyc units x) + l2 * sum2 sq (wrinkle_rows cyc units x).
Proof. intros Hk. unfold pwl_wrinkle, wrinkle_rows. destruct (negb (nz l1) && negb (nz l2)) eqn:E.
  - destruct (both_off _ _ E) as [-> ->]. lra.
  - destruct (Nat.ltb_spec (length x) 3). lia. apply pwl_losses_closed. Qed.
Lemma pwl_wrinkle_small l1 l2 cyc units x : (length x < 3)%nat -> pwl_wrinkle l1 l2 cyc units x = 0.
Proof. intros Hk. unfold pwl_wrinkle. destruct (negb (nz l1) && negb (nz l2)). reflexivity.
  destruct (Nat.ltb_spec (length x) 3). reflexivity. lia. Qed.

(* --- non-negativity and linearity in (l1, l2), on the code-shaped model --- *)
Lemma closed_nonneg l1 l2 (m : list row) : 0 <= l1 -> 0 <= l2 -> 0 <= l1 * sum2 qabs m + l2 * sum2 sq m.
Proof. intros H1 H2. pose proof (qmul_nonneg _ _ H1 (sum2_nonneg qabs m qabs_nonneg)).
  pose proof (qmul_nonneg _ _ H2 (sum2_nonneg sq m sq_nonneg)). lra. Qed.

Theorem pwl_laplacian_nonneg l1 l2 cyc units x : 0 <= l1 -> 0 <= l2 -> 0 <= pwl_laplacian l1 l2 cyc units x.
Proof. intros. rewrite pwl_laplacian_closed. apply closed_nonneg; assumption. Qed.
Theorem pwl_hessian_nonneg l1 l2 cyc units x : 0 <= l1 -> 0 <= l2 -> 0 <= pwl_hessian l1 l2 cyc units x.
Proof. intros. rewrite pwl_hessian_closed. apply closed_nonneg; assumption. Qed.
Theorem pwl_wrinkle_nonneg l1 l2 cyc units x : 0 <= l1 -> 0 <= l2 -> 0 <= pwl_wrinkle l1 l2 cyc units x.
Proof. intros. destruct (Nat.lt_ge_cases (length x) 3).
  - rewrite pwl_wrinkle_small by assumption. lra.
  - rewrite pwl_wrinkle_closed by assumption. apply closed_nonneg; assumption. Qed.

Theorem pwl_laplacian_linear l1 l2 cyc units x :
  pwl_laplacian l1 l2 cyc units x == l1 * pwl_laplacian 1 0 cyc units x + l2 * pwl_laplacian 0 1 cyc units x.
Proof. rewrite !pwl_laplacian_closed. lra. Qed.
Theorem pwl_hessian_linear l1 l2 cyc units x :
  pwl_hessian l1 l2 cyc units x == l1 * pwl_hessian 1 0 cyc units x + l2 * pwl_hessian 0 1 cyc units x.
Proof. rewrite !pwl_hessian_closed. lra. Qed.
Theorem pwl_wrinkle_linear l1 l2 cyc units x :
  pwl_wrinkle l1 l2 cyc units x == l1 * pwl_wrinkle 1 0 cyc units x + l2 * pwl_wrinkle 0 1 cyc units x.
Proof. destruct (Nat.lt_ge_cases (length x) 3).
  - rewrite !pwl_wrinkle_small by assumption. lra.
  - rewrite !pwl_wrinkle_closed by assumption. lra. Qed.

(* ------------------------------------------------------------------ *)
(* Units: a (rows, units) matrix is the collection of its columns      *)
(* ------------------------------------------------------------------ *)
Definition wf (units : nat) (m : list row) : Prop := forall r, In r m -> length r = units.

Lemma wf_tl u m : wf u m -> wf u (tl m).
Proof. intros H r Hr. apply H. destruct m; [destruct Hr|right; exact Hr]. Qed.
Lemma in_removelast {A} (l : list A) x : In x (removelast l) -> In x l.
Proof. induction l as [|a l IH]; cbn [removelast]. intros []. destruct l as [|b l]. intros [].
  intros [<-|H]. left; reflexivity. right. apply IH. exact H. Qed.
Lemma wf_removelast u m : wf u m -> wf u (removelast m).
Proof. intros H r Hr. apply H, in_removelast, Hr. Qed.
Lemma wf_firstn u n m : wf u m -> wf u (firstn n m).
Proof. intros H r Hr. apply H. rewrite <- (firstn_skipn n m). apply in_or_app. left; exact Hr. Qed.
Lemma wf_skipn u n m : wf u m -> wf u (skipn n m).
Proof. intros H r Hr. apply H. rewrite <- (firstn_skipn n m). apply in_or_app. right; exact Hr. Qed.
Lemma wf_app u a b : wf u a -> wf u b -> wf u (a ++ b).
Proof. intros Ha Hb r Hr. apply in_app_or in Hr. destruct Hr; auto. Qed.
Lemma wf_nil u : wf u []. Proof. intros r []. Qed.
Lemma wf_neg_col_sums u m : wf u [rneg (col_sums u m)].
Proof. intros r [<-|[]]. unfold rneg, col_sums. rewrite !map_length, seq_length. reflexivity. Qed.
Lemma wf_map2_rsub u : forall a b, wf u a -> wf u b -> wf u (map2 rsub a b).
Proof. induction a as [|x a IH]; intros [|y b] Ha Hb r Hr; cbn [map2] in Hr; try (destruct Hr; fail).
  destruct Hr as [<-|Hr].
  - unfold rsub. rewrite map2_length, (Ha x), (Hb y) by (left; reflexivity). apply Nat.min_id.
  - apply (IH b); try assumption; intros r' Hr'; [apply Ha|apply Hb]; right; assumption. Qed.
Lemma wf_sl_diff u m : wf u m -> wf u (sl_diff m).
Proof. intros H. apply wf_map2_rsub. apply wf_tl, H. apply wf_removelast, H. Qed.

Lemma sum2_columns f units m : wf units m ->
  sum2 f m == qsum (map (fun u => sum1 f (column u m)) (seq 0 units)).
Proof. induction m as [|r m IH]; intros H; unfold sum2; cbn [map qsum].
  - symmetry. apply qsum_map_zero.
  - fold (sum2 f m). rewrite IH by (intros r' Hr'; apply H; right; assumption).
    unfold column at 2. cbn [map]. unfold sum1 at 3. cbn [map qsum].
    rewrite (qsum_map_plus (fun u => f (nth u r 0)) (fun u => qsum (map f (map (fun r0 => nth u r0 0) m)))).
    unfold sum1 at 1. rewrite qsum_map_nth, (H r) by (left; reflexivity). reflexivity. Qed.

Lemma column_app u a b : column u (a ++ b) = column u a ++ column u b.
Proof. apply map_app. Qed.
Lemma column_tl u m : column u (tl m) = tl (column u m).
Proof. symmetry. apply tl_map. Qed.
Lemma column_removelast u m : column u (removelast m) = removelast (column u m).
Proof. symmetry. apply removelast_map. Qed.
Lemma column_firstn u n m : column u (firstn n m) = firstn n (column u m).
Proof. symmetry. apply firstn_map. Qed.
Lemma column_skipn u n m : column u (skipn n m) = skipn n (column u m).
Proof. symmetry. apply skipn_map. Qed.

(* 1-D versions of the slicing operations *)
Definition diff1 (l : list Q) : list Q := map2 Qminus (tl l) (removelast l).

Lemma column_map2_rsub units u : (u < units)%nat -> forall a b, wf units a -> wf units b ->
  column u (map2 rsub a b) = map2 Qminus (column u a) (column u b).
Proof. intros Hu. induction a as [|x a IH]; intros [|y b] Ha Hb; try reflexivity.
  unfold column. cbn [map2 map]. f_equal.
  - unfold rsub. apply nth_map2; [rewrite (Ha x)|rewrite (Hb y)]; try (left; reflexivity); exact Hu.
  - apply IH; intros r Hr; [apply Ha|apply Hb]; right; assumption. Qed.
Lemma column_sl_diff units u m : (u < units)%nat -> wf units m -> column u (sl_diff m) = diff1 (column u m).
Proof. intros Hu H. unfold sl_diff, diff1.
  rewrite (column_map2_rsub units u Hu) by (try apply wf_tl; try apply wf_removelast; exact H).
  rewrite column_tl, column_removelast. reflexivity. Qed.
Lemma column_neg_col_sums units u m : (u < units)%nat ->
  column u [rneg (col_sums units m)] = [- qsum (column u m)].
Proof. intros Hu. unfold column at 1. cbn [map]. f_equal. unfold rneg.
  rewrite nth_indep with (d' := - 0) by (unfold col_sums; rewrite !map_length, seq_length; exact Hu).
  rewrite map_nth. unfold col_sums. rewrite nth_map_seq by exact Hu. reflexivity. Qed.

(* code-shaped per-unit difference lists *)
Definition lap1 (cyc : bool) (c : list Q) : list Q := if cyc then tl c ++ [- qsum (tl c)] else tl c.
Definition ext1 (c extra : list Q) : list Q := tl c ++ [- qsum (tl c)] ++ firstn 1 (tl c) ++ extra.
Definition nonlin1 (cyc : bool) (c extra : list Q) : list Q :=
  if cyc then diff1 (ext1 c extra) else diff1 (tl c).
Definition hes1 (cyc : bool) (c : list Q) : list Q := nonlin1 cyc c [].
Definition wri1 (cyc : bool) (c : list Q) : list Q := diff1 (nonlin1 cyc c (firstn 1 (skipn 1 (tl c)))).

Lemma column_lap_rows cyc units u x : (u < units)%nat ->
  column u (lap_rows cyc units x) = lap1 cyc (column u x).
Proof. intros Hu. unfold lap_rows, lap1. destruct cyc.
  - rewrite column_app, column_neg_col_sums, column_tl by exact Hu. reflexivity.
  - apply column_tl. Qed.

Lemma wf_ext units x extra : wf units x -> wf units extra ->
  wf units (tl x ++ [rneg (col_sums units (tl x))] ++ firstn 1 (tl x) ++ extra).
Proof. intros H He. repeat apply wf_app; try assumption. apply wf_tl, H. apply wf_neg_col_sums.
  apply wf_firstn, wf_tl, H. Qed.

Lemma wf_nonlinearity cyc units x extra : wf units x -> wf units extra -> wf units (pwl_nonlinearity cyc units x extra).
Proof. intros H He. unfold pwl_nonlinearity. destruct cyc.
  - apply wf_sl_diff, wf_ext; assumption.
  - apply wf_map2_rsub. apply wf_skipn, H. apply wf_removelast, wf_tl, H. Qed.

Lemma column_nonlinearity cyc units u x extra : (u < units)%nat -> wf units x -> wf units extra ->
  column u (pwl_nonlinearity cyc units x extra) = nonlin1 cyc (column u x) (column u extra).
Proof. intros Hu H He. unfold pwl_nonlinearity, nonlin1. destruct cyc.
  - rewrite (column_sl_diff units) by (try exact Hu; apply wf_ext; assumption). f_equal.
    unfold ext1. rewrite !column_app, column_neg_col_sums, column_firstn, !column_tl by exact Hu. reflexivity.
  - rewrite (column_map2_rsub units u Hu) by (try apply wf_skipn; try apply wf_removelast, wf_tl; exact H).
    unfold diff1. rewrite column_skipn, column_removelast, !column_tl, skipn2_tl. reflexivity. Qed.

Lemma column_hessian_rows cyc units u x : (u < units)%nat -> wf units x ->
  column u (pwl_nonlinearity cyc units x []) = hes1 cyc (column u x).
Proof. intros Hu H. rewrite column_nonlinearity by (try assumption; apply wf_nil). reflexivity. Qed.
Lemma column_wrinkle_rows cyc units u x : (u < units)%nat -> wf units x ->
  column u (wrinkle_rows cyc units x) = wri1 cyc (column u x).
Proof. intros Hu H. unfold wrinkle_rows, wri1.
  assert (He : wf units (firstn 1 (skipn 1 (tl x)))) by (apply wf_firstn, wf_skipn, wf_tl, H).
  rewrite (column_sl_diff units) by (try exact Hu; apply wf_nonlinearity; assumption).
  rewrite column_nonlinearity by assumption. rewrite column_firstn, column_skipn, column_tl. reflexivity. Qed.

(* ------------------------------------------------------------------ *)
(* Keypoint outputs (cumulative sums) and their differences            *)
(* ------------------------------------------------------------------ *)
Lemma cumsum_length c : forall acc, length (cumsum_from acc c) = length c.
Proof. induction c as [|a c IH]; intros acc; cbn [cumsum_from length]. reflexivity. rewrite IH. reflexivity. Qed.

Lemma cumsum_succ c : forall acc i, (S i < length c)%nat ->
  nth (S i) (cumsum_from acc c) 0 - nth i (cumsum_from acc c) 0 == nth (S i) c 0.
Proof. induction c as [|a c IH]; intros acc i Hi; cbn [length] in Hi. lia.
  destruct i as [|i].
  - destruct c as [|b c]; cbn [length] in Hi. lia. cbn [cumsum_from nth]. lra.
  - cbn [cumsum_from]. change (nth (S (S i)) ((acc + a) :: cumsum_from (acc + a) c) 0) with (nth (S i) (cumsum_from (acc + a) c) 0).
    change (nth (S i) ((acc + a) :: cumsum_from (acc + a) c) 0) with (nth i (cumsum_from (acc + a) c) 0).
    change (nth (S (S i)) (a :: c) 0) with (nth (S i) c 0). apply IH. lia. Qed.

Lemma cumsum_last c : forall acc, c <> [] -> nth (length c - 1) (cumsum_from acc c) 0 == acc + qsum c.
Proof. induction c as [|a c IH]; intros acc Hc. congruence.
  destruct c as [|b c].
  - cbn. lra.
  - replace (length (a :: b :: c) - 1)%nat with (S (length (b :: c) - 1)) by (cbn [length]; lia).
    cbn [cumsum_from]. cbn [cumsum_from] in IH.
    change (nth (S (length (b :: c) - 1)) ((acc + a) :: (acc + a + b) :: cumsum_from (acc + a + b) c) 0)
      with (nth (length (b :: c) - 1) ((acc + a + b) :: cumsum_from (acc + a + b) c) 0).
    rewrite (IH (acc + a)) by congruence. cbn [qsum]. lra. Qed.

Lemma cumsum_first a c acc : nth 0 (cumsum_from acc (a :: c)) 0 = acc + a.
Proof. reflexivity. Qed.

(* Y_0 - Y_(k-1) = - (sum of the heights) : the wrap-around difference *)
Lemma cumsum_wrap c : c <> [] ->
  nth 0 (keypoint_outputs c) 0 - nth (length c - 1) (keypoint_outputs c) 0 == - qsum (tl c).
Proof. intros Hc. unfold keypoint_outputs. rewrite cumsum_last by exact Hc.
  destruct c as [|a c]. congruence. cbn [cumsum_from nth tl qsum]. lra. Qed.

Lemma kp_length c : length (keypoint_outputs c) = length c.
Proof. apply cumsum_length. Qed.

(* non-cyclic first differences are the heights *)
Lemma first_diff_lin c i : (i + 1 < length c)%nat ->
  nth i (tl c) 0 == first_diff false (keypoint_outputs c) i.
Proof. intros Hi. unfold first_diff, out_at. rewrite nth_tl. replace (i + 1)%nat with (S i) by lia.
  symmetry. apply cumsum_succ. lia. Qed.

Lemma mod_wrap k n : (k <= n)%nat -> (n < 2 * k)%nat -> (n mod k = n - k)%nat.
Proof. intros H1 H2. symmetry. apply (Nat.mod_unique n k 1); lia. Qed.

(* cyclic first differences: heights, then the wrap-around height, then (one
   period later) the first and second height again *)
Lemma first_diff_cyc c extra i : (2 <= length c)%nat -> (i <= length c)%nat ->
  nth i (ext1 c extra) 0 == first_diff true (keypoint_outputs c) i.
Proof. intros Hk Hi. unfold first_diff, out_at. rewrite kp_length. set (k := length c) in *.
  unfold ext1. assert (Hl : length (tl c) = (k - 1)%nat) by apply length_tl.
  destruct (Nat.lt_ge_cases (i + 1) k) as [H|H].
  - rewrite app_nth1 by lia. rewrite nth_tl. rewrite !Nat.mod_small by lia.
    replace (i + 1)%nat with (S i) by lia. symmetry. apply cumsum_succ. fold k. lia.
  - rewrite app_nth2 by lia. rewrite Hl. destruct (Nat.eq_dec (i + 1) k) as [E|E].
    + replace (i - (k - 1))%nat with 0%nat by lia. cbn [app nth].
      rewrite E, Nat.mod_same by lia. rewrite Nat.mod_small by lia. replace i with (k - 1)%nat by lia.
      symmetry. apply cumsum_wrap. intros ->. cbn in k. lia.
    + assert (i = k) by lia. subst i. replace (k - (k - 1))%nat with 1%nat by lia.
      rewrite Nat.mod_same by lia. rewrite (mod_wrap k (k + 1)) by lia. replace (k + 1 - k)%nat with 1%nat by lia.
      destruct c as [|a [|b c]]; cbn [length] in k; try (unfold k in Hk; cbn in Hk; lia).
      unfold keypoint_outputs. cbn [tl firstn app nth cumsum_from]. lra. Qed.

Lemma first_diff_cyc2 c : (3 <= length c)%nat ->
  nth (length c + 1) (ext1 c (firstn 1 (skipn 1 (tl c)))) 0 == first_diff true (keypoint_outputs c) (length c + 1).
Proof. intros Hk. unfold first_diff, out_at. rewrite kp_length. set (k := length c) in *.
  rewrite (mod_wrap k (k + 1 + 1)), (mod_wrap k (k + 1)) by lia.
  replace (k + 1 + 1 - k)%nat with 2%nat by lia. replace (k + 1 - k)%nat with 1%nat by lia.
  unfold ext1. assert (Hl : length (tl c) = (k - 1)%nat) by apply length_tl.
  rewrite app_nth2 by lia. rewrite Hl. replace (k + 1 - (k - 1))%nat with 2%nat by lia.
  destruct c as [|a [|b [|b' c]]]; cbn [length] in k; try (unfold k in Hk; cbn in Hk; lia).
  unfold keypoint_outputs. cbn [tl skipn firstn app nth cumsum_from]. lra. Qed.

(* differences of a list that tabulates D *)
Lemma diff1_length l : length (diff1 l) = (length l - 1)%nat.
Proof. destruct l as [|a l]. reflexivity. unfold diff1.
  rewrite map2_removelast by reflexivity. rewrite map2_length. cbn [tl length]. lia. Qed.
Lemma diff1_nth l i : (S i < length l)%nat -> nth i (diff1 l) 0 = nth (S i) l 0 - nth i l 0.
Proof. intros Hi. unfold diff1. rewrite map2_removelast by (rewrite length_tl; lia).
  rewrite (nth_map2 Qminus (tl l) l i 0 0 0) by (rewrite ?length_tl; lia). rewrite nth_tl. reflexivity. Qed.

Lemma diff1_tab l (D : nat -> Q) : (forall i, (i < length l)%nat -> nth i l 0 == D i) ->
  forall i, (i < length (diff1 l))%nat -> nth i (diff1 l) 0 == D (S i) - D i.
Proof. intros H i Hi. rewrite diff1_length in Hi. rewrite diff1_nth by lia. rewrite !H by lia. reflexivity. Qed.

(* ------------------------------------------------------------------ *)
(* Per-unit equalities: code-shaped difference lists vs documented      *)
(* differences of the keypoint outputs                                  *)
(* ------------------------------------------------------------------ *)
Section PerUnit.
Variable f : Q -> Q.
Hypothesis f_proper : Proper (Qeq ==> Qeq) f.
Hypothesis f_even : forall x, f (- x) == f x.

Lemma sum1_tab l n (D : nat -> Q) : length l = n -> (forall i, (i < n)%nat -> nth i l 0 == D i) ->
  sum1 f l == qsum (map (fun i => f (D i)) (seq 0 n)).
Proof. intros Hl H. unfold sum1. rewrite qsum_map_nth, Hl. apply qsum_map_ext. intros i Hi. apply in_seq in Hi.
  apply f_proper, H. lia. Qed.

Lemma lap1_doc cyc c : (cyc = true -> 1 <= length c)%nat ->
  sum1 f (lap1 cyc c) ==
  qsum (map (fun i => f (first_diff cyc (keypoint_outputs c) i)) (seq 0 (n_terms cyc (length c) 1))).
Proof. intros Hk. apply sum1_tab.
  - unfold lap1, n_terms. destruct cyc. rewrite app_length, length_tl. cbn [length]. specialize (Hk eq_refl). lia.
    apply length_tl.
  - intros i Hi. unfold lap1, n_terms in *. destruct cyc.
    + specialize (Hk eq_refl). unfold first_diff, out_at. rewrite kp_length.
      destruct (Nat.lt_ge_cases (i + 1) (length c)) as [H|H].
      * rewrite app_nth1 by (rewrite length_tl; lia). rewrite nth_tl. rewrite !Nat.mod_small by lia.
        replace (i + 1)%nat with (S i) by lia. symmetry. apply cumsum_succ. lia.
      * rewrite app_nth2 by (rewrite length_tl; lia). rewrite length_tl.
        replace (i - (length c - 1))%nat with 0%nat by lia. cbn [nth].
        replace (i + 1)%nat with (length c) by lia. rewrite Nat.mod_same by lia. rewrite Nat.mod_small by lia.
        replace i with (length c - 1)%nat by lia. symmetry. apply cumsum_wrap. intros ->. cbn in Hk. lia.
    + apply first_diff_lin. lia. Qed.

(* the list of first differences the Hessian / wrinkle code differentiates again *)
Lemma nonlin1_tab cyc c extra : (cyc = true -> 2 <= length c)%nat ->
  forall i, (i < length (nonlin1 cyc c extra))%nat -> (i < n_terms cyc (length c) 2 + length extra)%nat ->
  (cyc = true -> (i < length c)%nat \/ (3 <= length c)%nat /\ extra = firstn 1 (skipn 1 (tl c))) ->
  nth i (nonlin1 cyc c extra) 0 ==
  first_diff cyc (keypoint_outputs c) (S i) - first_diff cyc (keypoint_outputs c) i.
Proof. intros Hk i Hi Hn Hx. unfold nonlin1 in *. destruct cyc.
  - specialize (Hk eq_refl). specialize (Hx eq_refl). rewrite diff1_length in Hi. rewrite diff1_nth by lia.
    assert (Hle : length (ext1 c extra) = (length c + 1 + length extra)%nat).
    { unfold ext1. rewrite !app_length, length_tl. cbn [length].
      destruct c as [|a [|b c]]; cbn [length tl firstn] in *; lia. }
    destruct (Nat.lt_ge_cases i (length c)) as [H|H].
    + rewrite !first_diff_cyc by lia. reflexivity.
    + destruct Hx as [Hx|[Hk3 ->]]. lia.
      assert (i = length c).
      { unfold n_terms in Hn. rewrite firstn_length, skipn_length, length_tl in Hn. lia. }
      subst i. replace (S (length c)) with (length c + 1)%nat by lia.
      rewrite first_diff_cyc2 by lia. rewrite first_diff_cyc by lia. reflexivity.
  - rewrite diff1_length, length_tl in Hi. rewrite diff1_nth by (rewrite length_tl; lia).
    rewrite <- !first_diff_lin by lia. reflexivity. Qed.

Lemma hes1_doc cyc c : (cyc = true -> 2 <= length c)%nat ->
  sum1 f (hes1 cyc c) ==
  qsum (map (fun i => f (second_diff cyc (keypoint_outputs c) i)) (seq 0 (n_terms cyc (length c) 2))).
Proof. intros Hk. assert (Hlen : length (hes1 cyc c) = n_terms cyc (length c) 2).
  { unfold hes1, nonlin1, n_terms, ext1. destruct cyc; rewrite !diff1_length.
    - specialize (Hk eq_refl). rewrite !app_length, length_tl.
      destruct c as [|a [|b c]]; cbn [length tl firstn] in *; lia.
    - rewrite length_tl. lia. }
  rewrite (sum1_tab _ _ (fun i => - second_diff cyc (keypoint_outputs c) i) Hlen).
  { apply qsum_map_ext. intros i _. apply f_even. }
  intros i Hi. unfold hes1 in *. rewrite (nonlin1_tab cyc c [] Hk i).
  - unfold first_diff, second_diff.
    replace (S i + 1)%nat with (i + 2)%nat by lia. replace (S i) with (i + 1)%nat by lia. lra.
  - rewrite Hlen. exact Hi.
  - cbn [length]. lia.
  - intros ->. left. unfold n_terms in Hi. exact Hi. Qed.

Lemma wri1_doc cyc c : (cyc = true -> 3 <= length c)%nat ->
  sum1 f (wri1 cyc c) ==
  qsum (map (fun i => f (third_diff cyc (keypoint_outputs c) i)) (seq 0 (n_terms cyc (length c) 3))).
Proof. intros Hk. set (extra := firstn 1 (skipn 1 (tl c))).
  assert (Hx : (cyc = true -> length extra = 1%nat)).
  { intros ->. specialize (Hk eq_refl). unfold extra. destruct c as [|a [|b [|b' c]]]; cbn [length] in *; try lia. reflexivity. }
  assert (Hlen1 : length (nonlin1 cyc c extra) = (n_terms cyc (length c) 2 + (if cyc then 1 else 0))%nat).
  { unfold nonlin1, n_terms, ext1. destruct cyc; rewrite !diff1_length.
    - specialize (Hk eq_refl). rewrite !app_length, length_tl, (Hx eq_refl).
      destruct c as [|a [|b c]]; cbn [length tl firstn] in *; lia.
    - rewrite length_tl. lia. }
  assert (Hlen : length (wri1 cyc c) = n_terms cyc (length c) 3).
  { unfold wri1. fold extra. rewrite diff1_length, Hlen1. unfold n_terms. destruct cyc; lia. }
  apply sum1_tab. exact Hlen.
  intros i Hi. unfold wri1. fold extra. rewrite diff1_nth by (rewrite Hlen1; unfold n_terms in *; destruct cyc; lia).
  assert (Hk2 : (cyc = true -> 2 <= length c)%nat) by (intros E; specialize (Hk E); lia).
  assert (Hb : (S i < n_terms cyc (length c) 2 + length extra)%nat).
  { unfold n_terms in *. destruct cyc. rewrite (Hx eq_refl). lia. lia. }
  assert (Hc : cyc = true -> (3 <= length c)%nat /\ extra = firstn 1 (skipn 1 (tl c))).
  { intros E. split. apply Hk, E. reflexivity. }
  rewrite (nonlin1_tab cyc c extra Hk2 (S i)), (nonlin1_tab cyc c extra Hk2 i).
  - unfold first_diff, third_diff.
    replace (S (S i) + 1)%nat with (i + 3)%nat by lia. replace (S (S i)) with (i + 2)%nat by lia.
    replace (S i + 1)%nat with (i + 2)%nat by lia. replace (S i) with (i + 1)%nat by lia. lra.
  - rewrite Hlen1. unfold n_terms in *. destruct cyc; lia.
  - lia.
  - intros E. right. apply Hc, E.
  - rewrite Hlen1. unfold n_terms in *. destruct cyc; lia.
  - exact Hb.
  - intros E. right. apply Hc, E. Qed.
End PerUnit.

(* ------------------------------------------------------------------ *)
(* PWL regularizers: code-shaped == documented                          *)
(* ------------------------------------------------------------------ *)
Lemma pwl_doc_generic (M : list row) (code1 : list Q -> list Q) (diff : bool -> list Q -> nat -> Q)
      (order : nat) l1 l2 cyc units (x : list row) :
  wf units M ->
  (forall u, (u < units)%nat -> column u M = code1 (column u x)) ->
  (forall f, Proper (Qeq ==> Qeq) f -> (forall z, f (- z) == f z) -> forall c, length c = length x ->
     sum1 f (code1 c) ==
     qsum (map (fun i => f (diff cyc (keypoint_outputs c) i)) (seq 0 (n_terms cyc (length c) order)))) ->
  l1 * sum2 qabs M + l2 * sum2 sq M == doc_pwl diff order l1 l2 cyc units x.
Proof. intros Hwf Hcol Hdoc. rewrite !(sum2_columns _ units M) by exact Hwf.
  unfold doc_pwl, doc_pwl_unit, doc_norms.
  rewrite (qsum_map_plus
    (fun u => l1 * qsum (map qabs (map (diff cyc (keypoint_outputs (column u x)))
                                      (seq 0 (n_terms cyc (length (keypoint_outputs (column u x))) order)))))
    (fun u => l2 * qsum (map sq (map (diff cyc (keypoint_outputs (column u x)))
                                    (seq 0 (n_terms cyc (length (keypoint_outputs (column u x))) order)))))).
  rewrite !qsum_map_scale.
  assert (E : forall f, Proper (Qeq ==> Qeq) f -> (forall z, f (- z) == f z) ->
    qsum (map (fun u => sum1 f (column u M)) (seq 0 units)) ==
    qsum (map (fun u => qsum (map f (map (diff cyc (keypoint_outputs (column u x)))
                                        (seq 0 (n_terms cyc (length (keypoint_outputs (column u x))) order)))))
              (seq 0 units))).
  { intros f Hp He. apply qsum_map_ext. intros u Hu. apply in_seq in Hu.
    rewrite Hcol by lia. rewrite map_map, kp_length. apply Hdoc; try assumption.
    unfold column. apply map_length. }
  rewrite (E qabs qabs_proper qabs_even), (E sq sq_proper sq_even). reflexivity. Qed.

Lemma wf_lap_rows cyc units x : wf units x -> wf units (lap_rows cyc units x).
Proof. intros H. unfold lap_rows. destruct cyc. apply wf_app. apply wf_tl, H. apply wf_neg_col_sums. apply wf_tl, H. Qed.
Lemma wf_wrinkle_rows cyc units x : wf units x -> wf units (wrinkle_rows cyc units x).
Proof. intros H. unfold wrinkle_rows. apply wf_sl_diff, wf_nonlinearity. exact H. apply wf_firstn, wf_skipn, wf_tl, H. Qed.

Theorem pwl_laplacian_doc l1 l2 cyc units x : wf units x -> (cyc = true -> 1 <= length x)%nat ->
  pwl_laplacian l1 l2 cyc units x == doc_pwl_laplacian l1 l2 cyc units x.
Proof. intros H Hk. rewrite pwl_laplacian_closed. unfold doc_pwl_laplacian.
  apply (pwl_doc_generic _ (lap1 cyc)).
  - apply wf_lap_rows, H.
  - intros u Hu. apply column_lap_rows, Hu.
  - intros f Hp He c Hc. apply lap1_doc; try assumption. rewrite Hc. exact Hk. Qed.

Theorem pwl_hessian_doc l1 l2 cyc units x : wf units x -> (cyc = true -> 2 <= length x)%nat ->
  pwl_hessian l1 l2 cyc units x == doc_pwl_hessian l1 l2 cyc units x.
Proof. intros H Hk. rewrite pwl_hessian_closed. unfold doc_pwl_hessian.
  apply (pwl_doc_generic _ (hes1 cyc)).
  - apply wf_nonlinearity. exact H. apply wf_nil.
  - intros u Hu. apply column_hessian_rows; assumption.
  - intros f Hp He c Hc. apply hes1_doc; try assumption. rewrite Hc. exact Hk. Qed.

Theorem pwl_wrinkle_doc l1 l2 cyc units x : wf units x -> (3 <= length x)%nat ->
  pwl_wrinkle l1 l2 cyc units x == doc_pwl_wrinkle l1 l2 cyc units x.
Proof. intros H Hk. rewrite pwl_wrinkle_closed by exact Hk. unfold doc_pwl_wrinkle.
  apply (pwl_doc_generic _ (wri1 cyc)).
  - apply wf_wrinkle_rows, H.
  - intros u Hu. apply column_wrinkle_rows; assumption.
  - intros f Hp He c Hc. apply wri1_doc; try assumption. rewrite Hc. intros _. exact Hk. Qed.

(* below three rows the non-cyclic third differences do not exist: both sides are 0 *)
Theorem pwl_wrinkle_doc_small l1 l2 units x : (length x < 3)%nat ->
  pwl_wrinkle l1 l2 false units x == doc_pwl_wrinkle l1 l2 false units x.
Proof. intros Hk. rewrite pwl_wrinkle_small by exact Hk. unfold doc_pwl_wrinkle, doc_pwl. symmetry.
  apply qsum_map_zero_ext. intros u _. unfold doc_pwl_unit, doc_norms, n_terms. rewrite kp_length.
  unfold column. rewrite map_length. unfold row in *. assert (E : (length x - 3 = 0)%nat) by lia. rewrite E. cbn [seq map qsum]. lra. Qed.

(* ------------------------------------------------------------------ *)
(* Zeros of the PWL regularizers (via the documented form)              *)
(* ------------------------------------------------------------------ *)
Definition idxQ (i : nat) : Q := inject_Z (Z.of_nat i).
Lemma idxQ_plus i j : idxQ (i + j) == idxQ i + idxQ j.
Proof. unfold idxQ. rewrite Nat2Z.inj_add, inject_Z_plus. reflexivity. Qed.
Lemma idxQ_1 : idxQ 1 == 1. Proof. reflexivity. Qed.
Lemma idxQ_2 : idxQ 2 == 2. Proof. reflexivity. Qed.
Lemma idxQ_3 : idxQ 3 == 3. Proof. reflexivity. Qed.

Lemma doc_pwl_zero diff order l1 l2 cyc units x :
  (forall u i, (u < units)%nat -> (i < n_terms cyc (length x) order)%nat ->
     diff cyc (keypoint_outputs (column u x)) i == 0) ->
  doc_pwl diff order l1 l2 cyc units x == 0.
Proof. intros H. unfold doc_pwl. apply qsum_map_zero_ext. intros u Hu. apply in_seq in Hu.
  unfold doc_pwl_unit, doc_norms. rewrite kp_length. unfold column at 2 4. rewrite map_length. rewrite !map_map.
  rewrite (qsum_map_zero_ext (fun i => qabs _)), (qsum_map_zero_ext (fun i => sq _)). lra.
  - intros i Hi. apply in_seq in Hi. rewrite H by lia. apply sq_0.
  - intros i Hi. apply in_seq in Hi. rewrite H by lia. apply qabs_0. Qed.

(* keypoint outputs of unit u *)
Definition outputs (x : list row) (u : nat) : list Q := keypoint_outputs (column u x).

(* constant outputs: every regularizer vanishes, cyclic or not *)
Lemma const_out cyc x u (c : Q) i : (1 <= length x)%nat ->
  (forall i, (i < length x)%nat -> nth i (outputs x u) 0 == c) ->
  (cyc = true \/ (i < length x)%nat) -> out_at cyc (outputs x u) i == c.
Proof. intros Hk H Hi. unfold out_at. destruct cyc.
  - apply H. unfold outputs. rewrite kp_length. unfold column. rewrite map_length. apply Nat.mod_upper_bound. lia.
  - apply H. destruct Hi. discriminate. assumption. Qed.

Section PWLZeros.
Variables (l1 l2 : Q) (units : nat) (x : list row).
Hypothesis Hwf : wf units x.

(* constant keypoint outputs, cyclic or not *)
Section Const.
Variable cst : nat -> Q.
Hypothesis Hc : forall u i, (u < units)%nat -> (i < length x)%nat -> nth i (outputs x u) 0 == cst u.

Lemma out_const cyc u i : (u < units)%nat -> (1 <= length x)%nat -> (cyc = true \/ (i < length x)%nat) ->
  out_at cyc (keypoint_outputs (column u x)) i == cst u.
Proof. intros Hu Hk Hi. apply (const_out cyc x u (cst u) i Hk). intros j Hj. apply Hc; assumption. exact Hi. Qed.

Theorem pwl_laplacian_zero_const cyc : (1 <= length x)%nat -> pwl_laplacian l1 l2 cyc units x == 0.
Proof. intros Hk. rewrite pwl_laplacian_doc by (try assumption; intros; assumption).
  apply doc_pwl_zero. intros u i Hu Hi. unfold first_diff.
  destruct cyc; cbn [n_terms] in Hi; rewrite !out_const; try assumption; try lra; try lia; auto; right; unfold row in *; lia. Qed.

Theorem pwl_hessian_zero_const cyc : (2 <= length x)%nat -> pwl_hessian l1 l2 cyc units x == 0.
Proof. intros Hk. rewrite pwl_hessian_doc by (try assumption; intros; assumption).
  apply doc_pwl_zero. intros u i Hu Hi. unfold second_diff.
  destruct cyc; cbn [n_terms] in Hi; rewrite !out_const; try assumption; try lra; try lia; auto; right; unfold row in *; lia. Qed.

Theorem pwl_wrinkle_zero_const cyc : pwl_wrinkle l1 l2 cyc units x == 0.
Proof. destruct (Nat.lt_ge_cases (length x) 3) as [Hk|Hk].
  - rewrite pwl_wrinkle_small by exact Hk. reflexivity.
  - rewrite pwl_wrinkle_doc by assumption.
    apply doc_pwl_zero. intros u i Hu Hi. unfold third_diff.
    destruct cyc; cbn [n_terms] in Hi; rewrite !out_const; try assumption; try lra; try lia; auto; right; unfold row in *; lia. Qed.
End Const.

(* keypoint outputs linear in the keypoint index: Hessian (and wrinkle) vanish *)
Section Linear.
Variables a b : nat -> Q.
Hypothesis Hl : forall u i, (u < units)%nat -> (i < length x)%nat -> nth i (outputs x u) 0 == a u + b u * idxQ i.

Theorem pwl_hessian_zero_linear : pwl_hessian l1 l2 false units x == 0.
Proof. rewrite pwl_hessian_doc by (try assumption; discriminate).
  apply doc_pwl_zero. intros u i Hu Hi. unfold n_terms in Hi. unfold second_diff, out_at. cbv iota.
  change (keypoint_outputs (column u x)) with (outputs x u). rewrite !Hl by (unfold row in *; lia). rewrite !idxQ_plus, idxQ_1, idxQ_2. ring. Qed.
End Linear.

(* keypoint outputs quadratic in the keypoint index: wrinkle vanishes *)
Section Quadratic.
Variables a b c : nat -> Q.
Hypothesis Hq : forall u i, (u < units)%nat -> (i < length x)%nat ->
  nth i (outputs x u) 0 == a u + b u * idxQ i + c u * (idxQ i * idxQ i).

Theorem pwl_wrinkle_zero_quadratic : pwl_wrinkle l1 l2 false units x == 0.
Proof. destruct (Nat.lt_ge_cases (length x) 3) as [Hk|Hk].
  - rewrite pwl_wrinkle_small by exact Hk. reflexivity.
  - rewrite pwl_wrinkle_doc by assumption.
    apply doc_pwl_zero. intros u i Hu Hi. unfold n_terms in Hi. unfold third_diff, out_at. cbv iota.
    change (keypoint_outputs (column u x)) with (outputs x u). rewrite !Hq by (unfold row in *; lia). rewrite !idxQ_plus, idxQ_1, idxQ_2, idxQ_3. ring. Qed.
End Quadratic.
End PWLZeros.

(* satisfiability of the hypotheses: a kernel with heights h, h, h has linear outputs *)
Example linear_outputs_example :
  let x := [[1; 0]; [2; 1#2]; [2; 1#2]; [2; 1#2]] in
  wf 2 x /\ (forall u i, (u < 2)%nat -> (i < length x)%nat ->
             nth i (outputs x u) 0 == nth u [1; 0] 0 + nth u [2; 1#2] 0 * idxQ i) /\
  pwl_hessian 1 1 false 2 x == 0 /\ ~ pwl_hessian 1 1 true 2 x == 0.
Proof. cbv zeta. split; [|split; [|split]].
  - intros r [<-|[<-|[<-|[<-|[]]]]]; reflexivity.
  - intros u i Hu Hi. cbn [length] in Hi.
    destruct u as [|[|u]]; [| |lia]; destruct i as [|[|[|[|i]]]]; try lia; vm_compute; reflexivity.
  - vm_compute. reflexivity.
  - vm_compute. discriminate. Qed.

(* ================================================================== *)
(* Sums over all vertices of a lattice                                  *)
(* ================================================================== *)
Lemma sum_all_idx_cons (g : idx -> Q) s sh :
  qsum (map g (all_idx (s :: sh))) ==
  qsum (map (fun k => qsum (map (fun r => g (k :: r)) (all_idx sh))) (seq 0 s)).
Proof. cbn [all_idx]. rewrite qsum_flat_map. apply qsum_map_ext. intros k _. rewrite map_map. reflexivity. Qed.

(* Fubini along dimension d: all vertices = (coordinate k along d) x (the rest) *)
Lemma fubini sh : forall d (g : idx -> Q), (d < length sh)%nat ->
  qsum (map g (all_idx sh)) ==
  qsum (map (fun k => qsum (map (fun r => g (upd r d k)) (all_idx (upd sh d 1%nat)))) (seq 0 (nth d sh 0%nat))).
Proof. induction sh as [|s sh IH]; intros d g Hd; cbn [length] in Hd. lia.
  destruct d as [|d].
  - cbn [upd nth]. rewrite sum_all_idx_cons. apply qsum_map_ext. intros k _.
    rewrite sum_all_idx_cons. cbn [seq map qsum]. cbn [upd]. lra.
  - cbn [upd nth]. rewrite sum_all_idx_cons.
    rewrite (qsum_map_ext _ (fun k0 => qsum (map (fun k => qsum (map (fun r => g (k0 :: upd r d k))
                                   (all_idx (upd sh d 1%nat)))) (seq 0 (nth d sh 0%nat))))).
    2: { intros k0 _. apply (IH d (fun r => g (k0 :: r))). lia. }
    rewrite (qsum_swap (fun k0 k => qsum (map (fun r => g (k0 :: upd r d k)) (all_idx (upd sh d 1%nat))))).
    apply qsum_map_ext. intros k _. rewrite sum_all_idx_cons. cbn [upd]. reflexivity.
Qed.

(* vertices of sizes ++ [n] = vertices of sizes x unit index *)
Lemma sum_all_idx_snoc sh n : forall (G : idx -> Q),
  qsum (map G (all_idx (sh ++ [n]))) ==
  qsum (map (fun u => qsum (map (fun v => G (v ++ [u])) (all_idx sh))) (seq 0 n)).
Proof. induction sh as [|s sh IH]; intros G.
  - cbn [app]. rewrite sum_all_idx_cons. apply qsum_map_ext. intros k _. reflexivity.
  - change ((s :: sh) ++ [n]) with (s :: (sh ++ [n])). rewrite sum_all_idx_cons.
    rewrite (qsum_map_ext _ (fun k => qsum (map (fun u => qsum (map (fun v => G (k :: (v ++ [u]))) (all_idx sh))) (seq 0 n)))).
    2: { intros k _. apply (IH (fun r => G (k :: r))). }
    rewrite (qsum_swap (fun k u => qsum (map (fun v => G (k :: v ++ [u])) (all_idx sh)))).
    apply qsum_map_ext. intros u _. rewrite sum_all_idx_cons. reflexivity. Qed.

Lemma upd_app_l (v t : idx) d k : (d < length v)%nat -> upd (v ++ t) d k = upd v d k ++ t.
Proof. revert d. induction v as [|x v IH]; intros d Hd; cbn [length] in Hd. lia.
  destruct d as [|d]; cbn [app upd]. reflexivity. rewrite IH by lia. reflexivity. Qed.
Lemma valid_app sh i n u : valid sh i -> (u < n)%nat -> valid (sh ++ [n]) (i ++ [u]).
Proof. induction 1; intros Hu; cbn [app]. constructor. exact Hu. constructor. constructor; auto. Qed.
Lemma prod_snoc sh n : fold_right Nat.mul 1%nat (sh ++ [n]) = (fold_right Nat.mul 1%nat sh * n)%nat.
Proof. induction sh as [|s sh IH]; cbn [app fold_right]. lia. rewrite IH. lia. Qed.
Lemma flat_snoc sh i n u : valid sh i -> flat (sh ++ [n]) (i ++ [u]) = (flat sh i * n + u)%nat.
Proof. induction 1; cbn [app flat]. cbn. lia. rewrite IHvalid, prod_snoc. lia. Qed.
Lemma upd_length_sh (sh : list nat) d k : length (upd sh d k) = length sh.
Proof. apply upd_length. Qed.

Lemma nth_repeat_lt (q : Q) n d : (d < n)%nat -> nth d (repeat q n) 0 = q.
Proof. revert d. induction n as [|n IH]; intros d Hd. lia. destruct d; cbn [repeat nth]. reflexivity. apply IH. lia. Qed.

(* ================================================================== *)
(* One dimension: code slicing = sum over the edges along d             *)
(* ================================================================== *)
Definition edge_sum (sh : list nat) (d : nat) (f : Q -> Q) (W : tens) : Q :=
  qsum (map (fun k => qsum (map (fun r => f (W (upd r d (S k)) - W (upd r d k))) (rest_idx sh d)))
            (seq 0 (nth d sh 0%nat - 1))).

Lemma code_dim sh d f W : sum2 f (sl_diff (slices sh d W)) = edge_sum sh d f W.
Proof. unfold sl_diff, slices. rewrite tl_map_seq, removelast_map_seq, map2_map.
  unfold sum2, edge_sum. rewrite map_map. f_equal. apply map_ext. intros k.
  unfold rsub. rewrite map2_map. unfold sum1. rewrite map_map. reflexivity. Qed.

Lemma rest_facts sh d r k : (d < length sh)%nat -> In r (rest_idx sh d) ->
  has_next sh (upd r d k) d = (S k <? nth d sh 0%nat)%nat /\ step (upd r d k) d = upd r d (S k).
Proof. intros Hd Hr. apply all_idx_valid, valid_length in Hr. rewrite upd_length in Hr.
  unfold has_next, step. rewrite nth_upd_same by lia. rewrite upd_upd. split; reflexivity. Qed.

Lemma doc_dim sh d f W : (d < length sh)%nat ->
  qsum (map (fun v => if has_next sh v d then f (W (step v d) - W v) else 0) (all_idx sh)) == edge_sum sh d f W.
Proof. intros Hd. rewrite (fubini sh d _ Hd). unfold edge_sum.
  rewrite <- (qsum_seq_guard (fun k => qsum (map (fun r => f (W (upd r d (S k)) - W (upd r d k))) (rest_idx sh d)))).
  apply qsum_map_ext. intros k _. fold (rest_idx sh d). destruct (S k <? nth d sh 0%nat)%nat eqn:E.
  - apply qsum_map_ext. intros r Hr. destruct (rest_facts sh d r k Hd Hr) as [-> ->]. rewrite E. reflexivity.
  - apply qsum_map_zero_ext. intros r Hr. destruct (rest_facts sh d r k Hd Hr) as [-> _]. rewrite E. reflexivity. Qed.

(* ================================================================== *)
(* Laplacian                                                            *)
(* ================================================================== *)
Definition eff (a : option (list Q)) (d : nat) : Q := match a with Some l => nth d l 0 | None => 0 end.

Lemma dim_off_eff a d : dim_off a d = true -> eff a d == 0.
Proof. destruct a as [l|]; cbn [dim_off eff]. rewrite negb_true_iff. apply nz_false. reflexivity. Qed.

Lemma lap_dim_closed sh a1 a2 W d :
  lap_dim sh a1 a2 W d == eff a1 d * edge_sum sh d qabs W + eff a2 d * edge_sum sh d sq W.
Proof. unfold lap_dim. destruct (dim_off a1 d && dim_off a2 d) eqn:E.
  - apply andb_true_iff in E. destruct E as [E1 E2]. rewrite (dim_off_eff _ _ E1), (dim_off_eff _ _ E2). lra.
  - rewrite !code_dim. destruct a1, a2; cbn [eff]; lra. Qed.

(* the per-dimension closed form (per-dimension amounts weight their own dimension) *)
Lemma lap_core_closed sh a1 a2 W :
  lap_core sh a1 a2 W ==
  qsum (map (fun d => eff a1 d * edge_sum sh d qabs W + eff a2 d * edge_sum sh d sq W) (seq 0 (length sh))).
Proof. unfold lap_core. apply qsum_map_ext. intros d _. apply lap_dim_closed. Qed.

(* documented sum over a tensor: vertices x the first n dimensions *)
Definition lap_term (sh : list nat) (e1 e2 : nat -> Q) (W : tens) (v : idx) (d : nat) : Q :=
  if has_next sh v d then e1 d * qabs (W (step v d) - W v) + e2 d * sq (W (step v d) - W v) else 0.
Definition doc_lap_tens (sh : list nat) (n : nat) (e1 e2 : nat -> Q) (W : tens) : Q :=
  qsum (map (fun v => qsum (map (lap_term sh e1 e2 W v) (seq 0 n))) (all_idx sh)).

Lemma doc_lap_tens_dims sh n e1 e2 W : (n <= length sh)%nat ->
  doc_lap_tens sh n e1 e2 W ==
  qsum (map (fun d => e1 d * edge_sum sh d qabs W + e2 d * edge_sum sh d sq W) (seq 0 n)).
Proof. intros Hn. unfold doc_lap_tens.
  rewrite (qsum_swap (fun v d => lap_term sh e1 e2 W v d)). apply qsum_map_ext. intros d Hd. apply in_seq in Hd.
  rewrite <- !doc_dim by lia. rewrite <- !qsum_map_scale.
  rewrite <- (qsum_map_plus (fun v => e1 d * (if has_next sh v d then qabs (W (step v d) - W v) else 0))
                            (fun v => e2 d * (if has_next sh v d then sq (W (step v d) - W v) else 0))).
  apply qsum_map_ext. intros v _. unfold lap_term. destruct (has_next sh v d); lra. Qed.

Lemma lap_core_doc sh a1 a2 W : lap_core sh a1 a2 W == doc_lap_tens sh (length sh) (eff a1) (eff a2) W.
Proof. rewrite lap_core_closed, doc_lap_tens_dims by lia. reflexivity. Qed.

Lemma doc_lap_tens_drop sh n e1 e2 W : (S n <= length sh)%nat -> e1 n == 0 -> e2 n == 0 ->
  doc_lap_tens sh (S n) e1 e2 W == doc_lap_tens sh n e1 e2 W.
Proof. intros Hn H1 H2. rewrite !doc_lap_tens_dims by lia. rewrite seq_S, map_app, qsum_app. cbn [map qsum Nat.add].
  rewrite H1, H2. lra. Qed.

Lemma doc_lap_tens_ext sh n e1 e2 e1' e2' W W' :
  (forall d, (d < n)%nat -> e1 d == e1' d /\ e2 d == e2' d) -> (forall v, valid sh v -> W v = W' v) ->
  (n <= length sh)%nat ->
  doc_lap_tens sh n e1 e2 W == doc_lap_tens sh n e1' e2' W'.
Proof. intros He HW Hn. unfold doc_lap_tens. apply qsum_map_ext. intros v Hv. apply all_idx_valid in Hv.
  apply qsum_map_ext. intros d Hd. apply in_seq in Hd. unfold lap_term. destruct (has_next sh v d) eqn:E; [|reflexivity].
  assert (Hs : valid sh (step v d)).
  { unfold step. apply upd_valid. exact Hv. unfold has_next in E. apply Nat.ltb_lt in E. exact E. }
  rewrite (HW v Hv), (HW _ Hs). destruct (He d) as [-> ->]. lia. reflexivity. Qed.

Lemma doc_lap_tens_units sizes units e1 e2 W :
  doc_lap_tens (sizes ++ [units]) (length sizes) e1 e2 W ==
  qsum (map (fun u => doc_lap_tens sizes (length sizes) e1 e2 (fun v => W (v ++ [u]))) (seq 0 units)).
Proof. unfold doc_lap_tens at 1. rewrite sum_all_idx_snoc. apply qsum_map_ext. intros u _.
  unfold doc_lap_tens. apply qsum_map_ext. intros v Hv. apply all_idx_valid, valid_length in Hv.
  apply qsum_map_ext. intros d Hd. apply in_seq in Hd. unfold lap_term, has_next, step.
  rewrite !app_nth1 by lia. rewrite upd_app_l by lia. reflexivity. Qed.

(* ------------------------------------------------------------------ *)
(* Glue of laplacian_regularizer                                        *)
(* ------------------------------------------------------------------ *)
(* per-dimension lists must not be longer than the rank (the code checks
   len == rank in LaplacianRegularizer.__init__; [] is accepted and falsy) *)
Definition amount_ok (rank : nat) (a : amount) : Prop :=
  match a with Scalar _ => True | PerDim l => (length l <= rank)%nat end.

Lemma falsy_norm rank a : truthy a = false -> lap_norm rank a = None.
Proof. destruct a as [q|[|x l]]; cbn [truthy lap_norm]; intros H; try rewrite H; try reflexivity. discriminate. Qed.

Lemma lap_core_none sh W : lap_core sh None None W == 0.
Proof. unfold lap_core. apply qsum_map_zero_ext. intros d _. reflexivity. Qed.

(* the early return agrees with the general path *)
Lemma lattice_laplacian_general sizes units l1 l2 w :
  lattice_laplacian sizes units l1 l2 w ==
  if (1 <? units)%nat then
    lap_core (sizes ++ [units]) (append_zero (lap_norm (length sizes) l1)) (append_zero (lap_norm (length sizes) l2))
             (reshape (sizes ++ [units]) w)
  else lap_core sizes (lap_norm (length sizes) l1) (lap_norm (length sizes) l2) (reshape sizes w).
Proof. unfold lattice_laplacian. destruct (negb (truthy l1) && negb (truthy l2)) eqn:E; [|reflexivity].
  apply andb_true_iff in E. destruct E as [E1 E2]. apply negb_true_iff in E1, E2.
  rewrite (falsy_norm _ _ E1), (falsy_norm _ _ E2). cbn [append_zero option_map].
  destruct (1 <? units)%nat; rewrite lap_core_none; reflexivity. Qed.

Lemma eff_norm rank a d : (d < rank)%nat -> eff (lap_norm rank a) d == amt a d.
Proof. intros Hd. destruct a as [q|[|x l]]; cbn [lap_norm amt].
  - destruct (nz q) eqn:E; cbn [eff]. rewrite nth_repeat_lt by exact Hd. reflexivity.
    apply nz_false in E. rewrite E. reflexivity.
  - cbn [eff]. destruct d; reflexivity.
  - reflexivity. Qed.

Lemma nth_app_zero (l : list Q) d : nth d (l ++ [0]) 0 = nth d l 0.
Proof. destruct (Nat.lt_ge_cases d (length l)).
  - apply app_nth1. assumption.
  - rewrite app_nth2 by lia. rewrite (nth_overflow l) by lia. destruct (d - length l)%nat as [|[|n]]; reflexivity. Qed.

Lemma eff_append_zero a d : eff (append_zero a) d = eff a d.
Proof. destruct a as [l|]; cbn [append_zero option_map eff]. apply nth_app_zero. reflexivity. Qed.

Lemma eff_units_dim rank a : amount_ok rank a -> eff (append_zero (lap_norm rank a)) rank == 0.
Proof. intros Hok. rewrite eff_append_zero. destruct a as [q|[|x l]]; cbn [lap_norm].
  - destruct (nz q); cbn [eff]. rewrite nth_overflow by (rewrite repeat_length; lia). reflexivity. reflexivity.
  - reflexivity.
  - cbn [eff]. cbn [amount_ok] in Hok. rewrite nth_overflow by lia. reflexivity. Qed.

Lemma reshape_units sizes units w u v : valid sizes v -> (u < units)%nat ->
  reshape (sizes ++ [units]) w (v ++ [u]) = kernel_at sizes units w u v.
Proof. intros Hv Hu. unfold reshape, of_list. rewrite memo_ok by (apply valid_app; assumption).
  unfold kernel_at. rewrite flat_snoc by exact Hv. reflexivity. Qed.
Lemma reshape_single sizes w v : valid sizes v -> reshape sizes w v = kernel_at sizes 1 w 0 v.
Proof. intros Hv. unfold reshape, of_list. rewrite memo_ok by exact Hv. unfold kernel_at.
  rewrite Nat.mul_1_r, Nat.add_0_r. reflexivity. Qed.

Lemma doc_laplacian_unit_tens sizes l1 l2 K :
  doc_laplacian_unit sizes l1 l2 K = doc_lap_tens sizes (length sizes) (amt l1) (amt l2) K.
Proof. reflexivity. Qed.

(* code-shaped Laplacian == documented sum over adjacent vertex pairs *)
Theorem lattice_laplacian_doc sizes units l1 l2 w :
  (1 <= units)%nat -> amount_ok (length sizes) l1 -> amount_ok (length sizes) l2 ->
  lattice_laplacian sizes units l1 l2 w == doc_laplacian sizes units l1 l2 w.
Proof. intros Hu H1 H2. rewrite lattice_laplacian_general. unfold doc_laplacian.
  destruct (Nat.ltb_spec 1 units) as [Hm|Hm].
  - rewrite lap_core_doc. rewrite app_length. cbn [length]. rewrite Nat.add_1_r.
    rewrite doc_lap_tens_drop by (try rewrite app_length; cbn [length]; try lia; apply eff_units_dim; assumption).
    rewrite doc_lap_tens_units. apply qsum_map_ext. intros u Hi. apply in_seq in Hi.
    rewrite doc_laplacian_unit_tens. apply doc_lap_tens_ext; try lia.
    + intros d Hd. rewrite !eff_append_zero. split; apply eff_norm; exact Hd.
    + intros v Hv. apply reshape_units. exact Hv. lia.
  - assert (units = 1%nat) by lia. subst units. cbn [seq map qsum].
    rewrite lap_core_doc, doc_laplacian_unit_tens.
    rewrite (doc_lap_tens_ext sizes (length sizes) _ _ (amt l1) (amt l2) _ (kernel_at sizes 1 w 0)); try lia. lra.
    + intros d Hd. split; apply eff_norm; exact Hd.
    + intros v Hv. apply reshape_single. exact Hv. Qed.

(* ------------------------------------------------------------------ *)
(* Consequences                                                         *)
(* ------------------------------------------------------------------ *)
Definition amount_nonneg (a : amount) : Prop :=
  match a with Scalar q => 0 <= q | PerDim l => forall x, In x l -> 0 <= x end.

Lemma eff_nonneg rank a d : amount_nonneg a -> 0 <= eff (lap_norm rank a) d.
Proof. intros H. destruct a as [q|[|x l]]; cbn [lap_norm].
  - destruct (nz q); cbn [eff]; [|lra]. cbn [amount_nonneg] in H.
    destruct (Nat.lt_ge_cases d rank). rewrite nth_repeat_lt by assumption. exact H.
    rewrite nth_overflow by (rewrite repeat_length; lia). lra.
  - cbn [eff]. lra.
  - cbn [eff]. destruct (Nat.lt_ge_cases d (length (x :: l))). apply H, nth_In. assumption.
    rewrite nth_overflow by lia. lra. Qed.

Lemma edge_sum_nonneg sh d f W : (forall x, 0 <= f x) -> 0 <= edge_sum sh d f W.
Proof. intros H. unfold edge_sum. apply qsum_map_nonneg. intros k _. apply qsum_map_nonneg. intros r _. apply H. Qed.

Lemma lap_core_nonneg sh a1 a2 W : (forall d, 0 <= eff a1 d) -> (forall d, 0 <= eff a2 d) -> 0 <= lap_core sh a1 a2 W.
Proof. intros H1 H2. rewrite lap_core_closed. apply qsum_map_nonneg. intros d _.
  pose proof (qmul_nonneg _ _ (H1 d) (edge_sum_nonneg sh d qabs W qabs_nonneg)).
  pose proof (qmul_nonneg _ _ (H2 d) (edge_sum_nonneg sh d sq W sq_nonneg)). lra. Qed.

Theorem lattice_laplacian_nonneg sizes units l1 l2 w :
  amount_nonneg l1 -> amount_nonneg l2 -> 0 <= lattice_laplacian sizes units l1 l2 w.
Proof. intros H1 H2. rewrite lattice_laplacian_general.
  destruct (1 <? units)%nat; apply lap_core_nonneg; intros d; rewrite ?eff_append_zero; apply eff_nonneg; assumption. Qed.

(* the tensor the code works on and the number of lattice dimensions *)
Definition lap_shape (sizes : list nat) (units : nat) : list nat := if (1 <? units)%nat then sizes ++ [units] else sizes.

(* per-dimension closed form: amount of dimension d times the l1 / l2 edge sums along d *)
Theorem lattice_laplacian_per_dim sizes units l1 l2 w :
  amount_ok (length sizes) l1 -> amount_ok (length sizes) l2 ->
  lattice_laplacian sizes units l1 l2 w ==
  qsum (map (fun d => amt l1 d * edge_sum (lap_shape sizes units) d qabs (reshape (lap_shape sizes units) w) +
                      amt l2 d * edge_sum (lap_shape sizes units) d sq (reshape (lap_shape sizes units) w))
            (seq 0 (length sizes))).
Proof. intros H1 H2. rewrite lattice_laplacian_general. unfold lap_shape. destruct (1 <? units)%nat.
  - rewrite lap_core_closed. rewrite app_length. cbn [length]. rewrite Nat.add_1_r, seq_S, map_app, qsum_app.
    cbn [map qsum Nat.add]. rewrite !eff_units_dim by assumption.
    rewrite (qsum_map_ext _ (fun d => amt l1 d * edge_sum (sizes ++ [units]) d qabs (reshape (sizes ++ [units]) w) +
                                      amt l2 d * edge_sum (sizes ++ [units]) d sq (reshape (sizes ++ [units]) w))). lra.
    intros d Hd. apply in_seq in Hd. rewrite !eff_append_zero, !eff_norm by lia. reflexivity.
  - rewrite lap_core_closed. apply qsum_map_ext. intros d Hd. apply in_seq in Hd. rewrite !eff_norm by lia. reflexivity. Qed.

(* scalar amounts are broadcast to every dimension *)
Theorem lattice_laplacian_scalar_broadcast sizes units q1 q2 w :
  lattice_laplacian sizes units (Scalar q1) (Scalar q2) w ==
  lattice_laplacian sizes units (PerDim (repeat q1 (length sizes))) (PerDim (repeat q2 (length sizes))) w.
Proof. rewrite !lattice_laplacian_per_dim; cbn [amount_ok]; try rewrite repeat_length; try lia; try exact I.
  apply qsum_map_ext. intros d Hd. apply in_seq in Hd. cbn [amt]. rewrite !nth_repeat_lt by lia. reflexivity. Qed.

(* linear in l1 and l2 *)
Theorem lattice_laplacian_linear sizes units q1 q2 w :
  lattice_laplacian sizes units (Scalar q1) (Scalar q2) w ==
  q1 * lattice_laplacian sizes units (Scalar 1) (Scalar 0) w + q2 * lattice_laplacian sizes units (Scalar 0) (Scalar 1) w.
Proof. rewrite !lattice_laplacian_per_dim by exact I. cbn [amt]. rewrite <- !qsum_map_scale.
  rewrite <- (qsum_map_plus (fun d => q1 * _) (fun d => q2 * _)). apply qsum_map_ext. intros d _. lra. Qed.

Theorem lattice_laplacian_additive sizes units l1 l2 w :
  amount_ok (length sizes) l1 -> amount_ok (length sizes) l2 ->
  lattice_laplacian sizes units l1 l2 w ==
  lattice_laplacian sizes units l1 (Scalar 0) w + lattice_laplacian sizes units (Scalar 0) l2 w.
Proof. intros H1 H2. rewrite !lattice_laplacian_per_dim; try assumption; try exact I. cbn [amt].
  rewrite <- (qsum_map_plus (fun d => amt l1 d * _ + 0 * _) (fun d => 0 * _ + amt l2 d * _)).
  apply qsum_map_ext. intros d _. lra. Qed.

(* per-dimension amounts are linear: scaling and adding the amount vectors *)
Theorem lattice_laplacian_per_dim_linear sizes units (a a' b b' : list Q) (c c' : Q) w :
  length a = length sizes -> length a' = length sizes -> length b = length sizes -> length b' = length sizes ->
  lattice_laplacian sizes units (PerDim (map2 (fun x y => c * x + c' * y) a a'))
                                (PerDim (map2 (fun x y => c * x + c' * y) b b')) w ==
  c * lattice_laplacian sizes units (PerDim a) (PerDim b) w + c' * lattice_laplacian sizes units (PerDim a') (PerDim b') w.
Proof. intros Ha Ha' Hb Hb'.
  rewrite !lattice_laplacian_per_dim; cbn [amount_ok]; try rewrite map2_length; try lia.
  rewrite <- !qsum_map_scale. rewrite <- (qsum_map_plus (fun d => c * _) (fun d => c' * _)).
  apply qsum_map_ext. intros d Hd. apply in_seq in Hd. cbn [amt].
  rewrite !(nth_map2 (fun x y => c * x + c' * y) _ _ d 0 0 0) by lia. lra. Qed.

(* vanishes on constant kernels (per unit) *)
Theorem lattice_laplacian_zero_const sizes units l1 l2 w (cst : nat -> Q) :
  (1 <= units)%nat -> amount_ok (length sizes) l1 -> amount_ok (length sizes) l2 ->
  (forall u v, (u < units)%nat -> valid sizes v -> kernel_at sizes units w u v == cst u) ->
  lattice_laplacian sizes units l1 l2 w == 0.
Proof. intros Hu H1 H2 Hc. rewrite lattice_laplacian_doc by assumption. unfold doc_laplacian.
  apply qsum_map_zero_ext. intros u Hi. apply in_seq in Hi. unfold doc_laplacian_unit.
  apply qsum_map_zero_ext. intros v Hv. apply all_idx_valid in Hv.
  apply qsum_map_zero_ext. intros d Hd. destruct (has_next sizes v d) eqn:E; [|reflexivity].
  assert (Hs : valid sizes (step v d)).
  { unfold step. apply upd_valid. exact Hv. unfold has_next in E. apply Nat.ltb_lt in E. exact E. }
  cbv zeta. rewrite !Hc by (try assumption; lia).
  setoid_replace (cst u - cst u) with 0 by ring. rewrite qabs_0, sq_0. lra. Qed.

(* ================================================================== *)
(* Torsion: one pair of dimensions                                      *)
(* ================================================================== *)
Definition rest2 (sh : list nat) (i j : nat) : list idx := all_idx (upd (upd sh i 1%nat) j 1%nat).
Definition twist (W : tens) (r : idx) (i j a b : nat) : Q :=
  W (upd (upd r i a) j b) + W (upd (upd r i (S a)) j (S b)) - W (upd (upd r i a) j (S b)) - W (upd (upd r i (S a)) j b).
Definition twist_sum (sh : list nat) (i j : nat) (f : Q -> Q) (W : tens) : Q :=
  qsum (map (fun a => qsum (map (fun b => qsum (map (fun r => f (twist W r i j a b)) (rest2 sh i j)))
                                (seq 0 (nth j sh 0%nat - 1)))) (seq 0 (nth i sh 0%nat - 1))).

Lemma op3_map {A B C} (f : Q -> Q -> Q) (X Y : A -> B -> C -> Q) la lb lc :
  op3 f (map (fun a => map (fun b => map (X a b) lc) lb) la) (map (fun a => map (fun b => map (Y a b) lc) lb) la)
  = map (fun a => map (fun b => map (fun c => f (X a b c) (Y a b c)) lc) lb) la.
Proof. unfold op3. rewrite map2_map. apply map_ext; intros a. rewrite map2_map. apply map_ext; intros b. apply map2_map. Qed.

Lemma twist_block_map {C} (X : nat -> nat -> C -> Q) ni nj (lc : list C) :
  twist_block (map (fun a => map (fun b => map (X a b) lc) (seq 0 nj)) (seq 0 ni)) =
  map (fun a => map (fun b => map (fun c => X a b c + X (S a) (S b) c - X a (S b) c - X (S a) b c) lc)
                    (seq 0 (nj - 1))) (seq 0 (ni - 1)).
Proof. unfold twist_block. rewrite removelast_map_seq, tl_map_seq, !map_map.
  rewrite (map_ext (fun a => removelast (map (fun b => map (X a b) lc) (seq 0 nj)))
                   (fun a => map (fun b => map (X a b) lc) (seq 0 (nj - 1))))
    by (intros a; apply removelast_map_seq).
  rewrite (map_ext (fun a => tl (map (fun b => map (X a b) lc) (seq 0 nj)))
                   (fun a => map (fun b => map (X a (S b)) lc) (seq 0 (nj - 1))))
    by (intros a; apply (tl_map_seq (fun b => map (X a b) lc))).
  rewrite (map_ext (fun a => removelast (map (fun b => map (X (S a) b) lc) (seq 0 nj)))
                   (fun a => map (fun b => map (X (S a) b) lc) (seq 0 (nj - 1))))
    by (intros a; apply removelast_map_seq).
  rewrite (map_ext (fun a => tl (map (fun b => map (X (S a) b) lc) (seq 0 nj)))
                   (fun a => map (fun b => map (X (S a) (S b)) lc) (seq 0 (nj - 1))))
    by (intros a; apply (tl_map_seq (fun b => map (X (S a) b) lc))).
  rewrite (op3_map Qplus (fun a b => X a b) (fun a b => X (S a) (S b))).
  rewrite (op3_map Qminus (fun a b c => X a b c + X (S a) (S b) c) (fun a b => X a (S b))).
  rewrite (op3_map Qminus (fun a b c => X a b c + X (S a) (S b) c - X a (S b) c) (fun a b => X (S a) b)).
  reflexivity. Qed.

Lemma code_pair sh i j f W : sum3 f (twist_block (planes sh i j W)) = twist_sum sh i j f W.
Proof. unfold planes. rewrite (twist_block_map (fun a b r => W (upd (upd r i a) j b))).
  unfold sum3, twist_sum. rewrite map_map. f_equal. apply map_ext. intros a.
  unfold sum2. rewrite map_map. f_equal. apply map_ext. intros b.
  unfold sum1. rewrite map_map. reflexivity. Qed.

Lemma rest2_facts sh i j r a b : i <> j -> (i < length sh)%nat -> (j < length sh)%nat -> In r (rest2 sh i j) ->
  let v := upd (upd r j b) i a in
  has_next sh v i = (S a <? nth i sh 0%nat)%nat /\ has_next sh v j = (S b <? nth j sh 0%nat)%nat /\
  v = upd (upd r i a) j b /\ step v i = upd (upd r i (S a)) j b /\ step v j = upd (upd r i a) j (S b) /\
  step (step v i) j = upd (upd r i (S a)) j (S b).
Proof. intros Hij Hi Hj Hr v. apply all_idx_valid, valid_length in Hr. rewrite !upd_length in Hr.
  assert (Hvi : nth i v 0%nat = a) by (unfold v; apply nth_upd_same; rewrite upd_length; lia).
  assert (Hvj : nth j v 0%nat = b).
  { unfold v. rewrite nth_upd_other by exact Hij. apply nth_upd_same. lia. }
  assert (Hsi : step v i = upd (upd r i (S a)) j b).
  { unfold step. rewrite Hvi. unfold v. rewrite upd_upd. apply upd_comm. congruence. }
  unfold has_next. rewrite Hvi, Hvj. repeat split.
  - unfold v. apply upd_comm. congruence.
  - exact Hsi.
  - unfold step. rewrite Hvj. unfold v. rewrite (upd_comm r j i) by congruence. apply upd_upd.
  - rewrite Hsi. unfold step. rewrite nth_upd_same by (rewrite upd_length; lia). apply upd_upd. Qed.

Definition twist_at (W : tens) (v : idx) (i j : nat) : Q := W v + W (step (step v i) j) - W (step v i) - W (step v j).

Lemma doc_pair sh i j f W : Proper (Qeq ==> Qeq) f -> i <> j -> (i < length sh)%nat -> (j < length sh)%nat ->
  qsum (map (fun v => if has_next sh v i && has_next sh v j then f (twist_at W v i j) else 0) (all_idx sh))
  == twist_sum sh i j f W.
Proof. intros Hf Hij Hi Hj. rewrite (fubini sh i _ Hi). unfold twist_sum.
  rewrite <- (qsum_seq_guard (fun a => qsum (map (fun b => qsum (map (fun r => f (twist W r i j a b)) (rest2 sh i j)))
                                               (seq 0 (nth j sh 0%nat - 1))))).
  apply qsum_map_ext. intros a _.
  rewrite (fubini (upd sh i 1%nat) j) by (rewrite upd_length; exact Hj).
  rewrite (nth_upd_other sh i j 1%nat Hij). fold (rest2 sh i j).
  destruct (S a <? nth i sh 0%nat)%nat eqn:Ea.
  - rewrite <- (qsum_seq_guard (fun b => qsum (map (fun r => f (twist W r i j a b)) (rest2 sh i j)))).
    apply qsum_map_ext. intros b _. destruct (S b <? nth j sh 0%nat)%nat eqn:Eb.
    + apply qsum_map_ext. intros r Hr.
      destruct (rest2_facts sh i j r a b Hij Hi Hj Hr) as (H1 & H2 & H3 & H4 & H5 & H6).
      rewrite H1, H2, Ea, Eb. cbn [andb]. unfold twist_at. rewrite H6, H4, H5, H3. apply Hf. unfold twist. ring.
    + apply qsum_map_zero_ext. intros r Hr.
      destruct (rest2_facts sh i j r a b Hij Hi Hj Hr) as (H1 & H2 & _).
      rewrite H1, H2, Ea, Eb. reflexivity.
  - apply qsum_map_zero_ext. intros b _. apply qsum_map_zero_ext. intros r Hr.
    destruct (rest2_facts sh i j r a b Hij Hi Hj Hr) as (H1 & H2 & _).
    rewrite H1, Ea. reflexivity. Qed.

(* ================================================================== *)
(* The loop over pairs                                                  *)
(* ================================================================== *)
Lemma pair_off_weight t i j : pair_off t i j = true -> pair_weight t i j == 0.
Proof. destruct t as [|q r|l]; cbn [pair_off pair_weight]; intros H.
  - reflexivity.
  - apply negb_true_iff in H. rewrite H. reflexivity.
  - apply orb_true_iff in H. destruct H as [H|H]; apply negb_true_iff, nz_false in H; rewrite H; ring. Qed.

Definition pair_form (sh : list nat) (p1 p2 : nat -> nat -> Q) (W : tens) (i j : nat) : Q :=
  p1 i j * twist_sum sh i j qabs W + p2 i j * twist_sum sh i j sq W.

Lemma tors_pair_closed sh t1 t2 W i j :
  tors_pair sh t1 t2 W (i, j) == pair_form sh (pair_weight t1) (pair_weight t2) W i j.
Proof. unfold tors_pair, pair_form. destruct (pair_off t1 i j && pair_off t2 i j) eqn:E.
  - apply andb_true_iff in E. destruct E as [E1 E2]. rewrite (pair_off_weight _ _ _ E1), (pair_off_weight _ _ _ E2). lra.
  - rewrite !code_pair. destruct t1, t2; cbn [pair_weight]; lra. Qed.

(* sum over dim_pairs = sum over i, j with i < j *)
Lemma guard_inner (X : nat -> Q) i n : (i < n)%nat ->
  qsum (map (fun j => if (i <? j)%nat then X j else 0) (seq 0 n)) == qsum (map X (seq (S i) (n - S i))).
Proof. intros Hi. replace n with (S i + (n - S i))%nat at 1 by lia. rewrite seq_app, map_app, qsum_app.
  rewrite (qsum_map_zero_ext _ (seq 0 (S i))).
  - rewrite (qsum_map_ext _ X (seq (0 + S i) (n - S i))). cbn [Nat.add]. lra.
    intros j Hj. apply in_seq in Hj. destruct (Nat.ltb_spec i j). reflexivity. lia.
  - intros j Hj. apply in_seq in Hj. destruct (Nat.ltb_spec i j). lia. reflexivity. Qed.

Lemma pairs_sum (X : nat -> nat -> Q) n :
  qsum (map (fun ij => X (fst ij) (snd ij)) (dim_pairs n)) ==
  qsum (map (fun i => qsum (map (fun j => if (i <? j)%nat then X i j else 0) (seq 0 n))) (seq 0 n)).
Proof. unfold dim_pairs. rewrite qsum_flat_map. destruct n as [|n]. reflexivity.
  replace (S n - 1)%nat with n by lia.
  rewrite (qsum_seq_S (fun i => qsum (map (fun j => if (i <? j)%nat then X i j else 0) (seq 0 (S n)))) n).
  rewrite (qsum_map_zero_ext (fun j => if (n <? j)%nat then X n j else 0)).
  2: { intros j Hj. apply in_seq in Hj. destruct (Nat.ltb_spec n j). lia. reflexivity. }
  rewrite (qsum_map_ext _ (fun i => qsum (map (fun j => if (i <? j)%nat then X i j else 0) (seq 0 (S n))))).
  lra. intros i Hi. apply in_seq in Hi. rewrite map_map. cbn [fst snd].
  rewrite guard_inner by lia. reflexivity. Qed.

Lemma tors_core_closed sh t1 t2 W :
  tors_core sh t1 t2 W ==
  qsum (map (fun i => qsum (map (fun j => if (i <? j)%nat then pair_form sh (pair_weight t1) (pair_weight t2) W i j else 0)
                                (seq 0 (length sh)))) (seq 0 (length sh))).
Proof. unfold tors_core. rewrite <- (pairs_sum (pair_form sh (pair_weight t1) (pair_weight t2) W)).
  apply qsum_map_ext. intros [i j] _. apply tors_pair_closed. Qed.

(* pairs that involve dimension n carry weight 0: they can be dropped *)
Lemma guard_sum_drop (X : nat -> nat -> Q) n : (forall i, X i n == 0) ->
  qsum (map (fun i => qsum (map (fun j => if (i <? j)%nat then X i j else 0) (seq 0 (S n)))) (seq 0 (S n))) ==
  qsum (map (fun i => qsum (map (fun j => if (i <? j)%nat then X i j else 0) (seq 0 n))) (seq 0 n)).
Proof. intros H0.
  rewrite (qsum_seq_S (fun i => qsum (map (fun j => if (i <? j)%nat then X i j else 0) (seq 0 (S n)))) n).
  rewrite (qsum_map_zero_ext (fun j => if (n <? j)%nat then X n j else 0)).
  2: { intros j Hj. apply in_seq in Hj. destruct (Nat.ltb_spec n j). lia. reflexivity. }
  rewrite (qsum_map_ext _ (fun i => qsum (map (fun j => if (i <? j)%nat then X i j else 0) (seq 0 n)))). lra.
  intros i _. rewrite (qsum_seq_S (fun j => if (i <? j)%nat then X i j else 0) n). destruct (i <? n)%nat; [rewrite H0|]; lra. Qed.

(* ================================================================== *)
(* Documented sum over a tensor                                         *)
(* ================================================================== *)
Definition tors_term (sh : list nat) (p1 p2 : nat -> nat -> Q) (W : tens) (v : idx) (i j : nat) : Q :=
  if (i <? j)%nat && has_next sh v i && has_next sh v j then
    p1 i j * qabs (twist_at W v i j) + p2 i j * sq (twist_at W v i j)
  else 0.
Definition doc_tors_tens (sh : list nat) (n : nat) (p1 p2 : nat -> nat -> Q) (W : tens) : Q :=
  qsum (map (fun v => qsum (map (fun i => qsum (map (fun j => tors_term sh p1 p2 W v i j) (seq 0 n))) (seq 0 n)))
            (all_idx sh)).

Lemma doc_tors_tens_pairs sh n p1 p2 W : (n <= length sh)%nat ->
  doc_tors_tens sh n p1 p2 W ==
  qsum (map (fun i => qsum (map (fun j => if (i <? j)%nat then pair_form sh p1 p2 W i j else 0) (seq 0 n))) (seq 0 n)).
Proof. intros Hn. unfold doc_tors_tens.
  rewrite (qsum_swap (fun v i => qsum (map (fun j => tors_term sh p1 p2 W v i j) (seq 0 n)))).
  apply qsum_map_ext. intros i Hi. apply in_seq in Hi.
  rewrite (qsum_swap (fun v j => tors_term sh p1 p2 W v i j)).
  apply qsum_map_ext. intros j Hj. apply in_seq in Hj. unfold tors_term.
  destruct (Nat.ltb_spec i j) as [Hlt|Hge]; cbn [andb].
  - unfold pair_form. rewrite <- (doc_pair sh i j qabs), <- (doc_pair sh i j sq) by (try lia; auto with typeclass_instances). rewrite <- !qsum_map_scale.
    rewrite <- (qsum_map_plus
      (fun v => p1 i j * (if has_next sh v i && has_next sh v j then qabs (twist_at W v i j) else 0))
      (fun v => p2 i j * (if has_next sh v i && has_next sh v j then sq (twist_at W v i j) else 0))).
    apply qsum_map_ext. intros v _. destruct (has_next sh v i && has_next sh v j); lra.
  - apply qsum_map_zero. Qed.

Lemma tors_core_doc sh t1 t2 W :
  tors_core sh t1 t2 W == doc_tors_tens sh (length sh) (pair_weight t1) (pair_weight t2) W.
Proof. rewrite tors_core_closed, doc_tors_tens_pairs by lia. reflexivity. Qed.

Lemma doc_tors_tens_drop sh n p1 p2 W : (S n <= length sh)%nat ->
  (forall i, p1 i n == 0) -> (forall i, p2 i n == 0) ->
  doc_tors_tens sh (S n) p1 p2 W == doc_tors_tens sh n p1 p2 W.
Proof. intros Hn H1 H2. rewrite !doc_tors_tens_pairs by lia. apply guard_sum_drop.
  intros i. unfold pair_form. rewrite H1, H2. lra. Qed.

Lemma step_valid sh v d : valid sh v -> has_next sh v d = true -> valid sh (step v d).
Proof. intros Hv E. unfold step. apply upd_valid. exact Hv. unfold has_next in E. apply Nat.ltb_lt in E. exact E. Qed.
Lemma has_next_step sh v i j : i <> j -> has_next sh (step v i) j = has_next sh v j.
Proof. intros Hij. unfold has_next, step. rewrite nth_upd_other by exact Hij. reflexivity. Qed.

Lemma doc_tors_tens_ext sh n p1 p2 p1' p2' W W' :
  (forall i j, (i < n)%nat -> (j < n)%nat -> p1 i j == p1' i j /\ p2 i j == p2' i j) ->
  (forall v, valid sh v -> W v = W' v) ->
  doc_tors_tens sh n p1 p2 W == doc_tors_tens sh n p1' p2' W'.
Proof. intros Hp HW. unfold doc_tors_tens. apply qsum_map_ext. intros v Hv. apply all_idx_valid in Hv.
  apply qsum_map_ext. intros i Hi. apply in_seq in Hi. apply qsum_map_ext. intros j Hj. apply in_seq in Hj.
  unfold tors_term. destruct (Nat.ltb_spec i j) as [Hlt|Hge]; cbn [andb]; [|reflexivity].
  destruct (has_next sh v i) eqn:Ei; cbn [andb]; [|reflexivity].
  destruct (has_next sh v j) eqn:Ej; [|reflexivity].
  assert (Hsi : valid sh (step v i)) by (apply step_valid; assumption).
  assert (Hsj : valid sh (step v j)) by (apply step_valid; assumption).
  assert (Hsij : valid sh (step (step v i) j)).
  { apply step_valid. exact Hsi. rewrite has_next_step by lia. exact Ej. }
  unfold twist_at. rewrite (HW v Hv), (HW _ Hsi), (HW _ Hsj), (HW _ Hsij).
  destruct (Hp i j) as [-> ->]; try lia. reflexivity. Qed.

Lemma doc_tors_tens_units sizes units p1 p2 W :
  doc_tors_tens (sizes ++ [units]) (length sizes) p1 p2 W ==
  qsum (map (fun u => doc_tors_tens sizes (length sizes) p1 p2 (fun v => W (v ++ [u]))) (seq 0 units)).
Proof. unfold doc_tors_tens at 1. rewrite sum_all_idx_snoc. apply qsum_map_ext. intros u _.
  unfold doc_tors_tens. apply qsum_map_ext. intros v Hv. apply all_idx_valid, valid_length in Hv.
  apply qsum_map_ext. intros i Hi. apply in_seq in Hi. apply qsum_map_ext. intros j Hj. apply in_seq in Hj.
  unfold tors_term, twist_at, has_next, step.
  repeat (rewrite ?app_nth1 by (rewrite ?upd_length; lia); rewrite ?upd_app_l by (rewrite ?upd_length; lia)).
  reflexivity. Qed.

(* ------------------------------------------------------------------ *)
(* Glue of torsion_regularizer                                          *)
(* ------------------------------------------------------------------ *)
Lemma falsy_tnorm rank a : truthy a = false -> tors_norm rank a = TNone.
Proof. destruct a as [q|[|x l]]; cbn [truthy tors_norm]; intros H; try rewrite H; try reflexivity. discriminate. Qed.

Lemma tors_core_none sh W : tors_core sh TNone TNone W == 0.
Proof. unfold tors_core. apply qsum_map_zero_ext. intros [i j] _. reflexivity. Qed.

Lemma lattice_torsion_general sizes units l1 l2 w : length sizes <> 1%nat ->
  lattice_torsion sizes units l1 l2 w ==
  if (1 <? units)%nat then
    tors_core (sizes ++ [units]) (tors_append_zero (tors_norm (length sizes) l1))
              (tors_append_zero (tors_norm (length sizes) l2)) (reshape (sizes ++ [units]) w)
  else tors_core sizes (tors_norm (length sizes) l1) (tors_norm (length sizes) l2) (reshape sizes w).
Proof. intros Hr. unfold lattice_torsion. destruct (Nat.eqb_spec (length sizes) 1). contradiction. cbn [orb].
  destruct (negb (truthy l1) && negb (truthy l2)) eqn:E; [|reflexivity].
  apply andb_true_iff in E. destruct E as [E1 E2]. apply negb_true_iff in E1, E2.
  rewrite (falsy_tnorm _ _ E1), (falsy_tnorm _ _ E2). cbn [tors_append_zero].
  destruct (1 <? units)%nat; rewrite tors_core_none; reflexivity. Qed.

Lemma pw_norm rank a i j : (i < rank)%nat -> (j < rank)%nat -> pair_weight (tors_norm rank a) i j == pair_amt a i j.
Proof. intros Hi Hj. destruct a as [q|[|x l]]; cbn [tors_norm pair_amt].
  - destruct (nz q) eqn:E; cbn [pair_weight].
    + destruct (Nat.ltb_spec i rank); [|lia]. destruct (Nat.ltb_spec j rank); [|lia]. reflexivity.
    + apply nz_false in E. rewrite E. reflexivity.
  - cbn [pair_weight]. destruct i, j; cbn [nth]; ring.
  - reflexivity. Qed.

Lemma pw_append_zero t i j : pair_weight (tors_append_zero t) i j = pair_weight t i j.
Proof. destruct t as [|q r|l]; cbn [tors_append_zero pair_weight]; try reflexivity. rewrite !nth_app_zero. reflexivity. Qed.

Lemma pw_units_dim rank a i : amount_ok rank a -> pair_weight (tors_append_zero (tors_norm rank a)) i rank == 0.
Proof. intros Hok. rewrite pw_append_zero. destruct a as [q|[|x l]]; cbn [tors_norm].
  - destruct (nz q); cbn [pair_weight]; [|reflexivity]. rewrite Nat.ltb_irrefl, andb_false_r. reflexivity.
  - reflexivity.
  - cbn [pair_weight]. cbn [amount_ok] in Hok. rewrite (@nth_overflow Q (x :: l) rank 0) by lia. ring. Qed.

Lemma doc_torsion_unit_tens sizes l1 l2 K :
  doc_torsion_unit sizes l1 l2 K = doc_tors_tens sizes (length sizes) (pair_amt l1) (pair_amt l2) K.
Proof. reflexivity. Qed.

Lemma doc_torsion_rank1 sizes units l1 l2 w : length sizes = 1%nat -> doc_torsion sizes units l1 l2 w == 0.
Proof. intros Hr. unfold doc_torsion, doc_torsion_unit. rewrite Hr.
  apply qsum_map_zero_ext. intros u _. apply qsum_map_zero_ext. intros v _. cbn [seq map qsum].
  rewrite Nat.ltb_irrefl. cbn [andb]. lra. Qed.

(* code-shaped torsion == documented sum over 2x2 squares *)
Theorem lattice_torsion_doc sizes units l1 l2 w :
  (1 <= units)%nat -> amount_ok (length sizes) l1 -> amount_ok (length sizes) l2 ->
  lattice_torsion sizes units l1 l2 w == doc_torsion sizes units l1 l2 w.
Proof. intros Hu H1 H2. destruct (Nat.eq_dec (length sizes) 1) as [Hr|Hr].
  { rewrite doc_torsion_rank1 by exact Hr. unfold lattice_torsion. rewrite Hr. reflexivity. }
  rewrite lattice_torsion_general by exact Hr. unfold doc_torsion.
  destruct (Nat.ltb_spec 1 units) as [Hm|Hm].
  - rewrite tors_core_doc. rewrite app_length. cbn [length]. rewrite Nat.add_1_r.
    rewrite doc_tors_tens_drop by (try rewrite app_length; cbn [length]; try lia; intros i; apply pw_units_dim; assumption).
    rewrite doc_tors_tens_units. apply qsum_map_ext. intros u Hi. apply in_seq in Hi.
    rewrite doc_torsion_unit_tens. apply doc_tors_tens_ext.
    + intros i j Hi' Hj'. rewrite !pw_append_zero. split; apply pw_norm; assumption.
    + intros v Hv. apply reshape_units. exact Hv. lia.
  - assert (units = 1%nat) by lia. subst units. cbn [seq map qsum].
    rewrite tors_core_doc, doc_torsion_unit_tens.
    rewrite (doc_tors_tens_ext sizes (length sizes) _ _ (pair_amt l1) (pair_amt l2) _ (kernel_at sizes 1 w 0)). lra.
    + intros i j Hi' Hj'. split; apply pw_norm; assumption.
    + intros v Hv. apply reshape_single. exact Hv. Qed.

(* ------------------------------------------------------------------ *)
(* Consequences                                                         *)
(* ------------------------------------------------------------------ *)
Lemma nth_nonneg (l : list Q) i : (forall x, In x l -> 0 <= x) -> 0 <= nth i l 0.
Proof. intros H. destruct (Nat.lt_ge_cases i (length l)). apply H, nth_In. assumption. rewrite nth_overflow by lia. lra. Qed.

Lemma pw_nonneg rank a i j : amount_nonneg a -> 0 <= pair_weight (tors_norm rank a) i j.
Proof. intros H. destruct a as [q|[|x l]]; cbn [tors_norm].
  - destruct (nz q); cbn [pair_weight]; [|lra]. cbn [amount_nonneg] in H. destruct ((i <? rank)%nat && (j <? rank)%nat); lra.
  - cbn [pair_weight]. lra.
  - cbn [pair_weight]. apply qmul_nonneg; apply nth_nonneg; exact H. Qed.

Lemma twist_sum_nonneg sh i j f W : (forall x, 0 <= f x) -> 0 <= twist_sum sh i j f W.
Proof. intros H. unfold twist_sum. apply qsum_map_nonneg. intros a _. apply qsum_map_nonneg. intros b _.
  apply qsum_map_nonneg. intros r _. apply H. Qed.

Lemma tors_core_nonneg sh t1 t2 W : (forall i j, 0 <= pair_weight t1 i j) -> (forall i j, 0 <= pair_weight t2 i j) ->
  0 <= tors_core sh t1 t2 W.
Proof. intros H1 H2. rewrite tors_core_closed. apply qsum_map_nonneg. intros i _. apply qsum_map_nonneg. intros j _.
  destruct (i <? j)%nat; [|lra]. unfold pair_form.
  pose proof (qmul_nonneg _ _ (H1 i j) (twist_sum_nonneg sh i j qabs W qabs_nonneg)).
  pose proof (qmul_nonneg _ _ (H2 i j) (twist_sum_nonneg sh i j sq W sq_nonneg)). lra. Qed.

Theorem lattice_torsion_nonneg sizes units l1 l2 w :
  amount_nonneg l1 -> amount_nonneg l2 -> 0 <= lattice_torsion sizes units l1 l2 w.
Proof. intros H1 H2. destruct (Nat.eq_dec (length sizes) 1) as [Hr|Hr].
  { unfold lattice_torsion. rewrite Hr. cbn. lra. }
  rewrite lattice_torsion_general by exact Hr.
  destruct (1 <? units)%nat; apply tors_core_nonneg; intros i j; rewrite ?pw_append_zero; apply pw_nonneg; assumption. Qed.

(* closed form over the pairs of lattice dimensions: the pair (i, j) is weighted
   by the product of the two per-dimension amounts (a scalar amount weights
   every pair by itself) *)
Theorem lattice_torsion_pairs sizes units l1 l2 w :
  amount_ok (length sizes) l1 -> amount_ok (length sizes) l2 ->
  lattice_torsion sizes units l1 l2 w ==
  qsum (map (fun ij => pair_form (lap_shape sizes units) (pair_amt l1) (pair_amt l2)
                                 (reshape (lap_shape sizes units) w) (fst ij) (snd ij))
            (dim_pairs (length sizes))).
Proof. intros H1 H2. destruct (Nat.eq_dec (length sizes) 1) as [Hr|Hr].
  { unfold lattice_torsion. rewrite Hr. reflexivity. }
  rewrite lattice_torsion_general by exact Hr. rewrite pairs_sum. unfold lap_shape. destruct (1 <? units)%nat.
  - rewrite tors_core_closed. rewrite app_length. cbn [length]. rewrite Nat.add_1_r.
    rewrite (guard_sum_drop (pair_form _ _ _ _)).
    2: { intros i. unfold pair_form. rewrite !pw_units_dim by assumption. lra. }
    apply qsum_map_ext. intros i Hi. apply in_seq in Hi. apply qsum_map_ext. intros j Hj. apply in_seq in Hj.
    destruct (i <? j)%nat; [|reflexivity]. unfold pair_form. rewrite !pw_append_zero, !pw_norm by lia. reflexivity.
  - rewrite tors_core_closed.
    apply qsum_map_ext. intros i Hi. apply in_seq in Hi. apply qsum_map_ext. intros j Hj. apply in_seq in Hj.
    destruct (i <? j)%nat; [|reflexivity]. unfold pair_form. rewrite !pw_norm by lia. reflexivity. Qed.

Lemma dim_pairs_bound n i j : In (i, j) (dim_pairs n) -> (i < j)%nat /\ (j < n)%nat.
Proof. unfold dim_pairs. rewrite in_flat_map. intros [i' [Hi' H]]. apply in_map_iff in H. destruct H as [j' [E Hj']].
  inversion E; subst. apply in_seq in Hi', Hj'. lia. Qed.

(* the scalar amount: the code uses [sqrt(l)] * rank; any exact root s gives the model's value *)
Theorem tors_sqrt_oracle sizes units (s1 s2 q1 q2 : Q) w : s1 * s1 == q1 -> s2 * s2 == q2 ->
  lattice_torsion sizes units (PerDim (repeat s1 (length sizes))) (PerDim (repeat s2 (length sizes))) w ==
  lattice_torsion sizes units (Scalar q1) (Scalar q2) w.
Proof. intros E1 E2. rewrite !lattice_torsion_pairs; cbn [amount_ok]; try rewrite repeat_length; try lia; try exact I.
  apply qsum_map_ext. intros [i j] Hij. apply dim_pairs_bound in Hij. cbn [fst snd]. unfold pair_form. cbn [pair_amt].
  rewrite !nth_repeat_lt by lia. rewrite E1, E2. reflexivity. Qed.

Theorem lattice_torsion_linear sizes units q1 q2 w :
  lattice_torsion sizes units (Scalar q1) (Scalar q2) w ==
  q1 * lattice_torsion sizes units (Scalar 1) (Scalar 0) w + q2 * lattice_torsion sizes units (Scalar 0) (Scalar 1) w.
Proof. rewrite !lattice_torsion_pairs by exact I. rewrite <- !qsum_map_scale.
  rewrite <- (qsum_map_plus (fun ij => q1 * _) (fun ij => q2 * _)). apply qsum_map_ext. intros ij _.
  unfold pair_form. cbn [pair_amt]. lra. Qed.

Theorem lattice_torsion_additive sizes units l1 l2 w :
  amount_ok (length sizes) l1 -> amount_ok (length sizes) l2 ->
  lattice_torsion sizes units l1 l2 w ==
  lattice_torsion sizes units l1 (Scalar 0) w + lattice_torsion sizes units (Scalar 0) l2 w.
Proof. intros H1 H2. rewrite !lattice_torsion_pairs; try assumption; try exact I.
  rewrite <- (qsum_map_plus (fun ij => pair_form _ _ _ _ (fst ij) (snd ij)) (fun ij => pair_form _ _ _ _ (fst ij) (snd ij))).
  apply qsum_map_ext. intros ij _. unfold pair_form. cbn [pair_amt]. lra. Qed.

(* ------------------------------------------------------------------ *)
(* Torsion vanishes on additively separable kernels                     *)
(* ------------------------------------------------------------------ *)
Lemma qsum_indicator (c : Q) i n : (i < n)%nat ->
  qsum (map (fun d => if (d =? i)%nat then c else 0) (seq 0 n)) == c.
Proof. induction n as [|n IH]; intros Hi. lia. rewrite qsum_seq_S. destruct (Nat.eqb_spec n i) as [E|E].
  - rewrite qsum_map_zero_ext. lra. intros d Hd. apply in_seq in Hd. destruct (Nat.eqb_spec d i). lia. reflexivity.
  - rewrite IH by lia. lra. Qed.

Definition sep_sum (f : nat -> nat -> Q) (rank : nat) (v : idx) : Q :=
  qsum (map (fun d => f d (nth d v 0%nat)) (seq 0 rank)).

Lemma sep_step f rank v j : (j < rank)%nat -> (j < length v)%nat ->
  sep_sum f rank (step v j) - sep_sum f rank v == f j (S (nth j v 0%nat)) - f j (nth j v 0%nat).
Proof. intros Hj Hl. unfold sep_sum.
  rewrite <- (qsum_indicator (f j (S (nth j v 0%nat)) - f j (nth j v 0%nat)) j rank Hj).
  setoid_replace (qsum (map (fun d => f d (nth d (step v j) 0%nat)) (seq 0 rank)) -
                  qsum (map (fun d => f d (nth d v 0%nat)) (seq 0 rank)))
    with (qsum (map (fun d => f d (nth d (step v j) 0%nat) + (-1) * f d (nth d v 0%nat)) (seq 0 rank))).
  2: { rewrite (qsum_map_plus (fun d => f d (nth d (step v j) 0%nat)) (fun d => (-1) * f d (nth d v 0%nat))).
       rewrite qsum_map_scale. lra. }
  apply qsum_map_ext. intros d _. unfold step. destruct (Nat.eqb_spec d j) as [->|E].
  - rewrite nth_upd_same by exact Hl. lra.
  - rewrite nth_upd_other by congruence. lra. Qed.

Theorem lattice_torsion_zero_separable sizes units l1 l2 w (f : nat -> nat -> nat -> Q) :
  (1 <= units)%nat -> amount_ok (length sizes) l1 -> amount_ok (length sizes) l2 ->
  (forall u v, (u < units)%nat -> valid sizes v -> kernel_at sizes units w u v == sep_sum (f u) (length sizes) v) ->
  lattice_torsion sizes units l1 l2 w == 0.
Proof. intros Hu H1 H2 Hs. rewrite lattice_torsion_doc by assumption. unfold doc_torsion.
  apply qsum_map_zero_ext. intros u Hi. apply in_seq in Hi. unfold doc_torsion_unit.
  apply qsum_map_zero_ext. intros v Hv. apply all_idx_valid in Hv.
  apply qsum_map_zero_ext. intros i Hi'. apply in_seq in Hi'.
  apply qsum_map_zero_ext. intros j Hj'. apply in_seq in Hj'.
  destruct (Nat.ltb_spec i j) as [Hlt|Hge]; cbn [andb]; [|reflexivity].
  destruct (has_next sizes v i) eqn:Ei; cbn [andb]; [|reflexivity].
  destruct (has_next sizes v j) eqn:Ej; [|reflexivity].
  assert (Hsi : valid sizes (step v i)) by (apply step_valid; assumption).
  assert (Hsj : valid sizes (step v j)) by (apply step_valid; assumption).
  assert (Hsij : valid sizes (step (step v i) j)).
  { apply step_valid. exact Hsi. rewrite has_next_step by lia. exact Ej. }
  cbv zeta. rewrite !Hs by (try assumption; lia).
  pose proof (valid_length _ _ Hv) as Hl. pose proof (valid_length _ _ Hsi) as Hl'.
  pose proof (sep_step (f u) (length sizes) v j ltac:(lia) ltac:(lia)) as E1.
  pose proof (sep_step (f u) (length sizes) (step v i) j ltac:(lia) ltac:(lia)) as E2.
  assert (E3 : nth j (step v i) 0%nat = nth j v 0%nat) by (unfold step; apply nth_upd_other; lia).
  rewrite E3 in E2.
  setoid_replace (sep_sum (f u) (length sizes) v + sep_sum (f u) (length sizes) (step (step v i) j) -
                  sep_sum (f u) (length sizes) (step v i) - sep_sum (f u) (length sizes) (step v j)) with 0 by lra.
  rewrite qabs_0, sq_0. lra. Qed.
