(* C14, additions after the coverage review:
   - pwl_calibration_fn == PWLCalibration for EVERY missing-value configuration
     (none / given missing_output_value / DERIVED missing output), one slice;
   - the same for every entry of the whole function CondPWL.pwl_fn (size check,
     tiling, broadcasting), via the slices of Proofs/CondPWL.v;
   - the multi-unit PWLCalibration layer with shared keypoints;
   - the geometric-mean reduction of cdf_fn and of the CDF layer is the SAME
     function of the (equal) 'none' results except for the stabilising epsilon. *)
From TFL Require Import Model.Representations Proofs.Representations Proofs.CondPWL.
Open Scope Q_scope.

(* ---------------------------------------------------------------------- *)
(* (b1) missing values, all three configurations                           *)
(* ---------------------------------------------------------------------- *)
(* the layer's imputation formula is_missing * v + (1 - is_missing) * f when a
   missing input value m and a missing output v exist; f otherwise *)
Definition mixv (m v : option Q) (x f : Q) : Q :=
  match m, v with
  | Some m, Some v => (if Qeq_bool x m then 1 else 0) * v + (1 - (if Qeq_bool x m then 1 else 0)) * f
  | _, _ => f
  end.
(* the missing output the function uses: given, or derived from the LAST output parameter *)
Definition missing_output (sg : Q -> Q) (c : CondPWL.pcfg) (kop : list Q) : option Q :=
  fst (CondPWL.split_missing sg c kop).

Lemma missing_output_cases sg c kop :
  missing_output sg c kop =
  match CondPWL.p_min c with
  | None => None
  | Some _ => match CondPWL.p_mout c with
              | Some v => Some v
              | None => Some (CondPWL.p_omin c + sg (last kop 0) * CondPWL.rng_out c)
              end
  end.
Proof. unfold missing_output, CondPWL.split_missing.
  destruct (CondPWL.p_min c); [destruct (CondPWL.p_mout c)|]; reflexivity. Qed.

Theorem pwl_row_equals_layer_any sm sg c kip kop x :
  nonzero (CondPWL.key_deltas sm c kip) ->
  let ks := layer_keypoints (CondPWL.p_imin c) (CondPWL.key_deltas sm c kip) in
  let f := PWLEval.pwl_fn (PWLEval.kp_lefts ks) (PWLEval.kp_diffs ks) (CondPWL.derived_outputs sm sg c kop) x in
  CondPWL.pwl_row sm sg c kip kop x == mixv (CondPWL.p_min c) (missing_output sg c kop) x f.
Proof. intros Hnz ks f. unfold CondPWL.pwl_row, mixv, missing_output.
  assert (E : CondPWL.interp x (CondPWL.keypoints c (CondPWL.key_deltas sm c kip)) (CondPWL.key_deltas sm c kip)
                (CondPWL.kernel_outputs sm sg c (snd (CondPWL.split_missing sg c kop))) == f).
  { unfold f, ks, CondPWL.keypoints, CondPWL.derived_outputs. apply pwl_interp_equals_layer. exact Hnz. }
  destruct (CondPWL.p_min c) as [m|]; [|exact E].
  destruct (fst (CondPWL.split_missing sg c kop)) as [v|]; [|exact E].
  destruct (Qeq_bool x m). ring. rewrite E. ring. Qed.

(* DERIVED missing output: missing_input_value m set, missing_output_value not
   given: the value is omin + sg(last parameter) * (omax - omin), and the
   derived kernel column comes from the parameters WITHOUT the last one. *)
Theorem pwl_fn_equals_layer_missing_derived sm sg c kip kop x m :
  CondPWL.p_min c = Some m -> CondPWL.p_mout c = None -> nonzero (CondPWL.key_deltas sm c kip) ->
  let ks := layer_keypoints (CondPWL.p_imin c) (CondPWL.key_deltas sm c kip) in
  let kos := CondPWL.kernel_outputs sm sg c (removelast kop) in
  let f := PWLEval.pwl_fn (PWLEval.kp_lefts ks) (PWLEval.kp_diffs ks) kos x in
  let v := CondPWL.p_omin c + sg (last kop 0) * (CondPWL.p_omax c - CondPWL.p_omin c) in
  let mu := if Qeq_bool x m then 1 else 0 in
  CondPWL.derived_outputs sm sg c kop = kos /\
  CondPWL.pwl_row sm sg c kip kop x == mu * v + (1 - mu) * f.
Proof. intros Hm Hv Hnz ks kos f v mu.
  assert (D : CondPWL.derived_outputs sm sg c kop = kos).
  { unfold CondPWL.derived_outputs, CondPWL.split_missing, kos. rewrite Hm, Hv. reflexivity. }
  split; [exact D|].
  rewrite (pwl_row_equals_layer_any sm sg c kip kop x Hnz). rewrite missing_output_cases, Hm, Hv, D.
  unfold mixv, mu, f, v, ks, CondPWL.rng_out. reflexivity. Qed.

(* ---------------------------------------------------------------------- *)
(* (b1) the whole function                                                 *)
(* ---------------------------------------------------------------------- *)
Theorem pwl_fn_entries_equal_layer sm sg c inputs kip kop out b u :
  CondPWL.pwl_fn sm sg c inputs kip kop = Some out -> (b < length out)%nat -> (u < CondPWL.p_units c)%nat ->
  let kipS := slice_kip c kip b u in
  let kopS := slice_kop c kop b u in
  let x := slice_x c inputs b u in
  nonzero (CondPWL.key_deltas sm c kipS) ->
  let ks := layer_keypoints (CondPWL.p_imin c) (CondPWL.key_deltas sm c kipS) in
  nth u (nth b out []) 0 ==
  mixv (CondPWL.p_min c) (missing_output sg c kopS) x
       (PWLEval.pwl_fn (PWLEval.kp_lefts ks) (PWLEval.kp_diffs ks) (CondPWL.derived_outputs sm sg c kopS) x).
Proof. intros H Hb Hu kipS kopS x Hnz ks.
  rewrite (pwl_fn_entry sm sg c inputs kip kop out b u H Hb Hu).
  apply pwl_row_equals_layer_any. exact Hnz. Qed.

(* ---------------------------------------------------------------------- *)
(* (b1) multi-unit PWLCalibration layer with shared keypoints              *)
(* ---------------------------------------------------------------------- *)
Theorem pwl_layer_call_multi units ks kernel row :
  length row = units \/ length row = 1%nat ->
  PWLEval.pwl_call (PWLEval.build_fixed units ks false kernel false None None [] false) false [row] None =
  Some [[map (fun u => PWLEval.pwl_fn (PWLEval.kp_lefts ks) (PWLEval.kp_diffs ks) (column u kernel)
                         (nth (if (length row =? 1)%nat then 0%nat else u) row 0))
             (seq 0 units)]].
Proof. intros Hlen. unfold PWLEval.pwl_call, PWLEval.build_fixed.
  cbn -[PWLEval.pwl_fn PWLEval.kp_lefts PWLEval.kp_diffs column Nat.eqb Nat.ltb seq].
  rewrite Nat.eqb_refl. cbn [andb negb orb].
  assert (C : ((length row =? units) || (length row =? 1))%nat = true).
  { destruct Hlen as [->| ->]. rewrite Nat.eqb_refl. reflexivity. apply orb_true_r. }
  rewrite C. cbn [negb].
  unfold PWLEval.split_result, PWLEval.call_row, PWLEval.calib_row, PWLEval.expands, PWLEval.bias_and_heights,
    PWLEval.unit_lefts, PWLEval.unit_lens, PWLEval.unit_row.
  cbn -[PWLEval.pwl_fn PWLEval.kp_lefts PWLEval.kp_diffs column Nat.eqb Nat.ltb seq PWLEval.interpolation_weights PWLEval.dot].
  rewrite andb_false_r. rewrite orb_false_r.
  destruct (1 <? length row)%nat eqn:E1.
  - reflexivity.
  - destruct (length row =? 1)%nat eqn:E2; [reflexivity|].
    apply Nat.ltb_ge in E1. apply Nat.eqb_neq in E2.
    assert (U : units = 0%nat) by (destruct Hlen; lia). subst units. reflexivity. Qed.

(* ---------------------------------------------------------------------- *)
(* (b2) geometric mean: the deliberate exception, made precise             *)
(* ---------------------------------------------------------------------- *)
(* exp(mean_i log(M[i][u] + eps)) over the rows of the 'none' result M *)
Definition geo_of (ex lg : Q -> Q) (eps : Q) (units : nat) (M : mat) : mat :=
  [map (fun u => CDF.geo ex lg eps (length M) (column u M)) (seq 0 units)].

Theorem cdf_geometric_only_eps sg ex lg a units sf kernel scaling x :
  (forall p q, p == q -> sg p == sg q) ->
  length x = length kernel -> CDF.verify_cdf a CDF.RGeo (length x) units sf kernel = true ->
  let sp := Some (cdf_scaling_param (length x) scaling) in
  exists Mf Ml,
    CDF.cdf_fn sg ex lg a CDF.RNone units sf None x kernel sp = Some Mf /\
    CDF.cdf_layer sg ex lg a CDF.RNone units sf kernel scaling x = Some Ml /\
    meq Mf Ml /\
    CDF.cdf_fn sg ex lg a CDF.RGeo units sf None x kernel sp = Some (geo_of ex lg CDF.eps_fn units Mf) /\
    CDF.cdf_layer sg ex lg a CDF.RGeo units sf kernel scaling x = Some (geo_of ex lg CDF.eps_layer units Ml).
Proof. intros Hsg Hl Hv sp.
  assert (Hv0 : CDF.verify_cdf a CDF.RNone (length x) units sf kernel = true) by exact Hv.
  pose proof (cdf_fn_equals_layer sg ex lg a CDF.RNone units sf kernel scaling x Hsg (or_intror eq_refl) Hl Hv0) as EQ.
  fold sp in EQ. revert EQ.
  unfold CDF.cdf_fn, CDF.cdf_layer. rewrite Hv, Hv0. cbn [negb].
  pose proof Hv as Hv'. unfold CDF.verify_cdf in Hv'. repeat rewrite andb_true_iff in Hv'.
  destruct Hv' as [[[[[[Ha _] Hsf] Hu] Hd] _] _].
  rewrite <- Hl. rewrite Ha, Hsf, Hu, Hd, Nat.eqb_refl. cbn [andb orb negb CDF.red_ok].
  destruct (sf =? 1)%nat; cbn [opt_meq CDF.reduce]; intros EQ.
  - eexists. eexists. split; [reflexivity|]. split; [reflexivity|]. split; [exact EQ|].
    split; [reflexivity|]. unfold geo_of, CDF.layer_cells. rewrite map_length, seq_length, <- Hl. reflexivity.
  - eexists. eexists. split; [reflexivity|]. split; [reflexivity|]. split; [exact EQ|].
    split; [reflexivity|]. unfold geo_of, CDF.reshape2. rewrite map_length, seq_length. reflexivity. Qed.

(* the two epsilons are the documented ones *)
Lemma cdf_epsilons : CDF.eps_fn == 1 # 100000000 /\ CDF.eps_layer == 1 # 1000.
Proof. split; reflexivity. Qed.

(* ---------------------------------------------------------------------- *)
(* Examples: hypotheses satisfiable                                        *)
(* ---------------------------------------------------------------------- *)
(* derived missing output: 1 interior keypoint, increasing, 3 parameters (the last one is the missing logit) *)
Definition ex_pcfg_d : CondPWL.pcfg :=
  CondPWL.mkP 0 1 0 1 1 CondPWL.MonoInc false false false (Some (-(1))) None.
Example ex_pwl_derived_missing_hyps :
  CondPWL.p_min ex_pcfg_d = Some (-(1)) /\ CondPWL.p_mout ex_pcfg_d = None /\
  nonzero (CondPWL.key_deltas ex_sm ex_pcfg_d (Some [1])) /\
  CondPWL.pwl_row ex_sm ex_sg ex_pcfg_d (Some [1]) [0; 0; 5] (-(1)) == 1 # 2.
Proof. split; [reflexivity|]. split; [reflexivity|]. split.
  - repeat constructor; cbv; discriminate.
  - vm_compute. reflexivity. Qed.

(* an accepted whole-function call (2 units, batch 2, shared rank-2 interior parameters) *)
Definition ex_pcfg_u2 : CondPWL.pcfg :=
  CondPWL.mkP 0 1 0 1 2 CondPWL.MonoInc false false false None None.
Example ex_pwl_fn_hyps :
  exists out, CondPWL.pwl_fn ex_sm ex_sg ex_pcfg_u2 [[1#4]; [3#4]] (Some (CondPWL.P2 [[1]])) (CondPWL.P3 [[[0; 0; 0]; [1; 2; 0]]]) = Some out /\
  length out = 2%nat /\
  nonzero (CondPWL.key_deltas ex_sm ex_pcfg_u2 (slice_kip ex_pcfg_u2 (Some (CondPWL.P2 [[1]])) 1 1)).
Proof. eexists. split. vm_compute. reflexivity. split. reflexivity. repeat constructor; cbv; discriminate. Qed.

Example ex_cdf_geo_hyps :
  CDF.verify_cdf CDF.Relu6 CDF.RGeo 2 1 1 ex_cdf_kernel = true /\ length [1#2; 1#4] = length ex_cdf_kernel.
Proof. split; reflexivity. Qed.

(* ---------------------------------------------------------------------- *)
(* (b1) the derived parameters RETURNED by the function are the ones the   *)
(* entry theorem uses (broadcast read of pwl_derived = derivation of slice) *)
(* ---------------------------------------------------------------------- *)
Definition bsel_ok {A} (i : nat) (l : list A) : Prop := length l = 1%nat \/ (i < length l)%nat.

Lemma bsel_map {A B} (f : A -> B) (da : A) (db : B) i l : bsel_ok i l ->
  CondPWL.bsel db i (map f l) = f (CondPWL.bsel da i l).
Proof. unfold bsel_ok, CondPWL.bsel. intros H. rewrite map_length.
  destruct (length l =? 1)%nat eqn:E.
  - apply Nat.eqb_eq in E. rewrite (nth_indep (map f l) db (f da)) by (rewrite map_length; lia). apply map_nth.
  - apply Nat.eqb_neq in E. destruct H as [H|H]; [contradiction|].
    rewrite (nth_indep (map f l) db (f da)) by (rewrite map_length; exact H). apply map_nth. Qed.

Theorem pwl_derived_slices sm sg c kip kop b u :
  let K := CondPWL.tile1 (CondPWL.p_units c) (CondPWL.to3 kop) in
  bsel_ok b K -> bsel_ok u (CondPWL.bsel [] b K) ->
  CondPWL.bsel [] u (CondPWL.bsel [] b (snd (CondPWL.pwl_derived sm sg c kip kop))) =
    CondPWL.derived_outputs sm sg c (slice_kop c kop b u) /\
  (forall t, kip = Some t ->
     let T := CondPWL.tile1 (CondPWL.p_units c) (CondPWL.to3 t) in
     bsel_ok b T -> bsel_ok u (CondPWL.bsel [] b T) ->
     Some (CondPWL.bsel [] u (CondPWL.bsel [] b (fst (CondPWL.pwl_derived sm sg c kip kop)))) =
       option_map (fun p => CondPWL.key_deltas sm c (Some p)) (slice_kip c kip b u)).
Proof. intros K HbK HuK. unfold CondPWL.pwl_derived, slice_kop, slice_kip. cbn [fst snd]. split.
  - rewrite (bsel_map _ [] [] b _ HbK). rewrite (bsel_map _ [] [] u _ HuK). reflexivity.
  - intros t -> HbT HuT. cbn [option_map].
    rewrite (bsel_map _ [] [] b _ HbT). rewrite (bsel_map _ [] [] u _ HuT). reflexivity. Qed.

Example ex_pwl_derived_slices_hyps :
  let K := CondPWL.tile1 2 (CondPWL.to3 (CondPWL.P3 [[[0; 0; 0]; [1; 2; 0]]])) in
  bsel_ok 1 K /\ bsel_ok 1 (CondPWL.bsel [] 1 K) /\
  let T := CondPWL.tile1 2 (CondPWL.to3 (CondPWL.P2 [[1]])) in bsel_ok 1 T /\ bsel_ok 1 (CondPWL.bsel [] 1 T).
Proof. cbv. repeat split; auto. Qed.
