(* Premade / composed models: lemmas for Props/C03.v.
   Re-uses the finished single-layer theories:
     Proofs/PWLEval.v (C05), Proofs/LatticeInterp.v (C02), Proofs/LinearEval.v (C20)
   for the forward functions, and
     Proofs/LatticeFinalize.v (C01), Proofs/PWLProject.v (C04), Proofs/LinearProject.v (C06)
   for "constraint(anything) is feasible". *)
From Coq Require Import Permutation.
From TFL Require Import Model.Premade.
From TFL Require Import Proofs.PWLEval Proofs.LinearEval Proofs.LatticeInterp.
Open Scope Q_scope.

(* ====================================================================== *)
(* 1. Layer state machine                                                  *)
(* ====================================================================== *)
Section MachineProofs.
  Variable val : Type.
  Variable D : Type.                    (* description of a variable (its layer configuration) *)
  Variable mk : D -> var val.           (* the variable it creates *)
  Variable Inv : D -> val -> Prop.      (* the per-variable invariant *)
  Variable Shape : D -> val -> Prop.    (* raw values an optimizer can produce for it (right shape) *)
  Variable ds : list D.
  Hypothesis Hinit : forall d, In d ds -> Inv d (v_init (mk d)).
  Hypothesis Hcon : forall d w, In d ds -> Shape d w -> Inv d (v_con (mk d) w).

  Definition vars : list (var val) := map mk ds.
  Definition state_ok (s : state val) : Prop := Forall2 Inv ds s.

  (* every Update hands every variable a raw value of its shape *)
  Definition delta_shaped (delta : nat -> val) : Prop :=
    forall i d, nth_error ds i = Some d -> Shape d (delta i).
  Definition ops_shaped (ops : list (op val)) : Prop :=
    forall delta, In (Update delta) ops -> delta_shaped delta.

  Lemma init_state_ok : state_ok (init_state vars).
  Proof. unfold state_ok, init_state, vars. revert Hinit. clear. induction ds as [|d l IH]; intros H; cbn.
    constructor. constructor. apply H; left; reflexivity. apply IH. intros; apply H; right; assumption. Qed.

  Lemma apply_update_ok delta : delta_shaped delta -> state_ok (apply_update vars delta).
  Proof. unfold state_ok, apply_update, vars, delta_shaped. revert Hcon. clear.
    intros Hcon Hs.
    assert (G : forall l i, (forall d, In d l -> In d ds) -> (forall j d, nth_error l j = Some d -> Shape d (delta (i + j)%nat)) ->
                Forall2 Inv l (apply_update_from val i (map mk l) delta)).
    { induction l as [|d l IH]; intros i Hin Hsh; cbn. constructor. constructor.
      - apply Hcon. apply Hin; left; reflexivity. specialize (Hsh 0%nat d eq_refl). rewrite Nat.add_0_r in Hsh. exact Hsh.
      - apply IH. intros; apply Hin; right; assumption. intros j d' Hj. specialize (Hsh (S j) d' Hj).
        replace (S i + j)%nat with (i + S j)%nat by lia. exact Hsh. }
    apply G. auto. intros j d Hj. cbn. apply Hs. exact Hj. Qed.

  Lemma step_ok hist o : (forall s, In s hist -> state_ok s) -> (forall delta, o = Update delta -> delta_shaped delta) ->
    forall s, In s (step vars hist o) -> state_ok s.
  Proof. intros Hh Ho s Hs. destruct o as [delta|k|]; cbn [step] in Hs; destruct Hs as [<-|Hs]; auto.
    - apply apply_update_ok. apply Ho. reflexivity.
    - (* Restore: the restored state is one of the history, or (empty history) the initial one *)
      destruct (Nat.lt_ge_cases k (length (rev hist))) as [Hk|Hk].
      + apply Hh. apply in_rev. apply nth_In. exact Hk.
      + rewrite nth_overflow by exact Hk. destruct hist as [|h hist]; cbn [hd]. apply init_state_ok. apply Hh. left; reflexivity.
    - apply init_state_ok. Qed.

  Lemma fold_ok : forall ops hist, (forall s, In s hist -> state_ok s) -> ops_shaped ops ->
    forall s, In s (fold_left (step vars) ops hist) -> state_ok s.
  Proof. induction ops as [|o ops IH]; intros hist Hh Hops s Hs; cbn [fold_left] in Hs. auto.
    assert (H1 : forall s', In s' (step vars hist o) -> state_ok s').
    { intros s' Hs'. apply (step_ok hist o Hh); [|exact Hs']. intros delta E. subst o. apply Hops. left; reflexivity. }
    assert (H2 : ops_shaped ops) by (intros delta Hd; apply Hops; right; exact Hd).
    exact (IH (step vars hist o) H1 H2 s Hs). Qed.

  (* every state reached by any (well-shaped) op list satisfies every per-variable invariant *)
  Theorem reachable_feasible ops : ops_shaped ops -> forall s, In s (run vars ops) -> state_ok s.
  Proof. intros Hops s Hs. unfold run in Hs. apply (fold_ok ops [init_state vars]); try assumption.
    intros s' [<-|[]]. apply init_state_ok. Qed.

  Lemma run_nonempty ops : run vars ops <> [].
  Proof. unfold run. assert (G : forall (ops : list (op val)) h, h <> [] -> fold_left (step vars) ops h <> []).
    { clear. induction ops as [|o ops IH]; intros h Hh; cbn [fold_left]. exact Hh. apply IH. destruct o; discriminate. }
    apply G. discriminate. Qed.

  Theorem final_feasible ops : ops_shaped ops -> state_ok (final vars ops).
  Proof. intros Hops. apply (reachable_feasible ops Hops). unfold final.
    pose proof (run_nonempty ops). destruct (run vars ops); [congruence|left; reflexivity]. Qed.

  (* the invariant of variable i, read off a reached state *)
  Lemma state_ok_nth s i d w : state_ok s -> nth_error ds i = Some d -> nth_error s i = Some w -> Inv d w.
  Proof. unfold state_ok. generalize ds. intros l H. revert i. induction H as [|d' w' l s' Hd H IH]; intros [|i] Hd' Hw; cbn in *; try discriminate.
    - injection Hd' as ->. injection Hw as ->. exact Hd.
    - eapply IH; eassumption. Qed.
End MachineProofs.

(* ====================================================================== *)
(* 2. Calibrators                                                          *)
(* ====================================================================== *)
Definition dcal : calib := CCat [] None.

(* keypoint outputs (cumulative kernel sums) ordered, as C05 states it *)
Definition outs_nondecr (col : list Q) : Prop :=
  forall j, (S j < length col)%nat -> nth j (kp_outs col) 0 <= nth (S j) (kp_outs col) 0.
Definition outs_nonincr (col : list Q) : Prop :=
  forall j, (S j < length col)%nat -> nth (S j) (kp_outs col) 0 <= nth j (kp_outs col) 0.

(* a non-missing input: numeric and different from missing_input_value, or a
   real bucket index that is not default_input_value *)
Definition regular_input (c : calib) (x : Q) : Prop :=
  match c with
  | CPwl _ _ _ (Some (miv, _)) => ~ x == miv
  | CPwl _ _ _ None => True
  | CCat vals d => (0 <= cast_int x < Z.of_nat (length vals))%Z /\ d <> Some (cast_int x)
  end.
(* any input of the feature's domain: every number for a numeric feature, a
   bucket index or default_input_value for a categorical one *)
Definition domain_input (c : calib) (x : Q) : Prop :=
  match c with
  | CPwl _ _ _ _ => True
  | CCat vals d => (0 <= cast_int x < Z.of_nat (length vals))%Z \/ (d = Some (cast_int x) /\ vals <> [])
  end.

(* every value the calibrator can emit on its domain lies in [lo, hi]:
   keypoint outputs (C04_bounds) and the missing output (C04_missing_bounded),
   resp. every bucket value (C06_categorical_bounds) *)
Definition calib_range (c : calib) (lo hi : Q) : Prop :=
  match c with
  | CPwl kps lens col miss =>
      (exists e, segments kps lens e) /\ length col = S (length kps) /\
      (forall y, In y (kp_outs col) -> lo <= y <= hi) /\
      match miss with Some (_, mo) => lo <= mo <= hi | None => True end
  | CCat vals d => forall v, In v vals -> lo <= v <= hi
  end.

Lemma calib_eval_regular kps lens col miss x : regular_input (CPwl kps lens col miss) x ->
  calib_eval (CPwl kps lens col miss) x == pwl_fn kps lens col x.
Proof. destruct miss as [[miv mo]|]; cbn [regular_input calib_eval]; intros H; [|reflexivity].
  destruct (Qeq_bool x miv) eqn:E. apply Qeq_bool_iff in E. contradiction. lra. Qed.

Lemma calib_eval_missing kps lens col miv mo x : x == miv ->
  calib_eval (CPwl kps lens col (Some (miv, mo))) x == mo.
Proof. intros H. cbn [calib_eval]. destruct (Qeq_bool x miv) eqn:E. lra.
  apply Qeq_bool_neq in E. contradiction. Qed.

Lemma column0_singletons (vals : list Q) : column 0 (map (fun v => [v]) vals) = vals.
Proof. unfold column. rewrite map_map. cbn [nth]. apply map_id. Qed.

Lemma cat_eval_dot vals d x :
  calib_eval (CCat vals d) x =
  PWLEval.dot (one_hot (length vals) (replace_default (cat_layer_of vals d) (cast_int x))) vals.
Proof. cbn [calib_eval]. rewrite (cat_row_unit (cat_layer_of vals d) [x] 0); [|cbn; lia|cbn; lia|reflexivity].
  unfold cat_index, col_of. cbn [length Nat.eqb nth cat_layer_of c_kernel c_buckets].
  rewrite column0_singletons. reflexivity. Qed.

Lemma cat_eval_lookup vals d x : regular_input (CCat vals d) x ->
  calib_eval (CCat vals d) x == nth (Z.to_nat (cast_int x)) vals 0.
Proof. intros [Hr Hd]. rewrite cat_eval_dot. unfold replace_default. cbn [c_default cat_layer_of c_buckets].
  destruct d as [d|].
  - destruct (cast_int x =? d)%Z eqn:E; [apply Z.eqb_eq in E; subst; congruence|]. apply dot_one_hot_in. exact Hr.
  - apply dot_one_hot_in. exact Hr. Qed.

Lemma cat_eval_default vals d x : d = Some (cast_int x) -> vals <> [] ->
  calib_eval (CCat vals d) x == nth (length vals - 1) vals 0.
Proof. intros Hd Hne. rewrite cat_eval_dot. unfold replace_default. cbn [c_default cat_layer_of c_buckets]. rewrite Hd.
  rewrite Z.eqb_refl. assert (0 < length vals)%nat by (destruct vals; [congruence|cbn; lia]).
  rewrite dot_one_hot_in by lia. replace (Z.to_nat (Z.of_nat (length vals) - 1)) with (length vals - 1)%nat by lia. reflexivity. Qed.

(* whatever the input: a bucket value, or 0 (index outside the buckets) *)
Lemma cat_eval_cases vals d x :
  calib_eval (CCat vals d) x == 0 \/ exists j, (j < length vals)%nat /\ calib_eval (CCat vals d) x == nth j vals 0.
Proof. rewrite cat_eval_dot. set (i := replace_default _ _).
  destruct (Z_lt_le_dec i 0) as [H|H]; [left; apply dot_one_hot_out; lia|].
  destruct (Z_lt_le_dec i (Z.of_nat (length vals))) as [H'|H']; [|left; apply dot_one_hot_out; lia].
  right. exists (Z.to_nat i). split. lia. apply dot_one_hot_in. lia. Qed.

Lemma cat_eval_domain vals d x : domain_input (CCat vals d) x ->
  exists j, (j < length vals)%nat /\ calib_eval (CCat vals d) x == nth j vals 0.
Proof. intros [Hr|[Hd Hne]].
  - destruct d as [dv|].
    + destruct (Z.eq_dec (cast_int x) dv) as [E|E].
      * subst dv. assert (0 < length vals)%nat by lia. exists (length vals - 1)%nat. split. lia.
        apply cat_eval_default. reflexivity. destruct vals; [cbn in *; lia|discriminate].
      * exists (Z.to_nat (cast_int x)). split. lia. apply cat_eval_lookup. split. exact Hr. congruence.
    + exists (Z.to_nat (cast_int x)). split. lia. apply cat_eval_lookup. split. exact Hr. discriminate.
  - assert (0 < length vals)%nat by (destruct vals; [congruence|cbn; lia]).
    exists (length vals - 1)%nat. split. lia. apply cat_eval_default; assumption. Qed.

(* the calibrator's value is inside its configured range, for EVERY input when
   0 is in the range (lattice inputs: [0, size-1]), else for every input of
   the feature's domain; missing values included *)
Lemma calib_eval_range c lo hi x : calib_range c lo hi -> (lo <= 0 <= hi \/ domain_input c x) ->
  lo <= calib_eval c x <= hi.
Proof. destruct c as [kps lens col miss|vals d]; cbn [calib_range]; intros H Hx.
  - destruct H as [[e Hs] [Hl [Hy Hm]]].
    pose proof (pwl_bounded_function kps lens e col lo hi x Hs Hl Hy) as Hb.
    destruct miss as [[miv mo]|]; cbn [calib_eval]; [|exact Hb].
    destruct (Qeq_bool x miv); lra.
  - destruct Hx as [H0|Hd].
    + destruct (cat_eval_cases vals d x) as [E|[j [Hj E]]]; rewrite E. exact H0. apply H. apply nth_In. exact Hj.
    + destruct (cat_eval_domain vals d x Hd) as [j [Hj E]]. rewrite E. apply H. apply nth_In. exact Hj. Qed.

(* monotone calibrator: ordered keypoint outputs give an ordered function on
   every pair of non-missing inputs (C05_monotone_function) *)
Lemma calib_pwl_monotone kps lens col miss x y : Forall (fun l => 0 < l) lens ->
  regular_input (CPwl kps lens col miss) x -> regular_input (CPwl kps lens col miss) y -> x <= y ->
  (outs_nondecr col -> calib_eval (CPwl kps lens col miss) x <= calib_eval (CPwl kps lens col miss) y) /\
  (outs_nonincr col -> calib_eval (CPwl kps lens col miss) y <= calib_eval (CPwl kps lens col miss) x).
Proof. intros Hl Rx Ry Hxy. rewrite !calib_eval_regular by assumption. split; intros Hs.
  - exact (pwl_monotone_function kps lens col x y Hl Hs Hxy).
  - exact (pwl_antitone_function kps lens col x y Hl Hs Hxy). Qed.

(* categorical pair (a, b): value_a <= value_b orders the calibrator on the two buckets *)
Lemma calib_cat_pair vals d a b : (a < length vals)%nat -> (b < length vals)%nat ->
  d <> Some (Z.of_nat a) -> d <> Some (Z.of_nat b) -> nth a vals 0 <= nth b vals 0 ->
  calib_eval (CCat vals d) (qn a) <= calib_eval (CCat vals d) (qn b).
Proof. intros Ha Hb Da Db Hab. unfold qn.
  rewrite !cat_eval_lookup by (cbn [regular_input]; rewrite cast_int_Z; split; [lia|assumption]).
  rewrite !cast_int_Z, !Nat2Z.id. exact Hab. Qed.

(* output calibrator *)
Definition out_monotone (oc : out_calib) : Prop :=
  match oc with Some (kps, lens, col) => Forall (fun l => 0 < l) lens /\ outs_nondecr col | None => True end.
Definition out_range (oc : out_calib) (lo hi : Q) : Prop :=
  match oc with
  | Some (kps, lens, col) => (exists e, segments kps lens e) /\ length col = S (length kps) /\
                             (forall y, In y (kp_outs col) -> lo <= y <= hi)
  | None => True
  end.

Lemma out_eval_mono oc y y' : out_monotone oc -> y <= y' -> out_eval oc y <= out_eval oc y'.
Proof. destruct oc as [[[kps lens] col]|]; cbn [out_monotone out_eval]; [|auto].
  intros [Hl Hs] Hy. exact (pwl_monotone_function kps lens col y y' Hl Hs Hy). Qed.

Lemma out_eval_range oc lo hi y : out_range oc lo hi -> (oc = None -> lo <= y <= hi) -> lo <= out_eval oc y <= hi.
Proof. destruct oc as [[[kps lens] col]|]; cbn [out_range out_eval].
  - intros [[e Hs] [Hl Hy]] _. exact (pwl_bounded_function kps lens e col lo hi y Hs Hl Hy).
  - intros _ H. apply H. reflexivity. Qed.

(* ====================================================================== *)
(* 3. Calibrated lattice                                                   *)
(* ====================================================================== *)
Lemma set_nth_self : forall (l : list Q) i, set_nth i (nth i l 0) l = l.
Proof. induction l as [|a l IH]; intros [|i]; cbn; try reflexivity. f_equal. apply IH. Qed.
Lemma set_nth_twice : forall (l : list Q) i a b, set_nth i b (set_nth i a l) = set_nth i b l.
Proof. induction l as [|c l IH]; intros [|i] a b; cbn; try reflexivity. f_equal. apply IH. Qed.

Lemma calibrate_length cals x : length cals = length x -> length (calibrate cals x) = length x.
Proof. intros H. unfold calibrate. rewrite map2_length. lia. Qed.

Lemma nth_calibrate cals x j : (j < length cals)%nat -> (j < length x)%nat ->
  nth j (calibrate cals x) 0 = calib_eval (nth j cals dcal) (nth j x 0).
Proof. intros H1 H2. unfold calibrate. exact (nth_map2 calib_eval cals x j dcal 0 0 H1 H2). Qed.

(* moving one raw input moves exactly that calibrated coordinate *)
Lemma calibrate_set_nth : forall cals x i v, length cals = length x ->
  calibrate cals (set_nth i v x) = set_nth i (calib_eval (nth i cals dcal) v) (calibrate cals x).
Proof. unfold calibrate. induction cals as [|c cals IH]; intros [|a x] i v Hl; try discriminate.
  - destruct i; reflexivity.
  - destruct i as [|i]; cbn [set_nth map2 nth]. reflexivity. f_equal. apply IH. cbn in Hl; lia. Qed.

(* wiring: calibrator j emits values inside the domain [0, size_j - 1] of lattice
   dimension j, so the unclipped lattice never extrapolates *)
Definition cals_in_range (sizes : list nat) (cals : list calib) : Prop :=
  forall j, (j < length sizes)%nat -> calib_range (nth j cals dcal) 0 (qn (nth j sizes 0%nat) - 1).

Lemma qn_size_ge sizes j : sizes_ok sizes -> (j < length sizes)%nat -> 0 <= 0 <= qn (nth j sizes 0%nat) - 1.
Proof. intros Hs Hj. assert (2 <= nth j sizes 0)%nat.
  { unfold sizes_ok in Hs. rewrite Forall_forall in Hs. apply Hs. apply nth_In. exact Hj. }
  unfold qn. assert (2 <= Z.of_nat (nth j sizes 0%nat))%Z by lia.
  assert (inject_Z 2 <= inject_Z (Z.of_nat (nth j sizes 0%nat))) by (rewrite <- Zle_Qle; assumption).
  assert (inject_Z 2 == 2) by reflexivity. lra. Qed.

Lemma calibrate_inr : forall sizes cals x, sizes_ok sizes -> length cals = length sizes -> length x = length sizes ->
  cals_in_range sizes cals -> inr sizes (calibrate cals x).
Proof. unfold inr, calibrate. induction sizes as [|s ss IH]; intros cals x Hs Hc Hx Hr.
  - destruct cals; [|discriminate]. constructor.
  - destruct cals as [|c cals]; [discriminate|]. destruct x as [|a x]; [discriminate|]. cbn [map2]. constructor.
    + pose proof (Hr 0%nat ltac:(cbn; lia)) as H0. cbn [nth] in H0.
      pose proof (calib_eval_range c 0 (qn s - 1) a H0 (or_introl (qn_size_ge (s :: ss) 0 Hs ltac:(cbn; lia)))). tauto.
    + apply IH. inversion Hs; assumption. cbn in Hc; lia. cbn in Hx; lia.
      intros j Hj. exact (Hr (S j) ltac:(cbn; lia)). Qed.

(* the lattice part of the model: interpolation of the calibrated point *)
Definition lat_part (sc : scheme) (sizes : list nat) (K : list (list Q)) (z : list Q) : Q :=
  LatticeInterp.unit_fn sc false false 1 sizes K 0 z.

Lemma lat_part_monotone sc sizes K z i a b : sizes_ok sizes -> wfK 1 K 0 -> (i < length sizes)%nat ->
  inr sizes z -> 0 <= a -> a <= b -> b <= qn (nth i sizes 0%nat) - 1 ->
  knondecr sizes (kern sizes K 0) i ->
  lat_part sc sizes K (set_nth i a z) <= lat_part sc sizes K (set_nth i b z).
Proof. intros Hs Hw Hi Hz Ha Hab Hb HK. unfold lat_part.
  assert (Ra : inr sizes (set_nth i a z)) by (apply inr_set_nth; try assumption; lra).
  assert (Rb : inr sizes (set_nth i b z)) by (apply inr_set_nth; try assumption; lra).
  pose proof (inr_length _ _ Hz) as Lz.
  assert (Oa : ok_input false sizes (set_nth i a z)) by (split; [rewrite set_nth_length; exact Lz|right; exact Ra]).
  assert (Ob : ok_input false sizes (set_nth i b (set_nth i a z))).
  { rewrite set_nth_twice. split; [rewrite set_nth_length; exact Lz|right; exact Rb]. }
  assert (Hle : nth i (set_nth i a z) 0 <= b) by (rewrite nth_set_nth_same by lia; exact Hab).
  rewrite <- (set_nth_twice z i a b).
  destruct sc.
  - exact (L_hyper_monotone false false 1 sizes K 0 _ i b Hs Hi Oa Ob Hle HK).
  - exact (L_simplex_monotone false false 1 sizes K 0 _ i b Hs Hw Hi Oa Ob Hle HK). Qed.

Lemma column_nonempty (K : list (list Q)) sizes u : length K = prodn sizes -> sizes_ok sizes -> column u K <> [].
Proof. intros Hl Hs. assert (0 < prodn sizes)%nat.
  { clear Hl. induction Hs as [|s ss H2 Hs IH]; cbn [prodn fold_right]. lia. fold (prodn ss). nia. }
  destruct K; [cbn in Hl; lia|discriminate]. Qed.

(* bounds from the kernel TENSOR (the form C01_bounds delivers) ... *)
Lemma lat_part_bounds sc sizes K z lo hi : sizes <> [] -> sizes_ok sizes -> wfK 1 K 0 ->
  inr sizes z -> (forall i, valid sizes i -> lo <= kern sizes K 0 i <= hi) -> lo <= lat_part sc sizes K z <= hi.
Proof. intros Hne Hs Hw Hz HK. unfold lat_part.
  assert (Ok : ok_input false sizes z) by (split; [apply inr_length; exact Hz|right; exact Hz]).
  assert (HK' : forall i, valid sizes i -> lo <= kern sizes K 0 i /\ kern sizes K 0 i <= hi) by (intros i Hi; pose proof (HK i Hi); tauto).
  destruct sc.
  - rewrite unit_fn_hyper by (try assumption; apply Ok).
    destruct (hyper_bounds false false sizes (kern sizes K 0) z lo hi Hs Ok HK'). tauto.
  - rewrite unit_fn_simplex.
    destruct (simplex_bounds false sizes _ _ z lo hi Hs (gather_gk 1 sizes K 0 Hw) Ok HK'). tauto. Qed.

(* ... or from the entries of the kernel matrix column *)
Lemma column_bounds_kern sizes (K : list (list Q)) u lo hi : length K = prodn sizes ->
  (forall v, In v (column u K) -> lo <= v <= hi) -> forall i, valid sizes i -> lo <= kern sizes K u i <= hi.
Proof. intros Hl H i Hi. apply H. apply kern_in_column; assumption. Qed.

(* ---- the composition theorem, in its general form: whenever the calibrated
   value of feature i does not decrease, the model output does not decrease ---- *)
Theorem cal_lattice_core sc sizes K cals oc x i v :
  sizes_ok sizes -> wfK 1 K 0 -> length cals = length sizes -> length x = length sizes -> (i < length sizes)%nat ->
  cals_in_range sizes cals -> knondecr sizes (kern sizes K 0) i -> out_monotone oc ->
  calib_eval (nth i cals dcal) (nth i x 0) <= calib_eval (nth i cals dcal) v ->
  cal_lattice_eval sc sizes K cals oc x <= cal_lattice_eval sc sizes K cals oc (set_nth i v x).
Proof. intros Hs Hw Hc Hx Hi Hr HK Ho Hle. unfold cal_lattice_eval. apply out_eval_mono. exact Ho.
  rewrite calibrate_set_nth by lia. pose proof (calibrate_inr sizes cals x Hs Hc Hx Hr) as Hz.
  rewrite <- (set_nth_self (calibrate cals x) i) at 1.
  rewrite nth_calibrate by lia.
  pose proof (Hr i Hi) as Hri. pose proof (qn_size_ge sizes i Hs Hi) as H0.
  pose proof (calib_eval_range _ _ _ (nth i x 0) Hri (or_introl H0)).
  pose proof (calib_eval_range _ _ _ v Hri (or_introl H0)).
  apply (lat_part_monotone sc sizes K (calibrate cals x) i); try assumption; tauto. Qed.

(* numeric feature: increasing / decreasing calibrator + non-decreasing lattice dimension *)
Theorem compose_monotone_lattice sc sizes K cals oc x i v kps lens col miss :
  sizes_ok sizes -> wfK 1 K 0 -> length cals = length sizes -> length x = length sizes -> (i < length sizes)%nat ->
  cals_in_range sizes cals -> knondecr sizes (kern sizes K 0) i -> out_monotone oc ->
  nth i cals dcal = CPwl kps lens col miss ->
  regular_input (nth i cals dcal) (nth i x 0) -> regular_input (nth i cals dcal) v -> nth i x 0 <= v ->
  (outs_nondecr col -> cal_lattice_eval sc sizes K cals oc x <= cal_lattice_eval sc sizes K cals oc (set_nth i v x)) /\
  (outs_nonincr col -> cal_lattice_eval sc sizes K cals oc (set_nth i v x) <= cal_lattice_eval sc sizes K cals oc x).
Proof. intros Hs Hw Hc Hx Hi Hr HK Ho E Rx Rv Hle. rewrite E in Rx, Rv.
  assert (Hl : Forall (fun l => 0 < l) lens).
  { pose proof (Hr i Hi) as H. rewrite E in H. destruct H as [[e Hseg] _]. eapply segments_pos; eassumption. }
  destruct (calib_pwl_monotone kps lens col miss _ _ Hl Rx Rv Hle) as [Inc Dec]. split; intros Hd.
  - apply cal_lattice_core; try assumption. rewrite E. apply Inc. exact Hd.
  - (* x = (set_nth i v x) with coordinate i put back *)
    pose proof (cal_lattice_core sc sizes K cals oc (set_nth i v x) i (nth i x 0) Hs Hw Hc
                  ltac:(rewrite set_nth_length; exact Hx) Hi Hr HK Ho) as H.
    rewrite set_nth_twice, set_nth_self in H. apply H. rewrite nth_set_nth_same by lia. rewrite E. apply Dec. exact Hd. Qed.

(* categorical feature: pair (a, b) with value_a <= value_b and a non-decreasing lattice dimension *)
Theorem compose_monotone_lattice_categorical sc sizes K cals oc x i vals d a b :
  sizes_ok sizes -> wfK 1 K 0 -> length cals = length sizes -> length x = length sizes -> (i < length sizes)%nat ->
  cals_in_range sizes cals -> knondecr sizes (kern sizes K 0) i -> out_monotone oc ->
  nth i cals dcal = CCat vals d -> (a < length vals)%nat -> (b < length vals)%nat ->
  d <> Some (Z.of_nat a) -> d <> Some (Z.of_nat b) -> nth a vals 0 <= nth b vals 0 ->
  cal_lattice_eval sc sizes K cals oc (set_nth i (qn a) x) <= cal_lattice_eval sc sizes K cals oc (set_nth i (qn b) x).
Proof. intros Hs Hw Hc Hx Hi Hr HK Ho E Ha Hb Da Db Hab.
  pose proof (cal_lattice_core sc sizes K cals oc (set_nth i (qn a) x) i (qn b) Hs Hw Hc
                ltac:(rewrite set_nth_length; exact Hx) Hi Hr HK Ho) as H.
  rewrite set_nth_twice in H. apply H. rewrite nth_set_nth_same by lia. rewrite E.
  apply calib_cat_pair; assumption. Qed.

(* bounds: for ALL inputs (in range, out of range, missing, any bucket) *)
Theorem bounded_lattice sc sizes K cals oc lo hi x :
  sizes <> [] -> sizes_ok sizes -> wfK 1 K 0 ->
  length cals = length sizes -> length x = length sizes -> cals_in_range sizes cals ->
  (oc = None -> forall i, valid sizes i -> lo <= kern sizes K 0 i <= hi) -> out_range oc lo hi ->
  lo <= cal_lattice_eval sc sizes K cals oc x <= hi.
Proof. intros Hne Hs Hw Hc Hx Hr HK Ho. unfold cal_lattice_eval. apply out_eval_range. exact Ho.
  intros E. apply lat_part_bounds; try assumption. apply calibrate_inr; assumption. apply HK. exact E. Qed.

(* ====================================================================== *)
(* 4. Calibrated linear                                                    *)
(* ====================================================================== *)
Lemma nth_no_bounds k i : nth i (no_bounds k) nob = (None, None).
Proof. unfold no_bounds, nob. exact (map_nth (fun _ : Q => (@None Q, @None Q)) k 0 i). Qed.
Lemma no_bounds_length k : length (no_bounds k) = length k.
Proof. unfold no_bounds. apply map_length. Qed.

Lemma lin_nb_set k b z i v : (i < length k)%nat -> length z = length k ->
  lin_unit k b (no_bounds k) (set_nth i v z) - lin_unit k b (no_bounds k) z == nth i k 0 * (v - nth i z 0).
Proof. intros Hi Hz. unfold lin_unit.
  pose proof (lin_sum_set k (no_bounds k) z i v Hi ltac:(rewrite no_bounds_length; exact Hi) ltac:(lia)) as H.
  rewrite nth_no_bounds in H. cbn [fst snd clip_opt clip_lo clip_hi] in H. lra. Qed.

Theorem cal_linear_core k b cals oc x i v :
  length cals = length k -> length x = length k -> (i < length k)%nat ->
  0 <= nth i k 0 -> out_monotone oc ->
  calib_eval (nth i cals dcal) (nth i x 0) <= calib_eval (nth i cals dcal) v ->
  cal_linear_eval k b cals oc x <= cal_linear_eval k b cals oc (set_nth i v x).
Proof. intros Hc Hx Hi Hk Ho Hle. unfold cal_linear_eval. apply out_eval_mono. exact Ho.
  rewrite calibrate_set_nth by lia.
  pose proof (lin_nb_set k b (calibrate cals x) i (calib_eval (nth i cals dcal) v) Hi
                ltac:(rewrite calibrate_length; lia)) as H.
  rewrite nth_calibrate in H by lia.
  pose proof (qmul_nonneg (nth i k 0) (calib_eval (nth i cals dcal) v - calib_eval (nth i cals dcal) (nth i x 0)) Hk ltac:(lra)).
  lra. Qed.

Theorem compose_monotone_linear k b cals oc x i v kps lens col miss :
  length cals = length k -> length x = length k -> (i < length k)%nat ->
  0 <= nth i k 0 -> out_monotone oc ->
  nth i cals dcal = CPwl kps lens col miss -> Forall (fun l => 0 < l) lens ->
  regular_input (nth i cals dcal) (nth i x 0) -> regular_input (nth i cals dcal) v -> nth i x 0 <= v ->
  (outs_nondecr col -> cal_linear_eval k b cals oc x <= cal_linear_eval k b cals oc (set_nth i v x)) /\
  (outs_nonincr col -> cal_linear_eval k b cals oc (set_nth i v x) <= cal_linear_eval k b cals oc x).
Proof. intros Hc Hx Hi Hk Ho E Hl Rx Rv Hle. rewrite E in Rx, Rv.
  destruct (calib_pwl_monotone kps lens col miss _ _ Hl Rx Rv Hle) as [Inc Dec]. split; intros Hd.
  - apply cal_linear_core; try assumption. rewrite E. apply Inc. exact Hd.
  - pose proof (cal_linear_core k b cals oc (set_nth i v x) i (nth i x 0) Hc
                  ltac:(rewrite set_nth_length; exact Hx) Hi Hk Ho) as H.
    rewrite set_nth_twice, set_nth_self in H. apply H. rewrite nth_set_nth_same by lia. rewrite E. apply Dec. exact Hd. Qed.

Theorem compose_monotone_linear_categorical k b cals oc x i vals d a c :
  length cals = length k -> length x = length k -> (i < length k)%nat ->
  0 <= nth i k 0 -> out_monotone oc ->
  nth i cals dcal = CCat vals d -> (a < length vals)%nat -> (c < length vals)%nat ->
  d <> Some (Z.of_nat a) -> d <> Some (Z.of_nat c) -> nth a vals 0 <= nth c vals 0 ->
  cal_linear_eval k b cals oc (set_nth i (qn a) x) <= cal_linear_eval k b cals oc (set_nth i (qn c) x).
Proof. intros Hc Hx Hi Hk Ho E Ha Hb Da Db Hab.
  pose proof (cal_linear_core k b cals oc (set_nth i (qn a) x) i (qn c) Hc
                ltac:(rewrite set_nth_length; exact Hx) Hi Hk Ho) as H.
  rewrite set_nth_twice in H. apply H. rewrite nth_set_nth_same by lia. rewrite E.
  apply calib_cat_pair; assumption. Qed.

Lemma clipped_no_bounds : forall k z, length z = length k -> clipped (no_bounds k) z = z.
Proof. induction k as [|q k IH]; intros [|a z] H; try discriminate. reflexivity.
  cbn [no_bounds map clipped clip_opt clip_lo clip_hi]. f_equal. apply IH. cbn in H; lia. Qed.

(* weighted average of bounded calibrators (no bias): weights non-negative AND
   summing to one.  The second condition is NOT guaranteed after training: see
   refuted_weighted_average_zero below (known finding D32). *)
Theorem bounded_linear k cals oc lo hi x :
  length cals = length k -> length x = length k ->
  (oc = None -> (forall q, In q k -> 0 <= q) /\ qsum k == 1 /\
     forall j, (j < length k)%nat -> calib_range (nth j cals dcal) lo hi /\
                                     (lo <= 0 <= hi \/ domain_input (nth j cals dcal) (nth j x 0))) ->
  out_range oc lo hi -> lo <= cal_linear_eval k 0 cals oc x <= hi.
Proof. intros Hc Hx H Ho. unfold cal_linear_eval. apply out_eval_range. exact Ho. intros E.
  destruct (H E) as [Hk [Hs Hr]].
  pose proof (lin_weighted_average k (no_bounds k) (calibrate cals x) lo hi (no_bounds_length k)
                ltac:(rewrite calibrate_length; lia) Hk Hs) as W.
  assert (G : forall c, In c (clipped (no_bounds k) (calibrate cals x)) -> lo <= c /\ c <= hi).
  { rewrite clipped_no_bounds by (rewrite calibrate_length; lia). intros c Hin.
    destruct (In_nth _ _ 0 Hin) as [j [Hj Ej]]. rewrite calibrate_length in Hj by lia.
    rewrite nth_calibrate in Ej by lia. subst c. destruct (Hr j ltac:(lia)) as [R Dm].
    pose proof (calib_eval_range _ lo hi (nth j x 0) R Dm). tauto. }
  specialize (W G). tauto. Qed.

(* ====================================================================== *)
(* 5. Lattice ensembles (explicit / random / crystals / RTL structure)      *)
(* ====================================================================== *)
Lemma nth_set_nth_Q (l : list Q) i v j : (i < length l)%nat ->
  nth j (set_nth i v l) 0 = if (i =? j)%nat then v else nth j l 0.
Proof. intros Hi. destruct (Nat.eqb_spec i j) as [->|N]. apply nth_set_nth_same; exact Hi. apply nth_set_nth_other; exact N. Qed.

Lemma member_inputs_unused idx x i v : ~ In i idx ->
  map (fun j => nth j (set_nth i v x) 0) idx = map (fun j => nth j x 0) idx.
Proof. intros H. apply map_ext_in. intros j Hj. apply nth_set_nth_other. intros ->. contradiction. Qed.

Lemma member_inputs_set : forall idx p x i v, (i < length x)%nat -> (p < length idx)%nat -> nth p idx 0%nat = i ->
  (forall q, (q < length idx)%nat -> q <> p -> nth q idx 0%nat <> i) ->
  map (fun j => nth j (set_nth i v x) 0) idx = set_nth p v (map (fun j => nth j x 0) idx).
Proof. induction idx as [|j idx IH]; intros p x i v Hi Hp Ep Hq; cbn in Hp; [lia|].
  destruct p as [|p]; cbn [nth] in Ep; cbn [map set_nth].
  - subst j. rewrite nth_set_nth_same by exact Hi. f_equal. apply member_inputs_unused.
    intros Hin. destruct (In_nth _ _ 0%nat Hin) as [q [Hql Eq]]. apply (Hq (S q) ltac:(cbn; lia) ltac:(lia)). exact Eq.
  - assert (j <> i) by (apply (Hq 0%nat ltac:(cbn; lia) ltac:(lia))).
    rewrite nth_set_nth_other by congruence. f_equal. apply IH; try assumption. lia.
    intros q Hql Hne. apply (Hq (S q) ltac:(cbn; lia) ltac:(lia)). Qed.

Definition member_ok (m : member) : Prop :=
  m_sizes m <> [] /\ sizes_ok (m_sizes m) /\ wfK 1 (m_K m) 0 /\ length (m_K m) = prodn (m_sizes m) /\
  length (m_cals m) = length (m_sizes m) /\ length (m_idx m) = length (m_sizes m) /\
  cals_in_range (m_sizes m) (m_cals m).

(* feature i is not read by the member, or is read at exactly one position p
   whose lattice dimension is non-decreasing and whose calibrator unit does not
   decrease from x_i to v *)
Definition member_monotone_in (m : member) (i : nat) (xi v : Q) : Prop :=
  ~ In i (m_idx m) \/
  exists p, (p < length (m_idx m))%nat /\ nth p (m_idx m) 0%nat = i /\
            (forall q, (q < length (m_idx m))%nat -> q <> p -> nth q (m_idx m) 0%nat <> i) /\
            knondecr (m_sizes m) (kern (m_sizes m) (m_K m) 0) p /\
            calib_eval (nth p (m_cals m) dcal) xi <= calib_eval (nth p (m_cals m) dcal) v.

Lemma member_eval_as_lattice m x :
  member_eval m x = cal_lattice_eval (m_sc m) (m_sizes m) (m_K m) (m_cals m) None (member_inputs m x).
Proof. reflexivity. Qed.

Lemma member_monotone m x i v : member_ok m -> (i < length x)%nat -> member_monotone_in m i (nth i x 0) v ->
  member_eval m x <= member_eval m (set_nth i v x).
Proof. intros (Hne & Hs & Hw & Hl & Hc & Hi & Hr) Hix [Hun|(p & Hp & Ep & Hq & HK & Hle)]; rewrite !member_eval_as_lattice; unfold member_inputs.
  - rewrite member_inputs_unused by exact Hun. lra.
  - rewrite (member_inputs_set (m_idx m) p x i v Hix Hp Ep Hq).
    apply cal_lattice_core; try assumption; try exact I. rewrite map_length; exact Hi. lia.
    rewrite (nth_indep _ 0 (nth 0%nat x 0)) by (rewrite map_length; exact Hp).
    rewrite (map_nth (fun j => nth j x 0) (m_idx m) 0%nat p). rewrite Ep. exact Hle. Qed.

Definition comb_monotone (c : combiner) : Prop :=
  match c with Average => True | LinComb w _ => forall q, In q w -> 0 <= q end.

Lemma lin_sum_nb_mono : forall w a b, (forall q, In q w -> 0 <= q) -> Forall2 Qle a b ->
  lin_sum w (no_bounds w) a <= lin_sum w (no_bounds w) b.
Proof. induction w as [|q w IH]; intros a b Hw H; cbn [no_bounds map lin_sum]. lra.
  destruct H as [|x y a b Hxy H]; cbn [lin_sum]. lra. cbn [clip_opt clip_lo clip_hi].
  pose proof (IH a b ltac:(intros; apply Hw; right; assumption) H).
  pose proof (qmul_le_l q x y ltac:(apply Hw; left; reflexivity) Hxy). fold (no_bounds w). lra. Qed.

Lemma qsum_le : forall a b, Forall2 Qle a b -> qsum a <= qsum b.
Proof. induction 1; cbn [qsum]; lra. Qed.

Lemma qn_nonneg n : 0 <= qn n.
Proof. unfold qn. change 0 with (inject_Z 0). rewrite <- Zle_Qle. lia. Qed.
Lemma qn_S n : qn (S n) == qn n + 1.
Proof. unfold qn. rewrite Nat2Z.inj_succ. unfold Z.succ. rewrite inject_Z_plus. reflexivity. Qed.

Lemma combine_mono c a b : comb_monotone c -> Forall2 Qle a b -> combine_outs c a <= combine_outs c b.
Proof. destruct c as [|w bias]; cbn [comb_monotone combine_outs]; intros Hc H.
  - unfold average. assert (length a = length b) by (induction H; cbn; congruence). rewrite H0.
    unfold Qdiv. apply Qmult_le_compat_r. apply qsum_le; exact H. apply Qinv_le_0_compat. apply qn_nonneg.
  - unfold lin_unit. pose proof (lin_sum_nb_mono w a b Hc H). lra. Qed.

Theorem ensemble_monotone ms c oc x x' : comb_monotone c -> out_monotone oc ->
  (forall m, In m ms -> member_eval m x <= member_eval m x') ->
  ensemble_eval ms c oc x <= ensemble_eval ms c oc x'.
Proof. intros Hc Ho H. unfold ensemble_eval. apply out_eval_mono. exact Ho. apply combine_mono. exact Hc.
  induction ms as [|m ms IH]; cbn [map]; constructor. apply H; left; reflexivity. apply IH. intros; apply H; right; assumption. Qed.

(* wiring of every member + monotone combiner + monotone output calibrator *)
Theorem ensemble_compose_monotone ms c oc x i v : comb_monotone c -> out_monotone oc -> (i < length x)%nat ->
  (forall m, In m ms -> member_ok m /\ member_monotone_in m i (nth i x 0) v) ->
  ensemble_eval ms c oc x <= ensemble_eval ms c oc (set_nth i v x).
Proof. intros Hc Ho Hi H. apply ensemble_monotone; try assumption. intros m Hm. destruct (H m Hm) as [Hok Hmono].
  apply member_monotone; assumption. Qed.

Lemma member_bounds m x lo hi : member_ok m ->
  (forall i, valid (m_sizes m) i -> lo <= kern (m_sizes m) (m_K m) 0 i <= hi) ->
  lo <= member_eval m x <= hi.
Proof. intros (Hne & Hs & Hw & Hl & Hc & Hi & Hr) HK. rewrite member_eval_as_lattice.
  apply bounded_lattice; try assumption. unfold member_inputs. rewrite map_length. exact Hi. auto. exact I. Qed.

Lemma qsum_range : forall outs lo hi, (forall v, In v outs -> lo <= v <= hi) ->
  lo * qn (length outs) <= qsum outs <= hi * qn (length outs).
Proof. induction outs as [|a outs IH]; intros lo hi H; cbn [length qsum].
  - change (qn 0%nat) with 0. lra.
  - rewrite qn_S. pose proof (IH lo hi ltac:(intros; apply H; right; assumption)). pose proof (H a (or_introl eq_refl)). lra. Qed.

Lemma average_range outs lo hi : outs <> [] -> (forall v, In v outs -> lo <= v <= hi) -> lo <= average outs <= hi.
Proof. intros Hne H. unfold average. pose proof (qsum_range outs lo hi H) as [A B].
  assert (P : 0 < qn (length outs)).
  { destruct outs; [congruence|]. cbn [length]. rewrite qn_S. pose proof (qn_nonneg (length outs)). lra. }
  split. apply Qle_shift_div_l; assumption. apply Qle_shift_div_r; assumption. Qed.

Definition comb_average_like (c : combiner) (n : nat) : Prop :=
  match c with
  | Average => (0 < n)%nat
  | LinComb w b => length w = n /\ b == 0 /\ (forall q, In q w -> 0 <= q) /\ qsum w == 1
  end.

Lemma combine_range c outs lo hi : comb_average_like c (length outs) -> (forall v, In v outs -> lo <= v <= hi) ->
  lo <= combine_outs c outs <= hi.
Proof. destruct c as [|w b]; cbn [comb_average_like combine_outs]; intros Hc H.
  - apply average_range. destruct outs; [cbn in Hc; lia|discriminate]. exact H.
  - destruct Hc as (Hl & Hb & Hw & Hs).
    pose proof (lin_weighted_average w (no_bounds w) outs lo hi (no_bounds_length w) ltac:(lia) Hw Hs) as W.
    rewrite clipped_no_bounds in W by lia.
    assert (G : forall c, In c outs -> lo <= c /\ c <= hi) by (intros c Hc; pose proof (H c Hc); tauto).
    specialize (W G). unfold lin_unit in *. lra. Qed.

Theorem ensemble_bounded ms c oc lo hi x :
  (oc = None -> comb_average_like c (length ms) /\
                forall m, In m ms -> member_ok m /\
                  forall i, valid (m_sizes m) i -> lo <= kern (m_sizes m) (m_K m) 0 i <= hi) ->
  out_range oc lo hi -> lo <= ensemble_eval ms c oc x <= hi.
Proof. intros H Ho. unfold ensemble_eval. apply out_eval_range. exact Ho. intros E. destruct (H E) as [Hc Hm].
  apply combine_range. rewrite map_length; exact Hc.
  intros v Hv. apply in_map_iff in Hv. destruct Hv as [m [<- Hin]]. destruct (Hm m Hin) as [Hok HK].
  apply member_bounds; assumption. Qed.

(* ====================================================================== *)
(* 6. The state machine instantiated for the constrained variable kinds    *)
(*    with the finished constraint theorems C01 / C04 / C06                 *)
(* ====================================================================== *)
From TFL Require Import Proofs.LatticeSpecFacts Proofs.LatticeFinalize.
From TFL Require Import Model.PWLProject Proofs.PWLProject.
From TFL Require Import Model.LinearProject Proofs.PartialOrder Proofs.TopoSort Proofs.LinearProject.
From TFL Require Props.C01 Props.C04 Props.C06.

(* ---- Lattice kernel (strict LatticeConstraints, monotonic_at_every_step) ----
   value: the kernel tensor over l_shape = sizes ++ [units];
   constraint: LC c ran applied to the result of the Dykstra stage, the latter
   an ARBITRARY function [ld_dyk] (C01 holds for every Dykstra output). *)
Record lat_desc := mkLatD { ld_cfg : lat_cfg; ld_ran : bool; ld_dyk : tens -> tens; ld_init : tens }.
Definition lat_var (d : lat_desc) : var tens := mkVar (ld_init d) (fun w => LC (ld_cfg d) (ld_ran d) (ld_dyk d w)).
Definition lat_inv (d : lat_desc) (f : tens) : Prop :=
  monotone_kernel (ld_cfg d) f /\
  lower_ok (l_shape (ld_cfg d)) (l_min (ld_cfg d)) f /\ upper_ok (l_shape (ld_cfg d)) (l_max (ld_cfg d)) f.
(* accepted config, the Dykstra/finalize block is entered whenever a dimension is
   monotone, NOT the known-finding-D1 class, and a feasible initial kernel (C10) *)
Definition lat_desc_ok (d : lat_desc) : Prop :=
  cfg_valid (ld_cfg d) /\ block_ok (ld_cfg d) (ld_ran d) /\ ~ trap_mono_cond_with_edgeworth (ld_cfg d) /\
  lat_inv d (ld_init d).

Theorem reachable_feasible_lattice ds ops : (forall d, In d ds -> lat_desc_ok d) ->
  forall s, In s (run (map lat_var ds) ops) -> Forall2 lat_inv ds s.
Proof. intros H s Hs.
  apply (reachable_feasible tens lat_desc lat_var lat_inv (fun _ _ => True) ds) with (ops := ops).
  - intros d Hd. destruct (H d Hd) as (_ & _ & _ & Hi). exact Hi.
  - intros d w Hd _. destruct (H d Hd) as (Hv & Hb & Hg & _). cbn [lat_var v_con]. split.
    + exact (C01.C01_monotone (ld_cfg d) Hv (ld_ran d) (ld_dyk d w) Hb Hg).
    + exact (C01.C01_bounds (ld_cfg d) Hv (ld_ran d) (ld_dyk d w)).
  - intros delta _ i d _. exact I.
  - exact Hs. Qed.

(* from the tensor invariant of C01 to the hypotheses of the composition theorems:
   Kmat represents f when its row-major entry (i, u) is f (i ++ [u]) *)
Definition represents (sizes : list nat) (units : nat) (Kmat : list (list Q)) (f : tens) : Prop :=
  forall i u, valid sizes i -> (u < units)%nat -> kern sizes Kmat u i == f (i ++ [u]).

Lemma valid_app_unit sizes units i u : valid sizes i -> (u < units)%nat -> valid (sizes ++ [units]) (i ++ [u]).
Proof. induction 1; intros Hu; cbn. constructor. exact Hu. constructor. constructor. assumption. auto. Qed.
Lemma upd_app_unit : forall (i : idx) d k u, (d < length i)%nat -> upd (i ++ [u]) d k = upd i d k ++ [u].
Proof. induction i as [|a i IH]; intros d k u Hd; cbn in Hd. lia. destruct d; cbn. reflexivity. f_equal. apply IH. lia. Qed.

Lemma monotone_kernel_knondecr c Kmat f u d : represents (l_sizes c) (l_units c) Kmat f -> (u < l_units c)%nat ->
  monotone_kernel c f -> In d (mono_dims (l_monos c)) -> (d < length (l_sizes c))%nat ->
  knondecr (l_sizes c) (kern (l_sizes c) Kmat u) d.
Proof. intros Hr Hu Hm Hd Hlt i Hi Hb. pose proof (valid_length _ _ Hi) as Li.
  rewrite (Hr i u Hi Hu). rewrite (Hr _ u (upd_valid _ _ _ _ Hi Hb) Hu).
  pose proof (Hm d Hd (i ++ [u]) (valid_app_unit _ _ _ _ Hi Hu)) as H. unfold l_shape in H.
  rewrite !app_nth1 in H by lia. specialize (H Hb). rewrite upd_app_unit in H by lia. exact H. Qed.

Lemma kernel_bounds_kern c Kmat f u lo hi : represents (l_sizes c) (l_units c) Kmat f -> (u < l_units c)%nat ->
  lower_ok (l_shape c) (Some lo) f -> upper_ok (l_shape c) (Some hi) f ->
  forall i, valid (l_sizes c) i -> lo <= kern (l_sizes c) Kmat u i <= hi.
Proof. intros Hr Hu Hlo Hhi i Hi. rewrite (Hr i u Hi Hu). pose proof (valid_app_unit _ _ _ _ Hi Hu) as Hv.
  split; [apply Hlo|apply Hhi]; exact Hv. Qed.

(* ---- PWLCalibration kernel column (bias :: heights) ---- *)
Record pwl_desc := mkPwlD { pd_cfg : pwl_cfg; pd_n : nat; pd_init : list Q }.
Definition pwl_var (d : pwl_desc) : var (list Q) := mkVar (pd_init d) (pwl_project_col (pd_cfg d)).
Definition pwl_shape (d : pwl_desc) (w : list Q) : Prop := exists bias hs, w = bias :: hs /\ length hs = pd_n d.
(* signs of the heights (exact); bounds on every keypoint output unless the
   calibrator is monotone AND convex/concave (known finding D2) *)
Definition pwl_inv (d : pwl_desc) (w : list Q) : Prop :=
  let c := pd_cfg d in
  (p_mono c = 1%Z -> Forall (fun h => 0 <= h) (tl w)) /\
  (p_mono c = (-1)%Z -> Forall (fun h => h <= 0) (tl w)) /\
  (~ (p_mono c <> 0%Z /\ p_conv c <> 0%Z) ->
     (p_cmin c <> BNone -> Forall (fun s => p_min c <= s) (keypoint_outputs w)) /\
     (p_cmax c <> BNone -> Forall (fun s => s <= p_max c) (keypoint_outputs w))).
Definition pwl_desc_ok (d : pwl_desc) : Prop := pwl_valid (pd_cfg d) (pd_n d) /\ pwl_inv d (pd_init d).

Theorem reachable_feasible_pwl ds ops : (forall d, In d ds -> pwl_desc_ok d) ->
  ops_shaped (list Q) pwl_desc pwl_shape ds ops ->
  forall s, In s (run (map pwl_var ds) ops) -> Forall2 pwl_inv ds s.
Proof. intros H Hops s Hs.
  apply (reachable_feasible (list Q) pwl_desc pwl_var pwl_inv pwl_shape ds) with (ops := ops); try assumption.
  - intros d Hd. apply (H d Hd).
  - intros d w Hd (bias & hs & -> & Hl). destruct (H d Hd) as [Hv _]. cbn [pwl_var v_con]. unfold pwl_inv.
    destruct (C04.C04_monotone_exact (pd_cfg d) (pd_n d) bias hs Hv Hl) as [A B].
    split; [exact A|]. split; [exact B|]. intros Hg.
    exact (C04.C04_bounds (pd_cfg d) (pd_n d) bias hs Hv Hl Hg). Qed.

Lemma cumsum_from_incl : forall l acc, cumsum_from acc l = cumsum_incl acc l.
Proof. induction l as [|a l IH]; intros acc; cbn [cumsum_from cumsum_incl]. reflexivity. rewrite IH. reflexivity. Qed.
Lemma keypoint_outputs_kp_outs w : keypoint_outputs w = kp_outs w.
Proof. unfold keypoint_outputs, cumsum, kp_outs. apply cumsum_from_incl. Qed.

Lemma heights_sorted : forall hs acc, Forall (fun h => 0 <= h) hs ->
  forall j, (j < length hs)%nat -> nth j (acc :: cumsum_incl acc hs) 0 <= nth (S j) (acc :: cumsum_incl acc hs) 0.
Proof. induction hs as [|h hs IH]; intros acc H j Hj; cbn in Hj. lia. inversion H; subst.
  destruct j as [|j]. cbn. lra. exact (IH (acc + h) ltac:(assumption) j ltac:(lia)). Qed.
Lemma heights_antisorted : forall hs acc, Forall (fun h => h <= 0) hs ->
  forall j, (j < length hs)%nat -> nth (S j) (acc :: cumsum_incl acc hs) 0 <= nth j (acc :: cumsum_incl acc hs) 0.
Proof. induction hs as [|h hs IH]; intros acc H j Hj; cbn in Hj. lia. inversion H; subst.
  destruct j as [|j]. cbn. lra. exact (IH (acc + h) ltac:(assumption) j ltac:(lia)). Qed.

(* the C04 invariant gives the calibrator hypotheses of the composition theorems *)
Lemma pwl_inv_nondecr w : Forall (fun h => 0 <= h) (tl w) -> outs_nondecr w.
Proof. destruct w as [|b hs]; intros H j Hj; cbn in Hj. lia. unfold kp_outs. cbn [cumsum_incl tl] in *.
  apply heights_sorted. exact H. lia. Qed.
Lemma pwl_inv_nonincr w : Forall (fun h => h <= 0) (tl w) -> outs_nonincr w.
Proof. destruct w as [|b hs]; intros H j Hj; cbn in Hj. lia. unfold kp_outs. cbn [cumsum_incl tl] in *.
  apply heights_antisorted. exact H. lia. Qed.
Lemma pwl_inv_range w lo hi : Forall (fun s => lo <= s) (keypoint_outputs w) -> Forall (fun s => s <= hi) (keypoint_outputs w) ->
  forall y, In y (kp_outs w) -> lo <= y <= hi.
Proof. rewrite keypoint_outputs_kp_outs. intros A B y Hy. rewrite Forall_forall in A, B. split; auto. Qed.

(* ---- missing-output weight of a calibrator with a default_value: NaiveBoundsConstraints ---- *)
Record mo_desc := mkMoD { md_lo : Q; md_hi : Q; md_init : Q }.
Definition mo_var (d : mo_desc) : var Q := mkVar (md_init d) (naive_bounds (Some (md_lo d)) (Some (md_hi d))).
Definition mo_inv (d : mo_desc) (w : Q) : Prop := md_lo d <= w <= md_hi d.
Theorem reachable_feasible_missing_output ds ops : (forall d, In d ds -> md_lo d <= md_hi d /\ mo_inv d (md_init d)) ->
  forall s, In s (run (map mo_var ds) ops) -> Forall2 mo_inv ds s.
Proof. intros H s Hs.
  apply (reachable_feasible Q mo_desc mo_var mo_inv (fun _ _ => True) ds) with (ops := ops); try assumption.
  - intros d Hd. apply (H d Hd).
  - intros d w Hd _. destruct (H d Hd) as [Hle _]. cbn [mo_var v_con]. unfold mo_inv.
    pose proof (C04.C04_missing_bounded (md_lo d) (md_hi d) w Hle). tauto.
  - intros delta _ i d _. exact I. Qed.

(* ---- Linear kernel column ---- *)
Record lin_desc := mkLinD { nd_rt : Q -> Q; nd_cfg : lin_cfg; nd_n : nat; nd_init : list Q }.
Definition lin_con (rt : Q -> Q) (c : lin_cfg) (w : list Q) : list Q :=
  match lin_project_col rt c w with Some r => r | None => w end.
Definition lin_var (d : lin_desc) : var (list Q) := mkVar (nd_init d) (lin_con (nd_rt d) (nd_cfg d)).
Definition lin_inv (d : lin_desc) (r : list Q) : Prop :=
  forall i, (nth i (lc_monos (nd_cfg d)) 0%Z = 1%Z -> 0 <= nth i r 0) /\
            (nth i (lc_monos (nd_cfg d)) 0%Z = (-1)%Z -> nth i r 0 <= 0).
Theorem reachable_feasible_linear ds ops :
  (forall d, In d ds -> lin_valid (nd_cfg d) (nd_n d) /\ lin_inv d (nd_init d)) ->
  ops_shaped (list Q) lin_desc (fun d w => length w = nd_n d) ds ops ->
  forall s, In s (run (map lin_var ds) ops) -> Forall2 lin_inv ds s.
Proof. intros H Hops s Hs.
  apply (reachable_feasible (list Q) lin_desc lin_var lin_inv (fun d w => length w = nd_n d) ds) with (ops := ops); try assumption.
  - intros d Hd. apply (H d Hd).
  - intros d w Hd Hl. destruct (H d Hd) as [Hv _]. cbn [lin_var v_con]. unfold lin_con.
    destruct (C06.C06_linear_defined (nd_rt d) (nd_cfg d) (nd_n d) w Hv Hl) as [r [E _]]. rewrite E.
    exact (C06.C06_signs (nd_rt d) (nd_cfg d) (nd_n d) w r Hv Hl E). Qed.

(* ---- CategoricalCalibration kernel column ---- *)
Record cat_desc := mkCatD { cd_pairs : pairs; cd_lo : option Q; cd_hi : option Q; cd_n : nat; cd_init : list Q }.
Definition cat_con (ps : pairs) (lo hi : option Q) (w : list Q) : list Q :=
  match cat_project_col ps lo hi w with Some r => r | None => w end.
Definition cat_var (d : cat_desc) : var (list Q) := mkVar (cd_init d) (cat_con (cd_pairs d) (cd_lo d) (cd_hi d)).
Definition cat_inv (d : cat_desc) (r : list Q) : Prop :=
  PartialOrder.feasible (cd_pairs d) r /\
  forall x, In x r -> (forall h, cd_hi d = Some h -> x <= h) /\
                      (forall l, cd_lo d = Some l -> (forall h, cd_hi d = Some h -> l <= h) -> l <= x).
Definition cat_desc_ok (d : cat_desc) : Prop :=
  acyclic (cd_pairs d) /\ (forall i j, In (i, j) (cd_pairs d) -> (i < cd_n d)%nat /\ (j < cd_n d)%nat) /\
  cat_inv d (cd_init d).
Theorem reachable_feasible_categorical ds ops : (forall d, In d ds -> cat_desc_ok d) ->
  ops_shaped (list Q) cat_desc (fun d w => length w = cd_n d) ds ops ->
  forall s, In s (run (map cat_var ds) ops) -> Forall2 cat_inv ds s.
Proof. intros H Hops s Hs.
  apply (reachable_feasible (list Q) cat_desc cat_var cat_inv (fun d w => length w = cd_n d) ds) with (ops := ops); try assumption.
  - intros d Hd. apply (H d Hd).
  - intros d w Hd Hl. destruct (H d Hd) as (Hac & Hr & _). cbn [cat_var v_con]. unfold cat_con.
    assert (Hpr : pairs_in_range (cd_pairs d) w) by (intros i j Hij; rewrite Hl; apply Hr; exact Hij).
    destruct (C06.C06_categorical_defined (cd_pairs d) (cd_lo d) (cd_hi d) w Hac Hpr) as [r [E _]]. rewrite E. split.
    + destruct (cd_pairs d) as [|p0 ps] eqn:Eps. intros i j []. rewrite <- Eps in *.
      apply (C06.C06_categorical_pairs (cd_pairs d) (cd_lo d) (cd_hi d) w r); try assumption. rewrite Eps; discriminate.
    + exact (C06.C06_categorical_bounds (cd_pairs d) (cd_lo d) (cd_hi d) w r E). Qed.

(* ====================================================================== *)
(* 7. Wiring functions, the weighted-average gap (D32), non-vacuity          *)
(* ====================================================================== *)
(* every feature that premade_lib gives a monotone calibrator / ordered buckets
   gets a monotone lattice (linear) dimension, in explicit AND in RTL ensembles *)
Lemma wiring_monotone_dim f : (match f with MNum m => m <> 0%Z | MPairs ps => ps <> [] end) ->
  lattice_dim_mono f = 1%Z /\ rtl_routed_increasing f = true.
Proof. unfold rtl_routed_increasing. destruct f as [m|[|p ps]]; cbn [lattice_dim_mono]; intros H.
  - destruct (m =? 0)%Z eqn:E; [apply Z.eqb_eq in E; contradiction|]. split; reflexivity.
  - congruence.
  - split; reflexivity. Qed.

(* calibrator output range configured by _output_range for lattice inputs *)
Lemma wiring_lattice_input_range s : output_range (InputToLattice s) = (Some 0, Some (qn s - 1)).
Proof. reflexivity. Qed.

(* Known finding D32: the Linear constraint with normalization_order=1 maps a
   raw kernel whose entries are all negative to the zero vector (sign clip, then
   "norm < eps -> leave as is"), and the calibrated-linear model then outputs 0,
   outside [output_min, output_max] = [1, 2] although every calibrator is inside. *)
Definition d32_cfg : lin_cfg := mkLin [1; 1]%Z [] [] [None; None] [None; None] 1.
Definition d32_cal : calib := CPwl [0] [1] [1; 1] None.

Lemma d32_cfg_valid : lin_valid d32_cfg 2.
Proof. constructor; cbn [d32_cfg lc_monos lc_mdom lc_rdom lc_min lc_max]; try reflexivity; try (intros; congruence).
  - intros i. unfold mono. cbn. destruct i as [|[|i]]; auto. destruct i; auto.
  - intros d k [].
  - intros d k [].
  - intros i [x [H|H]]; destruct H.
  - apply (acyclic_rank _ (fun x => x)). intros a b [].
  - apply (acyclic_rank _ (fun x => x)). intros a b []. Qed.

Lemma refuted_weighted_average_zero :
  exists rt c w r cals lo hi x,
    lin_valid c (length w) /\ lc_norm c = 1%nat /\ (forall i, (i < length w)%nat -> nth i (lc_monos c) 0%Z = 1%Z) /\
    lin_project_col rt c w = Some r /\ length cals = length r /\ length x = length r /\
    (forall j, (j < length r)%nat -> calib_range (nth j cals dcal) lo hi /\ domain_input (nth j cals dcal) (nth j x 0)) /\
    (forall q, In q r -> 0 <= q) /\ ~ qsum r == 1 /\
    cal_linear_eval r 0 cals None x < lo.
Proof. exists (fun q => q), d32_cfg, [-(5); -(7)], [0; 0], [d32_cal; d32_cal], 1, 2, [0; 1#2].
  split. exact d32_cfg_valid. split. reflexivity.
  split. { intros i Hi. cbn in Hi. destruct i as [|[|i]]; try reflexivity. lia. }
  split. vm_compute; reflexivity. split. reflexivity. split. reflexivity.
  split. { intros j Hj. cbn in Hj. assert (E : nth j [d32_cal; d32_cal] dcal = d32_cal) by (destruct j as [|[|j]]; try reflexivity; lia).
    rewrite E. split; [|exact I]. unfold d32_cal. cbn [calib_range]. split. exists 1. cbn. lra. split. reflexivity. split; [|exact I].
    unfold kp_outs. cbn [cumsum_incl In]. intros y [<-|[<-|[]]]; lra. }
  split. { intros q [<-|[<-|[]]]; lra. }
  split. { cbn. lra. }
  vm_compute. reflexivity. Qed.

(* ---- non-vacuity: a concrete 2-feature calibrated lattice ----
   feature 0: increasing numeric, keypoints 0, 1, 3 -> outputs 0, 1/2, 1 (lattice size 2),
              default_value -1 with missing output 1/4;
   feature 1: categorical, 3 buckets with values 0, 2, 1 (lattice size 3), pair (0, 2);
   lattice 2 x 3, kernel non-decreasing along both dimensions, inside [0, 6];
   output calibrator: keypoints 0, 3, 6 -> outputs -1, 0, 2. *)
Definition ex_cal0 : calib := CPwl [0; 1] [1; 2] [0; 1#2; 1#2] (Some (-(1), 1#4)).
Definition ex_cal1 : calib := CCat [0; 2; 1] (Some (-1)%Z).
Definition ex3_sizes : list nat := [2; 3]%nat.
Definition ex3_K : list (list Q) := [[0]; [1]; [3]; [1]; [2]; [6]].
Definition ex3_oc : out_calib := Some ([0; 3], [3; 3], [-(1); 1; 2]).

Example ex3_sizes_ok : sizes_ok ex3_sizes. Proof. repeat constructor. Qed.
Example ex3_wfK : wfK 1 ex3_K 0. Proof. split. lia. repeat constructor. Qed.
Example ex3_in_range : cals_in_range ex3_sizes [ex_cal0; ex_cal1].
Proof. intros j Hj. cbn in Hj. destruct j as [|[|j]]; try lia; cbn [nth ex3_sizes].
  - unfold ex_cal0. cbn [calib_range]. split. exists 3. cbn. repeat split; lra. split. reflexivity.
    assert (E : qn 2 - 1 == 1) by reflexivity. split; [|rewrite E; lra].
    unfold kp_outs. cbn [cumsum_incl In]. intros y Hy. rewrite E. destruct Hy as [<-|[<-|[<-|[]]]]; lra.
  - unfold ex_cal1. cbn [calib_range]. assert (E : qn 3 - 1 == 2) by reflexivity.
    intros v Hv. rewrite E. destruct Hv as [<-|[<-|[<-|[]]]]; lra. Qed.
Example ex3_knondecr : knondecr ex3_sizes (kern ex3_sizes ex3_K 0) 0 /\ knondecr ex3_sizes (kern ex3_sizes ex3_K 0) 1.
Proof. split; intros i Hi Hb; all_valid i Hi; cbn in Hb; try lia; apply Qle_bool_iff; vm_compute; reflexivity. Qed.
Example ex3_out_monotone : out_monotone ex3_oc.
Proof. cbn. split. repeat constructor; lra. intros j Hj. cbn in Hj. unfold kp_outs. destruct j as [|[|j]]; cbn; try lra; lia. Qed.
Example ex3_outs_nondecr : outs_nondecr [0; 1#2; 1#2].
Proof. intros j Hj. cbn in Hj. unfold kp_outs. destruct j as [|[|j]]; cbn; try lra; lia. Qed.
Example ex3_regular : regular_input ex_cal0 (1#2) /\ regular_input ex_cal0 5 /\ regular_input ex_cal1 (qn 0) /\ regular_input ex_cal1 (qn 2).
Proof. cbn. repeat split; try lia; try discriminate; intros H; vm_compute in H; discriminate. Qed.
Example ex3_kernel_bounds : forall i, valid ex3_sizes i -> 0 <= kern ex3_sizes ex3_K 0 i <= 6.
Proof. apply column_bounds_kern. reflexivity. cbn. intros v H. repeat (destruct H as [<-|H]; [lra|]). destruct H. Qed.
Example ex3_out_range : out_range ex3_oc (-(1)) 2.
Proof. cbn. split. exists 6. cbn. repeat split; lra. split. reflexivity.
  unfold kp_outs. cbn [cumsum_incl In]. intros y [<-|[<-|[<-|[]]]]; lra. Qed.
(* the model evaluated on it: increasing in feature 0 (in range, out of range),
   ordered along the categorical pair (0, 2), missing value inside the bounds *)
Example ex3_values :
  cal_lattice_eval Hypercube ex3_sizes ex3_K [ex_cal0; ex_cal1] ex3_oc [1#2; 0] == -(11#12) /\
  cal_lattice_eval Hypercube ex3_sizes ex3_K [ex_cal0; ex_cal1] ex3_oc [5; 0] == -(2#3) /\
  cal_lattice_eval Simplex ex3_sizes ex3_K [ex_cal0; ex_cal1] ex3_oc [5; 2] == -(1#3) /\
  cal_lattice_eval Simplex ex3_sizes ex3_K [ex_cal0; ex_cal1] ex3_oc [-(1); 1] == 1#2.
Proof. repeat split; vm_compute; reflexivity. Qed.

(* state machine: two PWL calibrator columns driven by a hostile history *)
Definition ex_pwl_d : pwl_desc := mkPwlD (mkPwl 1 0 0 1 BBound BBound [1; 2] 4) 2 [0; 1#2; 1#2].
Example ex_pwl_desc_ok : pwl_desc_ok ex_pwl_d.
Proof. split.
  - unfold pwl_valid; cbn. repeat split; try lia; try lra; auto; try (intros; discriminate). repeat constructor; lra.
  - unfold pwl_inv, ex_pwl_d; cbn [pd_cfg pd_init p_mono p_conv p_cmin p_cmax p_min p_max tl]. split.
    intros _. repeat constructor; lra. split. intros H; discriminate. intros _. unfold keypoint_outputs, cumsum. cbn.
    split; intros _; repeat constructor; lra. Qed.
Example ex_history_shaped :
  ops_shaped (list Q) pwl_desc pwl_shape [ex_pwl_d; ex_pwl_d]
    [Update (fun i => [-(100); 7; -(50)]); Restore 0; Update (fun i => [50; -(3); 1000]); Init; Restore 2].
Proof. intros delta H i d Hd.
  assert (E : d = ex_pwl_d) by (destruct i as [|[|[|i]]]; cbn in Hd; try discriminate; injection Hd as <-; reflexivity).
  subst d. cbn in H. destruct H as [H|[H|[H|[H|[H|[]]]]]]; try discriminate; inversion H; subst;
    eexists _, _; split; reflexivity. Qed.
Example ex_history_run :
  final (map pwl_var [ex_pwl_d; ex_pwl_d])
    [Update (fun i => [-(100); 7; -(50)]); Restore 0; Update (fun i => [50; -(3); 1000]); Init; Restore 2]
  = init_state (map pwl_var [ex_pwl_d; ex_pwl_d]).
Proof. vm_compute. reflexivity. Qed.
