(* C09, Lattice part: units never interact.

   The Lattice models (Model/LatticeFinalize.v, Model/LatticeDykstra.v) work on
   the kernel as a tensor of shape  sizes ++ [units]  and perform explicit
   per-unit reductions ([unit_viols], [unit_vals]: maxima / minima over all axes
   but the last).  This file proves that the multi-unit result restricted to
   unit u is the single-unit model (units = 1) run on unit u's column alone.

   Method.  [slice u W] fixes the unit coordinate of W to u.  The relation
       sim A W  :=  forall x, uix x -> A x == W (lift x)
   ("A is column u of W"; uix x = x has the rank of the kernel and unit
   coordinate 0, lift x = x with the unit coordinate set to u) is preserved by
   every pass of the models when the left side runs with units = 1 and the right
   side with the real unit count.  [sim] is stated on all indices of the right
   rank, not only on the valid ones: [memo] returns 0 at an out-of-range index
   on both sides, so no validity side conditions arise for the indices a pass
   reads.  Instantiated with units = 1, u = 0 the same lemmas say that every
   single-unit pass respects pointwise equality (this is what makes the passes
   compose, and gives the permutation corollary). *)
From TFL Require Import Proofs.LatticeSpecFacts Proofs.LatticeMono Model.LatticeDykstra Harness.H_C09.
Open Scope Q_scope.

(* ------------------------------------------------------------------ *)
(* memo outside the valid range                                         *)
(* ------------------------------------------------------------------ *)
Lemma memo_cases sh : forall f i, length i = length sh ->
  (valid sh i /\ memo sh f i = f i) \/ (~ valid sh i /\ memo sh f i = 0).
Proof. induction sh as [|s sh IH]; intros f i Hl.
  - destruct i; [|discriminate]. left. split; [constructor|reflexivity].
  - destruct i as [|k r]; [discriminate|]. cbn in Hl. cbn [memo].
    destruct (Nat.ltb_spec k s) as [Hk|Hk].
    + rewrite nth_indep with (d' := memo sh (fun i => f (0%nat :: i))) by (rewrite map_length, seq_length; lia).
      change (memo sh (fun i => f (0%nat :: i))) with ((fun k => memo sh (fun i => f (k :: i))) 0%nat).
      rewrite map_nth. rewrite seq_nth by lia. cbn [Nat.add].
      destruct (IH (fun i => f (k :: i)) r ltac:(lia)) as [[Hv E]|[Hv E]].
      * left. split; [constructor; assumption|exact E].
      * right. split; [|exact E]. intros H; inversion H; subst; auto.
    + right. split. intros H; inversion H; subst; lia.
      rewrite nth_overflow by (rewrite map_length, seq_length; lia). reflexivity. Qed.

Lemma fold_qmax_ext {A} (f g : A -> Q) l : (forall b, In b l -> f b == g b) ->
  forall a a', a == a' -> fold_left qmax (map f l) a == fold_left qmax (map g l) a'.
Proof. induction l as [|b l IH]; intros H a a' Ha; cbn [map fold_left]. exact Ha.
  apply IH. intros; apply H; right; assumption. rewrite Ha, (H b (or_introl eq_refl)). reflexivity. Qed.
Lemma fold_qmin_ext {A} (f g : A -> Q) l : (forall b, In b l -> f b == g b) ->
  forall a a', a == a' -> fold_left qmin (map f l) a == fold_left qmin (map g l) a'.
Proof. induction l as [|b l IH]; intros H a a' Ha; cbn [map fold_left]. exact Ha.
  apply IH. intros; apply H; right; assumption. rewrite Ha, (H b (or_introl eq_refl)). reflexivity. Qed.
Lemma maxl0_ext {A} (f g : A -> Q) l : (forall b, In b l -> f b == g b) -> maxl0 (map f l) == maxl0 (map g l).
Proof. intros H. unfold maxl0. apply fold_qmax_ext. exact H. reflexivity. Qed.
Lemma qmaxl_ext {A} (f g : A -> Q) l : (forall b, In b l -> f b == g b) -> qmaxl (map f l) == qmaxl (map g l).
Proof. destruct l as [|b l]; intros H; cbn [map qmaxl]. reflexivity.
  apply fold_qmax_ext. intros; apply H; right; assumption. apply H; left; reflexivity. Qed.
Lemma qminl_ext {A} (f g : A -> Q) l : (forall b, In b l -> f b == g b) -> qminl (map f l) == qminl (map g l).
Proof. destruct l as [|b l]; intros H; cbn [map qminl]. reflexivity.
  apply fold_qmin_ext. intros; apply H; right; assumption. apply H; left; reflexivity. Qed.

Ltac des_ifs := repeat match goal with |- context [if ?b then _ else _] => destruct b end.

(* ------------------------------------------------------------------ *)
(* slices                                                               *)
(* ------------------------------------------------------------------ *)
Section Units.
Variable sizes : list nat.
Variable units : nat.
Variable u : nat.
Hypothesis Hu : (u < units)%nat.

Definition ud := length sizes.
Definition sh := sizes ++ [units].
Definition sh1 := sizes ++ [1%nat].
Definition lift (x : idx) : idx := upd x ud u.
Definition slice (W : tens) : tens := fun x => W (lift x).
(* indices of the kernel's rank whose unit coordinate is 0 *)
Definition uix (x : idx) : Prop := length x = S ud /\ nth ud x 0%nat = 0%nat.
Definition sim (A W : tens) : Prop := forall x, uix x -> A x == W (lift x).

Lemma sh_length : length sh = S ud. Proof using Type. clear Hu. unfold sh, ud. rewrite app_length. cbn. lia. Qed.
Lemma sh1_length : length sh1 = S ud. Proof using Type. clear Hu. unfold sh1, ud. rewrite app_length. cbn. lia. Qed.
Lemma sh_nth_ud : nth ud sh 0%nat = units. Proof using Type. clear Hu. apply unit_axis_nth. Qed.
Lemma sh1_nth_ud : nth ud sh1 0%nat = 1%nat. Proof using Type. clear Hu. apply unit_axis_nth. Qed.
Lemma sh_nth d : d <> ud -> nth d sh 0%nat = nth d sh1 0%nat.
Proof using Type. clear Hu. intros Hd. unfold sh, sh1. destruct (Nat.ltb_spec d ud).
  - rewrite !app_nth1 by assumption. reflexivity.
  - rewrite !nth_overflow; [reflexivity| |]; rewrite app_length; cbn; unfold ud in *; lia. Qed.

Lemma uix_valid x : valid sh1 x -> uix x.
Proof using Type. clear Hu. intros Hv. split. rewrite (valid_length _ _ Hv). apply sh1_length.
  pose proof (valid_nth sh1 x ud Hv ltac:(rewrite sh1_length; lia)). rewrite sh1_nth_ud in H. lia. Qed.
Lemma uix_upd x d k : uix x -> d <> ud -> uix (upd x d k).
Proof using Type. clear Hu. intros [Hl H0] Hd. split. rewrite upd_length. exact Hl. rewrite nth_upd_other by exact Hd. exact H0. Qed.
Lemma uix_at2 x m c i j : uix x -> m <> ud -> c <> ud -> uix (at2 x m c i j).
Proof using Type. clear Hu. intros H Hm Hc. unfold at2. apply uix_upd; [apply uix_upd|]; assumption. Qed.
Lemma uix_upd0 x : length x = S ud -> uix (upd x ud 0%nat).
Proof using Type. clear Hu. intros Hl. split. rewrite upd_length. exact Hl. apply nth_upd_same. lia. Qed.

Lemma lift_nth x d : d <> ud -> nth d (lift x) 0%nat = nth d x 0%nat.
Proof using Type. clear Hu. intros Hd. unfold lift. apply nth_upd_other. auto. Qed.
Lemma lift_nth_ud x : uix x -> nth ud (lift x) 0%nat = u.
Proof using Type. clear Hu. intros [Hl _]. unfold lift. apply nth_upd_same. lia. Qed.
Lemma lift_upd x d k : d <> ud -> upd (lift x) d k = lift (upd x d k).
Proof using Type. clear Hu. intros Hd. unfold lift. apply upd_comm. auto. Qed.
Lemma lift_at2 x m c i j : m <> ud -> c <> ud -> at2 (lift x) m c i j = lift (at2 x m c i j).
Proof using Type. clear Hu. intros Hm Hc. unfold at2. rewrite !lift_upd by assumption. reflexivity. Qed.
Lemma lift_upd0 x : lift (upd x ud 0%nat) = upd x ud u.
Proof using Type. clear Hu. unfold lift. apply upd_upd. Qed.
Lemma lift_length x : length (lift x) = length x.
Proof using Type. clear Hu. apply upd_length. Qed.

Lemma valid_lift x : uix x -> (valid sh1 x <-> valid sh (lift x)).
Proof. intros [Hl H0]. rewrite !valid_iff, lift_length, sh_length, sh1_length. split; intros [_ H]; (split; [exact Hl|]); intros e He.
  - destruct (Nat.eq_dec e ud) as [->|Hne].
    + rewrite lift_nth_ud by (split; assumption). rewrite sh_nth_ud. exact Hu.
    + rewrite lift_nth, sh_nth by exact Hne. apply H; exact He.
  - destruct (Nat.eq_dec e ud) as [->|Hne].
    + rewrite H0, sh1_nth_ud. lia.
    + specialize (H e He). rewrite lift_nth, sh_nth in H by exact Hne. exact H. Qed.

Lemma sim_slice W : sim (slice W) W.
Proof using Type. clear Hu. intros x _. reflexivity. Qed.
Lemma sim_teq A W : sim A W -> teq sh1 A (slice W).
Proof using Type. clear Hu. intros H x Hv. apply H. apply uix_valid. exact Hv. Qed.

(* the only way the passes build tensors *)
Lemma sim_memo f1 f : (forall x, valid sh1 x -> uix x -> f1 x == f (lift x)) -> sim (memo sh1 f1) (memo sh f).
Proof. intros H x Hx.
  destruct (memo_cases sh1 f1 x) as [[Hv ->]|[Hv ->]]. rewrite sh1_length; apply Hx.
  - rewrite memo_ok by (apply valid_lift; assumption). apply H; assumption.
  - destruct (memo_cases sh f (lift x)) as [[Hv' _]|[_ ->]]. rewrite lift_length, sh_length; apply Hx.
    + exfalso. apply Hv. apply valid_lift; assumption.
    + reflexivity. Qed.

Lemma sim_fold {T} (F1 F : tens -> T -> tens) (l : list T) :
  (forall t A W, In t l -> sim A W -> sim (F1 A t) (F W t)) ->
  forall A W, sim A W -> sim (fold_left F1 l A) (fold_left F l W).
Proof using Type. clear Hu. induction l as [|t l IH]; intros H A W HS; cbn [fold_left]. exact HS.
  apply IH. intros; apply H; [right|]; assumption. apply H; [left; reflexivity|exact HS]. Qed.

(* ------------------------------------------------------------------ *)
(* 1a. _approximately_project_monotonicity                              *)
(* ------------------------------------------------------------------ *)
Lemma sim_prefmax A W d : d <> ud -> sim A W -> forall k x, uix x ->
  prefmax A x d k == prefmax W (lift x) d k.
Proof. intros Hd HS. induction k as [|k IH]; intros x Hx; cbn [prefmax]; rewrite lift_upd by exact Hd.
  - apply HS. apply uix_upd; assumption.
  - rewrite (HS _ (uix_upd x d (S k) Hx Hd)), (IH x Hx). reflexivity. Qed.
Lemma sim_sufmin A W d : d <> ud -> sim A W -> forall n k x, uix x ->
  sufmin A x d k n == sufmin W (lift x) d k n.
Proof. intros Hd HS. induction n as [|n IH]; intros k x Hx; cbn [sufmin]; rewrite lift_upd by exact Hd.
  - apply HS. apply uix_upd; assumption.
  - rewrite (HS _ (uix_upd x d k Hx Hd)), (IH (S k) x Hx). reflexivity. Qed.

Lemma sim_cummax A W d : d <> ud -> sim A W -> sim (cummax sh1 d A) (cummax sh d W).
Proof. intros Hd HS. unfold cummax. apply sim_memo. intros x _ Hx.
  rewrite lift_nth by exact Hd. apply sim_prefmax; assumption. Qed.
Lemma sim_cummin A W d : d <> ud -> sim A W -> sim (cummin sh1 d A) (cummin sh d W).
Proof. intros Hd HS. unfold cummin. apply sim_memo. intros x _ Hx.
  rewrite lift_nth, sh_nth by exact Hd. apply sim_sufmin; assumption. Qed.

Lemma sim_approx_mono monos A W : ~ In ud monos -> sim A W ->
  sim (approx_mono sh1 monos A) (approx_mono sh monos W).
Proof. intros Hn HS. unfold approx_mono.
  assert (Hd : forall d, In d monos -> d <> ud) by (intros d Hd ->; auto).
  apply sim_fold. intros; apply sim_cummin; auto.
  apply sim_memo. intros x _ Hx. rewrite !Qred_correct.
  rewrite (HS x Hx).
  rewrite (sim_fold (fun acc d => cummax sh1 d acc) (fun acc d => cummax sh d acc) monos
             ltac:(intros; apply sim_cummax; auto) A W HS x Hx). reflexivity. Qed.

(* ------------------------------------------------------------------ *)
(* 1b. _approximately_project_bounds and the final clip                 *)
(* ------------------------------------------------------------------ *)
Lemma upd_unit_axis (n k : nat) : upd (sizes ++ [n]) ud k = sizes ++ [k].
Proof using Type. clear Hu. unfold ud. induction sizes as [|s l IH]; cbn. reflexivity. f_equal. exact IH. Qed.
Lemma behind1_eq : behind sh [ud] = all_idx sh1 /\ behind sh1 [ud] = all_idx sh1.
Proof using Type. clear Hu. unfold behind, sh, sh1. cbn [fold_left]. rewrite !upd_unit_axis. split; reflexivity. Qed.
Lemma behind3_eq m c : m <> ud -> c <> ud -> behind sh [m; c; ud] = behind sh1 [m; c; ud].
Proof using Type. clear Hu. intros Hm Hc. unfold behind. cbn [fold_left]. f_equal.
  rewrite (upd_comm (upd sh m 1%nat) c ud) by exact Hc. rewrite (upd_comm sh m ud) by exact Hm.
  rewrite (upd_comm (upd sh1 m 1%nat) c ud) by exact Hc. rewrite (upd_comm sh1 m ud) by exact Hm.
  unfold sh, sh1. rewrite !upd_unit_axis. reflexivity. Qed.
Lemma behind_len keep b : In b (behind sh1 keep) -> length b = S ud.
Proof using Type. clear Hu. intros Hb. apply behind_iff in Hb. rewrite (proj1 Hb). apply sh1_length. Qed.

Lemma sim_at_unit A W b : sim A W -> length b = S ud -> A (upd b ud 0%nat) == W (upd b ud u).
Proof using Type. clear Hu. intros HS Hl. rewrite (HS _ (uix_upd0 b Hl)), lift_upd0. reflexivity. Qed.

Lemma sim_unit_min A W : sim A W -> qminl (unit_vals sh1 ud A 0) == qminl (unit_vals sh ud W u).
Proof. intros HS. unfold unit_vals. destruct behind1_eq as [-> ->]. apply qminl_ext.
  intros b Hb. apply sim_at_unit. exact HS. apply all_idx_valid in Hb. rewrite (valid_length _ _ Hb). apply sh1_length. Qed.
Lemma sim_unit_max A W : sim A W -> qmaxl (unit_vals sh1 ud A 0) == qmaxl (unit_vals sh ud W u).
Proof. intros HS. unfold unit_vals. destruct behind1_eq as [-> ->]. apply qmaxl_ext.
  intros b Hb. apply sim_at_unit. exact HS. apply all_idx_valid in Hb. rewrite (valid_length _ _ Hb). apply sh1_length. Qed.

Lemma sim_approx_bounds omin omax A W : sim A W ->
  sim (approx_bounds sh1 ud 1 omin omax A) (approx_bounds sh ud units omin omax W).
Proof. intros HS. pose proof (sim_unit_min A W HS) as Emin. pose proof (sim_unit_max A W HS) as Emax.
  unfold approx_bounds. destruct omin as [lo|], omax as [hi|]; [| | |exact HS];
    apply sim_memo; intros x _ Hx; cbv zeta; rewrite (lift_nth_ud x Hx), (proj2 Hx);
    rewrite ?(nth_map_seq _ units u 0 Hu), ?(nth_map_seq _ 1%nat 0%nat 0 Nat.lt_0_1);
    rewrite !Qred_correct, (HS x Hx), ?Emin, ?Emax; reflexivity. Qed.

Lemma sim_clip_bounds omin omax A W : sim A W -> sim (clip_bounds sh1 omin omax A) (clip_bounds sh omin omax W).
Proof. intros HS. unfold clip_bounds. apply sim_memo. intros x _ Hx.
  unfold clip_hi, clip_lo. destruct omin, omax; rewrite (HS x Hx); reflexivity. Qed.

(* ------------------------------------------------------------------ *)
(* 1c. per-unit violations                                              *)
(* ------------------------------------------------------------------ *)
Lemma unit_viols_length n B g : length (unit_viols ud n B g) = n.
Proof using Type. clear Hu. unfold unit_viols. rewrite map_length, seq_length. reflexivity. Qed.

(* the violation of unit u in the multi-unit run is the violation of the
   only unit of the single-unit run on column u *)
Lemma sim_viols B g1 g : (forall b, In b B -> length b = S ud) -> (forall y, uix y -> g1 y == g (lift y)) ->
  nth 0 (unit_viols ud 1 B g1) 0 == nth u (unit_viols ud units B g) 0.
Proof. intros HB H. unfold unit_viols. rewrite (nth_map_seq _ units u 0 Hu), (nth_map_seq _ 1%nat 0%nat 0 Nat.lt_0_1).
  apply maxl0_ext. intros b Hb. rewrite (H _ (uix_upd0 b (HB b Hb))), lift_upd0. reflexivity. Qed.

Lemma sim_esq A W m c i j y : sim A W -> m <> ud -> c <> ud -> uix y -> esq A m c i j y == esq W m c i j (lift y).
Proof. intros HS Hm Hc Hy. unfold esq. rewrite !lift_at2 by assumption.
  rewrite !(HS _ (uix_at2 y m c _ _ Hy Hm Hc)). reflexivity. Qed.

(* ------------------------------------------------------------------ *)
(* 1d. _approximately_project_edgeworth                                 *)
(* ------------------------------------------------------------------ *)
Lemma sim_edge_step_pos m c A W p : m <> ud -> c <> ud -> sim A W ->
  sim (edge_step_pos sh1 ud 1 (behind sh1 [m; c; ud]) m c A p) (edge_step_pos sh ud units (behind sh [m; c; ud]) m c W p).
Proof. intros Hm Hc HS. destruct p as [i j]. unfold edge_step_pos. rewrite (behind3_eq m c Hm Hc).
  apply sim_memo. intros x _ Hx. rewrite !lift_nth by assumption. rewrite (lift_nth_ud x Hx), (proj2 Hx).
  destruct ((nth m x 0 =? S i)%nat && (nth c x 0 =? S j)%nat); [|apply HS; exact Hx].
  rewrite !Qred_correct, (HS x Hx).
  rewrite (sim_viols (behind sh1 [m; c; ud]) (esq A m c i j) (esq W m c i j)). reflexivity.
  apply behind_len. intros y Hy. apply sim_esq; assumption. Qed.
Lemma sim_edge_step_neg m c A W p : m <> ud -> c <> ud -> sim A W ->
  sim (edge_step_neg sh1 ud 1 (behind sh1 [m; c; ud]) m c A p) (edge_step_neg sh ud units (behind sh [m; c; ud]) m c W p).
Proof. intros Hm Hc HS. destruct p as [i j]. unfold edge_step_neg. rewrite (behind3_eq m c Hm Hc).
  apply sim_memo. intros x _ Hx. rewrite !lift_nth by assumption. rewrite (lift_nth_ud x Hx), (proj2 Hx).
  destruct ((nth m x 0 =? i)%nat && (nth c x 0 =? j)%nat); [|apply HS; exact Hx].
  rewrite !Qred_correct, (HS x Hx).
  rewrite (sim_viols (behind sh1 [m; c; ud]) (fun b => - esq A m c i j b) (fun b => - esq W m c i j b)). reflexivity.
  apply behind_len. intros y Hy. rewrite (sim_esq A W m c i j y) by assumption. reflexivity. Qed.

Definition trust_off_unit (t : trust) : Prop := fst (fst t) <> ud /\ snd (fst t) <> ud.

Lemma sim_edgeworth_one t A W : trust_off_unit t -> sim A W ->
  sim (edgeworth_one sh1 ud 1 A t) (edgeworth_one sh ud units W t).
Proof. destruct t as [[m c] dir]. intros [Hm Hc] HS. cbn in Hm, Hc. unfold edgeworth_one.
  rewrite (sh_nth m Hm), (sh_nth c Hc). destruct (0 <? dir)%Z; apply sim_fold; auto; intros.
  apply sim_edge_step_pos; assumption. apply sim_edge_step_neg; assumption. Qed.
Lemma sim_approx_edgeworth ts A W : (forall t, In t ts -> trust_off_unit t) -> sim A W ->
  sim (approx_edgeworth sh1 ud 1 ts A) (approx_edgeworth sh ud units ts W).
Proof. intros Hts HS. unfold approx_edgeworth. apply sim_fold; auto. intros. apply sim_edgeworth_one; auto. Qed.

(* ------------------------------------------------------------------ *)
(* 1e. _approximately_project_trapezoid                                 *)
(* ------------------------------------------------------------------ *)
(* the prior-violation lists are per unit: entry u of the multi-unit list is
   the single entry of the single-unit list *)
Definition lsim (l1 l : list Q) : Prop := length l1 = 1%nat /\ length l = units /\ nth 0 l1 0 == nth u l 0.
Definition tsim (s1 s : trap_state) : Prop :=
  sim (ts_W s1) (ts_W s) /\ lsim (ts_l s1) (ts_l s) /\ lsim (ts_r s1) (ts_r s).

Lemma lsim_viols B g1 g : (forall b, In b B -> length b = S ud) -> (forall y, uix y -> g1 y == g (lift y)) ->
  lsim (unit_viols ud 1 B g1) (unit_viols ud units B g).
Proof. intros HB H. split; [|split]. apply unit_viols_length. apply unit_viols_length. apply sim_viols; assumption. Qed.
Lemma lsim_comb (se : bool) raw1 raw l1 l : lsim raw1 raw -> lsim l1 l ->
  lsim (if se then map2 qmax raw1 l1 else raw1) (if se then map2 qmax raw l else raw).
Proof. intros (A1 & A2 & A3) (B1 & B2 & B3). destruct se; [|repeat split; assumption].
  split; [|split]. rewrite map2_length; lia. rewrite map2_length; lia.
  rewrite (nth_map2 qmax raw1 l1 0%nat 0 0 0) by lia. rewrite (nth_map2 qmax raw l u 0 0 0) by lia.
  rewrite A3, B3. reflexivity. Qed.
Lemma lsim_zeros : lsim (map (fun _ => 0) (seq 0 1)) (map (fun _ => 0) (seq 0 units)).
Proof. split; [|split]. reflexivity. rewrite map_length, seq_length; reflexivity.
  rewrite (nth_map_seq _ units u 0 Hu). reflexivity. Qed.

Lemma sim_trap_step m c (rvb any_e same_e : bool) s1 s j : m <> ud -> c <> ud -> tsim s1 s ->
  tsim (trap_step sh1 ud 1 (behind sh1 [m; c; ud]) m c rvb any_e same_e s1 j)
       (trap_step sh ud units (behind sh [m; c; ud]) m c rvb any_e same_e s j).
Proof. intros Hm Hc (HS & HL & HR). unfold trap_step. rewrite (behind3_eq m c Hm Hc), (sh_nth m Hm), (sh_nth c Hc).
  set (B := behind sh1 [m; c; ud]). set (sc := nth c sh1 0%nat). set (mx := (nth m sh1 0%nat - 1)%nat).
  set (j0 := cj rvb sc j). set (j1 := cj rvb sc (S j)). cbv zeta.
  set (A := ts_W s1) in *. set (W := ts_W s) in *.
  destruct any_e.
  - (* scalar (per-unit) corrections *)
    set (lraw1 := unit_viols ud 1 B _). set (lraw := unit_viols ud units B _).
    assert (EL : lsim (if same_e then map2 qmax lraw1 (ts_l s1) else lraw1) (if same_e then map2 qmax lraw (ts_l s) else lraw)).
    { apply lsim_comb; [|exact HL]. apply lsim_viols. apply behind_len.
      intros y Hy. rewrite !lift_at2 by assumption. rewrite !(HS _ (uix_at2 y m c _ _ Hy Hm Hc)). reflexivity. }
    set (lu1 := if same_e then map2 qmax lraw1 (ts_l s1) else lraw1) in *.
    set (lu := if same_e then map2 qmax lraw (ts_l s) else lraw) in *.
    set (A1 := memo sh1 (fun x => if (nth m x 0 =? 0)%nat && (nth c x 0 =? j1)%nat then Qred (A x - nth (nth ud x 0%nat) lu1 0) else A x)).
    set (W1 := memo sh (fun x => if (nth m x 0 =? 0)%nat && (nth c x 0 =? j1)%nat then Qred (W x - nth (nth ud x 0%nat) lu 0) else W x)).
    assert (HS1 : sim A1 W1).
    { apply sim_memo. intros x _ Hx. rewrite !lift_nth by assumption. rewrite (lift_nth_ud x Hx), (proj2 Hx).
      destruct ((nth m x 0 =? 0)%nat && (nth c x 0 =? j1)%nat); [|apply HS; exact Hx].
      rewrite !Qred_correct, (HS x Hx), (proj2 (proj2 EL)). reflexivity. }
    set (rraw1 := unit_viols ud 1 B _). set (rraw := unit_viols ud units B _).
    assert (ER : lsim (if same_e then map2 qmax rraw1 (ts_r s1) else rraw1) (if same_e then map2 qmax rraw (ts_r s) else rraw)).
    { apply lsim_comb; [|exact HR]. apply lsim_viols. apply behind_len.
      intros y Hy. rewrite !lift_at2 by assumption. rewrite !(HS1 _ (uix_at2 y m c _ _ Hy Hm Hc)). reflexivity. }
    split; [|split]; cbn [ts_W ts_l ts_r]; [|exact EL|exact ER].
    apply sim_memo. intros x _ Hx. rewrite !lift_nth by assumption. rewrite (lift_nth_ud x Hx), (proj2 Hx).
    destruct ((nth m x 0 =? mx)%nat && (nth c x 0 =? j1)%nat); [|apply HS1; exact Hx].
    rewrite !Qred_correct, (HS1 x Hx), (proj2 (proj2 ER)). reflexivity.
  - (* element-wise corrections *)
    set (A1 := memo sh1 (fun x => if (nth m x 0 =? 0)%nat && (nth c x 0 =? j1)%nat then Qred (A x - qmax (A x - A (upd x c j0)) 0) else A x)).
    set (W1 := memo sh (fun x => if (nth m x 0 =? 0)%nat && (nth c x 0 =? j1)%nat then Qred (W x - qmax (W x - W (upd x c j0)) 0) else W x)).
    assert (HS1 : sim A1 W1).
    { apply sim_memo. intros x _ Hx. rewrite !lift_nth by assumption.
      destruct ((nth m x 0 =? 0)%nat && (nth c x 0 =? j1)%nat); [|apply HS; exact Hx].
      rewrite !Qred_correct, (lift_upd x c j0 Hc), (HS x Hx), (HS _ (uix_upd x c j0 Hx Hc)). reflexivity. }
    split; [|split]; cbn [ts_W ts_l ts_r]; [|exact HL|exact HR].
    apply sim_memo. intros x _ Hx. rewrite !lift_nth by assumption.
    destruct ((nth m x 0 =? mx)%nat && (nth c x 0 =? j1)%nat); [|apply HS1; exact Hx].
    rewrite !Qred_correct, (lift_upd x c j0 Hc), (HS1 x Hx), (HS1 _ (uix_upd x c j0 Hx Hc)). reflexivity. Qed.

Lemma fold_rel {S1 S2 T} (R : S1 -> S2 -> Prop) (F1 : S1 -> T -> S1) (F2 : S2 -> T -> S2) (l : list T) :
  (forall t a b, R a b -> R (F1 a t) (F2 b t)) -> forall a b, R a b -> R (fold_left F1 l a) (fold_left F2 l b).
Proof using Type. clear Hu. intros H. induction l as [|t l IH]; intros a b HR; cbn [fold_left]. exact HR. apply IH. apply H. exact HR. Qed.

Lemma sim_trapezoid_one edge t A W : trust_off_unit t -> sim A W ->
  sim (trapezoid_one sh1 ud 1 edge A t) (trapezoid_one sh ud units edge W t).
Proof. destruct t as [[m c] dir]. intros [Hm Hc] HS. cbn in Hm, Hc. unfold trapezoid_one.
  rewrite (sh_nth c Hc). cbv zeta.
  apply (fold_rel tsim). intros j s1 s Hs. apply sim_trap_step; assumption.
  split; [exact HS|split; apply lsim_zeros]. Qed.
Lemma sim_approx_trapezoid trap edge A W : (forall t, In t trap -> trust_off_unit t) -> sim A W ->
  sim (approx_trapezoid sh1 ud 1 trap edge A) (approx_trapezoid sh ud units trap edge W).
Proof. intros Hts HS. unfold approx_trapezoid. apply sim_fold; auto. intros. apply sim_trapezoid_one; auto. Qed.

(* ------------------------------------------------------------------ *)
(* 2. the Dykstra stage: every group projection reads one column only   *)
(* ------------------------------------------------------------------ *)
Definition op_sim (f1 f : tens -> tens) : Prop := forall A W, sim A W -> sim (f1 A) (f W).
Definition pair_off_unit (pq : nat * nat) : Prop := fst pq <> ud /\ snd pq <> ud.

Lemma sim_mono_group mono uni d g : d <> ud -> op_sim (mono_group sh1 mono uni d g) (mono_group sh mono uni d g).
Proof. intros Hd A W HS. unfold mono_group. rewrite (sh_nth d Hd). apply sim_memo. intros x _ Hx.
  rewrite (lift_nth x d Hd). destruct (pair_pos g (nth d sh1 0%nat) (nth d x 0%nat)) as [[i up]|]; [|apply HS; exact Hx].
  cbv zeta. rewrite !(lift_upd x d _ Hd). rewrite !Qred_correct.
  pose proof (HS _ (uix_upd x d i Hx Hd)) as E1. pose proof (HS _ (uix_upd x d (S i) Hx Hd)) as E2.
  des_ifs; rewrite ?E1, ?E2; reflexivity. Qed.

Lemma sim_edge_group t g0 g1 : trust_off_unit t -> op_sim (edge_group sh1 t g0 g1) (edge_group sh t g0 g1).
Proof. destruct t as [[m c] dir]. intros [Hm Hc] A W HS. cbn in Hm, Hc. unfold edge_group.
  rewrite (sh_nth m Hm), (sh_nth c Hc). apply sim_memo. intros x _ Hx. rewrite (lift_nth x m Hm), (lift_nth x c Hc).
  destruct (pair_pos g0 _ _) as [[i pm]|]; [|apply HS; exact Hx].
  destruct (pair_pos g1 _ _) as [[j pc]|]; [|apply HS; exact Hx].
  cbv beta zeta. unfold quarter. rewrite !lift_at2 by assumption. rewrite !Qred_correct.
  des_ifs; rewrite (HS x Hx), !(HS _ (uix_at2 x m c _ _ Hx Hm Hc)); reflexivity. Qed.

Lemma sim_trap_group t g : trust_off_unit t -> op_sim (trap_group sh1 t g) (trap_group sh t g).
Proof. destruct t as [[m c] dir]. intros [Hm Hc] A W HS. cbn in Hm, Hc. unfold trap_group.
  rewrite (sh_nth m Hm), (sh_nth c Hc). apply sim_memo. intros x _ Hx. cbv beta zeta.
  rewrite (lift_nth x m Hm), (lift_nth x c Hc).
  destruct (pair_pos g _ _) as [[j up]|]; [|apply HS; exact Hx].
  rewrite ?lift_at2 by assumption.
  des_ifs; rewrite ?Qred_correct, ?(HS x Hx), ?(HS _ (uix_at2 x m c _ _ Hx Hm Hc)); reflexivity. Qed.

Lemma sim_mdom_group p q g0 g1 g2 : p <> ud -> q <> ud -> op_sim (mdom_group sh1 p q g0 g1 g2) (mdom_group sh p q g0 g1 g2).
Proof. intros Hp Hq A W HS. unfold mdom_group.
  rewrite (sh_nth p Hp), (sh_nth q Hq). apply sim_memo. intros x _ Hx. rewrite (lift_nth x p Hp), (lift_nth x q Hq).
  destruct (pair_pos g0 _ _) as [[i pa]|]; [|apply HS; exact Hx].
  destruct (pair_pos g1 _ _) as [[j pb]|]; [|apply HS; exact Hx].
  cbv beta zeta. unfold third. rewrite !lift_at2 by assumption.
  destruct g2, pa, pb; rewrite ?Qred_correct, ?(HS x Hx), ?(HS _ (uix_at2 x p q _ _ Hx Hp Hq)); reflexivity. Qed.

Lemma sim_jmono_group p q g0 g1 g2 : p <> ud -> q <> ud -> op_sim (jmono_group sh1 p q g0 g1 g2) (jmono_group sh p q g0 g1 g2).
Proof. intros Hp Hq A W HS. unfold jmono_group.
  rewrite (sh_nth p Hp), (sh_nth q Hq). apply sim_memo. intros x _ Hx. rewrite (lift_nth x p Hp), (lift_nth x q Hq).
  destruct (pair_pos g0 _ _) as [[i pa]|]; [|apply HS; exact Hx].
  destruct (pair_pos g1 _ _) as [[j pb]|]; [|apply HS; exact Hx].
  cbv beta zeta. unfold third. rewrite !lift_at2 by assumption.
  destruct g2, pa, pb; rewrite ?Qred_correct, ?(HS x Hx), ?(HS _ (uix_at2 x p q _ _ Hx Hp Hq)); reflexivity. Qed.

Lemma sim_rdom_group p q i j : p <> ud -> q <> ud -> op_sim (rdom_group sh1 p q i j) (rdom_group sh p q i j).
Proof. intros Hp Hq A W HS. unfold rdom_group. cbv zeta.
  rewrite ?(sh_nth p Hp), ?(sh_nth q Hq). apply sim_memo. intros x _ Hx. cbv beta zeta. unfold quarter.
  rewrite ?(lift_nth x p Hp), ?(lift_nth x q Hq). rewrite !lift_at2 by assumption.
  des_ifs; rewrite ?Qred_correct, ?(HS x Hx), ?(HS _ (uix_at2 x p q _ _ Hx Hp Hq)); reflexivity. Qed.

Lemma set_coords_lift dims : (forall d, In d dims -> d <> ud) -> forall vals x,
  set_coords (lift x) dims vals = lift (set_coords x dims vals).
Proof using Type. clear Hu. induction dims as [|d dims IH]; intros H vals x; destruct vals as [|v vals]; cbn [set_coords]; try reflexivity.
  rewrite lift_upd by (apply H; left; reflexivity). apply IH. intros; apply H; right; assumption. Qed.
Lemma set_coords_uix dims : (forall d, In d dims -> d <> ud) -> forall vals x, uix x -> uix (set_coords x dims vals).
Proof using Type. clear Hu. induction dims as [|d dims IH]; intros H vals x Hx; destruct vals as [|v vals]; cbn [set_coords]; try exact Hx.
  apply IH. intros; apply H; right; assumption. apply uix_upd. exact Hx. apply H; left; reflexivity. Qed.
Lemma coords_eqb_lift dims : (forall d, In d dims -> d <> ud) -> forall vals x,
  coords_eqb (lift x) dims vals = coords_eqb x dims vals.
Proof using Type. clear Hu. induction dims as [|d dims IH]; intros H vals x; destruct vals as [|v vals]; cbn [coords_eqb]; try reflexivity.
  rewrite lift_nth by (apply H; left; reflexivity). f_equal. apply IH. intros; apply H; right; assumption. Qed.
Lemma find_ext {T} (f g : T -> bool) l : (forall e, f e = g e) -> find f l = find g l.
Proof using Type. clear Hu. intros H. induction l as [|e l IH]; cbn [find]. reflexivity. rewrite H, IH. reflexivity. Qed.

Lemma dims_sizes dims : (forall d, In d dims -> d <> ud) ->
  map (fun d => nth d sh 0%nat) dims = map (fun d => nth d sh1 0%nat) dims.
Proof using Type. clear Hu. intros H. apply map_ext_in. intros d Hd. apply sh_nth. apply H. exact Hd. Qed.

Lemma sim_junimod_group dims valley vertex offs : (forall d, In d dims -> d <> ud) ->
  match junimod_group sh1 dims valley vertex offs, junimod_group sh dims valley vertex offs with
  | Some f1, Some f => op_sim f1 f
  | None, None => True
  | _, _ => False
  end.
Proof. intros Hd. unfold junimod_group. rewrite (dims_sizes dims Hd). cbv zeta.
  destruct (forallb _ _); [exact I|]. destruct (ju_terms _ _ _ _ _) as [[|t terms]|]; try exact I.
  intros A W HS. apply sim_memo. intros x _ Hx.
  match goal with |- context [find _ ?e] => set (eqn := e) end.
  assert (Ef : find (fun e => coords_eqb (lift x) dims (fst e)) eqn = find (fun e => coords_eqb x dims (fst e)) eqn)
    by (apply find_ext; intros; apply coords_eqb_lift; exact Hd).
  rewrite Ef. destruct (find (fun e : list nat * Q => coords_eqb x dims (fst e)) eqn) as [e|]; [|apply HS; exact Hx]. rewrite !Qred_correct.
  assert (EV : qsum (map (fun e => A (set_coords x dims (fst e)) * snd e) eqn) ==
               qsum (map (fun e => W (set_coords (lift x) dims (fst e)) * snd e) eqn)).
  { apply qsum_map_ext. intros e' _. rewrite (set_coords_lift dims Hd), (HS _ (set_coords_uix dims Hd (fst e') x Hx)). reflexivity. }
  destruct valley; rewrite EV, (HS x Hx); reflexivity. Qed.

End Units.

Arguments slice sizes u W x /.

(* ------------------------------------------------------------------ *)
(* generic list-relation helpers                                        *)
(* ------------------------------------------------------------------ *)
Lemma Forall2_flat_map {T X Y} (R : X -> Y -> Prop) (F1 : T -> list X) (F2 : T -> list Y) l :
  (forall t, In t l -> Forall2 R (F1 t) (F2 t)) -> Forall2 R (flat_map F1 l) (flat_map F2 l).
Proof. induction l as [|t l IH]; intros H; cbn [flat_map]. constructor.
  apply Forall2_app. apply H; left; reflexivity. apply IH. intros; apply H; right; assumption. Qed.
Lemma Forall2_map_in {T X Y} (R : X -> Y -> Prop) (f1 : T -> X) (f2 : T -> Y) l :
  (forall t, In t l -> R (f1 t) (f2 t)) -> Forall2 R (map f1 l) (map f2 l).
Proof. induction l as [|t l IH]; intros H; cbn [map]; constructor. apply H; left; reflexivity.
  apply IH. intros; apply H; right; assumption. Qed.
Lemma fold_rel2 {S1 S2 K1 K2} (RK : K1 -> K2 -> Prop) (R : S1 -> S2 -> Prop) (F1 : S1 -> K1 -> S1) (F2 : S2 -> K2 -> S2) l1 l2 :
  Forall2 RK l1 l2 -> (forall k1 k2 a b, RK k1 k2 -> R a b -> R (F1 a k1) (F2 b k2)) ->
  forall a b, R a b -> R (fold_left F1 l1 a) (fold_left F2 l2 b).
Proof. intros HL H. induction HL as [|k1 k2 l1 l2 Hk _ IH]; intros a b HR; cbn [fold_left]. exact HR.
  apply IH. apply H; assumption. Qed.

(* ------------------------------------------------------------------ *)
(* 1. finalize_constraints, configuration level                         *)
(* ------------------------------------------------------------------ *)
(* no constrained dimension is the unit axis.  Every configuration accepted by
   verify_hyperparameters satisfies this ([cfg_valid_units_wf]); the statement
   is false without it (a monotonicity flag or a trust on the unit axis makes
   cummax / the behind set run across units). *)
Definition lat_units_wf (c : lat_cfg) : Prop :=
  ~ In (l_ud c) (mono_dims (l_monos c)) /\
  (forall t, In t (l_edge c) -> trust_off_unit (l_sizes c) t) /\
  (forall t, In t (l_trap c) -> trust_off_unit (l_sizes c) t).

Lemma cfg_valid_units_wf c : cfg_valid c -> lat_units_wf c.
Proof. intros Hc. split; [|split].
  - intros H. pose proof (cfg_mono_dims_lt c _ Hc H). lia.
  - intros [[m cd] dir] Ht. destruct (cfg_edge_dims c m cd dir Hc Ht) as (H1 & H2 & _). split; cbn; unfold l_ud, ud in *; lia.
  - intros [[m cd] dir] Ht. destruct (cfg_trap_dims c m cd dir Hc Ht) as (H1 & H2 & _). split; cbn; unfold l_ud, ud in *; lia. Qed.

Section Lat.
Variable c : lat_cfg.
Variable u : nat.
Hypothesis Hu : (u < l_units c)%nat.
Hypothesis Hwf : lat_units_wf c.
Let sizes := l_sizes c.
Let units := l_units c.

Lemma sim_finalize A W : sim sizes u A W -> sim sizes u (finalize (lat1 c) A) (finalize c W).
Proof. intros HS. destruct Hwf as (Hm & He & Ht). unfold finalize.
  change (l_monos (lat1 c)) with (l_monos c). change (l_edge (lat1 c)) with (l_edge c). change (l_trap (lat1 c)) with (l_trap c).
  change (l_min (lat1 c)) with (l_min c). change (l_max (lat1 c)) with (l_max c).
  change (l_shape (lat1 c)) with (sh1 sizes). change (l_shape c) with (sh sizes units).
  change (l_ud (lat1 c)) with (ud sizes). change (l_ud c) with (ud sizes) in *.
  change (l_units (lat1 c)) with 1%nat. change (l_units c) with units.
  destruct (mono_dims (l_monos c)) as [|d0 md] eqn:E; [exact HS|]. rewrite <- E in *. cbv zeta.
  pose proof (sim_approx_mono sizes units u Hu (mono_dims (l_monos c)) A W Hm HS) as H1.
  assert (H4 : sim sizes u
     (approx_bounds (sh1 sizes) (ud sizes) 1 (l_min c) (l_max c)
        (approx_trapezoid (sh1 sizes) (ud sizes) 1 (l_trap c) (l_edge c)
           (approx_edgeworth (sh1 sizes) (ud sizes) 1 (l_edge c) (approx_mono (sh1 sizes) (mono_dims (l_monos c)) A))))
     (approx_bounds (sh sizes units) (ud sizes) units (l_min c) (l_max c)
        (approx_trapezoid (sh sizes units) (ud sizes) units (l_trap c) (l_edge c)
           (approx_edgeworth (sh sizes units) (ud sizes) units (l_edge c) (approx_mono (sh sizes units) (mono_dims (l_monos c)) W))))).
  { apply sim_approx_bounds. exact Hu. apply sim_approx_trapezoid. exact Hu. exact Ht.
    apply sim_approx_edgeworth. exact Hu. exact He. exact H1. }
  destruct (l_edge c), (l_trap c); assumption. Qed.

Lemma sim_constraint_after_dykstra ran A W : sim sizes u A W ->
  sim sizes u (lattice_constraint_after_dykstra (lat1 c) ran A) (lattice_constraint_after_dykstra c ran W).
Proof. intros HS. unfold lattice_constraint_after_dykstra.
  change (l_min (lat1 c)) with (l_min c). change (l_max (lat1 c)) with (l_max c).
  change (l_shape (lat1 c)) with (sh1 sizes). change (l_shape c) with (sh sizes units).
  apply sim_clip_bounds. exact Hu. destruct ran; [apply sim_finalize|]; exact HS. Qed.

Theorem lattice_finalize_column W :
  teq (l_shape (lat1 c)) (finalize (lat1 c) (slice sizes u W)) (slice sizes u (finalize c W)).
Proof. apply (sim_teq sizes u). apply sim_finalize. apply sim_slice. Qed.

Theorem lattice_constraint_after_dykstra_column ran W :
  teq (l_shape (lat1 c)) (lattice_constraint_after_dykstra (lat1 c) ran (slice sizes u W))
                         (slice sizes u (lattice_constraint_after_dykstra c ran W)).
Proof. apply (sim_teq sizes u). apply sim_constraint_after_dykstra. apply sim_slice. Qed.
End Lat.

(* ------------------------------------------------------------------ *)
(* 2. project_by_dykstra, configuration level                           *)
(* ------------------------------------------------------------------ *)
Definition dyk_units_wf (c : dyk_cfg) : Prop :=
  (forall t, In t (k_edge c) -> trust_off_unit (k_sizes c) t) /\
  (forall t, In t (k_trap c) -> trust_off_unit (k_sizes c) t) /\
  (forall pq, In pq (k_mdom c) -> pair_off_unit (k_sizes c) pq) /\
  (forall pq, In pq (k_rdom c) -> pair_off_unit (k_sizes c) pq) /\
  (forall pq, In pq (k_jmono c) -> pair_off_unit (k_sizes c) pq) /\
  (forall ju, In ju (k_juni c) -> forall d, In d (fst ju) -> d <> ud (k_sizes c)).

Section Dyk.
Variable c : dyk_cfg.
Variable u : nat.
Hypothesis Hu : (u < k_units c)%nat.
Hypothesis Hwf : dyk_units_wf c.
Let sizes := k_sizes c.
Let units := k_units c.

Definition kop_sim (a b : key * (tens -> tens)) : Prop := fst a = fst b /\ op_sim sizes u (snd a) (snd b).
Lemma kops_one k f1 f : op_sim sizes u f1 f -> Forall2 kop_sim [(k, f1)] [(k, f)].
Proof. intros H. constructor; [split; [reflexivity|exact H]|constructor]. Qed.

(* same keys in the same order (the skip rules look at lattice sizes only),
   and each operation acts on column u as its single-unit instance *)
Lemma group_ops_sim : Forall2 kop_sim (group_ops (dyk1 c)) (group_ops c).
Proof. destruct Hwf as (He & Ht & Hmd & Hrd & Hjm & Hju). unfold group_ops.
  change (k_shape (dyk1 c)) with (sh1 sizes). change (k_shape c) with (sh sizes units).
  change (k_sizes (dyk1 c)) with (k_sizes c). change (k_monos (dyk1 c)) with (k_monos c). change (k_unis (dyk1 c)) with (k_unis c).
  change (k_edge (dyk1 c)) with (k_edge c). change (k_trap (dyk1 c)) with (k_trap c). change (k_mdom (dyk1 c)) with (k_mdom c).
  change (k_rdom (dyk1 c)) with (k_rdom c). change (k_jmono (dyk1 c)) with (k_jmono c). change (k_juni (dyk1 c)) with (k_juni c).
  cbv beta zeta. repeat apply Forall2_app.
  - apply Forall2_flat_map; intros d Hd. apply in_seq in Hd. assert (Hne : d <> ud sizes) by (unfold ud, sizes; lia).
    destruct ((nth d (k_monos c) 0 =? 0)%Z && (nth d (k_unis c) 0 =? 0)%Z); [constructor|].
    apply Forall2_flat_map; intros g _. rewrite (sh_nth sizes units d Hne).
    destruct (nth d (sh1 sizes) 0 <=? g + 1)%nat; [constructor|]. apply kops_one. apply sim_mono_group; assumption.
  - apply Forall2_flat_map; intros t Hin. pose proof (He t Hin) as Hoff. destruct t as [[m cd] dir].
    apply Forall2_flat_map; intros [g0 g1] _. destruct Hoff as [Hm Hc]; cbn in Hm, Hc.
    rewrite (sh_nth sizes units m Hm), (sh_nth sizes units cd Hc).
    destruct (_ || _); [constructor|]. apply kops_one. apply sim_edge_group. exact Hu. split; assumption.
  - apply Forall2_flat_map; intros t Hin. pose proof (Ht t Hin) as Hoff. destruct t as [[m cd] dir].
    apply Forall2_flat_map; intros g _. destruct Hoff as [Hm Hc]; cbn in Hm, Hc.
    rewrite (sh_nth sizes units cd Hc).
    destruct (_ <=? _)%nat; [constructor|]. apply kops_one. apply sim_trap_group. exact Hu. split; assumption.
  - apply Forall2_flat_map; intros [p q] Hin. destruct (Hmd _ Hin) as [Hp Hq]; cbn in Hp, Hq.
    apply Forall2_flat_map; intros [[g0 g1] g2] _.
    rewrite (sh_nth sizes units p Hp), (sh_nth sizes units q Hq).
    destruct (_ || _); [constructor|]. apply kops_one. apply sim_mdom_group; assumption.
  - apply Forall2_flat_map; intros [p q] Hin. destruct (Hrd _ Hin) as [Hp Hq]; cbn in Hp, Hq.
    rewrite (sh_nth sizes units p Hp), (sh_nth sizes units q Hq).
    apply Forall2_map_in. intros ij _. split; [reflexivity|]. apply sim_rdom_group; assumption.
  - apply Forall2_flat_map; intros [p q] Hin. destruct (Hjm _ Hin) as [Hp Hq]; cbn in Hp, Hq.
    apply Forall2_flat_map; intros [[g0 g1] g2] _.
    rewrite (sh_nth sizes units p Hp), (sh_nth sizes units q Hq).
    destruct (_ || _); [constructor|]. apply kops_one. apply sim_jmono_group; assumption.
  - apply Forall2_flat_map; intros [dims valley] Hin. pose proof (Hju _ Hin) as Hd; cbn in Hd.
    rewrite (dims_sizes sizes units dims Hd).
    apply Forall2_flat_map; intros v _. apply Forall2_flat_map; intros o _.
    pose proof (sim_junimod_group sizes units u Hu dims valley v o Hd) as HJ.
    destruct (junimod_group (sh1 sizes) dims valley v o), (junimod_group (sh sizes units) dims valley v o); try contradiction.
    apply kops_one; exact HJ. constructor. Qed.

Lemma group_ops_keys : map fst (group_ops (dyk1 c)) = map fst (group_ops c).
Proof. induction group_ops_sim as [|a b l1 l [Hk _] _ IH]; cbn [map]. reflexivity. rewrite Hk, IH. reflexivity. Qed.

(* state of the run: current weights and the last-change dictionary *)
Definition lc_sim (l1 l : list (key * tens)) : Prop :=
  Forall2 (fun a b => fst a = fst b /\ sim sizes u (snd a) (snd b)) l1 l.
Definition st_sim (s1 s : tens * list (key * tens)) : Prop := sim sizes u (fst s1) (fst s) /\ lc_sim (snd s1) (snd s).

Lemma lc_get_sim l1 l k : lc_sim l1 l -> sim sizes u (lc_get l1 k) (lc_get l k).
Proof. unfold lc_get. induction 1 as [|a b l1 l [Hk Hs] _ IH]; cbn [find]. intros x _; reflexivity.
  rewrite Hk. destruct (key_eqb (fst b) k); [exact Hs|exact IH]. Qed.
Lemma lc_set_sim l1 l k t1 t : lc_sim l1 l -> sim sizes u t1 t -> lc_sim (lc_set l1 k t1) (lc_set l k t).
Proof. intros H Ht. induction H as [|a b l1 l [Hk Hs] Hr IH]; cbn [lc_set].
  - constructor; [split; [reflexivity|exact Ht]|constructor].
  - rewrite Hk. destruct (key_eqb (fst b) k).
    + constructor; [split; [reflexivity|exact Ht]|exact Hr].
    + constructor; [split; assumption|exact IH]. Qed.

Lemma dyk_step_sim s1 s k1 k : kop_sim k1 k -> st_sim s1 s -> st_sim (dyk_step (sh1 sizes) s1 k1) (dyk_step (sh sizes units) s k).
Proof. destruct s1 as [A l1], s as [W l], k1 as [key1 op1], k as [key2 op2]. intros [Hk Ho] [HS HL]. cbn [fst snd] in *. subst key2.
  unfold dyk_step. cbv zeta.
  assert (HR : sim sizes u (memo (sh1 sizes) (fun x => Qred (A x - lc_get l1 key1 x))) (memo (sh sizes units) (fun x => Qred (W x - lc_get l key1 x)))).
  { apply sim_memo. exact Hu. intros x _ Hx. rewrite !Qred_correct, (HS x Hx), (lc_get_sim l1 l key1 HL x Hx). reflexivity. }
  split; cbn [fst snd]. apply Ho; exact HR.
  apply lc_set_sim. exact HL. apply sim_memo. exact Hu. intros x _ Hx.
  rewrite !Qred_correct, (Ho _ _ HR x Hx), (HR x Hx). reflexivity. Qed.

Lemma dyk_loop_sim n : forall s1 s, st_sim s1 s ->
  st_sim (dyk_loop (sh1 sizes) (group_ops (dyk1 c)) n s1) (dyk_loop (sh sizes units) (group_ops c) n s).
Proof. induction n as [|n IH]; intros s1 s Hs; cbn [dyk_loop]. exact Hs.
  apply IH. unfold dyk_sweep. apply (fold_rel2 kop_sim st_sim _ _ _ _ group_ops_sim); [|exact Hs].
  intros k1 k2 a b Hk Hab. apply dyk_step_sim; assumption. Qed.

Lemma sim_project_by_dykstra A W : sim sizes u A W -> sim sizes u (project_by_dykstra (dyk1 c) A) (project_by_dykstra c W).
Proof. intros HS. unfold project_by_dykstra.
  change (k_iters (dyk1 c)) with (k_iters c). change (k_monos (dyk1 c)) with (k_monos c). change (k_unis (dyk1 c)) with (k_unis c).
  change (k_jmono (dyk1 c)) with (k_jmono c). change (k_juni (dyk1 c)) with (k_juni c). change (k_rdom (dyk1 c)) with (k_rdom c).
  change (k_shape (dyk1 c)) with (sh1 sizes). change (k_shape c) with (sh sizes units).
  destruct (k_iters c =? 0)%nat; [exact HS|]. destruct (_ && _); [exact HS|]. cbv zeta.
  apply (dyk_loop_sim (k_iters c) (A, []) (W, [])). split; [exact HS|constructor]. Qed.

Theorem lattice_dykstra_column W :
  teq (k_shape (dyk1 c)) (project_by_dykstra (dyk1 c) (slice sizes u W)) (slice sizes u (project_by_dykstra c W)).
Proof. apply (sim_teq sizes u). apply sim_project_by_dykstra. apply sim_slice. Qed.
End Dyk.

(* ------------------------------------------------------------------ *)
(* 3. flat kernels: row-major (vertices x units) lists                  *)
(* ------------------------------------------------------------------ *)
Definition nprod (l : list nat) : nat := fold_right Nat.mul 1%nat l.
Lemma nprod_app l n : nprod (l ++ [n]) = (nprod l * n)%nat.
Proof. unfold nprod. induction l as [|s l IH]; cbn [app fold_right]. lia. rewrite IH. lia. Qed.

Lemma flat_map_seq_blocks P : forall s a, flat_map (fun k => seq (k * P) P) (seq a s) = seq (a * P) (s * P).
Proof. induction s as [|s IH]; intros a; cbn [seq flat_map]. reflexivity.
  rewrite IH. replace (S s * P)%nat with (P + s * P)%nat by lia. rewrite seq_app. do 2 f_equal. lia. Qed.

Lemma seq_add a : forall n s, map (fun j => (a + j)%nat) (seq s n) = seq (a + s) n.
Proof. induction n as [|n IH]; intros s; cbn [seq map]. reflexivity. rewrite IH. do 2 f_equal. lia. Qed.
Lemma map_flat_map {X Y Z} (f : Y -> Z) (g : X -> list Y) l : map f (flat_map g l) = flat_map (fun x => map f (g x)) l.
Proof. induction l as [|x l IH]; cbn [flat_map map]. reflexivity. rewrite map_app, IH. reflexivity. Qed.

(* all_idx enumerates the valid indices in increasing row-major order *)
Lemma all_idx_flat_seq sh : map (flat sh) (all_idx sh) = seq 0 (nprod sh).
Proof. induction sh as [|s sh IH]; cbn [all_idx]. reflexivity.
  change (nprod (s :: sh)) with (s * nprod sh)%nat.
  change (seq 0 (s * nprod sh)) with (seq (0 * nprod sh) (s * nprod sh)). rewrite <- (flat_map_seq_blocks (nprod sh) s 0%nat).
  rewrite map_flat_map. apply flat_map_ext. intros k. rewrite map_map. cbn [flat]. fold (nprod sh).
  rewrite <- (map_map (flat sh) (fun j => (k * nprod sh + j)%nat)), IH, seq_add. f_equal. lia. Qed.

Lemma all_idx_length sh : length (all_idx sh) = nprod sh.
Proof. rewrite <- (map_length (flat sh)), all_idx_flat_seq, seq_length. reflexivity. Qed.

Lemma nth_flat_all_idx sh i : valid sh i -> (flat sh i < nprod sh)%nat /\ nth (flat sh i) (all_idx sh) [] = i.
Proof. intros Hv. apply all_idx_valid in Hv. destruct (In_nth _ _ [] Hv) as [n [Hn E]].
  assert (F : flat sh i = n).
  { rewrite <- E. rewrite <- (map_nth (flat sh)). rewrite all_idx_flat_seq.
    rewrite all_idx_length in Hn. rewrite seq_nth by exact Hn. reflexivity. }
  rewrite F. split; [rewrite <- all_idx_length; exact Hn|exact E]. Qed.

Lemma to_list_nth sh T i : valid sh i -> nth (flat sh i) (to_list sh T) 0 = T i.
Proof. intros Hv. destruct (nth_flat_all_idx sh i Hv) as [Hl E]. unfold to_list.
  rewrite nth_indep with (d' := T []) by (rewrite map_length, all_idx_length; exact Hl).
  rewrite map_nth, E. reflexivity. Qed.

(* row-major position of an index of  sizes ++ [n] : row * n + unit *)
Lemma flat_unit_axis n : forall sizes x, length x = S (length sizes) ->
  flat (sizes ++ [n]) x = (flat sizes x * n + nth (length sizes) x 0)%nat.
Proof. induction sizes as [|s l IH]; intros x Hl; destruct x as [|k r]; try discriminate.
  - destruct r; [|discriminate]. cbn. lia.
  - cbn [app flat length nth]. fold (nprod (l ++ [n])). fold (nprod l). rewrite nprod_app, IH by (cbn in Hl; lia). lia. Qed.
Lemma flat_upd_beyond : forall sizes x k, flat sizes (upd x (length sizes) k) = flat sizes x.
Proof. induction sizes as [|s l IH]; intros x k. destruct x; reflexivity.
  destruct x as [|a r]; cbn [length upd flat]. reflexivity. rewrite IH. reflexivity. Qed.

Lemma nth_column u : forall (W : list (list Q)) v, nth v (column u W) 0 = nth u (nth v W []) 0.
Proof. unfold column. induction W as [|r W IH]; intros v; destruct v; cbn [map nth]; try (destruct u; reflexivity). apply IH. Qed.
Lemma nth_nil_Q n : nth n (@nil Q) 0 = 0.
Proof. destruct n; reflexivity. Qed.
Lemma nth_concat units u : forall (W : list (list Q)) v, (u < units)%nat -> (forall r, In r W -> length r = units) ->
  nth (v * units + u) (concat W) 0 = nth u (nth v W []) 0.
Proof. induction W as [|r W IH]; intros v Hu Hr; cbn [concat].
  - rewrite nth_nil_Q. destruct v, u; reflexivity.
  - pose proof (Hr r (or_introl eq_refl)) as Hl. destruct v as [|v]; cbn [nth].
    + rewrite app_nth1 by lia. reflexivity.
    + rewrite app_nth2 by lia. replace (S v * units + u - length r)%nat with (v * units + u)%nat by lia.
      apply IH. exact Hu. intros; apply Hr; right; assumption. Qed.

(* column u of a flat row-major (vertices x units) list *)
Definition flat_column (sizes : list nat) (units u : nat) (r : list Q) : list Q :=
  map (fun v => nth (v * units + u) r 0) (seq 0 (nprod sizes)).

(* for a matrix given by rows it is the matrix column *)
Lemma flat_column_concat sizes units u (R : list (list Q)) : (u < units)%nat -> length R = nprod sizes ->
  (forall r, In r R -> length r = units) -> flat_column sizes units u (concat R) = column u R.
Proof. intros Hu Hl Hr. unfold flat_column. rewrite <- Hl. unfold column.
  apply nth_ext with (d := 0) (d' := 0). rewrite !map_length, seq_length. reflexivity.
  intros n Hn. rewrite map_length, seq_length in Hn.
  rewrite (nth_map_seq _ (length R) n 0 Hn). rewrite (nth_concat units u R n Hu Hr).
  symmetry. apply (nth_column u R n). Qed.

Section Flat.
Variable sizes : list nat.
Variable units : nat.
Variable u : nat.
Hypothesis Hu : (u < units)%nat.

Lemma flat_sh1 x : uix sizes x -> flat (sh1 sizes) x = flat sizes x.
Proof using Type. clear Hu. intros [Hl H0]. unfold sh1. rewrite flat_unit_axis by exact Hl. fold (ud sizes). rewrite H0. lia. Qed.
Lemma flat_sh_lift x : uix sizes x -> flat (sh sizes units) (lift sizes u x) = (flat sizes x * units + u)%nat.
Proof using Type. clear Hu. intros Hx. unfold sh. rewrite flat_unit_axis by (rewrite lift_length; apply Hx). fold (ud sizes).
  rewrite (lift_nth_ud sizes u x Hx). unfold lift, ud. rewrite flat_upd_beyond. reflexivity. Qed.

(* the single-unit input of the run-time tie is column u of the multi-unit input *)
Lemma sim_of_list_column (W : list (list Q)) : (forall r, In r W -> length r = units) ->
  sim sizes u (of_list (sh1 sizes) (column u W)) (of_list (sh sizes units) (concat W)).
Proof. intros Hr. unfold of_list. apply (sim_memo sizes units u Hu). intros x _ Hx.
  rewrite (flat_sh1 x Hx), (flat_sh_lift x Hx), nth_column, (nth_concat units u W _ Hu Hr). reflexivity. Qed.

(* passing through a flat list and back keeps the column relation *)
Lemma sim_of_to_list T1 T : sim sizes u T1 T ->
  sim sizes u (of_list (sh1 sizes) (to_list (sh1 sizes) T1)) (of_list (sh sizes units) (to_list (sh sizes units) T)).
Proof. intros HS. unfold of_list. apply (sim_memo sizes units u Hu). intros x Hv Hx.
  rewrite (to_list_nth _ T1 x Hv). rewrite (to_list_nth _ T (lift sizes u x)) by (apply (valid_lift sizes units u Hu x Hx); exact Hv).
  apply HS. exact Hx. Qed.

(* reading the result: the single-unit output list is column u of the multi-unit output list *)
Lemma to_list_column T1 T : sim sizes u T1 T ->
  qleq (to_list (sh1 sizes) T1) (flat_column sizes units u (to_list (sh sizes units) T)).
Proof. intros HS. unfold flat_column, to_list at 1.
  replace (nprod sizes) with (nprod (sh1 sizes)) by (unfold sh1; rewrite nprod_app; lia).
  rewrite <- all_idx_flat_seq, map_map. apply Forall2_map_in. intros x Hx. apply all_idx_valid in Hx.
  pose proof (uix_valid sizes x Hx) as Hux.
  rewrite (flat_sh1 x Hux), <- (flat_sh_lift x Hux).
  rewrite to_list_nth by (apply (valid_lift sizes units u Hu x Hux); exact Hx). apply HS. exact Hux. Qed.
End Flat.

(* the model of LatticeConstraints.__call__ used by the run-time tie (H_C09.check):
   the single-unit model on column u of the kernel returns column u of the
   multi-unit model's result *)
Theorem lattice_constraint_column dc lc ran strict (W : list (list Q)) u :
  k_sizes dc = l_sizes lc -> k_units dc = l_units lc -> dyk_units_wf dc -> lat_units_wf lc ->
  (u < l_units lc)%nat -> (forall r, In r W -> length r = l_units lc) ->
  qleq (lattice_constraint_model (dyk1 dc) (lat1 lc) ran strict (column u W))
       (flat_column (l_sizes lc) (l_units lc) u (lattice_constraint_model dc lc ran strict (concat W))).
Proof. intros Es Eu Hdw Hlw Hu Hr. set (sizes := l_sizes lc). set (units := l_units lc).
  assert (Hud : (u < k_units dc)%nat) by (rewrite Eu; exact Hu).
  pose proof (sim_of_list_column sizes units u Hu W Hr) as H0.
  assert (H1 : sim sizes u (of_list (sh1 sizes) (if ran then dykstra_flat (dyk1 dc) (column u W) else column u W))
                           (of_list (sh sizes units) (if ran then dykstra_flat dc (concat W) else concat W))).
  { destruct ran; [|exact H0]. unfold dykstra_flat.
    change (k_shape (dyk1 dc)) with (sh1 (k_sizes dc)). change (k_shape dc) with (sh (k_sizes dc) (k_units dc)).
    rewrite Es, Eu. apply sim_of_to_list. exact Hu. fold sizes units.
    pose proof (sim_project_by_dykstra dc u Hud Hdw) as HP. rewrite Es in HP. apply HP. exact H0. }
  unfold lattice_constraint_model. cbv zeta. unfold constraint_flat.
  change (l_shape (lat1 lc)) with (sh1 sizes). change (l_shape lc) with (sh sizes units).
  change (l_min (lat1 lc)) with (l_min lc). change (l_max (lat1 lc)) with (l_max lc).
  destruct strict; apply to_list_column; try exact Hu.
  - apply (sim_constraint_after_dykstra lc u Hu Hlw). exact H1.
  - apply sim_clip_bounds. exact Hu. exact H1. Qed.

(* ------------------------------------------------------------------ *)
(* 4. permuting (or selecting) unit columns                             *)
(* ------------------------------------------------------------------ *)
Lemma qleq_sym a b : qleq a b -> qleq b a.
Proof. induction 1; constructor; [symmetry|]; assumption. Qed.
Lemma qleq_trans a b c : qleq a b -> qleq b c -> qleq a c.
Proof. intros H; revert c. induction H as [|x y a b Hxy _ IH]; intros c Hc; inversion Hc; subst; constructor.
  rewrite Hxy; assumption. apply IH; assumption. Qed.

(* new column u := old column s u, row by row *)
Definition permute_columns (units : nat) (s : nat -> nat) (W : list (list Q)) : list (list Q) :=
  map (fun r => map (fun u => nth (s u) r 0) (seq 0 units)) W.
Lemma permute_columns_rows units s W r : In r (permute_columns units s W) -> length r = units.
Proof. unfold permute_columns. intros H. apply in_map_iff in H. destruct H as [r0 [<- _]]. rewrite map_length, seq_length. reflexivity. Qed.
Lemma column_permute units s W u : (u < units)%nat -> column u (permute_columns units s W) = column (s u) W.
Proof. intros Hu. unfold column, permute_columns. rewrite map_map. apply map_ext. intros r.
  apply (nth_map_seq (fun u => nth (s u) r 0) units u 0 Hu). Qed.

(* column u of the result for the permuted kernel = column (s u) of the result
   for the original kernel; s need not be a bijection (any selection of columns) *)
Theorem lattice_permutation dc lc ran strict (W : list (list Q)) (s : nat -> nat) u :
  k_sizes dc = l_sizes lc -> k_units dc = l_units lc -> dyk_units_wf dc -> lat_units_wf lc ->
  (u < l_units lc)%nat -> (s u < l_units lc)%nat -> (forall r, In r W -> length r = l_units lc) ->
  qleq (flat_column (l_sizes lc) (l_units lc) u
          (lattice_constraint_model dc lc ran strict (concat (permute_columns (l_units lc) s W))))
       (flat_column (l_sizes lc) (l_units lc) (s u) (lattice_constraint_model dc lc ran strict (concat W))).
Proof. intros Es Eu Hdw Hlw Hu Hsu Hr.
  eapply qleq_trans; [apply qleq_sym; apply (lattice_constraint_column dc lc ran strict _ u Es Eu Hdw Hlw Hu); apply permute_columns_rows|].
  rewrite (column_permute _ s W u Hu). apply lattice_constraint_column; assumption. Qed.

(* ------------------------------------------------------------------ *)
(* the single passes in column form                                     *)
(* ------------------------------------------------------------------ *)
Section PassColumns.
Variable sizes : list nat.
Variable units : nat.
Variable u : nat.
Hypothesis Hu : (u < units)%nat.
Let SH := sh sizes units.
Let SH1 := sh1 sizes.
Let UD := ud sizes.
Notation SL := (slice sizes u).

Lemma approx_mono_column monos W : ~ In UD monos ->
  teq SH1 (approx_mono SH1 monos (SL W)) (SL (approx_mono SH monos W)).
Proof. intros H. apply sim_teq. apply (sim_approx_mono sizes units u Hu); [exact H|apply sim_slice]. Qed.
Lemma approx_edgeworth_column ts W : (forall t, In t ts -> trust_off_unit sizes t) ->
  teq SH1 (approx_edgeworth SH1 UD 1 ts (SL W)) (SL (approx_edgeworth SH UD units ts W)).
Proof. intros H. apply sim_teq. apply (sim_approx_edgeworth sizes units u Hu); [exact H|apply sim_slice]. Qed.
Lemma approx_trapezoid_column trap edge W : (forall t, In t trap -> trust_off_unit sizes t) ->
  teq SH1 (approx_trapezoid SH1 UD 1 trap edge (SL W)) (SL (approx_trapezoid SH UD units trap edge W)).
Proof. intros H. apply sim_teq. apply (sim_approx_trapezoid sizes units u Hu); [exact H|apply sim_slice]. Qed.
Lemma approx_bounds_column omin omax W :
  teq SH1 (approx_bounds SH1 UD 1 omin omax (SL W)) (SL (approx_bounds SH UD units omin omax W)).
Proof. apply sim_teq. apply (sim_approx_bounds sizes units u Hu). apply sim_slice. Qed.
Lemma clip_bounds_column omin omax W :
  teq SH1 (clip_bounds SH1 omin omax (SL W)) (SL (clip_bounds SH omin omax W)).
Proof. apply sim_teq. apply (sim_clip_bounds sizes units u Hu). apply sim_slice. Qed.
(* the per-unit reduction itself: entry u of the multi-unit violation vector
   is the single entry of the single-unit one, for any behind set B of rank
   |sizes|+1 and any pointwise-related integrands *)
Lemma unit_viols_column B (g : idx -> Q) : (forall b, In b B -> length b = S UD) ->
  nth 0 (unit_viols UD 1 B (fun y => g (lift sizes u y))) 0 == nth u (unit_viols UD units B g) 0.
Proof. intros HB. apply (sim_viols sizes units u Hu); [exact HB|]. intros y _. reflexivity. Qed.
End PassColumns.

(* every single-unit pass respects equality of kernels (the units = 1, u = 0
   instance of the simulation; this is what lets the passes compose) *)
Lemma sim0_eq sizes A B : sim sizes 0 A B <-> (forall x, uix sizes x -> A x == B x).
Proof. unfold sim. split; intros H x Hx; specialize (H x Hx); unfold lift in *;
  rewrite (upd_eq_self x (ud sizes) 0%nat (proj2 Hx)) in *; exact H. Qed.
Lemma finalize_single_proper c A B : l_units c = 1%nat -> lat_units_wf c ->
  (forall x, uix (l_sizes c) x -> A x == B x) -> forall x, uix (l_sizes c) x -> finalize (lat1 c) A x == finalize c B x.
Proof. intros H1 Hwf HE. apply sim0_eq. apply sim_finalize. rewrite H1; lia. exact Hwf. apply sim0_eq. exact HE. Qed.
Lemma dykstra_single_proper c A B : k_units c = 1%nat -> dyk_units_wf c ->
  (forall x, uix (k_sizes c) x -> A x == B x) -> forall x, uix (k_sizes c) x -> project_by_dykstra (dyk1 c) A x == project_by_dykstra c B x.
Proof. intros H1 Hwf HE. apply sim0_eq. apply sim_project_by_dykstra. rewrite H1; lia. exact Hwf. apply sim0_eq. exact HE. Qed.

(* ------------------------------------------------------------------ *)
(* Examples: the hypotheses are satisfiable, and the statement is not    *)
(* vacuous (2 x 3 lattice, 3 units whose columns differ by orders of     *)
(* magnitude; every kind of constraint switched on)                      *)
(* ------------------------------------------------------------------ *)
Definition exu_lc : lat_cfg :=
  mkLat [2; 3]%nat 3 [1; 1]%Z [(0, 1, 1%Z)]%nat [(0, 1, 1%Z)]%nat (Some (-10)) (Some 10).
Definition exu_dc : dyk_cfg :=
  mkDykCfg [2; 3]%nat 3 [1; 0]%Z [0; 1]%Z [(0, 1, 1%Z)]%nat [(0, 1, (-1)%Z)]%nat [(1, 0)]%nat [(0, 1)]%nat [(0, 1)]%nat
           [([1]%nat, false)] 3.
Definition exu_W : list (list Q) :=
  [ [3; 100; -2000]; [0; -500; 7000]; [1; 250; 1000]; [5; -300; 4000]; [2; 900; -6000]; [-1; 50; 3000] ].

Example exu_lat_wf : cfg_valid exu_lc /\ lat_units_wf exu_lc.
Proof. assert (H : cfg_valid exu_lc).
  { unfold cfg_valid, exu_lc, all_trusts, trust_ok; cbn. repeat split.
    - intros s [<-|[<-|[]]]; lia.
    - lia.
    - intros m [<-|[<-|[]]]; auto.
    - intros t [<-|[<-|[]]]; cbn; repeat split; auto; lia.
    - intros t1 t2 [<-|[<-|[]]] [<-|[<-|[]]]; cbn; lia.
    - intros t1 t2 [<-|[<-|[]]] [<-|[<-|[]]]; cbn; intros E; reflexivity. }
  split; [exact H|apply cfg_valid_units_wf; exact H]. Qed.
Example exu_dyk_wf : dyk_units_wf exu_dc.
Proof. unfold dyk_units_wf, exu_dc, trust_off_unit, pair_off_unit, ud; cbn. repeat split;
  try (match goal with H : _ \/ False |- _ => destruct H as [<-|[]] end; cbn; lia). intros ju [<-|[]] d [<-|[]]. lia. Qed.
Example exu_hyps : k_sizes exu_dc = l_sizes exu_lc /\ k_units exu_dc = l_units exu_lc /\
  (forall r, In r exu_W -> length r = l_units exu_lc).
Proof. repeat split. intros r H. cbn in H. repeat (destruct H as [<-|H]; [reflexivity|]). destruct H. Qed.
(* the three result columns are pairwise different and the kernel is changed *)
Example exu_not_vacuous :
  let out u := lattice_constraint_model (dyk1 exu_dc) (lat1 exu_lc) true true (column u exu_W) in
  forallb (fun p => negb (qlist_close 0 (out (fst p)) (out (snd p)))) [(0, 1); (0, 2); (1, 2)]%nat = true /\
  forallb (fun u => negb (qlist_close 0 (out u) (column u exu_W))) [0; 1; 2]%nat = true.
Proof. vm_compute. split; reflexivity. Qed.
