(* Lemmas about Model/RTLStructure.v. *)
From Coq Require Import Permutation.
From TFL Require Import Model.RTLStructure.

(* ------------------------------------------------------------------ *)
(* counting with a boolean predicate                                   *)
(* ------------------------------------------------------------------ *)
Definition countp {A} (p : A -> bool) (l : list A) : nat := length (filter p l).
Definition b2n (b : bool) : nat := if b then 1 else 0.
Arguments countp : simpl never.

Lemma countp_cons {A} (p : A -> bool) x l : countp p (x :: l) = b2n (p x) + countp p l.
Proof. unfold countp; cbn. destruct (p x); reflexivity. Qed.
Lemma countp_app {A} (p : A -> bool) a b : countp p (a ++ b) = countp p a + countp p b.
Proof. unfold countp. rewrite filter_app, app_length. reflexivity. Qed.
Lemma countp_perm {A} (p : A -> bool) a b : Permutation a b -> countp p a = countp p b.
Proof. induction 1; rewrite ?countp_cons; lia. Qed.
Lemma countp_concat {A} (p : A -> bool) ls : countp p (concat ls) = list_sum (map (countp p) ls).
Proof. induction ls as [|l ls IH]; cbn; [reflexivity|]. rewrite countp_app, IH. reflexivity. Qed.
Lemma countp_firstn_le {A} (p : A -> bool) k l : countp p (firstn k l) <= countp p l.
Proof. revert k; induction l as [|x l IH]; intros [|k]; cbn; rewrite ?countp_cons; try lia.
  unfold countp; cbn; lia. specialize (IH k). lia. Qed.
Lemma countp_pos_in {A} (p : A -> bool) l : 0 < countp p l -> exists x, In x l /\ p x = true.
Proof. induction l as [|x l IH]; cbn. unfold countp; cbn; lia.
  rewrite countp_cons. destruct (p x) eqn:E. intros _. exists x; auto.
  cbn. intros H. destruct (IH H) as [y [Hy Py]]. exists y; auto. Qed.
Lemma countp_in_pos {A} (p : A -> bool) l x : In x l -> p x = true -> 0 < countp p l.
Proof. induction l as [|y l IH]; cbn; [tauto|]. rewrite countp_cons. intros [->|H] Px.
  rewrite Px; cbn; lia. specialize (IH H Px). lia. Qed.
Lemma countp_map {A B} (f : A -> B) (p : B -> bool) l : countp p (map f l) = countp (fun x => p (f x)) l.
Proof. induction l as [|x l IH]; [reflexivity|]. cbn [map]. rewrite !countp_cons, IH. reflexivity. Qed.
Lemma countp_count_occ l i : countp (Nat.eqb i) l = count_occ Nat.eq_dec l i.
Proof. induction l as [|x l IH]; [reflexivity|]. rewrite countp_cons. cbn.
  destruct (Nat.eq_dec x i) as [->|N]. rewrite Nat.eqb_refl, IH; reflexivity.
  destruct (Nat.eqb_spec i x); [congruence|]. cbn. exact IH. Qed.
Lemma countp_ext {A} (p q : A -> bool) l : (forall x, p x = q x) -> countp p l = countp q l.
Proof. intros E. induction l as [|x l IH]; [reflexivity|]. rewrite !countp_cons, E, IH. reflexivity. Qed.

Lemma countp_seq i s n : countp (Nat.eqb i) (seq s n) = b2n ((s <=? i) && (i <? s + n)).
Proof. revert s; induction n as [|n IH]; intros s; cbn [seq].
  - change (countp (Nat.eqb i) []) with 0.
    destruct (s <=? i) eqn:E1, (i <? s + 0) eqn:E2; cbn; try reflexivity.
    apply Nat.leb_le in E1. apply Nat.ltb_lt in E2. lia.
  - rewrite countp_cons, IH.
    destruct (i =? s) eqn:E0, (s <=? i) eqn:E1, (S s <=? i) eqn:E2, (i <? s + S n) eqn:E3, (i <? S s + n) eqn:E4;
      cbn; try reflexivity; exfalso;
      rewrite ?Nat.eqb_eq, ?Nat.eqb_neq, ?Nat.leb_le, ?Nat.leb_gt, ?Nat.ltb_lt, ?Nat.ltb_ge in *; lia. Qed.

(* ------------------------------------------------------------------ *)
(* set_at / nth                                                        *)
(* ------------------------------------------------------------------ *)
Lemma set_at_length {A} i (v : A) l : length (set_at i v l) = length l.
Proof. revert i; induction l as [|x l IH]; intros [|i]; cbn; auto. Qed.
Lemma nth_set_at_same {A} i (v d : A) l : i < length l -> nth i (set_at i v l) d = v.
Proof. revert i; induction l as [|x l IH]; intros [|i] H; cbn in *; try lia; auto. apply IH; lia. Qed.
Lemma nth_set_at_other {A} i j (v d : A) l : i <> j -> nth j (set_at i v l) d = nth j l d.
Proof. revert i j; induction l as [|x l IH]; intros [|i] [|j] H; cbn; auto; try lia. Qed.
Lemma countp_set_at {A} (p : A -> bool) i v d l : i < length l ->
  countp p (set_at i v l) + b2n (p (nth i l d)) = countp p l + b2n (p v).
Proof. revert i; induction l as [|x l IH]; intros [|i] H; cbn in *; try lia; rewrite !countp_cons.
  lia. specialize (IH i ltac:(lia)). lia. Qed.
Lemma map_length_set_at {A} i (v : list A) st : length v = length (nth i st []) ->
  map (@length A) (set_at i v st) = map (@length A) st.
Proof. revert i; induction st as [|x st IH]; intros [|i] H; cbn in *; auto; congruence || (f_equal; auto). Qed.
(* updating one row of a list of rows *)
Lemma csum_set_at {A} (p : A -> bool) a v (st : list (list A)) : a < length st ->
  countp p (concat (set_at a v st)) + countp p (nth a st []) = countp p (concat st) + countp p v.
Proof. revert a; induction st as [|x st IH]; intros [|a] H; cbn in *; try lia; rewrite !countp_app.
  lia. specialize (IH a ltac:(lia)). lia. Qed.
Lemma in_set_at {A} i (v : A) l x : In x (set_at i v l) -> x = v \/ In x l.
Proof. revert i; induction l as [|y l IH]; intros [|i]; cbn; try tauto.
  intros [H|H]; auto. intros [H|H]; auto. destruct (IH _ H); auto. Qed.

(* ------------------------------------------------------------------ *)
(* tile / firstn / chunks                                              *)
(* ------------------------------------------------------------------ *)
Lemma tile_length {A} (l : list A) k : length (tile l k) = k * length l.
Proof. induction k; cbn; [reflexivity|]. rewrite app_length, IHk. reflexivity. Qed.
Lemma countp_tile {A} (p : A -> bool) l k : countp p (tile l k) = k * countp p l.
Proof. induction k; cbn; [reflexivity|]. rewrite countp_app, IHk. reflexivity. Qed.
Lemma in_tile {A} (l : list A) k x : In x (tile l k) -> In x l.
Proof. induction k; cbn; [tauto|]. rewrite in_app_iff. tauto. Qed.
Lemma in_firstn {A} k (l : list A) x : In x (firstn k l) -> In x l.
Proof. revert k; induction l as [|y l IH]; intros [|k]; cbn; try tauto. intros [H|H]; eauto. Qed.
Lemma firstn_tile {A} (l : list A) q k r :
  firstn (q * length l + r) (tile l (q + k)) = tile l q ++ firstn r (tile l k).
Proof. induction q as [|q IH]; cbn [tile Nat.add Nat.mul]; [reflexivity|].
  replace (length l + q * length l + r) with (length l + (q * length l + r)) by lia.
  rewrite firstn_app_2, IH, app_assoc. reflexivity. Qed.

Lemma chunks_concat {A} rank num (l : list A) : length l = num * rank -> concat (chunks rank num l) = l.
Proof. revert l; induction num as [|n IH]; intros l H; cbn in *.
  destruct l; [reflexivity|discriminate].
  rewrite IH. apply firstn_skipn. rewrite skipn_length. lia. Qed.
Lemma chunks_lengths {A} rank num (l : list A) : length l = num * rank ->
  length (chunks rank num l) = num /\ Forall (fun c => length c = rank) (chunks rank num l).
Proof. revert l; induction num as [|n IH]; intros l H; cbn in *. split; constructor.
  destruct (IH (skipn rank l)) as [H1 H2]. rewrite skipn_length; lia.
  split. lia. constructor; [|exact H2]. rewrite firstn_length. lia. Qed.

(* ------------------------------------------------------------------ *)
(* flatten                                                             *)
(* ------------------------------------------------------------------ *)
Lemma map_add_seq i a s : map (fun k => i + k) (seq a s) = seq (i + a) s.
Proof. revert a; induction s as [|s IH]; intros a; cbn; [reflexivity|].
  rewrite IH. f_equal. f_equal. lia. Qed.
Lemma flat_groups_idx mono sizes g i : map r_idx (flat_groups mono sizes g i) = seq i (list_sum sizes).
Proof. revert g i; induction sizes as [|s r IH]; intros g i; cbn; [reflexivity|].
  rewrite map_app, map_map, IH. cbn. rewrite map_add_seq, Nat.add_0_r, seq_app. reflexivity. Qed.
Lemma flat_groups_mono mono sizes g i r : In r (flat_groups mono sizes g i) -> r_mono r = mono.
Proof. revert g i; induction sizes as [|s rs IH]; intros g i; cbn; [tauto|].
  rewrite in_app_iff, in_map_iff. intros [[k [<- _]]|H]; [reflexivity|eauto]. Qed.

Definition n_inc (x : rtl_input) : nat := list_sum (sizes_of (in_inc x)).
Definition n_inputs (x : rtl_input) : nat := list_sum (sizes_of (in_inc x)) + list_sum (sizes_of (in_unc x)).

Lemma flatten_idx x : map r_idx (flatten x) = seq 0 (n_inputs x).
Proof. unfold flatten, n_inputs. rewrite map_app, !flat_groups_idx, seq_app. reflexivity. Qed.
Lemma flatten_length x : length (flatten x) = n_inputs x.
Proof. rewrite <- (map_length r_idx), flatten_idx, seq_length. reflexivity. Qed.
Lemma flatten_mono x r : In r (flatten x) -> r_mono r = if r_idx r <? n_inc x then 1 else 0.
Proof. unfold flatten, n_inc. rewrite in_app_iff. intros [H|H].
  - rewrite (flat_groups_mono _ _ _ _ _ H).
    pose proof (in_map r_idx _ _ H) as Hi. rewrite flat_groups_idx in Hi.
    apply in_seq in Hi. destruct (Nat.ltb_spec (r_idx r) (list_sum (sizes_of (in_inc x)))); [reflexivity|lia].
  - rewrite (flat_groups_mono _ _ _ _ _ H).
    pose proof (in_map r_idx _ _ H) as Hi. rewrite flat_groups_idx in Hi.
    apply in_seq in Hi. destruct (Nat.ltb_spec (r_idx r) (list_sum (sizes_of (in_inc x)))); [lia|reflexivity]. Qed.
Lemma flatten_nth_idx x i : i < n_inputs x -> r_idx (nth i (flatten x) rin0) = i.
Proof. intros H. change (r_idx (nth i (flatten x) rin0)) with ((fun r => r_idx r) (nth i (flatten x) rin0)).
  rewrite <- (map_nth r_idx). rewrite flatten_idx. cbn [r_idx rin0]. rewrite seq_nth by exact H. reflexivity. Qed.
(* the monotonicity under which index i was supplied: increasing inputs are
   the first n_inc flattened indices *)
Lemma input_mono_spec x i : i < n_inputs x -> input_mono x i = if i <? n_inc x then 1 else 0.
Proof. intros H. unfold input_mono.
  assert (Hin : In (nth i (flatten x) rin0) (flatten x)) by (apply nth_In; rewrite flatten_length; exact H).
  rewrite (flatten_mono _ _ Hin), flatten_nth_idx by exact H. reflexivity. Qed.
Lemma flatten_mono_input x r : In r (flatten x) -> r_mono r = input_mono x (r_idx r) /\ r_idx r < n_inputs x.
Proof. intros H.
  assert (Hi : In (r_idx r) (seq 0 (n_inputs x))) by (rewrite <- flatten_idx; apply in_map; exact H).
  apply in_seq in Hi. split; [|lia]. rewrite input_mono_spec by lia. apply flatten_mono; exact H. Qed.
Lemma flatten_count x i : countp (fun r => Nat.eqb i (r_idx r)) (flatten x) = b2n (i <? n_inputs x).
Proof. rewrite <- (countp_map r_idx (Nat.eqb i)), flatten_idx, countp_seq. reflexivity. Qed.

(* ------------------------------------------------------------------ *)
(* the swap loop preserves shape and multiset                          *)
(* ------------------------------------------------------------------ *)
Definition same_shape (st0 st : list (list rin)) : Prop :=
  map (@length rin) st = map (@length rin) st0 /\ forall p, countp p (concat st) = countp p (concat st0).

Lemma same_shape_refl st : same_shape st st.
Proof. split; auto. Qed.
Lemma same_shape_trans a b c : same_shape a b -> same_shape b c -> same_shape a c.
Proof. intros [H1 H2] [H3 H4]. split. congruence. intros p. rewrite H4, H2. reflexivity. Qed.
Lemma same_shape_length st0 st : same_shape st0 st -> length st = length st0.
Proof. intros [H _]. rewrite <- (map_length (@length rin) st), H, map_length. reflexivity. Qed.
Lemma same_shape_nth_length st0 st a : same_shape st0 st -> length (nth a st []) = length (nth a st0 []).
Proof. intros [H _]. change (length (nth a st [])) with ((fun l => @length rin l) (nth a st [])).
  rewrite <- (map_nth (@length rin)), H, map_nth. reflexivity. Qed.

Lemma try_swap_shape st a b i0 i1 :
  a < length st -> b < length st -> a <> b -> i0 < length (nth a st []) -> i1 < length (nth b st []) ->
  same_shape st (fst (try_swap st a b i0 i1)).
Proof.
  intros Ha Hb Hab H0 H1. unfold try_swap.
  destruct (_ =? _). apply same_shape_refl.
  destruct (_ && _ && _); [|apply same_shape_refl]. cbn [fst].
  set (la := nth a st []) in *. set (lb := nth b st []) in *.
  set (f0 := nth i0 la rin0). set (f1 := nth i1 lb rin0).
  set (st1 := set_at b (set_at i1 f0 lb) st).
  assert (Hl1 : length st1 = length st) by apply set_at_length.
  assert (Hna : nth a st1 [] = la) by (unfold st1; rewrite nth_set_at_other by congruence; reflexivity).
  split.
  - rewrite map_length_set_at by (rewrite Hna, set_at_length; reflexivity).
    unfold st1. rewrite map_length_set_at by (rewrite set_at_length; reflexivity). reflexivity.
  - intros p.
    pose proof (csum_set_at p a (set_at i0 f1 la) st1 ltac:(lia)) as E1. rewrite Hna in E1.
    pose proof (csum_set_at p b (set_at i1 f0 lb) st Hb) as E2. fold lb st1 in E2.
    pose proof (countp_set_at p i0 f1 rin0 la H0) as E3. fold f0 in E3.
    pose proof (countp_set_at p i1 f0 rin0 lb H1) as E4. fold f1 in E4.
    lia.
Qed.

Lemma fold_left_inv {A B} (f : A -> B -> A) (P : A -> Prop) l a :
  P a -> (forall a x, In x l -> P a -> P (f a x)) -> P (fold_left f l a).
Proof. revert a; induction l as [|x l IH]; intros a Pa H; cbn; [exact Pa|].
  apply IH. apply H; [left; reflexivity|exact Pa]. intros; apply H; [right|]; assumption. Qed.

Lemma in_pairs a b n : In (a, b) (pairs n) -> a < b /\ b < n.
Proof. unfold pairs. rewrite in_flat_map. intros [a' [Ha' H]]. apply in_map_iff in H.
  destruct H as [b' [E Hb']]. inversion E; subst. apply in_seq in Ha', Hb'. lia. Qed.

Lemma pass_pair_shape st0 acc a b : In (a, b) (pairs (length st0)) ->
  same_shape st0 (fst acc) -> same_shape st0 (fst (pass_pair acc (a, b))).
Proof.
  intros Hab Hacc. unfold pass_pair. apply in_pairs in Hab.
  apply fold_left_inv with (P := fun acc' => same_shape st0 (fst acc')); [exact Hacc|].
  intros acc' [i0 i1] Hq Hs. apply in_prod_iff in Hq. destruct Hq as [Hi0 Hi1]. apply in_seq in Hi0, Hi1.
  unfold swap_step. cbn [fst snd].
  destruct (try_swap (fst acc') a b i0 i1) as [st' c] eqn:E. cbn [fst].
  replace st' with (fst (try_swap (fst acc') a b i0 i1)) by (rewrite E; reflexivity).
  eapply same_shape_trans; [exact Hs|].
  pose proof (same_shape_length _ _ Hs). pose proof (same_shape_length _ _ Hacc).
  apply try_swap_shape; try lia.
  rewrite (same_shape_nth_length _ _ a Hs), <- (same_shape_nth_length _ _ a Hacc). lia.
  rewrite (same_shape_nth_length _ _ b Hs), <- (same_shape_nth_length _ _ b Hacc). lia.
Qed.

Lemma swap_pass_shape st : same_shape st (fst (swap_pass st)).
Proof. unfold swap_pass.
  apply fold_left_inv with (P := fun acc => same_shape st (fst acc)). apply same_shape_refl.
  intros acc [a b] Hab Hs. apply pass_pair_shape; assumption. Qed.

Lemma swap_loop_shape fuel st : same_shape st (swap_loop fuel st).
Proof. revert st; induction fuel as [|f IH]; intros st; cbn. apply same_shape_refl.
  pose proof (swap_pass_shape st) as H. destruct (swap_pass st) as [st' ch]. cbn in H.
  destruct ch; [|exact H]. eapply same_shape_trans; [exact H|apply IH]. Qed.

(* membership follows from counting (decidable equality on rin) *)
Definition rin_eqb (x y : rin) : bool :=
  (r_mono x =? r_mono y) && (r_group x =? r_group y) && (r_idx x =? r_idx y).
Lemma rin_eqb_eq x y : rin_eqb x y = true <-> x = y.
Proof. unfold rin_eqb. rewrite !andb_true_iff, !Nat.eqb_eq. destruct x, y; cbn. split.
  intros [[-> ->] ->]; reflexivity. intros E; inversion E; auto. Qed.
Lemma count_in (l l' : list rin) : (forall p, countp p l' = countp p l) -> forall r, In r l' -> In r l.
Proof. intros H r Hr.
  assert (Hp : 0 < countp (rin_eqb r) l') by (eapply countp_in_pos; [exact Hr|apply rin_eqb_eq; reflexivity]).
  rewrite H in Hp. destruct (countp_pos_in _ _ Hp) as [y [Hy E]]. apply rin_eqb_eq in E. subst; exact Hy. Qed.

(* ------------------------------------------------------------------ *)
(* sorting and grouping                                                *)
(* ------------------------------------------------------------------ *)
Lemma ins_mono_perm x l : Permutation (ins_mono x l) (x :: l).
Proof. induction l as [|y l IH]; cbn. reflexivity. destruct (_ <=? _). reflexivity.
  rewrite IH. apply perm_swap. Qed.
Lemma sort_mono_perm l : Permutation (sort_mono l) l.
Proof. induction l as [|x l IH]; cbn. reflexivity. rewrite ins_mono_perm, IH. reflexivity. Qed.
Lemma ins_item_perm e d : Permutation (ins_item e d) (e :: d).
Proof. induction d as [|y l IH]; cbn. reflexivity. destruct (lex_leb _ _). reflexivity.
  rewrite IH. apply perm_swap. Qed.
Lemma sort_items_perm d : Permutation (sort_items d) d.
Proof. induction d as [|x l IH]; cbn. reflexivity. rewrite ins_item_perm, IH. reflexivity. Qed.

Lemma Permutation_concat {A} (a b : list (list A)) : Permutation a b -> Permutation (concat a) (concat b).
Proof. induction 1; cbn. reflexivity. apply Permutation_app_head; assumption.
  rewrite !app_assoc. apply Permutation_app_tail, Permutation_app_comm. etransitivity; eassumption. Qed.

Lemma all_lattices_flat_map s : all_lattices s = flat_map snd s.
Proof. unfold all_lattices. rewrite flat_map_concat_map. reflexivity. Qed.

Lemma dict_append_lattices k v d : Permutation (all_lattices (dict_append k v d)) (all_lattices d ++ [v]).
Proof. induction d as [|[k' vs] d IH]; cbn. reflexivity.
  destruct (list_eqb k k'); unfold all_lattices in *; cbn.
  - rewrite <- !app_assoc. apply Permutation_app_head. apply Permutation_app_comm.
  - rewrite <- app_assoc. apply Permutation_app_head. exact IH. Qed.

(* every entry of the dict built from the lattices [ls]: its key is the
   monotonicity tuple of, and each value the index list of, one sorted lattice *)
Definition entry_ok (ls : list (list rin)) (e : list nat * list (list nat)) : Prop :=
  (exists l, In l ls /\ fst e = map r_mono (sort_mono l)) /\
  forall v, In v (snd e) -> exists l, In l ls /\ fst e = map r_mono (sort_mono l) /\ v = map r_idx (sort_mono l).

Lemma list_eqb_eq a b : list_eqb a b = true -> a = b.
Proof. revert b; induction a as [|x a IH]; intros [|y b]; cbn; try discriminate; auto.
  rewrite andb_true_iff, Nat.eqb_eq. intros [-> H]. f_equal; auto. Qed.

Lemma dict_append_ok ls l d : In l ls -> Forall (entry_ok ls) d ->
  Forall (entry_ok ls) (dict_append (map r_mono (sort_mono l)) (map r_idx (sort_mono l)) d).
Proof. intros Hl. induction d as [|[k' vs] d IH]; intros Hd; cbn.
  - constructor; [|constructor]. split; cbn. eauto. intros v [<-|[]]. eauto.
  - inversion Hd as [|? ? He Hd']; subst.
    destruct (list_eqb _ k') eqn:E.
    + apply list_eqb_eq in E. constructor; [|exact Hd']. destruct He as [He1 He2]. split; [exact He1|].
      cbn in *. intros v Hv. apply in_app_iff in Hv. destruct Hv as [Hv|[<-|[]]]. auto.
      exists l. subst k'. auto.
    + constructor; auto. Qed.

Lemma group_fold ls0 ls d0 : incl ls ls0 -> Forall (entry_ok ls0) d0 ->
  Forall (entry_ok ls0) (fold_left group_step ls d0) /\
  Permutation (all_lattices (fold_left group_step ls d0))
              (all_lattices d0 ++ map (fun l => map r_idx (sort_mono l)) ls).
Proof. revert d0; induction ls as [|l ls IH]; intros d0 Hi Hd; cbn [fold_left map].
  - split. exact Hd. rewrite app_nil_r. reflexivity.
  - assert (Hl : In l ls0) by (apply Hi; left; reflexivity).
    destruct (IH (group_step d0 l)) as [H1 H2]. intros y Hy; apply Hi; right; exact Hy.
    apply dict_append_ok; assumption.
    split. exact H1. rewrite H2. unfold group_step at 1. rewrite dict_append_lattices.
    rewrite <- app_assoc. reflexivity. Qed.

Lemma grouped ls : let s := sort_items (fold_left group_step ls []) in
  Forall (entry_ok ls) s /\ Permutation (all_lattices s) (map (fun l => map r_idx (sort_mono l)) ls).
Proof. cbn. destruct (group_fold ls ls [] (incl_refl _) (Forall_nil _)) as [H1 H2]. split.
  - eapply Permutation_Forall; [symmetry; apply sort_items_perm|exact H1].
  - rewrite all_lattices_flat_map. rewrite (Permutation_flat_map snd (sort_items_perm _)).
    rewrite <- all_lattices_flat_map. exact H2. Qed.

(* ------------------------------------------------------------------ *)
(* the whole pipeline                                                  *)
(* ------------------------------------------------------------------ *)
Section Pipeline.
Variables sh1 sh2 : list rin -> list rin.
Hypothesis sh1_perm : forall l, Permutation l (sh1 l).
Hypothesis sh2_perm : forall l, Permutation l (sh2 l).
Variable cfg : rtl_cfg.
Variable s : structure.
Hypothesis Hs : rtl_structure cfg sh1 sh2 = Some s.

Let x := c_input cfg.
Let n := n_inputs x.
Let total := c_num cfg * c_rank cfg.

Lemma accepted : n <= total /\ 0 < n.
Proof. unfold rtl_structure in Hs. rewrite flatten_length in Hs. fold x n total in Hs.
  destruct (Nat.ltb_spec total n); [discriminate|]. destruct (Nat.eqb_spec n 0); [discriminate|]. lia. Qed.

Lemma s_eq : s = sort_items (fold_left group_step (rtl_lattices cfg sh1 sh2) []).
Proof. unfold rtl_structure in Hs. destruct (_ <? _); [discriminate|]. destruct (_ =? _); [discriminate|].
  inversion Hs; reflexivity. Qed.

Let slots := rtl_slots cfg sh1 sh2.
Let q := total / n.

Lemma slots_length : length slots = total.
Proof. destruct accepted as [H1 H2]. unfold slots, rtl_slots. fold x. rewrite flatten_length. fold n total.
  rewrite <- (Permutation_length (sh2_perm _)). rewrite firstn_length, tile_length.
  rewrite <- (Permutation_length (sh1_perm _)), flatten_length. fold n.
  pose proof (Nat.div_mod total n ltac:(lia)). pose proof (Nat.mod_upper_bound total n ltac:(lia)).
  fold q in H |- *. nia. Qed.

Lemma slots_count p : countp p slots = q * countp p (flatten x) + countp p (firstn (total mod n) (sh1 (flatten x))).
Proof. destruct accepted as [H1 H2]. unfold slots, rtl_slots. fold x. rewrite flatten_length. fold n total q.
  rewrite <- (countp_perm p _ _ (sh2_perm _)).
  assert (E : total = q * length (sh1 (flatten x)) + total mod n).
  { rewrite <- (Permutation_length (sh1_perm _)), flatten_length. fold n.
    pose proof (Nat.div_mod total n ltac:(lia)). fold q in H. lia. }
  rewrite E at 1. replace (1 + q) with (q + 1) by lia. rewrite firstn_tile, countp_app, countp_tile.
  cbn [tile]. rewrite app_nil_r. rewrite <- (countp_perm p _ _ (sh1_perm _)). reflexivity. Qed.

Lemma slots_in r : In r slots -> In r (flatten x).
Proof. unfold slots, rtl_slots. fold x. intros H.
  apply (Permutation_in _ (Permutation_sym (sh2_perm _))) in H.
  apply in_firstn, in_tile in H. apply (Permutation_in _ (Permutation_sym (sh1_perm _))) in H. exact H. Qed.

Let lats := rtl_lattices cfg sh1 sh2.

Lemma lats_shape : same_shape (chunks (c_rank cfg) (c_num cfg) slots) lats.
Proof. unfold lats, rtl_lattices. fold slots. destruct (c_avoid cfg). apply swap_loop_shape. apply same_shape_refl. Qed.

Lemma lats_length : length lats = c_num cfg.
Proof. rewrite (same_shape_length _ _ lats_shape). apply chunks_lengths. rewrite slots_length; reflexivity. Qed.
Lemma lats_rank l : In l lats -> length l = c_rank cfg.
Proof. intros H. destruct lats_shape as [Hm _].
  assert (Hin : In (length l) (map (@length rin) lats)) by (apply in_map; exact H).
  rewrite Hm in Hin. apply in_map_iff in Hin. destruct Hin as [c [<- Hc]].
  destruct (chunks_lengths (c_rank cfg) (c_num cfg) slots) as [_ HF]. rewrite slots_length; reflexivity.
  rewrite Forall_forall in HF. apply HF; exact Hc. Qed.
Lemma lats_count p : countp p (concat lats) = countp p slots.
Proof. destruct lats_shape as [_ H]. rewrite H, chunks_concat. reflexivity. rewrite slots_length; reflexivity. Qed.
Lemma lats_in l r : In l lats -> In r l -> In r (flatten x).
Proof. intros Hl Hr. apply slots_in. apply (count_in slots (concat lats)). intros p; apply lats_count.
  apply in_concat. eauto. Qed.

Lemma s_entries : Forall (entry_ok lats) s.
Proof. rewrite s_eq. apply (grouped lats). Qed.
Lemma s_lattices : Permutation (all_lattices s) (map (fun l => map r_idx (sort_mono l)) lats).
Proof. rewrite s_eq. apply (grouped lats). Qed.

Lemma in_all_lattices m ls lat : In (m, ls) s -> In lat ls -> In lat (all_lattices s).
Proof. intros H1 H2. unfold all_lattices. apply in_concat. exists ls. split; [|exact H2].
  apply (in_map snd) in H1. exact H1. Qed.

(* --- rank --- *)
Lemma rtl_rank :
  length (all_lattices s) = c_num cfg /\
  (forall lat, In lat (all_lattices s) -> length lat = c_rank cfg) /\
  (forall m ls, In (m, ls) s -> length m = c_rank cfg).
Proof. split; [|split].
  - rewrite (Permutation_length s_lattices), map_length. apply lats_length.
  - intros lat H. apply (Permutation_in _ s_lattices) in H. apply in_map_iff in H.
    destruct H as [l [<- Hl]]. rewrite map_length, (Permutation_length (sort_mono_perm l)). apply lats_rank; exact Hl.
  - intros m ls H. pose proof s_entries as HF. rewrite Forall_forall in HF.
    destruct (HF _ H) as [[l [Hl E]] _]. cbn in E. rewrite E, map_length, (Permutation_length (sort_mono_perm l)).
    apply lats_rank; exact Hl. Qed.

(* --- usage counts --- *)
Lemma usage_eq i : usage s i = countp (fun r => Nat.eqb i (r_idx r)) slots.
Proof. unfold usage. rewrite <- countp_count_occ.
  rewrite (countp_perm _ _ _ (Permutation_concat _ _ s_lattices)). rewrite <- lats_count.
  clear. induction lats as [|l ls IH]; cbn [map concat]. reflexivity.
  rewrite !countp_app, IH, countp_map. f_equal. apply countp_perm, sort_mono_perm. Qed.

Lemma rtl_usage_bounds i : i < n -> q <= usage s i <= q + 1.
Proof. intros Hi. rewrite usage_eq, slots_count, flatten_count. fold n.
  destruct (Nat.ltb_spec i n); [|lia]. cbn [b2n].
  pose proof (countp_firstn_le (fun r => Nat.eqb i (r_idx r)) (total mod n) (sh1 (flatten x))) as H1.
  rewrite <- (countp_perm _ _ _ (sh1_perm _)), flatten_count in H1. fold n in H1.
  destruct (Nat.ltb_spec i n); [|lia]. cbn [b2n] in H1. lia. Qed.

Lemma q_pos : 1 <= q.
Proof. destruct accepted. unfold q. apply Nat.div_le_lower_bound; lia. Qed.

Lemma rtl_usage_outside i : n <= i -> usage s i = 0.
Proof. intros Hi. rewrite usage_eq, slots_count, flatten_count. fold n.
  destruct (Nat.ltb_spec i n); [lia|]. cbn [b2n].
  pose proof (countp_firstn_le (fun r => Nat.eqb i (r_idx r)) (total mod n) (sh1 (flatten x))) as H1.
  rewrite <- (countp_perm _ _ _ (sh1_perm _)), flatten_count in H1. fold n in H1.
  destruct (Nat.ltb_spec i n); [lia|]. cbn [b2n] in H1. lia. Qed.

Lemma rtl_coverage i : i < n -> exists lat, In lat (all_lattices s) /\ In i lat.
Proof. intros Hi. pose proof (rtl_usage_bounds i Hi) as [H _]. pose proof q_pos.
  unfold usage in H. assert (Hin : In i (concat (all_lattices s))) by (apply (count_occ_In Nat.eq_dec); lia).
  apply in_concat in Hin. destruct Hin as [lat [H1 H2]]. eauto. Qed.

Lemma rtl_balanced i j : i < n -> j < n -> usage s i <= usage s j + 1.
Proof. intros Hi Hj. pose proof (rtl_usage_bounds i Hi). pose proof (rtl_usage_bounds j Hj). lia. Qed.

(* --- wiring --- *)
Lemma rtl_wiring m ls lat p : In (m, ls) s -> In lat ls -> p < c_rank cfg ->
  nth p lat 0 < n /\ nth p m 0 = input_mono x (nth p lat 0).
Proof. intros Hm Hl Hp. pose proof s_entries as HF. rewrite Forall_forall in HF.
  destruct (HF _ Hm) as [_ H]. destruct (H lat Hl) as [l [Hin [Em El]]]. cbn in Em. subst m lat.
  assert (Hlen : length (sort_mono l) = c_rank cfg) by (rewrite (Permutation_length (sort_mono_perm l)); apply lats_rank; exact Hin).
  assert (Hr : In (nth p (sort_mono l) rin0) (flatten x)).
  { apply (lats_in l); [exact Hin|]. apply (Permutation_in _ (sort_mono_perm l)). apply nth_In. lia. }
  change 0 with (r_idx rin0) at 1 3. change 0 with (r_mono rin0) at 1. rewrite !map_nth.
  destruct (flatten_mono_input _ _ Hr) as [H1 H2]. fold n in H2. auto. Qed.

End Pipeline.

(* ------------------------------------------------------------------ *)
(* output labels                                                       *)
(* ------------------------------------------------------------------ *)
Lemma list_max_01 m : (forall v, In v m -> v = 0 \/ v = 1) ->
  (list_max m = 1 /\ In 1 m) \/ (list_max m = 0 /\ ~ In 1 m).
Proof. induction m as [|v m IH]; intros H. right; split; [reflexivity|cbn; tauto].
  change (list_max (v :: m)) with (Nat.max v (list_max m)).
  assert (IH' := IH (fun w Hw => H w (or_intror Hw))). clear IH.
  destruct (H v (or_introl eq_refl)) as [->| ->]; cbn [In].
  - destruct IH' as [[E I]|[E I]]; rewrite E; cbn. left; auto. right; split; [reflexivity|]. intros [D|D]; [discriminate|tauto].
  - left. split; [|auto]. destruct IH' as [[E _]|[E _]]; rewrite E; reflexivity. Qed.

Lemma in_nth_ex {A} (l : list A) x d : In x l -> exists p, p < length l /\ nth p l d = x.
Proof. intros H. destruct (In_nth l x d H) as [p [H1 H2]]. eauto. Qed.

Lemma filter_partition {A} (f : A -> nat) (l : list A) : (forall e, In e l -> f e = 0 \/ f e = 1) ->
  Permutation (filter (fun e => f e =? 0) l ++ filter (fun e => f e =? 1) l) l.
Proof. induction l as [|e l IH]; intros H; cbn. reflexivity.
  assert (IH' := IH (fun e' He' => H e' (or_intror He'))). clear IH.
  destruct (H e (or_introl eq_refl)) as [E|E]; rewrite E; cbn.
  - apply perm_skip; exact IH'.
  - rewrite <- Permutation_middle. apply perm_skip; exact IH'. Qed.

(* ------------------------------------------------------------------ *)
(* closed statements                                                   *)
(* ------------------------------------------------------------------ *)
Definition perm_oracle (sh : list rin -> list rin) : Prop := forall l, Permutation l (sh l).

Section Closed.
Variables sh1 sh2 : list rin -> list rin.
Hypothesis P1 : perm_oracle sh1.
Hypothesis P2 : perm_oracle sh2.
Variable cfg : rtl_cfg.
Variable s : structure.
Hypothesis Hs : rtl_structure cfg sh1 sh2 = Some s.
Let x := c_input cfg.

Lemma rtl_accepted_closed : 0 < n_inputs x <= c_num cfg * c_rank cfg.
Proof. destruct (accepted sh1 sh2 cfg s Hs). unfold x. lia. Qed.

Lemma rtl_rank_closed :
  length (all_lattices s) = c_num cfg /\
  forall m ls, In (m, ls) s -> length m = c_rank cfg /\ forall lat, In lat ls -> length lat = c_rank cfg.
Proof. destruct (rtl_rank sh1 sh2 P1 P2 cfg s Hs) as [H1 [H2 H3]]. split; [exact H1|].
  intros m ls H. split. eapply H3; exact H. intros lat Hl. apply H2. eapply in_all_lattices; eassumption. Qed.

Lemma rtl_key_01 m ls : In (m, ls) s -> forall v, In v m -> v = 0 \/ v = 1.
Proof. intros H v Hv. pose proof (s_entries sh1 sh2 cfg s Hs) as HF. rewrite Forall_forall in HF.
  destruct (HF _ H) as [[l [Hl E]] _]. cbn in E. subst m. apply in_map_iff in Hv. destruct Hv as [r [<- Hr]].
  apply (Permutation_in _ (sort_mono_perm l)) in Hr.
  pose proof (lats_in sh1 sh2 P1 P2 cfg s Hs l r Hl Hr) as Hf. rewrite (flatten_mono _ _ Hf).
  destruct (_ <? _); auto. Qed.

Lemma rtl_label_closed m ls lat : In (m, ls) s -> In lat ls ->
  (out_label m = 0 \/ out_label m = 1) /\
  (out_label m = 1 <-> exists i, In i lat /\ input_mono x i = 1).
Proof. intros Hm Hl. destruct rtl_rank_closed as [_ HR]. destruct (HR m ls Hm) as [Lm Ll]. specialize (Ll lat Hl).
  pose proof (fun p => rtl_wiring sh1 sh2 P1 P2 cfg s Hs m ls lat p Hm Hl) as W. fold x in W.
  unfold out_label. destruct (list_max_01 m (rtl_key_01 m ls Hm)) as [[E I]|[E I]]; rewrite E.
  - split; [auto|]. split; [intros _|reflexivity]. destruct (in_nth_ex m 1 0 I) as [p [Hp Ep]].
    destruct (W p ltac:(lia)) as [_ W2]. exists (nth p lat 0). split. apply nth_In; lia. congruence.
  - split; [auto|]. split; [discriminate|]. intros [i [Hi Ei]]. exfalso. apply I.
    destruct (in_nth_ex lat i 0 Hi) as [p [Hp Ep]]. destruct (W p ltac:(lia)) as [_ W2].
    rewrite Ep, Ei in W2. rewrite <- W2. apply nth_In; lia. Qed.

Lemma rtl_outputs_closed :
  (forall lat, In lat (snd (rtl_outputs s)) -> exists i, In i lat /\ input_mono x i = 1) /\
  (forall lat, In lat (fst (rtl_outputs s)) -> forall i, In i lat -> input_mono x i <> 1) /\
  Permutation (fst (rtl_outputs s) ++ snd (rtl_outputs s)) (all_lattices s).
Proof. unfold rtl_outputs; cbn [fst snd]. split; [|split].
  - intros lat H. apply in_concat in H. destruct H as [ls [H1 H2]]. apply in_map_iff in H1.
    destruct H1 as [[m ls'] [E H1]]. cbn in E; subst ls'. apply filter_In in H1. destruct H1 as [H1 H3].
    cbn in H3. apply Nat.eqb_eq in H3. apply (rtl_label_closed m ls lat H1 H2). exact H3.
  - intros lat H i Hi Ei. apply in_concat in H. destruct H as [ls [H1 H2]]. apply in_map_iff in H1.
    destruct H1 as [[m ls'] [E H1]]. cbn in E; subst ls'. apply filter_In in H1. destruct H1 as [H1 H3].
    cbn in H3. apply Nat.eqb_eq in H3.
    destruct (rtl_label_closed m ls lat H1 H2) as [_ [_ Hx]].
    assert (H : out_label m = 1) by (apply Hx; eauto). unfold out_label, list_max in H. congruence.
  - rewrite <- concat_app, <- map_app. apply Permutation_concat, Permutation_map.
    apply (filter_partition (fun e => out_label (fst e))). intros [m ls] He. cbn.
    pose proof (rtl_key_01 m ls He) as K. unfold out_label.
    destruct (list_max_01 m K) as [[E _]|[E _]]; auto. Qed.

End Closed.

(* the structure depends on the oracles only through the two permutations
   they return for this configuration *)
Lemma rtl_deterministic_closed cfg sh1 sh2 sh1' sh2' :
  let inputs := flatten (c_input cfg) in
  let total := c_num cfg * c_rank cfg in
  sh1 inputs = sh1' inputs ->
  sh2 (firstn total (tile (sh1 inputs) (1 + total / length inputs))) =
  sh2' (firstn total (tile (sh1 inputs) (1 + total / length inputs))) ->
  rtl_structure cfg sh1 sh2 = rtl_structure cfg sh1' sh2'.
Proof. cbv zeta. intros E1 E2. cbv beta zeta delta [rtl_structure rtl_lattices rtl_slots]. rewrite <- E1, E2. reflexivity. Qed.

Section Closed2.
Variables sh1 sh2 : list rin -> list rin.
Hypothesis P1 : perm_oracle sh1.
Hypothesis P2 : perm_oracle sh2.
Variable cfg : rtl_cfg.
Variable s : structure.
Hypothesis Hs : rtl_structure cfg sh1 sh2 = Some s.

Lemma rtl_coverage_closed :
  (forall i, i < length (flatten (c_input cfg)) -> exists lat, In lat (all_lattices s) /\ In i lat) /\
  (forall lat i, In lat (all_lattices s) -> In i lat -> i < length (flatten (c_input cfg))).
Proof. rewrite flatten_length. split.
  - intros i Hi. exact (rtl_coverage sh1 sh2 P1 P2 cfg s Hs i Hi).
  - intros lat i Hl Hi. destruct (Nat.lt_ge_cases i (n_inputs (c_input cfg))) as [H|H]; [exact H|exfalso].
    pose proof (rtl_usage_outside sh1 sh2 P1 P2 cfg s Hs i H) as U. unfold usage in U.
    assert (Hin : In i (concat (all_lattices s))) by (apply in_concat; eauto).
    apply (count_occ_In Nat.eq_dec) in Hin. lia. Qed.

Lemma rtl_balanced_closed :
  let n := length (flatten (c_input cfg)) in
  let q := (c_num cfg * c_rank cfg) / n in
  1 <= q /\
  (forall i, i < n -> q <= usage s i <= q + 1) /\
  (forall i j, i < n -> j < n -> usage s i <= usage s j + 1).
Proof. cbv zeta. rewrite flatten_length. split; [|split].
  - exact (q_pos sh1 sh2 cfg s Hs).
  - intros i Hi. exact (rtl_usage_bounds sh1 sh2 P1 P2 cfg s Hs i Hi).
  - intros i j Hi Hj. exact (rtl_balanced sh1 sh2 P1 P2 cfg s Hs i j Hi Hj). Qed.

Lemma rtl_wiring_closed m ls lat : In (m, ls) s -> In lat ls ->
  (forall p, p < c_rank cfg -> nth p m 0 = input_mono (c_input cfg) (nth p lat 0)) /\
  (out_label m = 0 \/ out_label m = 1) /\
  (out_label m = 1 <-> exists i, In i lat /\ input_mono (c_input cfg) i = 1).
Proof. intros Hm Hl. split.
  - intros p Hp. apply (rtl_wiring sh1 sh2 P1 P2 cfg s Hs m ls lat p Hm Hl Hp).
  - exact (rtl_label_closed sh1 sh2 P1 P2 cfg s Hs m ls lat Hm Hl). Qed.

Lemma rtl_input_layout_closed i : i < length (flatten (c_input cfg)) ->
  (input_mono (c_input cfg) i = 1 <-> i < list_sum (sizes_of (in_inc (c_input cfg)))) /\
  (input_mono (c_input cfg) i = 0 <-> list_sum (sizes_of (in_inc (c_input cfg))) <= i).
Proof. rewrite flatten_length. intros H. rewrite (input_mono_spec _ _ H). unfold n_inc.
  destruct (Nat.ltb_spec i (list_sum (sizes_of (in_inc (c_input cfg))))); split; split; intros; try lia; discriminate. Qed.
End Closed2.

(* hypotheses are satisfiable: the identity oracle on a small layer *)
Lemma perm_oracle_id : perm_oracle (fun l => l).
Proof. intros l; reflexivity. Qed.
