From TFL Require Import Model.PartialOrder.
From Coq Require Import Permutation.
Open Scope Q_scope.

(* pointwise equality of weight vectors *)
Definition peq (a b : list Q) : Prop := length a = length b /\ forall k, nth k a 0 == nth k b 0.
Lemma peq_refl a : peq a a. Proof. split; [reflexivity|intros; reflexivity]. Qed.
Lemma peq_trans a b c : peq a b -> peq b c -> peq a c.
Proof. intros [L1 H1] [L2 H2]. split; [congruence|]. intros k. rewrite H1. apply H2. Qed.
Lemma peq_sym a b : peq a b -> peq b a.
Proof. intros [L1 H1]. split; [congruence|]. intros k. symmetry. apply H1. Qed.

Lemma nth_overflow_Q (l : list Q) k : (length l <= k)%nat -> nth k l 0 = 0.
Proof. apply nth_overflow. Qed.

Lemma nth_set_nth i v l k : nth k (set_nth i v l) 0 = if (Nat.eqb i k && Nat.ltb i (length l))%bool then v else nth k l 0.
Proof. destruct (Nat.eqb_spec i k) as [->|Hne]; cbn [andb].
  - destruct (Nat.ltb_spec k (length l)). apply nth_set_nth_same; assumption.
    rewrite !nth_overflow by (rewrite ?set_nth_length; lia). reflexivity.
  - apply nth_set_nth_other; assumption. Qed.

Section Gen.
  Variable sel : Q -> Q -> Q.
  Variable R : Q -> Q -> Prop.
  Hypothesis R_proper : forall a a' b b', a == a' -> b == b' -> R a b -> R a' b'.
  Hypothesis R_refl : forall a, R a a.
  Hypothesis R_trans : forall a b c, R a b -> R b c -> R a c.
  Hypothesis sel_l : forall a b, R (sel a b) a.
  Hypothesis sel_r : forall a b, R (sel a b) b.
  Hypothesis sel_id : forall a b, R a b -> sel a b == a.
  Hypothesis sel_proper : forall a a' b b', a == a' -> b == b' -> sel a b == sel a' b'.
  Variable nb : nat -> list nat.

  Definition fsel (w : list Q) (js : list nat) (a : Q) : Q := fold_left (fun m j => sel m (nth j w 0)) js a.

  Lemma fsel_R w js : forall a, R (fsel w js a) a /\ forall j, In j js -> R (fsel w js a) (nth j w 0).
  Proof. induction js as [|j js IH]; intros a; cbn [fsel fold_left]. split; [apply R_refl|intros ? []].
    destruct (IH (sel a (nth j w 0))) as [H1 H2]. fold (fsel w js (sel a (nth j w 0))) in *. split.
    - eapply R_trans. exact H1. apply sel_l.
    - intros x [<-|Hx]. eapply R_trans. exact H1. apply sel_r. apply H2; assumption. Qed.

  Lemma fsel_id w js : forall a, (forall j, In j js -> R a (nth j w 0)) -> fsel w js a == a.
  Proof. induction js as [|j js IH]; intros a H; cbn [fsel fold_left]. reflexivity.
    fold (fsel w js (sel a (nth j w 0))).
    assert (E : sel a (nth j w 0) == a) by (apply sel_id; apply H; left; reflexivity).
    rewrite IH. exact E. intros x Hx. eapply R_proper; [symmetry; exact E|reflexivity|]. apply H; right; assumption. Qed.

  Lemma fsel_proper w w' js : (forall k, nth k w 0 == nth k w' 0) -> forall a a', a == a' -> fsel w js a == fsel w' js a'.
  Proof. intros Hw. induction js as [|j js IH]; intros a a' Ha; cbn [fsel fold_left]. exact Ha.
    apply IH. apply sel_proper; [exact Ha|apply Hw]. Qed.

  Definition gstep := gen_step sel nb.
  Definition gpass := gen_pass sel nb.

  Lemma gstep_length step w i : length (gstep step w i) = length w.
  Proof. unfold gstep, gen_step. destruct (nb i); [reflexivity|apply set_nth_length]. Qed.
  Lemma gpass_length step L : forall w, length (gpass step L w) = length w.
  Proof. induction L as [|v L IH]; intros w; cbn [gpass gen_pass fold_left]. reflexivity.
    fold (gen_pass sel nb step L (gen_step sel nb step w v)). fold (gpass step L (gstep step w v)).
    rewrite IH. apply gstep_length. Qed.

  (* positions other than i are not touched by the step at i *)
  Lemma gstep_other step w i k : i <> k -> nth k (gstep step w i) 0 = nth k w 0.
  Proof. intros H. unfold gstep, gen_step. destruct (nb i); [reflexivity|]. apply nth_set_nth_other; exact H. Qed.
  Lemma gstep_nonb step w i : nb i = [] -> gstep step w i = w.
  Proof. intros H. unfold gstep, gen_step. rewrite H. reflexivity. Qed.
  Lemma gpass_untouched step L : forall w k, ~ In k L -> nth k (gpass step L w) 0 = nth k w 0.
  Proof. induction L as [|v L IH]; intros w k Hk; cbn [gpass gen_pass fold_left]. reflexivity.
    fold (gen_pass sel nb step L (gen_step sel nb step w v)). fold (gpass step L (gstep step w v)).
    rewrite IH by (intro; apply Hk; right; assumption). apply gstep_other. intro; apply Hk; left; assumption. Qed.

  (* value written by a full step *)
  Lemma gstep_full_same w i : (i < length w)%nat -> nb i <> [] ->
    nth i (gstep 1 w i) 0 == fsel w (nb i) (nth i w 0).
  Proof. intros Hi Hn. unfold gstep, gen_step. destruct (nb i) as [|j js] eqn:E; [congruence|].
    rewrite nth_set_nth_same by exact Hi. rewrite Qred_correct. unfold fsel. lra. Qed.

  Fixpoint okL (L : list nat) : Prop :=
    match L with
    | [] => True
    | v :: rest => (forall j, In j (nb v) -> ~ In j rest) /\ ~ In v rest /\ okL rest
    end.

  Definition in_range (w : list Q) (L : list nat) : Prop := forall v, In v L -> (v < length w)%nat.

  (* A full pass over an admissible order establishes R between every processed
     node and each of its neighbours. *)
  Lemma gpass_establishes : forall L w, okL L -> in_range w L ->
    forall v j, In v L -> In j (nb v) -> R (nth v (gpass 1 L w) 0) (nth j (gpass 1 L w) 0).
  Proof.
    induction L as [|u L IH]; intros w Hok Hr v j Hv Hj. destruct Hv.
    cbn [okL] in Hok. destruct Hok as [Hnb [Hu Hok]].
    cbn [gpass gen_pass fold_left]. fold (gen_pass sel nb 1 L (gen_step sel nb 1 w u)). fold (gpass 1 L (gstep 1 w u)).
    destruct Hv as [<-|Hv].
    - rewrite (gpass_untouched 1 L _ u Hu). rewrite (gpass_untouched 1 L _ j (Hnb j Hj)).
      assert (Hul : (u < length w)%nat) by (apply Hr; left; reflexivity).
      assert (Hne : nb u <> []) by (intro E; rewrite E in Hj; destruct Hj).
      eapply R_proper; [symmetry; apply gstep_full_same; assumption|reflexivity|].
      destruct (Nat.eq_dec u j) as [<-|Hneq].
      + eapply R_proper; [reflexivity|symmetry; apply gstep_full_same; assumption|]. apply R_refl.
      + rewrite gstep_other by exact Hneq. apply fsel_R. exact Hj.
    - apply IH; try assumption. intros x Hx. rewrite gstep_length. apply Hr. right; assumption.
  Qed.

  (* Fixed point: when R already holds everywhere, any pass with any step leaves
     the vector unchanged (pointwise). *)
  Definition feasR (w : list Q) : Prop := forall v j, In j (nb v) -> R (nth v w 0) (nth j w 0).

  Lemma feasR_peq w w' : peq w w' -> feasR w -> feasR w'.
  Proof. intros [_ H] F v j Hj. eapply R_proper; [apply H|apply H|]. apply F; exact Hj. Qed.

  Lemma gstep_fixed step w i : feasR w -> peq (gstep step w i) w.
  Proof. intros F. split. apply gstep_length. intros k. unfold gstep, gen_step.
    destruct (nb i) as [|j js] eqn:E; [reflexivity|].
    rewrite nth_set_nth. destruct (_ && _)%bool eqn:B; [|reflexivity].
    apply andb_true_iff in B. destruct B as [B1 B2]. apply Nat.eqb_eq in B1. subst k.
    rewrite Qred_correct.
    assert (Em : fold_left (fun m j0 => sel m (nth j0 w 0)) (j :: js) (nth i w 0) == nth i w 0).
    { apply (fsel_id w (j :: js)). intros x Hx. apply F. rewrite E. exact Hx. }
    rewrite Em. lra. Qed.

  Lemma gpass_fixed step L : forall w, feasR w -> peq (gpass step L w) w.
  Proof. induction L as [|v L IH]; intros w F; cbn [gpass gen_pass fold_left]. apply peq_refl.
    fold (gen_pass sel nb step L (gen_step sel nb step w v)). fold (gpass step L (gstep step w v)).
    pose proof (gstep_fixed step w v F) as H1.
    eapply peq_trans; [apply IH|exact H1]. apply (feasR_peq w). apply peq_sym; exact H1. exact F. Qed.

  (* Predicates closed under sel and the step's convex combination are kept on
     all entries. *)
  Section Pred.
    Variable P : Q -> Prop.
    Variable step : Q.
    Hypothesis P_proper : forall a b, a == b -> P a -> P b.
    Hypothesis P_sel : forall a b, P a -> P b -> P (sel a b).
    Hypothesis P_mix : forall a b, P a -> P b -> P (step * a + (1 - step) * b).
    Variable S : nat -> Prop. (* the entries for which P is known *)
    Hypothesis S_nb : forall v j, In j (nb v) -> S v /\ S j.

    Definition allP (w : list Q) : Prop := forall k, S k -> P (nth k w 0).

    Lemma fsel_P w js : (forall j, In j js -> P (nth j w 0)) -> forall a, P a -> P (fsel w js a).
    Proof. induction js as [|j js IH]; intros H a Ha; cbn [fsel fold_left]. exact Ha.
      apply IH. intros; apply H; right; assumption. apply P_sel. exact Ha. apply H; left; reflexivity. Qed.

    Lemma gstep_P w i : allP w -> allP (gstep step w i).
    Proof. intros H k Sk. unfold gstep, gen_step. destruct (nb i) as [|j js] eqn:E; [apply H; exact Sk|].
      rewrite nth_set_nth. destruct (_ && _)%bool eqn:B; [|apply H; exact Sk].
      apply (P_proper (step * fsel w (j :: js) (nth i w 0) + (1 - step) * nth i w 0)).
      symmetry; apply Qred_correct.
      assert (Si : S i) by (apply (S_nb i j); rewrite E; left; reflexivity).
      apply P_mix; [|apply H; exact Si]. apply fsel_P; [|apply H; exact Si].
      intros x Hx. apply H. apply (S_nb i x). rewrite E. exact Hx. Qed.

    Lemma gpass_P L : forall w, allP w -> allP (gpass step L w).
    Proof. induction L as [|v L IH]; intros w H; cbn [gpass gen_pass fold_left]. exact H.
      apply IH. apply gstep_P. exact H. Qed.
  End Pred.
End Gen.

(* ---------- instances: min pass (R = <=) and max pass (R = >=) ---------- *)
Definition Rle (a b : Q) : Prop := a <= b.
Definition Rge (a b : Q) : Prop := b <= a.

Lemma min_sel_id a b : Rle a b -> qmin a b == a. Proof. unfold Rle; intros; qcases; lra. Qed.
Lemma max_sel_id a b : Rge a b -> qmax a b == a. Proof. unfold Rge; intros; qcases; lra. Qed.

Ltac solve_R := unfold Rle, Rge; intros; qcases; lra.

Definition feasible (ps : pairs) (w : list Q) : Prop := forall i j, In (i, j) ps -> nth i w 0 <= nth j w 0.

Lemma in_succs ps i j : In j (succs ps i) <-> In (i, j) ps.
Proof. unfold succs. rewrite in_map_iff. split.
  - intros [[a b] [E H]]. apply filter_In in H. destruct H as [H1 H2]. cbn in *. apply Nat.eqb_eq in H2. subst. exact H1.
  - intros H. exists (i, j). split; [reflexivity|]. apply filter_In. split; [exact H|]. cbn. apply Nat.eqb_refl. Qed.
Lemma in_preds ps i j : In i (preds ps j) <-> In (i, j) ps.
Proof. unfold preds. rewrite in_map_iff. split.
  - intros [[a b] [E H]]. apply filter_In in H. destruct H as [H1 H2]. cbn in *. apply Nat.eqb_eq in H2. subst. exact H1.
  - intros H. exists (i, j). split; [reflexivity|]. apply filter_In. split; [exact H|]. cbn. apply Nat.eqb_refl. Qed.

Lemma feasible_feasR_min ps w : feasible ps w <-> feasR Rle (succs ps) w.
Proof. unfold feasible, feasR, Rle. split; intros H.
  - intros v j Hj. apply H. apply in_succs. exact Hj.
  - intros i j Hij. apply H. apply in_succs. exact Hij. Qed.
Lemma feasible_feasR_max ps w : feasible ps w <-> feasR Rge (preds ps) w.
Proof. unfold feasible, feasR, Rge. split; intros H.
  - intros v j Hj. apply H. apply in_preds. exact Hj.
  - intros i j Hij. apply (H j i). apply in_preds. exact Hij. Qed.

(* A valid topological order for the pairs: no duplicates, contains every node
   of every pair, and for s = v :: rest no predecessor of v occurs in rest. *)
Fixpoint ordered (ps : pairs) (s : list nat) : Prop :=
  match s with
  | [] => True
  | v :: rest => (forall p, In (p, v) ps -> ~ In p rest) /\ ordered ps rest
  end.
Definition topo_ok (ps : pairs) (s : list nat) : Prop :=
  NoDup s /\ (forall i j, In (i, j) ps -> In i s /\ In j s) /\ ordered ps s.

Lemma okL_max ps s : NoDup s -> ordered ps s -> okL (preds ps) s.
Proof. induction s as [|v s IH]; intros Hn Ho; cbn [okL]. exact I.
  inversion Hn; subst. destruct Ho as [Hp Ho]. split; [|split].
  - intros j Hj. apply Hp. apply in_preds. exact Hj.
  - assumption.
  - apply IH; assumption. Qed.

Lemma okL_app nb A v : okL nb A -> ~ In v A -> (forall a j, In a A -> In j (nb a) -> j <> v) -> okL nb (A ++ [v]).
Proof. induction A as [|a A IH]; intros Hok Hv Hnb; cbn [app okL].
  - split; [intros j _ []|split; [intros []|exact I]].
  - cbn [okL] in Hok. destruct Hok as [H1 [H2 H3]]. split; [|split].
    + intros j Hj Hin. apply in_app_iff in Hin. destruct Hin as [Hin|[E|[]]].
      * exact (H1 j Hj Hin).
      * exact (Hnb a j (or_introl eq_refl) Hj (eq_sym E)).
    + intros Hin. apply in_app_iff in Hin. destruct Hin as [Hin|[E|[]]]. exact (H2 Hin). apply Hv; left; symmetry; exact E.
    + apply IH. exact H3. intro; apply Hv; right; assumption. intros a' j Ha' Hj. apply (Hnb a' j); [right; assumption|assumption]. Qed.

Lemma okL_min ps s : NoDup s -> ordered ps s -> okL (succs ps) (rev s).
Proof. induction s as [|v s IH]; intros Hn Ho; cbn [rev]. exact I.
  inversion Hn; subst. destruct Ho as [Hp Ho]. apply okL_app.
  - apply IH; assumption.
  - rewrite <- in_rev. assumption.
  - intros a j Ha Hj ->. apply in_succs in Hj. rewrite <- in_rev in Ha. exact (Hp a Hj Ha). Qed.

Definition pairs_in_range (ps : pairs) (w : list Q) : Prop :=
  forall i j, In (i, j) ps -> (i < length w)%nat /\ (j < length w)%nat.

Lemma min_proj_feasible ps s w : topo_ok ps s -> (forall v, In v s -> (v < length w)%nat) ->
  feasible ps (min_proj ps s 1 w).
Proof. intros [Hn [Hc Ho]] Hr i j Hij. unfold min_proj.
  apply (gpass_establishes qmin Rle); try solve [solve_R].
  - apply okL_min; assumption.
  - intros v Hv. apply Hr. apply in_rev. exact Hv.
  - rewrite <- in_rev. apply (Hc i j Hij).
  - apply in_succs. exact Hij. Qed.

Lemma max_proj_feasible ps s w : topo_ok ps s -> (forall v, In v s -> (v < length w)%nat) ->
  feasible ps (max_proj ps s 1 w).
Proof. intros [Hn [Hc Ho]] Hr i j Hij. unfold max_proj.
  change (Rge (nth j (gen_pass qmax (preds ps) 1 s w) 0) (nth i (gen_pass qmax (preds ps) 1 s w) 0)).
  apply (gpass_establishes qmax Rge); try solve [solve_R].
  - apply okL_max; assumption.
  - exact Hr.
  - apply (Hc i j Hij).
  - apply in_preds. exact Hij. Qed.

Lemma min_proj_length ps s st w : length (min_proj ps s st w) = length w.
Proof. apply gpass_length. Qed.
Lemma max_proj_length ps s st w : length (max_proj ps s st w) = length w.
Proof. apply gpass_length. Qed.

Lemma nth_avg a b k : length a = length b ->
  nth k (map2 (fun x y => Qred ((x + y) * (1#2))) a b) 0 == (nth k a 0 + nth k b 0) * (1#2).
Proof. revert b k; induction a as [|x a IH]; intros [|y b] k H; cbn in H; try discriminate.
  - destruct k; cbn; lra.
  - destruct k; cbn [map2 nth]. apply Qred_correct. apply IH. lia. Qed.

(* ---- main theorems ---- *)
Theorem po_with_order_feasible ps s w : topo_ok ps s -> (forall v, In v s -> (v < length w)%nat) ->
  feasible ps (po_with_order ps s w).
Proof. intros Ht Hr i j Hij. unfold po_with_order.
  rewrite !nth_avg by (rewrite min_proj_length, !max_proj_length, min_proj_length; reflexivity).
  pose proof (max_proj_feasible ps s (min_proj ps s (1#2) w) Ht
               ltac:(intros v Hv; rewrite min_proj_length; apply Hr; exact Hv) i j Hij) as H1.
  pose proof (min_proj_feasible ps s (max_proj ps s (1#2) w) Ht
               ltac:(intros v Hv; rewrite max_proj_length; apply Hr; exact Hv) i j Hij) as H2.
  lra. Qed.

Lemma min_proj_fixed ps s st w : feasible ps w -> peq (min_proj ps s st w) w.
Proof. intros F. apply (gpass_fixed qmin Rle); try solve [solve_R]. apply feasible_feasR_min. exact F. Qed.
Lemma max_proj_fixed ps s st w : feasible ps w -> peq (max_proj ps s st w) w.
Proof. intros F. apply (gpass_fixed qmax Rge); try solve [solve_R]. apply feasible_feasR_max. exact F. Qed.
Lemma feasible_peq ps w w' : peq w w' -> feasible ps w -> feasible ps w'.
Proof. intros [_ H] F i j Hij. rewrite <- !H. apply F. exact Hij. Qed.

Theorem po_with_order_fixed ps s w : feasible ps w -> peq (po_with_order ps s w) w.
Proof. intros F. unfold po_with_order.
  pose proof (min_proj_fixed ps s (1#2) w F) as A1.
  pose proof (max_proj_fixed ps s 1 _ (feasible_peq ps _ _ (peq_sym _ _ A1) F)) as A2.
  pose proof (max_proj_fixed ps s (1#2) w F) as B1.
  pose proof (min_proj_fixed ps s 1 _ (feasible_peq ps _ _ (peq_sym _ _ B1) F)) as B2.
  destruct (peq_trans _ _ _ A2 A1) as [LA HA]. destruct (peq_trans _ _ _ B2 B1) as [LB HB].
  split.
  - rewrite map2_length. lia.
  - intros k. rewrite nth_avg by congruence. rewrite HA, HB. lra. Qed.

(* bounds on the touched entries are preserved (used for signs in Linear) *)
Definition node (ps : pairs) (k : nat) : Prop := exists x, In (k, x) ps \/ In (x, k) ps.

Lemma po_pass_lower ps (sel : Q -> Q -> Q) nb step lo L w :
  (forall a b, lo <= a -> lo <= b -> lo <= sel a b) -> 0 <= step -> step <= 1 ->
  (forall v j, In j (nb v) -> node ps v /\ node ps j) ->
  (forall k, node ps k -> lo <= nth k w 0) -> forall k, node ps k -> lo <= nth k (gen_pass sel nb step L w) 0.
Proof. intros Hsel H0 H1 Hnb Hw.
  apply (gpass_P sel nb (fun x => lo <= x) step); try assumption.
  - intros a b E H. lra.
  - intros a b Ha Hb. pose proof (qmul_nonneg step (a - lo) H0 ltac:(lra)). pose proof (qmul_nonneg (1 - step) (b - lo) ltac:(lra) ltac:(lra)). lra. Qed.

Lemma succs_node ps v j : In j (succs ps v) -> node ps v /\ node ps j.
Proof. intros H. apply in_succs in H. split; [exists j; left|exists v; right]; exact H. Qed.
Lemma preds_node ps v j : In j (preds ps v) -> node ps v /\ node ps j.
Proof. intros H. apply in_preds in H. split; [exists j; right|exists v; left]; exact H. Qed.

Theorem po_with_order_lower ps s w lo : (forall k, node ps k -> lo <= nth k w 0) ->
  forall k, node ps k -> lo <= nth k (po_with_order ps s w) 0.
Proof. intros Hw k Hk. unfold po_with_order.
  rewrite nth_avg by (rewrite min_proj_length, !max_proj_length, min_proj_length; reflexivity).
  assert (Hmin : forall a b, lo <= a -> lo <= b -> lo <= qmin a b) by (intros; qcases; lra).
  assert (Hmax : forall a b, lo <= a -> lo <= b -> lo <= qmax a b) by (intros; qcases; lra).
  assert (A : lo <= nth k (max_proj ps s 1 (min_proj ps s (1#2) w)) 0).
  { unfold max_proj, min_proj. apply (po_pass_lower ps qmax); try lra; try assumption. apply preds_node.
    apply (po_pass_lower ps qmin); try lra; try assumption. apply succs_node. }
  assert (B : lo <= nth k (min_proj ps s 1 (max_proj ps s (1#2) w)) 0).
  { unfold max_proj, min_proj. apply (po_pass_lower ps qmin); try lra; try assumption. apply succs_node.
    apply (po_pass_lower ps qmax); try lra; try assumption. apply preds_node. }
  lra. Qed.

(* entries that occur in no pair are returned unchanged *)
Lemma gen_pass_nonnode ps sel nb step L : (forall v j, In j (nb v) -> node ps v) ->
  forall w k, ~ node ps k -> nth k (gen_pass sel nb step L w) 0 = nth k w 0.
Proof. intros Hnb. induction L as [|v L IH]; intros w k Hk; cbn [gen_pass fold_left]. reflexivity.
  fold (gen_pass sel nb step L (gen_step sel nb step w v)). rewrite IH by exact Hk.
  destruct (Nat.eq_dec v k) as [->|Hne].
  - rewrite (gstep_nonb sel nb). reflexivity. destruct (nb k) as [|j js] eqn:E; [reflexivity|].
    exfalso. apply Hk. apply (Hnb k j). rewrite E; left; reflexivity.
  - apply (gstep_other sel nb). exact Hne. Qed.

Theorem po_with_order_nonnode ps s w k : (k < length w)%nat -> ~ node ps k -> nth k (po_with_order ps s w) 0 == nth k w 0.
Proof. intros Hl Hk. unfold po_with_order.
  rewrite nth_avg by (rewrite min_proj_length, !max_proj_length, min_proj_length; reflexivity).
  unfold max_proj, min_proj.
  rewrite !(gen_pass_nonnode ps) by (try exact Hk; intros v j Hj; (apply (succs_node ps v j Hj) || apply (preds_node ps v j Hj))).
  lra. Qed.

(* reflection of the executable order check *)
Lemma nodupb_NoDup l : nodupb l = true -> NoDup l.
Proof. induction l as [|x l IH]; cbn [nodupb]; intros H. constructor.
  apply andb_true_iff in H. destruct H as [H1 H2]. constructor. apply mem_nat_false. apply negb_true_iff. exact H1. apply IH; exact H2. Qed.
Lemma orderedb_ordered ps s : orderedb ps s = true -> ordered ps s.
Proof. induction s as [|v s IH]; cbn [orderedb ordered]; intros H. exact I.
  apply andb_true_iff in H. destruct H as [H1 H2]. split; [|apply IH; exact H2].
  intros p Hp Hin. rewrite forallb_forall in H1. specialize (H1 (p, v) Hp). cbn [fst snd] in H1.
  rewrite Nat.eqb_refl in H1. cbn [andb] in H1. apply negb_true_iff in H1. apply mem_nat_false in H1. exact (H1 Hin). Qed.
Lemma topo_okb_ok ps s : topo_okb ps s = true -> topo_ok ps s.
Proof. unfold topo_okb. intros H. apply andb_true_iff in H. destruct H as [H H3]. apply andb_true_iff in H. destruct H as [H1 H2].
  split; [apply nodupb_NoDup; exact H1|split; [|apply orderedb_ordered; exact H3]].
  intros i j Hij. rewrite forallb_forall in H2. specialize (H2 (i, j) Hij). cbn [fst snd] in H2.
  apply andb_true_iff in H2. destruct H2 as [A B]. split; apply mem_nat_true; assumption. Qed.
