(* C03 x C10: the values with which the premade builders (the build_xxx functions of premade_lib)
   create their constrained variables satisfy the C03 layer invariants, so the
   "initial value is feasible" hypotheses of the reachable-feasibility theorems
   (Proofs/Premade.v, Proofs/PremadeKFL.v) are discharged by PROOF from the
   validity of the configuration alone.

   Part 0  the builders' initial values, as functions of the configuration
           (on top of the C10 models of the library initialisers:
            Model/LatticeInit.v, Model/PWLInit.v, Model/KFLInit.v, and of the C06
            categorical projection applied in CategoricalCalibration.build);
   Part 1  Lattice kernels (LinearInitializer; RandomMonotonicInitializer for RTL
           and the aggregation middle lattice);
   Part 2  PWLCalibration kernels (UniformOutputInitializer, the layer default
           'equal_heights', the output calibrator's Constant(ediff1d(...))) and
           the missing-output weight;
   Part 3  CategoricalCalibration kernels (ANY initializer value, projected in build);
   Part 4  Linear kernels (Constant 1/n);
   Part 5  KroneckerFactoredLattice (kfl_random_monotonic_initializer,
           scale_initializer, bias_initializer).

   Which constraint families the invariants cover: lat_inv is monotonicity along
   the flagged dimensions and the two output bounds ONLY.  Unimodalities, trusts,
   dominances, joint monotonicities are not part of it (and the linear
   initialiser does violate trapezoid trusts / dominances in some
   configurations: known findings D6, D24, D25, D63 of property C10). *)
From TFL Require Import Model.Premade Proofs.Premade.
From TFL Require Import Model.LatticeInit Model.PWLInit
     Proofs.LatticeInit Proofs.LatticeInitFixed Proofs.PWLInit Proofs.CategoricalInit Proofs.C10Pack.
From TFL Require Import Proofs.LatticeSpec Proofs.LatticeSpecFacts Proofs.LatticeFinalize Proofs.LatticeMono.
From TFL Require Import Model.PWLProject Proofs.PWLProject.
From TFL Require Import Model.LinearProject Proofs.PartialOrder Proofs.TopoSort Proofs.LinearProject.
From Coq Require Import Permutation.
Open Scope Q_scope.

(* ====================================================================== *)
(* 0. The initial values the builders hand to the layers                     *)
(* ====================================================================== *)
(* premade_lib._output_range, third and fourth component (output_init_min,
   output_init_max).  oi = model_config.output_initialization (np.min / np.max);
   kfl = the model is a lattice model with parameterization 'kronecker_factored'
   (then kfl_lib.default_init_params replaces output_initialization). *)
Definition premade_init_range (r : layer_range) (kfl : bool) (oi : list Q) : Q * Q :=
  match r with
  | InputToLattice s => (0, qn s - 1)
  | ModelOutput lo hi => if kfl then KFLInit.kfl_default_init_params lo hi else (qminl oi, qmaxl oi)
  | InputToFinalCalibration => (0, 1)
  end.

(* the one thing verify_config does NOT check: a user-given output_initialization
   lies inside [output_min, output_max] (see refuted_* below) *)
Definition oi_in_bounds (r : layer_range) (oi : list Q) : Prop :=
  match r with
  | ModelOutput lo hi => oi <> [] /\ forall x, In x oi -> within lo hi x
  | _ => True
  end.

(* build_lattice_layer (all_vertices):
   LinearInitializer(lattice_sizes, monotonicities, unimodalities, output_min=init_min, output_max=init_max) *)
Definition premade_lattice_init (sizes : list nat) (monos unis : list Z) (units : nat)
           (r : layer_range) (oi : list Q) : tens :=
  linear_init sizes (fst (premade_init_range r false oi)) (snd (premade_init_range r false oi))
              (Some monos) (Some unis) units.

(* build_multi_unit_calibration_layers:
   UniformOutputInitializer(init_min, init_max, monotonicity, keypoints) -> one kernel column *)
Definition premade_pwl_init (kps : list Q) (mono : Z) (r : layer_range) (oi : list Q) : list Q :=
  pwl_linear_init_col (length kps) (fst (premade_init_range r false oi)) (snd (premade_init_range r false oi))
                      mono (Some kps).

(* the constraint configuration PWLCalibration.build derives from the layer arguments *)
Definition pwl_layer_cfg (kps : list Q) (mono conv : Z) (omin omax : option Q) (clamp_min clamp_max : bool)
           (iters : nat) : pwl_cfg :=
  mkPwl mono conv (fst (convert_constraints omin clamp_min)) (fst (convert_constraints omax clamp_max))
        (snd (convert_constraints omin clamp_min)) (snd (convert_constraints omax clamp_max))
        (kp_lengths kps) iters.

(* build_output_calibration_layer: Constant(np.ediff1d(oi, to_begin=oi[0])) *)
Definition ediff1d (oi : list Q) : list Q :=
  match oi with [] => [] | a :: r => a :: map2 (fun b a => b - a) r oi end.

(* PWLCalibration.build: missing_init = (_output_init_min + _output_init_max) / 2 *)
Definition pwl_missing_init (omin omax : option Q) (clamp_min clamp_max : bool) : Q :=
  let '(imin, imax, _, _) := convert_all_constraints omin omax clamp_min clamp_max in (imin + imax) * (1#2).

(* CategoricalCalibration.build: the initializer is wrapped in the constraint
   whenever a constraint object exists (a bound or a non-empty pair list) *)
Definition cat_build_init (ps : pairs) (lo hi : option Q) (raw : list Q) : list Q :=
  match ps, lo, hi with
  | [], None, None => raw
  | _, _, _ => cat_con ps lo hi raw
  end.

(* build_linear_layer / build_linear_combination_layer: Constant(1.0 / n) *)
Definition premade_linear_init (n : nat) : list Q := repeat (1 / qn n) n.

(* ====================================================================== *)
(* helper facts                                                              *)
(* ====================================================================== *)
(* Model/Interp1D.v and Model/PWLProject.v both define qn = inject_Z (Z.of_nat _) *)
Ltac qn_norm := unfold Interp1D.qn, PWLProject.qn in *.
Lemma qn_sub1_nonneg s : (1 <= s)%nat -> 0 <= qn s - 1.
Proof. intros H. unfold qn. assert (1 <= inject_Z (Z.of_nat s)) by (rewrite <- (Zle_Qle 1); lia). lra. Qed.

Lemma qminl_in_range (l : list Q) lo hi : l <> [] -> (forall x, In x l -> within lo hi x) ->
  qminl l <= qmaxl l /\ within lo hi (qminl l) /\ within lo hi (qmaxl l).
Proof. intros Hne H. destruct l as [|a r]; [congruence|].
  pose proof (qminl_le (a :: r) a (or_introl eq_refl)). pose proof (qmaxl_ge (a :: r) a (or_introl eq_refl)).
  split. lra. split; split; intros b Hb.
  - apply qminl_glb. congruence. intros x Hx. destruct (H x Hx) as [A _]. apply A. exact Hb.
  - destruct (H a (or_introl eq_refl)) as [_ A]. specialize (A b Hb). lra.
  - destruct (H a (or_introl eq_refl)) as [A _]. specialize (A b Hb). lra.
  - apply qmaxl_lub. congruence. intros x Hx. destruct (H x Hx) as [_ A]. apply A. exact Hb. Qed.

(* the premade init range is non-empty and inside the layer's output range *)
Lemma premade_init_range_ok r oi : oi_in_bounds r oi ->
  (forall s, r = InputToLattice s -> (1 <= s)%nat) ->
  let imin := fst (premade_init_range r false oi) in
  let imax := snd (premade_init_range r false oi) in
  imin <= imax /\ within (fst (output_range r)) (snd (output_range r)) imin /\
  within (fst (output_range r)) (snd (output_range r)) imax.
Proof. intros Ho Hs imin imax. subst imin imax.
  destruct r as [s|lo hi|]; cbn [premade_init_range output_range oi_in_bounds fst snd] in *.
  - pose proof (qn_sub1_nonneg s (Hs s eq_refl)). qn_norm.
    split. lra. split; split; intros b Hb; inversion Hb; subst; lra.
  - destruct Ho as [Hne Ho]. exact (qminl_in_range oi lo hi Hne Ho).
  - split. lra. split; split; intros b Hb; inversion Hb; subst; lra. Qed.

(* ====================================================================== *)
(* 1. Lattice                                                                *)
(* ====================================================================== *)
(* valid LinearInitializer arguments: one entry per dimension, no dimension both
   monotone and unimodal (lattice_lib.verify_hyperparameters) *)
Definition unis_ok (c : lat_cfg) (unis : list Z) : Prop :=
  length unis = length (l_sizes c) /\ forall d, nz (nth d (l_monos c) 0%Z) && nz (nth d unis 0%Z) = false.

(* General form: ANY init range inside the layer's bounds. *)
Lemma lattice_linear_init_inv c ran dyk unis imin imax :
  cfg_valid c -> l_sizes c <> [] -> unis_ok c unis -> imin <= imax ->
  within (l_min c) (l_max c) imin -> within (l_min c) (l_max c) imax ->
  lat_inv (mkLatD c ran dyk (linear_init (l_sizes c) imin imax (Some (l_monos c)) (Some unis) (l_units c)))
          (linear_init (l_sizes c) imin imax (Some (l_monos c)) (Some unis) (l_units c)).
Proof. intros Hc Hne [Hul Hud] Hr [Hlo _] [_ Hhi]. pose proof Hc as (Hs & Hu & Hlm & _).
  assert (Hlen : (1 <= length (l_sizes c))%nat) by (destruct (l_sizes c); [congruence|cbn; lia]).
  destruct (linear_range (l_sizes c) imin imax (Some (l_monos c)) (Some unis) (l_units c) Hs Hu Hlen) as [Hin _];
    cbn [zeros_if_none]; try assumption.
  unfold lat_inv; cbn [ld_cfg]. split; [|split].
  - intros d Hd. apply mono_dims_spec in Hd. destruct Hd as [Hd Hnz].
    apply linear_mono_dim. exact Hr. lia.
    apply configured_mono_dim. cbn [zeros_if_none]. unfold nz. apply negb_true_iff. apply Z.eqb_neq. exact Hnz.
  - destruct (l_min c) as [lo|] eqn:E; [|exact I]. intros i Hv. destruct (Hin i Hv) as [H1 _].
    specialize (Hlo lo eq_refl). unfold l_shape. lra.
  - destruct (l_max c) as [hi|] eqn:E; [|exact I]. intros i Hv. destruct (Hin i Hv) as [_ H1].
    specialize (Hhi hi eq_refl). unfold l_shape. lra. Qed.

(* RandomMonotonicInitializer (RTL lattices, aggregation middle lattice): every
   shuffle order and every sorted sample vector from the init range *)
Definition random_oracle_ok (sizes : list nat) (order : list (list idx)) (samples : list Q) (imin imax : Q) : Prop :=
  Forall2 (@Permutation idx) order (levels sizes) /\
  (forall a b, (a <= b)%nat -> (b < length samples)%nat -> nth a samples 0 <= nth b samples 0) /\
  length samples = length (concat order) /\
  (forall x, In x samples -> imin <= x /\ x <= imax).

Lemma lattice_random_init_inv c ran dyk order samples imin imax :
  cfg_valid c -> random_oracle_ok (l_sizes c) order samples imin imax ->
  within (l_min c) (l_max c) imin -> within (l_min c) (l_max c) imax ->
  lat_inv (mkLatD c ran dyk (random_mono_init (l_sizes c) (l_units c) order samples))
          (random_mono_init (l_sizes c) (l_units c) order samples).
Proof. intros Hc (Ho & Hs & Hl & Hr) [Hlo _] [_ Hhi]. unfold lat_inv; cbn [ld_cfg]. split; [|split].
  - intros d Hd. apply (random_mono_all_dims (l_sizes c) (l_units c) order samples Ho Hs Hl).
    pose proof (cfg_mono_dims_lt c d Hc Hd). unfold l_ud in *. assumption.
  - destruct (l_min c) as [lo|] eqn:E; [|exact I]. intros i Hv.
    destruct (random_mono_in_range (l_sizes c) (l_units c) order samples imin imax Ho Hl Hr i Hv) as [H1 _].
    specialize (Hlo lo eq_refl). lra.
  - destruct (l_max c) as [hi|] eqn:E; [|exact I]. intros i Hv.
    destruct (random_mono_in_range (l_sizes c) (l_units c) order samples imin imax Ho Hl Hr i Hv) as [_ H1].
    specialize (Hhi hi eq_refl). lra. Qed.

(* ---- the premade lattice layers ---- *)
(* what a builder decides about one Lattice layer: its constraint configuration
   (C01 vocabulary), where it sits (-> output range and init range), the
   initialiser: linear with the features' unimodalities (explicit / random /
   Crystals ensembles, CalibratedLattice) or random monotonic with its two
   oracles (RTL, aggregation) *)
Inductive lat_init_kind :=
| LKLinear (unis : list Z)
| LKRandomMono (order : list (list idx)) (samples : list Q).
Record lat_spec := mkLatS {
  ls_cfg : lat_cfg; ls_ran : bool; ls_dyk : tens -> tens;
  ls_range : layer_range; ls_oi : list Q; ls_kind : lat_init_kind }.

Definition lat_spec_init (s : lat_spec) : tens :=
  let c := ls_cfg s in
  match ls_kind s with
  | LKLinear unis => premade_lattice_init (l_sizes c) (l_monos c) unis (l_units c) (ls_range s) (ls_oi s)
  | LKRandomMono order samples => random_mono_init (l_sizes c) (l_units c) order samples
  end.
Definition lat_spec_desc (s : lat_spec) : lat_desc := mkLatD (ls_cfg s) (ls_ran s) (ls_dyk s) (lat_spec_init s).

(* validity of the configuration; NO statement about the initial kernel *)
Definition lat_spec_ok (s : lat_spec) : Prop :=
  let c := ls_cfg s in
  cfg_valid c /\ block_ok c (ls_ran s) /\ ~ trap_mono_cond_with_edgeworth c /\ l_sizes c <> [] /\
  l_min c = fst (output_range (ls_range s)) /\ l_max c = snd (output_range (ls_range s)) /\
  oi_in_bounds (ls_range s) (ls_oi s) /\
  match ls_kind s with
  | LKLinear unis => unis_ok c unis
  | LKRandomMono order samples =>
      random_oracle_ok (l_sizes c) order samples
        (fst (premade_init_range (ls_range s) false (ls_oi s))) (snd (premade_init_range (ls_range s) false (ls_oi s)))
  end.

Lemma lat_range_size_ok c r : cfg_valid c -> l_min c = fst (output_range r) -> l_max c = snd (output_range r) ->
  forall s, r = InputToLattice s -> (1 <= s)%nat.
Proof. intros Hc E1 E2 s ->. cbn [output_range fst snd] in *. destruct Hc as (_ & _ & _ & _ & _ & _ & _ & Hb).
  rewrite E1, E2 in Hb. destruct s; [|lia]. assert (E : Interp1D.qn 0 - 1 == -(1)) by reflexivity. lra. Qed.

Theorem init_feasible_lattice s : lat_spec_ok s -> lat_inv (lat_spec_desc s) (lat_spec_init s).
Proof. intros (Hc & _ & _ & Hne & E1 & E2 & Ho & Hk).
  destruct (premade_init_range_ok (ls_range s) (ls_oi s) Ho (lat_range_size_ok _ _ Hc E1 E2)) as (Hr & Hlo & Hhi).
  rewrite <- E1, <- E2 in Hlo, Hhi.
  unfold lat_spec_desc, lat_spec_init. destruct (ls_kind s) as [unis|order samples].
  - unfold premade_lattice_init. apply lattice_linear_init_inv; assumption.
  - apply (lattice_random_init_inv _ _ _ _ _ _ _ Hc Hk Hlo Hhi). Qed.

Lemma lat_spec_desc_ok s : lat_spec_ok s -> lat_desc_ok (lat_spec_desc s).
Proof. intros H. pose proof (init_feasible_lattice s H) as Hi. destruct H as (Hc & Hb & Hg & _).
  split. exact Hc. split. exact Hb. split. exact Hg. exact Hi. Qed.

Lemma in_map_desc {A B} (f : A -> B) (P : B -> Prop) (Q' : A -> Prop) l :
  (forall a, Q' a -> P (f a)) -> (forall a, In a l -> Q' a) -> forall d, In d (map f l) -> P d.
Proof. intros HP HQ d Hd. apply in_map_iff in Hd. destruct Hd as [a [<- Ha]]. auto. Qed.

Theorem reachable_feasible_lattice_from_init ss ops : (forall s, In s ss -> lat_spec_ok s) ->
  forall st, In st (run (map lat_var (map lat_spec_desc ss)) ops) -> Forall2 lat_inv (map lat_spec_desc ss) st.
Proof. intros H. apply reachable_feasible_lattice.
  exact (in_map_desc lat_spec_desc lat_desc_ok lat_spec_ok ss lat_spec_desc_ok H). Qed.

(* ====================================================================== *)
(* 2. PWLCalibration                                                         *)
(* ====================================================================== *)
(* General form: the library's linear initialiser (equal heights: kps = None,
   equal slopes: kps = Some keypoints) with the LAYER's monotonicity and ANY
   init range inside the constrained bounds.  The bounds clause is proved even
   inside the D2 class (monotone and convex). *)
Lemma pwl_linear_init_inv c n nk imin imax kps :
  imin <= imax -> (2 <= nk)%nat -> kps_ok nk kps ->
  (p_cmin c <> BNone -> p_min c <= imin) -> (p_cmax c <> BNone -> imax <= p_max c) ->
  pwl_inv (mkPwlD c n (pwl_linear_init_col nk imin imax (p_mono c) kps))
          (pwl_linear_init_col nk imin imax (p_mono c) kps).
Proof. intros Hr Hn Hk Hlo Hhi.
  pose proof (pack_C10_pwl_init nk imin imax (p_mono c) kps Hr Hn Hk) as H. cbv zeta in H.
  destruct H as (_ & Hdir & _ & _ & Hrange).
  unfold pwl_inv; cbn [pd_cfg]. split; [|split].
  - intros E. apply Forall_forall. intros h Hh. specialize (Hdir h Hh). rewrite E in Hdir. exact Hdir.
  - intros E. apply Forall_forall. intros h Hh. specialize (Hdir h Hh). rewrite E in Hdir. exact Hdir.
  - intros _. split; intros Hb; apply Forall_forall; intros v Hv; destruct (Hrange v Hv) as [A B].
    + specialize (Hlo Hb). lra.
    + specialize (Hhi Hb). lra. Qed.

(* ---- np.ediff1d: the output calibrator's Constant initialiser ---- *)
Definition nondecreasing (l : list Q) : Prop := forall i, (S i < length l)%nat -> nth i l 0 <= nth (S i) l 0.

Lemma cumsum_ediff : forall r prev acc, acc == prev ->
  Forall2 Qeq (cumsum_from acc (map2 (fun b a => b - a) r (prev :: r))) r.
Proof. induction r as [|x r IH]; intros prev acc E; cbn [map2 cumsum_from]. constructor.
  constructor. lra. apply IH. lra. Qed.
Lemma keypoint_outputs_ediff oi : Forall2 Qeq (keypoint_outputs (ediff1d oi)) oi.
Proof. unfold keypoint_outputs, cumsum, ediff1d. destruct oi as [|a r]; cbn [cumsum_from]. constructor.
  constructor. lra. apply cumsum_ediff. lra. Qed.
Lemma ediff_heights : forall r a, nondecreasing (a :: r) -> Forall (fun h => 0 <= h) (map2 (fun b a => b - a) r (a :: r)).
Proof. induction r as [|x r IH]; intros a H; cbn [map2]. constructor. constructor.
  - specialize (H 0%nat). cbn in H. specialize (H ltac:(lia)). lra.
  - apply IH. intros i Hi. apply (H (S i)). cbn in *. lia. Qed.
Lemma Forall2_Qeq_Forall (P : Q -> Prop) l l' : (forall x y, x == y -> P y -> P x) ->
  Forall2 Qeq l l' -> Forall P l' -> Forall P l.
Proof. intros HP H. induction H; intros F; constructor; inversion F; subst; eauto. Qed.

Lemma pwl_ediff_init_inv c n oi : p_mono c = 1%Z -> nondecreasing oi ->
  (p_cmin c <> BNone -> forall x, In x oi -> p_min c <= x) -> (p_cmax c <> BNone -> forall x, In x oi -> x <= p_max c) ->
  pwl_inv (mkPwlD c n (ediff1d oi)) (ediff1d oi).
Proof. intros Em Hs Hlo Hhi. unfold pwl_inv; cbn [pd_cfg]. split; [|split].
  - intros _. destruct oi as [|a r]; cbn [ediff1d tl]. constructor. apply ediff_heights. exact Hs.
  - intros E. rewrite Em in E. discriminate.
  - intros _. split; intros Hb.
    + apply (Forall2_Qeq_Forall _ _ oi). intros x y E H; lra. apply keypoint_outputs_ediff.
      apply Forall_forall. exact (Hlo Hb).
    + apply (Forall2_Qeq_Forall _ _ oi). intros x y E H; lra. apply keypoint_outputs_ediff.
      apply Forall_forall. exact (Hhi Hb). Qed.

(* ---- the premade PWL calibrators ---- *)
(* PKUniform            input calibrators: UniformOutputInitializer(premade init range, monotonicity, keypoints)
   PKLayerDefault       'equal_heights' with the layer's own init range (aggregation middle calibrators)
   PKOutputCalibration  Constant(ediff1d(output_initialization)), monotonicity 1, no clamps *)
Inductive pwl_init_kind := PKUniform | PKLayerDefault | PKOutputCalibration.
Record pwl_spec := mkPwlS {
  ps_kps : list Q; ps_mono : Z; ps_conv : Z; ps_clamp_min : bool; ps_clamp_max : bool; ps_iters : nat;
  ps_range : layer_range; ps_oi : list Q; ps_kind : pwl_init_kind }.

Definition pwl_spec_cfg (s : pwl_spec) : pwl_cfg :=
  pwl_layer_cfg (ps_kps s) (ps_mono s) (ps_conv s) (fst (output_range (ps_range s))) (snd (output_range (ps_range s)))
                (ps_clamp_min s) (ps_clamp_max s) (ps_iters s).
Definition pwl_spec_init (s : pwl_spec) : list Q :=
  match ps_kind s with
  | PKUniform => premade_pwl_init (ps_kps s) (ps_mono s) (ps_range s) (ps_oi s)
  | PKLayerDefault =>
      let '(imin, imax, _, _) := convert_all_constraints (fst (output_range (ps_range s))) (snd (output_range (ps_range s)))
                                                         (ps_clamp_min s) (ps_clamp_max s) in
      pwl_linear_init_col (length (ps_kps s)) imin imax (ps_mono s) None
  | PKOutputCalibration => ediff1d (ps_oi s)
  end.
Definition pwl_spec_desc (s : pwl_spec) : pwl_desc := mkPwlD (pwl_spec_cfg s) (length (ps_kps s) - 1) (pwl_spec_init s).

Definition z3 (z : Z) : Prop := z = (-1)%Z \/ z = 0%Z \/ z = 1%Z.
(* validity of the configuration; NO statement about the initial kernel.  The
   output calibrator is the one place where verify_config leaves something
   open: output_initialization must be sorted and inside the output bounds. *)
Definition pwl_spec_ok (s : pwl_spec) : Prop :=
  (2 <= length (ps_kps s))%nat /\ (forall l, In l (kp_lengths (ps_kps s)) -> 0 < l) /\
  z3 (ps_mono s) /\ z3 (ps_conv s) /\
  (ps_clamp_min s = true \/ ps_clamp_max s = true -> ps_mono s <> 0%Z) /\
  (forall a b, fst (output_range (ps_range s)) = Some a -> snd (output_range (ps_range s)) = Some b -> a <= b) /\
  match ps_kind s with
  | PKUniform => oi_in_bounds (ps_range s) (ps_oi s)
  | PKLayerDefault => True
  | PKOutputCalibration => ps_mono s = 1%Z /\ nondecreasing (ps_oi s) /\
      forall x, In x (ps_oi s) -> within (fst (output_range (ps_range s))) (snd (output_range (ps_range s))) x
  end.

Lemma convert_kind_some v clamp : snd (convert_constraints v clamp) <> BNone ->
  exists a, v = Some a /\ fst (convert_constraints v clamp) = a.
Proof. destruct v as [a|]; cbn. intros _. exists a. auto. congruence. Qed.

Lemma pwl_spec_valid s : pwl_spec_ok s -> pwl_valid (pwl_spec_cfg s) (length (ps_kps s) - 1).
Proof. intros (Hn & Hl & Hm & Hc & Hcl & Hb & _).
  unfold pwl_valid, pwl_spec_cfg, pwl_layer_cfg; cbn [p_lengths p_mono p_conv p_cmin p_cmax p_min p_max].
  split. lia. split. apply kp_lengths_length. split. apply Forall_forall. exact Hl.
  split. exact Hm. split. exact Hc. split.
  - intros H1 H2. destruct (convert_kind_some _ _ H1) as [a [Ea ->]]. destruct (convert_kind_some _ _ H2) as [b [Eb ->]].
    exact (Hb a b Ea Eb).
  - intros H. apply Hcl. destruct H as [H|H]; [left|right].
    + destruct (fst (output_range (ps_range s))); cbn in H; [|discriminate]. destruct (ps_clamp_min s); [reflexivity|discriminate].
    + destruct (snd (output_range (ps_range s))); cbn in H; [|discriminate]. destruct (ps_clamp_max s); [reflexivity|discriminate]. Qed.

Lemma range_size_ok s : (forall a b, fst (output_range (ps_range s)) = Some a -> snd (output_range (ps_range s)) = Some b -> a <= b) ->
  forall z, ps_range s = InputToLattice z -> (1 <= z)%nat.
Proof. intros Hb z E. rewrite E in Hb. cbn [output_range fst snd] in Hb. specialize (Hb _ _ eq_refl eq_refl).
  destruct z; [|lia]. assert (E' : Interp1D.qn 0 - 1 == -(1)) by reflexivity. lra. Qed.

Theorem init_feasible_pwl s : pwl_spec_ok s -> pwl_inv (pwl_spec_desc s) (pwl_spec_init s).
Proof. intros H. pose proof H as (Hn & Hl & Hm & Hc & Hcl & Hb & Hk).
  assert (Hkp : forall b, kps_ok (length (ps_kps s)) (if b : bool then Some (ps_kps s) else None)).
  { intros [|]; cbn. split. reflexivity. exact Hl. exact I. }
  unfold pwl_spec_desc, pwl_spec_init. destruct (ps_kind s).
  - (* UniformOutputInitializer *)
    destruct (premade_init_range_ok (ps_range s) (ps_oi s) Hk (range_size_ok s Hb)) as (Hr & [Hlo _] & [_ Hhi]).
    unfold premade_pwl_init.
    apply (pwl_linear_init_inv (pwl_spec_cfg s) _ _ _ _ (Some (ps_kps s)) Hr Hn (Hkp true));
      unfold pwl_spec_cfg, pwl_layer_cfg; cbn [p_cmin p_cmax p_min p_max]; intros Hne;
      destruct (convert_kind_some _ _ Hne) as [a [Ea ->]]; auto.
  - (* layer default: equal heights over the layer's init range *)
    pose proof (convert_range (fst (output_range (ps_range s))) (snd (output_range (ps_range s)))
                              (ps_clamp_min s) (ps_clamp_max s) Hb) as Hcv.
    destruct (convert_all_constraints _ _ _ _) as [[[imin imax] k1] k2]. destruct Hcv as (Hr & Hlo & Hhi).
    apply (pwl_linear_init_inv (pwl_spec_cfg s) _ _ _ _ None Hr Hn (Hkp false));
      unfold pwl_spec_cfg, pwl_layer_cfg; cbn [p_cmin p_cmax p_min p_max]; intros Hne;
      destruct (convert_kind_some _ _ Hne) as [a [Ea ->]]; auto.
  - (* output calibrator *)
    destruct Hk as (Em & Hs & Hin).
    apply (pwl_ediff_init_inv (pwl_spec_cfg s)); [exact Em|exact Hs| |];
      unfold pwl_spec_cfg, pwl_layer_cfg; cbn [p_cmin p_cmax p_min p_max]; intros Hne x Hx;
      destruct (convert_kind_some _ _ Hne) as [a [Ea ->]]; destruct (Hin x Hx) as [A B]; auto. Qed.

Lemma pwl_spec_desc_ok s : pwl_spec_ok s -> pwl_desc_ok (pwl_spec_desc s).
Proof. intros H. split. exact (pwl_spec_valid s H). exact (init_feasible_pwl s H). Qed.

Theorem reachable_feasible_pwl_from_init ss ops : (forall s, In s ss -> pwl_spec_ok s) ->
  ops_shaped (list Q) pwl_desc pwl_shape (map pwl_spec_desc ss) ops ->
  forall st, In st (run (map pwl_var (map pwl_spec_desc ss)) ops) -> Forall2 pwl_inv (map pwl_spec_desc ss) st.
Proof. intros H. apply reachable_feasible_pwl.
  exact (in_map_desc pwl_spec_desc pwl_desc_ok pwl_spec_ok ss pwl_spec_desc_ok H). Qed.

(* ---- the learned missing output (feature with a default_value) ---- *)
Definition mo_spec_desc (p : Q * Q * bool * bool) : mo_desc :=
  let '(lo, hi, cmn, cmx) := p in mkMoD lo hi (pwl_missing_init (Some lo) (Some hi) cmn cmx).
Definition mo_spec_ok (p : Q * Q * bool * bool) : Prop := let '(lo, hi, _, _) := p in lo <= hi.

Theorem init_feasible_missing_output p : mo_spec_ok p -> mo_inv (mo_spec_desc p) (md_init (mo_spec_desc p)).
Proof. destruct p as [[[lo hi] cmn] cmx]. unfold mo_spec_ok, mo_spec_desc, mo_inv, pwl_missing_init; cbn. intros H. lra. Qed.

Theorem reachable_feasible_missing_output_from_init ps ops : (forall p, In p ps -> mo_spec_ok p) ->
  forall st, In st (run (map mo_var (map mo_spec_desc ps)) ops) -> Forall2 mo_inv (map mo_spec_desc ps) st.
Proof. intros H. apply reachable_feasible_missing_output.
  apply (in_map_desc mo_spec_desc (fun d => md_lo d <= md_hi d /\ mo_inv d (md_init d)) mo_spec_ok ps); [|exact H].
  intros p Hp. split. destruct p as [[[lo hi] cmn] cmx]; exact Hp. exact (init_feasible_missing_output p Hp). Qed.

(* ====================================================================== *)
(* 3. CategoricalCalibration                                                 *)
(* ====================================================================== *)
(* the projection applied in build() lands in the invariant for EVERY raw value
   of the right length: the RandomUniform draw need not even be inside the range *)
Lemma cat_con_inv ps lo hi n init w : acyclic ps -> (forall i j, In (i, j) ps -> (i < n)%nat /\ (j < n)%nat) ->
  length w = n -> cat_inv (mkCatD ps lo hi n init) (cat_con ps lo hi w).
Proof. intros Hac Hr Hl. unfold cat_inv, cat_con; cbn [cd_pairs cd_lo cd_hi].
  assert (Hpr : pairs_in_range ps w) by (intros i j Hij; rewrite Hl; apply Hr; exact Hij).
  destruct (cat_defined ps lo hi w Hac Hpr) as [r [E _]]. rewrite E. split.
  - destruct ps as [|p0 ps'] eqn:Eps. intros i j []. rewrite <- Eps in *.
    apply (cat_pairs ps lo hi w r); try assumption. rewrite Eps; discriminate.
  - exact (cat_bounds ps lo hi w r E). Qed.

Record cat_spec := mkCatS { cs_pairs : pairs; cs_range : layer_range; cs_n : nat; cs_raw : list Q }.
Definition cat_spec_init (s : cat_spec) : list Q :=
  cat_build_init (cs_pairs s) (fst (output_range (cs_range s))) (snd (output_range (cs_range s))) (cs_raw s).
Definition cat_spec_desc (s : cat_spec) : cat_desc :=
  mkCatD (cs_pairs s) (fst (output_range (cs_range s))) (snd (output_range (cs_range s))) (cs_n s) (cat_spec_init s).
(* acyclic pairs over existing buckets; the initializer returned one value per bucket *)
Definition cat_spec_ok (s : cat_spec) : Prop :=
  acyclic (cs_pairs s) /\ (forall i j, In (i, j) (cs_pairs s) -> (i < cs_n s)%nat /\ (j < cs_n s)%nat) /\
  length (cs_raw s) = cs_n s.

Theorem init_feasible_categorical s : cat_spec_ok s -> cat_inv (cat_spec_desc s) (cat_spec_init s).
Proof. intros (Hac & Hr & Hl). unfold cat_spec_desc, cat_spec_init at 2, cat_build_init.
  destruct (cs_pairs s) as [|p ps] eqn:Ep.
  - destruct (fst (output_range (cs_range s))) as [lo|] eqn:El.
    + rewrite <- Ep in *. apply cat_con_inv; assumption.
    + destruct (snd (output_range (cs_range s))) as [hi|] eqn:Eh.
      * rewrite <- Ep in *. apply cat_con_inv; assumption.
      * unfold cat_inv; cbn [cd_pairs cd_lo cd_hi]. split. intros i j []. intros x _. split; intros b Hb; discriminate.
  - rewrite <- Ep in *. apply cat_con_inv; assumption. Qed.

Lemma cat_spec_desc_ok s : cat_spec_ok s -> cat_desc_ok (cat_spec_desc s).
Proof. intros H. pose proof (init_feasible_categorical s H) as Hi. destruct H as (Hac & Hr & _).
  split. exact Hac. split. exact Hr. exact Hi. Qed.

Theorem reachable_feasible_categorical_from_init ss ops : (forall s, In s ss -> cat_spec_ok s) ->
  ops_shaped (list Q) cat_desc (fun d w => length w = cd_n d) (map cat_spec_desc ss) ops ->
  forall st, In st (run (map cat_var (map cat_spec_desc ss)) ops) -> Forall2 cat_inv (map cat_spec_desc ss) st.
Proof. intros H. apply reachable_feasible_categorical.
  exact (in_map_desc cat_spec_desc cat_desc_ok cat_spec_ok ss cat_spec_desc_ok H). Qed.

(* ====================================================================== *)
(* 4. Linear                                                                 *)
(* ====================================================================== *)
Lemma premade_linear_weight_nonneg n i : 0 <= nth i (premade_linear_init n) 0.
Proof. unfold premade_linear_init. destruct (Nat.lt_ge_cases i n) as [H|H].
  - rewrite nth_indep with (d' := 1 / qn n) by (rewrite repeat_length; exact H). rewrite nth_repeat.
    unfold Qdiv. rewrite Qmult_1_l. apply Qinv_le_0_compat. apply qn_nonneg.
  - rewrite nth_overflow by (rewrite repeat_length; exact H). lra. Qed.

(* a weighted average: non-negative, sum one (the hypotheses of C03_bounded_linear) *)
Lemma premade_linear_init_average n : (1 <= n)%nat ->
  length (premade_linear_init n) = n /\ (forall q, In q (premade_linear_init n) -> 0 <= q) /\
  qsum (premade_linear_init n) == 1.
Proof. intros Hn. unfold premade_linear_init. split. apply repeat_length. split.
  - intros q Hq. apply repeat_spec in Hq. subst q. unfold Qdiv. rewrite Qmult_1_l. apply Qinv_le_0_compat. apply qn_nonneg.
  - rewrite qsum_repeat. pose proof (qn_pos n Hn). field. lra. Qed.

(* the sign part of the Linear invariant: no input is configured decreasing
   (_monotonicities_from_feature_configs yields 0 / 1 only; decreasing features
   get a decreasing calibrator and an increasing linear weight) *)
Lemma linear_init_inv rt c n : (forall i, nth i (lc_monos c) 0%Z <> (-1)%Z) ->
  lin_inv (mkLinD rt c n (premade_linear_init n)) (premade_linear_init n).
Proof. intros H i. cbn [nd_cfg]. split. intros _. apply premade_linear_weight_nonneg.
  intros E. destruct (H i E). Qed.

(* build_linear_layer (weighted_average or not) and build_linear_combination_layer *)
Definition premade_linear_monos (feats : list fmono) (weighted_average : bool) : list Z :=
  if weighted_average then repeat 1%Z (length feats) else map lattice_dim_mono feats.
Lemma premade_linear_monos_not_decreasing feats wa i : nth i (premade_linear_monos feats wa) 0%Z <> (-1)%Z.
Proof. unfold premade_linear_monos. destruct wa.
  - destruct (Nat.lt_ge_cases i (length feats)) as [H|H].
    + rewrite nth_indep with (d' := 1%Z) by (rewrite repeat_length; exact H). rewrite nth_repeat. discriminate.
    + rewrite nth_overflow by (rewrite repeat_length; exact H). discriminate.
  - destruct (Nat.lt_ge_cases i (length feats)) as [H|H].
    + rewrite nth_indep with (d' := lattice_dim_mono (MNum 0)) by (rewrite map_length; exact H). rewrite map_nth.
      destruct (nth i feats (MNum 0)) as [m|[|p ps]]; cbn [lattice_dim_mono]; try discriminate.
      destruct (m =? 0)%Z; discriminate.
    + rewrite nth_overflow by (rewrite map_length; exact H). discriminate. Qed.

Record lin_spec := mkLinS { ns_rt : Q -> Q; ns_cfg : lin_cfg; ns_n : nat }.
Definition lin_spec_desc (s : lin_spec) : lin_desc := mkLinD (ns_rt s) (ns_cfg s) (ns_n s) (premade_linear_init (ns_n s)).
Definition lin_spec_ok (s : lin_spec) : Prop :=
  lin_valid (ns_cfg s) (ns_n s) /\ forall i, nth i (lc_monos (ns_cfg s)) 0%Z <> (-1)%Z.

Theorem init_feasible_linear s : lin_spec_ok s -> lin_inv (lin_spec_desc s) (premade_linear_init (ns_n s)).
Proof. intros [_ H]. apply linear_init_inv. exact H. Qed.

Theorem reachable_feasible_linear_from_init ss ops : (forall s, In s ss -> lin_spec_ok s) ->
  ops_shaped (list Q) lin_desc (fun d w => length w = nd_n d) (map lin_spec_desc ss) ops ->
  forall st, In st (run (map lin_var (map lin_spec_desc ss)) ops) -> Forall2 lin_inv (map lin_spec_desc ss) st.
Proof. intros H. apply reachable_feasible_linear.
  apply (in_map_desc lin_spec_desc (fun d => lin_valid (nd_cfg d) (nd_n d) /\ lin_inv d (nd_init d)) lin_spec_ok ss); [|exact H].
  intros s Hs. split. exact (proj1 Hs). exact (init_feasible_linear s Hs). Qed.

(* ====================================================================== *)
(* 6. The hypotheses are satisfiable; what happens without them               *)
(* ====================================================================== *)
(* ---- lattice: CalibratedLattice under an output calibrator (linear initialiser,
   second dimension unimodal), a bounded model without output calibrator, an RTL
   lattice with the random monotonic initialiser ---- *)
Definition ex_lat_lin : lat_spec :=
  mkLatS (mkLat [2; 3]%nat 1 [1; 0]%Z [] [] (Some 0) (Some 1)) true (fun K => K)
         InputToFinalCalibration [] (LKLinear [0; 1]%Z).
Definition ex_lat_out : lat_spec :=
  mkLatS (mkLat [2; 2]%nat 1 [1; 1]%Z [] [] (Some (-(2))) (Some 2)) true (fun K => K)
         (ModelOutput (Some (-(2))) (Some 2)) [-(2); -(1); 0; 1; 2] (LKLinear [0; 0]%Z).
Definition ex_lat_rtl : lat_spec :=
  mkLatS (mkLat [2; 2]%nat 2 [1; 0]%Z [] [] (Some 0) (Some 1)) true (fun K => K)
         InputToFinalCalibration [] (LKRandomMono (levels [2; 2]%nat) [0; 1#4; 1#2; 1]).

Ltac in_cases H := repeat (destruct H as [<-|H]; [try lia; try lra; auto|]); try destruct H.
Ltac nth_cases d :=
  destruct d as [|d]; [|destruct d as [|d]; [|destruct d as [|d]; [|destruct d as [|d]; [|try (destruct d)]]]];
  try reflexivity.

Lemma ex_cfg_ok sizes units monos lo hi : (forall s, In s sizes -> (2 <= s)%nat) -> (1 <= units)%nat ->
  length monos = length sizes -> (forall m, In m monos -> m = 0%Z \/ m = 1%Z) -> lo < hi ->
  cfg_valid (mkLat sizes units monos [] [] (Some lo) (Some hi)).
Proof. intros. unfold cfg_valid, all_trusts; cbn. repeat split; auto; try (intros; contradiction). Qed.

Example ex_lat_lin_ok : lat_spec_ok ex_lat_lin.
Proof. unfold lat_spec_ok, ex_lat_lin; cbn [ls_cfg ls_ran ls_range ls_oi ls_kind]. split.
  { apply ex_cfg_ok; try reflexivity; try lia; try lra. intros s H; in_cases H. intros m H; in_cases H. }
  split. left; reflexivity. split. intros [H _]; apply H; reflexivity. split. discriminate.
  split. reflexivity. split. reflexivity. split. exact I.
  split. reflexivity. intros d. nth_cases d. Qed.
Example ex_lat_out_ok : lat_spec_ok ex_lat_out.
Proof. unfold lat_spec_ok, ex_lat_out; cbn [ls_cfg ls_ran ls_range ls_oi ls_kind]. split.
  { apply ex_cfg_ok; try reflexivity; try lia; try lra. intros s H; in_cases H. intros m H; in_cases H. }
  split. left; reflexivity. split. intros [H _]; apply H; reflexivity. split. discriminate.
  split. reflexivity. split. reflexivity.
  split. { split. discriminate. intros x H. split; intros b Hb; inversion Hb; subst; in_cases H. }
  split. reflexivity. intros d. nth_cases d. Qed.
Example ex_lat_rtl_ok : lat_spec_ok ex_lat_rtl.
Proof. unfold lat_spec_ok, ex_lat_rtl; cbn [ls_cfg ls_ran ls_range ls_oi ls_kind]. split.
  { apply ex_cfg_ok; try reflexivity; try lia; try lra. intros s H; in_cases H. intros m H; in_cases H. }
  split. left; reflexivity. split. intros [H _]; apply H; reflexivity. split. discriminate.
  split. reflexivity. split. reflexivity. split. exact I.
  cbn [l_sizes premade_init_range fst snd]. split; [|split; [|split]].
  - induction (levels [2; 2]%nat); constructor; auto.
  - intros a b Hab Hb. cbn in Hb.
    do 4 (destruct b as [|b]; [do 4 (destruct a as [|a]; [cbn; first [lra|lia]|]); lia|]). lia.
  - reflexivity.
  - intros x Hx. cbn in Hx. in_cases Hx. Qed.
(* the kernels the three builders start from *)
Example ex_lat_values :
  (lat_spec_init ex_lat_lin [0; 0; 0]%nat == 1#2 /\ lat_spec_init ex_lat_lin [0; 1; 0]%nat == 0 /\
   lat_spec_init ex_lat_lin [1; 2; 0]%nat == 1) /\
  (lat_spec_init ex_lat_out [0; 0; 0]%nat == -(2) /\ lat_spec_init ex_lat_out [1; 1; 0]%nat == 2) /\
  (lat_spec_init ex_lat_rtl [0; 0; 1]%nat == 0 /\ lat_spec_init ex_lat_rtl [1; 0; 1]%nat == 1#2 /\
   lat_spec_init ex_lat_rtl [1; 1; 0]%nat == 1).
Proof. repeat split; vm_compute; reflexivity. Qed.

(* ---- PWL: a decreasing input calibrator of a 3-vertex lattice dimension, a
   middle calibrator, the output calibrator of a model bounded by [-2, 2] ---- *)
Definition ex_pwl_in : pwl_spec := mkPwlS [0; 1; 3] (-1) 0 false false 8 (InputToLattice 3) [] PKUniform.
Definition ex_pwl_mid : pwl_spec := mkPwlS [-(1); 0; 1] 1 0 false false 8 (InputToLattice 2) [] PKLayerDefault.
Definition ex_pwl_outc : pwl_spec :=
  mkPwlS [0; 1#2; 1] 1 0 false false 8 (ModelOutput (Some (-(2))) (Some 2)) [-(2); 0; 2] PKOutputCalibration.
Lemma ex_pwl_common kps mono r oi k : (2 <= length kps)%nat -> (forall l, In l (kp_lengths kps) -> 0 < l) -> z3 mono ->
  (forall a b, fst (output_range r) = Some a -> snd (output_range r) = Some b -> a <= b) ->
  match k with
  | PKUniform => oi_in_bounds r oi
  | PKLayerDefault => True
  | PKOutputCalibration => mono = 1%Z /\ nondecreasing oi /\ forall x, In x oi -> within (fst (output_range r)) (snd (output_range r)) x
  end -> pwl_spec_ok (mkPwlS kps mono 0 false false 8 r oi k).
Proof. intros. unfold pwl_spec_ok; cbn. repeat split; auto. right; left; reflexivity. intros [E|E]; discriminate. Qed.
Example ex_pwl_in_ok : pwl_spec_ok ex_pwl_in.
Proof. apply ex_pwl_common. cbn; lia. intros l H; cbn in H; in_cases H. left; reflexivity.
  intros a b Ha Hb; inversion Ha; inversion Hb; subst. vm_compute; discriminate. exact I. Qed.
Example ex_pwl_mid_ok : pwl_spec_ok ex_pwl_mid.
Proof. apply ex_pwl_common. cbn; lia. intros l H; cbn in H; in_cases H. right; right; reflexivity.
  intros a b Ha Hb; inversion Ha; inversion Hb; subst. vm_compute; discriminate. exact I. Qed.
Example ex_pwl_outc_ok : pwl_spec_ok ex_pwl_outc.
Proof. apply ex_pwl_common. cbn; lia. intros l H; cbn in H; in_cases H. right; right; reflexivity.
  intros a b Ha Hb; inversion Ha; inversion Hb; subst. lra.
  split. reflexivity. split. intros i Hi; cbn in Hi. nth_cases i; cbn; try lra; lia.
  intros x H. split; intros b Hb; inversion Hb; subst; cbn in H; in_cases H. Qed.
Example ex_pwl_values :
  pwl_spec_init ex_pwl_in = [2; -(2#3); -(4#3)] /\ pwl_spec_init ex_pwl_mid = [0; 1#2; 1#2] /\
  qleq (pwl_spec_init ex_pwl_outc) [-(2); 2; 2].
Proof. split. vm_compute; reflexivity. split. vm_compute; reflexivity. repeat constructor; vm_compute; reflexivity. Qed.

(* ---- categorical: a RandomUniform draw that violates the chain 0 <= 1 <= 2 and is
   even outside the range is repaired by build() ---- *)
Definition ex_cat : cat_spec := mkCatS [(0, 1); (1, 2)]%nat (InputToLattice 2) 3 [7#8; -(1#4); 1#8].
Example ex_cat_ok : cat_spec_ok ex_cat.
Proof. split; [|split].
  - apply (acyclic_rank _ (fun x => x)). intros a b H. cbn in H. destruct H as [H|[H|[]]]; inversion H; subst; lia.
  - intros i j H. cbn in H. destruct H as [H|[H|[]]]; inversion H; subst; cbn; lia.
  - reflexivity. Qed.
Example ex_cat_value : exists r, cat_spec_init ex_cat = r /\ nth 0 r 0 <= nth 1 r 0 /\ nth 1 r 0 <= nth 2 r 0 /\
  0 <= nth 0 r 0 /\ nth 2 r 0 <= 1.
Proof. eexists. split. vm_compute. reflexivity. cbn. repeat split; apply Qle_bool_iff; reflexivity. Qed.

(* ---- linear: the weighted average over three features, two of them monotone ---- *)
Definition ex_lin : lin_spec :=
  mkLinS (fun q => q) (mkLin (premade_linear_monos [MNum 1; MNum (-1); MPairs []] false) [] [] [None; None; None] [None; None; None] 0) 3.
Example ex_lin_ok : lin_spec_ok ex_lin.
Proof. split; [|intros i; apply premade_linear_monos_not_decreasing].
  constructor; cbn [ex_lin ns_cfg ns_n lc_monos lc_mdom lc_rdom lc_min lc_max]; try reflexivity; try (intros; congruence).
  - intros i. unfold mono. cbn. nth_cases i; auto.
  - intros d k [].
  - intros d k [].
  - intros i [x [H|H]]; destruct H.
  - apply (acyclic_rank _ (fun x => x)). intros a b [].
  - apply (acyclic_rank _ (fun x => x)). intros a b []. Qed.

(* ---- FINDING: verify_config does not relate output_initialization to
   output_min / output_max.  Without [oi_in_bounds] (resp. sortedness for the
   output calibrator) the freshly built layer violates its own constraints:
   CalibratedLatticeConfig(output_min=0, output_max=1, output_initialization=[-5, 5])
   starts from a lattice kernel with entries -5 and 5; with output_calibration=True
   and output_initialization=[1, 0] the output calibrator starts decreasing;
   CalibratedLinearConfig(output_min=0, output_max=1, output_initialization=[-5, 5])
   starts its input calibrators at outputs -5 .. 5. ---- *)
Definition bad_lat : lat_spec :=
  mkLatS (mkLat [2; 2]%nat 1 [1; 1]%Z [] [] (Some 0) (Some 1)) true (fun K => K)
         (ModelOutput (Some 0) (Some 1)) [-(5); 5] (LKLinear [0; 0]%Z).
Lemma refuted_lattice_init_outside_bounds :
  let c := ls_cfg bad_lat in
  cfg_valid c /\ block_ok c (ls_ran bad_lat) /\ ~ trap_mono_cond_with_edgeworth c /\ l_sizes c <> [] /\
  l_min c = fst (output_range (ls_range bad_lat)) /\ l_max c = snd (output_range (ls_range bad_lat)) /\
  unis_ok c [0; 0]%Z /\ ls_oi bad_lat <> [] /\
  ~ lat_inv (lat_spec_desc bad_lat) (lat_spec_init bad_lat).
Proof. cbv zeta. unfold bad_lat; cbn [ls_cfg ls_ran ls_range ls_oi ls_kind]. split.
  { apply ex_cfg_ok; try reflexivity; try lia; try lra. intros s H; in_cases H. intros m H; in_cases H. }
  split. left; reflexivity. split. intros [H _]; apply H; reflexivity. split. discriminate.
  split. reflexivity. split. reflexivity. split. { split. reflexivity. intros d. nth_cases d. }
  split. discriminate. intros (_ & Hlo & _). cbn [lat_spec_desc ld_cfg l_min l_shape l_sizes l_units lower_ok] in Hlo.
  specialize (Hlo [0; 0; 0]%nat ltac:(repeat constructor)). vm_compute in Hlo. apply Hlo. reflexivity. Qed.

Definition bad_outc (oi : list Q) : pwl_spec :=
  mkPwlS [0; 1] 1 0 false false 8 (ModelOutput (Some 0) (Some 1)) oi PKOutputCalibration.
Lemma refuted_output_calibrator_init :
  ~ pwl_inv (pwl_spec_desc (bad_outc [1; 0])) (pwl_spec_init (bad_outc [1; 0])) /\
  ~ pwl_inv (pwl_spec_desc (bad_outc [-(5); 5])) (pwl_spec_init (bad_outc [-(5); 5])).
Proof. split.
  - intros (H & _). specialize (H eq_refl). cbn in H. inversion H as [|h l Hh _]; subst. lra.
  - intros (_ & _ & H). destruct H as [H _]. { intros [_ E]. apply E. reflexivity. }
    specialize (H ltac:(discriminate)). cbn in H. inversion H as [|h l Hh _]; subst. lra. Qed.

Definition bad_pwl_in : pwl_spec := mkPwlS [0; 1; 2] 1 0 false false 8 (ModelOutput (Some 0) (Some 1)) [-(5); 5] PKUniform.
Lemma refuted_linear_model_calibrator_init : ~ pwl_inv (pwl_spec_desc bad_pwl_in) (pwl_spec_init bad_pwl_in).
Proof. intros (_ & _ & H). destruct H as [H _]. { intros [_ E]. apply E. reflexivity. }
  specialize (H ltac:(discriminate)). vm_compute in H. inversion H as [|h l Hh _]; subst. apply Hh. reflexivity. Qed.
