(* Lemmas about the GENERATED canonicalisers (Gen/GenCanon.v, regenerated from
   /repo's utils.py on every run).  Structure:
     1. hand-written specifications  spec_*  (what the canonicalisers are
        supposed to compute), and their properties;
     2. gen_*_spec : generated function = specification, proved by case
        analysis + computation only (tactics that do not depend on the shape of
        the generated term, so harmless rewrites of utils.py keep them going);
     3. the property lemmas for the generated functions, by rewriting with 2.
   If utils.py changes behaviour, step 2 stops compiling; harness/props/c16.py
   then searches the small value universe for a concrete input on which the
   real canonicaliser differs from the Python mirror of spec_*. *)
From TFL Require Import Model.PyVal Gen.GenCanon.
From Coq Require Import Lia.
Open Scope string_scope.

(* ------------------------------------------------------------------------- *)
(* 1. Specifications                                                           *)
(* ------------------------------------------------------------------------- *)
Definition in3 (v : value) : bool := py_in v [VInt (-1); VInt 0; VInt 1].
Definition in2 (v : value) : bool := py_in v [VInt (-1); VInt 1].
Definition str_is (v : value) (t : string) : bool :=
  match v with VStr s => String.eqb (lower s) t | _ => false end.

Definition spec_monotonicity (v ad : value) : result value :=
  if is_none v then Ok VNone
  else if in3 v then (if negb (py_truthy ad) && py_eq v (VInt (-1)) then ValueError else Ok v)
  else if str_is v "decreasing" then (if py_truthy ad then Ok (VInt (-1)) else ValueError)
  else if str_is v "none" then Ok (VInt 0)
  else if str_is v "increasing" then Ok (VInt 1)
  else ValueError.

Definition spec_convexity (v : value) : result value :=
  if is_none v then Ok VNone
  else if in3 v then Ok v
  else if str_is v "concave" then Ok (VInt (-1))
  else if str_is v "none" then Ok (VInt 0)
  else if str_is v "convex" then Ok (VInt 1)
  else ValueError.

Definition spec_unimodality (v : value) : result value :=
  if in3 v then Ok v
  else if str_is v "peak" then Ok (VInt (-1))
  else if str_is v "none" then Ok (VInt 0)
  else if str_is v "valley" then Ok (VInt 1)
  else ValueError.

Definition spec_direction (a b d : value) : result value :=
  if in2 d then Ok (VTuple [a; b; d])
  else if str_is d "negative" then Ok (VTuple [a; b; VInt (-1)])
  else if str_is d "positive" then Ok (VTuple [a; b; VInt 1])
  else ValueError.

Definition spec_trust_items (l : list value) : result value :=
  match l with [a; b; d] => spec_direction a b d | _ => ValueError end.

Definition spec_trust_entry (t : value) : result value :=
  match py_iter t with
  | Ok l => spec_trust_items l
  | _ => OtherError "TypeError"
  end.

Definition spec_bound_item (v : value) : result value :=
  if is_float v || is_none v then Ok v
  else if str_is v "none" then Ok VNone
  else ValueError.

Fixpoint map_res (f : value -> result value) (l : list value) : result (list value) :=
  match l with
  | [] => Ok []
  | x :: r => bind (f x) (fun y => bind (map_res f r) (fun ys => Ok (y :: ys)))
  end.

(* `if xs: return [f(x) for x in xs]  else: return None` *)
Definition spec_list (f : value -> result value) (v : value) : result value :=
  if py_truthy v then bind (py_iter v) (fun l => bind (map_res f l) (fun ys => Ok (VList ys)))
  else Ok VNone.

Definition spec_monotonicities (v ad : value) := spec_list (fun x => spec_monotonicity x ad) v.
Definition spec_unimodalities := spec_list spec_unimodality.
Definition spec_trust := spec_list spec_trust_entry.
Definition spec_input_bounds := spec_list spec_bound_item.

Definition nonzero (e : value) : bool := negb (py_eq e (VInt 0)).
Definition count_one (it : value) : result Z :=
  if is_none it then Ok 0%Z
  else bind (py_iter it) (fun l => Ok (Z.of_nat (List.length (filter nonzero l)))).
Fixpoint spec_count (its : list value) (acc : Z) : result value :=
  match its with
  | [] => Ok (VInt acc)
  | it :: r => bind (count_one it) (fun n => spec_count r (acc + n))
  end.

(* ------------------------------------------------------------------------- *)
(* Generic facts                                                               *)
(* ------------------------------------------------------------------------- *)
Definition lift {S} (r : result value) (k : value -> step S) : step S :=
  match r with Ok y => k y | ValueError => Exit ValueError | OtherError c => Exit (OtherError c) end.

Lemma py_for_map (body : value -> value -> step value) (f : value -> result value) :
  (forall x acc, body x (VList acc) = lift (f x) (fun y => Next (VList (acc ++ [y])))) ->
  forall l acc, py_for l body (VList acc) =
    match map_res f l with
    | Ok ys => Next (VList (acc ++ ys))
    | ValueError => Exit ValueError
    | OtherError c => Exit (OtherError c)
    end.
Proof.
  intros Hb. induction l as [|x r IH]; intros acc; simpl.
  - rewrite app_nil_r. reflexivity.
  - rewrite Hb. destruct (f x) as [y| |c]; simpl; try reflexivity.
    rewrite IH. destruct (map_res f r) as [ys| |c]; simpl; try reflexivity.
    rewrite <- app_assoc. reflexivity.
Qed.

Lemma map_res_ext f g l : (forall x, In x l -> f x = g x) -> map_res f l = map_res g l.
Proof.
  induction l as [|x r IH]; intros H; simpl; [reflexivity|].
  rewrite (H x (or_introl eq_refl)). rewrite IH; [reflexivity|].
  intros y Hy. apply H. right. exact Hy.
Qed.

Lemma map_res_forall2 f l1 l2 : Forall2 (fun a b => f a = f b) l1 l2 -> map_res f l1 = map_res f l2.
Proof. induction 1 as [|a b r1 r2 Hab _ IH]; simpl; [reflexivity|]. rewrite Hab, IH. reflexivity. Qed.

Lemma map_res_ok_forall2 f l ys : map_res f l = Ok ys -> Forall2 (fun x y => f x = Ok y) l ys.
Proof.
  revert ys. induction l as [|x r IH]; simpl; intros ys H.
  - inversion H. constructor.
  - destruct (f x) as [y| |c] eqn:E; simpl in H; try discriminate.
    destruct (map_res f r) as [zs| |c] eqn:E2; simpl in H; try discriminate.
    inversion H; subst. constructor; [exact E|]. apply IH. reflexivity.
Qed.

Lemma map_res_fix f ys : Forall (fun y => f y = Ok y) ys -> map_res f ys = Ok ys.
Proof. induction 1 as [|y r Hy _ IH]; simpl; [reflexivity|]. rewrite Hy. simpl. rewrite IH. reflexivity. Qed.

Lemma map_res_length f l ys : map_res f l = Ok ys -> List.length ys = List.length l.
Proof. intros H. apply map_res_ok_forall2 in H. induction H; simpl; congruence. Qed.

Lemma map_res_no_other f l :
  Forall (fun x => forall c, f x <> OtherError c) l -> forall c, map_res f l <> OtherError c.
Proof.
  induction 1 as [|x r Hx _ IH]; simpl; intros c; [discriminate|].
  destruct (f x) as [y| |c'] eqn:E; simpl; try discriminate.
  - destruct (map_res f r) as [zs| |c''] eqn:E2; simpl; try discriminate. exfalso. exact (IH c'' eq_refl).
  - exfalso. exact (Hx c' eq_refl).
Qed.

(* iteration of a truthy container yields a non-empty list *)
Lemma truthy_iter_nonempty v l : py_truthy v = true -> py_iter v = Ok l -> l <> [].
Proof.
  destruct v; simpl; try discriminate; intros Ht Hi; inversion Hi; subst; clear Hi.
  - destruct s; simpl in *; [discriminate|discriminate].
  - destruct l; [discriminate|discriminate].
  - destruct l; [discriminate|discriminate].
Qed.

(* spec_list: general consequences *)
Lemma spec_list_ok f v w : spec_list f v = Ok w ->
  w = VNone \/ exists l ys, py_iter v = Ok l /\ l <> [] /\ map_res f l = Ok ys /\ w = VList ys.
Proof.
  unfold spec_list. destruct (py_truthy v) eqn:Ht; [|intros H; inversion H; left; reflexivity].
  destruct (py_iter v) as [l| |c] eqn:Hi; simpl; try discriminate.
  destruct (map_res f l) as [ys| |c] eqn:Hm; simpl; try discriminate.
  intros H. inversion H. right. exists l, ys.
  split; [reflexivity|]. split; [eapply truthy_iter_nonempty; eassumption|]. split; [assumption|reflexivity].
Qed.

Lemma spec_list_idempotent f :
  (forall x y, f x = Ok y -> f y = Ok y) ->
  forall v w, spec_list f v = Ok w -> spec_list f w = Ok w.
Proof.
  intros Hf v w H. apply spec_list_ok in H. destruct H as [->|(l & ys & Hi & Hne & Hm & ->)]; [reflexivity|].
  unfold spec_list. simpl.
  assert (Hlen := map_res_length _ _ _ Hm).
  destruct ys as [|y r]; [destruct l; [congruence|discriminate]|].
  rewrite map_res_fix; [reflexivity|].
  apply map_res_ok_forall2 in Hm. clear -Hm Hf.
  induction Hm; constructor; eauto.
Qed.

Lemma spec_list_range f (P : value -> Prop) :
  (forall x y, f x = Ok y -> P y) ->
  forall v w, spec_list f v = Ok w -> w = VNone \/ exists ys, w = VList ys /\ ys <> [] /\ Forall P ys.
Proof.
  intros Hf v w H. apply spec_list_ok in H. destruct H as [->|(l & ys & Hi & Hne & Hm & ->)]; [left; reflexivity|].
  right. exists ys. split; [reflexivity|]. split.
  - apply map_res_length in Hm. destruct ys; [destruct l; [congruence|discriminate]|discriminate].
  - apply map_res_ok_forall2 in Hm. clear -Hm Hf. induction Hm; constructor; eauto.
Qed.

Lemma spec_list_tuple_list f l : spec_list f (VTuple l) = spec_list f (VList l).
Proof. reflexivity. Qed.

Lemma spec_list_forall2 f l1 l2 :
  Forall2 (fun a b => f a = f b) l1 l2 -> spec_list f (VList l1) = spec_list f (VList l2).
Proof.
  intros H. unfold spec_list. simpl. rewrite (map_res_forall2 _ _ _ H).
  destruct H; reflexivity.
Qed.

(* A value that is a (possibly empty) list / tuple / string / None: the
   documented argument types of the list canonicalisers. *)
Definition listlike (v : value) : Prop :=
  match v with VNone | VList _ | VTuple _ | VStr _ => True | _ => False end.

Lemma spec_list_total f v :
  listlike v ->
  (forall l, py_iter v = Ok l -> Forall (fun x => forall c, f x <> OtherError c) l) ->
  forall c, spec_list f v <> OtherError c.
Proof.
  intros Hl Hf c. unfold spec_list. destruct (py_truthy v) eqn:Ht; [|discriminate].
  destruct (py_iter v) as [l| |c'] eqn:Hi; simpl; try discriminate.
  - destruct (map_res f l) as [ys| |c''] eqn:Hm; simpl; try discriminate.
    exfalso. exact (map_res_no_other f l (Hf l eq_refl) c'' Hm).
  - destruct v; simpl in *; try contradiction; try discriminate Ht; discriminate Hi.
Qed.

(* ------------------------------------------------------------------------- *)
(* 2. Generated function = specification                                       *)
(* ------------------------------------------------------------------------- *)
Ltac head t := lazymatch t with ?f _ => head f | _ => t end.
Ltac unfold_bodies :=
  repeat match goal with
  | |- context [py_for _ ?b _] => let h := head b in progress unfold h
  end.
Ltac unfold_lhs := match goal with |- ?g = _ => let h := head g in unfold h end.
Ltac case_strings :=
  repeat match goal with
  | |- context [String.eqb ?a ?b] => destruct (String.eqb a b) eqn:?; simpl
  | |- context [if ?c then _ else _] => destruct c eqn:?; simpl
  | |- context [match ?c with Ok _ => _ | ValueError => _ | OtherError _ => _ end] => destruct c eqn:?; simpl
  end.
Ltac finish := try reflexivity; simpl in *; try congruence.
(* scalar canonicalisers: case analysis on the value, compute, split on the
   remaining tests *)
Ltac scalar_eq :=
  intros; match goal with |- ?g = ?s => let hg := head g in let hs := head s in unfold hg, hs end;
  unfold in3, in2, str_is, py_in;
  match goal with v : value |- _ => destruct v end; simpl; try reflexivity;
  case_strings; finish.

Lemma gen_monotonicity_spec v ad : canonicalize_monotonicity v ad = spec_monotonicity v ad.
Proof.
  unfold canonicalize_monotonicity, spec_monotonicity, in3, str_is, py_in.
  destruct v; simpl; try reflexivity; case_strings; finish.
Qed.

Lemma gen_convexity_spec v : canonicalize_convexity v = spec_convexity v.
Proof.
  unfold canonicalize_convexity, spec_convexity, in3, str_is, py_in.
  destruct v; simpl; try reflexivity; case_strings; finish.
Qed.

(* list canonicalisers: the generated loop is py_for over a named body; one
   step of the body is characterised by the element specification. *)
Ltac step_eq :=
  intros; unfold spec_unimodality, spec_bound_item; unfold lift, in3, in2, str_is, py_in;
  match goal with x : value |- _ => destruct x end; simpl; try reflexivity;
  case_strings; finish.

Ltac list_eq f :=
  intros; match goal with |- ?g = _ => let hg := head g in unfold hg end;
  unfold spec_monotonicities, spec_unimodalities, spec_trust, spec_input_bounds, spec_list;
  match goal with |- context [py_truthy ?v] => destruct (py_truthy v) eqn:Htruthy end; simpl; try reflexivity;
  match goal with |- context [py_iter ?v] => destruct (py_iter v) as [items| |cls] eqn:Hiter end; simpl;
  try reflexivity;
  match goal with |- context [py_for ?it ?b (VList [])] =>
    rewrite (py_for_map b f); [ destruct (map_res f it); simpl; reflexivity | ] end.

Lemma gen_monotonicities_spec v ad : canonicalize_monotonicities v ad = spec_monotonicities v ad.
Proof.
  list_eq (fun x => spec_monotonicity x ad).
  intros x acc. unfold_lhs. rewrite gen_monotonicity_spec.
  destruct (spec_monotonicity x ad); simpl; reflexivity.
Qed.

Lemma gen_unimodalities_spec v : canonicalize_unimodalities v = spec_unimodalities v.
Proof.
  list_eq spec_unimodality.
  intros x acc. unfold_lhs. step_eq.
Qed.

Lemma gen_input_bounds_spec v : canonicalize_input_bounds v = spec_input_bounds v.
Proof.
  list_eq spec_bound_item.
  intros x acc. unfold_lhs. step_eq.
Qed.

(* --- trust: len(trust) != 3, unpacking, direction ------------------------- *)
Lemma chars_length s : List.length (chars s) = String.length s.
Proof. induction s; simpl; congruence. Qed.

Lemma py_len_items t l : py_iter t = Ok l -> py_len t = Ok (VInt (Z.of_nat (List.length l))).
Proof.
  destruct t; simpl; try discriminate; intros H; inversion H; subst; try reflexivity.
  rewrite chars_length. reflexivity.
Qed.

Lemma py_eq_int x y : py_eq (VInt x) (VInt y) = Z.eqb x y.
Proof.
  simpl. unfold Qeq_bool, inject_Z. simpl. rewrite !Z.mul_1_r.
  unfold Zeq_bool. destruct (Z.eqb_spec x y) as [->|N].
  - rewrite Z.compare_refl. reflexivity.
  - destruct (Z.compare_spec x y); try reflexivity. contradiction.
Qed.

Lemma len_is_3 (l : list value) : py_eq (VInt (Z.of_nat (List.length l))) (VInt 3) = Nat.eqb (List.length l) 3.
Proof.
  rewrite py_eq_int. destruct (Nat.eqb_spec (List.length l) 3) as [E|N].
  - rewrite E. reflexivity.
  - apply Z.eqb_neq. lia.
Qed.

Lemma py_iter_never_valueerror t : py_iter t <> ValueError.
Proof. destruct t; discriminate. Qed.

Lemma spec_direction_step a b d acc :
  forall (k : result value -> step value),
  (forall r, k r = lift r (fun y => Next (VList (acc ++ [y])))) ->
  k (spec_direction a b d) = lift (spec_direction a b d) (fun y => Next (VList (acc ++ [y]))).
Proof. intros k Hk. apply Hk. Qed.

Lemma gen_trust_spec v : canonicalize_trust v = spec_trust v.
Proof.
  list_eq spec_trust_entry.
  intros x acc. unfold_lhs. unfold spec_trust_entry, py_unpack.
  destruct (py_iter x) as [l| |c] eqn:Hi.
  - rewrite (py_len_items _ _ Hi). cbv beta iota delta [sbind bind]. rewrite len_is_3.
    destruct (Nat.eqb (List.length l) 3) eqn:E.
    + destruct l as [|a [|b [|d [|e r]]]]; try discriminate E.
      simpl. unfold spec_direction, in2, str_is, py_in.
      destruct d; simpl; try reflexivity; case_strings; finish.
    + destruct l as [|a [|b [|d [|e r]]]]; try discriminate E; reflexivity.
  - exfalso. exact (py_iter_never_valueerror _ Hi).
  - destruct x; simpl in Hi; try discriminate Hi; reflexivity.
Qed.

(* --- count_non_zeros -------------------------------------------------------- *)
Lemma py_for_count (body : value -> value -> step value) :
  (forall e k, body e (VInt k) = Next (VInt (if nonzero e then k + 1 else k))) ->
  forall l k, py_for l body (VInt k) = Next (VInt (k + Z.of_nat (List.length (filter nonzero l)))).
Proof.
  intros Hb. induction l as [|e r IH]; intros k.
  - simpl. rewrite Z.add_0_r. reflexivity.
  - cbn [py_for filter]. rewrite Hb. destruct (nonzero e); rewrite IH; cbn [List.length]; f_equal; f_equal; lia.
Qed.

Lemma py_for_outer (body : value -> value -> step value) :
  (forall it acc, body it (VInt acc) =
     match count_one it with Ok n => Next (VInt (acc + n)) | ValueError => Exit ValueError
                        | OtherError c => Exit (OtherError c) end) ->
  forall its acc, py_for its body (VInt acc) =
     match spec_count its acc with Ok w => Next w | ValueError => Exit ValueError
                              | OtherError c => Exit (OtherError c) end.
Proof.
  intros Hb. induction its as [|it r IH]; intros acc; [reflexivity|].
  cbn [py_for spec_count]. rewrite Hb. destruct (count_one it) as [n| |c]; simpl; try reflexivity.
  apply IH.
Qed.

Lemma gen_count_spec its : count_non_zeros (VTuple its) = spec_count its 0.
Proof.
  unfold count_non_zeros. cbn [py_iter bind].
  match goal with |- context [py_for its ?b (VInt 0)] => rewrite (py_for_outer b) end.
  - destruct (spec_count its 0); reflexivity.
  - intros it acc. unfold_lhs. unfold count_one.
    destruct (is_none it) eqn:En; cbn [negb].
    + rewrite Z.add_0_r. reflexivity.
    + destruct (py_iter it) as [l| |c] eqn:Hi; cbn [sbind bind]; try reflexivity.
      match goal with |- context [py_for l ?b (VInt 0)] => rewrite (py_for_count b) end.
      * cbn [py_add sbind Z.add]. reflexivity.
      * intros e k. unfold_lhs. unfold nonzero.
        destruct (py_eq e (VInt 0)); cbn [negb sbind py_add]; reflexivity.
Qed.

(* ------------------------------------------------------------------------- *)
(* 3. Properties of the specifications, transported to the generated code      *)
(* ------------------------------------------------------------------------- *)
Ltac split_hyp H :=
  repeat match type of H with context [if ?c then _ else _] => destruct c eqn:? end;
  try discriminate H; inversion H; subst; clear H.
Ltac rewrite_tests :=
  repeat match goal with E : ?a = _ |- context [?a] => rewrite E end.

(* --- scalar: monotonicity --- *)
Lemma spec_monotonicity_idem v ad w : spec_monotonicity v ad = Ok w -> spec_monotonicity w ad = Ok w.
Proof.
  intros H. unfold spec_monotonicity in H. split_hyp H; try reflexivity;
  unfold spec_monotonicity; rewrite_tests; try reflexivity;
  destruct (py_truthy ad); simpl in *; try discriminate; reflexivity.
Qed.

Lemma spec_monotonicity_range v ad w : spec_monotonicity v ad = Ok w ->
  (w = VNone \/ in3 w = true) /\ (py_truthy ad = false -> py_eq w (VInt (-1)) = false).
Proof.
  intros H. unfold spec_monotonicity in H. split_hyp H; (split; [auto|intros Had]); try reflexivity;
  try (rewrite Had in *; simpl in *; congruence).
Qed.

Lemma spec_monotonicity_total v ad c : spec_monotonicity v ad <> OtherError c.
Proof. unfold spec_monotonicity. case_strings; discriminate. Qed.

Lemma spec_monotonicity_str s ad t r :
  lower s = t ->
  spec_monotonicity (VStr t) ad = r -> lower t = t -> spec_monotonicity (VStr s) ad = r.
Proof.
  intros Hs Hr Ht. unfold spec_monotonicity, str_is, in3, py_in in *. simpl in *. rewrite Hs. rewrite Ht in Hr. exact Hr.
Qed.

Lemma spec_monotonicity_syn s ad :
  (lower s = "increasing" -> spec_monotonicity (VStr s) ad = spec_monotonicity (VInt 1) ad) /\
  (lower s = "decreasing" -> spec_monotonicity (VStr s) ad = spec_monotonicity (VInt (-1)) ad) /\
  (lower s = "none" -> spec_monotonicity (VStr s) ad = spec_monotonicity (VInt 0) ad).
Proof.
  unfold spec_monotonicity, str_is, in3, py_in. simpl.
  repeat split; intros ->; simpl; destruct (py_truthy ad); reflexivity.
Qed.

(* --- scalar: convexity --- *)
Lemma spec_convexity_idem v w : spec_convexity v = Ok w -> spec_convexity w = Ok w.
Proof.
  intros H. unfold spec_convexity in H. split_hyp H; try reflexivity;
  unfold spec_convexity; rewrite_tests; reflexivity.
Qed.

Lemma spec_convexity_range v w : spec_convexity v = Ok w -> w = VNone \/ in3 w = true.
Proof. intros H. unfold spec_convexity in H. split_hyp H; auto. Qed.

Lemma spec_convexity_total v c : spec_convexity v <> OtherError c.
Proof. unfold spec_convexity. case_strings; discriminate. Qed.

Lemma spec_convexity_syn s :
  (lower s = "convex" -> spec_convexity (VStr s) = spec_convexity (VInt 1)) /\
  (lower s = "concave" -> spec_convexity (VStr s) = spec_convexity (VInt (-1))) /\
  (lower s = "none" -> spec_convexity (VStr s) = spec_convexity (VInt 0)).
Proof.
  unfold spec_convexity, str_is, in3, py_in. simpl. repeat split; intros ->; reflexivity.
Qed.

(* --- element: unimodality --- *)
Lemma spec_unimodality_idem v w : spec_unimodality v = Ok w -> spec_unimodality w = Ok w.
Proof.
  intros H. unfold spec_unimodality in H. split_hyp H; try reflexivity;
  unfold spec_unimodality; rewrite_tests; reflexivity.
Qed.
Lemma spec_unimodality_range v w : spec_unimodality v = Ok w -> in3 w = true.
Proof. intros H. unfold spec_unimodality in H. split_hyp H; auto. Qed.
Lemma spec_unimodality_total v c : spec_unimodality v <> OtherError c.
Proof. unfold spec_unimodality. case_strings; discriminate. Qed.

(* --- element: trust entry --- *)
Definition canonical_trust_entry (e : value) : Prop :=
  exists a b d, e = VTuple [a; b; d] /\ in2 d = true.

Lemma spec_direction_canonical a b d w : spec_direction a b d = Ok w ->
  exists d', w = VTuple [a; b; d'] /\ in2 d' = true.
Proof.
  intros H. unfold spec_direction in H. split_hyp H; eexists; split; try reflexivity; auto.
Qed.

Lemma spec_trust_entry_canonical t w : spec_trust_entry t = Ok w -> canonical_trust_entry w.
Proof.
  unfold spec_trust_entry. destruct (py_iter t) as [l| |c]; try discriminate.
  destruct l as [|a [|b [|d [|e r]]]]; simpl; try discriminate.
  intros H. apply spec_direction_canonical in H. destruct H as (d' & -> & Hd). exists a, b, d'. auto.
Qed.

Lemma spec_trust_entry_fix w : canonical_trust_entry w -> spec_trust_entry w = Ok w.
Proof.
  intros (a & b & d & -> & Hd). unfold spec_trust_entry. simpl. unfold spec_direction. rewrite Hd. reflexivity.
Qed.

Lemma spec_trust_entry_idem t w : spec_trust_entry t = Ok w -> spec_trust_entry w = Ok w.
Proof. intros H. apply spec_trust_entry_fix. eapply spec_trust_entry_canonical. exact H. Qed.

(* entries whose container is a list, a tuple or a string never raise anything
   but ValueError *)
Definition sized (t : value) : Prop := match t with VList _ | VTuple _ | VStr _ => True | _ => False end.
Lemma spec_trust_entry_total t c : sized t -> spec_trust_entry t <> OtherError c.
Proof.
  intros Hs. unfold spec_trust_entry.
  destruct t; simpl in Hs; try contradiction; simpl;
  match goal with |- spec_trust_items ?l <> _ => destruct l as [|a [|b [|d [|e r]]]] end; simpl; try discriminate;
  unfold spec_direction; case_strings; discriminate.
Qed.

(* --- element: input bound --- *)
Lemma spec_bound_item_idem v w : spec_bound_item v = Ok w -> spec_bound_item w = Ok w.
Proof.
  intros H. unfold spec_bound_item in H. split_hyp H; try reflexivity.
  unfold spec_bound_item. rewrite_tests. reflexivity.
Qed.
Lemma spec_bound_item_range v w : spec_bound_item v = Ok w -> is_float w = true \/ w = VNone.
Proof.
  intros H. unfold spec_bound_item in H. split_hyp H; auto.
  destruct w; simpl in *; try discriminate; auto.
Qed.
Lemma spec_bound_item_total v c : spec_bound_item v <> OtherError c.
Proof. unfold spec_bound_item. case_strings; discriminate. Qed.

(* ------------------------------------------------------------------------- *)
(* 4. The statements used by Props/C16.v, about the GENERATED functions        *)
(* ------------------------------------------------------------------------- *)
(* synonym relations between single hyperparameter values *)
Definition spelled (v : value) (t : string) : Prop := exists s, v = VStr s /\ lower s = t.

Definition syn_monotonicity (a b : value) : Prop :=
  a = b \/ (spelled a "increasing" /\ b = VInt 1) \/ (spelled a "decreasing" /\ b = VInt (-1)) \/
  (spelled a "none" /\ b = VInt 0).
Definition syn_unimodality (a b : value) : Prop :=
  a = b \/ (spelled a "valley" /\ b = VInt 1) \/ (spelled a "peak" /\ b = VInt (-1)) \/
  (spelled a "none" /\ b = VInt 0).
Definition syn_direction (a b : value) : Prop :=
  a = b \/ (spelled a "positive" /\ b = VInt 1) \/ (spelled a "negative" /\ b = VInt (-1)).
(* a trust entry: any container kind (list or tuple) around the same three
   items, direction spelled either way *)
Definition container (e : value) (items : list value) : Prop := e = VList items \/ e = VTuple items.
Definition syn_trust (e1 e2 : value) : Prop :=
  exists a b d1 d2, container e1 [a; b; d1] /\ container e2 [a; b; d2] /\ syn_direction d1 d2.

Lemma Forall2_impl {A B} (P Q : A -> B -> Prop) l1 l2 :
  (forall a b, P a b -> Q a b) -> Forall2 P l1 l2 -> Forall2 Q l1 l2.
Proof. intros H. induction 1; constructor; auto. Qed.

Lemma gen_monotonicity_synonyms s ad :
  (lower s = "increasing" -> canonicalize_monotonicity (VStr s) ad = canonicalize_monotonicity (VInt 1) ad) /\
  (lower s = "decreasing" -> canonicalize_monotonicity (VStr s) ad = canonicalize_monotonicity (VInt (-1)) ad) /\
  (lower s = "none" -> canonicalize_monotonicity (VStr s) ad = canonicalize_monotonicity (VInt 0) ad).
Proof. rewrite !gen_monotonicity_spec. apply spec_monotonicity_syn. Qed.

Lemma gen_monotonicity_values :
  canonicalize_monotonicity (VInt 1) (VBool true) = Ok (VInt 1) /\
  canonicalize_monotonicity (VInt (-1)) (VBool true) = Ok (VInt (-1)) /\
  canonicalize_monotonicity (VInt 0) (VBool true) = Ok (VInt 0) /\
  canonicalize_monotonicity VNone (VBool true) = Ok VNone /\
  canonicalize_monotonicity (VInt (-1)) (VBool false) = ValueError /\
  canonicalize_monotonicity (VStr "Decreasing") (VBool false) = ValueError /\
  canonicalize_monotonicity (VInt 2) (VBool true) = ValueError /\
  canonicalize_monotonicity (VStr "up") (VBool true) = ValueError.
Proof. repeat split; vm_compute; reflexivity. Qed.

Lemma syn_monotonicity_eq ad a b : syn_monotonicity a b ->
  canonicalize_monotonicity a ad = canonicalize_monotonicity b ad.
Proof.
  intros [->|[[(s & -> & Hs) ->]|[[(s & -> & Hs) ->]|[(s & -> & Hs) ->]]]]; [reflexivity| | |];
  apply (gen_monotonicity_synonyms s ad); exact Hs.
Qed.

Lemma gen_monotonicities_synonyms l1 l2 ad :
  Forall2 syn_monotonicity l1 l2 ->
  canonicalize_monotonicities (VList l1) ad = canonicalize_monotonicities (VList l2) ad /\
  canonicalize_monotonicities (VTuple l1) ad = canonicalize_monotonicities (VList l2) ad.
Proof.
  intros H. rewrite !gen_monotonicities_spec. unfold spec_monotonicities.
  rewrite spec_list_tuple_list. split; apply spec_list_forall2;
  (eapply Forall2_impl; [|exact H]); cbv beta; intros a b Hab; cbv beta;
  rewrite <- !gen_monotonicity_spec; apply syn_monotonicity_eq; exact Hab.
Qed.

Lemma gen_convexity_synonyms s :
  (lower s = "convex" -> canonicalize_convexity (VStr s) = canonicalize_convexity (VInt 1)) /\
  (lower s = "concave" -> canonicalize_convexity (VStr s) = canonicalize_convexity (VInt (-1))) /\
  (lower s = "none" -> canonicalize_convexity (VStr s) = canonicalize_convexity (VInt 0)).
Proof. rewrite !gen_convexity_spec. apply spec_convexity_syn. Qed.

Lemma syn_unimodality_eq a b : syn_unimodality a b -> spec_unimodality a = spec_unimodality b.
Proof.
  intros [->|[[(s & -> & Hs) ->]|[[(s & -> & Hs) ->]|[(s & -> & Hs) ->]]]]; [reflexivity| | |];
  unfold spec_unimodality, str_is, in3, py_in; simpl; rewrite Hs; reflexivity.
Qed.

Lemma gen_unimodalities_synonyms l1 l2 :
  Forall2 syn_unimodality l1 l2 ->
  canonicalize_unimodalities (VList l1) = canonicalize_unimodalities (VList l2) /\
  canonicalize_unimodalities (VTuple l1) = canonicalize_unimodalities (VList l2).
Proof.
  intros H. rewrite !gen_unimodalities_spec. unfold spec_unimodalities.
  rewrite spec_list_tuple_list. split; apply spec_list_forall2;
  (eapply Forall2_impl; [|exact H]); cbv beta; intros a b Hab; apply syn_unimodality_eq; exact Hab.
Qed.

Lemma syn_direction_eq a b d1 d2 : syn_direction d1 d2 -> spec_direction a b d1 = spec_direction a b d2.
Proof.
  intros [->|[[(s & -> & Hs) ->]|[(s & -> & Hs) ->]]]; [reflexivity| |];
  unfold spec_direction, str_is, in2, py_in; simpl; rewrite Hs; reflexivity.
Qed.

Lemma syn_trust_eq e1 e2 : syn_trust e1 e2 -> spec_trust_entry e1 = spec_trust_entry e2.
Proof.
  intros (a & b & d1 & d2 & [-> | ->] & [-> | ->] & Hd); unfold spec_trust_entry; simpl;
  apply syn_direction_eq; exact Hd.
Qed.

Lemma gen_trust_synonyms l1 l2 :
  Forall2 syn_trust l1 l2 ->
  canonicalize_trust (VList l1) = canonicalize_trust (VList l2) /\
  canonicalize_trust (VTuple l1) = canonicalize_trust (VList l2).
Proof.
  intros H. rewrite !gen_trust_spec. unfold spec_trust.
  rewrite spec_list_tuple_list. split; apply spec_list_forall2;
  (eapply Forall2_impl; [|exact H]); cbv beta; intros a b Hab; apply syn_trust_eq; exact Hab.
Qed.

(* idempotence *)
Lemma gen_monotonicity_idempotent v ad w :
  canonicalize_monotonicity v ad = Ok w -> canonicalize_monotonicity w ad = Ok w.
Proof. rewrite !gen_monotonicity_spec. apply spec_monotonicity_idem. Qed.
Lemma gen_convexity_idempotent v w : canonicalize_convexity v = Ok w -> canonicalize_convexity w = Ok w.
Proof. rewrite !gen_convexity_spec. apply spec_convexity_idem. Qed.
Lemma gen_monotonicities_idempotent v ad w :
  canonicalize_monotonicities v ad = Ok w -> canonicalize_monotonicities w ad = Ok w.
Proof.
  rewrite !gen_monotonicities_spec. apply spec_list_idempotent. intros x y. apply spec_monotonicity_idem.
Qed.
Lemma gen_unimodalities_idempotent v w :
  canonicalize_unimodalities v = Ok w -> canonicalize_unimodalities w = Ok w.
Proof. rewrite !gen_unimodalities_spec. apply spec_list_idempotent. exact spec_unimodality_idem. Qed.
Lemma gen_trust_idempotent v w : canonicalize_trust v = Ok w -> canonicalize_trust w = Ok w.
Proof. rewrite !gen_trust_spec. apply spec_list_idempotent. exact spec_trust_entry_idem. Qed.
Lemma gen_input_bounds_idempotent v w : canonicalize_input_bounds v = Ok w -> canonicalize_input_bounds w = Ok w.
Proof. rewrite !gen_input_bounds_spec. apply spec_list_idempotent. exact spec_bound_item_idem. Qed.

(* totality: Ok or ValueError, nothing else *)
Definition ok_or_valueerror (r : result value) : Prop := (exists w, r = Ok w) \/ r = ValueError.
Lemma not_other r : (forall c, r <> OtherError c) -> ok_or_valueerror r.
Proof. destruct r as [w| |c]; intros H; [left; eauto|right; reflexivity|exfalso; exact (H c eq_refl)]. Qed.

Lemma gen_monotonicity_total v ad : ok_or_valueerror (canonicalize_monotonicity v ad).
Proof. apply not_other. intros c. rewrite gen_monotonicity_spec. apply spec_monotonicity_total. Qed.
Lemma gen_convexity_total v : ok_or_valueerror (canonicalize_convexity v).
Proof. apply not_other. intros c. rewrite gen_convexity_spec. apply spec_convexity_total. Qed.

Lemma forall_all {A} (P : A -> Prop) l : (forall x, P x) -> Forall P l.
Proof. intros H. induction l; constructor; auto. Qed.

Lemma gen_monotonicities_total v ad : listlike v -> ok_or_valueerror (canonicalize_monotonicities v ad).
Proof.
  intros Hl. apply not_other. intros c. rewrite gen_monotonicities_spec. apply spec_list_total; [exact Hl|].
  intros l _. apply forall_all. intros x c'. apply spec_monotonicity_total.
Qed.
Lemma gen_unimodalities_total v : listlike v -> ok_or_valueerror (canonicalize_unimodalities v).
Proof.
  intros Hl. apply not_other. intros c. rewrite gen_unimodalities_spec. apply spec_list_total; [exact Hl|].
  intros l _. apply forall_all. intros x c'. apply spec_unimodality_total.
Qed.
Lemma gen_input_bounds_total v : listlike v -> ok_or_valueerror (canonicalize_input_bounds v).
Proof.
  intros Hl. apply not_other. intros c. rewrite gen_input_bounds_spec. apply spec_list_total; [exact Hl|].
  intros l _. apply forall_all. intros x c'. apply spec_bound_item_total.
Qed.
Lemma gen_trust_total v :
  listlike v -> (forall l, py_iter v = Ok l -> Forall sized l) -> ok_or_valueerror (canonicalize_trust v).
Proof.
  intros Hl Hs. apply not_other. intros c. rewrite gen_trust_spec. apply spec_list_total; [exact Hl|].
  intros l Hi. specialize (Hs l Hi). clear Hi. induction Hs as [|x r Hx _ IH]; constructor; [|exact IH].
  intros c'. apply spec_trust_entry_total. exact Hx.
Qed.

(* where the universe ends: arguments of the wrong Python type do raise TypeError *)
Lemma gen_total_boundary :
  canonicalize_monotonicities (VInt 1) (VBool true) = OtherError "TypeError" /\
  canonicalize_unimodalities (VBool true) = OtherError "TypeError" /\
  canonicalize_trust (VList [VInt 0; VInt 1; VInt 1]) = OtherError "TypeError" /\
  canonicalize_trust (VList [VNone]) = OtherError "TypeError".
Proof. repeat split; vm_compute; reflexivity. Qed.

(* ranges *)
Lemma gen_monotonicity_range v ad w : canonicalize_monotonicity v ad = Ok w ->
  (w = VNone \/ in3 w = true) /\ (py_truthy ad = false -> py_eq w (VInt (-1)) = false).
Proof. rewrite gen_monotonicity_spec. apply spec_monotonicity_range. Qed.
Lemma gen_monotonicity_range_str s ad w : canonicalize_monotonicity (VStr s) ad = Ok w ->
  w = VInt (-1) \/ w = VInt 0 \/ w = VInt 1.
Proof.
  rewrite gen_monotonicity_spec. unfold spec_monotonicity, str_is, in3, py_in. simpl. intros H.
  split_hyp H; auto.
Qed.
Lemma gen_convexity_range v w : canonicalize_convexity v = Ok w -> w = VNone \/ in3 w = true.
Proof. rewrite gen_convexity_spec. apply spec_convexity_range. Qed.

Lemma gen_monotonicities_range v ad w : canonicalize_monotonicities v ad = Ok w ->
  w = VNone \/ exists ys, w = VList ys /\ ys <> [] /\
    Forall (fun y => (y = VNone \/ in3 y = true) /\ (py_truthy ad = false -> py_eq y (VInt (-1)) = false)) ys.
Proof.
  rewrite gen_monotonicities_spec. apply spec_list_range. intros x y. apply spec_monotonicity_range.
Qed.
Lemma gen_unimodalities_range v w : canonicalize_unimodalities v = Ok w ->
  w = VNone \/ exists ys, w = VList ys /\ ys <> [] /\ Forall (fun y => in3 y = true) ys.
Proof. rewrite gen_unimodalities_spec. apply spec_list_range. exact spec_unimodality_range. Qed.
Lemma gen_trust_range v w : canonicalize_trust v = Ok w ->
  w = VNone \/ exists ys, w = VList ys /\ ys <> [] /\ Forall canonical_trust_entry ys.
Proof. rewrite gen_trust_spec. apply spec_list_range. exact spec_trust_entry_canonical. Qed.
Lemma gen_input_bounds_range v w : canonicalize_input_bounds v = Ok w ->
  w = VNone \/ exists ys, w = VList ys /\ ys <> [] /\ Forall (fun y => is_float y = true \/ y = VNone) ys.
Proof. rewrite gen_input_bounds_spec. apply spec_list_range. exact spec_bound_item_range. Qed.

(* the D12 statement: whatever container the caller used for a trust entry
   (list after a JSON round trip, tuple, even a 3-character string), the
   canonical entry is a tuple, hence hashable *)
Lemma gen_trust_is_tuple v ys : canonicalize_trust v = Ok (VList ys) -> Forall (fun e => is_tuple e = true) ys.
Proof.
  intros H. apply gen_trust_range in H. destruct H as [H|(ys' & H & _ & Hall)]; [discriminate|].
  inversion H; subst. clear H. induction Hall as [|e r (a & b & d & -> & _) _ IH]; constructor; auto.
Qed.
Lemma gen_trust_list_entry :
  canonicalize_trust (VList [VList [VInt 0; VInt 1; VInt 1]]) = Ok (VList [VTuple [VInt 0; VInt 1; VInt 1]]) /\
  canonicalize_trust (VList [VList [VInt 0; VInt 1; VStr "Negative"]]) = Ok (VList [VTuple [VInt 0; VInt 1; VInt (-1)]]).
Proof. split; vm_compute; reflexivity. Qed.

(* count_non_zeros on canonical integer lists *)
Definition zlist (l : list Z) : value := VList (map VInt l).
Definition opt_zlist (o : option (list Z)) : value := match o with None => VNone | Some l => zlist l end.
Definition count_nz (l : list Z) : Z := Z.of_nat (List.length (filter (fun z => negb (Z.eqb z 0)) l)).
Lemma filter_nonzero_ints l :
  List.length (filter nonzero (map VInt l)) = List.length (filter (fun z => negb (Z.eqb z 0)) l).
Proof.
  induction l as [|z r IH]; [reflexivity|]. cbn [map filter]. unfold nonzero at 1. rewrite py_eq_int.
  destruct (Z.eqb z 0); simpl; congruence.
Qed.
Lemma spec_count_ints os acc :
  spec_count (map opt_zlist os) acc =
  Ok (VInt (acc + fold_right (fun o s => match o with None => 0 | Some l => count_nz l end + s) 0 os))%Z.
Proof.
  revert acc. induction os as [|o r IH]; intros acc; cbn [map spec_count fold_right].
  - rewrite Z.add_0_r. reflexivity.
  - destruct o as [l|]; unfold count_one; simpl.
    + rewrite IH. rewrite filter_nonzero_ints. unfold count_nz. f_equal. f_equal. lia.
    + rewrite IH. f_equal. f_equal. lia.
Qed.
Lemma gen_count_ints os :
  count_non_zeros (VTuple (map opt_zlist os)) =
  Ok (VInt (fold_right (fun o s => match o with None => 0 | Some l => count_nz l end + s) 0 os))%Z.
Proof. rewrite gen_count_spec, spec_count_ints. reflexivity. Qed.
