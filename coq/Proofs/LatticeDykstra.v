(* Lemmas about the model of lattice_lib.project_by_dykstra
   (Model/LatticeDykstra.v) for property C08.

   Part A  increment-sum (roll-back) invariant of dyk_step / dyk_sweep / dyk_loop,
           generic over any list of keyed maps.
   Part B  generic: maps that fix W (and respect teq) => every stored change
           stays zero and the loop returns W.
   Part C  pair_pos / partner / rv index lemmas; two generic block maps
           ([pr_op]: disjoint pairs along one axis, [sq_op]: disjoint 2x2 squares
           on two axes) with properness, feasible => fixed, and nearest-point
           ([is_proj]) theorems from local 2- / 4-point facts.
   Part D  the eight families: feasibility predicates, bridge to the generic
           maps, properness, feasible => fixed; nearest-point theorems for
           monotonicity/unimodality, Edgeworth, trapezoid, monotonic dominance
           and joint monotonicity.
   Part E  group_ops membership => C08_feasible_fixed; model-level
           fixpoint => nearest.

   NOT proved: convergence of the iterates (Boyle-Dykstra 1986); boundedness and
   summable movement of the model's iterates are in Proofs/LatticeDykstraBound.v. *)
From TFL Require Export Model.LatticeDykstra Proofs.LatticeSpecFacts Proofs.DykstraTheory.
Open Scope Q_scope.

(* ================================================================== *)
(* Part A: the last_change dictionary and the increment-sum invariant  *)
(* ================================================================== *)
Lemma key_eqb_eq a b : key_eqb a b = true <-> a = b.
Proof. revert b; induction a as [|x a IH]; intros [|y b]; cbn [key_eqb]; split; intros H; try congruence; try discriminate.
  - apply andb_prop in H. destruct H as [H1 H2]. apply Z.eqb_eq in H1. apply IH in H2. congruence.
  - inversion H; subst. rewrite Z.eqb_refl. cbn [andb]. apply IH. reflexivity. Qed.
Lemma key_eqb_refl a : key_eqb a a = true.
Proof. apply key_eqb_eq. reflexivity. Qed.
Lemma key_eqb_neq a b : a <> b -> key_eqb a b = false.
Proof. intros H. destruct (key_eqb a b) eqn:E; [|reflexivity]. apply key_eqb_eq in E. contradiction. Qed.

Definition tzero : tens := fun _ => 0.
(* sum of all stored changes at position x *)
Definition lc_sum (lc : list (key * tens)) (x : idx) : Q := qsum (map (fun e : key * tens => snd e x) lc).

Lemma lc_set_sum lc k t x : lc_sum (lc_set lc k t) x == lc_sum lc x - lc_get lc k x + t x.
Proof. unfold lc_sum, lc_get. induction lc as [|e r IH]; cbn [lc_set find map qsum].
  - cbn. lra.
  - destruct (key_eqb (fst e) k); cbn [map qsum snd]. lra. rewrite IH. lra. Qed.

Lemma lc_set_in lc k t e : In e (lc_set lc k t) -> e = (k, t) \/ In e lc.
Proof. induction lc as [|e0 r IH]; cbn [lc_set]. intros [<-|[]]; auto.
  destruct (key_eqb (fst e0) k).
  - intros [<-|H]; [left; reflexivity|right; right; assumption].
  - intros [<-|H]; [right; left; reflexivity|]. destruct (IH H); [left|right; right]; assumption. Qed.
Lemma lc_set_keys lc k t k' : In k' (map fst (lc_set lc k t)) -> k' = k \/ In k' (map fst lc).
Proof. intros H. apply in_map_iff in H. destruct H as [e [<- He]]. destruct (lc_set_in _ _ _ _ He) as [->|H].
  left; reflexivity. right. apply in_map; assumption. Qed.
Lemma lc_set_nodup lc k t : NoDup (map fst lc) -> NoDup (map fst (lc_set lc k t)).
Proof. induction lc as [|e r IH]; cbn [lc_set map]; intros H. constructor; [intros []|constructor].
  inversion H; subst. destruct (key_eqb (fst e) k) eqn:E; cbn [map fst].
  - apply key_eqb_eq in E. rewrite <- E. constructor; assumption.
  - constructor; [|apply IH; assumption]. intros Hin. destruct (lc_set_keys _ _ _ _ Hin) as [Hk|Hk].
    + rewrite Hk, key_eqb_refl in E. discriminate.
    + contradiction. Qed.

Lemma lc_get_in lc e : NoDup (map fst lc) -> In e lc -> lc_get lc (fst e) = snd e.
Proof. unfold lc_get. induction lc as [|e0 r IH]; cbn [map find]; intros Hnd Hin. destruct Hin.
  inversion Hnd; subst. destruct Hin as [->|Hin]. rewrite key_eqb_refl. reflexivity.
  destruct (key_eqb (fst e0) (fst e)) eqn:E.
  - apply key_eqb_eq in E. exfalso. apply H1. rewrite E. apply in_map; assumption.
  - apply IH; assumption. Qed.
Lemma lc_get_set_same lc k t : lc_get (lc_set lc k t) k = t.
Proof. unfold lc_get. induction lc as [|e r IH]; cbn [lc_set find fst]. rewrite key_eqb_refl. reflexivity.
  destruct (key_eqb (fst e) k) eqn:E; cbn [find fst]. rewrite key_eqb_refl. reflexivity. rewrite E. exact IH. Qed.
Lemma lc_get_set_other lc k t k' : k' <> k -> lc_get (lc_set lc k t) k' = lc_get lc k'.
Proof. intros Hne. unfold lc_get. induction lc as [|e r IH]; cbn [lc_set find fst].
  - rewrite (key_eqb_neq k k') by congruence. reflexivity.
  - destruct (key_eqb (fst e) k) eqn:E; cbn [find fst].
    + apply key_eqb_eq in E. rewrite E. rewrite (key_eqb_neq k k') by congruence. reflexivity.
    + destruct (key_eqb (fst e) k'); [reflexivity|exact IH]. Qed.
(* the sum over the stored entries is the sum of lc_get over the distinct stored keys *)
Lemma lc_sum_keys lc x : NoDup (map fst lc) ->
  lc_sum lc x = qsum (map (fun k => lc_get lc k x) (map fst lc)).
Proof. intros Hnd. unfold lc_sum. rewrite map_map. f_equal. apply map_ext_in. intros e He.
  rewrite (lc_get_in lc e Hnd He). reflexivity. Qed.

Definition dyk_inv (sh : list nat) (W0 : tens) (st : tens * list (key * tens)) : Prop :=
  NoDup (map fst (snd st)) /\ forall x, valid sh x -> fst st x == W0 x + lc_sum (snd st) x.

Lemma dyk_step_inv sh W0 st kop : dyk_inv sh W0 st -> dyk_inv sh W0 (dyk_step sh st kop).
Proof. destruct st as [W lc], kop as [k op]. intros [Hnd Hsum]. cbn [fst snd] in *. unfold dyk_step. cbv zeta. split; cbn [fst snd].
  - apply lc_set_nodup; assumption.
  - intros x Hv. rewrite lc_set_sum. rewrite (memo_ok sh _ x Hv), Qred_correct.
    rewrite (memo_ok sh _ x Hv), Qred_correct. rewrite (Hsum x Hv). ring. Qed.
Lemma dyk_sweep_inv sh W0 ops : forall st, dyk_inv sh W0 st -> dyk_inv sh W0 (dyk_sweep sh ops st).
Proof. unfold dyk_sweep. induction ops as [|kop ops IH]; intros st H; cbn [fold_left]. exact H.
  apply IH. apply dyk_step_inv; assumption. Qed.
Lemma dyk_loop_inv sh W0 ops n : forall st, dyk_inv sh W0 st -> dyk_inv sh W0 (dyk_loop sh ops n st).
Proof. induction n as [|n IH]; intros st H; cbn [dyk_loop]. exact H. apply IH. apply dyk_sweep_inv; assumption. Qed.

(* Increment-sum invariant: after any number of sweeps over any keyed maps the
   current point is the start plus the sum of the stored changes, one per
   distinct key (duplicated keys share one slot). *)
Theorem increment_sum (sh : list nat) (ops : list (key * (tens -> tens))) (n : nat) (W : tens) :
  let W' := fst (dyk_loop sh ops n (W, [])) in
  let lc := snd (dyk_loop sh ops n (W, [])) in
  NoDup (map fst lc) /\
  forall x, valid sh x -> W' x == W x + qsum (map (fun k => lc_get lc k x) (map fst lc)).
Proof. cbv zeta.
  assert (H0 : dyk_inv sh W (W, [])).
  { split; cbn [fst snd map]. constructor. intros x _. unfold lc_sum. cbn. lra. }
  destruct (dyk_loop_inv sh W ops n _ H0) as [Hnd Hsum]. split. exact Hnd.
  intros x Hv. rewrite <- lc_sum_keys by assumption. apply Hsum; assumption. Qed.

(* ================================================================== *)
(* Part B: maps that fix W                                              *)
(* ================================================================== *)
Definition op_proper (sh : list nat) (op : tens -> tens) : Prop :=
  forall W W', teq sh W W' -> teq sh (op W) (op W').
Definition op_fixes (sh : list nat) (op : tens -> tens) (W : tens) : Prop := teq sh (op W) W.

Definition fix_inv (sh : list nat) (W : tens) (st : tens * list (key * tens)) : Prop :=
  teq sh (fst st) W /\ forall e, In e (snd st) -> teq sh (snd e) tzero.

Lemma lc_get_zero sh lc k : (forall e, In e lc -> teq sh (snd e) tzero) -> teq sh (lc_get lc k) tzero.
Proof. intros H. unfold lc_get. destruct (find (fun e => key_eqb (fst e) k) lc) as [e|] eqn:E.
  apply find_some in E. apply H. apply E. apply teq_refl. Qed.

Lemma dyk_step_fix sh W st kop : op_proper sh (snd kop) -> op_fixes sh (snd kop) W ->
  fix_inv sh W st -> fix_inv sh W (dyk_step sh st kop).
Proof. destruct st as [Wc lc], kop as [k op]. cbn [snd]. intros Hp Hf [HW Hz]. cbn [fst snd] in *.
  unfold dyk_step. cbv zeta.
  assert (Hr : teq sh (memo sh (fun x => Qred (Wc x - lc_get lc k x))) W).
  { apply memo_teq_l. intros x Hv. rewrite Qred_correct. rewrite (HW x Hv).
    pose proof (lc_get_zero sh lc k Hz x Hv) as Z. unfold tzero in Z. rewrite Z. ring. }
  assert (Ho : teq sh (op (memo sh (fun x => Qred (Wc x - lc_get lc k x)))) W).
  { eapply teq_trans. apply Hp. exact Hr. exact Hf. }
  split; cbn [fst snd]. exact Ho.
  intros e He. destruct (lc_set_in _ _ _ _ He) as [->|Hin]; [|apply Hz; assumption]. cbn [snd].
  apply memo_teq_l. intros x Hv. rewrite Qred_correct. rewrite (Ho x Hv), (Hr x Hv). unfold tzero. ring. Qed.

Lemma dyk_sweep_fix sh W ops : (forall kop, In kop ops -> op_proper sh (snd kop) /\ op_fixes sh (snd kop) W) ->
  forall st, fix_inv sh W st -> fix_inv sh W (dyk_sweep sh ops st).
Proof. unfold dyk_sweep. induction ops as [|kop ops IH]; intros H st Hi; cbn [fold_left]. exact Hi.
  apply IH. intros; apply H; right; assumption.
  destruct (H kop (or_introl eq_refl)). apply dyk_step_fix; assumption. Qed.
Lemma dyk_loop_fix sh W ops n : (forall kop, In kop ops -> op_proper sh (snd kop) /\ op_fixes sh (snd kop) W) ->
  forall st, fix_inv sh W st -> fix_inv sh W (dyk_loop sh ops n st).
Proof. intros H. induction n as [|n IH]; intros st Hi; cbn [dyk_loop]. exact Hi. apply IH. apply dyk_sweep_fix; assumption. Qed.

(* If every map of the list fixes W (and respects teq) then after any number of
   sweeps the point is still W and every stored change is zero. *)
Theorem dyk_loop_fixed (sh : list nat) (ops : list (key * (tens -> tens))) (n : nat) (W : tens) :
  (forall kop, In kop ops -> op_proper sh (snd kop) /\ op_fixes sh (snd kop) W) ->
  teq sh (fst (dyk_loop sh ops n (W, []))) W /\
  forall e, In e (snd (dyk_loop sh ops n (W, []))) -> teq sh (snd e) tzero.
Proof. intros H. apply (dyk_loop_fix sh W ops n H). split; cbn [fst snd]. apply teq_refl. intros e []. Qed.

(* ================================================================== *)
(* Part C: index lemmas and the two generic block maps                  *)
(* ================================================================== *)
Lemma nodup_app {A} (a b : list A) : NoDup a -> NoDup b -> (forall x, In x a -> ~ In x b) -> NoDup (a ++ b).
Proof. induction a as [|x a IH]; intros Ha Hb H; cbn [app]. exact Hb.
  inversion Ha; subst. constructor.
  - intros Hin. apply in_app_or in Hin. destruct Hin as [Hin|Hin]. contradiction. apply (H x (or_introl eq_refl) Hin).
  - apply IH; auto. intros y Hy. apply H. right; assumption. Qed.
Lemma all_idx_nodup sh : NoDup (all_idx sh).
Proof. induction sh as [|s sh IH]; cbn [all_idx]. constructor; [intros []|constructor].
  assert (G : forall l, NoDup l -> NoDup (flat_map (fun k : nat => map (cons k) (all_idx sh)) l)).
  { induction l as [|k l IHl]; intros Hl; cbn [flat_map]. constructor. inversion Hl; subst.
    apply nodup_app.
    - apply NoDup_map_inj_in; [|exact IH]. intros x y _ _ E. inversion E; reflexivity.
    - apply IHl; assumption.
    - intros x Hx Hx'. apply in_map_iff in Hx. destruct Hx as [r [<- Hr]].
      apply in_flat_map in Hx'. destruct Hx' as [k' [Hk' Hx']]. apply in_map_iff in Hx'. destruct Hx' as [r' [E _]].
      inversion E; subst. contradiction. }
  apply G. apply seq_NoDup. Qed.

Lemma teq_veq sh f g : teq sh f g <-> veq (all_idx sh) f g.
Proof. unfold teq, veq. split; intros H i Hi; apply H; apply all_idx_valid; assumption. Qed.

(* ---- pair_pos ---- *)
Definition ofs (up : bool) (i : nat) : nat := if up then S i else i.

Lemma pair_pos_inv g n k i up : pair_pos g n k = Some (i, up) -> (k < n)%nat ->
  (S i < n)%nat /\ k = ofs up i /\ (g <= i)%nat /\ Nat.even (i - g) = true.
Proof. unfold pair_pos, ofs. intros H Hk.
  destruct ((g <=? k)%nat && Nat.even (k - g) && (S k <? n)%nat) eqn:E1.
  - inversion H; subst. apply andb_prop in E1. destruct E1 as [E1 E3]. apply andb_prop in E1. destruct E1 as [E1 E2].
    apply Nat.leb_le in E1. apply Nat.ltb_lt in E3. auto.
  - destruct ((S g <=? k)%nat && Nat.odd (k - g)) eqn:E2; [|discriminate]. inversion H; subst.
    apply andb_prop in E2. destruct E2 as [E2 E3]. apply Nat.leb_le in E2.
    replace (k - g)%nat with (S (k - 1 - g)) in E3 by lia. rewrite Nat.odd_succ in E3.
    repeat split; try lia. exact E3. Qed.
Lemma even_succ_false m : Nat.even m = true -> Nat.even (S m) = false.
Proof. intros H. rewrite Nat.even_succ. rewrite <- Nat.negb_even. rewrite H. reflexivity. Qed.
Lemma pair_pos_lo g n i : (g <= i)%nat -> Nat.even (i - g) = true -> (S i < n)%nat -> pair_pos g n i = Some (i, false).
Proof. intros H1 H2 H3. unfold pair_pos. apply Nat.leb_le in H1. apply Nat.ltb_lt in H3. rewrite H1, H2, H3. reflexivity. Qed.
Lemma pair_pos_hi g n i : (g <= i)%nat -> Nat.even (i - g) = true -> (S i < n)%nat -> pair_pos g n (S i) = Some (i, true).
Proof. intros H1 H2 H3. unfold pair_pos.
  replace (S i - g)%nat with (S (i - g)) by lia.
  rewrite (even_succ_false _ H2). rewrite andb_false_r. cbn [andb].
  rewrite Nat.odd_succ, H2. assert (E : (S g <=? S i)%nat = true) by (apply Nat.leb_le; lia). rewrite E. cbn [andb].
  replace (S i - 1)%nat with i by lia. reflexivity. Qed.
Lemma pair_pos_ofs g n i up : (g <= i)%nat -> Nat.even (i - g) = true -> (S i < n)%nat -> pair_pos g n (ofs up i) = Some (i, up).
Proof. destruct up; cbn [ofs]. apply pair_pos_hi. apply pair_pos_lo. Qed.
Lemma ofs_lt up i n : (S i < n)%nat -> (ofs up i < n)%nat.
Proof. destruct up; cbn [ofs]; lia. Qed.

(* the other element of the pair (or the coordinate itself outside every pair) *)
Definition partner (g n k : nat) : nat :=
  match pair_pos g n k with Some (i, up) => ofs (negb up) i | None => k end.
Lemma partner_some g n k i up : pair_pos g n k = Some (i, up) -> partner g n k = ofs (negb up) i.
Proof. unfold partner. intros ->. reflexivity. Qed.
Lemma partner_none g n k : pair_pos g n k = None -> partner g n k = k.
Proof. unfold partner. intros ->. reflexivity. Qed.
Lemma partner_lt g n k : (k < n)%nat -> (partner g n k < n)%nat.
Proof. intros Hk. unfold partner. destruct (pair_pos g n k) as [[i up]|] eqn:E; [|exact Hk].
  destruct (pair_pos_inv _ _ _ _ _ E Hk) as (H1 & _). apply ofs_lt. exact H1. Qed.
Lemma partner_invol g n k : (k < n)%nat -> partner g n (partner g n k) = k.
Proof. intros Hk. destruct (pair_pos g n k) as [[i up]|] eqn:E.
  - destruct (pair_pos_inv _ _ _ _ _ E Hk) as (H1 & H2 & H3 & H4).
    rewrite (partner_some _ _ _ _ _ E). rewrite (partner_some g n _ i (negb up)) by (apply pair_pos_ofs; assumption).
    rewrite negb_involutive. symmetry; exact H2.
  - rewrite (partner_none _ _ _ E). apply partner_none. exact E. Qed.

(* reversed axis *)
Lemma rv_lt dir sc j : (j < sc)%nat -> (rv dir sc j < sc)%nat.
Proof. unfold rv. destruct (dir <? 0)%Z; lia. Qed.
Lemma rv_invol dir sc j : (j < sc)%nat -> rv dir sc (rv dir sc j) = j.
Proof. unfold rv. destruct (dir <? 0)%Z; lia. Qed.

(* the local term of the variational inequality at one position *)
Definition vterm (y z Py : tens) (x : idx) : Q := (y x - Py x) * (z x - Py x).
Lemma vterm_zero y z Py x : Py x = y x -> vterm y z Py x == 0.
Proof. intros E. unfold vterm. rewrite E. ring. Qed.
Lemma ip_vterm sh y z Py : ip (all_idx sh) (vsub y Py) (vsub z Py) = qsum (map (vterm y z Py) (all_idx sh)).
Proof. reflexivity. Qed.

(* ------------------------------------------------------------------ *)
(* Generic map on disjoint pairs (i, i+1), i = g, g+2, ..., of the axis d,
   read through an involution r of the axis (identity or reversal).  The new
   value at a position is a function F of the context position (only its
   coordinates other than d may matter), the pair index and the two old values. *)
Section PairOp.
Variables (sh : list nat) (d g : nat) (r : nat -> nat).
Notation n := (nth d sh 0%nat).
Hypothesis Hd : (d < length sh)%nat.
Hypothesis r_lt : forall j, (j < n)%nat -> (r j < n)%nat.
Hypothesis r_inv : forall j, (j < n)%nat -> r (r j) = j.
Variable F : idx -> nat -> Q -> Q -> bool -> Q.
Hypothesis F_ctx : forall x k i lo hi up, F (upd x d k) i lo hi up = F x i lo hi up.
Hypothesis F_proper : forall x i lo hi lo' hi' up, lo == lo' -> hi == hi' -> F x i lo hi up == F x i lo' hi' up.

Definition pr_op (W : tens) : tens := memo sh (fun x =>
  match pair_pos g n (r (nth d x 0%nat)) with
  | Some (i, up) => F x i (W (upd x d (r i))) (W (upd x d (r (S i)))) up
  | None => W x
  end).

Lemma pr_facts x i up : valid sh x -> pair_pos g n (r (nth d x 0%nat)) = Some (i, up) ->
  (S i < n)%nat /\ (g <= i)%nat /\ Nat.even (i - g) = true /\ nth d x 0%nat = r (ofs up i).
Proof. intros Hv Ep. pose proof (valid_nth sh x d Hv Hd) as Hk.
  destruct (pair_pos_inv _ _ _ _ _ Ep (r_lt _ Hk)) as (H1 & H2 & H3 & H4).
  repeat split; try assumption. rewrite <- H2. symmetry. apply r_inv. exact Hk. Qed.

Lemma pr_op_proper : op_proper sh pr_op.
Proof. intros W W' E. unfold pr_op. apply memo_teq_ext. intros x Hv.
  destruct (pair_pos g n (r (nth d x 0%nat))) as [[i up]|] eqn:Ep; [|apply E; assumption].
  destruct (pr_facts x i up Hv Ep) as (H1 & H2 & H3 & H4).
  apply F_proper; apply E; apply upd_valid; try assumption; apply r_lt; lia. Qed.

Lemma pr_op_at W b i up : valid sh b -> (g <= i)%nat -> Nat.even (i - g) = true -> (S i < n)%nat ->
  pr_op W (upd b d (r (ofs up i))) = F b i (W (upd b d (r i))) (W (upd b d (r (S i)))) up.
Proof. intros Hv H1 H2 H3. unfold pr_op.
  assert (Ho : (ofs up i < n)%nat) by (apply ofs_lt; assumption).
  rewrite memo_ok by (apply upd_valid; [assumption|apply r_lt; assumption]).
  rewrite nth_upd_same by (rewrite (valid_length sh b Hv); exact Hd).
  rewrite r_inv by assumption. rewrite pair_pos_ofs by assumption.
  rewrite F_ctx, !upd_upd. reflexivity. Qed.
Lemma pr_op_at_lo W b i : valid sh b -> (g <= i)%nat -> Nat.even (i - g) = true -> (S i < n)%nat ->
  pr_op W (upd b d (r i)) = F b i (W (upd b d (r i))) (W (upd b d (r (S i)))) false.
Proof. apply (pr_op_at W b i false). Qed.
Lemma pr_op_at_hi W b i : valid sh b -> (g <= i)%nat -> Nat.even (i - g) = true -> (S i < n)%nat ->
  pr_op W (upd b d (r (S i))) = F b i (W (upd b d (r i))) (W (upd b d (r (S i)))) true.
Proof. apply (pr_op_at W b i true). Qed.
Lemma pr_op_off W x : valid sh x -> pair_pos g n (r (nth d x 0%nat)) = None -> pr_op W x = W x.
Proof. intros Hv Ep. unfold pr_op. rewrite memo_ok by assumption. rewrite Ep. reflexivity. Qed.

(* the constraint set of the group: a local condition on every pair *)
Variable Cloc : idx -> nat -> Q -> Q -> Prop.
Definition pr_ok (W : tens) : Prop :=
  forall b i, valid sh b -> (g <= i)%nat -> Nat.even (i - g) = true -> (S i < n)%nat ->
    Cloc b i (W (upd b d (r i))) (W (upd b d (r (S i)))).

Hypothesis F_fix : forall x i lo hi up, Cloc x i lo hi -> F x i lo hi up == (if up then hi else lo).

Lemma pr_op_fixed W : pr_ok W -> teq sh (pr_op W) W.
Proof. intros Hok x Hv. unfold pr_op. rewrite memo_ok by assumption.
  destruct (pair_pos g n (r (nth d x 0%nat))) as [[i up]|] eqn:Ep; [|reflexivity].
  destruct (pr_facts x i up Hv Ep) as (H1 & H2 & H3 & H4).
  rewrite F_fix by (apply Hok; assumption).
  destruct up; cbn [ofs] in H4; rewrite (upd_eq_self x d _ H4); reflexivity. Qed.

Hypothesis F_in : forall x i lo hi, Cloc x i (F x i lo hi false) (F x i lo hi true).
Hypothesis F_vi : forall x i lo hi zlo zhi, Cloc x i zlo zhi ->
  (lo - F x i lo hi false) * (zlo - F x i lo hi false) + (hi - F x i lo hi true) * (zhi - F x i lo hi true) <= 0.

Definition pr_sigma (x : idx) : idx := upd x d (r (partner g n (r (nth d x 0%nat)))).
Lemma pr_sigma_valid x : valid sh x -> valid sh (pr_sigma x).
Proof. intros Hv. apply upd_valid. assumption. apply r_lt, partner_lt, r_lt. apply valid_nth; assumption. Qed.
Lemma pr_sigma_invol x : valid sh x -> pr_sigma (pr_sigma x) = x.
Proof. intros Hv. pose proof (valid_nth sh x d Hv Hd) as Hk. unfold pr_sigma.
  rewrite nth_upd_same by (rewrite (valid_length sh x Hv); exact Hd).
  rewrite r_inv by (apply partner_lt, r_lt; exact Hk).
  rewrite partner_invol by (apply r_lt; exact Hk). rewrite r_inv by exact Hk.
  rewrite upd_upd. apply upd_self. Qed.

Lemma pr_local y z x : valid sh x -> pr_ok z ->
  vterm y z (pr_op y) x + vterm y z (pr_op y) (pr_sigma x) <= 0.
Proof. intros Hv Hz. pose proof (valid_nth sh x d Hv Hd) as Hk.
  destruct (pair_pos g n (r (nth d x 0%nat))) as [[i up]|] eqn:Ep.
  - destruct (pr_facts x i up Hv Ep) as (H1 & H2 & H3 & H4).
    assert (Es : pr_sigma x = upd x d (r (ofs (negb up) i))).
    { unfold pr_sigma. rewrite (partner_some _ _ _ _ _ Ep). reflexivity. }
    rewrite Es.
    pose proof (pr_op_at_lo y x i Hv H2 H3 H1) as Elo.
    pose proof (pr_op_at_hi y x i Hv H2 H3 H1) as Ehi.
    pose proof (F_vi x i (y (upd x d (r i))) (y (upd x d (r (S i)))) _ _ (Hz x i Hv H2 H3 H1)) as HV.
    assert (Ex : upd x d (r (ofs up i)) = x) by (apply upd_eq_self; exact H4).
    unfold vterm. destruct up; cbn [ofs negb] in *.
    + rewrite Ex in Elo, Ehi, HV. rewrite Elo, Ehi. lra.
    + rewrite Ex in Elo, Ehi, HV. rewrite Elo, Ehi. lra.
  - assert (Es : pr_sigma x = x).
    { unfold pr_sigma. rewrite (partner_none _ _ _ Ep). rewrite r_inv by exact Hk. apply upd_self. }
    rewrite Es. rewrite (vterm_zero y z (pr_op y) x) by (apply pr_op_off; assumption). lra. Qed.

Theorem pr_op_is_proj : is_proj (all_idx sh) pr_ok pr_op.
Proof. intros y. split.
  - intros b i Hb H1 H2 H3. rewrite (pr_op_at_lo y b i Hb H1 H2 H3), (pr_op_at_hi y b i Hb H1 H2 H3). apply F_in.
  - intros z Hz. rewrite ip_vterm. apply (sum_sym2_nonpos (all_idx sh) pr_sigma).
    + apply all_idx_nodup.
    + intros i Hi. apply all_idx_valid. apply pr_sigma_valid. apply all_idx_valid; assumption.
    + intros i Hi. apply pr_sigma_invol. apply all_idx_valid; assumption.
    + intros i Hi. apply pr_local. apply all_idx_valid; assumption. exact Hz. Qed.
End PairOp.

(* ------------------------------------------------------------------ *)
(* Generic map on disjoint 2x2 squares {i,i+1} x {j,j+1} (i = g0, g0+2, ...;
   j = g1, g1+2, ... read through the involution r) of the axes p, q.  The new
   value at corner (pa, pb) is F of the four old corner values
   (00, 10, 01, 11 = (i,j), (i+1,j), (i,j+1), (i+1,j+1)). *)
Definition corner (a00 a10 a01 a11 : Q) (pa pb : bool) : Q :=
  if pa then (if pb then a11 else a10) else (if pb then a01 else a00).

Lemma upd_as_at2_p x p q I J : p <> q -> nth q x 0%nat = J -> upd x p I = at2 x p q I J.
Proof. intros Hne HJ. unfold at2. symmetry. apply upd_eq_self. rewrite nth_upd_other by auto. exact HJ. Qed.
Lemma upd_as_at2_q x p q I J : nth p x 0%nat = I -> upd x q J = at2 x p q I J.
Proof. intros HI. unfold at2. rewrite (upd_eq_self x p I HI). reflexivity. Qed.

Section SquareOp.
Variables (sh : list nat) (p q g0 g1 : nat) (r : nat -> nat).
Notation sp := (nth p sh 0%nat).
Notation sq := (nth q sh 0%nat).
Hypothesis Hpq : p <> q.
Hypothesis Hp : (p < length sh)%nat.
Hypothesis Hq : (q < length sh)%nat.
Hypothesis r_lt : forall j, (j < sq)%nat -> (r j < sq)%nat.
Hypothesis r_inv : forall j, (j < sq)%nat -> r (r j) = j.
Variable F : Q -> Q -> Q -> Q -> bool -> bool -> Q.
Hypothesis F_proper : forall a b c e a' b' c' e' pa pb,
  a == a' -> b == b' -> c == c' -> e == e' -> F a b c e pa pb == F a' b' c' e' pa pb.

Definition sq_op (W : tens) : tens := memo sh (fun x =>
  match pair_pos g0 sp (nth p x 0%nat), pair_pos g1 sq (r (nth q x 0%nat)) with
  | Some (i, pa), Some (j, pb) =>
      F (W (at2 x p q i (r j))) (W (at2 x p q (S i) (r j)))
        (W (at2 x p q i (r (S j)))) (W (at2 x p q (S i) (r (S j)))) pa pb
  | _, _ => W x
  end).

Lemma sq_facts x i pa j pb : valid sh x ->
  pair_pos g0 sp (nth p x 0%nat) = Some (i, pa) -> pair_pos g1 sq (r (nth q x 0%nat)) = Some (j, pb) ->
  ((S i < sp)%nat /\ (g0 <= i)%nat /\ Nat.even (i - g0) = true /\ nth p x 0%nat = ofs pa i) /\
  ((S j < sq)%nat /\ (g1 <= j)%nat /\ Nat.even (j - g1) = true /\ nth q x 0%nat = r (ofs pb j)).
Proof. intros Hv E1 E2. pose proof (valid_nth sh x p Hv Hp) as Hk1. pose proof (valid_nth sh x q Hv Hq) as Hk2.
  destruct (pair_pos_inv _ _ _ _ _ E1 Hk1) as (A1 & A2 & A3 & A4).
  destruct (pair_pos_inv _ _ _ _ _ E2 (r_lt _ Hk2)) as (B1 & B2 & B3 & B4).
  repeat split; try assumption. rewrite <- B2. symmetry. apply r_inv. exact Hk2. Qed.

Lemma sq_op_proper : op_proper sh sq_op.
Proof. intros W W' E. unfold sq_op. apply memo_teq_ext. intros x Hv.
  destruct (pair_pos g0 sp (nth p x 0%nat)) as [[i pa]|] eqn:E1; [|apply E; assumption].
  destruct (pair_pos g1 sq (r (nth q x 0%nat))) as [[j pb]|] eqn:E2; [|apply E; assumption].
  destruct (sq_facts x i pa j pb Hv E1 E2) as [(A1 & A2 & A3 & A4) (B1 & B2 & B3 & B4)].
  apply F_proper; apply E; apply at2_valid; try assumption; try lia; apply r_lt; lia. Qed.

Lemma sq_op_at W b i j pa pb : valid sh b ->
  (g0 <= i)%nat -> Nat.even (i - g0) = true -> (S i < sp)%nat ->
  (g1 <= j)%nat -> Nat.even (j - g1) = true -> (S j < sq)%nat ->
  sq_op W (at2 b p q (ofs pa i) (r (ofs pb j))) =
  F (W (at2 b p q i (r j))) (W (at2 b p q (S i) (r j)))
    (W (at2 b p q i (r (S j)))) (W (at2 b p q (S i) (r (S j)))) pa pb.
Proof. intros Hv A1 A2 A3 B1 B2 B3. unfold sq_op.
  assert (Ho1 : (ofs pa i < sp)%nat) by (apply ofs_lt; assumption).
  assert (Ho2 : (ofs pb j < sq)%nat) by (apply ofs_lt; assumption).
  rewrite memo_ok by (apply at2_valid; [assumption|assumption|apply r_lt; assumption]).
  rewrite at2_nth_m by (try assumption; rewrite (valid_length sh b Hv); assumption).
  rewrite at2_nth_c by (rewrite (valid_length sh b Hv); assumption).
  rewrite r_inv by assumption. rewrite !pair_pos_ofs by assumption.
  rewrite !at2_at2 by assumption. reflexivity. Qed.
Lemma sq_op_at4 W b i j : valid sh b ->
  (g0 <= i)%nat -> Nat.even (i - g0) = true -> (S i < sp)%nat ->
  (g1 <= j)%nat -> Nat.even (j - g1) = true -> (S j < sq)%nat ->
  let a := W (at2 b p q i (r j)) in let b' := W (at2 b p q (S i) (r j)) in
  let c := W (at2 b p q i (r (S j))) in let e := W (at2 b p q (S i) (r (S j))) in
  sq_op W (at2 b p q i (r j)) = F a b' c e false false /\
  sq_op W (at2 b p q (S i) (r j)) = F a b' c e true false /\
  sq_op W (at2 b p q i (r (S j))) = F a b' c e false true /\
  sq_op W (at2 b p q (S i) (r (S j))) = F a b' c e true true.
Proof. intros Hv A1 A2 A3 B1 B2 B3. cbv zeta. repeat split.
  apply (sq_op_at W b i j false false); assumption. apply (sq_op_at W b i j true false); assumption.
  apply (sq_op_at W b i j false true); assumption. apply (sq_op_at W b i j true true); assumption. Qed.
Lemma sq_op_off W x : valid sh x ->
  pair_pos g0 sp (nth p x 0%nat) = None \/ pair_pos g1 sq (r (nth q x 0%nat)) = None -> sq_op W x = W x.
Proof. intros Hv Ep. unfold sq_op. rewrite memo_ok by assumption.
  destruct Ep as [Ep|Ep]; rewrite Ep; [reflexivity|]. destruct (pair_pos g0 sp (nth p x 0%nat)) as [[i pa]|]; reflexivity. Qed.

Variable Cloc : Q -> Q -> Q -> Q -> Prop.
Definition sq_ok (W : tens) : Prop :=
  forall b i j, valid sh b ->
    (g0 <= i)%nat -> Nat.even (i - g0) = true -> (S i < sp)%nat ->
    (g1 <= j)%nat -> Nat.even (j - g1) = true -> (S j < sq)%nat ->
    Cloc (W (at2 b p q i (r j))) (W (at2 b p q (S i) (r j))) (W (at2 b p q i (r (S j)))) (W (at2 b p q (S i) (r (S j)))).

Hypothesis F_fix : forall a b c e pa pb, Cloc a b c e -> F a b c e pa pb == corner a b c e pa pb.

Lemma sq_op_fixed W : sq_ok W -> teq sh (sq_op W) W.
Proof. intros Hok x Hv. unfold sq_op. rewrite memo_ok by assumption.
  destruct (pair_pos g0 sp (nth p x 0%nat)) as [[i pa]|] eqn:E1; [|reflexivity].
  destruct (pair_pos g1 sq (r (nth q x 0%nat))) as [[j pb]|] eqn:E2; [|reflexivity].
  destruct (sq_facts x i pa j pb Hv E1 E2) as [(A1 & A2 & A3 & A4) (B1 & B2 & B3 & B4)].
  rewrite F_fix by (apply Hok; assumption).
  assert (Ex : at2 x p q (ofs pa i) (r (ofs pb j)) = x) by (apply at2_eq_self; assumption).
  rewrite <- Ex at 5. unfold corner. destruct pa, pb; cbn [ofs]; reflexivity. Qed.

Hypothesis F_in : forall a b c e, Cloc (F a b c e false false) (F a b c e true false) (F a b c e false true) (F a b c e true true).
Hypothesis F_vi : forall a b c e za zb zc ze, Cloc za zb zc ze ->
  (a - F a b c e false false) * (za - F a b c e false false) + (b - F a b c e true false) * (zb - F a b c e true false) +
  ((c - F a b c e false true) * (zc - F a b c e false true) + (e - F a b c e true true) * (ze - F a b c e true true)) <= 0.

Definition sq_s1 (x : idx) : idx := upd x p (partner g0 sp (nth p x 0%nat)).
Definition sq_s2 (x : idx) : idx := upd x q (r (partner g1 sq (r (nth q x 0%nat)))).
Lemma sq_s1_valid x : valid sh x -> valid sh (sq_s1 x).
Proof. intros Hv. apply upd_valid. assumption. apply partner_lt. apply valid_nth; assumption. Qed.
Lemma sq_s2_valid x : valid sh x -> valid sh (sq_s2 x).
Proof. intros Hv. apply upd_valid. assumption. apply r_lt, partner_lt, r_lt. apply valid_nth; assumption. Qed.
Lemma sq_s1_invol x : valid sh x -> sq_s1 (sq_s1 x) = x.
Proof. intros Hv. pose proof (valid_nth sh x p Hv Hp) as Hk. unfold sq_s1.
  rewrite nth_upd_same by (rewrite (valid_length sh x Hv); exact Hp).
  rewrite partner_invol by exact Hk. rewrite upd_upd. apply upd_self. Qed.
Lemma sq_s2_invol x : valid sh x -> sq_s2 (sq_s2 x) = x.
Proof. intros Hv. pose proof (valid_nth sh x q Hv Hq) as Hk. unfold sq_s2.
  rewrite nth_upd_same by (rewrite (valid_length sh x Hv); exact Hq).
  rewrite r_inv by (apply partner_lt, r_lt; exact Hk).
  rewrite partner_invol by (apply r_lt; exact Hk). rewrite r_inv by exact Hk.
  rewrite upd_upd. apply upd_self. Qed.

(* the local inequality on one square, base form *)
Lemma sq_local_base y z b i j : valid sh b -> sq_ok z ->
  (g0 <= i)%nat -> Nat.even (i - g0) = true -> (S i < sp)%nat ->
  (g1 <= j)%nat -> Nat.even (j - g1) = true -> (S j < sq)%nat ->
  vterm y z (sq_op y) (at2 b p q i (r j)) + vterm y z (sq_op y) (at2 b p q (S i) (r j)) +
  (vterm y z (sq_op y) (at2 b p q i (r (S j))) + vterm y z (sq_op y) (at2 b p q (S i) (r (S j)))) <= 0.
Proof. intros Hv Hz A1 A2 A3 B1 B2 B3. unfold vterm.
  destruct (sq_op_at4 y b i j Hv A1 A2 A3 B1 B2 B3) as (E1 & E2 & E3 & E4). rewrite E1, E2, E3, E4.
  apply F_vi. apply Hz; assumption. Qed.

Lemma sq_local y z x : valid sh x -> sq_ok z ->
  (vterm y z (sq_op y) x + vterm y z (sq_op y) (sq_s1 x)) +
  (vterm y z (sq_op y) (sq_s2 x) + vterm y z (sq_op y) (sq_s1 (sq_s2 x))) <= 0.
Proof. intros Hv Hz.
  pose proof (valid_nth sh x p Hv Hp) as Hk1. pose proof (valid_nth sh x q Hv Hq) as Hk2.
  assert (Hp2 : nth p (sq_s2 x) 0%nat = nth p x 0%nat) by (unfold sq_s2; apply nth_upd_other; auto).
  assert (Hq1 : forall x', nth q (sq_s1 x') 0%nat = nth q x' 0%nat) by (intros x'; unfold sq_s1; apply nth_upd_other; auto).
  destruct (pair_pos g0 sp (nth p x 0%nat)) as [[i pa]|] eqn:E1.
  destruct (pair_pos g1 sq (r (nth q x 0%nat))) as [[j pb]|] eqn:E2.
  - destruct (sq_facts x i pa j pb Hv E1 E2) as [(A1 & A2 & A3 & A4) (B1 & B2 & B3 & B4)].
    assert (P1 : partner g0 sp (nth p x 0%nat) = ofs (negb pa) i) by (apply partner_some; assumption).
    assert (Q1 : partner g1 sq (r (nth q x 0%nat)) = ofs (negb pb) j) by (apply partner_some; assumption).
    assert (Ex : at2 x p q (ofs pa i) (r (ofs pb j)) = x) by (apply at2_eq_self; assumption).
    assert (Es1 : sq_s1 x = at2 x p q (ofs (negb pa) i) (r (ofs pb j))).
    { unfold sq_s1. rewrite P1. apply upd_as_at2_p; assumption. }
    assert (Es2 : sq_s2 x = at2 x p q (ofs pa i) (r (ofs (negb pb) j))).
    { unfold sq_s2. rewrite Q1. apply upd_as_at2_q; assumption. }
    assert (Es12 : sq_s1 (sq_s2 x) = at2 x p q (ofs (negb pa) i) (r (ofs (negb pb) j))).
    { unfold sq_s1. rewrite Hp2, P1. unfold sq_s2. rewrite Q1. unfold at2. apply upd_comm. auto. }
    pose proof (sq_local_base y z x i j Hv Hz A2 A3 A1 B2 B3 B1) as HL.
    rewrite Es12, Es1, Es2. destruct pa, pb; cbn [ofs negb] in *; rewrite Ex in HL; lra.
  - assert (Es2 : sq_s2 x = x).
    { unfold sq_s2. rewrite (partner_none _ _ _ E2). rewrite r_inv by exact Hk2. apply upd_self. }
    rewrite Es2.
    rewrite (vterm_zero y z (sq_op y) x) by (apply sq_op_off; auto).
    rewrite (vterm_zero y z (sq_op y) (sq_s1 x)) by (apply sq_op_off; [apply sq_s1_valid; assumption|right; rewrite Hq1; exact E2]).
    lra.
  - assert (Es1 : forall x', nth p x' 0%nat = nth p x 0%nat -> sq_s1 x' = x').
    { intros x' Hx'. unfold sq_s1. rewrite Hx'. rewrite (partner_none _ _ _ E1). apply upd_eq_self. exact Hx'. }
    rewrite (Es1 x eq_refl), (Es1 (sq_s2 x) Hp2).
    rewrite (vterm_zero y z (sq_op y) x) by (apply sq_op_off; auto).
    rewrite (vterm_zero y z (sq_op y) (sq_s2 x)) by (apply sq_op_off; [apply sq_s2_valid; assumption|left; rewrite Hp2; exact E1]).
    lra. Qed.

Theorem sq_op_is_proj : is_proj (all_idx sh) sq_ok sq_op.
Proof. intros y. split.
  - intros b i j Hb A1 A2 A3 B1 B2 B3.
    destruct (sq_op_at4 y b i j Hb A1 A2 A3 B1 B2 B3) as (E1 & E2 & E3 & E4). rewrite E1, E2, E3, E4. apply F_in.
  - intros z Hz. rewrite ip_vterm. apply (sum_sym4_nonpos (all_idx sh) sq_s1 sq_s2).
    + apply all_idx_nodup.
    + intros i Hi. apply all_idx_valid. apply sq_s1_valid. apply all_idx_valid; assumption.
    + intros i Hi. apply sq_s1_invol. apply all_idx_valid; assumption.
    + intros i Hi. apply all_idx_valid. apply sq_s2_valid. apply all_idx_valid; assumption.
    + intros i Hi. apply sq_s2_invol. apply all_idx_valid; assumption.
    + intros i Hi. apply sq_local. apply all_idx_valid; assumption. exact Hz. Qed.
End SquareOp.

(* transfer along pointwise equality of maps; closure of the block sets under teq *)
Lemma is_proj_ext sh (C : tens -> Prop) (P P' : tens -> tens) :
  (forall y, teq sh (P' y) (P y)) -> (forall f g, teq sh f g -> C f -> C g) ->
  is_proj (all_idx sh) C P -> is_proj (all_idx sh) C P'.
Proof. intros HE HC HP y. destruct (HP y) as [H1 H2]. split.
  - apply (HC (P y)). apply teq_sym, HE. exact H1.
  - intros z Hz.
    rewrite (ip_ext (all_idx sh) (vsub y (P' y)) (vsub y (P y)) (vsub z (P' y)) (vsub z (P y))).
    + apply H2; assumption.
    + apply vsub_veq. apply veq_refl. apply teq_veq, HE.
    + apply vsub_veq. apply veq_refl. apply teq_veq, HE. Qed.

Lemma pr_ok_teq sh d g r (Cloc : idx -> nat -> Q -> Q -> Prop) :
  (d < length sh)%nat -> (forall j, (j < nth d sh 0)%nat -> (r j < nth d sh 0)%nat) ->
  (forall x i lo hi lo' hi', lo == lo' -> hi == hi' -> Cloc x i lo hi -> Cloc x i lo' hi') ->
  forall f f', teq sh f f' -> pr_ok sh d g r Cloc f -> pr_ok sh d g r Cloc f'.
Proof. intros Hd r_lt HC f f' E Hok b i Hb H1 H2 H3.
  apply (HC b i (f (upd b d (r i))) (f (upd b d (r (S i))))).
  - apply E. apply upd_valid. assumption. apply r_lt. lia.
  - apply E. apply upd_valid. assumption. apply r_lt. lia.
  - apply Hok; assumption. Qed.
Lemma sq_ok_teq sh p q g0 g1 r (Cloc : Q -> Q -> Q -> Q -> Prop) :
  (forall j, (j < nth q sh 0)%nat -> (r j < nth q sh 0)%nat) ->
  (forall a b c e a' b' c' e', a == a' -> b == b' -> c == c' -> e == e' -> Cloc a b c e -> Cloc a' b' c' e') ->
  forall f f', teq sh f f' -> sq_ok sh p q g0 g1 r Cloc f -> sq_ok sh p q g0 g1 r Cloc f'.
Proof. intros r_lt HC f f' E Hok b i j Hb A1 A2 A3 B1 B2 B3.
  apply (HC (f (at2 b p q i (r j))) (f (at2 b p q (S i) (r j))) (f (at2 b p q i (r (S j)))) (f (at2 b p q (S i) (r (S j)))));
    try (apply E; apply at2_valid; [assumption|lia|apply r_lt; lia]).
  apply Hok; assumption. Qed.

Lemma id_lt (n : nat) : forall j, (j < n)%nat -> ((fun k : nat => k) j < n)%nat.
Proof. intros j H. exact H. Qed.
Lemma id_inv (n : nat) : forall j, (j < n)%nat -> (fun k : nat => k) ((fun k : nat => k) j) = j.
Proof. intros j _. reflexivity. Qed.

(* ================================================================== *)
(* Part D: the families                                                 *)
(* ================================================================== *)

(* ---- D1: monotonicity / unimodality ---- *)
(* the code's direction rule for unimodality: pairs with lower index i < size/2
   form the first part *)
Definition uni_inc (uni : Z) (n i : nat) : bool :=
  let first := (i <? n / 2)%nat in ((uni =? -1)%Z && first) || ((uni =? 1)%Z && negb first).
Definition unimodal_along (sh : list nat) (uni : Z) (d : nat) (f : tens) : Prop :=
  forall i, valid sh i -> (S (nth d i 0%nat) < nth d sh 0%nat)%nat ->
    if uni_inc uni (nth d sh 0%nat) (nth d i 0%nat)
    then f i <= f (upd i d (S (nth d i 0%nat))) else f (upd i d (S (nth d i 0%nat))) <= f i.

Definition pair_lo (mono uni : Z) (inc : bool) (lo hi : Q) : Q :=
  let avg := (lo + hi) * (1#2) in
  let lo1 := if (mono =? 1)%Z then qmin lo avg else lo in
  if (uni =? 0)%Z then lo1 else if inc then qmin lo1 avg else qmax lo1 avg.
Definition pair_hi (mono uni : Z) (inc : bool) (lo hi : Q) : Q :=
  let avg := (lo + hi) * (1#2) in
  let hi1 := if (mono =? 1)%Z then qmax hi avg else hi in
  if (uni =? 0)%Z then hi1 else if inc then qmax hi1 avg else qmin hi1 avg.
Definition mono_F (mono uni : Z) (n : nat) (x : idx) (i : nat) (lo hi : Q) (up : bool) : Q :=
  if up then pair_hi mono uni (uni_inc uni n i) lo hi else pair_lo mono uni (uni_inc uni n i) lo hi.
(* the local constraint on the pair (i, i+1) *)
Definition mono_C (mono uni : Z) (n : nat) (x : idx) (i : nat) (lo hi : Q) : Prop :=
  (mono = 1%Z -> lo <= hi) /\ (uni <> 0%Z -> if uni_inc uni n i then lo <= hi else hi <= lo).
(* the constraint set of the group (d, g): every pair (i, i+1), i = g, g+2, ..., at
   every position of the other axes, is ordered as required *)
Definition mono_group_ok (sh : list nat) (mono uni : Z) (d g : nat) : tens -> Prop :=
  pr_ok sh d g (fun k => k) (mono_C mono uni (nth d sh 0%nat)).

Ltac mono_cases mono uni n i :=
  destruct (Z.eqb_spec mono 1); destruct (Z.eqb_spec uni 0); destruct (uni_inc uni n i); cbv beta iota zeta.

Lemma mono_F_proper mono uni n x i lo hi lo' hi' up : lo == lo' -> hi == hi' ->
  mono_F mono uni n x i lo hi up == mono_F mono uni n x i lo' hi' up.
Proof. intros H1 H2. unfold mono_F, pair_lo, pair_hi. cbv zeta.
  destruct up; destruct (mono =? 1)%Z; destruct (uni =? 0)%Z; destruct (uni_inc uni n i); try rewrite H1; try rewrite H2; reflexivity. Qed.
Lemma mono_C_proper mono uni n x i lo hi lo' hi' : lo == lo' -> hi == hi' ->
  mono_C mono uni n x i lo hi -> mono_C mono uni n x i lo' hi'.
Proof. intros H1 H2 [A B]. split. intros E; specialize (A E); lra.
  intros E; specialize (B E). destruct (uni_inc uni n i); lra. Qed.
Lemma mono_F_fix mono uni n x i lo hi up : mono_C mono uni n x i lo hi ->
  mono_F mono uni n x i lo hi up == (if up then hi else lo).
Proof. intros [A B]. unfold mono_F, pair_lo, pair_hi.
  mono_cases mono uni n i; try (specialize (A ltac:(assumption))); try (specialize (B ltac:(assumption)));
    cbv beta iota in *; destruct up; qcases; lra. Qed.
Lemma mono_F_in mono uni n x i lo hi :
  mono_C mono uni n x i (mono_F mono uni n x i lo hi false) (mono_F mono uni n x i lo hi true).
Proof. unfold mono_C, mono_F, pair_lo, pair_hi. split; intros E;
  mono_cases mono uni n i; try contradiction; qcases; lra. Qed.
Lemma mono_F_vi mono uni n x i lo hi zlo zhi : mono_C mono uni n x i zlo zhi ->
  (lo - mono_F mono uni n x i lo hi false) * (zlo - mono_F mono uni n x i lo hi false) +
  (hi - mono_F mono uni n x i lo hi true) * (zhi - mono_F mono uni n x i lo hi true) <= 0.
Proof. intros [A B]. unfold mono_F, pair_lo, pair_hi.
  mono_cases mono uni n i; try (specialize (A ltac:(assumption))); try (specialize (B ltac:(assumption)));
    cbv beta iota in *; qcases; first [nra | (assert (E : hi == lo) by lra; rewrite E; nra)]. Qed.

Lemma mono_group_bridge sh mono uni d g W :
  teq sh (mono_group sh mono uni d g W) (pr_op sh d g (fun k => k) (mono_F mono uni (nth d sh 0%nat)) W).
Proof. unfold mono_group, pr_op. cbv zeta. apply memo_teq_ext. intros x Hv.
  destruct (pair_pos g (nth d sh 0%nat) (nth d x 0%nat)) as [[i up]|]; [|reflexivity].
  rewrite Qred_correct. unfold mono_F, pair_lo, pair_hi, uni_inc. destruct up; reflexivity. Qed.

Lemma mono_group_proper sh mono uni d g : (d < length sh)%nat -> op_proper sh (mono_group sh mono uni d g).
Proof. intros Hd W W' E.
  eapply teq_trans. apply mono_group_bridge. eapply teq_trans; [|apply teq_sym, mono_group_bridge].
  apply (pr_op_proper sh d g (fun k => k) Hd (id_lt _) (id_inv _)). intros; apply mono_F_proper; assumption. exact E. Qed.

Lemma mono_feasible_group_ok sh mono uni d g W : (d < length sh)%nat ->
  (mono = 1%Z -> mono_along sh d W) -> (uni <> 0%Z -> unimodal_along sh uni d W) ->
  mono_group_ok sh mono uni d g W.
Proof. intros Hd Hm Hu b i Hb H1 H2 H3.
  assert (Hv : valid sh (upd b d i)) by (apply upd_valid; [assumption|lia]).
  assert (En : nth d (upd b d i) 0%nat = i) by (apply nth_upd_same; rewrite (valid_length sh b Hb); exact Hd).
  split.
  - intros E. pose proof (Hm E (upd b d i) Hv) as H. rewrite En, upd_upd in H. apply H. exact H3.
  - intros E. pose proof (Hu E (upd b d i) Hv) as H. rewrite En, upd_upd in H. apply H. exact H3. Qed.

Lemma mono_group_fixed_ok sh mono uni d g W : (d < length sh)%nat ->
  mono_group_ok sh mono uni d g W -> teq sh (mono_group sh mono uni d g W) W.
Proof. intros Hd Hok. eapply teq_trans. apply mono_group_bridge.
  apply (pr_op_fixed sh d g (fun k => k) Hd (id_lt _) (id_inv _) _ (mono_C mono uni (nth d sh 0%nat))).
  intros; apply mono_F_fix; assumption. exact Hok. Qed.
Lemma mono_group_fixed sh mono uni d g W : (d < length sh)%nat ->
  (mono = 1%Z -> mono_along sh d W) -> (uni <> 0%Z -> unimodal_along sh uni d W) ->
  teq sh (mono_group sh mono uni d g W) W.
Proof. intros Hd Hm Hu. apply mono_group_fixed_ok. exact Hd. apply mono_feasible_group_ok; assumption. Qed.

Lemma mono_group_ok_teq sh mono uni d g f f' : (d < length sh)%nat ->
  teq sh f f' -> mono_group_ok sh mono uni d g f -> mono_group_ok sh mono uni d g f'.
Proof. intros Hd. apply (pr_ok_teq sh d g (fun k => k) _ Hd (id_lt _)). intros x i lo hi lo' hi'. apply mono_C_proper. Qed.

(* the monotonicity / unimodality group update is the nearest-point map onto
   the set of kernels whose pairs of this (dimension, group) are ordered *)
Theorem mono_group_is_proj sh mono uni d g : (d < length sh)%nat ->
  is_proj (all_idx sh) (mono_group_ok sh mono uni d g) (mono_group sh mono uni d g).
Proof. intros Hd.
  apply (is_proj_ext sh _ (pr_op sh d g (fun k => k) (mono_F mono uni (nth d sh 0%nat)))).
  - intros y. apply mono_group_bridge.
  - intros f f'. apply mono_group_ok_teq. exact Hd.
  - apply (pr_op_is_proj sh d g (fun k => k) Hd (id_lt _) (id_inv _)).
    + intros. reflexivity.
    + intros. apply mono_F_in.
    + intros. apply mono_F_vi. assumption. Qed.

(* ---- D2: Edgeworth trust ---- *)
Lemma rv_cases dir sc : dir <> 0%Z ->
  ((0 <? dir)%Z = true /\ forall k, rv dir sc k = k) \/
  ((0 <? dir)%Z = false /\ forall k, rv dir sc k = (sc - 1 - k)%nat).
Proof. intros Hd. unfold rv. destruct (Z.ltb_spec 0 dir) as [H|H]; [left|right]; split; try reflexivity; intros k.
  - destruct (Z.ltb_spec dir 0); [lia|reflexivity].
  - destruct (Z.ltb_spec dir 0); [reflexivity|lia]. Qed.

Definition edge_F (a b c e : Q) (pa pb : bool) : Q :=
  let diff := (b - a) - (e - c) in
  let corr := qmax (quarter diff) 0 in
  if Bool.eqb pa pb then corner a b c e pa pb + corr else corner a b c e pa pb - corr.
Definition edge_C (a b c e : Q) : Prop := (b - a) - (e - c) <= 0.
(* the constraint set of the Edgeworth group (g0, g1) of trust t: the slope
   inequality on every square with lower corner (i, j), i = g0, g0+2, ...,
   j = g1, g1+2, ... (j counted on the reversed conditional axis for direction -1) *)
Definition edge_group_ok (sh : list nat) (t : trust) (g0 g1 : nat) : tens -> Prop :=
  let '(m, c, dir) := t in sq_ok sh m c g0 g1 (rv dir (nth c sh 0%nat)) edge_C.

Lemma edge_F_proper a b c e a' b' c' e' pa pb : a == a' -> b == b' -> c == c' -> e == e' ->
  edge_F a b c e pa pb == edge_F a' b' c' e' pa pb.
Proof. intros H1 H2 H3 H4. unfold edge_F, corner, quarter. cbv zeta.
  destruct pa, pb; cbn [Bool.eqb]; rewrite H1, H2, H3, H4; reflexivity. Qed.
Lemma edge_C_proper a b c e a' b' c' e' : a == a' -> b == b' -> c == c' -> e == e' -> edge_C a b c e -> edge_C a' b' c' e'.
Proof. unfold edge_C. intros; lra. Qed.
Lemma edge_F_fix a b c e pa pb : edge_C a b c e -> edge_F a b c e pa pb == corner a b c e pa pb.
Proof. unfold edge_C, edge_F, corner, quarter. cbv zeta. intros H. destruct pa, pb; cbn [Bool.eqb]; qcases; lra. Qed.
Lemma edge_F_in a b c e : edge_C (edge_F a b c e false false) (edge_F a b c e true false) (edge_F a b c e false true) (edge_F a b c e true true).
Proof. unfold edge_C, edge_F, corner, quarter. cbn [Bool.eqb]. cbv zeta. qcases; lra. Qed.
Lemma edge_F_vi a b c e za zb zc ze : edge_C za zb zc ze ->
  (a - edge_F a b c e false false) * (za - edge_F a b c e false false) + (b - edge_F a b c e true false) * (zb - edge_F a b c e true false) +
  ((c - edge_F a b c e false true) * (zc - edge_F a b c e false true) + (e - edge_F a b c e true true) * (ze - edge_F a b c e true true)) <= 0.
Proof. unfold edge_C, edge_F, corner, quarter. cbn [Bool.eqb]. cbv zeta. intros H. qcases; nra. Qed.

Lemma edge_group_bridge sh m c dir g0 g1 W : m <> c -> (m < length sh)%nat -> (c < length sh)%nat ->
  teq sh (edge_group sh (m, c, dir) g0 g1 W) (sq_op sh m c g0 g1 (rv dir (nth c sh 0%nat)) edge_F W).
Proof. intros Hmc Hm Hc. unfold edge_group, sq_op. cbv zeta. apply memo_teq_ext. intros x Hv.
  destruct (pair_pos g0 (nth m sh 0%nat) (nth m x 0%nat)) as [[i pa]|] eqn:E1; [|reflexivity].
  destruct (pair_pos g1 (nth c sh 0%nat) (rv dir (nth c sh 0%nat) (nth c x 0%nat))) as [[j pb]|] eqn:E2; [|reflexivity].
  rewrite Qred_correct.
  destruct (sq_facts sh m c g0 g1 (rv dir (nth c sh 0%nat)) Hm Hc (rv_lt dir _) (rv_invol dir _) x i pa j pb Hv E1 E2)
    as [(A1 & A2 & A3 & A4) (B1 & B2 & B3 & B4)].
  assert (Ex : at2 x m c (ofs pa i) (rv dir (nth c sh 0%nat) (ofs pb j)) = x) by (apply at2_eq_self; assumption).
  unfold edge_F, corner. destruct pa, pb; cbn [ofs Bool.eqb] in *; rewrite Ex; reflexivity. Qed.

Lemma edge_group_proper sh m c dir g0 g1 : m <> c -> (m < length sh)%nat -> (c < length sh)%nat ->
  op_proper sh (edge_group sh (m, c, dir) g0 g1).
Proof. intros Hmc Hm Hc W W' E.
  eapply teq_trans. apply edge_group_bridge; assumption. eapply teq_trans; [|apply teq_sym, edge_group_bridge; assumption].
  apply (sq_op_proper sh m c g0 g1 _ Hmc Hm Hc (rv_lt dir _) (rv_invol dir _)). intros; apply edge_F_proper; assumption. exact E. Qed.

Lemma edge_feasible_group_ok sh m c dir g0 g1 W : dir <> 0%Z ->
  edgeworth_holds sh (m, c, dir) W -> edge_group_ok sh (m, c, dir) g0 g1 W.
Proof. intros Hdir H b i j Hb A1 A2 A3 B1 B2 B3. unfold edge_C. unfold edgeworth_holds in H. cbv beta iota in H.
  destruct (rv_cases dir (nth c sh 0%nat) Hdir) as [[Ed Er]|[Ed Er]]; rewrite !Er.
  - pose proof (H b i j Hb A3 B3) as Hs. rewrite Ed in Hs. unfold esq in Hs. lra.
  - replace (nth c sh 0 - 1 - j)%nat with (S (nth c sh 0 - 1 - S j))%nat by lia.
    pose proof (H b i (nth c sh 0 - 1 - S j)%nat Hb A3 ltac:(lia)) as Hs. rewrite Ed in Hs. unfold esq in Hs. lra. Qed.

Lemma edge_group_fixed_ok sh m c dir g0 g1 W : m <> c -> (m < length sh)%nat -> (c < length sh)%nat ->
  edge_group_ok sh (m, c, dir) g0 g1 W -> teq sh (edge_group sh (m, c, dir) g0 g1 W) W.
Proof. intros Hmc Hm Hc Hok. eapply teq_trans. apply edge_group_bridge; assumption.
  apply (sq_op_fixed sh m c g0 g1 _ Hm Hc (rv_lt dir _) (rv_invol dir _) _ edge_C).
  intros; apply edge_F_fix; assumption. exact Hok. Qed.
Lemma edge_group_fixed sh m c dir g0 g1 W : m <> c -> (m < length sh)%nat -> (c < length sh)%nat -> dir <> 0%Z ->
  edgeworth_holds sh (m, c, dir) W -> teq sh (edge_group sh (m, c, dir) g0 g1 W) W.
Proof. intros Hmc Hm Hc Hdir H. apply edge_group_fixed_ok; try assumption. apply edge_feasible_group_ok; assumption. Qed.

Lemma edge_group_ok_teq sh m c dir g0 g1 f f' :
  teq sh f f' -> edge_group_ok sh (m, c, dir) g0 g1 f -> edge_group_ok sh (m, c, dir) g0 g1 f'.
Proof. apply (sq_ok_teq sh m c g0 g1 _ edge_C (rv_lt dir _)). apply edge_C_proper. Qed.

(* the Edgeworth group update (coefficient 1/4 on each of the four corners) is
   the nearest-point map onto its group's constraint set *)
Theorem edge_group_is_proj sh m c dir g0 g1 : m <> c -> (m < length sh)%nat -> (c < length sh)%nat ->
  is_proj (all_idx sh) (edge_group_ok sh (m, c, dir) g0 g1) (edge_group sh (m, c, dir) g0 g1).
Proof. intros Hmc Hm Hc.
  apply (is_proj_ext sh _ (sq_op sh m c g0 g1 (rv dir (nth c sh 0%nat)) edge_F)).
  - intros y. apply edge_group_bridge; assumption.
  - intros f f'. apply edge_group_ok_teq.
  - apply (sq_op_is_proj sh m c g0 g1 _ Hmc Hm Hc (rv_lt dir _) (rv_invol dir _)).
    + apply edge_F_in.
    + apply edge_F_vi. Qed.

(* ---- D3: trapezoid trust ---- *)
Definition trap_F (m mx : nat) (x : idx) (j : nat) (lo hi : Q) (up : bool) : Q :=
  let a := nth m x 0%nat in
  if (a =? 0)%nat then let corr := qmax ((hi - lo) * (1#2)) 0 in (if up then hi - corr else lo + corr)
  else if (a =? mx)%nat then let corr := qmax ((lo - hi) * (1#2)) 0 in (if up then hi + corr else lo - corr)
  else (if up then hi else lo).
Definition trap_C (m mx : nat) (x : idx) (j : nat) (lo hi : Q) : Prop :=
  let a := nth m x 0%nat in
  if (a =? 0)%nat then hi <= lo else if (a =? mx)%nat then lo <= hi else True.
(* constraint set of trapezoid group g of trust t: on the pairs (j, j+1),
   j = g, g+2, ... of the (possibly reversed) conditional axis, non-increasing at
   the lowest main index and non-decreasing at the highest *)
Definition trap_group_ok (sh : list nat) (t : trust) (g : nat) : tens -> Prop :=
  let '(m, c, dir) := t in pr_ok sh c g (rv dir (nth c sh 0%nat)) (trap_C m (nth m sh 0%nat - 1)).

Lemma trap_F_ctx m mx c x k j lo hi up : m <> c -> trap_F m mx (upd x c k) j lo hi up = trap_F m mx x j lo hi up.
Proof. intros H. unfold trap_F. rewrite nth_upd_other by auto. reflexivity. Qed.
Lemma trap_F_proper m mx x j lo hi lo' hi' up : lo == lo' -> hi == hi' -> trap_F m mx x j lo hi up == trap_F m mx x j lo' hi' up.
Proof. intros H1 H2. unfold trap_F. cbv zeta.
  destruct (nth m x 0 =? 0)%nat; [|destruct (nth m x 0 =? mx)%nat]; destruct up; try rewrite H1; try rewrite H2; reflexivity. Qed.
Lemma trap_C_proper m mx x j lo hi lo' hi' : lo == lo' -> hi == hi' -> trap_C m mx x j lo hi -> trap_C m mx x j lo' hi'.
Proof. unfold trap_C. cbv zeta. intros H1 H2.
  destruct (nth m x 0 =? 0)%nat; [|destruct (nth m x 0 =? mx)%nat]; intros; try lra; try exact I. Qed.
Lemma trap_F_fix m mx x j lo hi up : trap_C m mx x j lo hi -> trap_F m mx x j lo hi up == (if up then hi else lo).
Proof. unfold trap_C, trap_F. cbv zeta.
  destruct (nth m x 0 =? 0)%nat; [|destruct (nth m x 0 =? mx)%nat]; intros H; destruct up; qcases; lra. Qed.
Lemma trap_F_in m mx x j lo hi : trap_C m mx x j (trap_F m mx x j lo hi false) (trap_F m mx x j lo hi true).
Proof. unfold trap_C, trap_F. cbv zeta.
  destruct (nth m x 0 =? 0)%nat; [|destruct (nth m x 0 =? mx)%nat]; try exact I; qcases; lra. Qed.
Lemma trap_F_vi m mx x j lo hi zlo zhi : trap_C m mx x j zlo zhi ->
  (lo - trap_F m mx x j lo hi false) * (zlo - trap_F m mx x j lo hi false) +
  (hi - trap_F m mx x j lo hi true) * (zhi - trap_F m mx x j lo hi true) <= 0.
Proof. unfold trap_C, trap_F. cbv zeta.
  destruct (nth m x 0 =? 0)%nat; [|destruct (nth m x 0 =? mx)%nat]; intros H; qcases; nra. Qed.

Lemma trap_group_bridge sh m c dir g W : m <> c -> (c < length sh)%nat ->
  teq sh (trap_group sh (m, c, dir) g W) (pr_op sh c g (rv dir (nth c sh 0%nat)) (trap_F m (nth m sh 0%nat - 1)) W).
Proof. intros Hmc Hc. unfold trap_group, pr_op. cbv zeta. apply memo_teq_ext. intros x Hv.
  destruct (pair_pos g (nth c sh 0%nat) (rv dir (nth c sh 0%nat) (nth c x 0%nat))) as [[j up]|] eqn:Ep; [|reflexivity].
  destruct (pr_facts sh c g (rv dir (nth c sh 0%nat)) Hc (rv_lt dir _) (rv_invol dir _) x j up Hv Ep) as (H1 & H2 & H3 & H4).
  assert (Ex : upd x c (rv dir (nth c sh 0%nat) (ofs up j)) = x) by (apply upd_eq_self; exact H4).
  unfold trap_F. cbv zeta.
  destruct (Nat.eqb_spec (nth m x 0%nat) 0) as [Ea|Ea].
  - rewrite Qred_correct. unfold at2. rewrite (upd_eq_self x m 0%nat Ea).
    destruct up; cbn [ofs] in Ex; rewrite Ex; reflexivity.
  - destruct (Nat.eqb_spec (nth m x 0%nat) (nth m sh 0 - 1)%nat) as [Eb|Eb].
    + rewrite Qred_correct. unfold at2. rewrite (upd_eq_self x m _ Eb).
      destruct up; cbn [ofs] in Ex; rewrite Ex; reflexivity.
    + destruct up; cbn [ofs] in Ex; rewrite Ex; reflexivity. Qed.

Lemma trap_group_proper sh m c dir g : m <> c -> (c < length sh)%nat -> op_proper sh (trap_group sh (m, c, dir) g).
Proof. intros Hmc Hc W W' E.
  eapply teq_trans. apply trap_group_bridge; assumption. eapply teq_trans; [|apply teq_sym, trap_group_bridge; assumption].
  apply (pr_op_proper sh c g _ Hc (rv_lt dir _) (rv_invol dir _)). intros; apply trap_F_proper; assumption. exact E. Qed.

Lemma trap_feasible_group_ok sh m c dir g W : dir <> 0%Z ->
  trapezoid_holds sh (m, c, dir) W -> trap_group_ok sh (m, c, dir) g W.
Proof. intros Hdir H b j Hb H1 H2 H3. unfold trap_C. cbv zeta. unfold trapezoid_holds in H. cbv beta iota zeta in H.
  assert (G : W (upd b c (rv dir (nth c sh 0%nat) (S j))) <= W (upd b c (rv dir (nth c sh 0%nat) j)) \/ nth m b 0%nat <> 0%nat).
  { destruct (Nat.eq_dec (nth m b 0%nat) 0) as [Ea|Ea]; [left|right; exact Ea].
    destruct (rv_cases dir (nth c sh 0%nat) Hdir) as [[Ed Er]|[Ed Er]]; rewrite !Er.
    - pose proof (H b j Hb H3) as Hs. rewrite Ed in Hs. unfold at2 in Hs. rewrite (upd_eq_self b m 0%nat Ea) in Hs. apply Hs.
    - replace (nth c sh 0 - 1 - j)%nat with (S (nth c sh 0 - 1 - S j))%nat by lia.
      pose proof (H b (nth c sh 0 - 1 - S j)%nat Hb ltac:(lia)) as Hs. rewrite Ed in Hs. unfold at2 in Hs.
      rewrite (upd_eq_self b m 0%nat Ea) in Hs. apply Hs. }
  assert (G2 : W (upd b c (rv dir (nth c sh 0%nat) j)) <= W (upd b c (rv dir (nth c sh 0%nat) (S j))) \/ nth m b 0%nat <> (nth m sh 0 - 1)%nat).
  { destruct (Nat.eq_dec (nth m b 0%nat) (nth m sh 0 - 1)%nat) as [Ea|Ea]; [left|right; exact Ea].
    destruct (rv_cases dir (nth c sh 0%nat) Hdir) as [[Ed Er]|[Ed Er]]; rewrite !Er.
    - pose proof (H b j Hb H3) as Hs. rewrite Ed in Hs. unfold at2 in Hs. rewrite (upd_eq_self b m _ Ea) in Hs. apply Hs.
    - replace (nth c sh 0 - 1 - j)%nat with (S (nth c sh 0 - 1 - S j))%nat by lia.
      pose proof (H b (nth c sh 0 - 1 - S j)%nat Hb ltac:(lia)) as Hs. rewrite Ed in Hs. unfold at2 in Hs.
      rewrite (upd_eq_self b m _ Ea) in Hs. apply Hs. }
  destruct (Nat.eqb_spec (nth m b 0%nat) 0) as [Ea|Ea]. destruct G; [assumption|contradiction].
  destruct (Nat.eqb_spec (nth m b 0%nat) (nth m sh 0 - 1)%nat) as [Eb|Eb]. destruct G2; [assumption|contradiction]. exact I. Qed.

Lemma trap_group_fixed_ok sh m c dir g W : m <> c -> (c < length sh)%nat ->
  trap_group_ok sh (m, c, dir) g W -> teq sh (trap_group sh (m, c, dir) g W) W.
Proof. intros Hmc Hc Hok. eapply teq_trans. apply trap_group_bridge; assumption.
  apply (pr_op_fixed sh c g _ Hc (rv_lt dir _) (rv_invol dir _) _ (trap_C m (nth m sh 0%nat - 1))).
  intros; apply trap_F_fix; assumption. exact Hok. Qed.
Lemma trap_group_fixed sh m c dir g W : m <> c -> (c < length sh)%nat -> dir <> 0%Z ->
  trapezoid_holds sh (m, c, dir) W -> teq sh (trap_group sh (m, c, dir) g W) W.
Proof. intros Hmc Hc Hdir H. apply trap_group_fixed_ok; try assumption. apply trap_feasible_group_ok; assumption. Qed.

Lemma trap_group_ok_teq sh m c dir g f f' : (c < length sh)%nat ->
  teq sh f f' -> trap_group_ok sh (m, c, dir) g f -> trap_group_ok sh (m, c, dir) g f'.
Proof. intros Hc. apply (pr_ok_teq sh c g _ _ Hc (rv_lt dir _)). intros x i lo hi lo' hi'. apply trap_C_proper. Qed.

(* the trapezoid group update (halfway moves on the two extreme rows of the
   main axis) is the nearest-point map onto its group's constraint set *)
Theorem trap_group_is_proj sh m c dir g : m <> c -> (c < length sh)%nat ->
  is_proj (all_idx sh) (trap_group_ok sh (m, c, dir) g) (trap_group sh (m, c, dir) g).
Proof. intros Hmc Hc.
  apply (is_proj_ext sh _ (pr_op sh c g (rv dir (nth c sh 0%nat)) (trap_F m (nth m sh 0%nat - 1)))).
  - intros y. apply trap_group_bridge; assumption.
  - intros f f'. apply trap_group_ok_teq. exact Hc.
  - apply (pr_op_is_proj sh c g _ Hc (rv_lt dir _) (rv_invol dir _)).
    + intros. apply trap_F_ctx. exact Hmc.
    + intros. apply trap_F_in.
    + intros. apply trap_F_vi. assumption. Qed.

(* ---- D4: monotonic dominance ---- *)
Definition mdom_holds (sh : list nat) (p q : nat) (f : tens) : Prop :=
  forall b i j, valid sh b -> (S i < nth p sh 0%nat)%nat -> (S j < nth q sh 0%nat)%nat ->
    (f (at2 b p q i j) + f (at2 b p q (S i) (S j))) * (1#2) <= f (at2 b p q (S i) j) /\
    f (at2 b p q i (S j)) <= (f (at2 b p q i j) + f (at2 b p q (S i) (S j))) * (1#2).

Definition mdom_F (g2 : bool) (a b c e : Q) (pa pb : bool) : Q :=
  let mid := (a + e) * (1#2) in
  if g2 then
    let corr := qmax (third (mid - b)) 0 in
    match pa, pb with
    | true, false => b + 2 * corr
    | false, false => a - corr
    | true, true => e - corr
    | false, true => c
    end
  else
    let corr := qmin (third (mid - c)) 0 in
    match pa, pb with
    | false, true => c + 2 * corr
    | false, false => a - corr
    | true, true => e - corr
    | true, false => b
    end.
Definition mdom_C (g2 : bool) (a b c e : Q) : Prop :=
  if g2 then (a + e) * (1#2) <= b else c <= (a + e) * (1#2).
(* constraint set of the group (g0, g1, g2): one triangle inequality per square *)
Definition mdom_group_ok (sh : list nat) (p q g0 g1 : nat) (g2 : bool) : tens -> Prop :=
  sq_ok sh p q g0 g1 (fun k => k) (mdom_C g2).

Lemma mdom_F_proper g2 a b c e a' b' c' e' pa pb : a == a' -> b == b' -> c == c' -> e == e' ->
  mdom_F g2 a b c e pa pb == mdom_F g2 a' b' c' e' pa pb.
Proof. intros H1 H2 H3 H4. unfold mdom_F, third. cbv zeta.
  destruct g2, pa, pb; try rewrite H1; try rewrite H2; try rewrite H3; try rewrite H4; reflexivity. Qed.
Lemma mdom_C_proper g2 a b c e a' b' c' e' : a == a' -> b == b' -> c == c' -> e == e' -> mdom_C g2 a b c e -> mdom_C g2 a' b' c' e'.
Proof. unfold mdom_C. destruct g2; intros; lra. Qed.
Lemma mdom_F_fix g2 a b c e pa pb : mdom_C g2 a b c e -> mdom_F g2 a b c e pa pb == corner a b c e pa pb.
Proof. unfold mdom_C, mdom_F, corner, third. cbv zeta. intros H. destruct g2, pa, pb; qcases; lra. Qed.
Lemma mdom_F_in g2 a b c e : mdom_C g2 (mdom_F g2 a b c e false false) (mdom_F g2 a b c e true false) (mdom_F g2 a b c e false true) (mdom_F g2 a b c e true true).
Proof. unfold mdom_C, mdom_F, third. cbv zeta. destruct g2; qcases; lra. Qed.
Lemma mdom_F_vi g2 a b c e za zb zc ze : mdom_C g2 za zb zc ze ->
  (a - mdom_F g2 a b c e false false) * (za - mdom_F g2 a b c e false false) + (b - mdom_F g2 a b c e true false) * (zb - mdom_F g2 a b c e true false) +
  ((c - mdom_F g2 a b c e false true) * (zc - mdom_F g2 a b c e false true) + (e - mdom_F g2 a b c e true true) * (ze - mdom_F g2 a b c e true true)) <= 0.
Proof. unfold mdom_C, mdom_F, third. cbv zeta. intros H. destruct g2; qcases; nra. Qed.

Lemma mdom_group_bridge sh p q g0 g1 g2 W : p <> q -> (p < length sh)%nat -> (q < length sh)%nat ->
  teq sh (mdom_group sh p q g0 g1 g2 W) (sq_op sh p q g0 g1 (fun k => k) (mdom_F g2) W).
Proof. intros Hpq Hp Hq. unfold mdom_group, sq_op. cbv zeta. apply memo_teq_ext. intros x Hv.
  destruct (pair_pos g0 (nth p sh 0%nat) (nth p x 0%nat)) as [[i pa]|] eqn:E1; [|reflexivity].
  destruct (pair_pos g1 (nth q sh 0%nat) (nth q x 0%nat)) as [[j pb]|] eqn:E2; [|reflexivity].
  destruct (sq_facts sh p q g0 g1 (fun k => k) Hp Hq (id_lt _) (id_inv _) x i pa j pb Hv E1 E2)
    as [(A1 & A2 & A3 & A4) (B1 & B2 & B3 & B4)].
  assert (Ex : at2 x p q (ofs pa i) (ofs pb j) = x) by (apply at2_eq_self; assumption).
  unfold mdom_F. destruct g2, pa, pb; cbn [ofs] in *; try rewrite Qred_correct; rewrite Ex; reflexivity. Qed.

Lemma mdom_group_proper sh p q g0 g1 g2 : p <> q -> (p < length sh)%nat -> (q < length sh)%nat ->
  op_proper sh (mdom_group sh p q g0 g1 g2).
Proof. intros Hpq Hp Hq W W' E.
  eapply teq_trans. apply mdom_group_bridge; assumption. eapply teq_trans; [|apply teq_sym, mdom_group_bridge; assumption].
  apply (sq_op_proper sh p q g0 g1 _ Hpq Hp Hq (id_lt _) (id_inv _)). intros; apply mdom_F_proper; assumption. exact E. Qed.

Lemma mdom_feasible_group_ok sh p q g0 g1 g2 W : mdom_holds sh p q W -> mdom_group_ok sh p q g0 g1 g2 W.
Proof. intros H b i j Hb A1 A2 A3 B1 B2 B3. unfold mdom_C. destruct (H b i j Hb A3 B3) as [Ha Hb']. destruct g2; assumption. Qed.

Lemma mdom_group_fixed_ok sh p q g0 g1 g2 W : p <> q -> (p < length sh)%nat -> (q < length sh)%nat ->
  mdom_group_ok sh p q g0 g1 g2 W -> teq sh (mdom_group sh p q g0 g1 g2 W) W.
Proof. intros Hpq Hp Hq Hok. eapply teq_trans. apply mdom_group_bridge; assumption.
  apply (sq_op_fixed sh p q g0 g1 _ Hp Hq (id_lt _) (id_inv _) _ (mdom_C g2)).
  intros; apply mdom_F_fix; assumption. exact Hok. Qed.
Lemma mdom_group_fixed sh p q g0 g1 g2 W : p <> q -> (p < length sh)%nat -> (q < length sh)%nat ->
  mdom_holds sh p q W -> teq sh (mdom_group sh p q g0 g1 g2 W) W.
Proof. intros Hpq Hp Hq H. apply mdom_group_fixed_ok; try assumption. apply mdom_feasible_group_ok; assumption. Qed.

Lemma mdom_group_ok_teq sh p q g0 g1 g2 f f' :
  teq sh f f' -> mdom_group_ok sh p q g0 g1 g2 f -> mdom_group_ok sh p q g0 g1 g2 f'.
Proof. apply (sq_ok_teq sh p q g0 g1 _ (mdom_C g2) (id_lt _)). apply mdom_C_proper. Qed.

(* the monotonic-dominance group update (2/3 on the right-angle vertex, 1/3 on
   the two others) is the nearest-point map onto its group's constraint set *)
Theorem mdom_group_is_proj sh p q g0 g1 g2 : p <> q -> (p < length sh)%nat -> (q < length sh)%nat ->
  is_proj (all_idx sh) (mdom_group_ok sh p q g0 g1 g2) (mdom_group sh p q g0 g1 g2).
Proof. intros Hpq Hp Hq.
  apply (is_proj_ext sh _ (sq_op sh p q g0 g1 (fun k => k) (mdom_F g2))).
  - intros y. apply mdom_group_bridge; assumption.
  - intros f f'. apply mdom_group_ok_teq.
  - apply (sq_op_is_proj sh p q g0 g1 _ Hpq Hp Hq (id_lt _) (id_inv _)).
    + apply mdom_F_in.
    + apply mdom_F_vi. Qed.

(* ---- D5: joint monotonicity ---- *)
Definition jmono_holds (sh : list nat) (p q : nat) (f : tens) : Prop :=
  forall b i j, valid sh b -> (S i < nth p sh 0%nat)%nat -> (S j < nth q sh 0%nat)%nat ->
    (f (at2 b p q (S i) j) + f (at2 b p q i (S j))) * (1#2) <= f (at2 b p q (S i) (S j)) /\
    f (at2 b p q i j) <= (f (at2 b p q (S i) j) + f (at2 b p q i (S j))) * (1#2).

Definition jmono_F (g2 : bool) (a b c e : Q) (pa pb : bool) : Q :=
  let mid := (b + c) * (1#2) in
  if g2 then
    let corr := qmax (third (mid - e)) 0 in
    match pa, pb with
    | true, true => e + 2 * corr
    | true, false => b - corr
    | false, true => c - corr
    | false, false => a
    end
  else
    let corr := qmin (third (mid - a)) 0 in
    match pa, pb with
    | false, false => a + 2 * corr
    | true, false => b - corr
    | false, true => c - corr
    | true, true => e
    end.
Definition jmono_C (g2 : bool) (a b c e : Q) : Prop :=
  if g2 then (b + c) * (1#2) <= e else a <= (b + c) * (1#2).
Definition jmono_group_ok (sh : list nat) (p q g0 g1 : nat) (g2 : bool) : tens -> Prop :=
  sq_ok sh p q g0 g1 (fun k => k) (jmono_C g2).

Lemma jmono_F_proper g2 a b c e a' b' c' e' pa pb : a == a' -> b == b' -> c == c' -> e == e' ->
  jmono_F g2 a b c e pa pb == jmono_F g2 a' b' c' e' pa pb.
Proof. intros H1 H2 H3 H4. unfold jmono_F, third. cbv zeta.
  destruct g2, pa, pb; try rewrite H1; try rewrite H2; try rewrite H3; try rewrite H4; reflexivity. Qed.
Lemma jmono_C_proper g2 a b c e a' b' c' e' : a == a' -> b == b' -> c == c' -> e == e' -> jmono_C g2 a b c e -> jmono_C g2 a' b' c' e'.
Proof. unfold jmono_C. destruct g2; intros; lra. Qed.
Lemma jmono_F_fix g2 a b c e pa pb : jmono_C g2 a b c e -> jmono_F g2 a b c e pa pb == corner a b c e pa pb.
Proof. unfold jmono_C, jmono_F, corner, third. cbv zeta. intros H. destruct g2, pa, pb; qcases; lra. Qed.
Lemma jmono_F_in g2 a b c e : jmono_C g2 (jmono_F g2 a b c e false false) (jmono_F g2 a b c e true false) (jmono_F g2 a b c e false true) (jmono_F g2 a b c e true true).
Proof. unfold jmono_C, jmono_F, third. cbv zeta. destruct g2; qcases; lra. Qed.
Lemma jmono_F_vi g2 a b c e za zb zc ze : jmono_C g2 za zb zc ze ->
  (a - jmono_F g2 a b c e false false) * (za - jmono_F g2 a b c e false false) + (b - jmono_F g2 a b c e true false) * (zb - jmono_F g2 a b c e true false) +
  ((c - jmono_F g2 a b c e false true) * (zc - jmono_F g2 a b c e false true) + (e - jmono_F g2 a b c e true true) * (ze - jmono_F g2 a b c e true true)) <= 0.
Proof. unfold jmono_C, jmono_F, third. cbv zeta. intros H. destruct g2; qcases; nra. Qed.

Lemma jmono_group_bridge sh p q g0 g1 g2 W : p <> q -> (p < length sh)%nat -> (q < length sh)%nat ->
  teq sh (jmono_group sh p q g0 g1 g2 W) (sq_op sh p q g0 g1 (fun k => k) (jmono_F g2) W).
Proof. intros Hpq Hp Hq. unfold jmono_group, sq_op. cbv zeta. apply memo_teq_ext. intros x Hv.
  destruct (pair_pos g0 (nth p sh 0%nat) (nth p x 0%nat)) as [[i pa]|] eqn:E1; [|reflexivity].
  destruct (pair_pos g1 (nth q sh 0%nat) (nth q x 0%nat)) as [[j pb]|] eqn:E2; [|reflexivity].
  destruct (sq_facts sh p q g0 g1 (fun k => k) Hp Hq (id_lt _) (id_inv _) x i pa j pb Hv E1 E2)
    as [(A1 & A2 & A3 & A4) (B1 & B2 & B3 & B4)].
  assert (Ex : at2 x p q (ofs pa i) (ofs pb j) = x) by (apply at2_eq_self; assumption).
  unfold jmono_F. destruct g2, pa, pb; cbn [ofs] in *; try rewrite Qred_correct; rewrite Ex; reflexivity. Qed.

Lemma jmono_group_proper sh p q g0 g1 g2 : p <> q -> (p < length sh)%nat -> (q < length sh)%nat ->
  op_proper sh (jmono_group sh p q g0 g1 g2).
Proof. intros Hpq Hp Hq W W' E.
  eapply teq_trans. apply jmono_group_bridge; assumption. eapply teq_trans; [|apply teq_sym, jmono_group_bridge; assumption].
  apply (sq_op_proper sh p q g0 g1 _ Hpq Hp Hq (id_lt _) (id_inv _)). intros; apply jmono_F_proper; assumption. exact E. Qed.

Lemma jmono_feasible_group_ok sh p q g0 g1 g2 W : jmono_holds sh p q W -> jmono_group_ok sh p q g0 g1 g2 W.
Proof. intros H b i j Hb A1 A2 A3 B1 B2 B3. unfold jmono_C. destruct (H b i j Hb A3 B3) as [Ha Hb']. destruct g2; assumption. Qed.

Lemma jmono_group_fixed_ok sh p q g0 g1 g2 W : p <> q -> (p < length sh)%nat -> (q < length sh)%nat ->
  jmono_group_ok sh p q g0 g1 g2 W -> teq sh (jmono_group sh p q g0 g1 g2 W) W.
Proof. intros Hpq Hp Hq Hok. eapply teq_trans. apply jmono_group_bridge; assumption.
  apply (sq_op_fixed sh p q g0 g1 _ Hp Hq (id_lt _) (id_inv _) _ (jmono_C g2)).
  intros; apply jmono_F_fix; assumption. exact Hok. Qed.
Lemma jmono_group_fixed sh p q g0 g1 g2 W : p <> q -> (p < length sh)%nat -> (q < length sh)%nat ->
  jmono_holds sh p q W -> teq sh (jmono_group sh p q g0 g1 g2 W) W.
Proof. intros Hpq Hp Hq H. apply jmono_group_fixed_ok; try assumption. apply jmono_feasible_group_ok; assumption. Qed.

Lemma jmono_group_ok_teq sh p q g0 g1 g2 f f' :
  teq sh f f' -> jmono_group_ok sh p q g0 g1 g2 f -> jmono_group_ok sh p q g0 g1 g2 f'.
Proof. apply (sq_ok_teq sh p q g0 g1 _ (jmono_C g2) (id_lt _)). apply jmono_C_proper. Qed.

(* the joint-monotonicity group update is the nearest-point map onto its
   group's constraint set *)
Theorem jmono_group_is_proj sh p q g0 g1 g2 : p <> q -> (p < length sh)%nat -> (q < length sh)%nat ->
  is_proj (all_idx sh) (jmono_group_ok sh p q g0 g1 g2) (jmono_group sh p q g0 g1 g2).
Proof. intros Hpq Hp Hq.
  apply (is_proj_ext sh _ (sq_op sh p q g0 g1 (fun k => k) (jmono_F g2))).
  - intros y. apply jmono_group_bridge; assumption.
  - intros f f'. apply jmono_group_ok_teq.
  - apply (sq_op_is_proj sh p q g0 g1 _ Hpq Hp Hq (id_lt _) (id_inv _)).
    + apply jmono_F_in.
    + apply jmono_F_vi. Qed.

(* ---- D6: range dominance (feasible => fixed, properness) ---- *)
Definition rdom_holds (sh : list nat) (p q : nat) (f : tens) : Prop :=
  forall b i j, valid sh b -> (i < nth p sh 0%nat)%nat -> (j < nth q sh 0%nat)%nat ->
    (f (at2 b p q i (nth q sh 0%nat - 1)) - f (at2 b p q i 0%nat)) -
    (f (at2 b p q (nth p sh 0%nat - 1) j) - f (at2 b p q 0%nat j)) <= 0.

Ltac destruct_ifs := repeat match goal with |- context [if ?b then _ else _] => destruct b end.

Lemma rdom_group_fixed sh p q i j W : (i < nth p sh 0%nat)%nat -> (j < nth q sh 0%nat)%nat ->
  rdom_holds sh p q W -> teq sh (rdom_group sh p q i j W) W.
Proof. intros Hi Hj Hok x Hv. unfold rdom_group. cbv zeta. rewrite memo_ok by assumption.
  pose proof (Hok x i j Hv Hi Hj) as Hd. unfold quarter.
  destruct_ifs; rewrite Qred_correct; qcases; lra. Qed.

Lemma rdom_group_proper sh p q i j : (i < nth p sh 0%nat)%nat -> (j < nth q sh 0%nat)%nat ->
  op_proper sh (rdom_group sh p q i j).
Proof. intros Hi Hj W W' E. unfold rdom_group. cbv zeta. apply memo_teq_ext. intros x Hv.
  pose proof (E x Hv) as E0.
  pose proof (E _ (at2_valid sh x p q i (nth q sh 0%nat - 1) Hv Hi ltac:(lia))) as E1.
  pose proof (E _ (at2_valid sh x p q i 0%nat Hv Hi ltac:(lia))) as E2.
  pose proof (E _ (at2_valid sh x p q (nth p sh 0%nat - 1) j Hv ltac:(lia) Hj)) as E3.
  pose proof (E _ (at2_valid sh x p q 0%nat j Hv ltac:(lia) Hj)) as E4.
  unfold quarter. destruct_ifs; rewrite !Qred_correct; qcases; lra. Qed.

(* ---- D7: joint unimodality (feasible => fixed, properness) ---- *)
Definition ju_eqn_of (vertex : list nat) (terms : list (nat * nat * Z)) : list (list nat * Q) :=
  map (fun t : nat * nat * Z => let '(k, nv, cf) := t in (upd vertex k nv, inject_Z cf)) terms
  ++ [(vertex, inject_Z (- fold_right Z.add 0%Z (map (fun t : nat * nat * Z => snd t) terms)))].
(* <hyperplane, affected weights> at the position x of the other axes *)
Definition ju_viol (dims : list nat) (eqn : list (list nat * Q)) (W : tens) (x : idx) : Q :=
  qsum (map (fun e : list nat * Q => W (set_coords x dims (fst e)) * snd e) eqn).
Definition ju_op (sh : list nat) (dims : list nat) (valley : bool) (eqn : list (list nat * Q)) : tens -> tens :=
  fun W => memo sh (fun x =>
    let viol := ju_viol dims eqn W x in
    let viol := if valley then qmin viol 0 else qmax viol 0 in
    let cf := viol / qsum (map (fun e : list nat * Q => snd e * snd e) eqn) in
    match find (fun e : list nat * Q => coords_eqb x dims (fst e)) eqn with
    | Some e => Qred (W x - cf * snd e)
    | None => W x
    end).

Lemma junimod_group_some sh dims valley vertex offs f :
  junimod_group sh dims valley vertex offs = Some f ->
  exists terms,
    ju_terms (map (fun d => nth d sh 0%nat) dims) (map (fun s => (s / 2)%nat) (map (fun d => nth d sh 0%nat) dims)) vertex offs 0 = Some terms /\
    f = ju_op sh dims valley (ju_eqn_of vertex terms).
Proof. unfold junimod_group. cbv zeta.
  destruct (forallb _ _); [discriminate|].
  destruct (ju_terms _ _ vertex offs 0) as [[|t terms]|] eqn:E; try discriminate.
  intros H. inversion H. exists (t :: terms). split; reflexivity. Qed.

(* the joint-unimodality inequalities: every hyperplane the code projects onto
   (vertex / offsets enumeration of project_by_dykstra), at every position *)
Definition junimod_holds (sh : list nat) (dims : list nat) (valley : bool) (W : tens) : Prop :=
  let sizes := map (fun d => nth d sh 0%nat) dims in
  let centre := map (fun s => (s / 2)%nat) sizes in
  forall vertex offs terms, In vertex (all_vertices sizes) -> In offs (all_offsets (length dims)) ->
    ju_terms sizes centre vertex offs 0 = Some terms ->
    forall x, valid sh x ->
      if valley then 0 <= ju_viol dims (ju_eqn_of vertex terms) W x else ju_viol dims (ju_eqn_of vertex terms) W x <= 0.

Lemma ju_op_fixed sh dims (valley : bool) eqn W :
  (forall x, valid sh x -> if valley then 0 <= ju_viol dims eqn W x else ju_viol dims eqn W x <= 0) ->
  teq sh (ju_op sh dims valley eqn W) W.
Proof. intros H x Hv. unfold ju_op. rewrite memo_ok by assumption. cbv zeta. specialize (H x Hv).
  set (v := ju_viol dims eqn W x) in *.
  destruct (find _ eqn) as [e|]; [|reflexivity]. rewrite Qred_correct.
  destruct valley.
  - assert (Z : qmin v 0 == 0) by (qcases; lra). rewrite Z. unfold Qdiv. ring.
  - assert (Z : qmax v 0 == 0) by (qcases; lra). rewrite Z. unfold Qdiv. ring. Qed.

Lemma set_coords_valid sh : forall dims v x, valid sh x ->
  valid (map (fun d => nth d sh 0%nat) dims) v -> valid sh (set_coords x dims v).
Proof. induction dims as [|d dims IH]; intros v x Hx Hv; cbn [map] in Hv; inversion Hv; subst; cbn [set_coords]. exact Hx.
  apply IH. apply upd_valid; assumption. assumption. Qed.

Lemma ju_terms_range : forall sizes centre vertex offs k terms,
  ju_terms sizes centre vertex offs k = Some terms ->
  forall k' nv cf, In (k', nv, cf) terms -> (k <= k')%nat /\ (nv < nth (k' - k) sizes 0)%nat.
Proof. induction sizes as [|s sizes IH]; intros centre vertex offs k terms H k' nv cf Hin.
  - cbn [ju_terms] in H. inversion H; subst. destruct Hin.
  - destruct centre as [|c centre], vertex as [|v vertex], offs as [|o offs]; cbn [ju_terms] in H;
      try (inversion H; subst; destruct Hin; fail).
    destruct (ju_terms sizes centre vertex offs (S k)) as [rest|] eqn:E; [|discriminate].
    assert (Hrest : In (k', nv, cf) rest -> (k <= k')%nat /\ (nv < nth (k' - k) (s :: sizes) 0)%nat).
    { intros Hr. destruct (IH _ _ _ _ _ E k' nv cf Hr) as [H1 H2]. split. lia.
      replace (k' - k)%nat with (S (k' - S k)) by lia. exact H2. }
    destruct ((Z.of_nat v - Z.of_nat c =? 0)%Z). inversion H; subst. apply Hrest; assumption.
    destruct (((Z.of_nat v + (if o then 1 else -1) <? 0) || (Z.of_nat s <=? Z.of_nat v + (if o then 1 else -1)))%Z) eqn:Eb; [discriminate|].
    inversion H; subst. destruct Hin as [Hin|Hin]; [|apply Hrest; assumption].
    inversion Hin; subst. apply orb_false_elim in Eb. destruct Eb as [Eb1 Eb2].
    apply Z.ltb_ge in Eb1. apply Z.leb_gt in Eb2. split. lia.
    replace (k' - k')%nat with 0%nat by lia. cbn [nth]. lia. Qed.

Lemma ju_eqn_valid sizes vertex offs terms : valid sizes vertex ->
  ju_terms sizes (map (fun s => (s / 2)%nat) sizes) vertex offs 0 = Some terms ->
  forall e, In e (ju_eqn_of vertex terms) -> valid sizes (fst e).
Proof. intros Hv Ht e He. unfold ju_eqn_of in He. apply in_app_or in He. destruct He as [He|[<-|[]]]; [|exact Hv].
  apply in_map_iff in He. destruct He as [[[k nv] cf] [<- Hin]]. cbn [fst].
  destruct (ju_terms_range _ _ _ _ _ _ Ht k nv cf Hin) as [_ H2]. rewrite Nat.sub_0_r in H2.
  apply upd_valid; assumption. Qed.

Lemma ju_op_proper sh dims valley eqn :
  (forall e, In e eqn -> valid (map (fun d => nth d sh 0%nat) dims) (fst e)) ->
  op_proper sh (ju_op sh dims valley eqn).
Proof. intros Heq W W' E. unfold ju_op. apply memo_teq_ext. intros x Hv. cbv zeta.
  assert (Ev : ju_viol dims eqn W x == ju_viol dims eqn W' x).
  { unfold ju_viol. apply qsum_map_ext. intros e He. rewrite (E _ (set_coords_valid sh dims (fst e) x Hv (Heq e He))). reflexivity. }
  set (v := ju_viol dims eqn W x) in *. set (v' := ju_viol dims eqn W' x) in *.
  destruct (find (fun e : list nat * Q => coords_eqb x dims (fst e)) eqn) as [e|]; [|apply E; assumption]. rewrite !Qred_correct.
  destruct valley; rewrite Ev, (E x Hv); reflexivity. Qed.

(* ================================================================== *)
(* Part E: the configured list of group maps                            *)
(* ================================================================== *)
Definition k_rank (c : dyk_cfg) : nat := length (k_sizes c).
Lemma k_rank_lt c d : (d < k_rank c)%nat -> (d < length (k_shape c))%nat.
Proof. unfold k_rank, k_shape. rewrite app_length. cbn. lia. Qed.

(* index validity of a configuration (what verify_hyperparameters guarantees):
   trust / dominance / joint-monotonicity pairs name two different lattice
   dimensions, trust directions are non-zero *)
Definition trust_idx_ok (c : dyk_cfg) (t : trust) : Prop :=
  let '(m, cd, dir) := t in (m < k_rank c)%nat /\ (cd < k_rank c)%nat /\ m <> cd /\ dir <> 0%Z.
Definition pair_idx_ok (c : dyk_cfg) (pq : nat * nat) : Prop :=
  (fst pq < k_rank c)%nat /\ (snd pq < k_rank c)%nat /\ fst pq <> snd pq.
Definition dyk_cfg_ok (c : dyk_cfg) : Prop :=
  (forall t, In t (k_edge c) -> trust_idx_ok c t) /\
  (forall t, In t (k_trap c) -> trust_idx_ok c t) /\
  (forall pq, In pq (k_mdom c) -> pair_idx_ok c pq) /\
  (forall pq, In pq (k_jmono c) -> pair_idx_ok c pq).

(* feasibility of a kernel for every configured family *)
Definition dyk_feasible (c : dyk_cfg) (W : tens) : Prop :=
  let sh := k_shape c in
  (forall d, (d < k_rank c)%nat -> nth d (k_monos c) 0%Z = 1%Z -> mono_along sh d W) /\
  (forall d, (d < k_rank c)%nat -> nth d (k_unis c) 0%Z <> 0%Z -> unimodal_along sh (nth d (k_unis c) 0%Z) d W) /\
  (forall t, In t (k_edge c) -> edgeworth_holds sh t W) /\
  (forall t, In t (k_trap c) -> trapezoid_holds sh t W) /\
  (forall pq, In pq (k_mdom c) -> mdom_holds sh (fst pq) (snd pq) W) /\
  (forall pq, In pq (k_rdom c) -> rdom_holds sh (fst pq) (snd pq) W) /\
  (forall pq, In pq (k_jmono c) -> jmono_holds sh (fst pq) (snd pq) W) /\
  (forall ju, In ju (k_juni c) -> junimod_holds sh (fst ju) (snd ju) W).

Lemma group_ops_ok c W : dyk_cfg_ok c -> dyk_feasible c W ->
  forall kop, In kop (group_ops c) -> op_proper (k_shape c) (snd kop) /\ op_fixes (k_shape c) (snd kop) W.
Proof. intros (Oe & Ot & Om & Oj) (Fm & Fu & Fe & Ft & Fd & Fr & Fj & Fju) kop Hin.
  unfold group_ops in Hin. cbv zeta in Hin. unfold op_fixes.
  apply in_app_or in Hin. destruct Hin as [Hin|Hin].
  { (* monotonicity / unimodality *)
    apply in_flat_map in Hin. destruct Hin as [d [Hd Hin]]. apply in_seq in Hd.
    assert (Hdl : (d < length (k_shape c))%nat) by (apply k_rank_lt; unfold k_rank; lia).
    destruct ((nth d (k_monos c) 0 =? 0)%Z && (nth d (k_unis c) 0 =? 0)%Z); [destruct Hin|].
    apply in_flat_map in Hin. destruct Hin as [g [Hg Hin]].
    destruct (nth d (k_shape c) 0 <=? g + 1)%nat; [destruct Hin|]. destruct Hin as [<-|[]]. cbn [snd]. split.
    - apply mono_group_proper. exact Hdl.
    - apply mono_group_fixed. exact Hdl. apply Fm. unfold k_rank; lia. apply Fu. unfold k_rank; lia. }
  apply in_app_or in Hin. destruct Hin as [Hin|Hin].
  { (* Edgeworth *)
    apply in_flat_map in Hin. destruct Hin as [[[m cd] dir] [Ht Hin]].
    apply in_flat_map in Hin. destruct Hin as [[g0 g1] [Hg Hin]].
    destruct ((nth m (k_shape c) 0 - 1 <=? g0)%nat || (nth cd (k_shape c) 0 - 1 <=? g1)%nat); [destruct Hin|].
    destruct Hin as [<-|[]]. cbn [snd]. destruct (Oe _ Ht) as (H1 & H2 & H3 & H4). split.
    - apply edge_group_proper; try assumption; apply k_rank_lt; assumption.
    - apply edge_group_fixed; try assumption; try (apply k_rank_lt; assumption). apply Fe; assumption. }
  apply in_app_or in Hin. destruct Hin as [Hin|Hin].
  { (* trapezoid *)
    apply in_flat_map in Hin. destruct Hin as [[[m cd] dir] [Ht Hin]].
    apply in_flat_map in Hin. destruct Hin as [g [Hg Hin]].
    destruct (nth cd (k_shape c) 0 - 1 <=? g)%nat; [destruct Hin|].
    destruct Hin as [<-|[]]. cbn [snd]. destruct (Ot _ Ht) as (H1 & H2 & H3 & H4). split.
    - apply trap_group_proper; try assumption; apply k_rank_lt; assumption.
    - apply trap_group_fixed; try assumption; try (apply k_rank_lt; assumption). apply Ft; assumption. }
  apply in_app_or in Hin. destruct Hin as [Hin|Hin].
  { (* monotonic dominance *)
    apply in_flat_map in Hin. destruct Hin as [[p q] [Ht Hin]].
    apply in_flat_map in Hin. destruct Hin as [[[g0 g1] g2] [Hg Hin]].
    destruct ((nth p (k_shape c) 0 - 1 <=? g0)%nat || (nth q (k_shape c) 0 - 1 <=? g1)%nat); [destruct Hin|].
    destruct Hin as [<-|[]]. cbn [snd]. destruct (Om _ Ht) as (H1 & H2 & H3). cbn [fst snd] in *. split.
    - apply mdom_group_proper; try assumption; apply k_rank_lt; assumption.
    - apply mdom_group_fixed; try assumption; try (apply k_rank_lt; assumption). apply (Fd _ Ht). }
  apply in_app_or in Hin. destruct Hin as [Hin|Hin].
  { (* range dominance *)
    apply in_flat_map in Hin. destruct Hin as [[p q] [Ht Hin]].
    apply in_map_iff in Hin. destruct Hin as [[i j] [<- Hij]]. cbn [snd fst].
    apply in_prod_iff in Hij. destruct Hij as [Hi Hj]. apply in_seq in Hi. apply in_seq in Hj. split.
    - apply rdom_group_proper; lia.
    - apply rdom_group_fixed; try lia. apply (Fr _ Ht). }
  apply in_app_or in Hin. destruct Hin as [Hin|Hin].
  { (* joint monotonicity *)
    apply in_flat_map in Hin. destruct Hin as [[p q] [Ht Hin]].
    apply in_flat_map in Hin. destruct Hin as [[[g0 g1] g2] [Hg Hin]].
    destruct ((nth p (k_shape c) 0 - 1 <=? g0)%nat || (nth q (k_shape c) 0 - 1 <=? g1)%nat); [destruct Hin|].
    destruct Hin as [<-|[]]. cbn [snd]. destruct (Oj _ Ht) as (H1 & H2 & H3). cbn [fst snd] in *. split.
    - apply jmono_group_proper; try assumption; apply k_rank_lt; assumption.
    - apply jmono_group_fixed; try assumption; try (apply k_rank_lt; assumption). apply (Fj _ Ht). }
  { (* joint unimodality *)
    apply in_flat_map in Hin. destruct Hin as [[dims valley] [Ht Hin]].
    apply in_flat_map in Hin. destruct Hin as [v [Hv Hin]].
    apply in_flat_map in Hin. destruct Hin as [o [Ho Hin]].
    destruct (junimod_group (k_shape c) dims valley v o) as [f|] eqn:Ef; [|destruct Hin].
    destruct Hin as [<-|[]]. cbn [snd].
    destruct (junimod_group_some _ _ _ _ _ _ Ef) as [terms [Hterms ->]]. split.
    - apply ju_op_proper. apply (ju_eqn_valid _ v o terms); [|exact Hterms].
      apply all_idx_valid. exact Hv.
    - apply ju_op_fixed. intros x Hx. apply (Fju _ Ht v o terms Hv Ho Hterms x Hx). }
Qed.

(* Feasible kernels are fixed by the Dykstra stage: all eight families, any
   combination, any number of iterations, any number of units. *)
Theorem feasible_fixed (c : dyk_cfg) (W : tens) :
  dyk_cfg_ok c -> dyk_feasible c W -> teq (k_shape c) (project_by_dykstra c W) W.
Proof. intros Hok Hf. unfold project_by_dykstra.
  destruct (k_iters c =? 0)%nat. apply teq_refl.
  match goal with |- teq _ (if ?b then _ else _) _ => destruct b end. apply teq_refl.
  cbv zeta. apply dyk_loop_fixed. apply group_ops_ok; assumption. Qed.

(* ... and every stored last_change stays zero *)
Theorem feasible_changes_zero (c : dyk_cfg) (W : tens) (n : nat) :
  dyk_cfg_ok c -> dyk_feasible c W ->
  forall e, In e (snd (dyk_loop (k_shape c) (group_ops c) n (W, []))) -> teq (k_shape c) (snd e) tzero.
Proof. intros Hok Hf. apply dyk_loop_fixed. apply group_ops_ok; assumption. Qed.

(* ================================================================== *)
(* Part F: fixpoint of a sweep of the model => nearest point            *)
(* ================================================================== *)
Lemma dyk_sweep_cons sh kop r st : dyk_sweep sh (kop :: r) st = dyk_sweep sh r (dyk_step sh st kop).
Proof. reflexivity. Qed.

Lemma sweep_get_other sh ops : forall st k, ~ In k (map fst ops) ->
  lc_get (snd (dyk_sweep sh ops st)) k = lc_get (snd st) k.
Proof. induction ops as [|[k' op] r IH]; intros [W lc] k Hk. reflexivity.
  rewrite dyk_sweep_cons. rewrite IH by (intros H; apply Hk; right; exact H).
  unfold dyk_step. cbv zeta. cbn [snd]. apply lc_get_set_other. intros ->. apply Hk. left. reflexivity. Qed.

(* invariant in the form used below: the sum ranges over the keys of the maps *)
Definition ops_sum (ops : list (key * (tens -> tens))) (lc : list (key * tens)) (x : idx) : Q :=
  qsum (map (fun kop : key * (tens -> tens) => lc_get lc (fst kop) x) ops).
Lemma ops_sum_set (l : list (key * (tens -> tens))) lc k t x : NoDup (map fst l) ->
  ops_sum l (lc_set lc k t) x ==
  ops_sum l lc x + (if existsb (fun kop : key * (tens -> tens) => key_eqb (fst kop) k) l then t x - lc_get lc k x else 0).
Proof. unfold ops_sum. induction l as [|[k' op] r IH]; intros Hnd; cbn [map qsum existsb fst]. lra.
  cbn [map fst] in Hnd. inversion Hnd; subst. rewrite (IH H2).
  destruct (key_eqb k' k) eqn:E; cbn [orb].
  - apply key_eqb_eq in E. subst k'. rewrite lc_get_set_same.
    assert (Ex : existsb (fun kop : key * (tens -> tens) => key_eqb (fst kop) k) r = false).
    { destruct (existsb _ r) eqn:Ee; [|reflexivity]. apply existsb_exists in Ee. destruct Ee as [kop [Hin Ek]].
      apply key_eqb_eq in Ek. exfalso. apply H1. rewrite <- Ek. apply in_map. exact Hin. }
    rewrite Ex. lra.
  - rewrite lc_get_set_other by (intros ->; rewrite key_eqb_refl in E; discriminate). lra. Qed.

Definition ops_inv (sh : list nat) (ops : list (key * (tens -> tens))) (W0 : tens) (st : tens * list (key * tens)) : Prop :=
  forall x, valid sh x -> fst st x == W0 x + ops_sum ops (snd st) x.
Lemma ops_inv_step sh ops W0 st kop : NoDup (map fst ops) -> In kop ops ->
  ops_inv sh ops W0 st -> ops_inv sh ops W0 (dyk_step sh st kop).
Proof. destruct st as [W lc], kop as [k op]. intros Hnd Hin H x Hv. specialize (H x Hv). cbn [fst snd] in *.
  unfold dyk_step. cbv zeta. cbn [fst snd]. rewrite (ops_sum_set ops lc k _ x Hnd).
  assert (Ex : existsb (fun kop : key * (tens -> tens) => key_eqb (fst kop) k) ops = true).
  { apply existsb_exists. exists (k, op). split. exact Hin. apply key_eqb_refl. }
  rewrite Ex. rewrite (memo_ok sh _ x Hv), Qred_correct. rewrite (memo_ok sh _ x Hv), Qred_correct. lra. Qed.
Lemma ops_inv_sweep sh ops W0 : NoDup (map fst ops) -> forall l, incl l ops ->
  forall st, ops_inv sh ops W0 st -> ops_inv sh ops W0 (dyk_sweep sh l st).
Proof. intros Hnd. induction l as [|kop l IH]; intros Hl st H. exact H.
  rewrite dyk_sweep_cons. apply IH. intros a Ha; apply Hl; right; exact Ha.
  apply ops_inv_step; try assumption. apply Hl. left; reflexivity. Qed.
Lemma ops_inv_loop sh ops W0 n : NoDup (map fst ops) ->
  forall st, ops_inv sh ops W0 st -> ops_inv sh ops W0 (dyk_loop sh ops n st).
Proof. intros Hnd. induction n as [|n IH]; intros st H; cbn [dyk_loop]. exact H.
  apply IH. apply ops_inv_sweep; try assumption. apply incl_refl. Qed.
Lemma ops_inv_init sh ops W0 : ops_inv sh ops W0 (W0, []).
Proof. intros x _. cbn [fst snd]. unfold ops_sum.
  assert (Z : qsum (map (fun kop : key * (tens -> tens) => lc_get [] (fst kop) x) ops) == 0).
  { induction ops as [|kop r IH]; cbn [map qsum]. reflexivity. rewrite IH. unfold lc_get. cbn. lra. }
  rewrite Z. lra. Qed.

Section SweepFix.
Variables (sh : list nat) (W : tens) (lc : list (key * tens)).
Lemma sweep_fix_aux : forall ops Wc lcc,
  NoDup (map fst ops) ->
  (forall kop, In kop ops -> op_proper sh (snd kop)) ->
  teq sh Wc W ->
  (forall kop, In kop ops -> teq sh (lc_get lcc (fst kop)) (lc_get lc (fst kop))) ->
  (forall kop, In kop ops -> teq sh (lc_get (snd (dyk_sweep sh ops (Wc, lcc))) (fst kop)) (lc_get lc (fst kop))) ->
  (forall kop, In kop ops -> teq sh (snd kop (vsub W (lc_get lc (fst kop)))) W) /\
  teq sh (fst (dyk_sweep sh ops (Wc, lcc))) W.
Proof. induction ops as [|[k op] r IH]; intros Wc lcc Hnd Hp HW Hlc Hfix.
  - split. intros kop []. exact HW.
  - cbn [map fst] in Hnd. inversion Hnd as [|? ? Hnotin Hnd']; subst.
    rewrite dyk_sweep_cons in Hfix |- *.
    set (rolled := memo sh (fun x => Qred (Wc x - lc_get lcc k x))).
    set (W1 := op rolled).
    set (new := memo sh (fun x => Qred (W1 x - rolled x))).
    assert (Est : dyk_step sh (Wc, lcc) (k, op) = (W1, lc_set lcc k new)) by reflexivity.
    rewrite Est in Hfix |- *.
    assert (Hnew : teq sh new (lc_get lc k)).
    { pose proof (Hfix (k, op) (or_introl eq_refl)) as H. cbn [fst] in H.
      rewrite sweep_get_other in H by exact Hnotin. cbn [snd] in H. rewrite lc_get_set_same in H. exact H. }
    assert (Hk : teq sh (lc_get lcc k) (lc_get lc k)) by (apply (Hlc (k, op)); left; reflexivity).
    assert (Hr : teq sh rolled (vsub W (lc_get lc k))).
    { unfold rolled. apply memo_teq_l. intros x Hx. rewrite Qred_correct. unfold vsub. rewrite (HW x Hx), (Hk x Hx). reflexivity. }
    assert (HW1 : teq sh W1 W).
    { intros x Hx. pose proof (Hnew x Hx) as H. unfold new in H. rewrite memo_ok in H by assumption. rewrite Qred_correct in H.
      pose proof (Hr x Hx) as H2. unfold vsub in H2. pose proof (HW x Hx). pose proof (Hk x Hx). lra. }
    destruct (IH W1 (lc_set lcc k new) Hnd' (fun kop H => Hp kop (or_intror H)) HW1) as [IH1 IH2].
    + intros kop Hin. rewrite lc_get_set_other. apply Hlc; right; assumption.
      intros E. apply Hnotin. rewrite <- E. apply in_map; assumption.
    + intros kop Hin. apply Hfix. right; assumption.
    + split; [|exact IH2]. intros kop [<-|Hin]; [|apply IH1; assumption]. cbn [fst snd].
      eapply teq_trans; [|exact HW1]. apply (Hp (k, op) (or_introl eq_refl)). apply teq_sym; exact Hr.
Qed.
End SweepFix.

(* Fixpoint => nearest for the model's sweep: distinct keys, every map a
   nearest-point map onto the set named by its key; a state that satisfies the
   increment-sum invariant and whose stored changes are reproduced by one more
   sweep is the nearest point of the intersection of the sets to W0. *)
Theorem dyk_sweep_fixpoint_nearest sh (ops : list (key * (tens -> tens))) (Cof : key -> tens -> Prop) (W0 W : tens) lc :
  NoDup (map fst ops) ->
  (forall kop, In kop ops ->
     is_proj (all_idx sh) (Cof (fst kop)) (snd kop) /\ op_proper sh (snd kop) /\
     (forall f g, teq sh f g -> Cof (fst kop) f -> Cof (fst kop) g)) ->
  ops_inv sh ops W0 (W, lc) ->
  (forall kop, In kop ops -> teq sh (lc_get (snd (dyk_sweep sh ops (W, lc))) (fst kop)) (lc_get lc (fst kop))) ->
  teq sh (fst (dyk_sweep sh ops (W, lc))) W /\
  (forall kop, In kop ops -> Cof (fst kop) W) /\
  (forall z, (forall kop, In kop ops -> Cof (fst kop) z) ->
     ip (all_idx sh) (vsub W0 W) (vsub z W) <= 0 /\
     ip (all_idx sh) (vsub W0 W) (vsub W0 W) <= ip (all_idx sh) (vsub W0 z) (vsub W0 z)).
Proof. intros Hnd Hops Hinv Hfix.
  destruct (sweep_fix_aux sh W lc ops W lc Hnd (fun kop H => proj1 (proj2 (Hops kop H))) (teq_refl sh W)
              (fun kop _ => teq_refl sh _) Hfix) as [Hsteps HW].
  set (sl := map (fun kop : key * (tens -> tens) => mkSlot (Cof (fst kop)) (snd kop) (lc_get lc (fst kop))) ops).
  destruct (step_fixpoints_nearest (all_idx sh) sl W0 W) as [HC Hvi].
  - intros s Hs. apply in_map_iff in Hs. destruct Hs as [kop [<- Hin]]. cbn [s_C s_P]. apply (Hops kop Hin).
  - intros s Hs f g' E. apply in_map_iff in Hs. destruct Hs as [kop [<- Hin]]. cbn [s_C].
    apply (proj2 (proj2 (Hops kop Hin))). apply teq_veq. exact E.
  - intros s Hs. apply in_map_iff in Hs. destruct Hs as [kop [<- Hin]]. cbn [s_P s_e]. apply teq_veq. apply Hsteps. exact Hin.
  - apply teq_veq. intros x Hx. rewrite (Hinv x Hx). cbn [fst snd]. unfold vadd, vsum, sl, ops_sum. rewrite !map_map. cbn [s_e]. reflexivity.
  - split. exact HW. split.
    + intros kop Hin. apply (HC (mkSlot (Cof (fst kop)) (snd kop) (lc_get lc (fst kop)))). unfold sl. apply in_map_iff. exists kop. split; [reflexivity|exact Hin].
    + intros z Hz.
      assert (Hz' : forall s, In s sl -> s_C s z).
      { intros s Hs. apply in_map_iff in Hs. destruct Hs as [kop [<- Hin]]. cbn [s_C]. apply Hz; exact Hin. }
      split. apply Hvi; exact Hz'. apply vi_nearest. apply Hvi; exact Hz'. Qed.

(* the same for the state reached after any number of sweeps from (W0, []) *)
Theorem dyk_loop_fixpoint_nearest sh (ops : list (key * (tens -> tens))) (Cof : key -> tens -> Prop) (W0 : tens) (n : nat) :
  NoDup (map fst ops) ->
  (forall kop, In kop ops ->
     is_proj (all_idx sh) (Cof (fst kop)) (snd kop) /\ op_proper sh (snd kop) /\
     (forall f g, teq sh f g -> Cof (fst kop) f -> Cof (fst kop) g)) ->
  let st := dyk_loop sh ops n (W0, []) in
  (forall kop, In kop ops -> teq sh (lc_get (snd (dyk_sweep sh ops st)) (fst kop)) (lc_get (snd st) (fst kop))) ->
  teq sh (fst (dyk_sweep sh ops st)) (fst st) /\
  (forall kop, In kop ops -> Cof (fst kop) (fst st)) /\
  (forall z, (forall kop, In kop ops -> Cof (fst kop) z) ->
     ip (all_idx sh) (vsub W0 (fst st)) (vsub z (fst st)) <= 0 /\
     ip (all_idx sh) (vsub W0 (fst st)) (vsub W0 (fst st)) <= ip (all_idx sh) (vsub W0 z) (vsub W0 z)).
Proof. intros Hnd Hops st Hfix.
  pose proof (ops_inv_loop sh ops W0 n Hnd _ (ops_inv_init sh ops W0)) as Hinv. fold st in Hinv.
  destruct st as [W lc] eqn:Est. cbn [fst snd] in *.
  apply (dyk_sweep_fixpoint_nearest sh ops Cof W0 W lc Hnd Hops Hinv Hfix). Qed.

(* ================================================================== *)
(* Part G: the members of group_ops, the set named by a key             *)
(* ================================================================== *)
Inductive gop (c : dyk_cfg) : key * (tens -> tens) -> Prop :=
| gop_mono d g : (d < k_rank c)%nat -> (g = 0 \/ g = 1)%nat -> (g + 1 < nth d (k_shape c) 0)%nat ->
    ((nth d (k_monos c) 0 =? 0)%Z && (nth d (k_unis c) 0 =? 0)%Z = false) ->
    gop c ([0; zn d; zn g]%Z, mono_group (k_shape c) (nth d (k_monos c) 0%Z) (nth d (k_unis c) 0%Z) d g)
| gop_edge m cd dir g0 g1 : In (m, cd, dir) (k_edge c) -> (g0 = 0 \/ g0 = 1)%nat -> (g1 = 0 \/ g1 = 1)%nat ->
    (g0 < nth m (k_shape c) 0 - 1)%nat -> (g1 < nth cd (k_shape c) 0 - 1)%nat ->
    gop c ([1; zn m; zn cd; dir; zn g0; zn g1]%Z, edge_group (k_shape c) (m, cd, dir) g0 g1)
| gop_trap m cd dir g : In (m, cd, dir) (k_trap c) -> (g = 0 \/ g = 1)%nat -> (g < nth cd (k_shape c) 0 - 1)%nat ->
    gop c ([2; zn m; zn cd; dir; zn g]%Z, trap_group (k_shape c) (m, cd, dir) g)
| gop_mdom p q g0 g1 g2 : In (p, q) (k_mdom c) -> (g0 = 0 \/ g0 = 1)%nat -> (g1 = 0 \/ g1 = 1)%nat ->
    (g0 < nth p (k_shape c) 0 - 1)%nat -> (g1 < nth q (k_shape c) 0 - 1)%nat ->
    gop c ([3; zn p; zn q; zn g0; zn g1; zb g2]%Z, mdom_group (k_shape c) p q g0 g1 g2)
| gop_rdom p q i j : In (p, q) (k_rdom c) -> (i < nth p (k_shape c) 0)%nat -> (j < nth q (k_shape c) 0)%nat ->
    gop c ([4; zn p; zn q; zn i; zn j]%Z, rdom_group (k_shape c) p q i j)
| gop_jmono p q g0 g1 g2 : In (p, q) (k_jmono c) -> (g0 = 0 \/ g0 = 1)%nat -> (g1 = 0 \/ g1 = 1)%nat ->
    (g0 < nth p (k_shape c) 0 - 1)%nat -> (g1 < nth q (k_shape c) 0 - 1)%nat ->
    gop c ([5; zn p; zn q; zn g0; zn g1; zb g2]%Z, jmono_group (k_shape c) p q g0 g1 g2)
| gop_juni dims valley v o f : In (dims, valley) (k_juni c) ->
    In v (all_vertices (map (fun d => nth d (k_shape c) 0%nat) dims)) -> In o (all_offsets (length dims)) ->
    junimod_group (k_shape c) dims valley v o = Some f ->
    gop c ((6 :: zn (length dims) :: map zn dims ++ map zn v ++ map zb o)%Z, f).

Lemma in_01 g : In g [0%nat; 1%nat] <-> (g = 0 \/ g = 1)%nat.
Proof. cbn. intuition. Qed.
Lemma in_0011 g0 g1 : In (g0, g1) [(0, 0); (0, 1); (1, 0); (1, 1)]%nat <-> (g0 = 0 \/ g0 = 1)%nat /\ (g1 = 0 \/ g1 = 1)%nat.
Proof. cbn. split.
  - intros [E|[E|[E|[E|[]]]]]; inversion E; auto.
  - intros [[-> | ->] [-> | ->]]; auto. Qed.
Lemma in_000111 g0 g1 (g2 : bool) :
  In (g0, g1, g2) [(0,0,false); (0,0,true); (0,1,false); (0,1,true); (1,0,false); (1,0,true); (1,1,false); (1,1,true)]%nat <->
  (g0 = 0 \/ g0 = 1)%nat /\ (g1 = 0 \/ g1 = 1)%nat.
Proof. cbn. split.
  - intros [E|[E|[E|[E|[E|[E|[E|[E|[]]]]]]]]]; inversion E; auto.
  - intros [[-> | ->] [-> | ->]]; destruct g2; auto 10. Qed.
Lemma orb_leb_false a b x y : ((a <=? x)%nat || (b <=? y)%nat = false) <-> (x < a /\ y < b)%nat.
Proof. rewrite orb_false_iff, !Nat.leb_gt. reflexivity. Qed.

Lemma group_ops_gop c kop : In kop (group_ops c) <-> gop c kop.
Proof. unfold group_ops. cbv zeta. split.
  - intros Hin.
    apply in_app_or in Hin. destruct Hin as [Hin|Hin].
    { apply in_flat_map in Hin. destruct Hin as [d [Hd Hin]]. apply in_seq in Hd.
      destruct ((nth d (k_monos c) 0 =? 0)%Z && (nth d (k_unis c) 0 =? 0)%Z) eqn:Emu; [destruct Hin|].
      apply in_flat_map in Hin. destruct Hin as [g [Hg Hin]]. apply in_01 in Hg.
      destruct (Nat.leb_spec (nth d (k_shape c) 0%nat) (g + 1)%nat); [destruct Hin|]. destruct Hin as [<-|[]].
      apply gop_mono; try assumption. unfold k_rank; lia. }
    apply in_app_or in Hin. destruct Hin as [Hin|Hin].
    { apply in_flat_map in Hin. destruct Hin as [[[m cd] dir] [Ht Hin]].
      apply in_flat_map in Hin. destruct Hin as [[g0 g1] [Hg Hin]]. apply in_0011 in Hg.
      destruct ((nth m (k_shape c) 0 - 1 <=? g0)%nat || (nth cd (k_shape c) 0 - 1 <=? g1)%nat) eqn:Eg; [destruct Hin|].
      destruct Hin as [<-|[]]. apply orb_leb_false in Eg. apply gop_edge; tauto. }
    apply in_app_or in Hin. destruct Hin as [Hin|Hin].
    { apply in_flat_map in Hin. destruct Hin as [[[m cd] dir] [Ht Hin]].
      apply in_flat_map in Hin. destruct Hin as [g [Hg Hin]]. apply in_01 in Hg.
      destruct (Nat.leb_spec (nth cd (k_shape c) 0%nat - 1)%nat g); [destruct Hin|].
      destruct Hin as [<-|[]]. apply gop_trap; assumption. }
    apply in_app_or in Hin. destruct Hin as [Hin|Hin].
    { apply in_flat_map in Hin. destruct Hin as [[p q] [Ht Hin]].
      apply in_flat_map in Hin. destruct Hin as [[[g0 g1] g2] [Hg Hin]]. apply in_000111 in Hg.
      destruct ((nth p (k_shape c) 0 - 1 <=? g0)%nat || (nth q (k_shape c) 0 - 1 <=? g1)%nat) eqn:Eg; [destruct Hin|].
      destruct Hin as [<-|[]]. apply orb_leb_false in Eg. apply gop_mdom; tauto. }
    apply in_app_or in Hin. destruct Hin as [Hin|Hin].
    { apply in_flat_map in Hin. destruct Hin as [[p q] [Ht Hin]].
      apply in_map_iff in Hin. destruct Hin as [[i j] [<- Hij]]. cbn [snd fst].
      apply in_prod_iff in Hij. destruct Hij as [Hi Hj]. apply in_seq in Hi. apply in_seq in Hj.
      apply gop_rdom; try assumption; lia. }
    apply in_app_or in Hin. destruct Hin as [Hin|Hin].
    { apply in_flat_map in Hin. destruct Hin as [[p q] [Ht Hin]].
      apply in_flat_map in Hin. destruct Hin as [[[g0 g1] g2] [Hg Hin]]. apply in_000111 in Hg.
      destruct ((nth p (k_shape c) 0 - 1 <=? g0)%nat || (nth q (k_shape c) 0 - 1 <=? g1)%nat) eqn:Eg; [destruct Hin|].
      destruct Hin as [<-|[]]. apply orb_leb_false in Eg. apply gop_jmono; tauto. }
    { apply in_flat_map in Hin. destruct Hin as [[dims valley] [Ht Hin]].
      apply in_flat_map in Hin. destruct Hin as [v [Hv Hin]].
      apply in_flat_map in Hin. destruct Hin as [o [Ho Hin]].
      destruct (junimod_group (k_shape c) dims valley v o) as [f|] eqn:Ef; [|destruct Hin].
      destruct Hin as [<-|[]]. apply (gop_juni c dims valley v o f); assumption. }
  - intros H. destruct H.
    + apply in_or_app. left. apply in_flat_map. exists d. split. apply in_seq. unfold k_rank in *. lia.
      rewrite H2. apply in_flat_map. exists g. split. apply in_01; assumption.
      destruct (Nat.leb_spec (nth d (k_shape c) 0%nat) (g + 1)%nat); [lia|]. left; reflexivity.
    + apply in_or_app. right. apply in_or_app. left.
      apply in_flat_map. exists (m, cd, dir). split. assumption.
      apply in_flat_map. exists (g0, g1). split. apply in_0011; tauto.
      assert (E : (nth m (k_shape c) 0 - 1 <=? g0)%nat || (nth cd (k_shape c) 0 - 1 <=? g1)%nat = false) by (apply orb_leb_false; tauto).
      rewrite E. left; reflexivity.
    + do 2 (apply in_or_app; right). apply in_or_app. left.
      apply in_flat_map. exists (m, cd, dir). split. assumption.
      apply in_flat_map. exists g. split. apply in_01; assumption.
      destruct (Nat.leb_spec (nth cd (k_shape c) 0%nat - 1)%nat g); [lia|]. left; reflexivity.
    + do 3 (apply in_or_app; right). apply in_or_app. left.
      apply in_flat_map. exists (p, q). split. assumption.
      apply in_flat_map. exists (g0, g1, g2). split. apply in_000111; tauto.
      assert (E : (nth p (k_shape c) 0 - 1 <=? g0)%nat || (nth q (k_shape c) 0 - 1 <=? g1)%nat = false) by (apply orb_leb_false; tauto).
      rewrite E. left; reflexivity.
    + do 4 (apply in_or_app; right). apply in_or_app. left.
      apply in_flat_map. exists (p, q). split. assumption.
      apply in_map_iff. exists (i, j). split. reflexivity. apply in_prod_iff. split; apply in_seq; lia.
    + do 5 (apply in_or_app; right). apply in_or_app. left.
      apply in_flat_map. exists (p, q). split. assumption.
      apply in_flat_map. exists (g0, g1, g2). split. apply in_000111; tauto.
      assert (E : (nth p (k_shape c) 0 - 1 <=? g0)%nat || (nth q (k_shape c) 0 - 1 <=? g1)%nat = false) by (apply orb_leb_false; tauto).
      rewrite E. left; reflexivity.
    + do 6 (apply in_or_app; right).
      apply in_flat_map. exists (dims, valley). split. assumption.
      apply in_flat_map. exists v. split. assumption.
      apply in_flat_map. exists o. split. assumption. rewrite H2. left; reflexivity.
Qed.

(* the constraint set named by a key (families whose group update is proved to
   be a nearest-point map; other keys: no constraint) *)
Definition key_set (c : dyk_cfg) (k : key) : tens -> Prop :=
  let sh := k_shape c in
  match k with
  | [0; d; g]%Z =>
      mono_group_ok sh (nth (Z.to_nat d) (k_monos c) 0%Z) (nth (Z.to_nat d) (k_unis c) 0%Z) (Z.to_nat d) (Z.to_nat g)
  | [1; m; cd; dir; g0; g1]%Z => edge_group_ok sh (Z.to_nat m, Z.to_nat cd, dir) (Z.to_nat g0) (Z.to_nat g1)
  | [2; m; cd; dir; g]%Z => trap_group_ok sh (Z.to_nat m, Z.to_nat cd, dir) (Z.to_nat g)
  | [3; p; q; g0; g1; g2]%Z => mdom_group_ok sh (Z.to_nat p) (Z.to_nat q) (Z.to_nat g0) (Z.to_nat g1) (g2 =? 1)%Z
  | [5; p; q; g0; g1; g2]%Z => jmono_group_ok sh (Z.to_nat p) (Z.to_nat q) (Z.to_nat g0) (Z.to_nat g1) (g2 =? 1)%Z
  | _ => fun _ => True
  end.

Lemma key_set_mono c d g : key_set c [0; zn d; zn g]%Z =
  mono_group_ok (k_shape c) (nth d (k_monos c) 0%Z) (nth d (k_unis c) 0%Z) d g.
Proof. unfold key_set, zn. cbv beta iota zeta. rewrite !Nat2Z.id. reflexivity. Qed.
Lemma key_set_edge c m cd dir g0 g1 : key_set c [1; zn m; zn cd; dir; zn g0; zn g1]%Z = edge_group_ok (k_shape c) (m, cd, dir) g0 g1.
Proof. unfold key_set, zn. cbv beta iota zeta. rewrite !Nat2Z.id. reflexivity. Qed.
Lemma key_set_trap c m cd dir g : key_set c [2; zn m; zn cd; dir; zn g]%Z = trap_group_ok (k_shape c) (m, cd, dir) g.
Proof. unfold key_set, zn. cbv beta iota zeta. rewrite !Nat2Z.id. reflexivity. Qed.
Lemma zb_eqb g2 : (zb g2 =? 1)%Z = g2.
Proof. destruct g2; reflexivity. Qed.
Lemma key_set_mdom c p q g0 g1 g2 : key_set c [3; zn p; zn q; zn g0; zn g1; zb g2]%Z = mdom_group_ok (k_shape c) p q g0 g1 g2.
Proof. unfold key_set, zn. cbv beta iota zeta. rewrite !Nat2Z.id, zb_eqb. reflexivity. Qed.
Lemma key_set_jmono c p q g0 g1 g2 : key_set c [5; zn p; zn q; zn g0; zn g1; zb g2]%Z = jmono_group_ok (k_shape c) p q g0 g1 g2.
Proof. unfold key_set, zn. cbv beta iota zeta. rewrite !Nat2Z.id, zb_eqb. reflexivity. Qed.

(* the six exact families: no range dominance, no joint unimodality *)
Definition exact_families (c : dyk_cfg) : Prop := k_rdom c = [] /\ k_juni c = [].

Lemma group_ops_exact c : dyk_cfg_ok c -> exact_families c ->
  forall kop, In kop (group_ops c) ->
    is_proj (all_idx (k_shape c)) (key_set c (fst kop)) (snd kop) /\ op_proper (k_shape c) (snd kop) /\
    (forall f g, teq (k_shape c) f g -> key_set c (fst kop) f -> key_set c (fst kop) g).
Proof. intros (Oe & Ot & Om & Oj) [Er Eju] kop Hin. apply group_ops_gop in Hin. destruct Hin; cbn [fst snd].
  - assert (Hdl : (d < length (k_shape c))%nat) by (apply k_rank_lt; assumption).
    rewrite key_set_mono. split; [|split].
    apply mono_group_is_proj; assumption. apply mono_group_proper; assumption.
    intros f f'. apply mono_group_ok_teq. assumption.
  - destruct (Oe _ H) as (H4 & H5 & H6 & H7). apply k_rank_lt in H4. apply k_rank_lt in H5.
    rewrite key_set_edge. split; [|split].
    apply edge_group_is_proj; assumption. apply edge_group_proper; assumption.
    intros f f'. apply edge_group_ok_teq.
  - destruct (Ot _ H) as (H4 & H5 & H6 & H7). apply k_rank_lt in H4. apply k_rank_lt in H5.
    rewrite key_set_trap. split; [|split].
    apply trap_group_is_proj; assumption. apply trap_group_proper; assumption.
    intros f f'. apply trap_group_ok_teq. assumption.
  - destruct (Om _ H) as (H4 & H5 & H6). cbn [fst snd] in *. apply k_rank_lt in H4. apply k_rank_lt in H5.
    rewrite key_set_mdom. split; [|split].
    apply mdom_group_is_proj; assumption. apply mdom_group_proper; assumption.
    intros f f'. apply mdom_group_ok_teq.
  - rewrite Er in H. destruct H.
  - destruct (Oj _ H) as (H4 & H5 & H6). cbn [fst snd] in *. apply k_rank_lt in H4. apply k_rank_lt in H5.
    rewrite key_set_jmono. split; [|split].
    apply jmono_group_is_proj; assumption. apply jmono_group_proper; assumption.
    intros f f'. apply jmono_group_ok_teq.
  - rewrite Eju in H. destruct H. Qed.

(* a feasible kernel lies in every group's set *)
Lemma feasible_key_sets c z : dyk_cfg_ok c -> dyk_feasible c z ->
  forall kop, In kop (group_ops c) -> key_set c (fst kop) z.
Proof. intros (Oe & Ot & Om & Oj) (Fm & Fu & Fe & Ft & Fd & Fr & Fj & Fju) kop Hin.
  apply group_ops_gop in Hin. destruct Hin; cbn [fst snd].
  - rewrite key_set_mono. apply mono_feasible_group_ok. apply k_rank_lt; assumption.
    apply Fm; assumption. apply Fu; assumption.
  - rewrite key_set_edge. destruct (Oe _ H) as (H4 & H5 & H6 & H7). apply edge_feasible_group_ok. assumption. apply Fe; assumption.
  - rewrite key_set_trap. destruct (Ot _ H) as (H4 & H5 & H6 & H7). apply trap_feasible_group_ok. assumption. apply Ft; assumption.
  - rewrite key_set_mdom. apply mdom_feasible_group_ok. apply (Fd _ H).
  - exact I.
  - rewrite key_set_jmono. apply jmono_feasible_group_ok. apply (Fj _ H).
  - cbn [key_set]. unfold key_set. exact I. Qed.

(* ---- converse: a kernel in every group's set is feasible (exact families) ---- *)
Lemma parity_group k : exists g, (g = 0 \/ g = 1)%nat /\ (g <= k)%nat /\ Nat.even (k - g) = true.
Proof. destruct (Nat.even k) eqn:E.
  - exists 0%nat. rewrite Nat.sub_0_r. auto with arith.
  - destruct k as [|k]. discriminate E. exists 1%nat. split. auto. split. lia.
    cbn [Nat.sub]. rewrite Nat.sub_0_r. rewrite Nat.even_succ in E. rewrite <- Nat.negb_odd, E. reflexivity. Qed.

(* lattice sizes >= 2 on the main axis of a trapezoid trust (so that the lowest
   and the highest main index differ) *)
Definition trap_sizes_ok (c : dyk_cfg) : Prop :=
  forall t, In t (k_trap c) -> (2 <= nth (fst (fst t)) (k_shape c) 0)%nat.

Lemma key_sets_feasible c W : dyk_cfg_ok c -> exact_families c -> trap_sizes_ok c ->
  (forall kop, In kop (group_ops c) -> key_set c (fst kop) W) -> dyk_feasible c W.
Proof. intros (Oe & Ot & Om & Oj) [Er Eju] Hts HK.
  assert (HG : forall kop, gop c kop -> key_set c (fst kop) W) by (intros kop Hg; apply HK, group_ops_gop; exact Hg).
  clear HK. unfold dyk_feasible. cbv zeta. split; [|split; [|split; [|split; [|split; [|split; [|split]]]]]].
  - (* monotonicity *)
    intros d Hd Hm i Hv Hs. destruct (parity_group (nth d i 0%nat)) as [g (Hg & Hle & Hev)].
    assert (Hgop : gop c ([0; zn d; zn g]%Z, mono_group (k_shape c) (nth d (k_monos c) 0%Z) (nth d (k_unis c) 0%Z) d g)).
    { apply gop_mono; try assumption. lia. rewrite Hm. reflexivity. }
    pose proof (HG _ Hgop) as H. cbn [fst] in H. rewrite key_set_mono in H.
    destruct (H i (nth d i 0%nat) Hv Hle Hev Hs) as [A _]. specialize (A Hm). rewrite upd_self in A. exact A.
  - (* unimodality *)
    intros d Hd Hu i Hv Hs. destruct (parity_group (nth d i 0%nat)) as [g (Hg & Hle & Hev)].
    assert (Hgop : gop c ([0; zn d; zn g]%Z, mono_group (k_shape c) (nth d (k_monos c) 0%Z) (nth d (k_unis c) 0%Z) d g)).
    { apply gop_mono; try assumption. lia. apply andb_false_iff. right. apply Z.eqb_neq. exact Hu. }
    pose proof (HG _ Hgop) as H. cbn [fst] in H. rewrite key_set_mono in H.
    destruct (H i (nth d i 0%nat) Hv Hle Hev Hs) as [_ B]. specialize (B Hu). rewrite upd_self in B. exact B.
  - (* Edgeworth *)
    intros [[m cd] dir] Ht. destruct (Oe _ Ht) as (H1 & H2 & H3 & H4).
    assert (Hsq : forall b i jl, valid (k_shape c) b -> (S i < nth m (k_shape c) 0)%nat -> (S jl < nth cd (k_shape c) 0)%nat ->
              edge_C (W (at2 b m cd i (rv dir (nth cd (k_shape c) 0%nat) jl))) (W (at2 b m cd (S i) (rv dir (nth cd (k_shape c) 0%nat) jl)))
                     (W (at2 b m cd i (rv dir (nth cd (k_shape c) 0%nat) (S jl)))) (W (at2 b m cd (S i) (rv dir (nth cd (k_shape c) 0%nat) (S jl))))).
    { intros b i jl Hb Hi Hj. destruct (parity_group i) as [g0 (Hg0 & Hle0 & Hev0)]. destruct (parity_group jl) as [g1 (Hg1 & Hle1 & Hev1)].
      assert (Hgop : gop c ([1; zn m; zn cd; dir; zn g0; zn g1]%Z, edge_group (k_shape c) (m, cd, dir) g0 g1)) by (apply gop_edge; try assumption; lia).
      pose proof (HG _ Hgop) as H. cbn [fst] in H. rewrite key_set_edge in H. apply (H b i jl); assumption. }
    intros b i j Hb Hi Hj. destruct (rv_cases dir (nth cd (k_shape c) 0%nat) H4) as [[Ed Erv]|[Ed Erv]]; rewrite Ed.
    + pose proof (Hsq b i j Hb Hi Hj) as H. rewrite !Erv in H. unfold edge_C in H. unfold esq. lra.
    + pose proof (Hsq b i (nth cd (k_shape c) 0 - 1 - S j)%nat Hb Hi ltac:(lia)) as H. rewrite !Erv in H.
      replace (nth cd (k_shape c) 0 - 1 - (nth cd (k_shape c) 0 - 1 - S j))%nat with (S j) in H by lia.
      replace (nth cd (k_shape c) 0 - 1 - S (nth cd (k_shape c) 0 - 1 - S j))%nat with j in H by lia.
      unfold edge_C in H. unfold esq. lra.
  - (* trapezoid *)
    intros [[m cd] dir] Ht. destruct (Ot _ Ht) as (H1 & H2 & H3 & H4). pose proof (Hts _ Ht) as Hsz. cbn [fst] in Hsz.
    apply k_rank_lt in H1. apply k_rank_lt in H2.
    assert (Hpr : forall b jl, valid (k_shape c) b -> (S jl < nth cd (k_shape c) 0)%nat ->
              trap_C m (nth m (k_shape c) 0 - 1)%nat b jl (W (upd b cd (rv dir (nth cd (k_shape c) 0%nat) jl)))
                     (W (upd b cd (rv dir (nth cd (k_shape c) 0%nat) (S jl))))).
    { intros b jl Hb Hj. destruct (parity_group jl) as [g (Hg & Hle & Hev)].
      assert (Hgop : gop c ([2; zn m; zn cd; dir; zn g]%Z, trap_group (k_shape c) (m, cd, dir) g)) by (apply gop_trap; try assumption; lia).
      pose proof (HG _ Hgop) as H. cbn [fst] in H. rewrite key_set_trap in H. apply (H b jl); assumption. }
    assert (Hlo : forall b jl, valid (k_shape c) b -> (S jl < nth cd (k_shape c) 0)%nat ->
              W (at2 b m cd 0%nat (rv dir (nth cd (k_shape c) 0%nat) (S jl))) <= W (at2 b m cd 0%nat (rv dir (nth cd (k_shape c) 0%nat) jl))).
    { intros b jl Hb Hj.
      assert (Hv0 : valid (k_shape c) (at2 b m cd 0%nat 0%nat)) by (apply at2_valid; [assumption|lia|lia]).
      pose proof (Hpr _ jl Hv0 Hj) as H. unfold trap_C in H. cbv zeta in H.
      rewrite at2_nth_m in H by (try assumption; rewrite (valid_length _ _ Hb); assumption).
      cbn [Nat.eqb] in H. rewrite !at2_upd_c in H. exact H. }
    assert (Hhi : forall b jl, valid (k_shape c) b -> (S jl < nth cd (k_shape c) 0)%nat ->
              W (at2 b m cd (nth m (k_shape c) 0 - 1)%nat (rv dir (nth cd (k_shape c) 0%nat) jl)) <=
              W (at2 b m cd (nth m (k_shape c) 0 - 1)%nat (rv dir (nth cd (k_shape c) 0%nat) (S jl)))).
    { intros b jl Hb Hj.
      assert (Hv0 : valid (k_shape c) (at2 b m cd (nth m (k_shape c) 0 - 1)%nat 0%nat)) by (apply at2_valid; [assumption|lia|lia]).
      pose proof (Hpr _ jl Hv0 Hj) as H. unfold trap_C in H. cbv zeta in H.
      rewrite at2_nth_m in H by (try assumption; rewrite (valid_length _ _ Hb); assumption).
      destruct (Nat.eqb_spec (nth m (k_shape c) 0 - 1)%nat 0%nat) as [E0|E0]; [lia|].
      rewrite Nat.eqb_refl in H. rewrite !at2_upd_c in H. exact H. }
    intros b j Hb Hj. destruct (rv_cases dir (nth cd (k_shape c) 0%nat) H4) as [[Ed Erv]|[Ed Erv]]; rewrite Ed.
    + pose proof (Hlo b j Hb Hj) as A. pose proof (Hhi b j Hb Hj) as B. rewrite !Erv in A, B. split; assumption.
    + pose proof (Hlo b (nth cd (k_shape c) 0 - 1 - S j)%nat Hb ltac:(lia)) as A.
      pose proof (Hhi b (nth cd (k_shape c) 0 - 1 - S j)%nat Hb ltac:(lia)) as B. rewrite !Erv in A, B.
      replace (nth cd (k_shape c) 0 - 1 - (nth cd (k_shape c) 0 - 1 - S j))%nat with (S j) in A, B by lia.
      replace (nth cd (k_shape c) 0 - 1 - S (nth cd (k_shape c) 0 - 1 - S j))%nat with j in A, B by lia.
      split; assumption.
  - (* monotonic dominance *)
    intros [p q] Ht. cbn [fst snd]. intros b0 i j Hb Hi Hj.
    destruct (parity_group i) as [g0 (Hg0 & Hle0 & Hev0)]. destruct (parity_group j) as [g1 (Hg1 & Hle1 & Hev1)].
    assert (Hgop : forall g2, gop c ([3; zn p; zn q; zn g0; zn g1; zb g2]%Z, mdom_group (k_shape c) p q g0 g1 g2)) by (intros g2; apply gop_mdom; try assumption; lia).
    pose proof (HG _ (Hgop true)) as A. pose proof (HG _ (Hgop false)) as B. cbn [fst] in A, B. rewrite key_set_mdom in A, B.
    split; [apply (A b0 i j)|apply (B b0 i j)]; assumption.
  - rewrite Er. intros pq [].
  - (* joint monotonicity *)
    intros [p q] Ht. cbn [fst snd]. intros b0 i j Hb Hi Hj.
    destruct (parity_group i) as [g0 (Hg0 & Hle0 & Hev0)]. destruct (parity_group j) as [g1 (Hg1 & Hle1 & Hev1)].
    assert (Hgop : forall g2, gop c ([5; zn p; zn q; zn g0; zn g1; zb g2]%Z, jmono_group (k_shape c) p q g0 g1 g2)) by (intros g2; apply gop_jmono; try assumption; lia).
    pose proof (HG _ (Hgop true)) as A. pose proof (HG _ (Hgop false)) as B. cbn [fst] in A, B. rewrite key_set_jmono in A, B.
    split; [apply (A b0 i j)|apply (B b0 i j)]; assumption.
  - rewrite Eju. intros ju [].
Qed.

(* Fixpoint => nearest feasible kernel, for the configured group maps of the six
   exact families: if one more sweep reproduces every stored change of the state
   reached after n sweeps from (W0, []), that state's kernel W is left unchanged,
   is feasible, and is the Euclidean-nearest feasible kernel to W0. *)
Theorem dykstra_fixpoint_nearest (c : dyk_cfg) (W0 : tens) (n : nat) :
  dyk_cfg_ok c -> exact_families c -> trap_sizes_ok c -> NoDup (map fst (group_ops c)) ->
  let sh := k_shape c in
  let st := dyk_loop sh (group_ops c) n (W0, []) in
  (forall kop, In kop (group_ops c) ->
     teq sh (lc_get (snd (dyk_sweep sh (group_ops c) st)) (fst kop)) (lc_get (snd st) (fst kop))) ->
  teq sh (fst (dyk_sweep sh (group_ops c) st)) (fst st) /\
  dyk_feasible c (fst st) /\
  (forall z, dyk_feasible c z ->
     ip (all_idx sh) (vsub W0 (fst st)) (vsub z (fst st)) <= 0 /\
     ip (all_idx sh) (vsub W0 (fst st)) (vsub W0 (fst st)) <= ip (all_idx sh) (vsub W0 z) (vsub W0 z)).
Proof. intros Hok Hex Hts Hnd sh st Hfix.
  destruct (dyk_loop_fixpoint_nearest sh (group_ops c) (key_set c) W0 n Hnd (group_ops_exact c Hok Hex) Hfix) as (H1 & H2 & H3).
  split. exact H1. split.
  - apply key_sets_feasible; assumption.
  - intros z Hz. apply H3. apply feasible_key_sets; assumption. Qed.

(* ================================================================== *)
(* Part H: deciding the predicates on concrete kernels; Examples        *)
(* ================================================================== *)
Definition unimodal_alongb (sh : list nat) (uni : Z) (d : nat) (f : tens) : bool :=
  forallb (fun i => if (S (nth d i 0) <? nth d sh 0)%nat
                    then (if uni_inc uni (nth d sh 0%nat) (nth d i 0%nat)
                          then Qle_bool (f i) (f (upd i d (S (nth d i 0%nat))))
                          else Qle_bool (f (upd i d (S (nth d i 0%nat)))) (f i))
                    else true) (all_idx sh).
Lemma unimodal_alongb_ok sh uni d f : unimodal_alongb sh uni d f = true -> unimodal_along sh uni d f.
Proof. intros H i Hv Hs. pose proof (forall_valid_check sh _ H i Hv) as Hc. cbv beta in Hc.
  apply Nat.ltb_lt in Hs. rewrite Hs in Hc. destruct (uni_inc uni (nth d sh 0%nat) (nth d i 0%nat)); apply Qle_bool_iff; exact Hc. Qed.

Definition sq_forallb (sh : list nat) (p q : nat) (lim : nat -> nat) (P : idx -> nat -> nat -> bool) : bool :=
  forallb (fun b => forallb (fun i => forallb (fun j => P b i j) (seq 0 (lim (nth q sh 0%nat)))) (seq 0 (lim (nth p sh 0%nat)))) (all_idx sh).
Lemma sq_forallb_ok sh p q lim P : sq_forallb sh p q lim P = true ->
  forall b i j, valid sh b -> (i < lim (nth p sh 0%nat))%nat -> (j < lim (nth q sh 0%nat))%nat -> P b i j = true.
Proof. intros H b i j Hb Hi Hj. pose proof (forall_valid_check sh _ H b Hb) as Hc. cbv beta in Hc.
  rewrite forallb_forall in Hc. specialize (Hc i ltac:(apply in_seq; lia)).
  rewrite forallb_forall in Hc. apply Hc. apply in_seq; lia. Qed.

Definition mdom_holdsb (sh : list nat) (p q : nat) (f : tens) : bool :=
  sq_forallb sh p q (fun s => (s - 1)%nat) (fun b i j =>
    Qle_bool ((f (at2 b p q i j) + f (at2 b p q (S i) (S j))) * (1#2)) (f (at2 b p q (S i) j)) &&
    Qle_bool (f (at2 b p q i (S j))) ((f (at2 b p q i j) + f (at2 b p q (S i) (S j))) * (1#2))).
Lemma mdom_holdsb_ok sh p q f : mdom_holdsb sh p q f = true -> mdom_holds sh p q f.
Proof. intros H b i j Hb Hi Hj. pose proof (sq_forallb_ok _ _ _ _ _ H b i j Hb ltac:(cbv beta; lia) ltac:(cbv beta; lia)) as Hc. cbv beta in Hc.
  apply andb_prop in Hc. destruct Hc as [H1 H2]. split; apply Qle_bool_iff; assumption. Qed.
Definition jmono_holdsb (sh : list nat) (p q : nat) (f : tens) : bool :=
  sq_forallb sh p q (fun s => (s - 1)%nat) (fun b i j =>
    Qle_bool ((f (at2 b p q (S i) j) + f (at2 b p q i (S j))) * (1#2)) (f (at2 b p q (S i) (S j))) &&
    Qle_bool (f (at2 b p q i j)) ((f (at2 b p q (S i) j) + f (at2 b p q i (S j))) * (1#2))).
Lemma jmono_holdsb_ok sh p q f : jmono_holdsb sh p q f = true -> jmono_holds sh p q f.
Proof. intros H b i j Hb Hi Hj. pose proof (sq_forallb_ok _ _ _ _ _ H b i j Hb ltac:(cbv beta; lia) ltac:(cbv beta; lia)) as Hc. cbv beta in Hc.
  apply andb_prop in Hc. destruct Hc as [H1 H2]. split; apply Qle_bool_iff; assumption. Qed.
Definition rdom_holdsb (sh : list nat) (p q : nat) (f : tens) : bool :=
  sq_forallb sh p q (fun s => s) (fun b i j =>
    Qle_bool ((f (at2 b p q i (nth q sh 0%nat - 1)) - f (at2 b p q i 0%nat)) -
              (f (at2 b p q (nth p sh 0%nat - 1) j) - f (at2 b p q 0%nat j))) 0).
Lemma rdom_holdsb_ok sh p q f : rdom_holdsb sh p q f = true -> rdom_holds sh p q f.
Proof. intros H b i j Hb Hi Hj. pose proof (sq_forallb_ok _ _ _ _ _ H b i j Hb Hi Hj) as Hc. cbv beta in Hc.
  apply Qle_bool_iff. exact Hc. Qed.

Definition junimod_holdsb (sh : list nat) (dims : list nat) (valley : bool) (W : tens) : bool :=
  let sizes := map (fun d => nth d sh 0%nat) dims in
  let centre := map (fun s => (s / 2)%nat) sizes in
  forallb (fun vertex => forallb (fun offs =>
      match ju_terms sizes centre vertex offs 0 with
      | Some terms => forallb (fun x => if valley then Qle_bool 0 (ju_viol dims (ju_eqn_of vertex terms) W x)
                                        else Qle_bool (ju_viol dims (ju_eqn_of vertex terms) W x) 0) (all_idx sh)
      | None => true
      end) (all_offsets (length dims))) (all_vertices sizes).
Lemma junimod_holdsb_ok sh dims valley W : junimod_holdsb sh dims valley W = true -> junimod_holds sh dims valley W.
Proof. unfold junimod_holdsb, junimod_holds. cbv zeta. intros H vertex offs terms Hv Ho Ht x Hx.
  rewrite forallb_forall in H. specialize (H vertex Hv). rewrite forallb_forall in H. specialize (H offs Ho).
  rewrite Ht in H. pose proof (forall_valid_check sh _ H x Hx) as Hc. cbv beta in Hc.
  destruct valley; apply Qle_bool_iff; exact Hc. Qed.

Fixpoint keys_nodupb (l : list key) : bool :=
  match l with [] => true | k :: r => negb (existsb (key_eqb k) r) && keys_nodupb r end.
Lemma keys_nodupb_ok l : keys_nodupb l = true -> NoDup l.
Proof. induction l as [|k r IH]; cbn [keys_nodupb]; intros H. constructor.
  apply andb_prop in H. destruct H as [H1 H2]. constructor; [|apply IH; exact H2].
  intros Hin. apply negb_true_iff in H1. assert (E : existsb (key_eqb k) r = true).
  { apply existsb_exists. exists k. split. exact Hin. apply key_eqb_refl. } congruence. Qed.

Definition qn (n : nat) : Q := inject_Z (Z.of_nat n).

(* Example A: 2 x 3 lattice, 2 units; monotone in dimension 0, Edgeworth and
   trapezoid trust (0, 1, +1), monotonic / range dominance and joint
   monotonicity of (0, 1); kernel  W(i, j, u) = i + u. *)
Definition exA_cfg : dyk_cfg :=
  mkDykCfg [2; 3]%nat 2 [1; 0]%Z [0; 0]%Z [(0, 1, 1%Z)]%nat [(0, 1, 1%Z)]%nat [(0, 1)]%nat [(0, 1)]%nat [(0, 1)]%nat [] 3.
Definition exA_W : tens := fun x => qn (nth 0 x 0%nat) + qn (nth 2 x 0%nat).
Lemma exA_ok : dyk_cfg_ok exA_cfg.
Proof. unfold dyk_cfg_ok. split; [|split; [|split]]; intros t Ht; cbn in Ht; destruct Ht as [<-|[]];
  unfold trust_idx_ok, pair_idx_ok, k_rank; cbn; repeat split; try lia; try discriminate. Qed.
Lemma exA_feasible : dyk_feasible exA_cfg exA_W.
Proof. unfold dyk_feasible. cbv zeta. split; [|split; [|split; [|split; [|split; [|split; [|split]]]]]].
  - intros d Hd Hm. unfold k_rank in Hd. cbn in Hd. destruct d as [|[|d]]; try lia; try discriminate Hm.
    apply mono_alongb_ok. vm_compute. reflexivity.
  - intros d Hd Hu. unfold k_rank in Hd. cbn in Hd. destruct d as [|[|d]]; try lia; exfalso; apply Hu; reflexivity.
  - intros t [<-|[]]. apply edgeworth_holdsb_ok. vm_compute. reflexivity.
  - intros t [<-|[]]. apply trapezoid_holdsb_ok. vm_compute. reflexivity.
  - intros t [<-|[]]. apply mdom_holdsb_ok. vm_compute. reflexivity.
  - intros t [<-|[]]. apply rdom_holdsb_ok. vm_compute. reflexivity.
  - intros t [<-|[]]. apply jmono_holdsb_ok. vm_compute. reflexivity.
  - intros t []. Qed.

(* Example B: 3 x 3 lattice, 2 units; unimodal (valley) in dimension 0 and
   jointly unimodal (valley) in (0, 1); kernel  W(i, j, u) = (i-1)^2 + (j-1)^2 + u. *)
Definition exB_cfg : dyk_cfg :=
  mkDykCfg [3; 3]%nat 2 [0; 0]%Z [1; 0]%Z [] [] [] [] [] [([0; 1]%nat, true)] 2.
Definition sqd (k : nat) : Q := (qn k - 1) * (qn k - 1).
Definition exB_W : tens := fun x => sqd (nth 0 x 0%nat) + sqd (nth 1 x 0%nat) + qn (nth 2 x 0%nat).
Lemma exB_ok : dyk_cfg_ok exB_cfg.
Proof. unfold dyk_cfg_ok. split; [|split; [|split]]; intros t []. Qed.
Lemma exB_feasible : dyk_feasible exB_cfg exB_W.
Proof. unfold dyk_feasible. cbv zeta. split; [|split; [|split; [|split; [|split; [|split; [|split]]]]]];
    try (intros t []; fail).
  - intros d Hd Hm. unfold k_rank in Hd. cbn in Hd. destruct d as [|[|d]]; try lia; discriminate Hm.
  - intros d Hd Hu. unfold k_rank in Hd. cbn in Hd. destruct d as [|[|d]]; try lia.
    + apply unimodal_alongb_ok. vm_compute. reflexivity.
    + exfalso; apply Hu; reflexivity.
  - intros t [<-|[]]. apply junimod_holdsb_ok. vm_compute. reflexivity. Qed.

(* Example C (hypotheses of the fixpoint theorem, with a kernel that moves):
   one monotone dimension of size 2, one unit, W0 = (1, 0).  After one sweep the
   state is ((1/2, 1/2), change (-1/2, +1/2)) and a further sweep reproduces it. *)
Definition exC_cfg : dyk_cfg := mkDykCfg [2]%nat 1 [1]%Z [0]%Z [] [] [] [] [] [] 1.
Definition exC_W0 : tens := of_list [2; 1]%nat [1; 0].
Lemma exC_ok : dyk_cfg_ok exC_cfg /\ exact_families exC_cfg /\ trap_sizes_ok exC_cfg /\ NoDup (map fst (group_ops exC_cfg)).
Proof. split; [|split; [|split]].
  - unfold dyk_cfg_ok. split; [|split; [|split]]; intros t [].
  - split; reflexivity.
  - intros t [].
  - apply keys_nodupb_ok. vm_compute. reflexivity. Qed.
Lemma exC_fixpoint :
  let sh := k_shape exC_cfg in
  let st := dyk_loop sh (group_ops exC_cfg) 1 (exC_W0, []) in
  (forall kop, In kop (group_ops exC_cfg) ->
     teq sh (lc_get (snd (dyk_sweep sh (group_ops exC_cfg) st)) (fst kop)) (lc_get (snd st) (fst kop))) /\
  ~ teq sh (fst st) exC_W0.
Proof. cbv zeta. split.
  - assert (H : forallb (fun kop : key * (tens -> tens) =>
               teqb (k_shape exC_cfg)
                 (lc_get (snd (dyk_sweep (k_shape exC_cfg) (group_ops exC_cfg) (dyk_loop (k_shape exC_cfg) (group_ops exC_cfg) 1 (exC_W0, [])))) (fst kop))
                 (lc_get (snd (dyk_loop (k_shape exC_cfg) (group_ops exC_cfg) 1 (exC_W0, []))) (fst kop)))
               (group_ops exC_cfg) = true) by (vm_compute; reflexivity).
    rewrite forallb_forall in H. intros kop Hin. apply teqb_ok. apply H. exact Hin.
  - intros H. specialize (H [0; 0]%nat ltac:(repeat constructor)). vm_compute in H. discriminate H. Qed.

(* feasibility is exactly membership in every configured group's set (exact families) *)
Lemma feasible_iff_key_sets c W : dyk_cfg_ok c -> exact_families c -> trap_sizes_ok c ->
  (dyk_feasible c W <-> forall kop, In kop (group_ops c) -> key_set c (fst kop) W).
Proof. intros Hok Hex Hts. split. apply feasible_key_sets; assumption. apply key_sets_feasible; assumption. Qed.

(* the hypotheses of feasible_fixed and of dykstra_fixpoint_nearest are satisfiable *)
Example feasible_fixed_hyps_A : dyk_cfg_ok exA_cfg /\ dyk_feasible exA_cfg exA_W.
Proof. split. exact exA_ok. exact exA_feasible. Qed.
Example feasible_fixed_hyps_B : dyk_cfg_ok exB_cfg /\ dyk_feasible exB_cfg exB_W.
Proof. split. exact exB_ok. exact exB_feasible. Qed.
Example fixpoint_nearest_hyps_C :
  (dyk_cfg_ok exC_cfg /\ exact_families exC_cfg /\ trap_sizes_ok exC_cfg /\ NoDup (map fst (group_ops exC_cfg))) /\
  let sh := k_shape exC_cfg in
  let st := dyk_loop sh (group_ops exC_cfg) 1 (exC_W0, []) in
  (forall kop, In kop (group_ops exC_cfg) ->
     teq sh (lc_get (snd (dyk_sweep sh (group_ops exC_cfg) st)) (fst kop)) (lc_get (snd st) (fst kop))) /\
  ~ teq sh (fst st) exC_W0.
Proof. split. exact exC_ok. exact exC_fixpoint. Qed.

(* ================================================================== *)
(* Part I: the range-dominance corner update is NOT a nearest-point map *)
(* ================================================================== *)
(* constraint of the range-dominance group = vertex (i, j), at every position *)
Definition rdom_group_ok (sh : list nat) (p q i j : nat) (W : tens) : Prop :=
  forall b, valid sh b ->
    (W (at2 b p q i (nth q sh 0%nat - 1)) - W (at2 b p q i 0%nat)) -
    (W (at2 b p q (nth p sh 0%nat - 1) j) - W (at2 b p q 0%nat j)) <= 0.
Lemma rdom_holds_group_ok sh p q i j W : (i < nth p sh 0%nat)%nat -> (j < nth q sh 0%nat)%nat ->
  rdom_holds sh p q W -> rdom_group_ok sh p q i j W.
Proof. intros Hi Hj H b Hb. apply H; assumption. Qed.

(* At the corners (0, max) and (max, 0) the two ranges share a vertex whose
   coefficient in the inequality is 2; the code leaves that vertex alone and
   moves the two others by violation/2 - feasible, but not the Euclidean
   projection (which moves the shared vertex by 2v/6 and the others by v/6).
   Witness: 2x2 lattice, one unit, vertex (0, 1), y = e_(0,1): the code moves y
   by squared distance 2, the feasible z below is at squared distance 2/3. *)
Theorem rdom_corner_not_nearest :
  exists sh p q i j (z : tens),
    (i < nth p sh 0%nat)%nat /\ (j < nth q sh 0%nat)%nat /\ rdom_group_ok sh p q i j z /\
    forall C : tens -> Prop, C z -> ~ is_proj (all_idx sh) C (rdom_group sh p q i j).
Proof. exists [2; 2; 1]%nat, 0%nat, 1%nat, 0%nat, 1%nat, (of_list [2; 2; 1]%nat [1#3; 1#3; 0; 1#3]).
  split. cbn; lia. split. cbn; lia. split.
  - intros b Hb.
    assert (H : forallb (fun b => Qle_bool
              ((of_list [2; 2; 1]%nat [1#3; 1#3; 0; 1#3] (at2 b 0 1 0 (nth 1 [2; 2; 1]%nat 0%nat - 1)) -
                of_list [2; 2; 1]%nat [1#3; 1#3; 0; 1#3] (at2 b 0 1 0 0)) -
               (of_list [2; 2; 1]%nat [1#3; 1#3; 0; 1#3] (at2 b 0 1 (nth 0 [2; 2; 1]%nat 0%nat - 1) 1) -
                of_list [2; 2; 1]%nat [1#3; 1#3; 0; 1#3] (at2 b 0 1 0 1))) 0) (all_idx [2; 2; 1]%nat) = true) by (vm_compute; reflexivity).
    apply Qle_bool_iff. exact (forall_valid_check _ _ H b Hb).
  - intros C Cz HP. destruct (HP (of_list [2; 2; 1]%nat [0; 1; 0; 0])) as [_ H]. specialize (H _ Cz).
    apply Qle_bool_iff in H. vm_compute in H. discriminate H. Qed.

(* ================================================================== *)
(* Part J: the keys of group_ops are distinct when no constraint is     *)
(* listed twice (exact families)                                        *)
(* ================================================================== *)
Lemma map_flat_map {A B C} (g : B -> C) (f : A -> list B) l : map g (flat_map f l) = flat_map (fun a => map g (f a)) l.
Proof. induction l as [|a l IH]; cbn [flat_map map]. reflexivity. rewrite map_app, IH. reflexivity. Qed.
Lemma nodup_flat_map {A B} (f : A -> list B) l : NoDup l -> (forall a, In a l -> NoDup (f a)) ->
  (forall a b x, In a l -> In b l -> In x (f a) -> In x (f b) -> a = b) -> NoDup (flat_map f l).
Proof. induction l as [|a l IH]; intros Hnd Hf Hinj; cbn [flat_map]. constructor. inversion Hnd; subst.
  apply nodup_app.
  - apply Hf. left; reflexivity.
  - apply IH. assumption. intros; apply Hf; right; assumption.
    intros a' b x Ha Hb. apply Hinj; right; assumption.
  - intros x Hx Hx'. apply in_flat_map in Hx'. destruct Hx' as [b [Hb Hxb]].
    assert (a = b) by (apply (Hinj a b x); [left; reflexivity|right; assumption|assumption|assumption]). subst. contradiction. Qed.
Notation kops := (list (key * (tens -> tens))).
Lemma nodup_keys_flat_map {A} (f : A -> kops) l : NoDup l -> (forall a, In a l -> NoDup (map fst (f a))) ->
  (forall a b x y, In a l -> In b l -> In x (f a) -> In y (f b) -> fst x = fst y -> a = b) -> NoDup (map fst (flat_map f l)).
Proof. intros Hnd Hf Hinj. rewrite map_flat_map. apply nodup_flat_map; try assumption.
  intros a b k Ha Hb Hx Hy. apply in_map_iff in Hx. destruct Hx as [x [Ex Hx]]. apply in_map_iff in Hy. destruct Hy as [y [Ey Hy]].
  apply (Hinj a b x y); try assumption. congruence. Qed.
Lemma nodup_keys_opt (b : bool) (kop : key * (tens -> tens)) : NoDup (map fst (if b then [] else [kop])).
Proof. destruct b; cbn [map]. constructor. constructor. intros []. constructor. Qed.
Lemma in_opt (b : bool) (kop x : key * (tens -> tens)) : In x (if b then [] else [kop]) -> x = kop.
Proof. destruct b. intros []. intros [<-|[]]. reflexivity. Qed.

Definition G2 : list nat := [0; 1]%nat.
Definition G4 : list (nat * nat) := [(0, 0); (0, 1); (1, 0); (1, 1)]%nat.
Definition G8 : list (nat * nat * bool) :=
  [(0,0,false); (0,0,true); (0,1,false); (0,1,true); (1,0,false); (1,0,true); (1,1,false); (1,1,true)]%nat.
Lemma G2_nodup : NoDup G2. Proof. repeat constructor; cbn; intuition discriminate. Qed.
Lemma G4_nodup : NoDup G4. Proof. repeat constructor; cbn; intuition discriminate. Qed.
Lemma G8_nodup : NoDup G8. Proof. repeat constructor; cbn; intuition discriminate. Qed.
Lemma zb_inj a b : zb a = zb b -> a = b.
Proof. destruct a, b; cbn; congruence. Qed.

Definition seg_mono (c : dyk_cfg) : kops :=
  flat_map (fun d =>
      if (nth d (k_monos c) 0 =? 0)%Z && (nth d (k_unis c) 0 =? 0)%Z then []
      else flat_map (fun g => if (nth d (k_shape c) 0 <=? g + 1)%nat then []
                              else [([0; zn d; zn g]%Z, mono_group (k_shape c) (nth d (k_monos c) 0%Z) (nth d (k_unis c) 0%Z) d g)]) G2)
    (seq 0 (length (k_sizes c))).
Definition seg_edge (c : dyk_cfg) : kops :=
  flat_map (fun t : trust => let '(m, cd, dir) := t in
      flat_map (fun g : nat * nat => let '(g0, g1) := g in
          if (nth m (k_shape c) 0 - 1 <=? g0)%nat || (nth cd (k_shape c) 0 - 1 <=? g1)%nat then []
          else [([1; zn m; zn cd; dir; zn g0; zn g1]%Z, edge_group (k_shape c) t g0 g1)]) G4) (k_edge c).
Definition seg_trap (c : dyk_cfg) : kops :=
  flat_map (fun t : trust => let '(m, cd, dir) := t in
      flat_map (fun g => if (nth cd (k_shape c) 0 - 1 <=? g)%nat then []
                         else [([2; zn m; zn cd; dir; zn g]%Z, trap_group (k_shape c) t g)]) G2) (k_trap c).
Definition seg_tri (tag : Z) (mk : nat -> nat -> nat -> nat -> bool -> tens -> tens) (sh : list nat) (l : list (nat * nat)) : kops :=
  flat_map (fun pq : nat * nat => let '(p, q) := pq in
      flat_map (fun g : nat * nat * bool => let '(g0, g1, g2) := g in
          if (nth p sh 0 - 1 <=? g0)%nat || (nth q sh 0 - 1 <=? g1)%nat then []
          else [([tag; zn p; zn q; zn g0; zn g1; zb g2]%Z, mk p q g0 g1 g2)]) G8) l.

Lemma group_ops_segs c : exact_families c ->
  group_ops c = seg_mono c ++ seg_edge c ++ seg_trap c ++ seg_tri 3 (mdom_group (k_shape c)) (k_shape c) (k_mdom c)
                ++ seg_tri 5 (jmono_group (k_shape c)) (k_shape c) (k_jmono c).
Proof. intros [Er Eju]. unfold group_ops. cbv zeta. rewrite Er, Eju. cbn [flat_map]. rewrite app_nil_r. reflexivity. Qed.

Lemma seg_mono_in c x : In x (seg_mono c) -> exists d g, fst x = [0; zn d; zn g]%Z.
Proof. unfold seg_mono. intros H. apply in_flat_map in H. destruct H as [d [_ H]].
  destruct (_ && _); [destruct H|]. apply in_flat_map in H. destruct H as [g [_ H]]. apply in_opt in H. subst. exists d, g. reflexivity. Qed.
Lemma seg_edge_in c x : In x (seg_edge c) -> exists m cd dir g0 g1, In (m, cd, dir) (k_edge c) /\ fst x = [1; zn m; zn cd; dir; zn g0; zn g1]%Z.
Proof. unfold seg_edge. intros H. apply in_flat_map in H. destruct H as [[[m cd] dir] [Ht H]].
  apply in_flat_map in H. destruct H as [[g0 g1] [_ H]]. apply in_opt in H. subst. exists m, cd, dir, g0, g1. auto. Qed.
Lemma seg_trap_in c x : In x (seg_trap c) -> exists m cd dir g, In (m, cd, dir) (k_trap c) /\ fst x = [2; zn m; zn cd; dir; zn g]%Z.
Proof. unfold seg_trap. intros H. apply in_flat_map in H. destruct H as [[[m cd] dir] [Ht H]].
  apply in_flat_map in H. destruct H as [g [_ H]]. apply in_opt in H. subst. exists m, cd, dir, g. auto. Qed.
Lemma seg_tri_in tag mk sh l x : In x (seg_tri tag mk sh l) ->
  exists p q g0 g1 g2, In (p, q) l /\ fst x = [tag; zn p; zn q; zn g0; zn g1; zb g2]%Z.
Proof. unfold seg_tri. intros H. apply in_flat_map in H. destruct H as [[p q] [Ht H]].
  apply in_flat_map in H. destruct H as [[[g0 g1] g2] [_ H]]. apply in_opt in H. subst. exists p, q, g0, g1, g2. auto. Qed.

Lemma seg_mono_nodup c : NoDup (map fst (seg_mono c)).
Proof. unfold seg_mono. apply nodup_keys_flat_map. apply seq_NoDup.
  - intros d _. destruct (_ && _). constructor. apply nodup_keys_flat_map. apply G2_nodup.
    + intros g _. apply nodup_keys_opt.
    + intros g g' x y _ _ Hx Hy E. apply in_opt in Hx. apply in_opt in Hy. subst. cbn [fst] in E. inversion E. apply Nat2Z.inj; assumption.
  - intros d d' x y _ _ Hx Hy E.
    destruct (_ && _) in Hx; [destruct Hx|]. destruct (_ && _) in Hy; [destruct Hy|].
    apply in_flat_map in Hx. destruct Hx as [g [_ Hx]]. apply in_flat_map in Hy. destruct Hy as [g' [_ Hy]].
    apply in_opt in Hx. apply in_opt in Hy. subst. cbn [fst] in E. inversion E. apply Nat2Z.inj; assumption. Qed.
Lemma seg_edge_nodup c : NoDup (k_edge c) -> NoDup (map fst (seg_edge c)).
Proof. intros Hnd. unfold seg_edge. apply nodup_keys_flat_map. exact Hnd.
  - intros [[m cd] dir] _. apply nodup_keys_flat_map. apply G4_nodup.
    + intros [g0 g1] _. apply nodup_keys_opt.
    + intros [g0 g1] [g0' g1'] x y _ _ Hx Hy E. apply in_opt in Hx. apply in_opt in Hy. subst. cbn [fst] in E. inversion E.
      f_equal; apply Nat2Z.inj; assumption.
  - intros [[m cd] dir] [[m' cd'] dir'] x y _ _ Hx Hy E.
    apply in_flat_map in Hx. destruct Hx as [[g0 g1] [_ Hx]]. apply in_flat_map in Hy. destruct Hy as [[g0' g1'] [_ Hy]].
    apply in_opt in Hx. apply in_opt in Hy. subst. cbn [fst] in E. inversion E.
    repeat f_equal; try apply Nat2Z.inj; assumption. Qed.
Lemma seg_trap_nodup c : NoDup (k_trap c) -> NoDup (map fst (seg_trap c)).
Proof. intros Hnd. unfold seg_trap. apply nodup_keys_flat_map. exact Hnd.
  - intros [[m cd] dir] _. apply nodup_keys_flat_map. apply G2_nodup.
    + intros g _. apply nodup_keys_opt.
    + intros g g' x y _ _ Hx Hy E. apply in_opt in Hx. apply in_opt in Hy. subst. cbn [fst] in E. inversion E. apply Nat2Z.inj; assumption.
  - intros [[m cd] dir] [[m' cd'] dir'] x y _ _ Hx Hy E.
    apply in_flat_map in Hx. destruct Hx as [g [_ Hx]]. apply in_flat_map in Hy. destruct Hy as [g' [_ Hy]].
    apply in_opt in Hx. apply in_opt in Hy. subst. cbn [fst] in E. inversion E.
    repeat f_equal; try apply Nat2Z.inj; assumption. Qed.
Lemma seg_tri_nodup tag mk sh l : NoDup l -> NoDup (map fst (seg_tri tag mk sh l)).
Proof. intros Hnd. unfold seg_tri. apply nodup_keys_flat_map. exact Hnd.
  - intros [p q] _. apply nodup_keys_flat_map. apply G8_nodup.
    + intros [[g0 g1] g2] _. apply nodup_keys_opt.
    + intros [[g0 g1] g2] [[g0' g1'] g2'] x y _ _ Hx Hy E. apply in_opt in Hx. apply in_opt in Hy. subst. cbn [fst] in E. inversion E.
      repeat f_equal; try (apply Nat2Z.inj; assumption). apply zb_inj; assumption.
  - intros [p q] [p' q'] x y _ _ Hx Hy E.
    apply in_flat_map in Hx. destruct Hx as [[[g0 g1] g2] [_ Hx]]. apply in_flat_map in Hy. destruct Hy as [[[g0' g1'] g2'] [_ Hy]].
    apply in_opt in Hx. apply in_opt in Hy. subst. cbn [fst] in E. inversion E.
    f_equal; apply Nat2Z.inj; assumption. Qed.

(* no constraint listed twice => the keys of the configured group maps are distinct *)
Theorem group_ops_keys_nodup c : exact_families c ->
  NoDup (k_edge c) -> NoDup (k_trap c) -> NoDup (k_mdom c) -> NoDup (k_jmono c) ->
  NoDup (map fst (group_ops c)).
Proof. intros Hex He Ht Hm Hj. rewrite (group_ops_segs c Hex). rewrite !map_app.
  assert (D : forall (k : key) (h h' : Z), h <> h' -> hd 0%Z k = h -> hd 0%Z k = h' -> False) by (intros; congruence).
  assert (H0 : forall k, In k (map fst (seg_mono c)) -> hd 0%Z k = 0%Z).
  { intros k Hk. apply in_map_iff in Hk. destruct Hk as [x [<- Hx]]. destruct (seg_mono_in c x Hx) as (d & g & ->). reflexivity. }
  assert (H1 : forall k, In k (map fst (seg_edge c)) -> hd 0%Z k = 1%Z).
  { intros k Hk. apply in_map_iff in Hk. destruct Hk as [x [<- Hx]]. destruct (seg_edge_in c x Hx) as (m & cd & dir & g0 & g1 & _ & ->). reflexivity. }
  assert (H2 : forall k, In k (map fst (seg_trap c)) -> hd 0%Z k = 2%Z).
  { intros k Hk. apply in_map_iff in Hk. destruct Hk as [x [<- Hx]]. destruct (seg_trap_in c x Hx) as (m & cd & dir & g & _ & ->). reflexivity. }
  assert (H3 : forall tag mk l k, In k (map fst (seg_tri tag mk (k_shape c) l)) -> hd 0%Z k = tag).
  { intros tag mk l k Hk. apply in_map_iff in Hk. destruct Hk as [x [<- Hx]]. destruct (seg_tri_in _ _ _ _ x Hx) as (p & q & g0 & g1 & g2 & _ & ->). reflexivity. }
  apply nodup_app. apply seg_mono_nodup.
  apply nodup_app. apply seg_edge_nodup; assumption.
  apply nodup_app. apply seg_trap_nodup; assumption.
  apply nodup_app. apply seg_tri_nodup; assumption. apply seg_tri_nodup; assumption.
  - intros k Hk Hk'. apply H3 in Hk. apply H3 in Hk'. congruence.
  - intros k Hk Hk'. apply H2 in Hk. apply in_app_or in Hk'. destruct Hk' as [Hk'|Hk']; apply H3 in Hk'; congruence.
  - intros k Hk Hk'. apply H1 in Hk. apply in_app_or in Hk'. destruct Hk' as [Hk'|Hk']. apply H2 in Hk'; congruence.
    apply in_app_or in Hk'. destruct Hk' as [Hk'|Hk']; apply H3 in Hk'; congruence.
  - intros k Hk Hk'. apply H0 in Hk. apply in_app_or in Hk'. destruct Hk' as [Hk'|Hk']. apply H1 in Hk'; congruence.
    apply in_app_or in Hk'. destruct Hk' as [Hk'|Hk']. apply H2 in Hk'; congruence.
    apply in_app_or in Hk'. destruct Hk' as [Hk'|Hk']; apply H3 in Hk'; congruence. Qed.

(* the configuration-level theorem without the key hypothesis *)
Theorem dykstra_fixpoint_nearest' (c : dyk_cfg) (W0 : tens) (n : nat) :
  dyk_cfg_ok c -> exact_families c -> trap_sizes_ok c ->
  NoDup (k_edge c) -> NoDup (k_trap c) -> NoDup (k_mdom c) -> NoDup (k_jmono c) ->
  let sh := k_shape c in
  let st := dyk_loop sh (group_ops c) n (W0, []) in
  (forall kop, In kop (group_ops c) ->
     teq sh (lc_get (snd (dyk_sweep sh (group_ops c) st)) (fst kop)) (lc_get (snd st) (fst kop))) ->
  teq sh (fst (dyk_sweep sh (group_ops c) st)) (fst st) /\
  dyk_feasible c (fst st) /\
  (forall z, dyk_feasible c z ->
     ip (all_idx sh) (vsub W0 (fst st)) (vsub z (fst st)) <= 0 /\
     ip (all_idx sh) (vsub W0 (fst st)) (vsub W0 (fst st)) <= ip (all_idx sh) (vsub W0 z) (vsub W0 z)).
Proof. intros Hok Hex Hts He Ht Hm Hj. apply dykstra_fixpoint_nearest; try assumption.
  apply group_ops_keys_nodup; assumption. Qed.
