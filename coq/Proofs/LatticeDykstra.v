(* Lemmas about the model of lattice_lib.project_by_dykstra
   (Model/LatticeDykstra.v) for property C08.

   Part A  increment-sum (roll-back) invariant of dyk_step / dyk_sweep / dyk_loop,
           generic over any list of keyed maps.
   Part B  generic: maps that fix W (and respect teq) => every stored change
           stays zero and the loop returns W.
   Part C  pair_pos / partner / rv index lemmas; two generic block maps
           ([pr_op]: disjoint pairs along one axis, [sq_op]: disjoint 2x2 squares
           on two axes) with properness, feasible => fixed, and nearest-point
           ([is_proj]) theorems from local 2- / 4-point facts.
   Part D  the eight families: feasibility predicates, bridge to the generic
           maps, properness, feasible => fixed; nearest-point theorems for
           monotonicity/unimodality, Edgeworth, trapezoid, monotonic dominance
           and joint monotonicity.
   Part E  group_ops membership => C08_feasible_fixed; model-level
           fixpoint => nearest.

   NOT proved: convergence of the iterates (Boyle-Dykstra 1986). *)
From TFL Require Export Model.LatticeDykstra Proofs.LatticeSpecFacts Proofs.DykstraTheory.
Open Scope Q_scope.

(* ================================================================== *)
(* Part A: the last_change dictionary and the increment-sum invariant  *)
(* ================================================================== *)
Lemma key_eqb_eq a b : key_eqb a b = true <-> a = b.
Proof. revert b; induction a as [|x a IH]; intros [|y b]; cbn [key_eqb]; split; intros H; try congruence; try discriminate.
  - apply andb_prop in H. destruct H as [H1 H2]. apply Z.eqb_eq in H1. apply IH in H2. congruence.
  - inversion H; subst. rewrite Z.eqb_refl. cbn [andb]. apply IH. reflexivity. Qed.
Lemma key_eqb_refl a : key_eqb a a = true.
Proof. apply key_eqb_eq. reflexivity. Qed.
Lemma key_eqb_neq a b : a <> b -> key_eqb a b = false.
Proof. intros H. destruct (key_eqb a b) eqn:E; [|reflexivity]. apply key_eqb_eq in E. contradiction. Qed.

Definition tzero : tens := fun _ => 0.
(* sum of all stored changes at position x *)
Definition lc_sum (lc : list (key * tens)) (x : idx) : Q := qsum (map (fun e : key * tens => snd e x) lc).

Lemma lc_set_sum lc k t x : lc_sum (lc_set lc k t) x == lc_sum lc x - lc_get lc k x + t x.
Proof. unfold lc_sum, lc_get. induction lc as [|e r IH]; cbn [lc_set find map qsum].
  - cbn. lra.
  - destruct (key_eqb (fst e) k); cbn [map qsum snd]. lra. rewrite IH. lra. Qed.

Lemma lc_set_in lc k t e : In e (lc_set lc k t) -> e = (k, t) \/ In e lc.
Proof. induction lc as [|e0 r IH]; cbn [lc_set]. intros [<-|[]]; auto.
  destruct (key_eqb (fst e0) k).
  - intros [<-|H]; [left; reflexivity|right; right; assumption].
  - intros [<-|H]; [right; left; reflexivity|]. destruct (IH H); [left|right; right]; assumption. Qed.
Lemma lc_set_keys lc k t k' : In k' (map fst (lc_set lc k t)) -> k' = k \/ In k' (map fst lc).
Proof. intros H. apply in_map_iff in H. destruct H as [e [<- He]]. destruct (lc_set_in _ _ _ _ He) as [->|H].
  left; reflexivity. right. apply in_map; assumption. Qed.
Lemma lc_set_nodup lc k t : NoDup (map fst lc) -> NoDup (map fst (lc_set lc k t)).
Proof. induction lc as [|e r IH]; cbn [lc_set map]; intros H. constructor; [intros []|constructor].
  inversion H; subst. destruct (key_eqb (fst e) k) eqn:E; cbn [map fst].
  - apply key_eqb_eq in E. rewrite <- E. constructor; assumption.
  - constructor; [|apply IH; assumption]. intros Hin. destruct (lc_set_keys _ _ _ _ Hin) as [Hk|Hk].
    + rewrite Hk, key_eqb_refl in E. discriminate.
    + contradiction. Qed.

Lemma lc_get_in lc e : NoDup (map fst lc) -> In e lc -> lc_get lc (fst e) = snd e.
Proof. unfold lc_get. induction lc as [|e0 r IH]; cbn [map find]; intros Hnd Hin. destruct Hin.
  inversion Hnd; subst. destruct Hin as [->|Hin]. rewrite key_eqb_refl. reflexivity.
  destruct (key_eqb (fst e0) (fst e)) eqn:E.
  - apply key_eqb_eq in E. exfalso. apply H1. rewrite E. apply in_map; assumption.
  - apply IH; assumption. Qed.
Lemma lc_get_set_same lc k t : lc_get (lc_set lc k t) k = t.
Proof. unfold lc_get. induction lc as [|e r IH]; cbn [lc_set find fst]. rewrite key_eqb_refl. reflexivity.
  destruct (key_eqb (fst e) k) eqn:E; cbn [find fst]. rewrite key_eqb_refl. reflexivity. rewrite E. exact IH. Qed.
Lemma lc_get_set_other lc k t k' : k' <> k -> lc_get (lc_set lc k t) k' = lc_get lc k'.
Proof. intros Hne. unfold lc_get. induction lc as [|e r IH]; cbn [lc_set find fst].
  - rewrite (key_eqb_neq k k') by congruence. reflexivity.
  - destruct (key_eqb (fst e) k) eqn:E; cbn [find fst].
    + apply key_eqb_eq in E. rewrite E. rewrite (key_eqb_neq k k') by congruence. reflexivity.
    + destruct (key_eqb (fst e) k'); [reflexivity|exact IH]. Qed.
(* the sum over the stored entries is the sum of lc_get over the distinct stored keys *)
Lemma lc_sum_keys lc x : NoDup (map fst lc) ->
  lc_sum lc x = qsum (map (fun k => lc_get lc k x) (map fst lc)).
Proof. intros Hnd. unfold lc_sum. rewrite map_map. f_equal. apply map_ext_in. intros e He.
  rewrite (lc_get_in lc e Hnd He). reflexivity. Qed.

Definition dyk_inv (sh : list nat) (W0 : tens) (st : tens * list (key * tens)) : Prop :=
  NoDup (map fst (snd st)) /\ forall x, valid sh x -> fst st x == W0 x + lc_sum (snd st) x.

Lemma dyk_step_inv sh W0 st kop : dyk_inv sh W0 st -> dyk_inv sh W0 (dyk_step sh st kop).
Proof. destruct st as [W lc], kop as [k op]. intros [Hnd Hsum]. cbn [fst snd] in *. unfold dyk_step. cbv zeta. split; cbn [fst snd].
  - apply lc_set_nodup; assumption.
  - intros x Hv. rewrite lc_set_sum. rewrite (memo_ok sh _ x Hv), Qred_correct.
    rewrite (memo_ok sh _ x Hv), Qred_correct. rewrite (Hsum x Hv). ring. Qed.
Lemma dyk_sweep_inv sh W0 ops : forall st, dyk_inv sh W0 st -> dyk_inv sh W0 (dyk_sweep sh ops st).
Proof. unfold dyk_sweep. induction ops as [|kop ops IH]; intros st H; cbn [fold_left]. exact H.
  apply IH. apply dyk_step_inv; assumption. Qed.
Lemma dyk_loop_inv sh W0 ops n : forall st, dyk_inv sh W0 st -> dyk_inv sh W0 (dyk_loop sh ops n st).
Proof. induction n as [|n IH]; intros st H; cbn [dyk_loop]. exact H. apply IH. apply dyk_sweep_inv; assumption. Qed.

(* Increment-sum invariant: after any number of sweeps over any keyed maps the
   current point is the start plus the sum of the stored changes, one per
   distinct key (duplicated keys share one slot). *)
Theorem increment_sum (sh : list nat) (ops : list (key * (tens -> tens))) (n : nat) (W : tens) :
  let W' := fst (dyk_loop sh ops n (W, [])) in
  let lc := snd (dyk_loop sh ops n (W, [])) in
  NoDup (map fst lc) /\
  forall x, valid sh x -> W' x == W x + qsum (map (fun k => lc_get lc k x) (map fst lc)).
Proof. cbv zeta.
  assert (H0 : dyk_inv sh W (W, [])).
  { split; cbn [fst snd map]. constructor. intros x _. unfold lc_sum. cbn. lra. }
  destruct (dyk_loop_inv sh W ops n _ H0) as [Hnd Hsum]. split. exact Hnd.
  intros x Hv. rewrite <- lc_sum_keys by assumption. apply Hsum; assumption. Qed.

(* ================================================================== *)
(* Part B: maps that fix W                                              *)
(* ================================================================== *)
Definition op_proper (sh : list nat) (op : tens -> tens) : Prop :=
  forall W W', teq sh W W' -> teq sh (op W) (op W').
Definition op_fixes (sh : list nat) (op : tens -> tens) (W : tens) : Prop := teq sh (op W) W.

Definition fix_inv (sh : list nat) (W : tens) (st : tens * list (key * tens)) : Prop :=
  teq sh (fst st) W /\ forall e, In e (snd st) -> teq sh (snd e) tzero.

Lemma lc_get_zero sh lc k : (forall e, In e lc -> teq sh (snd e) tzero) -> teq sh (lc_get lc k) tzero.
Proof. intros H. unfold lc_get. destruct (find (fun e => key_eqb (fst e) k) lc) as [e|] eqn:E.
  apply find_some in E. apply H. apply E. apply teq_refl. Qed.

Lemma dyk_step_fix sh W st kop : op_proper sh (snd kop) -> op_fixes sh (snd kop) W ->
  fix_inv sh W st -> fix_inv sh W (dyk_step sh st kop).
Proof. destruct st as [Wc lc], kop as [k op]. cbn [snd]. intros Hp Hf [HW Hz]. cbn [fst snd] in *.
  unfold dyk_step. cbv zeta.
  assert (Hr : teq sh (memo sh (fun x => Qred (Wc x - lc_get lc k x))) W).
  { apply memo_teq_l. intros x Hv. rewrite Qred_correct. rewrite (HW x Hv).
    pose proof (lc_get_zero sh lc k Hz x Hv) as Z. unfold tzero in Z. rewrite Z. ring. }
  assert (Ho : teq sh (op (memo sh (fun x => Qred (Wc x - lc_get lc k x)))) W).
  { eapply teq_trans. apply Hp. exact Hr. exact Hf. }
  split; cbn [fst snd]. exact Ho.
  intros e He. destruct (lc_set_in _ _ _ _ He) as [->|Hin]; [|apply Hz; assumption]. cbn [snd].
  apply memo_teq_l. intros x Hv. rewrite Qred_correct. rewrite (Ho x Hv), (Hr x Hv). unfold tzero. ring. Qed.

Lemma dyk_sweep_fix sh W ops : (forall kop, In kop ops -> op_proper sh (snd kop) /\ op_fixes sh (snd kop) W) ->
  forall st, fix_inv sh W st -> fix_inv sh W (dyk_sweep sh ops st).
Proof. unfold dyk_sweep. induction ops as [|kop ops IH]; intros H st Hi; cbn [fold_left]. exact Hi.
  apply IH. intros; apply H; right; assumption.
  destruct (H kop (or_introl eq_refl)). apply dyk_step_fix; assumption. Qed.
Lemma dyk_loop_fix sh W ops n : (forall kop, In kop ops -> op_proper sh (snd kop) /\ op_fixes sh (snd kop) W) ->
  forall st, fix_inv sh W st -> fix_inv sh W (dyk_loop sh ops n st).
Proof. intros H. induction n as [|n IH]; intros st Hi; cbn [dyk_loop]. exact Hi. apply IH. apply dyk_sweep_fix; assumption. Qed.

(* If every map of the list fixes W (and respects teq) then after any number of
   sweeps the point is still W and every stored change is zero. *)
Theorem dyk_loop_fixed (sh : list nat) (ops : list (key * (tens -> tens))) (n : nat) (W : tens) :
  (forall kop, In kop ops -> op_proper sh (snd kop) /\ op_fixes sh (snd kop) W) ->
  teq sh (fst (dyk_loop sh ops n (W, []))) W /\
  forall e, In e (snd (dyk_loop sh ops n (W, []))) -> teq sh (snd e) tzero.
Proof. intros H. apply (dyk_loop_fix sh W ops n H). split; cbn [fst snd]. apply teq_refl. intros e []. Qed.

(* ================================================================== *)
(* Part C: index lemmas and the two generic block maps                  *)
(* ================================================================== *)
Lemma nodup_app {A} (a b : list A) : NoDup a -> NoDup b -> (forall x, In x a -> ~ In x b) -> NoDup (a ++ b).
Proof. induction a as [|x a IH]; intros Ha Hb H; cbn [app]. exact Hb.
  inversion Ha; subst. constructor.
  - intros Hin. apply in_app_or in Hin. destruct Hin as [Hin|Hin]. contradiction. apply (H x (or_introl eq_refl) Hin).
  - apply IH; auto. intros y Hy. apply H. right; assumption. Qed.
Lemma all_idx_nodup sh : NoDup (all_idx sh).
Proof. induction sh as [|s sh IH]; cbn [all_idx]. constructor; [intros []|constructor].
  assert (G : forall l, NoDup l -> NoDup (flat_map (fun k : nat => map (cons k) (all_idx sh)) l)).
  { induction l as [|k l IHl]; intros Hl; cbn [flat_map]. constructor. inversion Hl; subst.
    apply nodup_app.
    - apply NoDup_map_inj_in; [|exact IH]. intros x y _ _ E. inversion E; reflexivity.
    - apply IHl; assumption.
    - intros x Hx Hx'. apply in_map_iff in Hx. destruct Hx as [r [<- Hr]].
      apply in_flat_map in Hx'. destruct Hx' as [k' [Hk' Hx']]. apply in_map_iff in Hx'. destruct Hx' as [r' [E _]].
      inversion E; subst. contradiction. }
  apply G. apply seq_NoDup. Qed.

Lemma teq_veq sh f g : teq sh f g <-> veq (all_idx sh) f g.
Proof. unfold teq, veq. split; intros H i Hi; apply H; apply all_idx_valid; assumption. Qed.

(* ---- pair_pos ---- *)
Definition ofs (up : bool) (i : nat) : nat := if up then S i else i.

Lemma pair_pos_inv g n k i up : pair_pos g n k = Some (i, up) -> (k < n)%nat ->
  (S i < n)%nat /\ k = ofs up i /\ (g <= i)%nat /\ Nat.even (i - g) = true.
Proof. unfold pair_pos, ofs. intros H Hk.
  destruct ((g <=? k)%nat && Nat.even (k - g) && (S k <? n)%nat) eqn:E1.
  - inversion H; subst. apply andb_prop in E1. destruct E1 as [E1 E3]. apply andb_prop in E1. destruct E1 as [E1 E2].
    apply Nat.leb_le in E1. apply Nat.ltb_lt in E3. auto.
  - destruct ((S g <=? k)%nat && Nat.odd (k - g)) eqn:E2; [|discriminate]. inversion H; subst.
    apply andb_prop in E2. destruct E2 as [E2 E3]. apply Nat.leb_le in E2.
    replace (k - g)%nat with (S (k - 1 - g)) in E3 by lia. rewrite Nat.odd_succ in E3.
    repeat split; try lia. exact E3. Qed.
Lemma even_succ_false m : Nat.even m = true -> Nat.even (S m) = false.
Proof. intros H. rewrite Nat.even_succ. rewrite <- Nat.negb_even. rewrite H. reflexivity. Qed.
Lemma pair_pos_lo g n i : (g <= i)%nat -> Nat.even (i - g) = true -> (S i < n)%nat -> pair_pos g n i = Some (i, false).
Proof. intros H1 H2 H3. unfold pair_pos. apply Nat.leb_le in H1. apply Nat.ltb_lt in H3. rewrite H1, H2, H3. reflexivity. Qed.
Lemma pair_pos_hi g n i : (g <= i)%nat -> Nat.even (i - g) = true -> (S i < n)%nat -> pair_pos g n (S i) = Some (i, true).
Proof. intros H1 H2 H3. unfold pair_pos.
  replace (S i - g)%nat with (S (i - g)) by lia.
  rewrite (even_succ_false _ H2). rewrite andb_false_r. cbn [andb].
  rewrite Nat.odd_succ, H2. assert (E : (S g <=? S i)%nat = true) by (apply Nat.leb_le; lia). rewrite E. cbn [andb].
  replace (S i - 1)%nat with i by lia. reflexivity. Qed.
Lemma pair_pos_ofs g n i up : (g <= i)%nat -> Nat.even (i - g) = true -> (S i < n)%nat -> pair_pos g n (ofs up i) = Some (i, up).
Proof. destruct up; cbn [ofs]. apply pair_pos_hi. apply pair_pos_lo. Qed.
Lemma ofs_lt up i n : (S i < n)%nat -> (ofs up i < n)%nat.
Proof. destruct up; cbn [ofs]; lia. Qed.

(* the other element of the pair (or the coordinate itself outside every pair) *)
Definition partner (g n k : nat) : nat :=
  match pair_pos g n k with Some (i, up) => ofs (negb up) i | None => k end.
Lemma partner_some g n k i up : pair_pos g n k = Some (i, up) -> partner g n k = ofs (negb up) i.
Proof. unfold partner. intros ->. reflexivity. Qed.
Lemma partner_none g n k : pair_pos g n k = None -> partner g n k = k.
Proof. unfold partner. intros ->. reflexivity. Qed.
Lemma partner_lt g n k : (k < n)%nat -> (partner g n k < n)%nat.
Proof. intros Hk. unfold partner. destruct (pair_pos g n k) as [[i up]|] eqn:E; [|exact Hk].
  destruct (pair_pos_inv _ _ _ _ _ E Hk) as (H1 & _). apply ofs_lt. exact H1. Qed.
Lemma partner_invol g n k : (k < n)%nat -> partner g n (partner g n k) = k.
Proof. intros Hk. destruct (pair_pos g n k) as [[i up]|] eqn:E.
  - destruct (pair_pos_inv _ _ _ _ _ E Hk) as (H1 & H2 & H3 & H4).
    rewrite (partner_some _ _ _ _ _ E). rewrite (partner_some g n _ i (negb up)) by (apply pair_pos_ofs; assumption).
    rewrite negb_involutive. symmetry; exact H2.
  - rewrite (partner_none _ _ _ E). apply partner_none. exact E. Qed.

(* reversed axis *)
Lemma rv_lt dir sc j : (j < sc)%nat -> (rv dir sc j < sc)%nat.
Proof. unfold rv. destruct (dir <? 0)%Z; lia. Qed.
Lemma rv_invol dir sc j : (j < sc)%nat -> rv dir sc (rv dir sc j) = j.
Proof. unfold rv. destruct (dir <? 0)%Z; lia. Qed.

(* the local term of the variational inequality at one position *)
Definition vterm (y z Py : tens) (x : idx) : Q := (y x - Py x) * (z x - Py x).
Lemma vterm_zero y z Py x : Py x = y x -> vterm y z Py x == 0.
Proof. intros E. unfold vterm. rewrite E. ring. Qed.
Lemma ip_vterm sh y z Py : ip (all_idx sh) (vsub y Py) (vsub z Py) = qsum (map (vterm y z Py) (all_idx sh)).
Proof. reflexivity. Qed.

(* ------------------------------------------------------------------ *)
(* Generic map on disjoint pairs (i, i+1), i = g, g+2, ..., of the axis d,
   read through an involution r of the axis (identity or reversal).  The new
   value at a position is a function F of the context position (only its
   coordinates other than d may matter), the pair index and the two old values. *)
Section PairOp.
Variables (sh : list nat) (d g : nat) (r : nat -> nat).
Notation n := (nth d sh 0%nat).
Hypothesis Hd : (d < length sh)%nat.
Hypothesis r_lt : forall j, (j < n)%nat -> (r j < n)%nat.
Hypothesis r_inv : forall j, (j < n)%nat -> r (r j) = j.
Variable F : idx -> nat -> Q -> Q -> bool -> Q.
Hypothesis F_ctx : forall x k i lo hi up, F (upd x d k) i lo hi up = F x i lo hi up.
Hypothesis F_proper : forall x i lo hi lo' hi' up, lo == lo' -> hi == hi' -> F x i lo hi up == F x i lo' hi' up.

Definition pr_op (W : tens) : tens := memo sh (fun x =>
  match pair_pos g n (r (nth d x 0%nat)) with
  | Some (i, up) => F x i (W (upd x d (r i))) (W (upd x d (r (S i)))) up
  | None => W x
  end).

Lemma pr_facts x i up : valid sh x -> pair_pos g n (r (nth d x 0%nat)) = Some (i, up) ->
  (S i < n)%nat /\ (g <= i)%nat /\ Nat.even (i - g) = true /\ nth d x 0%nat = r (ofs up i).
Proof. intros Hv Ep. pose proof (valid_nth sh x d Hv Hd) as Hk.
  destruct (pair_pos_inv _ _ _ _ _ Ep (r_lt _ Hk)) as (H1 & H2 & H3 & H4).
  repeat split; try assumption. rewrite <- H2. symmetry. apply r_inv. exact Hk. Qed.

Lemma pr_op_proper : op_proper sh pr_op.
Proof. intros W W' E. unfold pr_op. apply memo_teq_ext. intros x Hv.
  destruct (pair_pos g n (r (nth d x 0%nat))) as [[i up]|] eqn:Ep; [|apply E; assumption].
  destruct (pr_facts x i up Hv Ep) as (H1 & H2 & H3 & H4).
  apply F_proper; apply E; apply upd_valid; try assumption; apply r_lt; lia. Qed.

Lemma pr_op_at W b i up : valid sh b -> (g <= i)%nat -> Nat.even (i - g) = true -> (S i < n)%nat ->
  pr_op W (upd b d (r (ofs up i))) = F b i (W (upd b d (r i))) (W (upd b d (r (S i)))) up.
Proof. intros Hv H1 H2 H3. unfold pr_op.
  assert (Ho : (ofs up i < n)%nat) by (apply ofs_lt; assumption).
  rewrite memo_ok by (apply upd_valid; [assumption|apply r_lt; assumption]).
  rewrite nth_upd_same by (rewrite (valid_length sh b Hv); exact Hd).
  rewrite r_inv by assumption. rewrite pair_pos_ofs by assumption.
  rewrite F_ctx, !upd_upd. reflexivity. Qed.
Lemma pr_op_at_lo W b i : valid sh b -> (g <= i)%nat -> Nat.even (i - g) = true -> (S i < n)%nat ->
  pr_op W (upd b d (r i)) = F b i (W (upd b d (r i))) (W (upd b d (r (S i)))) false.
Proof. apply (pr_op_at W b i false). Qed.
Lemma pr_op_at_hi W b i : valid sh b -> (g <= i)%nat -> Nat.even (i - g) = true -> (S i < n)%nat ->
  pr_op W (upd b d (r (S i))) = F b i (W (upd b d (r i))) (W (upd b d (r (S i)))) true.
Proof. apply (pr_op_at W b i true). Qed.
Lemma pr_op_off W x : valid sh x -> pair_pos g n (r (nth d x 0%nat)) = None -> pr_op W x = W x.
Proof. intros Hv Ep. unfold pr_op. rewrite memo_ok by assumption. rewrite Ep. reflexivity. Qed.

(* the constraint set of the group: a local condition on every pair *)
Variable Cloc : idx -> nat -> Q -> Q -> Prop.
Definition pr_ok (W : tens) : Prop :=
  forall b i, valid sh b -> (g <= i)%nat -> Nat.even (i - g) = true -> (S i < n)%nat ->
    Cloc b i (W (upd b d (r i))) (W (upd b d (r (S i)))).

Hypothesis F_fix : forall x i lo hi up, Cloc x i lo hi -> F x i lo hi up == (if up then hi else lo).

Lemma pr_op_fixed W : pr_ok W -> teq sh (pr_op W) W.
Proof. intros Hok x Hv. unfold pr_op. rewrite memo_ok by assumption.
  destruct (pair_pos g n (r (nth d x 0%nat))) as [[i up]|] eqn:Ep; [|reflexivity].
  destruct (pr_facts x i up Hv Ep) as (H1 & H2 & H3 & H4).
  rewrite F_fix by (apply Hok; assumption).
  destruct up; cbn [ofs] in H4; rewrite (upd_eq_self x d _ H4); reflexivity. Qed.

Hypothesis F_in : forall x i lo hi, Cloc x i (F x i lo hi false) (F x i lo hi true).
Hypothesis F_vi : forall x i lo hi zlo zhi, Cloc x i zlo zhi ->
  (lo - F x i lo hi false) * (zlo - F x i lo hi false) + (hi - F x i lo hi true) * (zhi - F x i lo hi true) <= 0.

Definition pr_sigma (x : idx) : idx := upd x d (r (partner g n (r (nth d x 0%nat)))).
Lemma pr_sigma_valid x : valid sh x -> valid sh (pr_sigma x).
Proof. intros Hv. apply upd_valid. assumption. apply r_lt, partner_lt, r_lt. apply valid_nth; assumption. Qed.
Lemma pr_sigma_invol x : valid sh x -> pr_sigma (pr_sigma x) = x.
Proof. intros Hv. pose proof (valid_nth sh x d Hv Hd) as Hk. unfold pr_sigma.
  rewrite nth_upd_same by (rewrite (valid_length sh x Hv); exact Hd).
  rewrite r_inv by (apply partner_lt, r_lt; exact Hk).
  rewrite partner_invol by (apply r_lt; exact Hk). rewrite r_inv by exact Hk.
  rewrite upd_upd. apply upd_self. Qed.

Lemma pr_local y z x : valid sh x -> pr_ok z ->
  vterm y z (pr_op y) x + vterm y z (pr_op y) (pr_sigma x) <= 0.
Proof. intros Hv Hz. pose proof (valid_nth sh x d Hv Hd) as Hk.
  destruct (pair_pos g n (r (nth d x 0%nat))) as [[i up]|] eqn:Ep.
  - destruct (pr_facts x i up Hv Ep) as (H1 & H2 & H3 & H4).
    assert (Es : pr_sigma x = upd x d (r (ofs (negb up) i))).
    { unfold pr_sigma. rewrite (partner_some _ _ _ _ _ Ep). reflexivity. }
    rewrite Es.
    pose proof (pr_op_at_lo y x i Hv H2 H3 H1) as Elo.
    pose proof (pr_op_at_hi y x i Hv H2 H3 H1) as Ehi.
    pose proof (F_vi x i (y (upd x d (r i))) (y (upd x d (r (S i)))) _ _ (Hz x i Hv H2 H3 H1)) as HV.
    assert (Ex : upd x d (r (ofs up i)) = x) by (apply upd_eq_self; exact H4).
    unfold vterm. destruct up; cbn [ofs negb] in *.
    + rewrite Ex in Elo, Ehi, HV. rewrite Elo, Ehi. lra.
    + rewrite Ex in Elo, Ehi, HV. rewrite Elo, Ehi. lra.
  - assert (Es : pr_sigma x = x).
    { unfold pr_sigma. rewrite (partner_none _ _ _ Ep). rewrite r_inv by exact Hk. apply upd_self. }
    rewrite Es. rewrite (vterm_zero y z (pr_op y) x) by (apply pr_op_off; assumption). lra. Qed.

Theorem pr_op_is_proj : is_proj (all_idx sh) pr_ok pr_op.
Proof. intros y. split.
  - intros b i Hb H1 H2 H3. rewrite (pr_op_at_lo y b i Hb H1 H2 H3), (pr_op_at_hi y b i Hb H1 H2 H3). apply F_in.
  - intros z Hz. rewrite ip_vterm. apply (sum_sym2_nonpos (all_idx sh) pr_sigma).
    + apply all_idx_nodup.
    + intros i Hi. apply all_idx_valid. apply pr_sigma_valid. apply all_idx_valid; assumption.
    + intros i Hi. apply pr_sigma_invol. apply all_idx_valid; assumption.
    + intros i Hi. apply pr_local. apply all_idx_valid; assumption. exact Hz. Qed.
End PairOp.

(* ------------------------------------------------------------------ *)
(* Generic map on disjoint 2x2 squares {i,i+1} x {j,j+1} (i = g0, g0+2, ...;
   j = g1, g1+2, ... read through the involution r) of the axes p, q.  The new
   value at corner (pa, pb) is F of the four old corner values
   (00, 10, 01, 11 = (i,j), (i+1,j), (i,j+1), (i+1,j+1)). *)
Definition corner (a00 a10 a01 a11 : Q) (pa pb : bool) : Q :=
  if pa then (if pb then a11 else a10) else (if pb then a01 else a00).

Lemma upd_as_at2_p x p q I J : p <> q -> nth q x 0%nat = J -> upd x p I = at2 x p q I J.
Proof. intros Hne HJ. unfold at2. symmetry. apply upd_eq_self. rewrite nth_upd_other by auto. exact HJ. Qed.
Lemma upd_as_at2_q x p q I J : nth p x 0%nat = I -> upd x q J = at2 x p q I J.
Proof. intros HI. unfold at2. rewrite (upd_eq_self x p I HI). reflexivity. Qed.

Section SquareOp.
Variables (sh : list nat) (p q g0 g1 : nat) (r : nat -> nat).
Notation sp := (nth p sh 0%nat).
Notation sq := (nth q sh 0%nat).
Hypothesis Hpq : p <> q.
Hypothesis Hp : (p < length sh)%nat.
Hypothesis Hq : (q < length sh)%nat.
Hypothesis r_lt : forall j, (j < sq)%nat -> (r j < sq)%nat.
Hypothesis r_inv : forall j, (j < sq)%nat -> r (r j) = j.
Variable F : Q -> Q -> Q -> Q -> bool -> bool -> Q.
Hypothesis F_proper : forall a b c e a' b' c' e' pa pb,
  a == a' -> b == b' -> c == c' -> e == e' -> F a b c e pa pb == F a' b' c' e' pa pb.

Definition sq_op (W : tens) : tens := memo sh (fun x =>
  match pair_pos g0 sp (nth p x 0%nat), pair_pos g1 sq (r (nth q x 0%nat)) with
  | Some (i, pa), Some (j, pb) =>
      F (W (at2 x p q i (r j))) (W (at2 x p q (S i) (r j)))
        (W (at2 x p q i (r (S j)))) (W (at2 x p q (S i) (r (S j)))) pa pb
  | _, _ => W x
  end).

Lemma sq_facts x i pa j pb : valid sh x ->
  pair_pos g0 sp (nth p x 0%nat) = Some (i, pa) -> pair_pos g1 sq (r (nth q x 0%nat)) = Some (j, pb) ->
  ((S i < sp)%nat /\ (g0 <= i)%nat /\ Nat.even (i - g0) = true /\ nth p x 0%nat = ofs pa i) /\
  ((S j < sq)%nat /\ (g1 <= j)%nat /\ Nat.even (j - g1) = true /\ nth q x 0%nat = r (ofs pb j)).
Proof. intros Hv E1 E2. pose proof (valid_nth sh x p Hv Hp) as Hk1. pose proof (valid_nth sh x q Hv Hq) as Hk2.
  destruct (pair_pos_inv _ _ _ _ _ E1 Hk1) as (A1 & A2 & A3 & A4).
  destruct (pair_pos_inv _ _ _ _ _ E2 (r_lt _ Hk2)) as (B1 & B2 & B3 & B4).
  repeat split; try assumption. rewrite <- B2. symmetry. apply r_inv. exact Hk2. Qed.

Lemma sq_op_proper : op_proper sh sq_op.
Proof. intros W W' E. unfold sq_op. apply memo_teq_ext. intros x Hv.
  destruct (pair_pos g0 sp (nth p x 0%nat)) as [[i pa]|] eqn:E1; [|apply E; assumption].
  destruct (pair_pos g1 sq (r (nth q x 0%nat))) as [[j pb]|] eqn:E2; [|apply E; assumption].
  destruct (sq_facts x i pa j pb Hv E1 E2) as [(A1 & A2 & A3 & A4) (B1 & B2 & B3 & B4)].
  apply F_proper; apply E; apply at2_valid; try assumption; try lia; apply r_lt; lia. Qed.

Lemma sq_op_at W b i j pa pb : valid sh b ->
  (g0 <= i)%nat -> Nat.even (i - g0) = true -> (S i < sp)%nat ->
  (g1 <= j)%nat -> Nat.even (j - g1) = true -> (S j < sq)%nat ->
  sq_op W (at2 b p q (ofs pa i) (r (ofs pb j))) =
  F (W (at2 b p q i (r j))) (W (at2 b p q (S i) (r j)))
    (W (at2 b p q i (r (S j)))) (W (at2 b p q (S i) (r (S j)))) pa pb.
Proof. intros Hv A1 A2 A3 B1 B2 B3. unfold sq_op.
  assert (Ho1 : (ofs pa i < sp)%nat) by (apply ofs_lt; assumption).
  assert (Ho2 : (ofs pb j < sq)%nat) by (apply ofs_lt; assumption).
  rewrite memo_ok by (apply at2_valid; [assumption|assumption|apply r_lt; assumption]).
  rewrite at2_nth_m by (try assumption; rewrite (valid_length sh b Hv); assumption).
  rewrite at2_nth_c by (rewrite (valid_length sh b Hv); assumption).
  rewrite r_inv by assumption. rewrite !pair_pos_ofs by assumption.
  rewrite !at2_at2 by assumption. reflexivity. Qed.
Lemma sq_op_at4 W b i j : valid sh b ->
  (g0 <= i)%nat -> Nat.even (i - g0) = true -> (S i < sp)%nat ->
  (g1 <= j)%nat -> Nat.even (j - g1) = true -> (S j < sq)%nat ->
  let a := W (at2 b p q i (r j)) in let b' := W (at2 b p q (S i) (r j)) in
  let c := W (at2 b p q i (r (S j))) in let e := W (at2 b p q (S i) (r (S j))) in
  sq_op W (at2 b p q i (r j)) = F a b' c e false false /\
  sq_op W (at2 b p q (S i) (r j)) = F a b' c e true false /\
  sq_op W (at2 b p q i (r (S j))) = F a b' c e false true /\
  sq_op W (at2 b p q (S i) (r (S j))) = F a b' c e true true.
Proof. intros Hv A1 A2 A3 B1 B2 B3. cbv zeta. repeat split.
  apply (sq_op_at W b i j false false); assumption. apply (sq_op_at W b i j true false); assumption.
  apply (sq_op_at W b i j false true); assumption. apply (sq_op_at W b i j true true); assumption. Qed.
Lemma sq_op_off W x : valid sh x ->
  pair_pos g0 sp (nth p x 0%nat) = None \/ pair_pos g1 sq (r (nth q x 0%nat)) = None -> sq_op W x = W x.
Proof. intros Hv Ep. unfold sq_op. rewrite memo_ok by assumption.
  destruct Ep as [Ep|Ep]; rewrite Ep; [reflexivity|]. destruct (pair_pos g0 sp (nth p x 0%nat)) as [[i pa]|]; reflexivity. Qed.

Variable Cloc : Q -> Q -> Q -> Q -> Prop.
Definition sq_ok (W : tens) : Prop :=
  forall b i j, valid sh b ->
    (g0 <= i)%nat -> Nat.even (i - g0) = true -> (S i < sp)%nat ->
    (g1 <= j)%nat -> Nat.even (j - g1) = true -> (S j < sq)%nat ->
    Cloc (W (at2 b p q i (r j))) (W (at2 b p q (S i) (r j))) (W (at2 b p q i (r (S j)))) (W (at2 b p q (S i) (r (S j)))).

Hypothesis F_fix : forall a b c e pa pb, Cloc a b c e -> F a b c e pa pb == corner a b c e pa pb.

Lemma sq_op_fixed W : sq_ok W -> teq sh (sq_op W) W.
Proof. intros Hok x Hv. unfold sq_op. rewrite memo_ok by assumption.
  destruct (pair_pos g0 sp (nth p x 0%nat)) as [[i pa]|] eqn:E1; [|reflexivity].
  destruct (pair_pos g1 sq (r (nth q x 0%nat))) as [[j pb]|] eqn:E2; [|reflexivity].
  destruct (sq_facts x i pa j pb Hv E1 E2) as [(A1 & A2 & A3 & A4) (B1 & B2 & B3 & B4)].
  rewrite F_fix by (apply Hok; assumption).
  assert (Ex : at2 x p q (ofs pa i) (r (ofs pb j)) = x) by (apply at2_eq_self; assumption).
  rewrite <- Ex at 5. unfold corner. destruct pa, pb; cbn [ofs]; reflexivity. Qed.

Hypothesis F_in : forall a b c e, Cloc (F a b c e false false) (F a b c e true false) (F a b c e false true) (F a b c e true true).
Hypothesis F_vi : forall a b c e za zb zc ze, Cloc za zb zc ze ->
  (a - F a b c e false false) * (za - F a b c e false false) + (b - F a b c e true false) * (zb - F a b c e true false) +
  ((c - F a b c e false true) * (zc - F a b c e false true) + (e - F a b c e true true) * (ze - F a b c e true true)) <= 0.

Definition sq_s1 (x : idx) : idx := upd x p (partner g0 sp (nth p x 0%nat)).
Definition sq_s2 (x : idx) : idx := upd x q (r (partner g1 sq (r (nth q x 0%nat)))).
Lemma sq_s1_valid x : valid sh x -> valid sh (sq_s1 x).
Proof. intros Hv. apply upd_valid. assumption. apply partner_lt. apply valid_nth; assumption. Qed.
Lemma sq_s2_valid x : valid sh x -> valid sh (sq_s2 x).
Proof. intros Hv. apply upd_valid. assumption. apply r_lt, partner_lt, r_lt. apply valid_nth; assumption. Qed.
Lemma sq_s1_invol x : valid sh x -> sq_s1 (sq_s1 x) = x.
Proof. intros Hv. pose proof (valid_nth sh x p Hv Hp) as Hk. unfold sq_s1.
  rewrite nth_upd_same by (rewrite (valid_length sh x Hv); exact Hp).
  rewrite partner_invol by exact Hk. rewrite upd_upd. apply upd_self. Qed.
Lemma sq_s2_invol x : valid sh x -> sq_s2 (sq_s2 x) = x.
Proof. intros Hv. pose proof (valid_nth sh x q Hv Hq) as Hk. unfold sq_s2.
  rewrite nth_upd_same by (rewrite (valid_length sh x Hv); exact Hq).
  rewrite r_inv by (apply partner_lt, r_lt; exact Hk).
  rewrite partner_invol by (apply r_lt; exact Hk). rewrite r_inv by exact Hk.
  rewrite upd_upd. apply upd_self. Qed.

(* the local inequality on one square, base form *)
Lemma sq_local_base y z b i j : valid sh b -> sq_ok z ->
  (g0 <= i)%nat -> Nat.even (i - g0) = true -> (S i < sp)%nat ->
  (g1 <= j)%nat -> Nat.even (j - g1) = true -> (S j < sq)%nat ->
  vterm y z (sq_op y) (at2 b p q i (r j)) + vterm y z (sq_op y) (at2 b p q (S i) (r j)) +
  (vterm y z (sq_op y) (at2 b p q i (r (S j))) + vterm y z (sq_op y) (at2 b p q (S i) (r (S j)))) <= 0.
Proof. intros Hv Hz A1 A2 A3 B1 B2 B3. unfold vterm.
  destruct (sq_op_at4 y b i j Hv A1 A2 A3 B1 B2 B3) as (E1 & E2 & E3 & E4). rewrite E1, E2, E3, E4.
  apply F_vi. apply Hz; assumption. Qed.

Lemma sq_local y z x : valid sh x -> sq_ok z ->
  (vterm y z (sq_op y) x + vterm y z (sq_op y) (sq_s1 x)) +
  (vterm y z (sq_op y) (sq_s2 x) + vterm y z (sq_op y) (sq_s1 (sq_s2 x))) <= 0.
Proof. intros Hv Hz.
  pose proof (valid_nth sh x p Hv Hp) as Hk1. pose proof (valid_nth sh x q Hv Hq) as Hk2.
  assert (Hp2 : nth p (sq_s2 x) 0%nat = nth p x 0%nat) by (unfold sq_s2; apply nth_upd_other; auto).
  assert (Hq1 : forall x', nth q (sq_s1 x') 0%nat = nth q x' 0%nat) by (intros x'; unfold sq_s1; apply nth_upd_other; auto).
  destruct (pair_pos g0 sp (nth p x 0%nat)) as [[i pa]|] eqn:E1.
  destruct (pair_pos g1 sq (r (nth q x 0%nat))) as [[j pb]|] eqn:E2.
  - destruct (sq_facts x i pa j pb Hv E1 E2) as [(A1 & A2 & A3 & A4) (B1 & B2 & B3 & B4)].
    assert (P1 : partner g0 sp (nth p x 0%nat) = ofs (negb pa) i) by (apply partner_some; assumption).
    assert (Q1 : partner g1 sq (r (nth q x 0%nat)) = ofs (negb pb) j) by (apply partner_some; assumption).
    assert (Ex : at2 x p q (ofs pa i) (r (ofs pb j)) = x) by (apply at2_eq_self; assumption).
    assert (Es1 : sq_s1 x = at2 x p q (ofs (negb pa) i) (r (ofs pb j))).
    { unfold sq_s1. rewrite P1. apply upd_as_at2_p; assumption. }
    assert (Es2 : sq_s2 x = at2 x p q (ofs pa i) (r (ofs (negb pb) j))).
    { unfold sq_s2. rewrite Q1. apply upd_as_at2_q; assumption. }
    assert (Es12 : sq_s1 (sq_s2 x) = at2 x p q (ofs (negb pa) i) (r (ofs (negb pb) j))).
    { unfold sq_s1. rewrite Hp2, P1. unfold sq_s2. rewrite Q1. unfold at2. apply upd_comm. auto. }
    pose proof (sq_local_base y z x i j Hv Hz A2 A3 A1 B2 B3 B1) as HL.
    rewrite Es12, Es1, Es2. destruct pa, pb; cbn [ofs negb] in *; rewrite Ex in HL; lra.
  - assert (Es2 : sq_s2 x = x).
    { unfold sq_s2. rewrite (partner_none _ _ _ E2). rewrite r_inv by exact Hk2. apply upd_self. }
    rewrite Es2.
    rewrite (vterm_zero y z (sq_op y) x) by (apply sq_op_off; auto).
    rewrite (vterm_zero y z (sq_op y) (sq_s1 x)) by (apply sq_op_off; [apply sq_s1_valid; assumption|right; rewrite Hq1; exact E2]).
    lra.
  - assert (Es1 : forall x', nth p x' 0%nat = nth p x 0%nat -> sq_s1 x' = x').
    { intros x' Hx'. unfold sq_s1. rewrite Hx'. rewrite (partner_none _ _ _ E1). apply upd_eq_self. exact Hx'. }
    rewrite (Es1 x eq_refl), (Es1 (sq_s2 x) Hp2).
    rewrite (vterm_zero y z (sq_op y) x) by (apply sq_op_off; auto).
    rewrite (vterm_zero y z (sq_op y) (sq_s2 x)) by (apply sq_op_off; [apply sq_s2_valid; assumption|left; rewrite Hp2; exact E1]).
    lra. Qed.

Theorem sq_op_is_proj : is_proj (all_idx sh) sq_ok sq_op.
Proof. intros y. split.
  - intros b i j Hb A1 A2 A3 B1 B2 B3.
    destruct (sq_op_at4 y b i j Hb A1 A2 A3 B1 B2 B3) as (E1 & E2 & E3 & E4). rewrite E1, E2, E3, E4. apply F_in.
  - intros z Hz. rewrite ip_vterm. apply (sum_sym4_nonpos (all_idx sh) sq_s1 sq_s2).
    + apply all_idx_nodup.
    + intros i Hi. apply all_idx_valid. apply sq_s1_valid. apply all_idx_valid; assumption.
    + intros i Hi. apply sq_s1_invol. apply all_idx_valid; assumption.
    + intros i Hi. apply all_idx_valid. apply sq_s2_valid. apply all_idx_valid; assumption.
    + intros i Hi. apply sq_s2_invol. apply all_idx_valid; assumption.
    + intros i Hi. apply sq_local. apply all_idx_valid; assumption. exact Hz. Qed.
End SquareOp.

(* transfer along pointwise equality of maps; closure of the block sets under teq *)
Lemma is_proj_ext sh (C : tens -> Prop) (P P' : tens -> tens) :
  (forall y, teq sh (P' y) (P y)) -> (forall f g, teq sh f g -> C f -> C g) ->
  is_proj (all_idx sh) C P -> is_proj (all_idx sh) C P'.
Proof. intros HE HC HP y. destruct (HP y) as [H1 H2]. split.
  - apply (HC (P y)). apply teq_sym, HE. exact H1.
  - intros z Hz.
    rewrite (ip_ext (all_idx sh) (vsub y (P' y)) (vsub y (P y)) (vsub z (P' y)) (vsub z (P y))).
    + apply H2; assumption.
    + apply vsub_veq. apply veq_refl. apply teq_veq, HE.
    + apply vsub_veq. apply veq_refl. apply teq_veq, HE. Qed.

Lemma pr_ok_teq sh d g r (Cloc : idx -> nat -> Q -> Q -> Prop) :
  (d < length sh)%nat -> (forall j, (j < nth d sh 0)%nat -> (r j < nth d sh 0)%nat) ->
  (forall x i lo hi lo' hi', lo == lo' -> hi == hi' -> Cloc x i lo hi -> Cloc x i lo' hi') ->
  forall f f', teq sh f f' -> pr_ok sh d g r Cloc f -> pr_ok sh d g r Cloc f'.
Proof. intros Hd r_lt HC f f' E Hok b i Hb H1 H2 H3.
  apply (HC b i (f (upd b d (r i))) (f (upd b d (r (S i))))).
  - apply E. apply upd_valid. assumption. apply r_lt. lia.
  - apply E. apply upd_valid. assumption. apply r_lt. lia.
  - apply Hok; assumption. Qed.
Lemma sq_ok_teq sh p q g0 g1 r (Cloc : Q -> Q -> Q -> Q -> Prop) :
  (forall j, (j < nth q sh 0)%nat -> (r j < nth q sh 0)%nat) ->
  (forall a b c e a' b' c' e', a == a' -> b == b' -> c == c' -> e == e' -> Cloc a b c e -> Cloc a' b' c' e') ->
  forall f f', teq sh f f' -> sq_ok sh p q g0 g1 r Cloc f -> sq_ok sh p q g0 g1 r Cloc f'.
Proof. intros r_lt HC f f' E Hok b i j Hb A1 A2 A3 B1 B2 B3.
  apply (HC (f (at2 b p q i (r j))) (f (at2 b p q (S i) (r j))) (f (at2 b p q i (r (S j)))) (f (at2 b p q (S i) (r (S j)))));
    try (apply E; apply at2_valid; [assumption|lia|apply r_lt; lia]).
  apply Hok; assumption. Qed.

Lemma id_lt (n : nat) : forall j, (j < n)%nat -> ((fun k : nat => k) j < n)%nat.
Proof. intros j H. exact H. Qed.
Lemma id_inv (n : nat) : forall j, (j < n)%nat -> (fun k : nat => k) ((fun k : nat => k) j) = j.
Proof. intros j _. reflexivity. Qed.

(* ================================================================== *)
(* Part D: the families                                                 *)
(* ================================================================== *)

(* ---- D1: monotonicity / unimodality ---- *)
(* the code's direction rule for unimodality: pairs with lower index i < size/2
   form the first part *)
Definition uni_inc (uni : Z) (n i : nat) : bool :=
  let first := (i <? n / 2)%nat in ((uni =? -1)%Z && first) || ((uni =? 1)%Z && negb first).
Definition unimodal_along (sh : list nat) (uni : Z) (d : nat) (f : tens) : Prop :=
  forall i, valid sh i -> (S (nth d i 0%nat) < nth d sh 0%nat)%nat ->
    if uni_inc uni (nth d sh 0%nat) (nth d i 0%nat)
    then f i <= f (upd i d (S (nth d i 0%nat))) else f (upd i d (S (nth d i 0%nat))) <= f i.

Definition pair_lo (mono uni : Z) (inc : bool) (lo hi : Q) : Q :=
  let avg := (lo + hi) * (1#2) in
  let lo1 := if (mono =? 1)%Z then qmin lo avg else lo in
  if (uni =? 0)%Z then lo1 else if inc then qmin lo1 avg else qmax lo1 avg.
Definition pair_hi (mono uni : Z) (inc : bool) (lo hi : Q) : Q :=
  let avg := (lo + hi) * (1#2) in
  let hi1 := if (mono =? 1)%Z then qmax hi avg else hi in
  if (uni =? 0)%Z then hi1 else if inc then qmax hi1 avg else qmin hi1 avg.
Definition mono_F (mono uni : Z) (n : nat) (x : idx) (i : nat) (lo hi : Q) (up : bool) : Q :=
  if up then pair_hi mono uni (uni_inc uni n i) lo hi else pair_lo mono uni (uni_inc uni n i) lo hi.
(* the local constraint on the pair (i, i+1) *)
Definition mono_C (mono uni : Z) (n : nat) (x : idx) (i : nat) (lo hi : Q) : Prop :=
  (mono = 1%Z -> lo <= hi) /\ (uni <> 0%Z -> if uni_inc uni n i then lo <= hi else hi <= lo).
(* the constraint set of the group (d, g): every pair (i, i+1), i = g, g+2, ..., at
   every position of the other axes, is ordered as required *)
Definition mono_group_ok (sh : list nat) (mono uni : Z) (d g : nat) : tens -> Prop :=
  pr_ok sh d g (fun k => k) (mono_C mono uni (nth d sh 0%nat)).

Ltac mono_cases mono uni n i :=
  destruct (Z.eqb_spec mono 1); destruct (Z.eqb_spec uni 0); destruct (uni_inc uni n i); cbv beta iota zeta.

Lemma mono_F_proper mono uni n x i lo hi lo' hi' up : lo == lo' -> hi == hi' ->
  mono_F mono uni n x i lo hi up == mono_F mono uni n x i lo' hi' up.
Proof. intros H1 H2. unfold mono_F, pair_lo, pair_hi. cbv zeta.
  destruct up; destruct (mono =? 1)%Z; destruct (uni =? 0)%Z; destruct (uni_inc uni n i); try rewrite H1; try rewrite H2; reflexivity. Qed.
Lemma mono_C_proper mono uni n x i lo hi lo' hi' : lo == lo' -> hi == hi' ->
  mono_C mono uni n x i lo hi -> mono_C mono uni n x i lo' hi'.
Proof. intros H1 H2 [A B]. split. intros E; specialize (A E); lra.
  intros E; specialize (B E). destruct (uni_inc uni n i); lra. Qed.
Lemma mono_F_fix mono uni n x i lo hi up : mono_C mono uni n x i lo hi ->
  mono_F mono uni n x i lo hi up == (if up then hi else lo).
Proof. intros [A B]. unfold mono_F, pair_lo, pair_hi.
  mono_cases mono uni n i; try (specialize (A ltac:(assumption))); try (specialize (B ltac:(assumption)));
    cbv beta iota in *; destruct up; qcases; lra. Qed.
Lemma mono_F_in mono uni n x i lo hi :
  mono_C mono uni n x i (mono_F mono uni n x i lo hi false) (mono_F mono uni n x i lo hi true).
Proof. unfold mono_C, mono_F, pair_lo, pair_hi. split; intros E;
  mono_cases mono uni n i; try contradiction; qcases; lra. Qed.
Lemma mono_F_vi mono uni n x i lo hi zlo zhi : mono_C mono uni n x i zlo zhi ->
  (lo - mono_F mono uni n x i lo hi false) * (zlo - mono_F mono uni n x i lo hi false) +
  (hi - mono_F mono uni n x i lo hi true) * (zhi - mono_F mono uni n x i lo hi true) <= 0.
Proof. intros [A B]. unfold mono_F, pair_lo, pair_hi.
  mono_cases mono uni n i; try (specialize (A ltac:(assumption))); try (specialize (B ltac:(assumption)));
    cbv beta iota in *; qcases; first [nra | (assert (E : hi == lo) by lra; rewrite E; nra)]. Qed.

Lemma mono_group_bridge sh mono uni d g W :
  teq sh (mono_group sh mono uni d g W) (pr_op sh d g (fun k => k) (mono_F mono uni (nth d sh 0%nat)) W).
Proof. unfold mono_group, pr_op. cbv zeta. apply memo_teq_ext. intros x Hv.
  destruct (pair_pos g (nth d sh 0%nat) (nth d x 0%nat)) as [[i up]|]; [|reflexivity].
  rewrite Qred_correct. unfold mono_F, pair_lo, pair_hi, uni_inc. destruct up; reflexivity. Qed.

Lemma mono_group_proper sh mono uni d g : (d < length sh)%nat -> op_proper sh (mono_group sh mono uni d g).
Proof. intros Hd W W' E.
  eapply teq_trans. apply mono_group_bridge. eapply teq_trans; [|apply teq_sym, mono_group_bridge].
  apply (pr_op_proper sh d g (fun k => k) Hd (id_lt _) (id_inv _)). intros; apply mono_F_proper; assumption. exact E. Qed.

Lemma mono_feasible_group_ok sh mono uni d g W : (d < length sh)%nat ->
  (mono = 1%Z -> mono_along sh d W) -> (uni <> 0%Z -> unimodal_along sh uni d W) ->
  mono_group_ok sh mono uni d g W.
Proof. intros Hd Hm Hu b i Hb H1 H2 H3.
  assert (Hv : valid sh (upd b d i)) by (apply upd_valid; [assumption|lia]).
  assert (En : nth d (upd b d i) 0%nat = i) by (apply nth_upd_same; rewrite (valid_length sh b Hb); exact Hd).
  split.
  - intros E. pose proof (Hm E (upd b d i) Hv) as H. rewrite En, upd_upd in H. apply H. exact H3.
  - intros E. pose proof (Hu E (upd b d i) Hv) as H. rewrite En, upd_upd in H. apply H. exact H3. Qed.

Lemma mono_group_fixed_ok sh mono uni d g W : (d < length sh)%nat ->
  mono_group_ok sh mono uni d g W -> teq sh (mono_group sh mono uni d g W) W.
Proof. intros Hd Hok. eapply teq_trans. apply mono_group_bridge.
  apply (pr_op_fixed sh d g (fun k => k) Hd (id_lt _) (id_inv _) _ (mono_C mono uni (nth d sh 0%nat))).
  intros; apply mono_F_fix; assumption. exact Hok. Qed.
Lemma mono_group_fixed sh mono uni d g W : (d < length sh)%nat ->
  (mono = 1%Z -> mono_along sh d W) -> (uni <> 0%Z -> unimodal_along sh uni d W) ->
  teq sh (mono_group sh mono uni d g W) W.
Proof. intros Hd Hm Hu. apply mono_group_fixed_ok. exact Hd. apply mono_feasible_group_ok; assumption. Qed.

Lemma mono_group_ok_teq sh mono uni d g f f' : (d < length sh)%nat ->
  teq sh f f' -> mono_group_ok sh mono uni d g f -> mono_group_ok sh mono uni d g f'.
Proof. intros Hd. apply (pr_ok_teq sh d g (fun k => k) _ Hd (id_lt _)). intros x i lo hi lo' hi'. apply mono_C_proper. Qed.

(* the monotonicity / unimodality group update is the nearest-point map onto
   the set of kernels whose pairs of this (dimension, group) are ordered *)
Theorem mono_group_is_proj sh mono uni d g : (d < length sh)%nat ->
  is_proj (all_idx sh) (mono_group_ok sh mono uni d g) (mono_group sh mono uni d g).
Proof. intros Hd.
  apply (is_proj_ext sh _ (pr_op sh d g (fun k => k) (mono_F mono uni (nth d sh 0%nat)))).
  - intros y. apply mono_group_bridge.
  - intros f f'. apply mono_group_ok_teq. exact Hd.
  - apply (pr_op_is_proj sh d g (fun k => k) Hd (id_lt _) (id_inv _)).
    + intros. reflexivity.
    + intros. apply mono_F_in.
    + intros. apply mono_F_vi. assumption. Qed.
