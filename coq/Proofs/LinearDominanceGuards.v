(* C20: the dominance-effect clauses at WEIGHTS level for BOUNDED inputs, and the
   necessity of the guard "the dominant input is not clipped".

   lin_dominance_effect (Proofs/LinearEval.v) needs both inputs unbounded;
   projected_mdom_effect (Proofs/LinearComposed.v) is about images of the
   projection.  Here: ANY weights that satisfy the monotonic-dominance
   inequalities (k_weak <= k_dom, 0 <= k_dom), ANY bounds on both inputs:
     - mdom_effect_unclipped   the effect clause, where the dominant input is unclipped at
                               x_dom and x_dom + d (the weak input may be clipped);
     - mdom_effect_general     without the guard: the weak step moves the output by at most
                               k_dom * d, the dominant step by k_dom * (clip(x_dom + d) - clip(x_dom))
                               which is between 0 and k_dom * d;
     - mdom_effect_clipped_refuted   the guard is necessary: a saturated dominant input does
                               not move the output at all (witness reproduced on the real layer);
     - rdom_effect_decreasing / rdom_effect_abs   range dominance for the decreasing
                               orientation and in absolute value (lin_range_dominance_effect is
                               the increasing orientation). *)
From TFL Require Import Model.LinearEval Proofs.LinearEval.
From TFL Require Import Model.LinearLayer Proofs.PartialOrder Proofs.TopoSort Proofs.LinearProject Proofs.LinearComposed.
Open Scope Q_scope.

Lemma clip_step_nonneg lo hi v d : 0 <= d -> 0 <= clip_opt lo hi (v + d) - clip_opt lo hi v.
Proof. intros H. pose proof (clip_opt_mono lo hi v (v + d) ltac:(lra)). lra. Qed.

(* no guard *)
Theorem mdom_effect_general k b bs x dom weak d :
  (dom < length k)%nat -> (weak < length k)%nat -> length bs = length k -> length x = length k ->
  0 <= d -> nth weak k 0 <= nth dom k 0 -> 0 <= nth dom k 0 ->
  let cd v := clip_opt (fst (nth dom bs nob)) (snd (nth dom bs nob)) v in
  lin_unit k b bs (set_nth weak (nth weak x 0 + d) x) - lin_unit k b bs x <= nth dom k 0 * d /\
  lin_unit k b bs (set_nth dom (nth dom x 0 + d) x) - lin_unit k b bs x ==
    nth dom k 0 * (cd (nth dom x 0 + d) - cd (nth dom x 0)) /\
  0 <= lin_unit k b bs (set_nth dom (nth dom x 0 + d) x) - lin_unit k b bs x /\
  lin_unit k b bs (set_nth dom (nth dom x 0 + d) x) - lin_unit k b bs x <= nth dom k 0 * d.
Proof. intros Hdn Hwn Lb Lx Hd Hle Hk0 cd.
  pose proof (lin_unit_set_diff0 k b bs x dom (nth dom x 0 + d) ltac:(lia) ltac:(lia) ltac:(lia)) as H1.
  pose proof (lin_unit_set_diff0 k b bs x weak (nth weak x 0 + d) ltac:(lia) ltac:(lia) ltac:(lia)) as H2.
  set (lw := fst (nth weak bs nob)) in *. set (hw := snd (nth weak bs nob)) in *.
  pose proof (clip_opt_step lw hw (nth weak x 0) d Hd) as Sw.
  pose proof (clip_step_nonneg lw hw (nth weak x 0) d Hd) as Nw.
  pose proof (clip_opt_step (fst (nth dom bs nob)) (snd (nth dom bs nob)) (nth dom x 0) d Hd) as Sd.
  pose proof (clip_step_nonneg (fst (nth dom bs nob)) (snd (nth dom bs nob)) (nth dom x 0) d Hd) as Nd.
  fold (cd (nth dom x 0 + d)) in H1, Sd, Nd. fold (cd (nth dom x 0)) in H1, Sd, Nd.
  split; [|split; [exact H1|split]].
  - rewrite H2. destruct (Qlt_le_dec (nth weak k 0) 0) as [Hneg|Hpos].
    + pose proof (qmul_nonneg (- nth weak k 0) _ ltac:(lra) Nw). pose proof (qmul_nonneg _ _ Hk0 Hd). lra.
    + pose proof (qmul_le_l (nth weak k 0) _ _ Hpos Sw). pose proof (qmul_le_r (nth weak k 0) (nth dom k 0) d Hd Hle). lra.
  - rewrite H1. apply qmul_nonneg; assumption.
  - rewrite H1. exact (qmul_le_l (nth dom k 0) _ _ Hk0 Sd). Qed.

(* the effect clause: dominant input unclipped at both ends of the step *)
Theorem mdom_effect_unclipped k b bs x dom weak d :
  (dom < length k)%nat -> (weak < length k)%nat -> length bs = length k -> length x = length k ->
  0 <= d -> nth weak k 0 <= nth dom k 0 -> 0 <= nth dom k 0 ->
  unclipped (nth dom bs nob) (nth dom x 0) -> unclipped (nth dom bs nob) (nth dom x 0 + d) ->
  lin_unit k b bs (set_nth weak (nth weak x 0 + d) x) - lin_unit k b bs x <=
  lin_unit k b bs (set_nth dom (nth dom x 0 + d) x) - lin_unit k b bs x.
Proof. intros Hdn Hwn Lb Lx Hd Hle Hk0 U1 U2.
  destruct (mdom_effect_general k b bs x dom weak d Hdn Hwn Lb Lx Hd Hle Hk0) as (A & B & _).
  unfold unclipped in U1, U2. rewrite U1, U2 in B. rewrite B. lra. Qed.

(* the guard is necessary.  Linear(num_input_dims=2, monotonicities=[1, 1],
   monotonic_dominances=[(0, 1)], input_min=[0, None], input_max=[1, None]), raw kernel
   (1, 1) (a fixed point of the constraint), no bias, x = (1, 0), d = 1: the dominant
   input is saturated at its upper bound, its step moves the output by 0, the weak
   input's step by 1. *)
Definition sat_cfg : lin_cfg := mkLin [1; 1]%Z [(0%nat, 1%nat)] [] [Some 0; None] [Some 1; None] 0.
Lemma sat_cfg_valid : lin_valid sat_cfg 2.
Proof. constructor; cbn; try reflexivity; try congruence.
  - intros i. unfold mono. cbn. destruct i as [|[|[|i]]]; auto.
  - intros d k [E|[]]. inversion E; subst. unfold mono; cbn. repeat split; lia.
  - intros d k [].
  - intros i _ [x [[]|[]]].
  - apply (acyclic_rank _ (fun x => 10 - x)%nat). intros a b H. cbn in H. destruct H as [E|[]]. inversion E; subst. lia.
  - apply (acyclic_rank _ (fun x => x)). intros a b []. Qed.

Theorem mdom_effect_clipped_refuted :
  exists rt c n w r b x dom weak d,
    lin_valid c n /\ length w = n /\ lin_project_col rt c w = Some r /\ length x = n /\
    In (dom, weak) (lc_mdom c) /\ 0 <= d /\
    unclipped (nth dom (layer_bounds c n) nob) (nth dom x 0) /\
    ~ unclipped (nth dom (layer_bounds c n) nob) (nth dom x 0 + d) /\
    ~ (lin_unit r b (layer_bounds c n) (set_nth weak (nth weak x 0 + d) x) - lin_unit r b (layer_bounds c n) x <=
       lin_unit r b (layer_bounds c n) (set_nth dom (nth dom x 0 + d) x) - lin_unit r b (layer_bounds c n) x).
Proof. exists qsqrt, sat_cfg, 2%nat, [1; 1], [1; 1], 0, [1; 0], 0%nat, 1%nat, 1.
  split; [exact sat_cfg_valid|]. split; [reflexivity|]. split; [vm_compute; reflexivity|]. split; [reflexivity|].
  split; [left; reflexivity|]. split; [lra|]. split; [vm_compute; reflexivity|].
  split; vm_compute; intros H; first [discriminate H | apply H; reflexivity]. Qed.

(* ---------------- range dominance, decreasing orientation / absolute value ---------------- *)
Theorem rdom_effect_decreasing k b bs x dom weak ld hd lw hw :
  (dom < length k)%nat -> (weak < length k)%nat -> length bs = length k -> length x = length k ->
  nth dom bs nob = (Some ld, Some hd) -> nth weak bs nob = (Some lw, Some hw) ->
  ld <= hd -> lw <= hw ->
  (hd - ld) * nth dom k 0 <= (hw - lw) * nth weak k 0 ->
  lin_unit k b bs (set_nth weak lw x) - lin_unit k b bs (set_nth weak hw x) <=
  lin_unit k b bs (set_nth dom ld x) - lin_unit k b bs (set_nth dom hd x).
Proof. intros Hd Hw Lb Lx Ed Ew Hdr Hwr Hle.
  pose proof (sweep_effect k b bs x dom ld hd ltac:(lia) ltac:(lia) ltac:(lia) Ed Hdr) as S1.
  pose proof (sweep_effect k b bs x weak lw hw ltac:(lia) ltac:(lia) ltac:(lia) Ew Hwr) as S2.
  assert (E : nth dom k 0 * (hd - ld) <= nth weak k 0 * (hw - lw)).
  { rewrite (Qmult_comm (nth dom k 0)), (Qmult_comm (nth weak k 0)). exact Hle. }
  rewrite <- S1, <- S2 in E. clear - E. lra. Qed.

Lemma qabs_mul_nonneg a t : 0 <= t -> qabs (a * t) == qabs a * t.
Proof. intros Ht. destruct (Qlt_le_dec a 0) as [Ha|Ha].
  - pose proof (qmul_nonneg (- a) t ltac:(lra) Ht). qcases; lra.
  - pose proof (qmul_nonneg a t Ha Ht). qcases; lra. Qed.

(* both orientations at once: |k_weak| * (weak range) <= |k_dom| * (dominant range) *)
Theorem rdom_effect_abs k b bs x dom weak ld hd lw hw :
  (dom < length k)%nat -> (weak < length k)%nat -> length bs = length k -> length x = length k ->
  nth dom bs nob = (Some ld, Some hd) -> nth weak bs nob = (Some lw, Some hw) ->
  ld <= hd -> lw <= hw ->
  qabs (nth weak k 0) * (hw - lw) <= qabs (nth dom k 0) * (hd - ld) ->
  qabs (lin_unit k b bs (set_nth weak hw x) - lin_unit k b bs (set_nth weak lw x)) <=
  qabs (lin_unit k b bs (set_nth dom hd x) - lin_unit k b bs (set_nth dom ld x)).
Proof. intros Hd Hw Lb Lx Ed Ew Hdr Hwr Hle.
  pose proof (sweep_effect k b bs x dom ld hd ltac:(lia) ltac:(lia) ltac:(lia) Ed Hdr) as S1.
  pose proof (sweep_effect k b bs x weak lw hw ltac:(lia) ltac:(lia) ltac:(lia) Ew Hwr) as S2.
  assert (E1 : qabs (lin_unit k b bs (set_nth dom hd x) - lin_unit k b bs (set_nth dom ld x)) == qabs (nth dom k 0) * (hd - ld)).
  { rewrite <- (qabs_mul_nonneg (nth dom k 0) (hd - ld)) by lra. qcases; lra. }
  assert (E2 : qabs (lin_unit k b bs (set_nth weak hw x) - lin_unit k b bs (set_nth weak lw x)) == qabs (nth weak k 0) * (hw - lw)).
  { rewrite <- (qabs_mul_nonneg (nth weak k 0) (hw - lw)) by lra. qcases; lra. }
  rewrite E1, E2. exact Hle. Qed.

(* ---------------- the hypotheses are satisfiable ---------------- *)
(* kernel (2, 1), dominant input 0 bounded to [0, 4], weak input 1 bounded to [0, 1]; x = (1, 1/2), d = 1:
   dominant unclipped at 1 and 2; the weak input is clipped at 3/2 -> 1 *)
Example mdom_unclipped_applies :
  let k := [2; 1] in let bs := [(Some 0, Some 4); (Some 0, Some 1)] in let x := [1; 1#2] in
  nth 1 k 0 <= nth 0 k 0 /\ 0 <= nth 0 k 0 /\
  unclipped (nth 0 bs nob) (nth 0 x 0) /\ unclipped (nth 0 bs nob) (nth 0 x 0 + 1) /\
  lin_unit k 0 bs (set_nth 1 (nth 1 x 0 + 1) x) - lin_unit k 0 bs x == 1#2 /\
  lin_unit k 0 bs (set_nth 0 (nth 0 x 0 + 1) x) - lin_unit k 0 bs x == 2.
Proof. cbv zeta. repeat split; vm_compute; try reflexivity; discriminate. Qed.
(* decreasing pair: kernel (-2, -1), ranges [0, 1] and [0, 1] *)
Example rdom_decreasing_applies :
  let k := [-(2); -(1)] in let bs := [(Some 0, Some 1); (Some 0, Some 1)] in
  (1 - 0) * nth 0 k 0 <= (1 - 0) * nth 1 k 0 /\
  qabs (nth 1 k 0) * (1 - 0) <= qabs (nth 0 k 0) * (1 - 0) /\
  lin_unit k 0 bs (set_nth 1 0 [0; 0]) - lin_unit k 0 bs (set_nth 1 1 [0; 0]) == 1 /\
  lin_unit k 0 bs (set_nth 0 0 [0; 0]) - lin_unit k 0 bs (set_nth 0 1 [0; 0]) == 2.
Proof. cbv zeta. repeat split; vm_compute; try reflexivity; discriminate. Qed.
