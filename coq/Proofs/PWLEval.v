(* Lemmas about Model/PWLEval.v and Model/CategoricalEval.v. *)
From TFL Require Import Model.PWLEval Model.CategoricalEval.
Open Scope Q_scope.

(* ---------------------------------------------------------------------- *)
(* One segment weight  clip((x - k) / l, 0, 1)  with l > 0                  *)
(* ---------------------------------------------------------------------- *)
Definition seg_w (x k l : Q) : Q := qmax (qmin ((x - k) / l) 1) 0.

Lemma qdiv_mul a l : 0 < l -> (a / l) * l == a.
Proof. intros H. unfold Qdiv. rewrite <- Qmult_assoc. rewrite (Qmult_comm (/ l)).
  rewrite Qmult_inv_r. lra. intro E. rewrite E in H. lra. Qed.

Lemma seg_w_range x k l : 0 <= seg_w x k l /\ seg_w x k l <= 1.
Proof. unfold seg_w. qcases; lra. Qed.
Lemma seg_w_zero x k l : 0 < l -> x <= k -> seg_w x k l == 0.
Proof. intros Hl Hx. unfold seg_w. pose proof (qdiv_mul (x - k) l Hl) as E.
  set (d := (x - k) / l) in *. qcases; nra. Qed.
Lemma seg_w_one x k l : 0 < l -> k + l <= x -> seg_w x k l == 1.
Proof. intros Hl Hx. unfold seg_w. pose proof (qdiv_mul (x - k) l Hl) as E.
  set (d := (x - k) / l) in *. qcases; nra. Qed.
Lemma seg_w_mid x k l : 0 < l -> k <= x -> x <= k + l -> seg_w x k l == (x - k) / l.
Proof. intros Hl H1 H2. unfold seg_w. pose proof (qdiv_mul (x - k) l Hl) as E.
  set (d := (x - k) / l) in *. qcases; nra. Qed.
Lemma seg_w_mono x y k l : 0 < l -> x <= y -> seg_w x k l <= seg_w y k l.
Proof. intros Hl Hxy. unfold seg_w. pose proof (qdiv_mul (x - k) l Hl) as E1.
  pose proof (qdiv_mul (y - k) l Hl) as E2.
  set (d1 := (x - k) / l) in *. set (d2 := (y - k) / l) in *.
  assert (d1 <= d2) by nra. qcases; lra. Qed.

Lemma interp_w_cons x k kps l lens :
  interp_w x (k :: kps) (l :: lens) = seg_w x k l :: interp_w x kps lens.
Proof. reflexivity. Qed.

(* ---------------------------------------------------------------------- *)
(* Segments: left keypoints [kps], lengths [lens], right end [e]:            *)
(* every length is positive, each keypoint is its predecessor plus the      *)
(* predecessor's length, and the last keypoint plus the last length is e.   *)
(* The complete keypoint list is  kps ++ [e].                               *)
(* ---------------------------------------------------------------------- *)
Fixpoint segments (kps lens : list Q) (e : Q) : Prop :=
  match kps, lens with
  | [], [] => True
  | k :: kps', l :: lens' =>
      0 < l /\ (match kps' with k' :: _ => k' == k + l | [] => e == k + l end) /\ segments kps' lens' e
  | _, _ => False
  end.

Lemma segments_length kps : forall lens e, segments kps lens e -> length lens = length kps.
Proof. induction kps as [|k kps IH]; intros [|l lens] e H; cbn in *; try tauto.
  destruct H as [_ [_ H]]. f_equal. eapply IH; eauto. Qed.

Lemma segments_head_le_end kps : forall lens e k l, segments (k :: kps) (l :: lens) e -> k + l <= e.
Proof. induction kps as [|k' kps IH]; intros lens e k l H.
  - cbn in H. destruct lens; [|tauto]. lra.
  - destruct lens as [|l' lens]; [cbn in H; tauto|].
    destruct H as [Hl [Hk H]]. pose proof (IH lens e k' l' H). cbn in H. lra. Qed.

(* every keypoint of kps ++ [e] is >= the first one *)
Lemma segments_nth_ge kps : forall lens e k l j, segments (k :: kps) (l :: lens) e ->
  (j <= S (length kps))%nat -> k <= nth j ((k :: kps) ++ [e]) 0.
Proof. induction kps as [|k' kps IH]; intros lens e k l j H Hj.
  - destruct lens; [|cbn in H; tauto]. cbn in H. destruct j as [|[|j]]; cbn in *; try lra; lia.
  - destruct lens as [|l' lens]; [cbn in H; tauto|]. destruct H as [Hl [Hk H]].
    destruct j as [|j]; [cbn; lra|]. pose proof (IH lens e k' l' j H ltac:(cbn in Hj; lia)) as G.
    change (nth (S j) ((k :: k' :: kps) ++ [e]) 0) with (nth j ((k' :: kps) ++ [e]) 0). lra. Qed.

(* strictly increasing *)
Lemma segments_increasing kps : forall lens e j, segments kps lens e ->
  (j < length kps)%nat -> nth (S j) (kps ++ [e]) 0 == nth j kps 0 + nth j lens 0 /\ 0 < nth j lens 0.
Proof. induction kps as [|k kps IH]; intros [|l lens] e j H Hj; cbn in Hj; try lia; [cbn in H; tauto|].
  destruct H as [Hl [Hk H]]. destruct j as [|j].
  - cbn [nth]. split; [|exact Hl]. destruct kps; cbn; lra.
  - apply (IH lens e j H). lia. Qed.

Lemma nth_app_left_Q (a b : list Q) j : (j < length a)%nat -> nth j (a ++ b) 0 = nth j a 0.
Proof. intros. apply app_nth1. assumption. Qed.

(* ---------------------------------------------------------------------- *)
(* The sum over segments                                                   *)
(* ---------------------------------------------------------------------- *)
Lemma dot_zero_left kps : forall lens e hs x, segments kps lens e ->
  x <= hd e kps -> dot (interp_w x kps lens) hs == 0.
Proof. induction kps as [|k kps IH]; intros [|l lens] e hs x H Hx; cbn in H; try tauto; try reflexivity.
  destruct H as [Hl [Hk H]]. rewrite interp_w_cons. destruct hs as [|h hs]; [reflexivity|].
  cbn [dot]. cbn in Hx. rewrite (seg_w_zero x k l Hl Hx).
  rewrite (IH lens e hs x H). lra. destruct kps; cbn; lra. Qed.

Lemma dot_all_right kps : forall lens e hs x, segments kps lens e -> length hs = length kps ->
  e <= x -> dot (interp_w x kps lens) hs == qsum hs.
Proof. induction kps as [|k kps IH]; intros [|l lens] e hs x H Hh Hx; cbn in H; try tauto.
  - destruct hs; [reflexivity|discriminate].
  - destruct hs as [|h hs]; [discriminate|]. rewrite interp_w_cons. cbn [dot qsum].
    pose proof (segments_head_le_end kps lens e k l H) as Hke. destruct H as [Hl [Hk H]].
    rewrite (seg_w_one x k l Hl ltac:(lra)). rewrite (IH lens e hs x H ltac:(cbn in Hh; lia) Hx). lra. Qed.

(* x inside segment j *)
Lemma dot_segment kps : forall lens e hs x j, segments kps lens e -> length hs = length kps ->
  (j < length kps)%nat -> nth j kps 0 <= x -> x <= nth (S j) (kps ++ [e]) 0 ->
  dot (interp_w x kps lens) hs == qsum (firstn j hs) + (x - nth j kps 0) / nth j lens 0 * nth j hs 0.
Proof. induction kps as [|k kps IH]; intros [|l lens] e hs x j H Hh Hj H1 H2; cbn in Hj; try lia; [cbn in H; tauto|].
  destruct hs as [|h hs]; [discriminate|]. rewrite interp_w_cons. cbn [dot].
  pose proof H as Hseg. destruct H as [Hl [Hk H]]. destruct j as [|j].
  - cbn [nth firstn qsum] in *. rewrite (seg_w_mid x k l Hl H1).
    + rewrite (dot_zero_left kps lens e hs x H). lra. destruct kps; cbn in *; lra.
    + destruct kps; cbn in *; lra.
  - cbn [nth firstn qsum]. change (nth (S (S j)) ((k :: kps) ++ [e]) 0) with (nth (S j) (kps ++ [e]) 0) in H2.
    cbn [nth] in H1.
    rewrite (IH lens e hs x j H ltac:(cbn in Hh; lia) ltac:(lia) H1 H2).
    assert (Hge : k + l <= x).
    { destruct kps as [|k' kps]; [cbn in Hj; lia|]. destruct lens as [|l' lens]; [cbn in H; tauto|].
      pose proof (segments_nth_ge kps lens e k' l' j H ltac:(cbn in Hj; lia)) as G.
      rewrite nth_app_left_Q in G by (cbn in *; lia). lra. }
    rewrite (seg_w_one x k l Hl Hge). lra. Qed.

(* ---------------------------------------------------------------------- *)
(* The calibration function of one unit                                    *)
(* ---------------------------------------------------------------------- *)
Lemma pwl_fn_cons kps lens b hs x : pwl_fn kps lens (b :: hs) x == b + dot (interp_w x kps lens) hs.
Proof. unfold pwl_fn, interpolation_weights. cbn [dot]. lra. Qed.

(* value at the j-th keypoint of kps ++ [e] *)
Theorem pwl_at_keypoints kps lens e b hs x j : segments kps lens e -> length hs = length kps ->
  (j <= length kps)%nat -> x == nth j (kps ++ [e]) 0 ->
  pwl_fn kps lens (b :: hs) x == b + qsum (firstn j hs).
Proof. intros H Hh Hj Hx. rewrite pwl_fn_cons. destruct (Nat.eq_dec j (length kps)) as [->|Hne].
  - rewrite app_nth2 in Hx by lia. rewrite Nat.sub_diag in Hx. cbn in Hx.
    rewrite (dot_all_right kps lens e hs x H Hh ltac:(lra)). rewrite <- Hh, firstn_all. reflexivity.
  - assert (Hj' : (j < length kps)%nat) by lia. rewrite nth_app_left_Q in Hx by lia.
    destruct (segments_increasing kps lens e j H Hj') as [E Hl].
    rewrite (dot_segment kps lens e hs x j H Hh Hj' ltac:(lra) ltac:(lra)).
    pose proof (qdiv_mul (x - nth j kps 0) (nth j lens 0) Hl) as D.
    set (d := (x - nth j kps 0) / nth j lens 0) in *. assert (d == 0) by nra. nra. Qed.

Lemma firstn_S_qsum (hs : list Q) : forall j, (j < length hs)%nat ->
  qsum (firstn (S j) hs) == qsum (firstn j hs) + nth j hs 0.
Proof. induction hs as [|h hs IH]; intros j Hj; cbn in Hj; [lia|]. destruct j as [|j].
  - cbn. lra.
  - change (firstn (S (S j)) (h :: hs)) with (h :: firstn (S j) hs).
    change (firstn (S j) (h :: hs)) with (h :: firstn j hs).
    change (nth (S j) (h :: hs) 0) with (nth j hs 0). cbn [qsum].
    rewrite IH by lia. lra. Qed.

(* between keypoints j and j+1: the linear interpolation of the two
   cumulative sums y_j = b + sum_{i<j} h_i and y_{j+1} *)
Theorem pwl_linear_between kps lens e b hs x j : segments kps lens e -> length hs = length kps ->
  (j < length kps)%nat -> nth j (kps ++ [e]) 0 <= x -> x <= nth (S j) (kps ++ [e]) 0 ->
  let kj := nth j (kps ++ [e]) 0 in let kj1 := nth (S j) (kps ++ [e]) 0 in
  let yj := b + qsum (firstn j hs) in let yj1 := b + qsum (firstn (S j) hs) in
  pwl_fn kps lens (b :: hs) x == yj + (x - kj) / (kj1 - kj) * (yj1 - yj).
Proof. intros H Hh Hj H1 H2 kj kj1 yj yj1. subst kj kj1 yj yj1. rewrite pwl_fn_cons.
  rewrite nth_app_left_Q in * by lia.
  destruct (segments_increasing kps lens e j H Hj) as [E Hl].
  rewrite (dot_segment kps lens e hs x j H Hh Hj H1 H2).
  rewrite (firstn_S_qsum hs j ltac:(lia)).
  assert (El : nth (S j) (kps ++ [e]) 0 - nth j kps 0 == nth j lens 0) by lra.
  rewrite El. lra. Qed.

Theorem pwl_constant_left kps lens e b hs x : segments kps lens e -> x <= hd e kps ->
  pwl_fn kps lens (b :: hs) x == b.
Proof. intros H Hx. rewrite pwl_fn_cons, (dot_zero_left kps lens e hs x H Hx). lra. Qed.
Theorem pwl_constant_right kps lens e b hs x : segments kps lens e -> length hs = length kps -> e <= x ->
  pwl_fn kps lens (b :: hs) x == b + qsum hs.
Proof. intros H Hh Hx. rewrite pwl_fn_cons, (dot_all_right kps lens e hs x H Hh Hx). lra. Qed.

(* cyclic: heights followed by minus their sum *)
Theorem pwl_cyclic_ends_equal kps lens e b hs : segments kps lens e -> length kps = S (length hs) ->
  let col := (b :: hs) ++ [- qsum hs] in
  pwl_fn kps lens col (hd e kps) == pwl_fn kps lens col e.
Proof. intros H Hl col. subst col. change ((b :: hs) ++ [- qsum hs]) with (b :: (hs ++ [- qsum hs])).
  rewrite (pwl_constant_left kps lens e b (hs ++ [- qsum hs]) (hd e kps) H (Qle_refl _)).
  rewrite (pwl_constant_right kps lens e b (hs ++ [- qsum hs]) e H ltac:(rewrite app_length; cbn; lia) (Qle_refl _)).
  rewrite qsum_app. cbn. lra. Qed.

(* ---------------------------------------------------------------------- *)
(* Monotone and bounded                                                    *)
(* ---------------------------------------------------------------------- *)
Lemma dot_interp_mono kps : forall lens hs x y, Forall (fun l => 0 < l) lens ->
  Forall (fun h => 0 <= h) hs -> x <= y -> dot (interp_w x kps lens) hs <= dot (interp_w y kps lens) hs.
Proof. induction kps as [|k kps IH]; intros [|l lens] hs x y Hl Hh Hxy; cbn [interp_w dot]; try lra.
  destruct hs as [|h hs]; cbn [dot]; [lra|]. inversion Hl; subst. inversion Hh; subst.
  pose proof (IH lens hs x y H2 H4 Hxy). fold (seg_w x k l). fold (seg_w y k l).
  pose proof (qmul_le_l h _ _ H3 (seg_w_mono x y k l H1 Hxy)). lra. Qed.

Theorem pwl_monotone_heights kps lens b hs x y : Forall (fun l => 0 < l) lens ->
  Forall (fun h => 0 <= h) hs -> x <= y -> pwl_fn kps lens (b :: hs) x <= pwl_fn kps lens (b :: hs) y.
Proof. intros Hl Hh Hxy. rewrite !pwl_fn_cons. pose proof (dot_interp_mono kps lens hs x y Hl Hh Hxy). lra. Qed.

Lemma dot_interp_neg kps : forall lens hs x, dot (interp_w x kps lens) (map Qopp hs) == - dot (interp_w x kps lens) hs.
Proof. induction kps as [|k kps IH]; intros [|l lens] hs x; cbn [interp_w dot]; try lra.
  destruct hs as [|h hs]; cbn [map dot]; [lra|]. rewrite IH. lra. Qed.

Theorem pwl_antitone_heights kps lens b hs x y : Forall (fun l => 0 < l) lens ->
  Forall (fun h => h <= 0) hs -> x <= y -> pwl_fn kps lens (b :: hs) y <= pwl_fn kps lens (b :: hs) x.
Proof. intros Hl Hh Hxy. rewrite !pwl_fn_cons.
  assert (Hn : Forall (fun h => 0 <= h) (map Qopp hs)).
  { apply Forall_forall. intros q Hq. apply in_map_iff in Hq. destruct Hq as [h [<- Hin]].
    rewrite Forall_forall in Hh. specialize (Hh h Hin). lra. }
  pose proof (dot_interp_mono kps lens (map Qopp hs) x y Hl Hn Hxy) as G.
  rewrite !dot_interp_neg in G. lra. Qed.

Lemma segments_pos kps : forall lens e, segments kps lens e -> Forall (fun l => 0 < l) lens.
Proof. induction kps as [|k kps IH]; intros [|l lens] e H; cbn in H; try tauto; constructor.
  tauto. apply (IH lens e). tauto. Qed.

(* keypoint outputs = cumsum of the kernel column; ordered outputs <-> signed heights *)
Lemma cumsum_sorted_heights hs : forall acc,
  (forall j, (j < length hs)%nat -> nth j (acc :: cumsum_incl acc hs) 0 <= nth (S j) (acc :: cumsum_incl acc hs) 0) ->
  Forall (fun h => 0 <= h) hs.
Proof. induction hs as [|h hs IH]; intros acc H; constructor.
  - specialize (H 0%nat ltac:(cbn; lia)). cbn in H. lra.
  - apply (IH (acc + h)). intros j Hj. specialize (H (S j) ltac:(cbn; lia)). exact H. Qed.
Lemma cumsum_antisorted_heights hs : forall acc,
  (forall j, (j < length hs)%nat -> nth (S j) (acc :: cumsum_incl acc hs) 0 <= nth j (acc :: cumsum_incl acc hs) 0) ->
  Forall (fun h => h <= 0) hs.
Proof. induction hs as [|h hs IH]; intros acc H; constructor.
  - specialize (H 0%nat ltac:(cbn; lia)). cbn in H. lra.
  - apply (IH (acc + h)). intros j Hj. specialize (H (S j) ltac:(cbn; lia)). exact H. Qed.

(* the list of keypoint outputs of a column (bias :: heights) *)
Definition kp_outs (col : list Q) : list Q := cumsum_incl 0 col.

Theorem pwl_monotone_function kps lens col x y : Forall (fun l => 0 < l) lens ->
  (forall j, (S j < length col)%nat -> nth j (kp_outs col) 0 <= nth (S j) (kp_outs col) 0) ->
  x <= y -> pwl_fn kps lens col x <= pwl_fn kps lens col y.
Proof. intros Hl Hs Hxy. destruct col as [|b hs]. unfold pwl_fn; cbn; lra.
  apply pwl_monotone_heights; auto. unfold kp_outs in Hs. cbn [cumsum_incl] in Hs.
  apply (cumsum_sorted_heights hs (0 + b)). intros j Hj. apply Hs. cbn; lia. Qed.
Theorem pwl_antitone_function kps lens col x y : Forall (fun l => 0 < l) lens ->
  (forall j, (S j < length col)%nat -> nth (S j) (kp_outs col) 0 <= nth j (kp_outs col) 0) ->
  x <= y -> pwl_fn kps lens col y <= pwl_fn kps lens col x.
Proof. intros Hl Hs Hxy. destruct col as [|b hs]. unfold pwl_fn; cbn; lra.
  apply pwl_antitone_heights; auto. unfold kp_outs in Hs. cbn [cumsum_incl] in Hs.
  apply (cumsum_antisorted_heights hs (0 + b)). intros j Hj. apply Hs. cbn; lia. Qed.

Lemma dot_interp_bounded lo hi x kps : forall lens e hs acc, segments kps lens e -> length hs = length kps ->
  lo <= acc <= hi -> (forall y, In y (cumsum_incl acc hs) -> lo <= y <= hi) ->
  lo <= acc + dot (interp_w x kps lens) hs <= hi.
Proof. induction kps as [|k kps IH]; intros [|l lens] e hs acc H Hh Ha Hy; cbn in H; try tauto.
  - cbn. lra.
  - destruct hs as [|h hs]; [discriminate|]. rewrite interp_w_cons. cbn [dot].
    pose proof H as Hseg. destruct H as [Hl [Hk H]].
    assert (Hah : lo <= acc + h <= hi) by (apply Hy; cbn; left; reflexivity).
    destruct (Qlt_le_dec (k + l) x) as [Hx|Hx].
    + rewrite (seg_w_one x k l Hl ltac:(lra)).
      pose proof (IH lens e hs (acc + h) H ltac:(cbn in Hh; lia) Hah ltac:(intros y Iy; apply Hy; cbn; right; exact Iy)).
      lra.
    + rewrite (dot_zero_left kps lens e hs x H) by (destruct kps; cbn in *; lra).
      destruct (seg_w_range x k l) as [W0 W1]. set (w := seg_w x k l) in *.
      pose proof (qmul_nonneg w (acc + h - lo) W0 ltac:(lra)).
      pose proof (qmul_nonneg (1 - w) (acc - lo) ltac:(lra) ltac:(lra)).
      pose proof (qmul_nonneg w (hi - (acc + h)) W0 ltac:(lra)).
      pose proof (qmul_nonneg (1 - w) (hi - acc) ltac:(lra) ltac:(lra)).
      split; lra. Qed.

Theorem pwl_bounded_function kps lens e col lo hi x : segments kps lens e -> length col = S (length kps) ->
  (forall y, In y (kp_outs col) -> lo <= y <= hi) -> lo <= pwl_fn kps lens col x <= hi.
Proof. intros H Hl Hy. destruct col as [|b hs]; [discriminate|]. unfold kp_outs in Hy. cbn [cumsum_incl] in Hy.
  pose proof (dot_interp_bounded lo hi x kps lens e hs (0 + b) H ltac:(cbn in Hl; lia)
    ltac:(apply Hy; left; reflexivity) ltac:(intros y Iy; apply Hy; right; exact Iy)) as G.
  rewrite pwl_fn_cons. lra. Qed.

(* ---------------------------------------------------------------------- *)
(* What build() produces is a segment structure                            *)
(* ---------------------------------------------------------------------- *)
(* strictly increasing input_keypoints (enforced by verify_hyperparameters) *)
Fixpoint increasing (ks : list Q) : Prop :=
  match ks with a :: ((b :: _) as r) => a < b /\ increasing r | _ => True end.

Lemma fixed_segments ks : increasing ks -> segments (kp_lefts ks) (kp_diffs ks) (last ks 0).
Proof. induction ks as [|a ks IH]; intros H; [exact I|]. destruct ks as [|b r]; [exact I|].
  destruct H as [Hab H]. specialize (IH H).
  change (kp_lefts (a :: b :: r)) with (a :: kp_lefts (b :: r)).
  change (kp_diffs (a :: b :: r)) with ((b - a) :: kp_diffs (b :: r)).
  change (last (a :: b :: r) 0) with (last (b :: r) 0).
  split; [lra|]. split; [|exact IH]. destruct r as [|c r]; cbn; lra. Qed.

Lemma fixed_all_keypoints ks : ks <> [] -> kp_lefts ks ++ [last ks 0] = ks.
Proof. induction ks as [|a ks IH]; intros H; [congruence|]. destruct ks as [|b r]; [reflexivity|].
  change (kp_lefts (a :: b :: r)) with (a :: kp_lefts (b :: r)).
  change (last (a :: b :: r) 0) with (last (b :: r) 0). cbn [app]. f_equal. apply IH. discriminate. Qed.

Lemma fixed_lefts_length ks : length (kp_lefts ks) = pred (length ks).
Proof. induction ks as [|a ks IH]; [reflexivity|]. destruct ks as [|b r]; [reflexivity|].
  change (kp_lefts (a :: b :: r)) with (a :: kp_lefts (b :: r)). cbn [length] in *. lia. Qed.

Lemma segments_end_proper kps : forall lens e e', e == e' -> segments kps lens e -> segments kps lens e'.
Proof. induction kps as [|k kps IH]; intros [|l lens] e e' E H; cbn in *; try tauto.
  destruct H as [A [B C]]. split; [assumption|]. split; [destruct kps; lra|]. eapply IH; eauto. Qed.

(* cumsum(lengths, exclusive) + c *)
Lemma cumsum_segments lens : forall acc c, Forall (fun l => 0 < l) lens ->
  segments (map (fun s => s + c) (cumsum_excl acc lens)) lens (acc + qsum lens + c).
Proof. induction lens as [|l lens IH]; intros acc c H; [exact I|]. inversion H; subst.
  cbn [cumsum_excl map]. split; [assumption|]. split.
  - destruct lens as [|l' lens]; cbn; lra.
  - apply (segments_end_proper _ _ (acc + l + qsum lens + c)). cbn [qsum]; lra. apply IH; assumption. Qed.

Lemma cumsum_excl_length l : forall acc, length (cumsum_excl acc l) = length l.
Proof. induction l; intros; cbn; auto. Qed.

(* last left keypoint + last length is the right end *)
Lemma segments_last kps : forall lens e, segments kps lens e -> kps <> [] ->
  last kps 0 + last lens 0 == e.
Proof. induction kps as [|k kps IH]; intros [|l lens] e H Hne; cbn in H; try tauto; try congruence.
  destruct H as [Hl [Hk H]]. destruct kps as [|k' kps].
  - destruct lens; [|cbn in H; tauto]. cbn. lra.
  - destruct lens as [|l' lens]; [cbn in H; tauto|].
    change (last (k :: k' :: kps) 0) with (last (k' :: kps) 0).
    change (last (l :: l' :: lens) 0) with (last (l' :: lens) 0). apply IH; [exact H|discriminate]. Qed.

(* keypoints_inputs' way of re-adding the last keypoint agrees with kps ++ [e] *)
Lemma nth_all_keypoints kps lens e j : segments kps lens e -> kps <> [] ->
  nth j (kps ++ [last kps 0 + last lens 0]) 0 == nth j (kps ++ [e]) 0.
Proof. intros H Hne. destruct (Nat.lt_ge_cases j (length kps)) as [Hj|Hj].
  - rewrite !app_nth1 by assumption. reflexivity.
  - rewrite !app_nth2 by assumption. destruct (j - length kps)%nat as [|[|m]]; cbn; try reflexivity.
    apply (segments_last kps lens e H Hne). Qed.

(* ---------------------------------------------------------------------- *)
(* Learned interior keypoints through a softmax oracle                     *)
(* ---------------------------------------------------------------------- *)
Section Learned.
  Variable softmax : list Q -> list Q.
  Hypothesis softmax_length : forall l, length (softmax l) = length l.
  Hypothesis softmax_pos : forall l s, In s (softmax l) -> 0 < s.
  Hypothesis softmax_sum : forall l, l <> [] -> qsum (softmax l) == 1.

  Lemma learned_segments ks logits : logits <> [] -> hd 0 ks < last ks 0 ->
    segments (learned_lefts ks (softmax logits)) (learned_lengths ks (softmax logits)) (last ks 0).
  Proof. intros Hne Hr. unfold learned_lefts.
    assert (Hpos : Forall (fun l => 0 < l) (learned_lengths ks (softmax logits))).
    { apply Forall_forall. intros q Hq. unfold learned_lengths in Hq. apply in_map_iff in Hq.
      destruct Hq as [s [<- Hs]]. pose proof (softmax_pos logits s Hs). unfold keypoint_range. nra. }
    pose proof (cumsum_segments _ 0 (keypoint_min ks) Hpos) as G.
    eapply segments_end_proper; [|exact G].
    unfold learned_lengths at 1. rewrite (qsum_map_ext _ (fun s => keypoint_range ks * s)) by (intros; lra).
    rewrite (qsum_map_scale (fun s => s) (keypoint_range ks)). rewrite map_id.
    rewrite (softmax_sum logits Hne). unfold keypoint_range, keypoint_min. lra. Qed.

  Lemma learned_lefts_length ks logits : length (learned_lefts ks (softmax logits)) = length logits.
  Proof. unfold learned_lefts, learned_lengths. rewrite map_length, cumsum_excl_length, map_length. apply softmax_length. Qed.

  (* all keypoints as keypoints_inputs() reports them, for one unit *)
  Definition learned_all (ks logits : list Q) : list Q :=
    let kps := learned_lefts ks (softmax logits) in let lens := learned_lengths ks (softmax logits) in
    kps ++ [last kps 0 + last lens 0].

  Theorem learned_keypoints_ordered ks logits : logits <> [] -> hd 0 ks < last ks 0 ->
    let all := learned_all ks logits in
    length all = S (length logits) /\
    (forall j, (S j < length all)%nat -> nth j all 0 < nth (S j) all 0) /\
    hd 0 all == hd 0 ks /\ last all 0 == last ks 0.
  Proof. intros Hne Hr all. subst all. unfold learned_all.
    assert (Hhd : forall x, hd 0 (learned_lefts ks (softmax logits) ++ [x]) == hd 0 ks).
    { intros x. unfold learned_lefts.
      assert (Hl : length (learned_lengths ks (softmax logits)) = length logits)
        by (unfold learned_lengths; rewrite map_length; apply softmax_length).
      destruct (learned_lengths ks (softmax logits)) as [|l ls]; [destruct logits; cbn in *; congruence|].
      cbn. unfold keypoint_min. lra. }
    pose proof (learned_segments ks logits Hne Hr) as H. pose proof (learned_lefts_length ks logits) as Hlen.
    set (kps := learned_lefts ks (softmax logits)) in *. set (lens := learned_lengths ks (softmax logits)) in *.
    assert (Hk : kps <> []) by (destruct kps; [destruct logits; cbn in *; congruence|discriminate]).
    split; [rewrite app_length; cbn; lia|]. split; [|split].
    - intros j Hj. rewrite app_length in Hj. cbn in Hj.
      rewrite !(nth_all_keypoints kps lens _ _ H Hk).
      destruct (segments_increasing kps lens _ j H ltac:(lia)) as [E P]. rewrite E.
      rewrite nth_app_left_Q by lia. lra.
    - apply Hhd.
    - rewrite last_last. apply (segments_last kps lens _ H Hk). Qed.
End Learned.

(* ---------------------------------------------------------------------- *)
(* Layer level: call() per unit, broadcast, cyclic, missing                *)
(* ---------------------------------------------------------------------- *)
(* the function unit u computes *)
Definition unit_fn (L : pwl_layer) (u : nat) (x : Q) : Q :=
  pwl_fn (unit_lefts L u) (unit_lens L u) (column u (bias_and_heights L)) x.

Lemma nth_map_seq_Q (f : nat -> Q) n u : (u < n)%nat -> nth u (map f (seq 0 n)) 0 = f u.
Proof. apply nth_map_seq. Qed.

(* a single input column feeds every unit *)
Lemma calib_row_single L x u : (u < p_units L)%nat -> nth u (calib_row L [x]) 0 = unit_fn L u x.
Proof. intros Hu. unfold calib_row, expands, unit_fn, pwl_fn. change (length [x]) with 1%nat.
  change (1 <? 1)%nat with false. change (1 =? 1)%nat with true. cbn [orb].
  destruct (p_learned L && (1 <? p_units L)%nat) eqn:E.
  - rewrite nth_map_seq_Q by assumption. reflexivity.
  - rewrite nth_map_seq_Q by assumption. unfold unit_lefts, unit_lens, unit_row.
    destruct (p_learned L) eqn:El; [|reflexivity]. rewrite andb_true_l in E. apply Nat.ltb_ge in E.
    assert (u = 0)%nat by lia. subst u. reflexivity. Qed.

(* one input column per unit *)
Lemma calib_row_per_unit L row u : (u < p_units L)%nat -> length row = p_units L ->
  nth u (calib_row L row) 0 = unit_fn L u (nth u row 0).
Proof. intros Hu Hlen. destruct (Nat.eq_dec (p_units L) 1) as [E1|E1].
  - destruct row as [|x [|? ?]]; cbn in Hlen; try lia. assert (u = 0)%nat by lia. subst u.
    rewrite calib_row_single by lia. reflexivity.
  - unfold calib_row, expands, unit_fn, pwl_fn. rewrite Hlen.
    assert (Hgt : (1 <? p_units L)%nat = true) by (apply Nat.ltb_lt; lia). rewrite Hgt. cbn [orb].
    rewrite nth_map_seq_Q by assumption. apply Nat.eqb_neq in E1. rewrite E1. reflexivity. Qed.

Lemma nth_repeat_Q (x : Q) n u : (u < n)%nat -> nth u (repeat x n) 0 = x.
Proof. revert u; induction n as [|n IH]; intros [|u] H; cbn; try lia; auto. apply IH; lia. Qed.

Theorem calib_broadcast L x u : (u < p_units L)%nat ->
  nth u (calib_row L [x]) 0 = nth u (calib_row L (repeat x (p_units L))) 0.
Proof. intros Hu. rewrite calib_row_single by assumption.
  rewrite calib_row_per_unit by (rewrite ?repeat_length; auto). rewrite nth_repeat_Q by assumption. reflexivity. Qed.

(* cyclic: the column of unit u gets the closing height -sum(heights) *)
Lemma column_app u (a b : list (list Q)) : column u (a ++ b) = column u a ++ column u b.
Proof. unfold column. apply map_app. Qed.
Lemma column_tl u (k : list (list Q)) : column u (tl k) = tl (column u k).
Proof. destruct k; reflexivity. Qed.
Lemma column_bh_cyclic L u : p_cyclic L = true -> (u < p_units L)%nat ->
  column u (bias_and_heights L) = column u (p_kernel L) ++ [- qsum (tl (column u (p_kernel L)))].
Proof. intros Hc Hu. unfold bias_and_heights. rewrite Hc, column_app. f_equal. cbn. f_equal.
  unfold closing_row. rewrite nth_map_seq_Q by assumption. rewrite column_tl. reflexivity. Qed.
Lemma column_bh_plain L u : p_cyclic L = false -> column u (bias_and_heights L) = column u (p_kernel L).
Proof. intros Hc. unfold bias_and_heights. rewrite Hc. reflexivity. Qed.

Theorem layer_cyclic_ends_equal L u e : p_cyclic L = true -> (u < p_units L)%nat ->
  segments (unit_lefts L u) (unit_lens L u) e -> length (unit_lefts L u) = length (p_kernel L) ->
  p_kernel L <> [] -> unit_fn L u (hd e (unit_lefts L u)) == unit_fn L u e.
Proof. intros Hc Hu H Hlen Hne. unfold unit_fn. rewrite (column_bh_cyclic L u Hc Hu).
  assert (Hcl : length (column u (p_kernel L)) = length (p_kernel L)) by (unfold column; apply map_length).
  destruct (column u (p_kernel L)) as [|b hs] eqn:Ecol.
  - destruct (p_kernel L); [congruence|discriminate].
  - cbn [tl]. apply (pwl_cyclic_ends_equal _ _ e b hs H). cbn in Hcl. lia. Qed.

(* missing-value mixing *)
Lemma nth_mix_row L m res u : (u < p_units L)%nat ->
  nth u (mix_row L m res) 0 =
  (let mu := nth (if (length m =? 1)%nat then 0 else u) m 0 in
   mu * nth u (p_missing_output L) 0 + (1 - mu) * nth u res 0).
Proof. intros Hu. unfold mix_row. rewrite nth_map_seq_Q by assumption. reflexivity. Qed.

(* which input / flag column unit u reads *)
Definition col_of (n u : nat) : nat := if (n =? 1)%nat then 0%nat else u.

Theorem missing_flag_given L row m u : p_impute L = true -> (u < p_units L)%nat ->
  (nth (col_of (length m) u) m 0 == 1 -> nth u (call_row L row (Some m)) 0 == nth u (p_missing_output L) 0) /\
  (nth (col_of (length m) u) m 0 == 0 -> nth u (call_row L row (Some m)) 0 == nth u (calib_row L row) 0).
Proof. intros Hi Hu. unfold call_row. rewrite Hi. rewrite nth_mix_row by assumption. unfold col_of. cbn zeta.
  split; intros E; rewrite E; lra. Qed.

Lemma equal_flags_length v row : length (equal_flags v row) = length row.
Proof. unfold equal_flags. apply map_length. Qed.
Lemma nth_equal_flags v row i : (i < length row)%nat ->
  nth i (equal_flags v row) 0 = if Qeq_bool (nth i row 0) v then 1 else 0.
Proof. unfold equal_flags. revert i. induction row as [|x row IH]; intros [|i] Hi; cbn in *; try lia; auto.
  apply IH. lia. Qed.

Theorem missing_by_value L row v u : p_impute L = true -> p_missing_input L = Some v ->
  (u < p_units L)%nat -> (col_of (length row) u < length row)%nat ->
  (nth (col_of (length row) u) row 0 == v ->
     nth u (call_row L row None) 0 == nth u (p_missing_output L) 0) /\
  (~ nth (col_of (length row) u) row 0 == v ->
     nth u (call_row L row None) 0 == nth u (calib_row L row) 0).
Proof. intros Hi Hv Hu Hc. unfold call_row. rewrite Hi, Hv. rewrite nth_mix_row by assumption.
  rewrite equal_flags_length. cbn zeta. fold (col_of (length row) u). rewrite nth_equal_flags by assumption.
  split; intros E.
  - apply Qeq_bool_iff in E. rewrite E. lra.
  - destruct (Qeq_bool (nth (col_of (length row) u) row 0) v) eqn:B; [apply Qeq_bool_iff in B; contradiction|]. lra. Qed.

Theorem no_impute_is_calibration L row : p_impute L = false -> call_row L row None = calib_row L row.
Proof. intros H. unfold call_row. rewrite H. reflexivity. Qed.

Lemma missing_output_fixed units v w u : (u < units)%nat -> nth u (build_missing_output units (Some v) w) 0 = v.
Proof. intros. cbn. apply nth_repeat_Q; assumption. Qed.
Lemma missing_output_learned units w : build_missing_output units None w = w.
Proof. reflexivity. Qed.

(* ---------------------------------------------------------------------- *)
(* keypoints_inputs() / keypoints_outputs() lie on the graph               *)
(* ---------------------------------------------------------------------- *)
Lemma nth_cumsum_incl l : forall acc j, (j < length l)%nat ->
  nth j (cumsum_incl acc l) 0 == acc + qsum (firstn (S j) l).
Proof. induction l as [|a l IH]; intros acc j Hj; cbn in Hj; [lia|]. destruct j as [|j].
  - cbn. lra.
  - cbn [cumsum_incl nth]. rewrite IH by lia.
    change (firstn (S (S j)) (a :: l)) with (a :: firstn (S j) l). cbn [qsum]. lra. Qed.
Lemma cumsum_incl_length l : forall acc, length (cumsum_incl acc l) = length l.
Proof. induction l; intros; cbn; auto. Qed.

Lemma reported_plain kps lens e b hs j : segments kps lens e -> kps <> [] -> length hs = length kps ->
  (j <= length kps)%nat ->
  pwl_fn kps lens (b :: hs) (nth j (kps ++ [last kps 0 + last lens 0]) 0) == nth j (cumsum_incl 0 (b :: hs)) 0.
Proof. intros H Hne Hh Hj.
  rewrite (pwl_at_keypoints kps lens e b hs _ j H Hh Hj (nth_all_keypoints kps lens e j H Hne)).
  rewrite nth_cumsum_incl by (cbn; lia). change (firstn (S j) (b :: hs)) with (b :: firstn j hs). cbn [qsum]. lra. Qed.

Lemma firstn_app_le (a b : list Q) j : (j <= length a)%nat -> firstn j (a ++ b) = firstn j a.
Proof. intros Hj. rewrite firstn_app. replace (j - length a)%nat with 0%nat by lia. cbn. apply app_nil_r. Qed.

Lemma reported_cyclic kps lens e b hs j : segments kps lens e -> kps <> [] -> length kps = S (length hs) ->
  (j <= length kps)%nat ->
  let c := cumsum_incl 0 (b :: hs) in
  pwl_fn kps lens ((b :: hs) ++ [- qsum hs]) (nth j (kps ++ [last kps 0 + last lens 0]) 0)
  == nth j (c ++ firstn 1 c) 0.
Proof. intros H Hne Hl Hj c. change ((b :: hs) ++ [- qsum hs]) with (b :: (hs ++ [- qsum hs])).
  rewrite (pwl_at_keypoints kps lens e b (hs ++ [- qsum hs]) _ j H ltac:(rewrite app_length; cbn; lia) Hj
             (nth_all_keypoints kps lens e j H Hne)).
  assert (Hc : length c = S (length hs)) by (subst c; rewrite cumsum_incl_length; reflexivity).
  destruct (Nat.eq_dec j (length kps)) as [->|Hn].
  - rewrite app_nth2 by lia. replace (length kps - length c)%nat with 0%nat by lia. subst c. cbn [cumsum_incl firstn nth].
    rewrite firstn_all2 by (rewrite app_length; cbn; lia). rewrite qsum_app. cbn. lra.
  - rewrite app_nth1 by lia. subst c. rewrite nth_cumsum_incl by (cbn; lia).
    change (firstn (S j) (b :: hs)) with (b :: firstn j hs). cbn [qsum].
    rewrite firstn_app_le by lia. lra. Qed.

Theorem layer_reported_points L u e j : (u < p_units L)%nat ->
  segments (unit_lefts L u) (unit_lens L u) e -> unit_lefts L u <> [] ->
  length (column u (bias_and_heights L)) = S (length (unit_lefts L u)) ->
  (j <= length (unit_lefts L u))%nat ->
  unit_fn L u (nth j (keypoints_inputs_col L u) 0) == nth j (keypoints_outputs_col L u) 0.
Proof. intros Hu H Hne Hlen Hj. unfold unit_fn, keypoints_inputs_col, keypoints_outputs_col.
  destruct (p_cyclic L) eqn:Hc.
  - rewrite (column_bh_cyclic L u Hc Hu) in *. rewrite app_length in Hlen. cbn in Hlen.
    destruct (column u (p_kernel L)) as [|b hs] eqn:Ecol; [cbn in Hlen; destruct (unit_lefts L u); cbn in *; [congruence|lia]|].
    cbn [tl]. apply (reported_cyclic _ _ e b hs j H Hne); [cbn in Hlen; lia|assumption].
  - rewrite (column_bh_plain L u Hc) in *.
    destruct (column u (p_kernel L)) as [|b hs] eqn:Ecol; [discriminate|].
    apply (reported_plain _ _ e b hs j H Hne); [cbn in Hlen; lia|assumption]. Qed.

(* ---------------------------------------------------------------------- *)
(* CategoricalCalibration                                                   *)
(* ---------------------------------------------------------------------- *)
Lemma dot_nil_r a : dot a [] = 0. Proof. destruct a; reflexivity. Qed.
Lemma nth_nil_Q n : nth n (@nil Q) 0 = 0. Proof. destruct n; reflexivity. Qed.

Lemma dot_one_hot_gen n : forall s col i,
  dot (map (fun b => if (Z.of_nat b =? i)%Z then 1 else 0) (seq s n)) col ==
  if ((Z.of_nat s <=? i)%Z && (i <? Z.of_nat (s + n))%Z)%bool then nth (Z.to_nat i - s) col 0 else 0.
Proof. induction n as [|n IH]; intros s col i.
  - cbn [seq map dot]. destruct ((Z.of_nat s <=? i)%Z && (i <? Z.of_nat (s + 0))%Z)%bool eqn:E; [|reflexivity].
    apply andb_prop in E. destruct E as [E1 E2]. apply Z.leb_le in E1. apply Z.ltb_lt in E2. lia.
  - cbn [seq map]. destruct col as [|c col]; [rewrite dot_nil_r, nth_nil_Q; destruct (_ && _)%bool; reflexivity|].
    cbn [dot]. rewrite (IH (S s) col i).
    destruct (Z.of_nat s =? i)%Z eqn:Es.
    + apply Z.eqb_eq in Es.
      replace ((Z.of_nat (S s) <=? i)%Z && (i <? Z.of_nat (S s + n))%Z)%bool with false
        by (symmetry; apply andb_false_iff; left; apply Z.leb_gt; lia).
      replace ((Z.of_nat s <=? i)%Z && (i <? Z.of_nat (s + S n))%Z)%bool with true
        by (symmetry; apply andb_true_iff; split; [apply Z.leb_le|apply Z.ltb_lt]; lia).
      replace (Z.to_nat i - s)%nat with 0%nat by lia. cbn. lra.
    + apply Z.eqb_neq in Es.
      destruct ((Z.of_nat (S s) <=? i)%Z && (i <? Z.of_nat (S s + n))%Z)%bool eqn:E.
      * apply andb_prop in E. destruct E as [E1 E2]. apply Z.leb_le in E1. apply Z.ltb_lt in E2.
        replace ((Z.of_nat s <=? i)%Z && (i <? Z.of_nat (s + S n))%Z)%bool with true
          by (symmetry; apply andb_true_iff; split; [apply Z.leb_le|apply Z.ltb_lt]; lia).
        replace (Z.to_nat i - s)%nat with (S (Z.to_nat i - S s)) by lia. cbn [nth]. lra.
      * replace ((Z.of_nat s <=? i)%Z && (i <? Z.of_nat (s + S n))%Z)%bool with false; [lra|].
        symmetry. apply andb_false_iff. apply andb_false_iff in E. destruct E as [E|E].
        -- left. apply Z.leb_gt in E. apply Z.leb_gt. lia.
        -- right. apply Z.ltb_ge in E. apply Z.ltb_ge. lia. Qed.

(* one-hot lookup: row i of the column, 0 outside [0, depth) *)
Lemma dot_one_hot_in depth col i : (0 <= i < Z.of_nat depth)%Z ->
  dot (one_hot depth i) col == nth (Z.to_nat i) col 0.
Proof. intros Hi. unfold one_hot. rewrite dot_one_hot_gen.
  replace ((Z.of_nat 0 <=? i)%Z && (i <? Z.of_nat (0 + depth))%Z)%bool with true
    by (symmetry; apply andb_true_iff; split; [apply Z.leb_le|apply Z.ltb_lt]; cbn; lia).
  rewrite Nat.sub_0_r. reflexivity. Qed.
Lemma dot_one_hot_out depth col i : ~ (0 <= i < Z.of_nat depth)%Z -> dot (one_hot depth i) col == 0.
Proof. intros Hi. unfold one_hot. rewrite dot_one_hot_gen.
  replace ((Z.of_nat 0 <=? i)%Z && (i <? Z.of_nat (0 + depth))%Z)%bool with false; [reflexivity|].
  symmetry. apply andb_false_iff. destruct (Z_lt_le_dec i 0); [left; apply Z.leb_gt; cbn; lia|].
  right. apply Z.ltb_ge. cbn. lia. Qed.

(* the (replaced) index unit u looks up *)
Definition cat_index (L : cat_layer) (row : list Q) (u : nat) : Z :=
  replace_default L (cast_int (nth (col_of (length row) u) row 0)).

Lemma cat_row_unit L row u : (u < c_units L)%nat -> (col_of (length row) u < length row)%nat ->
  (c_units L = 1%nat -> length row = 1%nat) ->
  nth u (cat_row L row) 0 = dot (one_hot (c_buckets L) (cat_index L row u)) (column u (c_kernel L)).
Proof. intros Hu Hc H1. unfold cat_row, cat_index.
  assert (Hn : forall i, (i < length row)%nat ->
     nth i (map (fun x => replace_default L (cast_int x)) row) 0%Z = replace_default L (cast_int (nth i row 0))).
  { clear. induction row as [|x row IH]; intros [|i] Hi; cbn in *; try lia; auto. apply IH. lia. }
  destruct (c_units L =? 1)%nat eqn:E.
  - apply Nat.eqb_eq in E. assert (u = 0)%nat by lia. subst u. cbn [nth]. specialize (H1 E).
    unfold col_of. rewrite H1. cbn [Nat.eqb]. rewrite Hn by lia. reflexivity.
  - rewrite nth_map_seq_Q by assumption. fold (col_of (length row) u). rewrite Hn by assumption. reflexivity. Qed.

Theorem categorical_lookup L row u i : (u < c_units L)%nat -> (col_of (length row) u < length row)%nat ->
  (c_units L = 1%nat -> length row = 1%nat) ->
  cast_int (nth (col_of (length row) u) row 0) = i -> c_default L <> Some i ->
  (0 <= i < Z.of_nat (c_buckets L))%Z ->
  nth u (cat_row L row) 0 == nth (Z.to_nat i) (column u (c_kernel L)) 0.
Proof. intros Hu Hc H1 Hi Hd Hr. rewrite cat_row_unit by assumption. unfold cat_index. rewrite Hi.
  unfold replace_default. destruct (c_default L) as [d|].
  - destruct (i =? d)%Z eqn:E; [apply Z.eqb_eq in E; subst; congruence|]. apply dot_one_hot_in. exact Hr.
  - apply dot_one_hot_in. exact Hr. Qed.

Theorem categorical_default L row u d : (u < c_units L)%nat -> (col_of (length row) u < length row)%nat ->
  (c_units L = 1%nat -> length row = 1%nat) ->
  c_default L = Some d -> cast_int (nth (col_of (length row) u) row 0) = d -> (0 < c_buckets L)%nat ->
  nth u (cat_row L row) 0 == nth (c_buckets L - 1) (column u (c_kernel L)) 0.
Proof. intros Hu Hc H1 Hd Hi Hb. rewrite cat_row_unit by assumption. unfold cat_index. rewrite Hi.
  unfold replace_default. rewrite Hd, Z.eqb_refl. rewrite dot_one_hot_in by lia.
  replace (Z.to_nat (Z.of_nat (c_buckets L) - 1)) with (c_buckets L - 1)%nat by lia. reflexivity. Qed.

(* an index outside [0, num_buckets) that is not the default value yields 0
   (outside the property's domain; not a property theorem and not generated by the tie) *)
Theorem categorical_out_of_range L row u i : (u < c_units L)%nat -> (col_of (length row) u < length row)%nat ->
  (c_units L = 1%nat -> length row = 1%nat) ->
  cast_int (nth (col_of (length row) u) row 0) = i -> c_default L <> Some i ->
  ~ (0 <= i < Z.of_nat (c_buckets L))%Z -> nth u (cat_row L row) 0 == 0.
Proof. intros Hu Hc H1 Hi Hd Hr. rewrite cat_row_unit by assumption. unfold cat_index. rewrite Hi.
  unfold replace_default. destruct (c_default L) as [d|].
  - destruct (i =? d)%Z eqn:E; [apply Z.eqb_eq in E; subst; congruence|]. apply dot_one_hot_out. exact Hr.
  - apply dot_one_hot_out. exact Hr. Qed.

Lemma cast_int_Z z : cast_int (inject_Z z) = z.
Proof. unfold cast_int. destruct (Qle_bool 0 (inject_Z z)); [apply Qfloor_Z|apply Qceiling_Z]. Qed.

Lemma nth_column u (K : list (list Q)) : forall i, nth i (column u K) 0 = nth u (nth i K []) 0.
Proof. induction K as [|r K IH]; intros [|i]; cbn; auto; destruct u; reflexivity. Qed.

(* ---------------------------------------------------------------------- *)
(* call(): accepted calls are the row function mapped over the batch       *)
(* ---------------------------------------------------------------------- *)
Lemma zip_opt_none xs : zip_opt xs None = map (fun x => (x, None)) xs.
Proof. induction xs as [|x xs IH]; cbn; [reflexivity|]. rewrite IH. reflexivity. Qed.
Lemma zip_opt_some xs : forall ms, length ms = length xs ->
  map (fun xm => (fst xm, snd xm)) (zip_opt xs (Some ms)) = map2 (fun x m => (x, Some m)) xs ms.
Proof. induction xs as [|x xs IH]; intros [|m ms] H; cbn in *; try lia; try reflexivity.
  f_equal. apply IH. lia. Qed.

Theorem pwl_call_tensor L as_list inputs :
  let cols := length (hd [] inputs) in
  all_len cols inputs = true -> (cols = p_units L \/ cols = 1%nat) ->
  (if p_impute L then p_missing_input L <> None else as_list = false) ->
  pwl_call L as_list inputs None = Some (split_result L (map (fun r => call_row L r None) inputs)).
Proof. intros cols Hall Hc Hi. unfold pwl_call. fold cols. rewrite Hall. cbn [negb orb andb].
  assert (Hcb : ((cols =? p_units L)%nat || (cols =? 1)%nat)%bool = true).
  { destruct Hc as [-> | ->]; [rewrite Nat.eqb_refl; reflexivity|]. rewrite orb_true_r. reflexivity. }
  rewrite Hcb. rewrite orb_false_r.
  destruct (p_impute L) eqn:Ei.
  - cbn [negb andb]. rewrite andb_false_r. cbn [orb andb negb].
    destruct (p_missing_input L) eqn:Em; [|congruence]. cbn [andb].
    rewrite zip_opt_none, map_map. reflexivity.
  - subst as_list. cbn [negb andb orb]. rewrite zip_opt_none, map_map. reflexivity. Qed.

Theorem pwl_call_flagged L inputs ms :
  let cols := length (hd [] inputs) in
  p_impute L = true -> length ms = length inputs -> all_len cols ms = true ->
  all_len cols inputs = true -> (cols = p_units L \/ cols = 1%nat) ->
  pwl_call L true inputs (Some ms) =
  Some (split_result L (map2 (fun r m => call_row L r (Some m)) inputs ms)).
Proof. intros cols Hi Hl Hms Hall Hc. unfold pwl_call. fold cols. rewrite Hi, Hall, Hms, Hl, Nat.eqb_refl.
  assert (Hcb : ((cols =? p_units L)%nat || (cols =? 1)%nat)%bool = true).
  { destruct Hc as [-> | ->]; [rewrite Nat.eqb_refl; reflexivity|]. rewrite orb_true_r. reflexivity. }
  rewrite Hcb. cbn [negb andb orb]. f_equal. f_equal.
  clear - Hl. revert ms Hl. induction inputs as [|x xs IH]; intros [|m ms] Hl; cbn in *; try lia; try reflexivity.
  f_equal. apply IH. lia. Qed.

(* split_outputs: output u is column u as a [batch, 1] matrix *)
Theorem split_result_unit L res u : (1 < p_units L)%nat -> p_split L = true -> (u < p_units L)%nat ->
  nth u (split_result L res) [] = map (fun r => [nth u r 0]) res.
Proof. intros H1 Hs Hu. unfold split_result. apply Nat.ltb_lt in H1. rewrite H1, Hs. cbn [andb].
  apply (nth_map_seq (fun u => map (fun r => [nth u r 0]) res) (p_units L) u [] Hu). Qed.
Theorem split_result_off L res : ((1 <? p_units L)%nat && p_split L)%bool = false -> split_result L res = [res].
Proof. intros H. unfold split_result. rewrite H. reflexivity. Qed.

(* ---------------------------------------------------------------------- *)
(* Non-vacuity: the hypotheses of the theorems are satisfiable             *)
(* ---------------------------------------------------------------------- *)
Example increasing_example : increasing [0; 1; 3; 7#2] /\ [0; 1; 3; 7#2] <> [].
Proof. cbn. repeat split; try lra. discriminate. Qed.
Example segments_example : segments [0; 1; 3] [1; 2; 1#2] (7#2).
Proof. cbn. repeat split; lra. Qed.
Example at_keypoints_example :
  pwl_fn [0; 1; 3] [1; 2; 1#2] [1#2; 1; -(2); 4] 3 == (1#2) + qsum (firstn 2 [1; -(2); 4]).
Proof. apply (pwl_at_keypoints _ _ (7#2)); [exact segments_example|reflexivity|cbn; lia|reflexivity]. Qed.
Definition example_col : list Q := [1#2; 1; 0; 4].
Example monotone_hyp_example :
  forall j, (S j < length example_col)%nat -> nth j (kp_outs example_col) 0 <= nth (S j) (kp_outs example_col) 0.
Proof. intros [|[|[|j]]] H; cbn in *; try lia; lra. Qed.
Example bounded_hyp_example : forall y, In y (kp_outs [1#2; 1; -(2); 4]) -> -(1) <= y <= 4.
Proof. unfold kp_outs. cbn [cumsum_incl In]. intros y H.
  repeat (destruct H as [<-|H]; [split; lra|]). destruct H. Qed.

(* a softmax-like function meeting the three oracle hypotheses exists: uniform weights *)
Definition uniform_sm (l : list Q) : list Q := map (fun _ => 1 / inject_Z (Z.of_nat (length l))) l.
Lemma qsum_const {A} (l : list A) c : qsum (map (fun _ => c) l) == inject_Z (Z.of_nat (length l)) * c.
Proof. induction l as [|a l IH]; cbn [map qsum length].
  - change (inject_Z (Z.of_nat 0)) with 0. lra.
  - rewrite IH. rewrite Nat2Z.inj_succ. unfold Z.succ. rewrite inject_Z_plus.
    change (inject_Z 1) with 1. lra. Qed.
Example softmax_oracle_satisfiable :
  (forall l, length (uniform_sm l) = length l) /\
  (forall l s, In s (uniform_sm l) -> 0 < s) /\
  (forall l, l <> [] -> qsum (uniform_sm l) == 1).
Proof. unfold uniform_sm. split; [intros; apply map_length|].
  assert (Hpos : forall l : list Q, l <> [] -> 0 < inject_Z (Z.of_nat (length l))).
  { intros l Hl. destruct l; [congruence|]. cbn [length]. rewrite <- (Zlt_Qlt 0). lia. }
  split.
  - intros l s Hs. apply in_map_iff in Hs. destruct Hs as [x [<- Hx]].
    assert (Hl : l <> []) by (destruct l; [destruct Hx|discriminate]).
    apply Qlt_shift_div_l; [apply Hpos; exact Hl|]. lra.
  - intros l Hl. rewrite qsum_const. specialize (Hpos l Hl).
    set (n := inject_Z (Z.of_nat (length l))) in *. field. intro E. rewrite E in Hpos. lra. Qed.

(* a concrete cyclic two-unit layer with imputation meeting the layer-level hypotheses *)
Definition example_layer : pwl_layer :=
  build_fixed 2 [0; 1; 3; 7#2] true [[1#2; 0]; [1; 2]; [-(2); 1]] true (Some (-(1))) None [5; 6] true.
Example layer_hyp_example :
  p_cyclic example_layer = true /\ p_impute example_layer = true /\
  segments (unit_lefts example_layer 1) (unit_lens example_layer 1) (7#2) /\
  length (unit_lefts example_layer 1) = length (p_kernel example_layer) /\
  unit_lefts example_layer 1 <> [] /\
  length (column 1 (bias_and_heights example_layer)) = S (length (unit_lefts example_layer 1)).
Proof. cbn. repeat split; try lra; discriminate. Qed.
Example layer_call_example :
  option_map (map (map (map Qred))) (pwl_call example_layer false [[1#2]; [-(1)]; [7#2]] None) =
  Some [[[1]; [5]; [1#2]]; [[1]; [6]; [0]]].
Proof. vm_compute. reflexivity. Qed.

Definition example_cat : cat_layer := mkCat 3 2 [[1; 2]; [3; 4]; [5; 6]] (Some (-1)%Z) false.
Example cat_hyp_example :
  cast_int (nth (col_of 1 1) [1] 0) = 1%Z /\ c_default example_cat <> Some 1%Z /\
  (0 <= 1 < Z.of_nat (c_buckets example_cat))%Z /\ cast_int (-(1)) = (-1)%Z /\
  map (map (map Qred)) (cat_call example_cat [[1]; [-(1)]; [5#2]]) = [[[3; 4]; [5; 6]; [5; 6]]].
Proof. vm_compute. repeat split; congruence. Qed.
