(* Lemmas about the assert_constraints models of Model/Asserts.v (property C12).

   For every layer kind: the list of COVERED inequality instances is given as a
   type of instances ([lat_ineq], ...) with a membership predicate [covered]
   quantifying over ALL valid index vectors / units / pairs (independent of how
   the assert slices the kernel) and a [slack] (>= 0 means satisfied; the
   violation of an instance is  - slack).  Then
     sound:     covered q -> slack q < - eps -> assert = false
     complete:  0 <= eps -> (forall covered q, - eps <= slack q) -> assert = true. *)
From TFL Require Export Model.Asserts Proofs.LatticeSpecFacts.
From TFL Require Import Proofs.LatticeMono.
Open Scope Q_scope.

(* ------------------------------------------------------------------ *)
(* reductions                                                           *)
(* ------------------------------------------------------------------ *)
Lemma rmin_ge_inv l lo : rmin_ge l lo = true -> forall x, In x l -> lo <= x.
Proof. unfold rmin_ge. rewrite qle_true. intros H x Hx. pose proof (qminl_le l x Hx). lra. Qed.
Lemma rmin_ge_intro l lo : (l = [] -> lo <= 0) -> (forall x, In x l -> lo <= x) -> rmin_ge l lo = true.
Proof. unfold rmin_ge. rewrite qle_true. intros Hn H. destruct l as [|y l].
  - cbn. apply Hn. reflexivity.
  - apply qminl_glb. discriminate. exact H. Qed.
Lemma rmax_le_inv l hi : rmax_le l hi = true -> forall x, In x l -> x <= hi.
Proof. unfold rmax_le. rewrite qle_true. intros H x Hx. pose proof (qmaxl_ge l x Hx). lra. Qed.
Lemma rmax_le_intro l hi : (l = [] -> 0 <= hi) -> (forall x, In x l -> x <= hi) -> rmax_le l hi = true.
Proof. unfold rmax_le. rewrite qle_true. intros Hn H. destruct l as [|y l].
  - cbn. apply Hn. reflexivity.
  - apply qmaxl_lub. discriminate. exact H. Qed.

Lemma bool_false_of (b : bool) : (b = true -> False) -> b = false.
Proof. destruct b; intros H; [exfalso; apply H; reflexivity|reflexivity]. Qed.

(* ------------------------------------------------------------------ *)
(* slices                                                               *)
(* ------------------------------------------------------------------ *)
Definition pos_shape (sh : list nat) : Prop := forall s, In s sh -> (1 <= s)%nat.
Lemma pos_shape_nth sh d : pos_shape sh -> (d < length sh)%nat -> (1 <= nth d sh 0)%nat.
Proof. intros H Hd. apply H. apply nth_In. exact Hd. Qed.

Lemma slices_ge_inv sh keep eps g :
  (forall b, valid sh b -> g (zero_at keep b) == g b) ->
  slices_ge sh keep eps g = true -> forall b, valid sh b -> - eps <= g b.
Proof. intros Hg H b Hv. rewrite <- (Hg b Hv). apply (rmin_ge_inv _ _ H). apply in_map. apply behind_proj. exact Hv. Qed.

Lemma slices_ge_intro sh keep eps g : pos_shape sh -> 0 <= eps ->
  (forall b, valid sh b -> - eps <= g b) -> slices_ge sh keep eps g = true.
Proof. intros Hp He H. apply rmin_ge_intro. intros _; lra.
  intros x Hx. apply in_map_iff in Hx. destruct Hx as [b [<- Hb]]. apply H.
  apply (behind_valid sh keep); [|exact Hb]. intros d _ Hd. apply pos_shape_nth; assumption. Qed.

Lemma pairs_all_iff a b f : pairs_all a b f = true <-> forall i j, (i < a)%nat -> (j < b)%nat -> f i j = true.
Proof. unfold pairs_all. rewrite forallb_forall. split.
  - intros H i j Hi Hj. specialize (H i ltac:(apply in_seq; lia)). rewrite forallb_forall in H.
    apply H. apply in_seq; lia.
  - intros H i Hi. apply in_seq in Hi. apply forallb_forall. intros j Hj. apply in_seq in Hj. apply H; lia. Qed.

Lemma upd_zero_at1 b d k : upd (zero_at [d] b) d k = upd b d k.
Proof. cbn. apply upd_upd. Qed.
Lemma at2_zero_at2 b p q i j : p <> q -> at2 (zero_at [p; q] b) p q i j = at2 b p q i j.
Proof. intros Hne. cbn. unfold at2.
  rewrite (upd_comm (upd b p 0%nat) q p 0%nat i) by auto. rewrite upd_upd. rewrite upd_upd. reflexivity. Qed.

Lemma slices_ge_inv' sh keep eps g : slices_ge sh keep eps g = true ->
  (forall b, valid sh b -> g (zero_at keep b) == g b) -> forall b, valid sh b -> - eps <= g b.
Proof. intros H Hg. apply (slices_ge_inv sh keep); assumption. Qed.
(* from  H : slices_ge sh [p; q] eps g = true  to  G : - eps <= g b  (g written with at2 _ p q) *)
Ltac slinv H b Hv G :=
  pose proof (slices_ge_inv' _ _ _ _ H) as G; cbv beta in G;
  lapply G; [clear G; intros G; specialize (G b Hv)
            |intros ? _; rewrite !at2_zero_at2 by assumption; reflexivity].

(* ------------------------------------------------------------------ *)
(* Lattice: covered inequality instances                                *)
(* ------------------------------------------------------------------ *)
Inductive lat_ineq :=
| IMono (d : nat) (x : idx)                       (* x -> x + e_d along a monotone dimension *)
| IEdge (t : trust) (b : idx) (i j : nat)         (* Edgeworth square (i, j) at position b *)
| ITrapL (t : trust) (b : idx) (j : nat)          (* trapezoid, lowest main index *)
| ITrapR (t : trust) (b : idx) (j : nat)          (* trapezoid, highest main index *)
| IMdomD (pq : nat * nat) (b : idx) (i j : nat)   (* monotonic dominance, dominant edge vs midpoint *)
| IMdomW (pq : nat * nat) (b : idx) (i j : nat)   (* monotonic dominance, midpoint vs weak edge *)
| IRdom (pq : nat * nat) (b : idx) (i j : nat)    (* range dominance: weak range at i vs dominant range at j *)
| IJmonoL (pq : nat * nat) (b : idx) (i j : nat)  (* joint monotonicity, lower triangle *)
| IJmonoU (pq : nat * nat) (b : idx) (i j : nat)  (* joint monotonicity, upper triangle *)
| ILower (x : idx)
| IUpper (x : idx).

(* the sign convention of Proofs/LatticeSpec.v: direction > 0 keeps x, else - x *)
Definition tsign (dir : Z) (x : Q) : Q := if (0 <? dir)%Z then x else - x.

Definition slack (c : la_cfg) (W : tens) (q : lat_ineq) : Q :=
  let sh := a_shape c in
  match q with
  | IMono d x => W (upd x d (S (nth d x 0%nat))) - W x
  | IEdge (m, cd, dir) b i j => tsign dir (- esq W m cd i j b)
  | ITrapL (m, cd, dir) b j => tsign dir (W (at2 b m cd 0%nat j) - W (at2 b m cd 0%nat (S j)))
  | ITrapR (m, cd, dir) b j =>
      let mx := (nth m sh 0%nat - 1)%nat in tsign dir (W (at2 b m cd mx (S j)) - W (at2 b m cd mx j))
  | IMdomD (p, q) b i j => W (at2 b p q (S i) j) - (W (at2 b p q (S i) (S j)) + W (at2 b p q i j)) * (1#2)
  | IMdomW (p, q) b i j => (W (at2 b p q (S i) (S j)) + W (at2 b p q i j)) * (1#2) - W (at2 b p q i (S j))
  | IRdom (p, q) b i j =>
      let dmax := (nth p sh 0%nat - 1)%nat in let wmax := (nth q sh 0%nat - 1)%nat in
      (W (at2 b p q dmax j) - W (at2 b p q 0%nat j)) - (W (at2 b p q i wmax) - W (at2 b p q i 0%nat))
  | IJmonoL (p, q) b i j => W (at2 b p q (S i) (S j)) - (W (at2 b p q (S i) j) + W (at2 b p q i (S j))) * (1#2)
  | IJmonoU (p, q) b i j => (W (at2 b p q (S i) j) + W (at2 b p q i (S j))) * (1#2) - W (at2 b p q i j)
  | ILower x => match a_min c with Some lo => W x - lo | None => 0 end
  | IUpper x => match a_max c with Some hi => hi - W x | None => 0 end
  end.

Definition covered (c : la_cfg) (q : lat_ineq) : Prop :=
  let sh := a_shape c in
  match q with
  | IMono d x => (d < length (a_monos c))%nat /\ nth d (a_monos c) 0%Z = 1%Z /\ valid sh x /\
                 (S (nth d x 0) < nth d sh 0)%nat
  | IEdge t b i j => In t (a_edge c) /\ valid sh b /\
                     (S i < nth (fst (fst t)) sh 0)%nat /\ (S j < nth (snd (fst t)) sh 0)%nat
  | ITrapL t b j | ITrapR t b j => In t (a_trap c) /\ valid sh b /\ (S j < nth (snd (fst t)) sh 0)%nat
  | IMdomD pq b i j | IMdomW pq b i j =>
      In pq (a_mdom c) /\ valid sh b /\ (S i < nth (fst pq) sh 0)%nat /\ (S j < nth (snd pq) sh 0)%nat
  | IRdom pq b i j => In pq (a_rdom c) /\ valid sh b /\ (i < nth (fst pq) sh 0)%nat /\ (j < nth (snd pq) sh 0)%nat
  | IJmonoL pq b i j | IJmonoU pq b i j =>
      In pq (a_jmono c) /\ valid sh b /\ (S i < nth (fst pq) sh 0)%nat /\ (S j < nth (snd pq) sh 0)%nat
  | ILower x => a_min c <> None /\ valid sh x
  | IUpper x => a_max c <> None /\ valid sh x
  end.

(* what verify_hyperparameters guarantees (the part the asserts rely on) *)
Definition la_ok (c : la_cfg) : Prop :=
  pos_shape (a_shape c) /\
  (length (a_monos c) <= length (a_sizes c))%nat /\
  (forall m cd dir, In (m, cd, dir) (a_edge c ++ a_trap c) -> m <> cd /\ (dir = 1 \/ dir = -1)%Z) /\
  (forall p q, In (p, q) (a_mdom c ++ a_rdom c ++ a_jmono c) -> p <> q).

(* ---- monotonicity ---- *)
Lemma assert_mono_inv sh monos eps W : assert_mono sh monos eps W = true ->
  forall d x, (d < length monos)%nat -> nth d monos 0%Z = 1%Z -> valid sh x -> (S (nth d x 0) < nth d sh 0)%nat ->
  - eps <= W (upd x d (S (nth d x 0%nat))) - W x.
Proof. unfold assert_mono. rewrite forallb_forall. intros H d x Hd Hm Hv Hs.
  specialize (H d ltac:(apply in_seq; lia)). rewrite Hm in H. change ((1 =? 1)%Z) with true in H. cbv iota in H.
  rewrite forallb_forall in H. specialize (H (nth d x 0%nat) ltac:(apply in_seq; lia)).
  assert (Hg : forall b, valid sh b ->
    (fun b => W (upd b d (S (nth d x 0%nat))) - W (upd b d (nth d x 0%nat))) (zero_at [d] b) ==
    (fun b => W (upd b d (S (nth d x 0%nat))) - W (upd b d (nth d x 0%nat))) b).
  { intros b _. cbv beta. rewrite !upd_zero_at1. reflexivity. }
  pose proof (slices_ge_inv sh [d] eps _ Hg H x Hv) as H1. cbv beta in H1. rewrite (upd_self x d) in H1. exact H1. Qed.

Lemma assert_mono_intro sh monos eps W : pos_shape sh -> 0 <= eps ->
  (forall d x, (d < length monos)%nat -> nth d monos 0%Z = 1%Z -> valid sh x -> (S (nth d x 0) < nth d sh 0)%nat ->
     - eps <= W (upd x d (S (nth d x 0%nat))) - W x) ->
  assert_mono sh monos eps W = true.
Proof. intros Hp He H. unfold assert_mono. apply forallb_forall. intros d Hd. apply in_seq in Hd.
  destruct (nth d monos 0 =? 1)%Z eqn:E; [|reflexivity]. apply Z.eqb_eq in E.
  apply forallb_forall. intros j Hj. apply in_seq in Hj.
  apply slices_ge_intro; auto. intros b Hv.
  assert (Hdl : (d < length sh)%nat).
  { destruct (Nat.ltb_spec d (length sh)); [assumption|]. rewrite (nth_overflow sh) in Hj by assumption. lia. }
  assert (Hv' : valid sh (upd b d j)) by (apply upd_valid; [exact Hv|lia]).
  pose proof (H d (upd b d j) ltac:(lia) E Hv') as H1.
  rewrite nth_upd_same in H1 by (rewrite (valid_length sh b Hv); exact Hdl). rewrite upd_upd in H1. apply H1. lia. Qed.

(* ---- sign of a trust direction ---- *)
Lemma dir_mul dir x : (dir = 1 \/ dir = -1)%Z -> inject_Z dir * x == tsign dir x.
Proof. intros [-> | ->]; unfold tsign.
  - change (0 <? 1)%Z with true. change (inject_Z 1) with 1. cbv iota. lra.
  - change (0 <? -1)%Z with false. change (inject_Z (-1)) with (-1#1). cbv iota. lra. Qed.

(* ---- Edgeworth ---- *)
Lemma assert_edge_inv sh eps W m cd dir : m <> cd -> (dir = 1 \/ dir = -1)%Z ->
  assert_edge_one sh eps W (m, cd, dir) = true ->
  forall b i j, valid sh b -> (S i < nth m sh 0)%nat -> (S j < nth cd sh 0)%nat ->
  - eps <= tsign dir (- esq W m cd i j b).
Proof. intros Hne Hdir H b i j Hv Hi Hj. unfold assert_edge_one in H. rewrite pairs_all_iff in H.
  specialize (H i j ltac:(lia) ltac:(lia)).
  slinv H b Hv H1.
  rewrite dir_mul in H1 by assumption. unfold tsign, esq in *. destruct (0 <? dir)%Z; lra. Qed.

Lemma assert_edge_intro sh eps W m cd dir : pos_shape sh -> 0 <= eps -> (dir = 1 \/ dir = -1)%Z ->
  (forall b i j, valid sh b -> (S i < nth m sh 0)%nat -> (S j < nth cd sh 0)%nat ->
     - eps <= tsign dir (- esq W m cd i j b)) ->
  assert_edge_one sh eps W (m, cd, dir) = true.
Proof. intros Hp He Hdir H. unfold assert_edge_one. apply pairs_all_iff. intros i j Hi Hj.
  apply slices_ge_intro; auto. intros b Hv. specialize (H b i j Hv ltac:(lia) ltac:(lia)).
  rewrite dir_mul by assumption. unfold tsign, esq in *. destruct (0 <? dir)%Z; lra. Qed.

(* ---- trapezoid ---- *)
Lemma assert_trap_inv sh eps W m cd dir : m <> cd -> (dir = 1 \/ dir = -1)%Z ->
  assert_trap_one sh eps W (m, cd, dir) = true ->
  forall b j, valid sh b -> (S j < nth cd sh 0)%nat ->
  - eps <= tsign dir (W (at2 b m cd 0%nat j) - W (at2 b m cd 0%nat (S j))) /\
  - eps <= tsign dir (W (at2 b m cd (nth m sh 0%nat - 1)%nat (S j)) - W (at2 b m cd (nth m sh 0%nat - 1)%nat j)).
Proof. intros Hne Hdir H b j Hv Hj. unfold assert_trap_one in H. cbv zeta in H. rewrite forallb_forall in H.
  specialize (H j ltac:(apply in_seq; lia)). apply andb_prop in H. destruct H as [H1 H2].
  slinv H1 b Hv G1. slinv H2 b Hv G2.
  rewrite dir_mul in G1, G2 by assumption. split; assumption. Qed.

Lemma assert_trap_intro sh eps W m cd dir : pos_shape sh -> 0 <= eps -> (dir = 1 \/ dir = -1)%Z ->
  (forall b j, valid sh b -> (S j < nth cd sh 0)%nat ->
     - eps <= tsign dir (W (at2 b m cd 0%nat j) - W (at2 b m cd 0%nat (S j))) /\
     - eps <= tsign dir (W (at2 b m cd (nth m sh 0%nat - 1)%nat (S j)) - W (at2 b m cd (nth m sh 0%nat - 1)%nat j))) ->
  assert_trap_one sh eps W (m, cd, dir) = true.
Proof. intros Hp He Hdir H. unfold assert_trap_one. cbv zeta. apply forallb_forall. intros j Hj. apply in_seq in Hj.
  apply andb_true_intro. split; apply slices_ge_intro; auto; intros b Hv;
    destruct (H b j Hv ltac:(lia)) as [G1 G2]; rewrite dir_mul by assumption; assumption. Qed.

(* ---- monotonic dominance ---- *)
Lemma assert_mdom_inv sh eps W p q : p <> q -> assert_mdom_one sh eps W (p, q) = true ->
  forall b i j, valid sh b -> (S i < nth p sh 0)%nat -> (S j < nth q sh 0)%nat ->
  - eps <= W (at2 b p q (S i) j) - (W (at2 b p q (S i) (S j)) + W (at2 b p q i j)) * (1#2) /\
  - eps <= (W (at2 b p q (S i) (S j)) + W (at2 b p q i j)) * (1#2) - W (at2 b p q i (S j)).
Proof. intros Hne H b i j Hv Hi Hj. unfold assert_mdom_one in H. rewrite pairs_all_iff in H.
  specialize (H i j ltac:(lia) ltac:(lia)). apply andb_prop in H. destruct H as [H1 H2].
  slinv H1 b Hv G1. slinv H2 b Hv G2. split; assumption. Qed.

Lemma assert_mdom_intro sh eps W p q : pos_shape sh -> 0 <= eps ->
  (forall b i j, valid sh b -> (S i < nth p sh 0)%nat -> (S j < nth q sh 0)%nat ->
     - eps <= W (at2 b p q (S i) j) - (W (at2 b p q (S i) (S j)) + W (at2 b p q i j)) * (1#2) /\
     - eps <= (W (at2 b p q (S i) (S j)) + W (at2 b p q i j)) * (1#2) - W (at2 b p q i (S j))) ->
  assert_mdom_one sh eps W (p, q) = true.
Proof. intros Hp He H. unfold assert_mdom_one. apply pairs_all_iff. intros i j Hi Hj.
  apply andb_true_intro. split; apply slices_ge_intro; auto; intros b Hv;
    destruct (H b i j Hv ltac:(lia) ltac:(lia)) as [G1 G2]; assumption. Qed.

(* ---- range dominance ---- *)
Lemma assert_rdom_inv sh eps W p q : p <> q -> assert_rdom_one sh eps W (p, q) = true ->
  forall b i j, valid sh b -> (i < nth p sh 0)%nat -> (j < nth q sh 0)%nat ->
  - eps <= (W (at2 b p q (nth p sh 0%nat - 1)%nat j) - W (at2 b p q 0%nat j)) -
           (W (at2 b p q i (nth q sh 0%nat - 1)%nat) - W (at2 b p q i 0%nat)).
Proof. intros Hne H b i j Hv Hi Hj. unfold assert_rdom_one in H. cbv zeta in H. rewrite pairs_all_iff in H.
  specialize (H i j Hi Hj). slinv H b Hv G. exact G. Qed.

Lemma assert_rdom_intro sh eps W p q : pos_shape sh -> 0 <= eps ->
  (forall b i j, valid sh b -> (i < nth p sh 0)%nat -> (j < nth q sh 0)%nat ->
     - eps <= (W (at2 b p q (nth p sh 0%nat - 1)%nat j) - W (at2 b p q 0%nat j)) -
              (W (at2 b p q i (nth q sh 0%nat - 1)%nat) - W (at2 b p q i 0%nat))) ->
  assert_rdom_one sh eps W (p, q) = true.
Proof. intros Hp He H. unfold assert_rdom_one. cbv zeta. apply pairs_all_iff. intros i j Hi Hj.
  apply slices_ge_intro; [assumption|assumption|]. intros b Hv. apply H; assumption. Qed.

(* ---- joint monotonicity ---- *)
Lemma assert_jmono_inv sh eps W p q : p <> q -> assert_jmono_one sh eps W (p, q) = true ->
  forall b i j, valid sh b -> (S i < nth p sh 0)%nat -> (S j < nth q sh 0)%nat ->
  - eps <= W (at2 b p q (S i) (S j)) - (W (at2 b p q (S i) j) + W (at2 b p q i (S j))) * (1#2) /\
  - eps <= (W (at2 b p q (S i) j) + W (at2 b p q i (S j))) * (1#2) - W (at2 b p q i j).
Proof. intros Hne H b i j Hv Hi Hj. unfold assert_jmono_one in H. rewrite pairs_all_iff in H.
  specialize (H i j ltac:(lia) ltac:(lia)). apply andb_prop in H. destruct H as [H1 H2].
  slinv H1 b Hv G1. slinv H2 b Hv G2. split; assumption. Qed.

Lemma assert_jmono_intro sh eps W p q : pos_shape sh -> 0 <= eps ->
  (forall b i j, valid sh b -> (S i < nth p sh 0)%nat -> (S j < nth q sh 0)%nat ->
     - eps <= W (at2 b p q (S i) (S j)) - (W (at2 b p q (S i) j) + W (at2 b p q i (S j))) * (1#2) /\
     - eps <= (W (at2 b p q (S i) j) + W (at2 b p q i (S j))) * (1#2) - W (at2 b p q i j)) ->
  assert_jmono_one sh eps W (p, q) = true.
Proof. intros Hp He H. unfold assert_jmono_one. apply pairs_all_iff. intros i j Hi Hj.
  apply andb_true_intro. split; apply slices_ge_intro; auto; intros b Hv;
    destruct (H b i j Hv ltac:(lia) ltac:(lia)) as [G1 G2]; assumption. Qed.

(* ---- bounds ---- *)
Lemma pos_shape_valid sh : pos_shape sh -> exists x, valid sh x.
Proof. induction sh as [|s sh IH]; intros Hp. exists []. constructor.
  destruct IH as [x Hx]. intros s' Hs'. apply Hp. right; assumption.
  exists (0%nat :: x). constructor; [|assumption]. specialize (Hp s (or_introl eq_refl)). lia. Qed.
Lemma all_values_nonempty sh (W : tens) : pos_shape sh -> map W (all_idx sh) <> [].
Proof. intros Hp. destruct (pos_shape_valid sh Hp) as [x Hx]. apply all_idx_valid in Hx.
  intros E. apply (in_map W) in Hx. rewrite E in Hx. destruct Hx. Qed.

Lemma assert_lower_inv sh eps lo W : assert_lower sh eps (Some lo) W = true -> forall x, valid sh x -> - eps <= W x - lo.
Proof. cbn. intros H x Hv. pose proof (rmin_ge_inv _ _ H (W x) ltac:(apply in_map; apply all_idx_valid; exact Hv)). lra. Qed.
Lemma assert_lower_intro sh eps omin W : pos_shape sh ->
  (forall lo x, omin = Some lo -> valid sh x -> - eps <= W x - lo) -> assert_lower sh eps omin W = true.
Proof. intros Hp H. destruct omin as [lo|]; [|reflexivity]. cbn. apply rmin_ge_intro.
  - intros E. exfalso. exact (all_values_nonempty sh W Hp E).
  - intros v Hv. apply in_map_iff in Hv. destruct Hv as [x [<- Hx]]. apply all_idx_valid in Hx.
    specialize (H lo x eq_refl Hx). lra. Qed.
Lemma assert_upper_inv sh eps hi W : assert_upper sh eps (Some hi) W = true -> forall x, valid sh x -> - eps <= hi - W x.
Proof. cbn. intros H x Hv. pose proof (rmax_le_inv _ _ H (W x) ltac:(apply in_map; apply all_idx_valid; exact Hv)). lra. Qed.
Lemma assert_upper_intro sh eps omax W : pos_shape sh ->
  (forall hi x, omax = Some hi -> valid sh x -> - eps <= hi - W x) -> assert_upper sh eps omax W = true.
Proof. intros Hp H. destruct omax as [hi|]; [|reflexivity]. cbn. apply rmax_le_intro.
  - intros E. exfalso. exact (all_values_nonempty sh W Hp E).
  - intros v Hv. apply in_map_iff in Hv. destruct Hv as [x [<- Hx]]. apply all_idx_valid in Hx.
    specialize (H hi x eq_refl Hx). lra. Qed.

(* ------------------------------------------------------------------ *)
(* Lattice: the assert passes iff every covered slack is >= -eps        *)
(* ------------------------------------------------------------------ *)
Lemma assert_lattice_inv c W eps : la_ok c -> assert_lattice c W eps = true ->
  forall q, covered c q -> - eps <= slack c W q.
Proof. intros (Hp & Hl & Htr & Hpq) H q Hq. unfold assert_lattice in H. cbv zeta in H.
  apply andb_prop in H. destruct H as [H Hup]. apply andb_prop in H. destruct H as [H Hlo].
  apply andb_prop in H. destruct H as [H Hjm]. apply andb_prop in H. destruct H as [H Hrd].
  apply andb_prop in H. destruct H as [H Hmd]. apply andb_prop in H. destruct H as [H Htp].
  apply andb_prop in H. destruct H as [Hmo Hed].
  rewrite forallb_forall in Hed, Htp, Hmd, Hrd, Hjm.
  destruct q as [d x|t b i j|t b j|t b j|pq b i j|pq b i j|pq b i j|pq b i j|pq b i j|x|x].
  - destruct Hq as (Hd & Hm & Hv & Hs). exact (assert_mono_inv _ _ _ _ Hmo d x Hd Hm Hv Hs).
  - destruct t as [[m cd] dir]. destruct Hq as (Hin & Hv & Hi & Hj). cbn [fst snd] in *.
    destruct (Htr m cd dir (in_or_app _ _ _ (or_introl Hin))) as [Hne Hdir].
    exact (assert_edge_inv _ _ _ _ _ _ Hne Hdir (Hed _ Hin) b i j Hv Hi Hj).
  - destruct t as [[m cd] dir]. destruct Hq as (Hin & Hv & Hj). cbn [fst snd] in *.
    destruct (Htr m cd dir (in_or_app _ _ _ (or_intror Hin))) as [Hne Hdir].
    exact (proj1 (assert_trap_inv _ _ _ _ _ _ Hne Hdir (Htp _ Hin) b j Hv Hj)).
  - destruct t as [[m cd] dir]. destruct Hq as (Hin & Hv & Hj). cbn [fst snd] in *.
    destruct (Htr m cd dir (in_or_app _ _ _ (or_intror Hin))) as [Hne Hdir].
    exact (proj2 (assert_trap_inv _ _ _ _ _ _ Hne Hdir (Htp _ Hin) b j Hv Hj)).
  - destruct pq as [p q]. destruct Hq as (Hin & Hv & Hi & Hj). cbn [fst snd] in *.
    pose proof (Hpq p q (in_or_app _ _ _ (or_introl Hin))) as Hne.
    exact (proj1 (assert_mdom_inv _ _ _ _ _ Hne (Hmd _ Hin) b i j Hv Hi Hj)).
  - destruct pq as [p q]. destruct Hq as (Hin & Hv & Hi & Hj). cbn [fst snd] in *.
    pose proof (Hpq p q (in_or_app _ _ _ (or_introl Hin))) as Hne.
    exact (proj2 (assert_mdom_inv _ _ _ _ _ Hne (Hmd _ Hin) b i j Hv Hi Hj)).
  - destruct pq as [p q]. destruct Hq as (Hin & Hv & Hi & Hj). cbn [fst snd] in *.
    pose proof (Hpq p q (in_or_app _ _ _ (or_intror (in_or_app _ _ _ (or_introl Hin))))) as Hne.
    exact (assert_rdom_inv _ _ _ _ _ Hne (Hrd _ Hin) b i j Hv Hi Hj).
  - destruct pq as [p q]. destruct Hq as (Hin & Hv & Hi & Hj). cbn [fst snd] in *.
    pose proof (Hpq p q (in_or_app _ _ _ (or_intror (in_or_app _ _ _ (or_intror Hin))))) as Hne.
    exact (proj1 (assert_jmono_inv _ _ _ _ _ Hne (Hjm _ Hin) b i j Hv Hi Hj)).
  - destruct pq as [p q]. destruct Hq as (Hin & Hv & Hi & Hj). cbn [fst snd] in *.
    pose proof (Hpq p q (in_or_app _ _ _ (or_intror (in_or_app _ _ _ (or_intror Hin))))) as Hne.
    exact (proj2 (assert_jmono_inv _ _ _ _ _ Hne (Hjm _ Hin) b i j Hv Hi Hj)).
  - destruct Hq as [Hn Hv]. cbn [slack]. destruct (a_min c) as [lo|]; [|congruence].
    exact (assert_lower_inv _ _ _ _ Hlo x Hv).
  - destruct Hq as [Hn Hv]. cbn [slack]. destruct (a_max c) as [hi|]; [|congruence].
    exact (assert_upper_inv _ _ _ _ Hup x Hv). Qed.

Lemma assert_lattice_intro c W eps : la_ok c -> 0 <= eps ->
  (forall q, covered c q -> - eps <= slack c W q) -> assert_lattice c W eps = true.
Proof. intros (Hp & Hl & Htr & Hpq) He H. unfold assert_lattice. cbv zeta.
  apply andb_true_intro; split; [apply andb_true_intro; split; [apply andb_true_intro; split;
    [apply andb_true_intro; split; [apply andb_true_intro; split; [apply andb_true_intro; split;
      [apply andb_true_intro; split|]|]|]|]|]|].
  - apply assert_mono_intro; [assumption|assumption|]. intros d x Hd Hm Hv Hs.
    exact (H (IMono d x) (conj Hd (conj Hm (conj Hv Hs)))).
  - apply forallb_forall. intros [[m cd] dir] Hin.
    destruct (Htr m cd dir (in_or_app _ _ _ (or_introl Hin))) as [Hne Hdir].
    apply assert_edge_intro; [assumption|assumption|assumption|]. intros b i j Hv Hi Hj.
    exact (H (IEdge (m, cd, dir) b i j) (conj Hin (conj Hv (conj Hi Hj)))).
  - apply forallb_forall. intros [[m cd] dir] Hin.
    destruct (Htr m cd dir (in_or_app _ _ _ (or_intror Hin))) as [Hne Hdir].
    apply assert_trap_intro; [assumption|assumption|assumption|]. intros b j Hv Hj. split.
    + exact (H (ITrapL (m, cd, dir) b j) (conj Hin (conj Hv Hj))).
    + exact (H (ITrapR (m, cd, dir) b j) (conj Hin (conj Hv Hj))).
  - apply forallb_forall. intros [p q] Hin. apply assert_mdom_intro; [assumption|assumption|].
    intros b i j Hv Hi Hj. split.
    + exact (H (IMdomD (p, q) b i j) (conj Hin (conj Hv (conj Hi Hj)))).
    + exact (H (IMdomW (p, q) b i j) (conj Hin (conj Hv (conj Hi Hj)))).
  - apply forallb_forall. intros [p q] Hin. apply assert_rdom_intro; [assumption|assumption|].
    intros b i j Hv Hi Hj. exact (H (IRdom (p, q) b i j) (conj Hin (conj Hv (conj Hi Hj)))).
  - apply forallb_forall. intros [p q] Hin. apply assert_jmono_intro; [assumption|assumption|].
    intros b i j Hv Hi Hj. split.
    + exact (H (IJmonoL (p, q) b i j) (conj Hin (conj Hv (conj Hi Hj)))).
    + exact (H (IJmonoU (p, q) b i j) (conj Hin (conj Hv (conj Hi Hj)))).
  - apply assert_lower_intro; [assumption|]. intros lo x E Hv.
    assert (Hc : covered c (ILower x)) by (cbn [covered]; split; [rewrite E; discriminate|exact Hv]).
    pose proof (H _ Hc) as H1. cbn [slack] in H1. rewrite E in H1. exact H1.
  - apply assert_upper_intro; [assumption|]. intros hi x E Hv.
    assert (Hc : covered c (IUpper x)) by (cbn [covered]; split; [rewrite E; discriminate|exact Hv]).
    pose proof (H _ Hc) as H1. cbn [slack] in H1. rewrite E in H1. exact H1.
Qed.

Theorem lattice_sound c W eps q : la_ok c -> covered c q -> slack c W q < - eps -> assert_lattice c W eps = false.
Proof. intros Hok Hq Hs. apply bool_false_of. intros H. pose proof (assert_lattice_inv c W eps Hok H q Hq). lra. Qed.
Theorem lattice_complete c W eps : la_ok c -> 0 <= eps ->
  (forall q, covered c q -> - eps <= slack c W q) -> assert_lattice c W eps = true.
Proof. exact (assert_lattice_intro c W eps). Qed.
Theorem lattice_exact c W eps : la_ok c -> 0 <= eps ->
  (assert_lattice c W eps = true <-> forall q, covered c q -> - eps <= slack c W q).
Proof. intros Hok He. split. apply assert_lattice_inv; assumption. apply assert_lattice_intro; assumption. Qed.

(* the flat (row-major) kernel the layer stores: same statements about of_list *)
Theorem lattice_flat_sound c w eps q : la_ok c -> covered c q ->
  slack c (of_list (a_shape c) w) q < - eps -> assert_lattice_flat c w eps = false.
Proof. apply lattice_sound. Qed.
Theorem lattice_flat_complete c w eps : la_ok c -> 0 <= eps ->
  (forall q, covered c q -> - eps <= slack c (of_list (a_shape c) w) q) -> assert_lattice_flat c w eps = true.
Proof. apply lattice_complete. Qed.

(* ------------------------------------------------------------------ *)
(* RTL: conjunction over the lattice layers                             *)
(* ------------------------------------------------------------------ *)
Lemma assert_rtl_iff layers eps :
  assert_rtl layers eps = true <-> forall c w, In (c, w) layers -> assert_lattice_flat c w eps = true.
Proof. unfold assert_rtl. rewrite forallb_forall. split.
  - intros H c w Hin. apply (H (c, w) Hin).
  - intros H [c w] Hin. apply H; assumption. Qed.
Theorem rtl_sound layers eps c w q : In (c, w) layers -> la_ok c -> covered c q ->
  slack c (of_list (a_shape c) w) q < - eps -> assert_rtl layers eps = false.
Proof. intros Hin Hok Hq Hs. apply bool_false_of. intros H. rewrite assert_rtl_iff in H.
  pose proof (lattice_flat_sound c w eps q Hok Hq Hs). rewrite (H c w Hin) in H0. discriminate. Qed.
Theorem rtl_complete layers eps : 0 <= eps ->
  (forall c w, In (c, w) layers -> la_ok c /\ forall q, covered c q -> - eps <= slack c (of_list (a_shape c) w) q) ->
  assert_rtl layers eps = true.
Proof. intros He H. apply assert_rtl_iff. intros c w Hin. destruct (H c w Hin) as [Hok Hq].
  apply lattice_flat_complete; assumption. Qed.

(* ------------------------------------------------------------------ *)
(* list helpers                                                         *)
(* ------------------------------------------------------------------ *)
Lemma forallb_map_seq {A} (P : A -> bool) (f : nat -> A) n :
  forallb P (map f (seq 0 n)) = true <-> forall u, (u < n)%nat -> P (f u) = true.
Proof. rewrite forallb_forall. split.
  - intros H u Hu. apply H. apply in_map. apply in_seq. lia.
  - intros H x Hx. apply in_map_iff in Hx. destruct Hx as [u [<- Hu]]. apply in_seq in Hu. apply H. lia. Qed.

Lemma fold_qmin_in l : forall a, In (fold_left qmin l a) (a :: l).
Proof. induction l as [|y l IH]; intros a; cbn [fold_left]. left; reflexivity.
  destruct (IH (qmin a y)) as [E|Hin].
  - assert (Hc : qmin a y = a \/ qmin a y = y) by (unfold qmin; destruct (Qle_bool a y); auto).
    destruct Hc as [Hc|Hc]; [left|right; left]; rewrite <- E; symmetry; exact Hc.
  - right; right; exact Hin. Qed.
Lemma qminl_in l : l <> [] -> In (qminl l) l.
Proof. destruct l as [|y l]; [congruence|]. intros _. apply fold_qmin_in. Qed.
Lemma fold_qmax_in l : forall a, In (fold_left qmax l a) (a :: l).
Proof. induction l as [|y l IH]; intros a; cbn [fold_left]. left; reflexivity.
  destruct (IH (qmax a y)) as [E|Hin].
  - assert (Hc : qmax a y = a \/ qmax a y = y) by (unfold qmax; destruct (Qle_bool a y); auto).
    destruct Hc as [Hc|Hc]; [left|right; left]; rewrite <- E; symmetry; exact Hc.
  - right; right; exact Hin. Qed.
Lemma qmaxl_in l : l <> [] -> In (qmaxl l) l.
Proof. destruct l as [|y l]; [congruence|]. intros _. apply fold_qmax_in. Qed.

Definition out_at (outs : list (list Q)) (k u : nat) : Q := nth u (nth k outs []) 0.
Lemma in_column u outs x : In x (column u outs) <-> exists k, (k < length outs)%nat /\ x = out_at outs k u.
Proof. unfold column, out_at. rewrite in_map_iff. split.
  - intros [r [<- Hr]]. apply (In_nth _ _ []) in Hr. destruct Hr as [k [Hk <-]]. exists k; auto.
  - intros [k [Hk ->]]. exists (nth k outs []). split; [reflexivity|apply nth_In; exact Hk]. Qed.
Lemma column_nonempty u outs : outs <> [] -> column u outs <> [].
Proof. destruct outs; [congruence|discriminate]. Qed.

(* min / max of a column against a threshold, without mentioning the reduction *)
Lemma col_min_ge u outs t : outs <> [] ->
  (t <= qminl (column u outs) <-> forall k, (k < length outs)%nat -> t <= out_at outs k u).
Proof. intros Hne. split.
  - intros H k Hk. pose proof (qminl_le (column u outs) (out_at outs k u) ltac:(apply in_column; exists k; auto)). lra.
  - intros H. apply qminl_glb. apply column_nonempty; assumption.
    intros x Hx. apply in_column in Hx. destruct Hx as [k [Hk ->]]. apply H; assumption. Qed.
Lemma col_min_le u outs t : outs <> [] ->
  (qminl (column u outs) <= t <-> exists k, (k < length outs)%nat /\ out_at outs k u <= t).
Proof. intros Hne. split.
  - intros H. pose proof (qminl_in (column u outs) (column_nonempty u outs Hne)) as Hin.
    apply in_column in Hin. destruct Hin as [k [Hk E]]. exists k. split; [assumption|]. rewrite <- E. exact H.
  - intros [k [Hk H]]. pose proof (qminl_le (column u outs) (out_at outs k u) ltac:(apply in_column; exists k; auto)). lra. Qed.
Lemma col_max_le u outs t : outs <> [] ->
  (qmaxl (column u outs) <= t <-> forall k, (k < length outs)%nat -> out_at outs k u <= t).
Proof. intros Hne. split.
  - intros H k Hk. pose proof (qmaxl_ge (column u outs) (out_at outs k u) ltac:(apply in_column; exists k; auto)). lra.
  - intros H. apply qmaxl_lub. apply column_nonempty; assumption.
    intros x Hx. apply in_column in Hx. destruct Hx as [k [Hk ->]]. apply H; assumption. Qed.
Lemma col_max_ge u outs t : outs <> [] ->
  (t <= qmaxl (column u outs) <-> exists k, (k < length outs)%nat /\ t <= out_at outs k u).
Proof. intros Hne. split.
  - intros H. pose proof (qmaxl_in (column u outs) (column_nonempty u outs Hne)) as Hin.
    apply in_column in Hin. destruct Hin as [k [Hk E]]. exists k. split; [assumption|]. rewrite <- E. exact H.
  - intros [k [Hk H]]. pose proof (qmaxl_ge (column u outs) (out_at outs k u) ltac:(apply in_column; exists k; auto)). lra. Qed.

Lemma qabs_le x e : qabs x <= e <-> - e <= x /\ x <= e.
Proof. split; intros H; qcases; lra. Qed.
Lemma qabs_lt x e : qabs x < e <-> - e < x /\ x < e.
Proof. split; intros H; qcases; lra. Qed.

(* ------------------------------------------------------------------ *)
(* PWL calibration                                                      *)
(* ------------------------------------------------------------------ *)
(* every covered constraint of the output matrix holds up to eps: bounds at
   every keypoint of every unit; with a clamp, additionally some keypoint of
   EVERY unit reaches the bound up to eps; monotonicity between every two
   consecutive keypoints of every unit *)
Definition pwl_feasible (c : pwl_acfg) (outs : list (list Q)) (eps : Q) : Prop :=
  (forall lo u, pa_min c = Some lo -> (u < pa_units c)%nat ->
     (forall k, (k < length outs)%nat -> lo - eps <= out_at outs k u) /\
     (pa_clamp_min c = true -> exists k, (k < length outs)%nat /\ out_at outs k u <= lo + eps)) /\
  (forall hi u, pa_max c = Some hi -> (u < pa_units c)%nat ->
     (forall k, (k < length outs)%nat -> out_at outs k u <= hi + eps) /\
     (pa_clamp_max c = true -> exists k, (k < length outs)%nat /\ hi - eps <= out_at outs k u)) /\
  (pa_mono c <> 0%Z -> forall k u, (S k < length outs)%nat -> (u < pa_units c)%nat ->
     - eps <= (out_at outs (S k) u - out_at outs k u) * inject_Z (pa_mono c)).

Lemma in_row_diffs units outs x : In x (row_diffs units outs) <->
  exists k u, (S k < length outs)%nat /\ (u < units)%nat /\ x = out_at outs (S k) u - out_at outs k u.
Proof. induction outs as [|r0 rest IH].
  { cbn. split; [intros []|intros (k & u & H & _); cbn in H; lia]. }
  destruct rest as [|r1 rest'].
  { cbn. split; [intros []|intros (k & u & H & _); cbn in H; lia]. }
  cbn [row_diffs]. rewrite in_app_iff, in_map_iff, IH. split.
  - intros [[u [<- Hu]]|(k & u & Hk & Hu & ->)].
    + apply in_seq in Hu. exists 0%nat, u. split; [cbn; lia|]. split; [lia|reflexivity].
    + exists (S k), u. split; [cbn in *; lia|]. split; [assumption|reflexivity].
  - intros (k & u & Hk & Hu & ->). destruct k as [|k].
    + left. exists u. split; [reflexivity|apply in_seq; lia].
    + right. exists k, u. split; [cbn in *; lia|]. split; [assumption|reflexivity]. Qed.

Theorem pwl_exact c outs eps : outs <> [] -> 0 <= eps ->
  (assert_pwl_outputs c outs eps = true <-> pwl_feasible c outs eps).
Proof. intros Hne He. unfold assert_pwl_outputs, pwl_feasible. cbv zeta. rewrite !andb_true_iff.
  assert (P1 : match pa_min c with
     | None => true
     | Some lo => if pa_clamp_min c then forallb (fun m => qle (qabs (m - lo)) eps) (col_mins (pa_units c) outs)
                  else forallb (fun m => qle (lo - eps) m) (col_mins (pa_units c) outs) end = true <->
     (forall lo u, pa_min c = Some lo -> (u < pa_units c)%nat ->
       (forall k, (k < length outs)%nat -> lo - eps <= out_at outs k u) /\
       (pa_clamp_min c = true -> exists k, (k < length outs)%nat /\ out_at outs k u <= lo + eps))).
  { destruct (pa_min c) as [lo|]; [|split; [intros _ lo u E; discriminate|reflexivity]].
    unfold col_mins. destruct (pa_clamp_min c); rewrite forallb_map_seq; split.
    - intros H lo' u E Hu. injection E as <-. specialize (H u Hu). apply qle_true in H. apply qabs_le in H.
      destruct H as [H1 H2]. split.
      + apply (col_min_ge u outs (lo - eps) Hne). lra.
      + intros _. apply (col_min_le u outs (lo + eps) Hne). lra.
    - intros H u Hu. destruct (H lo u eq_refl Hu) as [H1 H2]. apply qle_true. apply qabs_le.
      apply (col_min_ge u outs (lo - eps) Hne) in H1. specialize (H2 eq_refl).
      apply (col_min_le u outs (lo + eps) Hne) in H2. split; lra.
    - intros H lo' u E Hu. injection E as <-. specialize (H u Hu). apply qle_true in H. split.
      + apply (col_min_ge u outs (lo - eps) Hne). exact H.
      + discriminate.
    - intros H u Hu. destruct (H lo u eq_refl Hu) as [H1 _]. apply qle_true.
      apply (col_min_ge u outs (lo - eps) Hne). exact H1. }
  assert (P2 : match pa_max c with
     | None => true
     | Some hi => if pa_clamp_max c then forallb (fun m => qle (qabs (m - hi)) eps) (col_maxs (pa_units c) outs)
                  else forallb (fun m => qle m (hi + eps)) (col_maxs (pa_units c) outs) end = true <->
     (forall hi u, pa_max c = Some hi -> (u < pa_units c)%nat ->
       (forall k, (k < length outs)%nat -> out_at outs k u <= hi + eps) /\
       (pa_clamp_max c = true -> exists k, (k < length outs)%nat /\ hi - eps <= out_at outs k u))).
  { destruct (pa_max c) as [hi|]; [|split; [intros _ hi u E; discriminate|reflexivity]].
    unfold col_maxs. destruct (pa_clamp_max c); rewrite forallb_map_seq; split.
    - intros H hi' u E Hu. injection E as <-. specialize (H u Hu). apply qle_true in H. apply qabs_le in H.
      destruct H as [H1 H2]. split.
      + apply (col_max_le u outs (hi + eps) Hne). lra.
      + intros _. apply (col_max_ge u outs (hi - eps) Hne). lra.
    - intros H u Hu. destruct (H hi u eq_refl Hu) as [H1 H2]. apply qle_true. apply qabs_le.
      apply (col_max_le u outs (hi + eps) Hne) in H1. specialize (H2 eq_refl).
      apply (col_max_ge u outs (hi - eps) Hne) in H2. split; lra.
    - intros H hi' u E Hu. injection E as <-. specialize (H u Hu). apply qle_true in H. split.
      + apply (col_max_le u outs (hi + eps) Hne). exact H.
      + discriminate.
    - intros H u Hu. destruct (H hi u eq_refl Hu) as [H1 _]. apply qle_true.
      apply (col_max_le u outs (hi + eps) Hne). exact H1. }
  assert (P3 : (if (pa_mono c =? 0)%Z then true
                else rmin_ge (map (fun d => d * inject_Z (pa_mono c)) (row_diffs (pa_units c) outs)) (- eps)) = true <->
     (pa_mono c <> 0%Z -> forall k u, (S k < length outs)%nat -> (u < pa_units c)%nat ->
       - eps <= (out_at outs (S k) u - out_at outs k u) * inject_Z (pa_mono c))).
  { destruct (Z.eqb_spec (pa_mono c) 0) as [E|E]; [split; [intros _ Hc; congruence|reflexivity]|]. split.
    - intros H _ k u Hk Hu. apply (rmin_ge_inv _ _ H). apply in_map_iff.
      exists (out_at outs (S k) u - out_at outs k u). split; [reflexivity|]. apply in_row_diffs. exists k, u. auto.
    - intros H. apply rmin_ge_intro; [intros _; lra|]. intros x Hx. apply in_map_iff in Hx.
      destruct Hx as [d [<- Hd]]. apply in_row_diffs in Hd. destruct Hd as (k & u & Hk & Hu & ->). apply H; assumption. }
  rewrite P1, P2, P3. tauto. Qed.

Theorem pwl_sound c outs eps : outs <> [] -> 0 <= eps -> ~ pwl_feasible c outs eps -> assert_pwl_outputs c outs eps = false.
Proof. intros Hne He Hn. apply bool_false_of. intros H. apply Hn. apply pwl_exact; assumption. Qed.
Theorem pwl_complete c outs eps : outs <> [] -> 0 <= eps -> pwl_feasible c outs eps -> assert_pwl_outputs c outs eps = true.
Proof. intros Hne He H. apply pwl_exact; assumption. Qed.

(* concrete single violations (whichever keypoint / unit) make the assert fail *)
Corollary pwl_sound_mono c outs eps k u : outs <> [] -> 0 <= eps -> pa_mono c <> 0%Z ->
  (S k < length outs)%nat -> (u < pa_units c)%nat ->
  (out_at outs (S k) u - out_at outs k u) * inject_Z (pa_mono c) < - eps -> assert_pwl_outputs c outs eps = false.
Proof. intros Hne He Hm Hk Hu Hv. apply pwl_sound; [assumption|assumption|]. intros (_ & _ & H).
  specialize (H Hm k u Hk Hu). lra. Qed.
Corollary pwl_sound_lower c outs eps lo k u : outs <> [] -> 0 <= eps -> pa_min c = Some lo ->
  (k < length outs)%nat -> (u < pa_units c)%nat -> out_at outs k u < lo - eps -> assert_pwl_outputs c outs eps = false.
Proof. intros Hne He Hm Hk Hu Hv. apply pwl_sound; [assumption|assumption|]. intros (H & _ & _).
  destruct (H lo u Hm Hu) as [H1 _]. specialize (H1 k Hk). lra. Qed.
Corollary pwl_sound_upper c outs eps hi k u : outs <> [] -> 0 <= eps -> pa_max c = Some hi ->
  (k < length outs)%nat -> (u < pa_units c)%nat -> hi + eps < out_at outs k u -> assert_pwl_outputs c outs eps = false.
Proof. intros Hne He Hm Hk Hu Hv. apply pwl_sound; [assumption|assumption|]. intros (_ & H & _).
  destruct (H hi u Hm Hu) as [H1 _]. specialize (H1 k Hk). lra. Qed.
Corollary pwl_sound_clamp_min c outs eps lo u : outs <> [] -> 0 <= eps -> pa_min c = Some lo -> pa_clamp_min c = true ->
  (u < pa_units c)%nat -> (forall k, (k < length outs)%nat -> lo + eps < out_at outs k u) ->
  assert_pwl_outputs c outs eps = false.
Proof. intros Hne He Hm Hc Hu Hv. apply pwl_sound; [assumption|assumption|]. intros (H & _ & _).
  destruct (H lo u Hm Hu) as [_ H2]. destruct (H2 Hc) as [k [Hk Hle]]. specialize (Hv k Hk). lra. Qed.
Corollary pwl_sound_clamp_max c outs eps hi u : outs <> [] -> 0 <= eps -> pa_max c = Some hi -> pa_clamp_max c = true ->
  (u < pa_units c)%nat -> (forall k, (k < length outs)%nat -> out_at outs k u < hi - eps) ->
  assert_pwl_outputs c outs eps = false.
Proof. intros Hne He Hm Hc Hu Hv. apply pwl_sound; [assumption|assumption|]. intros (_ & H & _).
  destruct (H hi u Hm Hu) as [_ H2]. destruct (H2 Hc) as [k [Hk Hle]]. specialize (Hv k Hk). lra. Qed.

(* ---- the PWLCalibration layer: outputs at the keypoints are prefix sums of the kernel ---- *)
Lemma run_sums_at units rows : forall acc k u, (k < length rows)%nat -> (u < units)%nat ->
  out_at (run_sums acc units rows) k u == nth u acc 0 + qsum (firstn (S k) (column u rows)).
Proof. induction rows as [|r rest IH]; intros acc k u Hk Hu; cbn [length] in Hk. lia.
  cbn [run_sums]. destruct k as [|k].
  - unfold out_at. cbn [nth]. rewrite nth_map_seq by assumption. cbn. lra.
  - change (out_at (?s :: ?t) (S k) u) with (out_at t k u). rewrite IH by (assumption || lia).
    rewrite nth_map_seq by assumption. cbn [column map firstn qsum]. fold (column u rest). lra. Qed.
Lemma run_sums_length units rows : forall acc, length (run_sums acc units rows) = length rows.
Proof. induction rows as [|r rest IH]; intros acc; cbn; [reflexivity|rewrite IH; reflexivity]. Qed.

Lemma keypoint_outputs_at units cyclic kernel k u : (k < length kernel)%nat -> (u < units)%nat ->
  out_at (pwl_keypoint_outputs units cyclic kernel) k u == qsum (firstn (S k) (column u kernel)).
Proof. intros Hk Hu. unfold pwl_keypoint_outputs. cbv zeta.
  assert (E : out_at (run_sums (map (fun _ => 0) (seq 0 units)) units kernel) k u ==
              qsum (firstn (S k) (column u kernel))).
  { rewrite run_sums_at by assumption. rewrite nth_map_seq by assumption. lra. }
  destruct cyclic; [|exact E]. unfold out_at in *. rewrite app_nth1 by (rewrite run_sums_length; exact Hk). exact E. Qed.
Lemma keypoint_outputs_cyclic_last units kernel u : kernel <> [] -> (u < units)%nat ->
  out_at (pwl_keypoint_outputs units true kernel) (length kernel) u == nth u (nth 0 kernel []) 0.
Proof. intros Hne Hu. unfold pwl_keypoint_outputs. cbv zeta. unfold out_at.
  rewrite app_nth2 by (rewrite run_sums_length; lia). rewrite run_sums_length, Nat.sub_diag.
  destruct kernel as [|r rest]; [congruence|]. cbn [run_sums firstn nth]. rewrite nth_map_seq by assumption.
  rewrite nth_map_seq by assumption. lra. Qed.
Lemma keypoint_outputs_nonempty units cyclic kernel : kernel <> [] -> pwl_keypoint_outputs units cyclic kernel <> [].
Proof. intros Hne. unfold pwl_keypoint_outputs. cbv zeta. destruct kernel as [|r rest]; [congruence|].
  cbn [run_sums]. destruct cyclic; discriminate. Qed.

Definition missing_feasible (c : pwl_layer_acfg) (eps : Q) : Prop :=
  forall mo u, pl_missing c = Some mo -> (u < pa_units (pl_cfg c))%nat ->
    (forall lo, pa_min (pl_cfg c) = Some lo -> lo - eps <= nth u mo 0) /\
    (forall hi, pa_max (pl_cfg c) = Some hi -> nth u mo 0 <= hi + eps).

Theorem pwl_layer_exact c kernel eps : kernel <> [] -> 0 <= eps ->
  (assert_pwl_layer c kernel eps = true <->
   pwl_feasible (pl_cfg c) (pwl_keypoint_outputs (pa_units (pl_cfg c)) (pl_cyclic c) kernel) eps /\
   missing_feasible c eps).
Proof. intros Hne He. unfold assert_pwl_layer, missing_feasible. cbv zeta. rewrite andb_true_iff.
  rewrite (pwl_exact _ _ _ (keypoint_outputs_nonempty _ _ _ Hne) He).
  destruct (pl_missing c) as [mo|].
  - rewrite (pwl_exact _ [mo] eps ltac:(discriminate) He). unfold pwl_feasible. cbn [pa_units pa_min pa_max pa_clamp_min pa_clamp_max pa_mono length].
    split.
    + intros [H (H1 & H2 & _)]. split; [exact H|]. intros mo' u E Hu. injection E as <-. split.
      * intros lo El. destruct (H1 lo u El Hu) as [G _]. exact (G 0%nat ltac:(lia)).
      * intros hi Eh. destruct (H2 hi u Eh Hu) as [G _]. exact (G 0%nat ltac:(lia)).
    + intros [H Hm]. split; [exact H|]. split; [|split].
      * intros lo u El Hu. split; [|discriminate]. intros k Hk. assert (k = 0%nat) by lia. subst k.
        exact (proj1 (Hm mo u eq_refl Hu) lo El).
      * intros hi u Eh Hu. split; [|discriminate]. intros k Hk. assert (k = 0%nat) by lia. subst k.
        exact (proj2 (Hm mo u eq_refl Hu) hi Eh).
      * intros Hc. exfalso. apply Hc. reflexivity.
  - split; [intros [H _]; split; [exact H|intros mo u E; discriminate]|intros [H _]; split; [exact H|reflexivity]]. Qed.

(* ------------------------------------------------------------------ *)
(* Linear                                                               *)
(* ------------------------------------------------------------------ *)
Definition norm_spec (ord : nat) (col : list Q) (eps : Q) : Prop :=
  match ord with
  | 1%nat => qabs (qsum (map qabs col) - 1) < eps \/ qabs (qsum (map qabs col)) < norm_eps
  | _ => let s := qsum (map (fun x => x * x) col) in
         (s < (1 + eps) * (1 + eps) /\ (1 - eps < 0 \/ (1 - eps) * (1 - eps) < s)) \/ s < norm_eps * norm_eps
  end.
Lemma norm_ok_spec ord col eps : norm_ok ord col eps = true <-> norm_spec ord col eps.
Proof. unfold norm_ok, norm_spec. destruct ord as [|[|ord]]; cbv zeta;
  rewrite ?orb_true_iff, ?andb_true_iff, ?orb_true_iff, ?qlt_true; tauto. Qed.

(* the comparison of squares is the comparison of the Euclidean norm: for ANY
   r >= 0 with r * r == s (the square root tf.norm computes) *)
Lemma l2_check_meaning r s eps : 0 <= r -> r * r == s -> 0 <= eps ->
  (qabs (r - 1) < eps <-> s < (1 + eps) * (1 + eps) /\ (1 - eps < 0 \/ (1 - eps) * (1 - eps) < s)).
Proof. intros Hr Hs He. rewrite qabs_lt. split.
  - intros [H1 H2]. split.
    + nra.
    + destruct (Qlt_le_dec (1 - eps) 0) as [Hn|Hn]; [left; exact Hn|right; nra].
  - intros [H1 H2]. split.
    + destruct H2 as [H2|H2]; [lra|]. destruct (Qlt_le_dec (- eps) (r - 1)) as [G|G]; [exact G|]. exfalso. nra.
    + destruct (Qlt_le_dec (r - 1) eps) as [G|G]; [exact G|]. exfalso. nra. Qed.
Lemma l2_zero_meaning r s ne : 0 <= r -> r * r == s -> 0 < ne -> (qabs r < ne <-> s < ne * ne).
Proof. intros Hr Hs Hn. rewrite qabs_lt. split.
  - intros [H1 H2]. nra.
  - intros H. split; [lra|]. destruct (Qlt_le_dec r ne) as [G|G]; [exact G|]. exfalso. nra. Qed.

Definition lin_feasible (c : lin_acfg) (K : list (list Q)) (eps : Q) : Prop :=
  (forall i u, (i < length K)%nat -> (u < li_units c)%nat ->
     - eps <= kat K i u * inject_Z (nth i (li_monos c) 0%Z)) /\
  (forall d w u, In (d, w) (li_mdom c) -> (u < li_units c)%nat -> - eps <= kat K d u - kat K w u) /\
  (forall d w u, In (d, w) (li_rdom c) -> (u < li_units c)%nat ->
     - eps <= lin_scaling c d * kat K d u - lin_scaling c w * kat K w u) /\
  (forall ord u, li_norm c = Some ord -> (u < li_units c)%nat -> norm_spec ord (unit_col K u) eps).

Lemma any_nonzero_false ms i : any_nonzero ms = false -> nth i ms 0%Z = 0%Z.
Proof. unfold any_nonzero. intros H. destruct (Nat.ltb_spec i (length ms)) as [Hi|Hi].
  - pose proof (nth_In ms 0%Z Hi) as Hin. destruct (Z.eqb_spec (nth i ms 0%Z) 0) as [E|E]; [exact E|].
    exfalso. assert (existsb (fun m => negb (m =? 0)%Z) ms = true).
    { apply existsb_exists. exists (nth i ms 0%Z). split; [exact Hin|]. apply negb_true_iff. apply Z.eqb_neq. exact E. }
    congruence.
  - apply nth_overflow. exact Hi. Qed.

Lemma match_nil_forallb {A} (f : A -> bool) l : match l with [] => true | _ => forallb f l end = forallb f l.
Proof. destruct l; reflexivity. Qed.

Theorem lin_exact c K eps : 0 <= eps -> (assert_linear c K eps = true <-> lin_feasible c K eps).
Proof. intros He. unfold assert_linear, lin_feasible. rewrite match_nil_forallb. rewrite !andb_true_iff.
  assert (P1 : assert_lin_mono c K eps = true <->
    (forall i u, (i < length K)%nat -> (u < li_units c)%nat -> - eps <= kat K i u * inject_Z (nth i (li_monos c) 0%Z))).
  { unfold assert_lin_mono. destruct (any_nonzero (li_monos c)) eqn:E.
    - split.
      + intros H i u Hi Hu. apply (rmin_ge_inv _ _ H). apply in_flat_map. exists i. split. apply in_seq; lia.
        apply in_map_iff. exists u. split; [reflexivity|apply in_seq; lia].
      + intros H. apply rmin_ge_intro; [intros _; lra|]. intros x Hx. apply in_flat_map in Hx.
        destruct Hx as [i [Hi Hx]]. apply in_map_iff in Hx. destruct Hx as [u [<- Hu]]. apply in_seq in Hi, Hu.
        apply H; lia.
    - split; [|reflexivity]. intros _ i u _ _. rewrite (any_nonzero_false _ i E). change (inject_Z 0) with 0. lra. }
  assert (P2 : forallb (assert_lin_mdom c K eps) (li_mdom c) = true <->
    (forall d w u, In (d, w) (li_mdom c) -> (u < li_units c)%nat -> - eps <= kat K d u - kat K w u)).
  { rewrite forallb_forall. split.
    - intros H d w u Hin Hu. specialize (H (d, w) Hin). cbn in H. apply (rmin_ge_inv _ _ H).
      apply in_map_iff. exists u. split; [reflexivity|apply in_seq; lia].
    - intros H [d w] Hin. cbn. apply rmin_ge_intro; [intros _; lra|]. intros x Hx. apply in_map_iff in Hx.
      destruct Hx as [u [<- Hu]]. apply in_seq in Hu. apply (H d w u Hin). lia. }
  assert (P3 : forallb (assert_lin_rdom c K eps) (li_rdom c) = true <->
    (forall d w u, In (d, w) (li_rdom c) -> (u < li_units c)%nat ->
       - eps <= lin_scaling c d * kat K d u - lin_scaling c w * kat K w u)).
  { rewrite forallb_forall. split.
    - intros H d w u Hin Hu. specialize (H (d, w) Hin). cbn in H. apply (rmin_ge_inv _ _ H).
      apply in_map_iff. exists u. split; [reflexivity|apply in_seq; lia].
    - intros H [d w] Hin. cbn. apply rmin_ge_intro; [intros _; lra|]. intros x Hx. apply in_map_iff in Hx.
      destruct Hx as [u [<- Hu]]. apply in_seq in Hu. apply (H d w u Hin). lia. }
  assert (P4 : assert_lin_norm c K eps = true <->
    (forall ord u, li_norm c = Some ord -> (u < li_units c)%nat -> norm_spec ord (unit_col K u) eps)).
  { unfold assert_lin_norm. destruct (li_norm c) as [ord|]; [|split; [intros _ ord u E; discriminate|reflexivity]].
    rewrite forallb_forall. split.
    - intros H ord' u E Hu. injection E as <-. apply norm_ok_spec. apply H. apply in_seq; lia.
    - intros H u Hu. apply in_seq in Hu. apply norm_ok_spec. apply (H ord u eq_refl). lia. }
  rewrite P1, P2, P3, P4. tauto. Qed.

Theorem lin_sound c K eps : 0 <= eps -> ~ lin_feasible c K eps -> assert_linear c K eps = false.
Proof. intros He Hn. apply bool_false_of. intros H. apply Hn. apply lin_exact; assumption. Qed.
Theorem lin_complete c K eps : 0 <= eps -> lin_feasible c K eps -> assert_linear c K eps = true.
Proof. intros He H. apply lin_exact; assumption. Qed.

(* ------------------------------------------------------------------ *)
(* Categorical                                                          *)
(* ------------------------------------------------------------------ *)
Definition cat_feasible (c : cat_acfg) (K : list (list Q)) (eps : Q) : Prop :=
  (forall lo b u, ca_min c = Some lo -> (b < length K)%nat -> (u < ca_units c)%nat -> lo - eps <= kat K b u) /\
  (forall hi b u, ca_max c = Some hi -> (b < length K)%nat -> (u < ca_units c)%nat -> kat K b u <= hi + eps) /\
  (forall i j u, In (i, j) (ca_pairs c) -> (u < ca_units c)%nat -> kat K i u - kat K j u <= eps).

Lemma in_all_entries units K x : In x (all_entries units K) <->
  exists b u, (b < length K)%nat /\ (u < units)%nat /\ x = kat K b u.
Proof. unfold all_entries, kat, krow. rewrite in_flat_map. split.
  - intros [r [Hr Hx]]. apply in_map_iff in Hx. destruct Hx as [u [<- Hu]]. apply in_seq in Hu.
    apply (In_nth _ _ []) in Hr. destruct Hr as [b [Hb <-]]. exists b, u. split; [assumption|]. split; [lia|reflexivity].
  - intros (b & u & Hb & Hu & ->). exists (nth b K []). split; [apply nth_In; exact Hb|].
    apply in_map_iff. exists u. split; [reflexivity|apply in_seq; lia]. Qed.
Lemma all_entries_nonempty units K : K <> [] -> (1 <= units)%nat -> all_entries units K <> [].
Proof. intros HK Hu E. assert (Hin : In (kat K 0 0) (all_entries units K)).
  { apply in_all_entries. exists 0%nat, 0%nat. split; [destruct K; [congruence|cbn; lia]|]. split; [lia|reflexivity]. }
  rewrite E in Hin. destruct Hin. Qed.

Theorem cat_exact c K eps : K <> [] -> (1 <= ca_units c)%nat -> 0 <= eps ->
  (assert_categorical c K eps = true <-> cat_feasible c K eps).
Proof. intros HK Hu1 He. unfold assert_categorical, cat_feasible. rewrite !andb_true_iff.
  assert (P1 : match ca_min c with None => true | Some lo => rmin_ge (all_entries (ca_units c) K) (lo - eps) end = true <->
    (forall lo b u, ca_min c = Some lo -> (b < length K)%nat -> (u < ca_units c)%nat -> lo - eps <= kat K b u)).
  { destruct (ca_min c) as [lo|]; [|split; [intros _ lo b u E; discriminate|reflexivity]]. split.
    - intros H lo' b u E Hb Hu. injection E as <-. apply (rmin_ge_inv _ _ H). apply in_all_entries. exists b, u. auto.
    - intros H. apply rmin_ge_intro. intros E. exfalso. exact (all_entries_nonempty _ _ HK Hu1 E).
      intros x Hx. apply in_all_entries in Hx. destruct Hx as (b & u & Hb & Hu & ->). apply (H lo b u eq_refl Hb Hu). }
  assert (P2 : match ca_max c with None => true | Some hi => rmax_le (all_entries (ca_units c) K) (hi + eps) end = true <->
    (forall hi b u, ca_max c = Some hi -> (b < length K)%nat -> (u < ca_units c)%nat -> kat K b u <= hi + eps)).
  { destruct (ca_max c) as [hi|]; [|split; [intros _ hi b u E; discriminate|reflexivity]]. split.
    - intros H hi' b u E Hb Hu. injection E as <-. apply (rmax_le_inv _ _ H). apply in_all_entries. exists b, u. auto.
    - intros H. apply rmax_le_intro. intros E. exfalso. exact (all_entries_nonempty _ _ HK Hu1 E).
      intros x Hx. apply in_all_entries in Hx. destruct Hx as (b & u & Hb & Hu & ->). apply (H hi b u eq_refl Hb Hu). }
  assert (P3 : match ca_pairs c with
               | [] => true
               | _ => rmax_le (flat_map (fun ij => map (fun u => kat K (fst ij) u - kat K (snd ij) u) (seq 0 (ca_units c)))
                                        (ca_pairs c)) eps end = true <->
    (forall i j u, In (i, j) (ca_pairs c) -> (u < ca_units c)%nat -> kat K i u - kat K j u <= eps)).
  { assert (G : rmax_le (flat_map (fun ij => map (fun u => kat K (fst ij) u - kat K (snd ij) u) (seq 0 (ca_units c)))
                                  (ca_pairs c)) eps = true <->
      (forall i j u, In (i, j) (ca_pairs c) -> (u < ca_units c)%nat -> kat K i u - kat K j u <= eps)).
    { split.
      - intros H i j u Hin Hu. apply (rmax_le_inv _ _ H). apply in_flat_map. exists (i, j). split; [exact Hin|].
        apply in_map_iff. exists u. split; [reflexivity|apply in_seq; lia].
      - intros H. apply rmax_le_intro; [intros _; exact He|]. intros x Hx. apply in_flat_map in Hx.
        destruct Hx as [[i j] [Hin Hx]]. apply in_map_iff in Hx. destruct Hx as [u [<- Hu]]. apply in_seq in Hu.
        cbn [fst snd]. apply (H i j u Hin). lia. }
    destruct (ca_pairs c) as [|p ps] eqn:E; [|exact G]. split; [intros _ i j u []|reflexivity]. }
  rewrite P1, P2. revert P3. destruct (ca_pairs c); intros P3; rewrite P3; tauto. Qed.

Theorem cat_sound c K eps : K <> [] -> (1 <= ca_units c)%nat -> 0 <= eps ->
  ~ cat_feasible c K eps -> assert_categorical c K eps = false.
Proof. intros HK Hu He Hn. apply bool_false_of. intros H. apply Hn. apply cat_exact; assumption. Qed.
Theorem cat_complete c K eps : K <> [] -> (1 <= ca_units c)%nat -> 0 <= eps ->
  cat_feasible c K eps -> assert_categorical c K eps = true.
Proof. intros HK Hu He H. apply cat_exact; assumption. Qed.
(* one violated ordering pair is enough, whichever pair and unit (defect D9, fixed) *)
Corollary cat_sound_pair c K eps i j u : K <> [] -> (1 <= ca_units c)%nat -> 0 <= eps ->
  In (i, j) (ca_pairs c) -> (u < ca_units c)%nat -> eps < kat K i u - kat K j u -> assert_categorical c K eps = false.
Proof. intros HK Hu1 He Hin Hu Hv. apply cat_sound; try assumption. intros (_ & _ & H). specialize (H i j u Hin Hu). lra. Qed.

(* ------------------------------------------------------------------ *)
(* Kronecker-factored lattice                                           *)
(* ------------------------------------------------------------------ *)
Lemma qprod_nonneg {A} (g : A -> Q) ds : (forall d, In d ds -> 0 <= g d) -> 0 <= qprod (map g ds).
Proof. induction ds as [|d ds IH]; intros H; cbn [map qprod]. lra.
  apply qmul_nonneg. apply H; left; reflexivity. apply IH. intros; apply H; right; assumption. Qed.
Lemma qprod_le {A} (g h : A -> Q) ds : (forall d, In d ds -> 0 <= g d /\ g d <= h d) ->
  qprod (map g ds) <= qprod (map h ds).
Proof. induction ds as [|d ds IH]; intros H; cbn [map qprod]. lra.
  destruct (H d (or_introl eq_refl)) as [H0 H1].
  assert (IH' : qprod (map g ds) <= qprod (map h ds)) by (apply IH; intros; apply H; right; assumption).
  assert (P0 : 0 <= qprod (map g ds)) by (apply qprod_nonneg; intros d' Hd'; apply (H d'); right; assumption).
  pose proof (qmul_le_l (g d) _ _ H0 IH'). 
  pose proof (qmul_nonneg (h d - g d) (qprod (map h ds)) ltac:(lra) ltac:(lra)). lra. Qed.

(* finite choice of one maximising keypoint per dimension *)
Lemma choose_keypoints (f : nat -> nat -> Q) L : (1 <= L)%nat -> forall n,
  exists v : nat -> nat, forall d, (d < n)%nat -> (v d < L)%nat /\ qmaxl (map (f d) (seq 0 L)) = f d (v d).
Proof. intros HL. induction n as [|n [v Hv]]. exists (fun _ => 0%nat). intros d Hd; lia.
  assert (Hin : In (qmaxl (map (f n) (seq 0 L))) (map (f n) (seq 0 L))).
  { apply qmaxl_in. destruct L; [lia|discriminate]. }
  apply in_map_iff in Hin. destruct Hin as [k [Ek Hk]]. apply in_seq in Hk.
  exists (fun d => if (d =? n)%nat then k else v d). intros d Hd.
  destruct (Nat.eqb_spec d n) as [->|Hne]. split; [lia|symmetry; exact Ek]. apply Hv. lia. Qed.

Definition kfl_feasible (c : kfl_acfg) (Sc : list (list Q)) (K : tens) (eps : Q) : Prop :=
  (* sign-aware monotonicity between consecutive keypoints, every unit and term *)
  (forall d j u t, (d < Nat.min (length (k_monos c)) (k_dims c))%nat -> nth d (k_monos c) 0%Z <> 0%Z ->
     (S j < k_L c)%nat -> (u < k_units c)%nat -> (t < k_terms c)%nat ->
     - eps <= qsign (sc_at Sc u t) * K [S j; u; d; t] - qsign (sc_at Sc u t) * K [j; u; d; t]) /\
  match k_min c, k_max c with
  | None, None => True
  | Some lo, Some hi =>
    (* every term of every unit is at most 1 + eps in absolute value at EVERY lattice vertex v *)
    (forall u t (v : nat -> nat), (u < k_units c)%nat -> (t < k_terms c)%nat ->
       (forall d, (d < k_dims c)%nat -> (v d < k_L c)%nat) ->
       qprod (map (fun d => qabs (K [v d; u; d; t])) (seq 0 (k_dims c))) <= 1 + eps) /\
    (forall u t, (u < k_units c)%nat -> (t < k_terms c)%nat ->
       - ((hi - lo) * (1#2)) <= sc_at Sc u t /\ sc_at Sc u t <= (hi - lo) * (1#2))
  | Some _, None =>
    (forall i, valid (k_shape c) i -> 0 <= K i) /\
    (forall u t, (u < k_units c)%nat -> (t < k_terms c)%nat -> 0 <= sc_at Sc u t)
  | None, Some _ =>
    (forall i, valid (k_shape c) i -> 0 <= K i) /\
    (forall u t, (u < k_units c)%nat -> (t < k_terms c)%nat -> sc_at Sc u t <= 0)
  end.

Lemma in_ut {A} (f : nat -> nat -> A) units terms x :
  In x (flat_map (fun u => map (fun t => f u t) (seq 0 terms)) (seq 0 units)) <->
  exists u t, (u < units)%nat /\ (t < terms)%nat /\ x = f u t.
Proof. rewrite in_flat_map. split.
  - intros [u [Hu Hx]]. apply in_map_iff in Hx. destruct Hx as [t [<- Ht]]. apply in_seq in Hu, Ht.
    exists u, t. split; [lia|]. split; [lia|reflexivity].
  - intros (u & t & Hu & Ht & ->). exists u. split; [apply in_seq; lia|]. apply in_map_iff. exists t.
    split; [reflexivity|apply in_seq; lia]. Qed.

Lemma forallb_ut (P : Q -> bool) (f : nat -> nat -> Q) units terms :
  forallb P (flat_map (fun u => map (fun t => f u t) (seq 0 terms)) (seq 0 units)) = true <->
  forall u t, (u < units)%nat -> (t < terms)%nat -> P (f u t) = true.
Proof. rewrite forallb_forall. split.
  - intros H u t Hu Ht. apply H. apply in_ut. exists u, t. auto.
  - intros H x Hx. apply in_ut in Hx. destruct Hx as (u & t & Hu & Ht & ->). apply H; assumption. Qed.

Lemma kfl_max_product_spec c K u t eps : (1 <= k_L c)%nat ->
  (kfl_max_product c K u t <= 1 + eps <->
   forall v : nat -> nat, (forall d, (d < k_dims c)%nat -> (v d < k_L c)%nat) ->
     qprod (map (fun d => qabs (K [v d; u; d; t])) (seq 0 (k_dims c))) <= 1 + eps).
Proof. intros HL. unfold kfl_max_product. split.
  - intros H v Hv. eapply Qle_trans; [|exact H]. apply qprod_le. intros d Hd. apply in_seq in Hd. split.
    apply qabs_nonneg. apply qmaxl_ge. apply (in_map (fun k => qabs (K [k; u; d; t]))). apply in_seq. specialize (Hv d ltac:(lia)). lia.
  - intros H. destruct (choose_keypoints (fun d k => qabs (K [k; u; d; t])) (k_L c) HL (k_dims c)) as [v Hv].
    specialize (H v (fun d Hd => proj1 (Hv d Hd))).
    assert (E : map (fun d => qmaxl (map (fun k => qabs (K [k; u; d; t])) (seq 0 (k_L c)))) (seq 0 (k_dims c)) =
                map (fun d => qabs (K [v d; u; d; t])) (seq 0 (k_dims c))).
    { apply map_ext_in. intros d Hd. apply in_seq in Hd. exact (proj2 (Hv d ltac:(lia))). }
    rewrite E. exact H. Qed.

Theorem kfl_exact c Sc K eps : (1 <= k_L c)%nat -> 0 <= eps ->
  (assert_kfl c Sc K eps = true <-> kfl_feasible c Sc K eps).
Proof. intros HL He. unfold assert_kfl, kfl_feasible. rewrite andb_true_iff.
  assert (P1 : assert_kfl_mono c Sc eps K = true <->
    (forall d j u t, (d < Nat.min (length (k_monos c)) (k_dims c))%nat -> nth d (k_monos c) 0%Z <> 0%Z ->
       (S j < k_L c)%nat -> (u < k_units c)%nat -> (t < k_terms c)%nat ->
       - eps <= qsign (sc_at Sc u t) * K [S j; u; d; t] - qsign (sc_at Sc u t) * K [j; u; d; t])).
  { unfold assert_kfl_mono.
    assert (G : forallb (fun d => if (nth d (k_monos c) 0 =? 0)%Z then true else
        forallb (fun j => rmin_ge (flat_map (fun u => map (fun t =>
           qsign (sc_at Sc u t) * K [S j; u; d; t] - qsign (sc_at Sc u t) * K [j; u; d; t])
           (seq 0 (k_terms c))) (seq 0 (k_units c))) (- eps)) (seq 0 (k_L c - 1)))
        (seq 0 (Nat.min (length (k_monos c)) (k_dims c))) = true <->
      (forall d j u t, (d < Nat.min (length (k_monos c)) (k_dims c))%nat -> nth d (k_monos c) 0%Z <> 0%Z ->
         (S j < k_L c)%nat -> (u < k_units c)%nat -> (t < k_terms c)%nat ->
         - eps <= qsign (sc_at Sc u t) * K [S j; u; d; t] - qsign (sc_at Sc u t) * K [j; u; d; t])).
    { rewrite forallb_forall. split.
      - intros H d j u t Hd Hm Hj Hu Ht. specialize (H d ltac:(apply in_seq; lia)).
        destruct (Z.eqb_spec (nth d (k_monos c) 0%Z) 0) as [E|E]; [congruence|].
        rewrite forallb_forall in H. specialize (H j ltac:(apply in_seq; lia)).
        apply (rmin_ge_inv _ _ H).
        apply (in_ut (fun u t => qsign (sc_at Sc u t) * K [S j; u; d; t] - qsign (sc_at Sc u t) * K [j; u; d; t])).
        exists u, t. auto.
      - intros H d Hd. apply in_seq in Hd. destruct (Z.eqb_spec (nth d (k_monos c) 0%Z) 0) as [E|E]; [reflexivity|].
        apply forallb_forall. intros j Hj. apply in_seq in Hj. apply rmin_ge_intro; [intros _; lra|].
        intros x Hx.
        apply (in_ut (fun u t => qsign (sc_at Sc u t) * K [S j; u; d; t] - qsign (sc_at Sc u t) * K [j; u; d; t])) in Hx.
        destruct Hx as (u & t & Hu & Ht & ->). apply H; (assumption || lia). }
    destruct (k_monos c) as [|m ms] eqn:Em; [|exact G].
    split; [|reflexivity]. intros _ d j u t Hd. cbn in Hd. lia. }
  assert (Pneg : forallb (fun w => negb (qlt w 0)) (kfl_all_entries c K) = true <->
                 (forall i, valid (k_shape c) i -> 0 <= K i)).
  { unfold kfl_all_entries. rewrite forallb_forall. split.
    - intros H i Hv. specialize (H (K i) ltac:(apply in_map; apply all_idx_valid; exact Hv)).
      apply negb_true_iff in H. apply qlt_false in H. exact H.
    - intros H x Hx. apply in_map_iff in Hx. destruct Hx as [i [<- Hi]]. apply all_idx_valid in Hi.
      apply negb_true_iff. apply qlt_false. apply H; assumption. }
  unfold assert_kfl_bounds. rewrite P1.
  destruct (k_min c) as [lo|], (k_max c) as [hi|].
  - rewrite andb_true_iff. unfold kfl_all_scales. rewrite forallb_ut.
    assert (Pp : forallb (fun t => forallb (fun u => qle (- eps) (1 - kfl_max_product c K u t)) (seq 0 (k_units c)))
                   (seq 0 (k_terms c)) = true <->
      (forall u t (v : nat -> nat), (u < k_units c)%nat -> (t < k_terms c)%nat ->
         (forall d, (d < k_dims c)%nat -> (v d < k_L c)%nat) ->
         qprod (map (fun d => qabs (K [v d; u; d; t])) (seq 0 (k_dims c))) <= 1 + eps)).
    { rewrite forallb_forall. split.
      - intros H u t v Hu Ht Hv. specialize (H t ltac:(apply in_seq; lia)). rewrite forallb_forall in H.
        specialize (H u ltac:(apply in_seq; lia)). apply qle_true in H.
        apply (kfl_max_product_spec c K u t eps HL); [lra|exact Hv].
      - intros H t Ht. apply in_seq in Ht. apply forallb_forall. intros u Hu. apply in_seq in Hu. apply qle_true.
        assert (kfl_max_product c K u t <= 1 + eps).
        { apply (kfl_max_product_spec c K u t eps HL). intros v Hv. apply H; (assumption || lia). }
        lra. }
    rewrite Pp. split.
    + intros [Hm [Hp Hs]]. split; [exact Hm|]. split; [exact Hp|]. intros u t Hu Ht. specialize (Hs u t Hu Ht).
      apply andb_prop in Hs. destruct Hs as [H1 H2]. apply negb_true_iff in H1, H2. apply qlt_false in H1, H2. split; lra.
    + intros [Hm [Hp Hs]]. split; [exact Hm|]. split; [exact Hp|]. intros u t Hu Ht. destruct (Hs u t Hu Ht) as [H1 H2].
      apply andb_true_intro. split; apply negb_true_iff; apply qlt_false; lra.
  - rewrite andb_true_iff, Pneg. unfold kfl_all_scales. rewrite forallb_ut. split.
    + intros [Hm [Hn Hs]]. split; [exact Hm|]. split; [exact Hn|]. intros u t Hu Ht. specialize (Hs u t Hu Ht).
      apply negb_true_iff in Hs. apply qlt_false in Hs. exact Hs.
    + intros [Hm [Hn Hs]]. split; [exact Hm|]. split; [exact Hn|]. intros u t Hu Ht.
      apply negb_true_iff. apply qlt_false. apply Hs; assumption.
  - rewrite andb_true_iff, Pneg. unfold kfl_all_scales. rewrite forallb_ut. split.
    + intros [Hm [Hn Hs]]. split; [exact Hm|]. split; [exact Hn|]. intros u t Hu Ht. specialize (Hs u t Hu Ht).
      apply negb_true_iff in Hs. apply qlt_false in Hs. exact Hs.
    + intros [Hm [Hn Hs]]. split; [exact Hm|]. split; [exact Hn|]. intros u t Hu Ht.
      apply negb_true_iff. apply qlt_false. apply Hs; assumption.
  - split; [intros [Hm _]; split; [exact Hm|exact I]|intros [Hm _]; split; [exact Hm|reflexivity]]. Qed.

Theorem kfl_sound c Sc K eps : (1 <= k_L c)%nat -> 0 <= eps -> ~ kfl_feasible c Sc K eps -> assert_kfl c Sc K eps = false.
Proof. intros HL He Hn. apply bool_false_of. intros H. apply Hn. apply kfl_exact; assumption. Qed.
Theorem kfl_complete c Sc K eps : (1 <= k_L c)%nat -> 0 <= eps -> kfl_feasible c Sc K eps -> assert_kfl c Sc K eps = true.
Proof. intros HL He H. apply kfl_exact; assumption. Qed.

(* ------------------------------------------------------------------ *)
(* Link with the C01 vocabulary (Proofs/LatticeSpec.v): with eps = 0 the *)
(* Lattice assert accepts exactly the kernels that are [feasible_kernel] *)
(* ------------------------------------------------------------------ *)
Definition la_of (c : lat_cfg) : la_cfg :=
  mkLA (l_sizes c) (l_units c) (l_monos c) (l_edge c) (l_trap c) [] [] [] (l_min c) (l_max c).

Lemma la_of_ok c : cfg_valid c -> la_ok (la_of c).
Proof. intros Hc. pose proof Hc as (Hs & Hu & Hl & Hm & Hok & Hmc & _). unfold la_ok. cbn [la_of a_shape a_sizes a_units a_monos a_edge a_trap a_mdom a_rdom a_jmono].
  split; [|split; [|split]].
  - intros s Hin. apply in_app_iff in Hin. destruct Hin as [Hin|[<-|[]]]. specialize (Hs s Hin). lia. exact Hu.
  - lia.
  - intros m cd dir Hin. destruct (cfg_trust_dims c m cd dir Hc Hin) as (_ & _ & Hne & Hdir). split; assumption.
  - intros p q []. Qed.

Theorem assert_zero_iff_feasible c f : cfg_valid c ->
  (assert_lattice (la_of c) f 0 = true <-> feasible_kernel c f).
Proof. intros Hc. pose proof (la_of_ok c Hc) as Hok. pose proof Hc as (_ & _ & Hl & Hm & _).
  rewrite (lattice_exact (la_of c) f 0 Hok ltac:(lra)). split.
  - intros H. unfold feasible_kernel. split; [|split; [|split; [|split]]].
    + intros d Hd. apply mono_dims_spec in Hd. destruct Hd as [Hdl Hne]. intros i Hv Hs.
      assert (E : nth d (l_monos c) 0%Z = 1%Z).
      { destruct (Hm (nth d (l_monos c) 0%Z) (nth_In _ _ Hdl)) as [E|E]; [congruence|exact E]. }
      pose proof (H (IMono d i) (conj Hdl (conj E (conj Hv Hs)))) as G. cbn [slack] in G. lra.
    + intros [[m cd] dir] Hin b i j Hv Hi Hj.
      pose proof (H (IEdge (m, cd, dir) b i j) (conj Hin (conj Hv (conj Hi Hj)))) as G. cbn [slack] in G.
      unfold tsign in G. destruct (0 <? dir)%Z; lra.
    + intros [[m cd] dir] Hin b j Hv Hj. cbv zeta.
      pose proof (H (ITrapL (m, cd, dir) b j) (conj Hin (conj Hv Hj))) as G1.
      pose proof (H (ITrapR (m, cd, dir) b j) (conj Hin (conj Hv Hj))) as G2. cbn [slack] in G1, G2. cbv zeta in G2.
      unfold tsign in G1, G2. change (a_shape (la_of c)) with (l_shape c) in G2. destruct (0 <? dir)%Z; split; lra.
    + unfold lower_ok. destruct (l_min c) as [lo|] eqn:E; [|exact I]. intros i Hv.
      assert (Hcv : covered (la_of c) (ILower i)) by (cbn [covered la_of a_min]; split; [rewrite E; discriminate|exact Hv]).
      pose proof (H _ Hcv) as G. cbn [slack la_of a_min] in G. rewrite E in G. lra.
    + unfold upper_ok. destruct (l_max c) as [hi|] eqn:E; [|exact I]. intros i Hv.
      assert (Hcv : covered (la_of c) (IUpper i)) by (cbn [covered la_of a_max]; split; [rewrite E; discriminate|exact Hv]).
      pose proof (H _ Hcv) as G. cbn [slack la_of a_max] in G. rewrite E in G. lra.
  - intros (Hmo & Hed & Htp & Hlo & Hup) q Hq.
    destruct q as [d x|t b i j|t b j|t b j|pq b i j|pq b i j|pq b i j|pq b i j|pq b i j|x|x]; cbn [covered la_of a_mdom a_rdom a_jmono] in Hq;
      [| | | |destruct Hq as [[] _]|destruct Hq as [[] _]|destruct Hq as [[] _]|destruct Hq as [[] _]|destruct Hq as [[] _]| |].
    + destruct Hq as (Hd & E & Hv & Hs). cbn [slack].
      assert (Hin : In d (mono_dims (l_monos c))) by (apply mono_dims_spec; split; [exact Hd|cbn [la_of a_monos] in E; rewrite E; discriminate]).
      pose proof (Hmo d Hin x Hv Hs). lra.
    + destruct t as [[m cd] dir]. destruct Hq as (Hin & Hv & Hi & Hj). cbn [fst snd] in *.
      pose proof (Hed _ Hin b i j Hv Hi Hj) as G. cbn [slack]. unfold tsign. destruct (0 <? dir)%Z; lra.
    + destruct t as [[m cd] dir]. destruct Hq as (Hin & Hv & Hj). cbn [fst snd] in *.
      pose proof (Htp _ Hin b j Hv Hj) as G. cbv zeta in G. cbn [slack]. unfold tsign. destruct (0 <? dir)%Z; lra.
    + destruct t as [[m cd] dir]. destruct Hq as (Hin & Hv & Hj). cbn [fst snd] in *.
      pose proof (Htp _ Hin b j Hv Hj) as G. cbv zeta in G. cbn [slack]. cbv zeta. change (a_shape (la_of c)) with (l_shape c).
      unfold tsign. destruct (0 <? dir)%Z; lra.
    + destruct Hq as [Hn Hv]. cbn [slack la_of a_min] in *. unfold lower_ok in Hlo. destruct (l_min c) as [lo|]; [|lra].
      specialize (Hlo x Hv). lra.
    + destruct Hq as [Hn Hv]. cbn [slack la_of a_max] in *. unfold upper_ok in Hup. destruct (l_max c) as [hi|]; [|lra].
      specialize (Hup x Hv). lra. Qed.

(* ... and therefore (eps >= 0 only relaxes) every C01-feasible kernel passes the assert *)
Theorem assert_accepts_feasible c f eps : cfg_valid c -> feasible_kernel c f -> 0 <= eps ->
  assert_lattice (la_of c) f eps = true.
Proof. intros Hc Hf He. pose proof (la_of_ok c Hc) as Hok. apply lattice_complete; [assumption|assumption|].
  intros q Hq. apply (assert_zero_iff_feasible c f Hc) in Hf. rewrite (lattice_exact (la_of c) f 0 Hok ltac:(lra)) in Hf.
  specialize (Hf q Hq). lra. Qed.

(* ------------------------------------------------------------------ *)
(* Examples: the hypotheses of every implication are satisfiable        *)
(* ------------------------------------------------------------------ *)
(* 2x2 lattice, 2 units, dim 0 monotone, Edgeworth (0,1,+), trapezoid (0,1,+), monotonic dominance is impossible
   with one monotone dim, joint monotonicity (0,1), bounds [0,4] *)
Definition ex_la : la_cfg := mkLA [2%nat; 2%nat] 2 [1%Z; 0%Z] [(0%nat, 1%nat, 1%Z)] [(0%nat, 1%nat, 1%Z)] [] [] [(0%nat, 1%nat)] (Some 0) (Some 4).
Definition ex_la2 : la_cfg := mkLA [2%nat; 3%nat] 1 [1%Z; 1%Z] [] [] [(0%nat, 1%nat)] [(0%nat, 1%nat)] [] None None.
(* flat kernels [vertex][unit], row-major: vertices (0,0),(0,1),(1,0),(1,1) *)
Definition ex_w_ok : list Q := [1; 1;  1; 1;  2; 2;  3; 3].
Definition ex_w_bad : list Q := [1; 1;  1; 1;  2; 2;  3; 1].   (* unit 1: Edgeworth square violated by 1 *)
Example ex_la_ok : la_ok ex_la.
Proof. split; [|split; [|split]].
  - intros s Hs; cbn in Hs; destruct Hs as [<-|[<-|[<-|[]]]]; lia.
  - cbn. lia.
  - intros m cd dir Hin; cbn in Hin; destruct Hin as [E|[E|[]]]; injection E as <- <- <-; (split; [discriminate|left; reflexivity]).
  - intros p q Hin; cbn in Hin; destruct Hin as [E|[]]. injection E as <- <-. discriminate. Qed.
Example ex_la2_ok : la_ok ex_la2.
Proof. split; [|split; [|split]].
  - intros s Hs; cbn in Hs; destruct Hs as [<-|[<-|[<-|[]]]]; lia.
  - cbn. lia.
  - intros m cd dir Hin; cbn in Hin; destruct Hin.
  - intros p q Hin; cbn in Hin; destruct Hin as [E|[E|[]]]; injection E as <- <-; discriminate. Qed.
Example ex_lattice_complete_hyps :
  la_ok ex_la /\ 0 <= (1#100) /\ forall q, covered ex_la q -> - (1#100) <= slack ex_la (of_list (a_shape ex_la) ex_w_ok) q.
Proof. split; [exact ex_la_ok|]. split; [lra|]. apply assert_lattice_inv. exact ex_la_ok. vm_compute. reflexivity. Qed.
Example ex_lattice_sound_hyps :
  la_ok ex_la /\ covered ex_la (IEdge (0%nat, 1%nat, 1%Z) [0%nat; 0%nat; 1%nat] 0 0) /\
  slack ex_la (of_list (a_shape ex_la) ex_w_bad) (IEdge (0%nat, 1%nat, 1%Z) [0%nat; 0%nat; 1%nat] 0 0) < - (1#100) /\
  assert_lattice_flat ex_la ex_w_bad (1#100) = false /\ assert_lattice_flat ex_la ex_w_ok (1#100) = true.
Proof. split; [exact ex_la_ok|]. split.
  - cbn. split; [left; reflexivity|]. split; [repeat constructor|]. split; lia.
  - split; [vm_compute; reflexivity|]. split; vm_compute; reflexivity. Qed.
Example ex_lattice_dominance :
  assert_lattice_flat ex_la2 [0; 0; 1; 2; 3; 3] 0 = true /\      (* dominant dim 0 steeper and wider than dim 1 *)
  assert_lattice_flat ex_la2 [0; 2; 4; 1; 3; 5] 0 = false.       (* weak dim steeper *)
Proof. split; vm_compute; reflexivity. Qed.

Definition ex_lat_cfg : lat_cfg := mkLat [2%nat; 2%nat] 1 [1%Z; 0%Z] [(0%nat, 1%nat, 1%Z)] [] (Some 0) None.
Example ex_lat_cfg_valid : cfg_valid ex_lat_cfg.
Proof. unfold cfg_valid, all_trusts. cbn [ex_lat_cfg l_sizes l_units l_monos l_edge l_trap l_min l_max app].
  split. intros s [<-|[<-|[]]]; lia. split. lia. split. reflexivity. split.
  intros m [<-|[<-|[]]]; auto. split.
  intros t [<-|[]]. cbn. repeat split; auto; lia. split.
  intros t1 t2 [<-|[]] [<-|[]]. cbn. discriminate. split.
  intros t1 t2 [<-|[]] [<-|[]] _. reflexivity. exact I. Qed.
Example ex_feasible_kernel : feasible_kernel ex_lat_cfg (of_list (l_shape ex_lat_cfg) [1; 1; 2; 3]).
Proof. apply (assert_zero_iff_feasible ex_lat_cfg _ ex_lat_cfg_valid). vm_compute. reflexivity. Qed.

(* PWL: 3 keypoints, 2 units, increasing, bounds [0, 2] clamped below *)
Definition ex_pa : pwl_acfg := mkPA 2 1 (Some 0) (Some 2) true false.
Example ex_pwl_complete_hyps : [[0; 0]; [1; (1#2)]; [2; 1]] <> [] /\ 0 <= (1#100) /\ pwl_feasible ex_pa [[0; 0]; [1; (1#2)]; [2; 1]] (1#100).
Proof. split; [discriminate|]. split; [lra|]. apply pwl_exact; [discriminate|lra|]. vm_compute. reflexivity. Qed.
Example ex_pwl_sound_hyps : (* unit 1 does not reach output_min although unit 0 does *)
  pa_min ex_pa = Some 0 /\ pa_clamp_min ex_pa = true /\ (1 < pa_units ex_pa)%nat /\
  (forall k, (k < 3)%nat -> 0 + (1#100) < out_at [[0; (1#2)]; [1; 1]; [2; 2]] k 1) /\
  assert_pwl_outputs ex_pa [[0; (1#2)]; [1; 1]; [2; 2]] (1#100) = false.
Proof. split; [reflexivity|]. split; [reflexivity|]. split; [cbn; lia|]. split.
  - intros k Hk. destruct k as [|[|[|k]]]; try lia; vm_compute; reflexivity.
  - vm_compute. reflexivity. Qed.
Example ex_pwl_layer : (* kernel = bias row + heights; the outputs are the prefix sums *)
  assert_pwl_layer (mkPL ex_pa false (Some [1; (5#2)])) [[0; 0]; [1; (1#2)]; [1; (1#2)]] (1#100) = false /\  (* missing output 5/2 > 2 *)
  assert_pwl_layer (mkPL ex_pa false (Some [1; 2])) [[0; 0]; [1; (1#2)]; [1; (1#2)]] (1#100) = true.
Proof. split; vm_compute; reflexivity. Qed.

(* Linear: 3 inputs, 2 units; monotone +,-,0; 0 dominates... *)
Definition ex_lin : lin_acfg := mkLinA 2 [1%Z; 1%Z; 0%Z] [(0%nat, 1%nat)] [(0%nat, 1%nat)] [Some 0; Some 0; None] [Some 2; Some 1; None] (Some 1%nat).
Example ex_lin_complete_hyps : 0 <= (1#1000) /\ lin_feasible ex_lin [[(1#2); (1#2)]; [(1#4); (1#2)]; [(1#4); 0]] (1#1000).
Proof. split; [lra|]. apply lin_exact; [lra|]. vm_compute. reflexivity. Qed.
Example ex_lin_sound : (* unit 1 has L1 norm 3/2 *)
  assert_linear ex_lin [[(1#2); (1#2)]; [(1#4); (1#2)]; [(1#4); (1#2)]] (1#1000) = false /\
  ~ lin_feasible ex_lin [[(1#2); (1#2)]; [(1#4); (1#2)]; [(1#4); (1#2)]] (1#1000).
Proof. assert (E : assert_linear ex_lin [[(1#2); (1#2)]; [(1#4); (1#2)]; [(1#4); (1#2)]] (1#1000) = false) by (vm_compute; reflexivity).
  split; [exact E|]. intros H. apply (lin_exact ex_lin _ (1#1000) ltac:(lra)) in H. congruence. Qed.
Example ex_l2_meaning : 0 <= (3#5) + (2#5) /\ ((3#5) + (2#5)) * ((3#5) + (2#5)) == 1 /\ 0 <= (1#10).
Proof. split; [lra|]. split; [reflexivity|lra]. Qed.

(* Categorical: defect D9's witness: pair (0,1) in order, pair (1,2) violated *)
Definition ex_cat : cat_acfg := mkCatA 1 None None [(0%nat, 1%nat); (1%nat, 2%nat)].
Example ex_cat_sound_hyps : [[0]; [2]; [1]] <> [] /\ (1 <= ca_units ex_cat)%nat /\ 0 <= (1#1000000) /\
  In (1%nat, 2%nat) (ca_pairs ex_cat) /\ (0 < ca_units ex_cat)%nat /\ (1#1000000) < kat [[0]; [2]; [1]] 1 0 - kat [[0]; [2]; [1]] 2 0.
Proof. split; [discriminate|]. split; [cbn; lia|]. split; [lra|]. split; [right; left; reflexivity|]. split; [cbn; lia|].
  vm_compute. reflexivity. Qed.
Example ex_cat_complete_hyps : cat_feasible ex_cat [[0]; [1]; [2]] (1#1000000).
Proof. apply cat_exact; [discriminate|cbn; lia|lra|]. vm_compute. reflexivity. Qed.

(* KFL: L = 2, 1 unit, 2 dims, 2 terms (scales +1, -1), both dims monotone, bounds [0, 2] *)
Definition ex_kfl : kfl_acfg := mkKA 2 1 2 2 [1%Z; 1%Z] (Some 0) (Some 2).
(* flat kernel [k][d][t] *)
Example ex_kfl_complete_hyps : (1 <= k_L ex_kfl)%nat /\ 0 <= (1#100) /\
  kfl_feasible ex_kfl [[1; - (1)]] (of_list (k_shape ex_kfl) [0; 1;  (1#2); 1;   1; 0;  1; (1#2)]) (1#100).
Proof. split; [cbn; lia|]. split; [lra|]. apply kfl_exact; [cbn; lia|lra|]. vm_compute. reflexivity. Qed.
Example ex_kfl_sound : (* term 1 has a negative scale, so its weights must DEcrease: increasing ones fail *)
  assert_kfl_flat ex_kfl [[1; - (1)]] [0; 0;  (1#2); (1#2);   1; 1;  1; 1] (1#100) = false /\
  (* product of the per-dimension maxima 2 * 1 > 1 *)
  assert_kfl_flat ex_kfl [[1; - (1)]] [0; 1;  (1#2); 1;   2; 0;  1; (1#2)] (1#100) = false /\
  (* scale outside +-(max - min)/2 = +-1, no eps *)
  assert_kfl_flat ex_kfl [[1; - (201#200)]] [0; 1;  (1#2); 1;   1; 0;  1; (1#2)] (1#100) = false.
Proof. repeat split; vm_compute; reflexivity. Qed.
