(* Lemmas about the assert_constraints models of Model/Asserts.v (property C12). *)
From TFL Require Export Model.Asserts Proofs.LatticeSpecFacts.
Open Scope Q_scope.

Lemma assert_rtl_iff layers eps :
  assert_rtl layers eps = true <-> forall c w, In (c, w) layers -> assert_lattice_flat c w eps = true.
Proof. unfold assert_rtl. rewrite forallb_forall. split.
  - intros H c w Hin. apply (H (c, w) Hin).
  - intros H [c w] Hin. apply H; assumption. Qed.
