(* The PWL calibrator's Dykstra loop (Model/PWLProject.v, dyk_body / dyk_iter:
   pwl_calibration_lib.project_all_constraints) for monotonicity +1 / -1 with
   bounds and no convexity, connected to the abstract theory of
   Proofs/DykstraTheory.v / Proofs/DykstraBound.v.

   Weight vectors  w = bias :: heights  (n heights, n >= 1) are functions on the
   index list  pI n = [0; 1; ...; n]  (vof l i = nth i l 0) with the standard
   inner product  ip (pI n).

   1. [mono_is_proj]    _project_monotonicity is the nearest-point map onto
                        CM = { heights of the configured sign }.
   2. [bounds_is_proj]  _project_bounds_considering_monotonicity is the
                        nearest-point map onto
                        CB = { omin (<=|==) bias  /\  bias + sum heights (<=|==) omax }
                        (increasing; for decreasing  bias (<=|==) omax /\ omin (<=|==)
                        bias + sum heights), for EVERY input and all nine
                        combinations NONE / BOUND / CLAMPED (the scalar core is
                        [bmi_scalar_vi]).
   3. [body_asweep]     one iteration of body() is one abstract sweep [asweep]
                        over the two slots (CB, PB, last BOUNDS change) and
                        (CM, PM, last MONOTONICITY change), pointwise up to ==;
                        [sim_iter]: k iterations = [aloop k].
      [pwl_fixpoint_nearest], [pwl_never_farther], [pwl_moves_summable],
      [pwl_stalls], [pwl_stalled_reproduces], [pwl_stalled_nearest],
      [pwl_converged_result]: the abstract theorems for the model, in terms of
      weight lists and wd2 (squared distance of lists).
   4. [feasible_iff_sets], [feasible_iff_vec]  CM /\ CB  is exactly  feasible  of
                        Proofs/PWLProject.v (all keypoint outputs within the bounds).
   NOT proved: existence of the limit of the iterates (see Proofs/DykstraBound.v). *)
From TFL Require Import Model.PWLProject Proofs.PWLProject.
From TFL Require Export Proofs.DykstraBound.
Open Scope Q_scope.

(* ------------------------------------------------------------------ *)
(* 1. Scalar core of _project_bounds_considering_monotonicity          *)
(* ------------------------------------------------------------------ *)

Definition lo_ok (cmin : bct) (omin b : Q) : Prop :=
  match cmin with BNone => True | BBound => omin <= b | BClamped => b == omin end.
Definition hi_ok (cmax : bct) (omax t : Q) : Prop :=
  match cmax with BNone => True | BBound => t <= omax | BClamped => t == omax end.

(* new bias and the common shift of the heights, as computed by the code
   (N = number of heights, s = their sum) *)
Definition bmi_out (N b s omin omax : Q) (cmin cmax : bct) : Q * Q :=
  match cmax with
  | BNone => (match cmin with BClamped => omin | BBound => qmax b omin | BNone => b end, 0)
  | _ =>
      let clamped_max := bct_eqb cmax BClamped in
      let '(b', hd) :=
        match cmin with
        | BClamped => (omin, (omax - (omin + s)) / N)
        | BBound =>
            let bd := (omax - (b + s)) / (N + 1) in
            let bd := if clamped_max then bd else qmin bd 0 in
            let b' := qmax (b + bd) omin in
            (b', (omax - (b' + s)) / N)
        | BNone =>
            let bd := (omax - (b + s)) / (N + 1) in
            let hd := bd in
            let bd := if clamped_max then bd else qmin bd 0 in
            (b + bd, hd)
        end in
      (b', if clamped_max then hd else qmin hd 0)
  end.

Lemma bmi_shape b h omin omax cmin cmax :
  let o := bmi_out (qn (length h)) b (qsum h) omin omax cmin cmax in
  fst (bounds_mono_inc b h omin omax cmin cmax) == fst o /\
  qleq (snd (bounds_mono_inc b h omin omax cmin cmax)) (map (fun x => x + snd o) h).
Proof. cbv zeta. unfold bounds_mono_inc, bmi_out.
  assert (Z : qleq h (map (fun x => x + 0) h)).
  { apply qleq_sym. apply qleq_map_id. intros; lra. }
  assert (S : forall d, qleq (map (fun x => Qred (x + d)) h) (map (fun x => x + d) h)).
  { intros d. apply qleq_map. intros x _. apply Qred_correct. }
  destruct cmax; destruct cmin; cbn [bct_eqb fst snd]; cbv beta iota zeta; cbn [fst snd];
    rewrite ?Qred_correct; (split; [reflexivity|]); auto. Qed.

Lemma bmi_scalar_vi N b s omin omax cmin cmax : 0 < N ->
  let bq := fst (bmi_out N b s omin omax cmin cmax) in
  let hd := snd (bmi_out N b s omin omax cmin cmax) in
  lo_ok cmin omin bq /\ hi_ok cmax omax (bq + (s + N * hd)) /\
  forall cb cs, lo_ok cmin omin cb -> hi_ok cmax omax (cb + cs) ->
    (b - bq) * (cb - bq) + (- hd) * (cs - (s + N * hd)) <= 0.
Proof. intros HN. cbv zeta. unfold bmi_out.
  pose proof (qdiv_mul (N + 1) (omax - (b + s)) ltac:(lra)) as D1.
  set (bd0 := (omax - (b + s)) / (N + 1)) in *.
  destruct cmax; destruct cmin; cbn [bct_eqb fst snd lo_ok hi_ok]; cbv beta iota zeta; cbn [fst snd].
  - split; [exact I|]. split; [exact I|]. intros cb cs _ _. nra.
  - split; [apply qmax_r|]. split; [exact I|]. intros cb cs Hc _. qcases; nra.
  - split; [reflexivity|]. split; [exact I|]. intros cb cs Hc _. nra.
  - split; [exact I|]. split.
    + qcases; nra.
    + intros cb cs _ Hc. qcases; nra.
  - set (bq := qmax (b + qmin bd0 0) omin).
    pose proof (qdiv_mul N (omax - (bq + s)) HN) as D2.
    set (hd0 := (omax - (bq + s)) / N) in *.
    split; [apply qmax_r|]. split.
    + qcases; nra.
    + intros cb cs Hc1 Hc2. subst bq. revert D2. qcases; intros D2.
      all: try nra.
      * assert (K1 : (N + 1) * (b + bd0 - omin) <= 0) by nra.
        assert (K2 : N * (b - omin + hd0) <= 0) by nra.
        assert (K3 : b - omin + hd0 <= 0) by nra.
        assert (K4 : 0 <= - hd0 * (omin - cb - (cs - (s + N * hd0)))) by nra.
        nra.
      * assert (K : hd0 == bd0) by (apply (qmul_cancel_eq N); [assumption|nra]).
        rewrite K. nra.
  - pose proof (qdiv_mul N (omax - (omin + s)) HN) as D2.
    set (hd0 := (omax - (omin + s)) / N) in *.
    split; [reflexivity|]. split.
    + qcases; nra.
    + intros cb cs Hc1 Hc2. qcases; nra.
  - split; [exact I|]. split.
    + nra.
    + intros cb cs _ Hc. nra.
  - set (bq := qmax (b + bd0) omin).
    pose proof (qdiv_mul N (omax - (bq + s)) HN) as D2.
    set (hd0 := (omax - (bq + s)) / N) in *.
    split; [apply qmax_r|]. split.
    + nra.
    + intros cb cs Hc1 Hc2. subst bq. revert D2. qcases; intros D2.
      * assert (K1 : (N + 1) * (b + bd0 - omin) <= 0) by nra.
        assert (K2 : N * (b - omin + hd0) <= 0) by nra.
        assert (K3 : b - omin + hd0 <= 0) by nra.
        assert (K4 : cs - (s + N * hd0) == omin - cb) by lra.
        rewrite K4. nra.
      * assert (K : hd0 == bd0) by (apply (qmul_cancel_eq N); [assumption|nra]).
        rewrite K. nra.
  - pose proof (qdiv_mul N (omax - (omin + s)) HN) as D2.
    set (hd0 := (omax - (omin + s)) / N) in *.
    split; [reflexivity|]. split.
    + nra.
    + intros cb cs Hc1 Hc2.
      assert (K1 : cb - omin == 0) by lra. assert (K2 : cs - (s + N * hd0) == 0) by lra.
      rewrite K1, K2. lra.
Qed.

(* the decreasing case is the increasing one in negated coordinates *)
Definition bounds_set (m : Z) (omin omax : Q) (cmin cmax : bct) (b s : Q) : Prop :=
  if (m =? -1)%Z then hi_ok cmax omax b /\ lo_ok cmin omin (b + s)
  else lo_ok cmin omin b /\ hi_ok cmax omax (b + s).

Lemma lo_ok_proper k lo x y : x == y -> lo_ok k lo x -> lo_ok k lo y.
Proof. intros E. destruct k; cbn; auto; rewrite E; auto. Qed.
Lemma hi_ok_proper k hi x y : x == y -> hi_ok k hi x -> hi_ok k hi y.
Proof. intros E. destruct k; cbn; auto; rewrite E; auto. Qed.
Lemma bounds_set_proper m omin omax cmin cmax b s b' s' : b == b' -> s == s' ->
  bounds_set m omin omax cmin cmax b s -> bounds_set m omin omax cmin cmax b' s'.
Proof. intros Eb Es. unfold bounds_set. destruct (m =? -1)%Z; intros [H1 H2]; split.
  - eapply hi_ok_proper; [exact Eb|exact H1].
  - eapply lo_ok_proper; [|exact H2]. rewrite Eb, Es. reflexivity.
  - eapply lo_ok_proper; [exact Eb|exact H1].
  - eapply hi_ok_proper; [|exact H2]. rewrite Eb, Es. reflexivity. Qed.
Lemma lo_neg k hi x : lo_ok k (- hi) (- x) <-> hi_ok k hi x.
Proof. destruct k; cbn; split; intros; auto; lra. Qed.
Lemma hi_neg k lo x : hi_ok k (- lo) (- x) <-> lo_ok k lo x.
Proof. destruct k; cbn; split; intros; auto; lra. Qed.

Lemma qleq_map2 (f g : Q -> Q) a b : (forall x y, x == y -> f x == g y) -> qleq a b -> qleq (map f a) (map g b).
Proof. intros H. induction 1; cbn [map]; constructor; auto. Qed.

(* what _project_bounds_considering_monotonicity returns, both directions:
   new bias bq, all heights shifted by hd, the result is in the set and satisfies
   the variational inequality in the coordinates (bias, sum of heights) *)
Lemma bm_spec m b h omin omax cmin cmax : (1 <= length h)%nat ->
  exists bq hd,
    fst (bounds_mono m b h omin omax cmin cmax) == bq /\
    qleq (snd (bounds_mono m b h omin omax cmin cmax)) (map (fun x => x + hd) h) /\
    bounds_set m omin omax cmin cmax bq (qsum h + qn (length h) * hd) /\
    forall cb cs, bounds_set m omin omax cmin cmax cb cs ->
      (b - bq) * (cb - bq) + (- hd) * (cs - (qsum h + qn (length h) * hd)) <= 0.
Proof. intros Hn. pose proof (qn_pos _ Hn) as HN. unfold bounds_mono, bounds_set.
  destruct (m =? -1)%Z.
  - pose proof (bmi_shape (- b) (qneg_list h) (- omax) (- omin) cmax cmin) as [E1 E2]. cbv zeta in E1, E2.
    rewrite qneg_list_length in E1, E2.
    pose proof (bmi_scalar_vi (qn (length h)) (- b) (qsum (qneg_list h)) (- omax) (- omin) cmax cmin HN) as V.
    cbv zeta in V.
    destruct (bmi_out (qn (length h)) (- b) (qsum (qneg_list h)) (- omax) (- omin) cmax cmin) as [bq hd].
    destruct (bounds_mono_inc (- b) (qneg_list h) (- omax) (- omin) cmax cmin) as [b1 h1].
    cbn [fst snd] in *. destruct V as (V1 & V2 & V3). pose proof (qsum_qneg h) as Es.
    exists (- bq), (- hd). split; [rewrite E1; reflexivity|]. split.
    + eapply qleq_trans. apply qneg_qleq. exact E2. unfold qneg_list. rewrite !map_map.
      apply qleq_map. intros x _. ring.
    + split.
      * split. apply lo_neg. eapply lo_ok_proper; [|exact V1]. ring.
        apply hi_neg. eapply hi_ok_proper; [|exact V2]. rewrite Es. ring.
      * intros cb cs [C1 C2]. specialize (V3 (- cb) (- cs)).
        assert (G : (- b - bq) * (- cb - bq) + - hd * (- cs - (qsum (qneg_list h) + qn (length h) * hd)) <= 0).
        { apply V3. apply lo_neg. exact C1.
          eapply hi_ok_proper; [|apply hi_neg; exact C2]. ring. }
        rewrite Es in G.
        assert (E : (b - - bq) * (cb - - bq) + - - hd * (cs - (qsum h + qn (length h) * - hd)) ==
                    (- b - bq) * (- cb - bq) + - hd * (- cs - (- qsum h + qn (length h) * hd))) by ring.
        rewrite E. exact G.
  - pose proof (bmi_shape b h omin omax cmin cmax) as [E1 E2]. cbv zeta in E1, E2.
    pose proof (bmi_scalar_vi (qn (length h)) b (qsum h) omin omax cmin cmax HN) as V. cbv zeta in V.
    destruct (bmi_out (qn (length h)) b (qsum h) omin omax cmin cmax) as [bq hd]. cbn [fst snd] in *.
    destruct V as (V1 & V2 & V3).
    exists bq, hd. split; [exact E1|]. split; [exact E2|]. split.
    + split; [exact V1|]. eapply hi_ok_proper; [|exact V2]. reflexivity.
    + intros cb cs [C1 C2]. apply V3; assumption. Qed.

(* ------------------------------------------------------------------ *)
(* 2. Weight vectors as functions on pI n = [0 .. n]                    *)
(* ------------------------------------------------------------------ *)

Definition pI (n : nat) : list nat := seq 0 (S n).
Definition vof (l : list Q) : nat -> Q := fun i => nth i l 0.
(* the heights part of a vector *)
Definition hts (n : nat) (f : nat -> Q) : list Q := map (fun i => f (S i)) (seq 0 n).

Lemma hts_length n f : length (hts n f) = n.
Proof. unfold hts. rewrite map_length, seq_length. reflexivity. Qed.
Lemma nth_hts n f i : (i < n)%nat -> nth i (hts n f) 0 = f (S i).
Proof. intros Hi. unfold hts. rewrite (nth_map_gen (fun i => f (S i)) (seq 0 n) i 0%nat 0) by (rewrite seq_length; exact Hi).
  rewrite seq_nth by exact Hi. reflexivity. Qed.
Lemma hts_vof n b h : length h = n -> hts n (vof (b :: h)) = h.
Proof. intros HL. apply (nth_ext _ _ 0 0). rewrite hts_length; auto.
  rewrite hts_length. intros i Hi. rewrite nth_hts by exact Hi. reflexivity. Qed.
Lemma pI_split n : pI n = 0%nat :: map S (seq 0 n).
Proof. unfold pI. cbn [seq]. rewrite seq_shift. reflexivity. Qed.
Lemma ip_pI n f g : ip (pI n) f g == f 0%nat * g 0%nat + qsum (map (fun i => f (S i) * g (S i)) (seq 0 n)).
Proof. unfold ip. rewrite pI_split. cbn [map qsum]. rewrite map_map. reflexivity. Qed.
Lemma veq_pI n f g : veq (pI n) f g <-> (f 0%nat == g 0%nat /\ forall i, (i < n)%nat -> f (S i) == g (S i)).
Proof. unfold veq, pI. split.
  - intros H. split. apply H. apply in_seq. lia. intros i Hi. apply H. apply in_seq. lia.
  - intros [H0 H1] i Hi. apply in_seq in Hi. destruct i as [|i]. exact H0. apply H1. lia. Qed.
Lemma hts_qleq n f g : veq (pI n) f g -> qleq (hts n f) (hts n g).
Proof. intros H. apply veq_pI in H. destruct H as [_ H]. unfold hts. apply qleq_map. intros i Hi. apply in_seq in Hi.
  apply H. lia. Qed.

(* (b, h) represents the vector f, up to == *)
Definition lv (n : nat) (b : Q) (h : list Q) (f : nat -> Q) : Prop := b == f 0%nat /\ qleq h (hts n f).
Lemma lv_vof n b h : length h = n -> lv n b h (vof (b :: h)).
Proof. intros HL. split. reflexivity. rewrite hts_vof by exact HL. apply qleq_refl. Qed.
Lemma lv_length n b h f : lv n b h f -> length h = n.
Proof. intros [_ H]. rewrite (qleq_length _ _ H). apply hts_length. Qed.
Lemma lv_veq n b h f : lv n b h f -> veq (pI n) (vof (b :: h)) f.
Proof. intros [H0 H1]. apply veq_pI. split. exact H0. intros i Hi. unfold vof. cbn [nth].
  rewrite (qleq_nth _ _ i H1). rewrite nth_hts by exact Hi. reflexivity. Qed.
Lemma veq_lv n b h f : length h = n -> veq (pI n) (vof (b :: h)) f -> lv n b h f.
Proof. intros HL H. apply veq_pI in H. destruct H as [H0 H1]. split. exact H0.
  apply qleq_of_nth. rewrite hts_length; exact HL. intros i Hi. rewrite nth_hts by lia. apply (H1 i). lia. Qed.
Lemma lv_ext n b h f g : lv n b h f -> veq (pI n) f g -> lv n b h g.
Proof. intros [H0 H1] E. split. rewrite H0. apply veq_pI in E. apply E.
  eapply qleq_trans. exact H1. apply hts_qleq. exact E. Qed.
Lemma lv_sub n b h f b' h' g : lv n b h f -> lv n b' h' g -> lv n (Qred (b - b')) (lsub h h') (vsub f g).
Proof. intros L1 L2. pose proof (lv_length _ _ _ _ L1) as N1. pose proof (lv_length _ _ _ _ L2) as N2.
  destruct L1 as [A0 A1], L2 as [B0 B1]. split.
  - rewrite Qred_correct, A0, B0. reflexivity.
  - apply qleq_of_nth. rewrite lsub_length, hts_length; lia. rewrite lsub_length by lia. intros i Hi.
    rewrite nth_lsub by lia. rewrite Qred_correct, (qleq_nth _ _ i A1), (qleq_nth _ _ i B1).
    rewrite !nth_hts by lia. reflexivity. Qed.

(* squared distance of weight lists *)
Definition wd2 (a b : list Q) : Q := qsum (map2 (fun x y => (x - y) * (x - y)) a b).
Lemma wd2_seq : forall a b, length a = length b ->
  qsum (map (fun i => (nth i a 0 - nth i b 0) * (nth i a 0 - nth i b 0)) (seq 0 (length a))) == wd2 a b.
Proof. induction a as [|x a IH]; intros [|y b] HL; cbn [length] in *; try lia. reflexivity.
  cbn [seq]. rewrite <- seq_shift. cbn [map qsum map2]. unfold wd2. cbn [map2 qsum]. rewrite map_map. cbn [nth].
  rewrite IH by lia. reflexivity. Qed.
Lemma d2_vof n a b : length a = S n -> length b = S n -> d2 (pI n) (vof a) (vof b) == wd2 a b.
Proof. intros Ha Hb. unfold d2, ip, pI, vsub, vof. rewrite <- Ha. apply wd2_seq. lia. Qed.
Lemma wd2_nonneg a b : 0 <= wd2 a b.
Proof. unfold wd2. revert b; induction a as [|x a IH]; intros [|y b]; cbn [map2 qsum]; try lra. specialize (IH b).
  set (d := x - y). assert (0 <= d * d) by nra. lra. Qed.

Lemma qsum_map_affine (F G : nat -> Q) (hd : Q) l :
  qsum (map (fun i => F i - G i - hd) l) == qsum (map F l) - qsum (map G l) - qn (length l) * hd.
Proof. induction l as [|i l IH]; cbn [map qsum length]. change (qn 0) with (0#1). lra. rewrite IH, qn_S. lra. Qed.

(* ------------------------------------------------------------------ *)
(* 3. The two maps of the loop are nearest-point maps                   *)
(* ------------------------------------------------------------------ *)

(* monotonicity: set and map (the bias is not constrained and not moved) *)
Definition sign_ok (m : Z) (x : Q) : Prop := if (m =? 1)%Z then 0 <= x else x <= 0.
Definition CMv (m : Z) (n : nat) (f : nat -> Q) : Prop := forall i, (i < n)%nat -> sign_ok m (f (S i)).
Definition PMv (m : Z) (n : nat) (f : nat -> Q) : nat -> Q := vof (f 0%nat :: project_monotonicity m (hts n f)).

Lemma PMv_0 m n f : PMv m n f 0%nat = f 0%nat. Proof. reflexivity. Qed.
Lemma PMv_S m n f i : m <> 0%Z -> (i < n)%nat ->
  PMv m n f (S i) = if (m =? 1)%Z then qmax (f (S i)) 0 else qmin (f (S i)) 0.
Proof. intros Hm Hi. unfold PMv, vof, project_monotonicity. cbn [nth].
  destruct (m =? 0)%Z eqn:E0; [apply Z.eqb_eq in E0; contradiction|].
  destruct (m =? 1)%Z; rewrite nth_map0 by (rewrite hts_length; exact Hi); rewrite nth_hts by exact Hi; reflexivity. Qed.

Theorem mono_is_proj m n : m <> 0%Z -> is_proj (pI n) (CMv m n) (PMv m n).
Proof. intros Hm y. split.
  - intros i Hi. rewrite PMv_S by assumption. unfold sign_ok. destruct (m =? 1)%Z. apply qmax_r. apply qmin_r.
  - intros z Hz. rewrite ip_pI. unfold vsub. rewrite PMv_0.
    assert (T : qsum (map (fun i => (y (S i) - PMv m n y (S i)) * (z (S i) - PMv m n y (S i))) (seq 0 n)) <=
                qsum (map (fun _ => 0) (seq 0 n))).
    { apply qsum_map_le. intros i Hi. apply in_seq in Hi. rewrite PMv_S by (try assumption; lia).
      specialize (Hz i ltac:(lia)). unfold sign_ok in Hz. destruct (m =? 1)%Z; qcases; nra. }
    assert (Z : qsum (map (fun _ : nat => 0) (seq 0 n)) == 0).
    { generalize (seq 0 n). induction l; cbn [map qsum]. reflexivity. rewrite IHl. lra. }
    nra. Qed.

(* bounds: set and map *)
Definition CBv (c : pwl_cfg) (n : nat) (f : nat -> Q) : Prop :=
  bounds_set (p_mono c) (p_min c) (p_max c) (p_cmin c) (p_cmax c) (f 0%nat) (qsum (hts n f)).
Definition PBv (c : pwl_cfg) (n : nat) (f : nat -> Q) : nat -> Q :=
  let r := bounds_mono (p_mono c) (f 0%nat) (hts n f) (p_min c) (p_max c) (p_cmin c) (p_cmax c) in
  vof (fst r :: snd r).

Theorem bounds_is_proj c n : (1 <= n)%nat -> is_proj (pI n) (CBv c n) (PBv c n).
Proof. intros Hn y.
  destruct (bm_spec (p_mono c) (y 0%nat) (hts n y) (p_min c) (p_max c) (p_cmin c) (p_cmax c)) as (bq & hd & E1 & E2 & S1 & V).
  { rewrite hts_length. exact Hn. }
  rewrite hts_length in S1, V.
  assert (P0 : PBv c n y 0%nat == bq) by exact E1.
  assert (PS : forall i, (i < n)%nat -> PBv c n y (S i) == y (S i) + hd).
  { intros i Hi. unfold PBv, vof. cbn [nth]. rewrite (qleq_nth _ _ i E2).
    rewrite (nth_map_gen (fun x => x + hd) (hts n y) i 0 0) by (rewrite hts_length; exact Hi).
    rewrite nth_hts by exact Hi. reflexivity. }
  assert (SP : qsum (hts n (PBv c n y)) == qsum (hts n y) + qn n * hd).
  { unfold hts at 1. rewrite (qsum_map_ext _ (fun i => y (S i) - 0 - (- hd))) by (intros i Hi; apply in_seq in Hi; rewrite PS by lia; ring).
    rewrite qsum_map_affine, seq_length. fold (hts n y).
    assert (Z : qsum (map (fun _ : nat => 0) (seq 0 n)) == 0).
    { generalize (seq 0 n). induction l; cbn [map qsum]. reflexivity. rewrite IHl. lra. }
    rewrite Z. lra. }
  split.
  - unfold CBv. eapply bounds_set_proper; [symmetry; exact P0|symmetry; exact SP|exact S1].
  - intros z Hz. specialize (V (z 0%nat) (qsum (hts n z)) Hz).
    rewrite ip_pI. unfold vsub.
    rewrite (qsum_map_ext _ (fun i => (- hd) * (z (S i) - y (S i) - hd))).
    2:{ intros i Hi. apply in_seq in Hi. rewrite PS by lia. ring. }
    rewrite qsum_map_scale, qsum_map_affine, seq_length. fold (hts n z). fold (hts n y). rewrite P0.
    assert (E : (y 0%nat - bq) * (z 0%nat - bq) + - hd * (qsum (hts n z) - qsum (hts n y) - qn n * hd) ==
                (y 0%nat - bq) * (z 0%nat - bq) + - hd * (qsum (hts n z) - (qsum (hts n y) + qn n * hd))) by ring.
    rewrite E. exact V. Qed.

(* both maps respect pointwise == *)
Lemma bmi_out_proper N b s b' s' omin omax cmin cmax : b == b' -> s == s' ->
  fst (bmi_out N b s omin omax cmin cmax) == fst (bmi_out N b' s' omin omax cmin cmax) /\
  snd (bmi_out N b s omin omax cmin cmax) == snd (bmi_out N b' s' omin omax cmin cmax).
Proof. intros Eb Es. unfold bmi_out.
  destruct cmax; destruct cmin; cbn [bct_eqb fst snd]; cbv beta iota zeta; cbn [fst snd]; rewrite ?Eb, ?Es; split; reflexivity. Qed.
Lemma bmi_proper b h b' h' omin omax cmin cmax : b == b' -> qleq h h' ->
  fst (bounds_mono_inc b h omin omax cmin cmax) == fst (bounds_mono_inc b' h' omin omax cmin cmax) /\
  qleq (snd (bounds_mono_inc b h omin omax cmin cmax)) (snd (bounds_mono_inc b' h' omin omax cmin cmax)).
Proof. intros Eb Eh.
  destruct (bmi_shape b h omin omax cmin cmax) as [A1 A2]. destruct (bmi_shape b' h' omin omax cmin cmax) as [B1 B2].
  cbv zeta in *. rewrite <- (qleq_length _ _ Eh) in B1, B2.
  destruct (bmi_out_proper (qn (length h)) b (qsum h) b' (qsum h') omin omax cmin cmax Eb (qleq_qsum _ _ Eh)) as [P1 P2].
  split. rewrite A1, B1. exact P1.
  eapply qleq_trans. exact A2. eapply qleq_trans; [|apply qleq_sym; exact B2].
  apply qleq_map2; [|exact Eh]. intros x y E. rewrite E, P2. reflexivity. Qed.
Lemma bounds_mono_proper m b h b' h' omin omax cmin cmax : b == b' -> qleq h h' ->
  fst (bounds_mono m b h omin omax cmin cmax) == fst (bounds_mono m b' h' omin omax cmin cmax) /\
  qleq (snd (bounds_mono m b h omin omax cmin cmax)) (snd (bounds_mono m b' h' omin omax cmin cmax)).
Proof. intros Eb Eh. unfold bounds_mono. destruct (m =? -1)%Z.
  - destruct (bmi_proper (- b) (qneg_list h) (- b') (qneg_list h') (- omax) (- omin) cmax cmin) as [P1 P2].
    rewrite Eb; reflexivity. apply qneg_qleq; exact Eh.
    destruct (bounds_mono_inc (- b) _ _ _ _ _) as [b1 h1]. destruct (bounds_mono_inc (- b') _ _ _ _ _) as [b2 h2].
    cbn [fst snd] in *. split. rewrite P1; reflexivity. apply qneg_qleq; exact P2.
  - apply bmi_proper; assumption. Qed.
Lemma project_monotonicity_proper m h h' : qleq h h' -> qleq (project_monotonicity m h) (project_monotonicity m h').
Proof. intros E. unfold project_monotonicity. destruct (m =? 0)%Z; [exact E|].
  destruct (m =? 1)%Z; (apply qleq_map2; [|exact E]); intros x y Exy; rewrite Exy; reflexivity. Qed.

Lemma lv_PB c n b h f : lv n b h f ->
  let r := bounds_mono (p_mono c) b h (p_min c) (p_max c) (p_cmin c) (p_cmax c) in
  lv n (fst r) (snd r) (PBv c n f).
Proof. intros L. cbv zeta. pose proof (lv_length _ _ _ _ L) as HL. destruct L as [L0 L1].
  destruct (bounds_mono_proper (p_mono c) b h (f 0%nat) (hts n f) (p_min c) (p_max c) (p_cmin c) (p_cmax c) L0 L1) as [P1 P2].
  eapply lv_ext. apply lv_vof. rewrite bounds_mono_length. exact HL.
  unfold PBv. cbv zeta. apply veq_pI. unfold vof. split. cbn [nth]. exact P1.
  intros i _. cbn [nth]. apply qleq_nth. exact P2. Qed.
Lemma lv_PM m n b h f : lv n b h f -> lv n b (project_monotonicity m h) (PMv m n f).
Proof. intros L. pose proof (lv_length _ _ _ _ L) as HL. destruct L as [L0 L1].
  eapply lv_ext. apply lv_vof. rewrite project_monotonicity_length. exact HL.
  unfold PMv. apply veq_pI. unfold vof. split. cbn [nth]. exact L0.
  intros i _. cbn [nth]. apply qleq_nth. apply project_monotonicity_proper. exact L1. Qed.
Lemma lv_of_veq n b h f : length h = n -> lv n b h f <-> veq (pI n) (vof (b :: h)) f.
Proof. intros HL. split. apply lv_veq. apply veq_lv; exact HL. Qed.

Lemma PBv_proper c n f g : veq (pI n) f g -> veq (pI n) (PBv c n f) (PBv c n g).
Proof. intros E. assert (L : lv n (f 0%nat) (hts n f) g).
  { split. apply veq_pI in E. apply E. apply hts_qleq. exact E. }
  pose proof (lv_PB c n _ _ _ L) as L'. cbv zeta in L'. apply lv_veq in L'. exact L'. Qed.
Lemma PMv_proper m n f g : veq (pI n) f g -> veq (pI n) (PMv m n f) (PMv m n g).
Proof. intros E. assert (L : lv n (f 0%nat) (hts n f) g).
  { split. apply veq_pI in E. apply E. apply hts_qleq. exact E. }
  pose proof (lv_PM m n _ _ _ L) as L'. apply lv_veq in L'. exact L'. Qed.
Lemma CBv_proper c n f g : veq (pI n) f g -> CBv c n f -> CBv c n g.
Proof. intros E. unfold CBv. apply bounds_set_proper. apply veq_pI in E; apply E. apply qleq_qsum. apply hts_qleq. exact E. Qed.
Lemma CMv_proper m n f g : veq (pI n) f g -> CMv m n f -> CMv m n g.
Proof. intros E H i Hi. apply veq_pI in E. destruct E as [_ E]. specialize (H i Hi). unfold sign_ok in *.
  destruct (m =? 1)%Z; rewrite <- (E i Hi); exact H. Qed.

(* ------------------------------------------------------------------ *)
(* 4. Generic: the abstract sweep respects pointwise ==                 *)
(* ------------------------------------------------------------------ *)
Section Proper.
Context {A : Type}.
Variable I : list A.
Notation vec := (A -> Q).
Definition seqv (s s' : slot (A:=A)) : Prop := s_C s = s_C s' /\ s_P s = s_P s' /\ veq I (s_e s) (s_e s').
Definition pproper (s : slot (A:=A)) : Prop := forall f g, veq I f g -> veq I (s_P s f) (s_P s g).

Lemma seqv_refl s : seqv s s.
Proof. split; [|split]; try reflexivity. apply veq_refl. Qed.
Lemma seqv_list_trans (l1 l2 l3 : list (slot (A:=A))) : Forall2 seqv l1 l2 -> Forall2 seqv l2 l3 -> Forall2 seqv l1 l3.
Proof. intros H; revert l3; induction H; intros l3 H3; inversion H3; subst; constructor.
  - destruct H as (a1 & a2 & a3). destruct H4 as (b1 & b2 & b3). split; [congruence|]. split; [congruence|].
    eapply veq_trans; eassumption.
  - apply IHForall2. assumption. Qed.
Lemma seqv_list_sym (l1 l2 : list (slot (A:=A))) : Forall2 seqv l1 l2 -> Forall2 seqv l2 l1.
Proof. induction 1; constructor; [|assumption]. destruct H as (a1 & a2 & a3). split; [congruence|]. split; [congruence|].
  apply veq_sym; assumption. Qed.

Lemma asweep_proper sl : forall sl' x x', (forall s, In s sl -> pproper s) -> veq I x x' -> Forall2 seqv sl sl' ->
  veq I (fst (asweep sl x)) (fst (asweep sl' x')) /\ Forall2 seqv (snd (asweep sl x)) (snd (asweep sl' x')).
Proof. induction sl as [|s r IH]; intros sl' x x' Hp Hx HF; inversion HF as [|a b l l' Hs HF']; subst; cbn [asweep].
  - split. exact Hx. constructor.
  - destruct Hs as (E1 & E2 & E3).
    assert (Hr : veq I (vsub x (s_e s)) (vsub x' (s_e b))) by (apply vsub_veq; assumption).
    assert (Hx1 : veq I (s_P s (vsub x (s_e s))) (s_P b (vsub x' (s_e b)))).
    { rewrite <- E2. apply (Hp s (or_introl eq_refl)). exact Hr. }
    specialize (IH l' _ _ (fun s0 H0 => Hp s0 (or_intror H0)) Hx1 HF').
    destruct (asweep r (s_P s (vsub x (s_e s)))) as [xf r1]. destruct (asweep l' (s_P b (vsub x' (s_e b)))) as [xf' r1'].
    cbn [fst snd] in *. destruct IH as [IH1 IH2]. split. exact IH1. constructor; [|exact IH2].
    split; [exact E1|]. split; [exact E2|]. cbn [s_e]. apply vsub_veq; assumption. Qed.

Lemma asweep_pproper sl x : (forall s, In s sl -> pproper s) -> forall s, In s (snd (asweep sl x)) -> pproper s.
Proof. revert x; induction sl as [|s r IH]; intros x Hp s0 H0; cbn [asweep] in H0. destruct H0.
  specialize (IH (s_P s (vsub x (s_e s))) (fun s1 H1 => Hp s1 (or_intror H1))).
  destruct (asweep r (s_P s (vsub x (s_e s)))) as [xf r1]. cbn [snd] in *. destruct H0 as [<-|H0].
  - exact (Hp s (or_introl eq_refl)).
  - apply IH. exact H0. Qed.

Lemma amoves_proper sl : forall sl' x x', (forall s, In s sl -> pproper s) -> veq I x x' -> Forall2 seqv sl sl' ->
  amoves I sl x == amoves I sl' x'.
Proof. induction sl as [|s r IH]; intros sl' x x' Hp Hx HF; inversion HF as [|a b l l' Hs HF']; subst; cbn [amoves].
  - reflexivity.
  - destruct Hs as (E1 & E2 & E3).
    assert (Hr : veq I (vsub x (s_e s)) (vsub x' (s_e b))) by (apply vsub_veq; assumption).
    assert (Hx1 : veq I (s_P s (vsub x (s_e s))) (s_P b (vsub x' (s_e b)))).
    { rewrite <- E2. apply (Hp s (or_introl eq_refl)). exact Hr. }
    rewrite (IH l' _ _ (fun s0 H0 => Hp s0 (or_intror H0)) Hx1 HF').
    rewrite (d2_ext I _ _ _ _ Hx1 Hx). reflexivity. Qed.

(* increment-sum invariant over the loop *)
Lemma aloop_increment_sum x0 n : forall st, veq I (fst st) (vadd x0 (vsum (map s_e (snd st)))) ->
  veq I (fst (aloop n st)) (vadd x0 (vsum (map s_e (snd (aloop n st))))).
Proof. induction n as [|n IH]; intros st H; cbn [aloop]. exact H. apply IH. apply asweep_increment_sum. exact H. Qed.
End Proper.

(* ------------------------------------------------------------------ *)
(* 5. One iteration of body() is one abstract sweep over two slots      *)
(* ------------------------------------------------------------------ *)

(* the configurations of this file: bounds present, monotonicity +1 / -1, no convexity *)
Definition pwl_mb (c : pwl_cfg) : Prop :=
  has_bounds c = true /\ (p_mono c = 1%Z \/ p_mono c = (-1)%Z) /\ p_conv c = 0%Z.

Definition vx (st : dyk) : nat -> Q := vof (d_bias st :: d_h st).
Definition veB (st : dyk) : nat -> Q := vof (d_lb_bounds st :: d_lh_bounds st).
Definition veM (st : dyk) : nat -> Q := vof (0 :: d_lh_mono st).
Definition pslots (c : pwl_cfg) (n : nat) (eB eM : nat -> Q) : list (slot (A:=nat)) :=
  [mkSlot (CBv c n) (PBv c n) eB; mkSlot (CMv (p_mono c) n) (PMv (p_mono c) n) eM].

Lemma pwl_mb_mono c : pwl_mb c -> p_mono c <> 0%Z /\ (p_mono c =? 0)%Z = false.
Proof. intros (_ & [H|H] & _); rewrite H; split; try discriminate; reflexivity. Qed.

Lemma pslots_pproper c n eB eM : forall s, In s (pslots c n eB eM) -> pproper (pI n) s.
Proof. intros s [<-|[<-|[]]] f g E; cbn [s_P]. apply PBv_proper; exact E. apply PMv_proper; exact E. Qed.

Lemma body_asweep c n st : pwl_mb c -> dyk_wf n st ->
  let st' := fst (dyk_body c st) in
  let r := asweep (pslots c n (veB st) (veM st)) (vx st) in
  veq (pI n) (vx st') (fst r) /\ Forall2 (seqv (pI n)) (pslots c n (veB st') (veM st')) (snd r).
Proof. intros Hc WF. cbv zeta. destruct (pwl_mb_mono c Hc) as [Hm Hm0]. destruct Hc as (Hb & _ & Hconv).
  destruct WF as (W1 & W2 & W3 & _).
  rewrite body_state. unfold vx, veB, veM. cbn [d_bias d_h d_lb_bounds d_lh_bounds d_lh_mono].
  rewrite (body_mono_noconv c st Hconv).
  unfold s1_bias, s1_lbb, s1_lhb, s2_lhm. unfold s2_h, mono_rh, s1_h. rewrite Hb, Hm0. unfold bnd_res. rewrite Hm0.
  cbn [asweep pslots s_e s_P s_C fst snd].
  set (X := vof (d_bias st :: d_h st)). set (EB := vof (d_lb_bounds st :: d_lh_bounds st)).
  set (EM := vof (0 :: d_lh_mono st)).
  set (res := bounds_mono (p_mono c) (bnd_rb st) (bnd_rh st) (p_min c) (p_max c) (p_cmin c) (p_cmax c)).
  set (x1 := PBv c n (vsub X EB)). set (x2 := PMv (p_mono c) n (vsub x1 EM)).
  assert (Lx : lv n (d_bias st) (d_h st) X) by (apply lv_vof; exact W1).
  assert (LeB : lv n (d_lb_bounds st) (d_lh_bounds st) EB) by (apply lv_vof; exact W2).
  assert (LeM : lv n 0 (d_lh_mono st) EM) by (apply lv_vof; exact W3).
  assert (LrB : lv n (bnd_rb st) (bnd_rh st) (vsub X EB)) by (apply lv_sub; assumption).
  assert (Lx1 : lv n (fst res) (snd res) x1) by (apply lv_PB; exact LrB).
  assert (LeB' : lv n (Qred (fst res - bnd_rb st)) (lsub (snd res) (bnd_rh st)) (vsub x1 (vsub X EB))) by (apply lv_sub; assumption).
  assert (LrM : lv n (fst res) (lsub (snd res) (d_lh_mono st)) (vsub x1 EM)).
  { pose proof (lv_sub _ _ _ _ _ _ _ Lx1 LeM) as [_ T]. split; [|exact T]. destruct Lx1 as [T0 _]. rewrite T0. unfold vsub, EM, vof. cbn [nth]. ring. }
  assert (Lx2 : lv n (fst res) (project_monotonicity (p_mono c) (lsub (snd res) (d_lh_mono st))) x2) by (apply lv_PM; exact LrM).
  assert (LeM' : lv n 0 (lsub (project_monotonicity (p_mono c) (lsub (snd res) (d_lh_mono st))) (lsub (snd res) (d_lh_mono st)))
                    (vsub x2 (vsub x1 EM))).
  { pose proof (lv_sub _ _ _ _ _ _ _ Lx2 LrM) as [_ T]. split; [|exact T]. unfold vsub, x2. rewrite PMv_0. unfold vsub. ring. }
  split.
  - apply lv_veq. exact Lx2.
  - constructor; [|constructor; [|constructor]].
    + split; [reflexivity|]. split; [reflexivity|]. cbn [s_e]. apply lv_veq. exact LeB'.
    + split; [reflexivity|]. split; [reflexivity|]. cbn [s_e]. apply lv_veq. exact LeM'. Qed.

(* simulation relation between the model state and an abstract state *)
Definition sim (c : pwl_cfg) (n : nat) (st : dyk) (a : (nat -> Q) * list (slot (A:=nat))) : Prop :=
  veq (pI n) (vx st) (fst a) /\ Forall2 (seqv (pI n)) (pslots c n (veB st) (veM st)) (snd a).

Lemma sim_pproper c n st a : sim c n st a -> forall s, In s (snd a) -> pproper (pI n) s.
Proof. intros [_ HF] s Hs. remember (pslots c n (veB st) (veM st)) as sl eqn:Esl.
  assert (Hp : forall s0, In s0 sl -> pproper (pI n) s0) by (subst sl; apply pslots_pproper).
  clear Esl. induction HF as [|s1 s2 l1 l2 H12 HF IH]. destruct Hs.
  destruct Hs as [<-|Hs].
  - destruct H12 as (_ & E2 & _). intros f g E. rewrite <- E2. apply (Hp s1 (or_introl eq_refl)). exact E.
  - apply IH. exact Hs. intros s0 H0. apply Hp. right; exact H0. Qed.

Lemma sim_step c n st a : pwl_mb c -> dyk_wf n st -> sim c n st a ->
  sim c n (fst (dyk_body c st)) (asweep (snd a) (fst a)).
Proof. intros Hc WF [S1 S2]. destruct (body_asweep c n st Hc WF) as [B1 B2].
  destruct (asweep_proper (pI n) (pslots c n (veB st) (veM st)) (snd a) (vx st) (fst a) (pslots_pproper c n _ _) S1 S2) as [P1 P2].
  split. eapply veq_trans; eassumption. eapply seqv_list_trans; eassumption. Qed.

Lemma sim_iter c n k : forall st a, pwl_mb c -> dyk_wf n st -> sim c n st a -> sim c n (dyk_iter c k st) (aloop k a).
Proof. induction k as [|k IH]; intros st a Hc WF S; cbn [dyk_iter aloop]. exact S.
  apply IH. exact Hc. apply dyk_body_wf; exact WF. apply sim_step; assumption. Qed.

Definition pslots0 (c : pwl_cfg) (n : nat) : list (slot (A:=nat)) := pslots c n vzero vzero.
Lemma sim_init c b h : sim c (length h) (dyk_init b h) (vof (b :: h), pslots0 c (length h)).
Proof. split; cbn [fst snd]. apply veq_refl. unfold pslots0, pslots, dyk_init, veB, veM. cbn [d_lb_bounds d_lh_bounds d_lh_mono].
  assert (Z : veq (pI (length h)) (vof (0 :: map (fun _ : Q => 0) h)) vzero).
  { intros i _. unfold vof, vzero. destruct i as [|i]; cbn [nth]. reflexivity. change (map (fun _ : Q => 0) h) with (Proofs.PWLProject.Z0 h). rewrite nth_Z0. reflexivity. }
  constructor; [|constructor; [|constructor]]; (split; [reflexivity|]; split; [reflexivity|]; exact Z). Qed.

Lemma pslots0_zero c n : forall s, In s (pslots0 c n) -> veq (pI n) (s_e s) vzero.
Proof. intros s [<-|[<-|[]]]; apply veq_refl. Qed.
Lemma pslots_is_proj c n eB eM : pwl_mb c -> (1 <= n)%nat ->
  forall s, In s (pslots c n eB eM) -> is_proj (pI n) (s_C s) (s_P s).
Proof. intros Hc Hn s [<-|[<-|[]]]; cbn [s_C s_P]. apply bounds_is_proj; exact Hn.
  apply mono_is_proj. apply (pwl_mb_mono c Hc). Qed.

(* ------------------------------------------------------------------ *)
(* 6. CM /\ CB is exactly feasibility (Proofs/PWLProject.v)             *)
(* ------------------------------------------------------------------ *)
Lemma qsum_nonneg_list l : Forall (fun x => 0 <= x) l -> 0 <= qsum l.
Proof. induction 1; cbn [qsum]; lra. Qed.
Lemma qsum_nonpos_list l : Forall (fun x => x <= 0) l -> qsum l <= 0.
Proof. induction 1; cbn [qsum]; lra. Qed.
Lemma cumsum_from_nonneg : forall l acc, Forall (fun x => 0 <= x) l ->
  Forall (fun s => acc <= s /\ s <= acc + qsum l) (cumsum_from acc l).
Proof. induction l as [|x r IH]; intros acc H; cbn [cumsum_from qsum]. constructor.
  inversion H as [|? ? Hx Hr]; subst. pose proof (qsum_nonneg_list r Hr). constructor. lra.
  eapply Forall_impl; [|apply IH; exact Hr]. cbv beta. intros s Hs. lra. Qed.
Lemma cumsum_from_nonpos : forall l acc, Forall (fun x => x <= 0) l ->
  Forall (fun s => acc + qsum l <= s /\ s <= acc) (cumsum_from acc l).
Proof. induction l as [|x r IH]; intros acc H; cbn [cumsum_from qsum]. constructor.
  inversion H as [|? ? Hx Hr]; subst. pose proof (qsum_nonpos_list r Hr). constructor. lra.
  eapply Forall_impl; [|apply IH; exact Hr]. cbv beta. intros s Hs. lra. Qed.

Definition in_sets (c : pwl_cfg) (b : Q) (h : list Q) : Prop :=
  Forall (sign_ok (p_mono c)) h /\
  bounds_set (p_mono c) (p_min c) (p_max c) (p_cmin c) (p_cmax c) b (qsum h).

Lemma feasible_iff_sets c b h : pwl_mb c -> (feasible c b h <-> in_sets c b h).
Proof. intros (Hb & Hm & Hconv). unfold in_sets, bounds_set, sign_ok. split.
  - intros F. pose proof (feasible_lo c b h F) as Flo. pose proof (feasible_hi c b h F) as Fhi.
    destruct F as (F1 & F2 & _ & _ & _ & F6 & F7).
    destruct Hm as [Hm|Hm]; rewrite Hm in *; cbn [Z.eqb Pos.eqb].
    + split. apply F1; reflexivity. split.
      * destruct (p_cmin c) eqn:E; cbn; auto. apply Flo; discriminate. apply F6; reflexivity.
      * destruct (p_cmax c) eqn:E; cbn; auto. apply Fhi; discriminate. apply F7; reflexivity.
    + split. apply F2; reflexivity. split.
      * destruct (p_cmax c) eqn:E; cbn; auto. apply Fhi; discriminate. apply F7; reflexivity.
      * destruct (p_cmin c) eqn:E; cbn; auto. apply Flo; discriminate. apply F6; reflexivity.
  - intros [S B]. unfold feasible, keypoint_outputs, cumsum. cbn [cumsum_from].
    destruct Hm as [Hm|Hm]; rewrite Hm in *; cbn [Z.eqb Pos.eqb] in *; destruct B as [B1 B2].
    + pose proof (cumsum_from_nonneg h (0 + b) S) as CS. pose proof (qsum_nonneg_list h S) as SN.
      split; [intros _; exact S|]. split; [discriminate|]. split; [|split; [|split; [|split]]].
      * intros G. assert (L : p_min c <= b) by (destruct (p_cmin c); cbn in B1; [contradiction|lra|lra]).
        constructor. lra. eapply Forall_impl; [|exact CS]. cbv beta. intros s Hs. lra.
      * intros G. assert (L : b + qsum h <= p_max c) by (destruct (p_cmax c); cbn in B2; [contradiction|lra|lra]).
        constructor. lra. eapply Forall_impl; [|exact CS]. cbv beta. intros s Hs. lra.
      * intros G; contradiction.
      * intros G. rewrite G in B1. cbn in B1. split. intros _; exact B1. discriminate.
      * intros G. rewrite G in B2. cbn in B2. split. intros _; exact B2. discriminate.
    + pose proof (cumsum_from_nonpos h (0 + b) S) as CS. pose proof (qsum_nonpos_list h S) as SN.
      split; [discriminate|]. split; [intros _; exact S|]. split; [|split; [|split; [|split]]].
      * intros G. assert (L : p_min c <= b + qsum h) by (destruct (p_cmin c); cbn in B2; [contradiction|lra|lra]).
        constructor. lra. eapply Forall_impl; [|exact CS]. cbv beta. intros s Hs. lra.
      * intros G. assert (L : b <= p_max c) by (destruct (p_cmax c); cbn in B1; [contradiction|lra|lra]).
        constructor. lra. eapply Forall_impl; [|exact CS]. cbv beta. intros s Hs. lra.
      * intros G; contradiction.
      * intros G. rewrite G in B2. cbn in B2. split. discriminate. intros _; exact B2.
      * intros G. rewrite G in B1. cbn in B1. split. discriminate. intros _; exact B1. Qed.

(* in_sets of a weight list = membership of its vector in both sets *)
Lemma in_sets_vec c n b h : length h = n ->
  (in_sets c b h <-> (CBv c n (vof (b :: h)) /\ CMv (p_mono c) n (vof (b :: h)))).
Proof. intros HL. unfold in_sets, CBv, CMv. rewrite hts_vof by exact HL. unfold vof. cbn [nth]. split.
  - intros [S B]. split. exact B. intros i Hi. rewrite Forall_nth0 in S. apply S. lia.
  - intros [B S]. split; [|exact B]. apply Forall_nth0. intros i Hi. apply S. lia. Qed.

(* ------------------------------------------------------------------ *)
(* 7. Movement of one iteration, in model terms                         *)
(* ------------------------------------------------------------------ *)
Definition wl (st : dyk) : list Q := d_bias st :: d_h st.
(* squared movement of the BOUNDS step plus squared movement of the MONOTONICITY step *)
Definition pwl_moves (c : pwl_cfg) (st : dyk) : Q :=
  wd2 (s1_bias c st :: s1_h c st) (wl st) + wd2 (s1_bias c st :: s2_h c st) (s1_bias c st :: s1_h c st).
Fixpoint pwl_loop_moves (c : pwl_cfg) (k : nat) (st : dyk) : list Q :=
  match k with O => [] | S k' => pwl_moves c st :: pwl_loop_moves c k' (fst (dyk_body c st)) end.

Lemma sim_slots c n st a : sim c n st a ->
  exists eB eM, snd a = pslots c n eB eM /\ veq (pI n) (veB st) eB /\ veq (pI n) (veM st) eM.
Proof. destruct a as [xa sl]. intros [_ S2]. cbn [snd] in *. unfold pslots in S2.
  inversion S2 as [|? a1 ? l1 H1 T1]; subst. inversion T1 as [|? a2 ? l2 H2 T2]; subst. inversion T2; subst.
  destruct a1 as [C1 P1 e1], a2 as [C2 P2 e2]. destruct H1 as (A1 & A2 & A3), H2 as (B1 & B2 & B3). cbn [s_C s_P s_e] in *. subst.
  exists e1, e2. split. reflexivity. split; assumption. Qed.

Lemma body_points c n st : pwl_mb c -> dyk_wf n st ->
  let x1 := PBv c n (vsub (vx st) (veB st)) in
  let x2 := PMv (p_mono c) n (vsub x1 (veM st)) in
  lv n (s1_bias c st) (s1_h c st) x1 /\ lv n (s1_bias c st) (s2_h c st) x2.
Proof. intros Hc WF. cbv zeta. destruct (pwl_mb_mono c Hc) as [Hm Hm0]. destruct Hc as (Hb & _ & Hconv).
  destruct WF as (W1 & W2 & W3 & _).
  unfold vx, veB, veM. unfold s2_h, mono_rh, s1_bias, s1_h. rewrite Hb, Hm0. unfold bnd_res. rewrite Hm0.
  set (X := vof (d_bias st :: d_h st)). set (EB := vof (d_lb_bounds st :: d_lh_bounds st)).
  set (EM := vof (0 :: d_lh_mono st)).
  set (res := bounds_mono (p_mono c) (bnd_rb st) (bnd_rh st) (p_min c) (p_max c) (p_cmin c) (p_cmax c)).
  set (x1 := PBv c n (vsub X EB)).
  assert (Lx : lv n (d_bias st) (d_h st) X) by (apply lv_vof; exact W1).
  assert (LeB : lv n (d_lb_bounds st) (d_lh_bounds st) EB) by (apply lv_vof; exact W2).
  assert (LeM : lv n 0 (d_lh_mono st) EM) by (apply lv_vof; exact W3).
  assert (LrB : lv n (bnd_rb st) (bnd_rh st) (vsub X EB)) by (apply lv_sub; assumption).
  assert (Lx1 : lv n (fst res) (snd res) x1) by (apply lv_PB; exact LrB).
  assert (LrM : lv n (fst res) (lsub (snd res) (d_lh_mono st)) (vsub x1 EM)).
  { pose proof (lv_sub _ _ _ _ _ _ _ Lx1 LeM) as [_ T]. split; [|exact T]. destruct Lx1 as [T0 _]. rewrite T0. unfold vsub, EM, vof. cbn [nth]. ring. }
  split. exact Lx1. apply lv_PM. exact LrM. Qed.

Lemma d2_lv n b h f b' h' g : lv n b h f -> lv n b' h' g -> d2 (pI n) f g == wd2 (b :: h) (b' :: h').
Proof. intros L1 L2. rewrite <- (d2_vof n) by (cbn [length]; rewrite (lv_length _ _ _ _ L1) || rewrite (lv_length _ _ _ _ L2); reflexivity).
  apply d2_ext; apply veq_sym; apply lv_veq; assumption. Qed.

Lemma pwl_moves_amoves c n st : pwl_mb c -> dyk_wf n st ->
  amoves (pI n) (pslots c n (veB st) (veM st)) (vx st) == pwl_moves c st.
Proof. intros Hc WF. destruct (body_points c n st Hc WF) as [L1 L2]. cbv zeta in L1, L2.
  assert (Lx : lv n (d_bias st) (d_h st) (vx st)) by (apply lv_vof; apply WF).
  unfold pwl_moves, pslots. cbn [amoves s_e s_P].
  rewrite (d2_lv n _ _ _ _ _ _ L1 Lx), (d2_lv n _ _ _ _ _ _ L2 L1). unfold wl. lra. Qed.

Lemma sim_moves c n st a : pwl_mb c -> dyk_wf n st -> sim c n st a -> amoves (pI n) (snd a) (fst a) == pwl_moves c st.
Proof. intros Hc WF S. rewrite <- (pwl_moves_amoves c n st Hc WF). destruct S as [S1 S2].
  symmetry. apply amoves_proper. apply pslots_pproper. exact S1. exact S2. Qed.

Lemma sim_loop_moves c n k : forall st a, pwl_mb c -> dyk_wf n st -> sim c n st a ->
  qleq (aloop_moves (pI n) k a) (pwl_loop_moves c k st).
Proof. induction k as [|k IH]; intros st a Hc WF S; cbn [aloop_moves pwl_loop_moves]. constructor.
  constructor. apply (sim_moves c n); assumption.
  apply IH. exact Hc. apply dyk_body_wf; exact WF. apply sim_step; assumption. Qed.

Lemma pwl_loop_moves_nth c k : forall st j, (j < k)%nat ->
  nth j (pwl_loop_moves c k st) 0 = pwl_moves c (dyk_iter c j st).
Proof. induction k as [|k IH]; intros st j Hj. lia. destruct j as [|j]; cbn [pwl_loop_moves nth dyk_iter]. reflexivity.
  apply IH. lia. Qed.

(* ------------------------------------------------------------------ *)
(* 8. The theorems of Proofs/DykstraBound.v / DykstraTheory.v for the   *)
(*    PWL loop                                                          *)
(* ------------------------------------------------------------------ *)
Section PwlLoop.
Variables (c : pwl_cfg) (n : nat) (b : Q) (h : list Q).
Hypothesis Hc : pwl_mb c.
Hypothesis Hn : (1 <= n)%nat.
Hypothesis HL : length h = n.

Let x0 : nat -> Q := vof (b :: h).
Let a0 : (nat -> Q) * list (slot (A:=nat)) := (x0, pslots0 c n).
Let st0 : dyk := dyk_init b h.

Lemma loop_sim k : sim c n (dyk_iter c k st0) (aloop k a0).
Proof. apply sim_iter. exact Hc. subst st0. rewrite <- HL. apply dyk_init_wf.
  subst st0 a0 x0. rewrite <- HL. apply sim_init. Qed.
Lemma loop_wf k : dyk_wf n (dyk_iter c k st0).
Proof. apply dyk_iter_wf. subst st0. rewrite <- HL. apply dyk_init_wf. Qed.

Lemma feasible_good bz hz : length hz = n -> feasible c bz hz -> forall s, In s (pslots0 c n) -> sgood (pI n) (vof (bz :: hz)) s.
Proof. intros Hz F. apply (feasible_iff_sets c bz hz Hc) in F. apply (in_sets_vec c n bz hz Hz) in F. destruct F as [F1 F2].
  intros s Hs. split. apply (pslots_is_proj c n vzero vzero Hc Hn s Hs).
  destruct Hs as [<-|[<-|[]]]; cbn [s_C]; assumption. Qed.

Lemma wl_lv st : dyk_wf n st -> lv n (d_bias st) (d_h st) (vx st).
Proof. intros WF. apply lv_vof. apply WF. Qed.

(* (b) summable movement *)
Theorem pwl_moves_summable bz hz k : length hz = n -> feasible c bz hz ->
  wd2 (wl (dyk_iter c k st0)) (bz :: hz) + qsum (pwl_loop_moves c k st0) <= wd2 (b :: h) (bz :: hz).
Proof. intros Hz F.
  pose proof (aloop_moves_summable (pI n) (vof (bz :: hz)) x0 (pslots0 c n) (feasible_good bz hz Hz F) (pslots0_zero c n) k) as B.
  fold a0 in B. pose proof (loop_sim k) as S. pose proof (loop_wf k) as WF.
  assert (Lz : lv n bz hz (vof (bz :: hz))) by (apply lv_vof; exact Hz).
  assert (E1 : d2 (pI n) (fst (aloop k a0)) (vof (bz :: hz)) == wd2 (wl (dyk_iter c k st0)) (bz :: hz)).
  { unfold wl. rewrite <- (d2_lv n _ _ _ _ _ _ (wl_lv _ WF) Lz). apply d2_ext. apply veq_sym. apply S. apply veq_refl. }
  assert (E2 : d2 (pI n) x0 (vof (bz :: hz)) == wd2 (b :: h) (bz :: hz)).
  { apply d2_lv. apply lv_vof; exact HL. exact Lz. }
  assert (E3 : qsum (aloop_moves (pI n) k a0) == qsum (pwl_loop_moves c k st0)).
  { apply qleq_qsum. apply (sim_loop_moves c n). exact Hc. apply (loop_wf 0). apply (loop_sim 0). }
  rewrite <- E1, <- E2, <- E3. exact B. Qed.

Lemma pwl_moves_nonneg st : 0 <= pwl_moves c st.
Proof. unfold pwl_moves. pose proof (wd2_nonneg (s1_bias c st :: s1_h c st) (wl st)).
  pose proof (wd2_nonneg (s1_bias c st :: s2_h c st) (s1_bias c st :: s1_h c st)). lra. Qed.
Lemma pwl_loop_moves_nonneg k : forall st, 0 <= qsum (pwl_loop_moves c k st).
Proof. induction k as [|k IH]; intros st; cbn [pwl_loop_moves qsum]. lra.
  pose proof (pwl_moves_nonneg st). specialize (IH (fst (dyk_body c st))). lra. Qed.

(* (a) Fejer-type bound *)
Theorem pwl_never_farther bz hz k : length hz = n -> feasible c bz hz ->
  wd2 (wl (dyk_iter c k st0)) (bz :: hz) <= wd2 (b :: h) (bz :: hz).
Proof. intros Hz F. pose proof (pwl_moves_summable bz hz k Hz F). pose proof (pwl_loop_moves_nonneg k st0). lra. Qed.

(* stalling rate *)
Theorem pwl_stalls bz hz k : length hz = n -> feasible c bz hz -> (1 <= k)%nat ->
  exists j, (j < k)%nat /\ pwl_moves c (dyk_iter c j st0) * qnat k <= wd2 (b :: h) (bz :: hz).
Proof. intros Hz F Hk.
  assert (Hne : pwl_loop_moves c k st0 <> []) by (destruct k; [lia|cbn [pwl_loop_moves]; discriminate]).
  assert (Hlen : forall k' st, length (pwl_loop_moves c k' st) = k').
  { induction k' as [|k' IH]; intros st; cbn [pwl_loop_moves length]. reflexivity. rewrite IH. reflexivity. }
  destruct (qsum_pigeonhole (pwl_loop_moves c k st0) (wd2 (b :: h) (bz :: hz)) Hne) as [j [Hj Hle]].
  - pose proof (pwl_moves_summable bz hz k Hz F). pose proof (wd2_nonneg (wl (dyk_iter c k st0)) (bz :: hz)). lra.
  - rewrite Hlen in Hj, Hle. exists j. split. exact Hj. rewrite <- (pwl_loop_moves_nth c k st0 j Hj). exact Hle. Qed.

(* fixpoint => nearest *)
Definition reproduces (st : dyk) : Prop :=
  let st' := fst (dyk_body c st) in
  d_lb_bounds st' == d_lb_bounds st /\ qleq (d_lh_bounds st') (d_lh_bounds st) /\ qleq (d_lh_mono st') (d_lh_mono st).

Lemma vof_qleq l l' : qleq l l' -> forall i, vof l i == vof l' i.
Proof. intros H i. unfold vof. apply qleq_nth. exact H. Qed.

Theorem pwl_fixpoint_nearest k :
  let st := dyk_iter c k st0 in
  reproduces st ->
  qleq (wl (fst (dyk_body c st))) (wl st) /\
  feasible c (d_bias st) (d_h st) /\
  forall bz hz, length hz = n -> feasible c bz hz ->
    wd2 (b :: h) (wl st) + wd2 (wl st) (bz :: hz) <= wd2 (b :: h) (bz :: hz).
Proof. cbv zeta. set (st := dyk_iter c k st0). intros (R1 & R2 & R3).
  pose proof (loop_sim k) as S. fold st in S. pose proof (loop_wf k) as WF. fold st in WF.
  pose proof (sim_step c n st _ Hc WF S) as S'. pose proof (dyk_body_wf c n st WF) as WF'.
  set (st' := fst (dyk_body c st)) in *.
  destruct (sim_slots _ _ _ _ S) as (eB & eM & Esl & EB & EM).
  destruct (sim_slots _ _ _ _ S') as (eB' & eM' & Esl' & EB' & EM').
  set (a := aloop k a0) in *.
  assert (HeB : veq (pI n) eB' eB).
  { eapply veq_trans. apply veq_sym; exact EB'. eapply veq_trans; [|exact EB]. intros i _. apply vof_qleq. constructor; assumption. }
  assert (HeM : veq (pI n) eM' eM).
  { eapply veq_trans. apply veq_sym; exact EM'. eapply veq_trans; [|exact EM]. intros i _. apply vof_qleq. constructor; [reflexivity|assumption]. }
  destruct (asweep_fixpoint_nearest (pI n) (snd a) x0 (fst a)) as (F1 & F2 & F3).
  - rewrite Esl. apply pslots_is_proj; assumption.
  - rewrite Esl. intros s [<-|[<-|[]]] f g E; cbn [s_C]. apply CBv_proper; exact E. apply CMv_proper; exact E.
  - rewrite Esl. apply pslots_pproper.
  - subst a. apply aloop_increment_sum. subst a0. cbn [fst snd pslots0 pslots map s_e]. intros i _. unfold vadd, vsum, vzero. cbn [map qsum]. ring.
  - rewrite Esl'. rewrite Esl. unfold pslots. constructor; [exact HeB|]. constructor; [exact HeM|]. constructor.
  - assert (Ex : veq (pI n) (vx st) (fst a)) by apply S.
    assert (Ex' : veq (pI n) (vx st') (vx st)).
    { eapply veq_trans. apply S'. eapply veq_trans. exact F1. apply veq_sym. exact Ex. }
    split; [|split].
    + pose proof (veq_lv n _ _ _ (proj1 WF') Ex') as [L0 L1]. unfold vx, vof in L0. cbn [nth] in L0.
      unfold vx in L1. rewrite hts_vof in L1 by apply WF. unfold wl. constructor; assumption.
    + apply (feasible_iff_sets c _ _ Hc). apply (in_sets_vec c n _ _ (proj1 WF)). fold (vx st). split.
      * apply (CBv_proper c n (fst a)). apply veq_sym; exact Ex. apply (F2 (mkSlot (CBv c n) (PBv c n) eB)). rewrite Esl. left; reflexivity.
      * apply (CMv_proper _ n (fst a)). apply veq_sym; exact Ex.
        apply (F2 (mkSlot (CMv (p_mono c) n) (PMv (p_mono c) n) eM)). rewrite Esl. right; left; reflexivity.
    + intros bz hz Hz F. apply (feasible_iff_sets c bz hz Hc) in F. apply (in_sets_vec c n bz hz Hz) in F. destruct F as [G1 G2].
      destruct (F3 (vof (bz :: hz))) as [V _].
      { rewrite Esl. intros s [<-|[<-|[]]]; cbn [s_C]; assumption. }
      pose proof (vi_nearest_dist (pI n) x0 (fst a) (vof (bz :: hz)) V) as D.
      assert (Lz : lv n bz hz (vof (bz :: hz))) by (apply lv_vof; exact Hz).
      assert (L0 : lv n b h x0) by (apply lv_vof; exact HL).
      assert (La : lv n (d_bias st) (d_h st) (fst a)) by (eapply lv_ext; [apply wl_lv; exact WF|exact Ex]).
      fold (d2 (pI n) x0 (fst a)) in D. fold (d2 (pI n) (fst a) (vof (bz :: hz))) in D. fold (d2 (pI n) x0 (vof (bz :: hz))) in D.
      rewrite (d2_lv n _ _ _ _ _ _ L0 La), (d2_lv n _ _ _ _ _ _ La Lz), (d2_lv n _ _ _ _ _ _ L0 Lz) in D. exact D. Qed.

(* an iteration that does not move reproduces the stored changes *)
Theorem pwl_stalled_reproduces k : pwl_moves c (dyk_iter c k st0) <= 0 -> reproduces (dyk_iter c k st0).
Proof. set (st := dyk_iter c k st0). intros M.
  pose proof (loop_sim k) as S. fold st in S. pose proof (loop_wf k) as WF. fold st in WF.
  pose proof (sim_step c n st _ Hc WF S) as S'. pose proof (dyk_body_wf c n st WF) as WF'.
  destruct (sim_slots _ _ _ _ S) as (eB & eM & Esl & EB & EM).
  destruct (sim_slots _ _ _ _ S') as (eB' & eM' & Esl' & EB' & EM').
  rewrite <- (sim_moves c n st _ Hc WF S) in M.
  destruct (amoves_zero_fixpoint (pI n) _ _ M) as [_ Fx]. rewrite Esl' in Fx. rewrite Esl in Fx.
  unfold pslots in Fx. inversion Fx as [|? ? ? ? FB T1]. inversion T1 as [|? ? ? ? FM T2]. cbn [s_e] in FB, FM.
  assert (GB : veq (pI n) (veB (fst (dyk_body c st))) (veB st)).
  { eapply veq_trans. exact EB'. eapply veq_trans. exact FB. apply veq_sym. exact EB. }
  assert (GM : veq (pI n) (veM (fst (dyk_body c st))) (veM st)).
  { eapply veq_trans. exact EM'. eapply veq_trans. exact FM. apply veq_sym. exact EM. }
  destruct WF as (_ & W2 & W3 & _). destruct WF' as (_ & W2' & W3' & _).
  pose proof (veq_lv n _ _ _ W2' GB) as [B0 B1]. pose proof (veq_lv n _ _ _ W3' GM) as [_ M1].
  unfold veB in B0, B1. unfold veM in M1. rewrite hts_vof in B1 by exact W2. rewrite hts_vof in M1 by exact W3.
  unfold vof in B0. cbn [nth] in B0. split; [exact B0|]. split; assumption. Qed.

End PwlLoop.

(* ------------------------------------------------------------------ *)
(* 9. Consequences for project_all_constraints itself                   *)
(* ------------------------------------------------------------------ *)
Lemma wd2_proper : forall a a' b b', qleq a a' -> qleq b b' -> wd2 a b == wd2 a' b'.
Proof. intros a a' b b' Ha; revert b b'; induction Ha as [|x x' a a' Ex Ha IH]; intros b b' Hb; unfold wd2 in *.
  - destruct Hb; reflexivity.
  - destruct Hb as [|y y' b b' Ey Hb]. reflexivity. cbn [map2 qsum]. rewrite (IH b b' Hb), Ex, Ey. reflexivity. Qed.

(* a stalled iteration: the state is feasible and the nearest feasible point *)
Theorem pwl_stalled_nearest c n b h k : pwl_mb c -> (1 <= n)%nat -> length h = n ->
  let st := dyk_iter c k (dyk_init b h) in
  pwl_moves c st <= 0 ->
  feasible c (d_bias st) (d_h st) /\
  forall bz hz, length hz = n -> feasible c bz hz ->
    wd2 (b :: h) (wl st) + wd2 (wl st) (bz :: hz) <= wd2 (b :: h) (bz :: hz).
Proof. intros Hc Hn HL. cbv zeta. intros M.
  pose proof (pwl_stalled_reproduces c n b h Hc HL k M) as R.
  destruct (pwl_fixpoint_nearest c n b h Hc Hn HL k R) as (_ & F & N). split; assumption. Qed.

(* if the loop of project_all_constraints (p_iters c iterations) has reached a
   fixpoint, _finalize_constraints does nothing and the returned column is the
   nearest feasible column *)
Theorem pwl_converged_result c n b h : pwl_valid c n -> pwl_mb c -> length h = n ->
  let st := dyk_iter c (p_iters c) (dyk_init b h) in
  reproduces c st ->
  qleq (pwl_project_col c (b :: h)) (wl st) /\
  feasible c (d_bias st) (d_h st) /\
  forall bz hz, length hz = n -> feasible c bz hz ->
    wd2 (b :: h) (pwl_project_col c (b :: h)) + wd2 (pwl_project_col c (b :: h)) (bz :: hz) <= wd2 (b :: h) (bz :: hz).
Proof. intros V Hc HL. cbv zeta. intros R. pose proof V as (Hn & _).
  destruct (pwl_fixpoint_nearest c n b h Hc Hn HL (p_iters c) R) as (_ & F & N).
  set (st := dyk_iter c (p_iters c) (dyk_init b h)) in *.
  assert (WF : dyk_wf n st) by (apply dyk_iter_wf; rewrite <- HL; apply dyk_init_wf).
  assert (E : qleq (pwl_project_col c (b :: h)) (wl st)).
  { rewrite pwl_project_col_loop by (try apply Hc; apply (pwl_mb_mono c Hc)). fold st.
    destruct (finalize_fixed c n (d_bias st) (d_h st) V (proj1 WF) F) as [G1 G2]. constructor; assumption. }
  split; [exact E|]. split; [exact F|]. intros bz hz Hz Fz.
  rewrite (wd2_proper _ _ _ _ (qleq_refl (b :: h)) E), (wd2_proper _ _ _ _ E (qleq_refl (bz :: hz))). apply N; assumption. Qed.

(* ------------------------------------------------------------------ *)
(* 10. The hypotheses are satisfiable                                   *)
(* ------------------------------------------------------------------ *)
(* three pieces, increasing, 0 <= output <= 10 (BOUND / BOUND); start
   bias -1, heights (1/2, 1/2, -1): both steps move, and after one iteration
   the state is a fixpoint:  bias 0, heights (1/2, 1/2, 0). *)
Definition pwl_ex_c : pwl_cfg := mkPwl 1 0 0 10 BBound BBound [1; 1; 1] 3.
Definition pwl_ex_b : Q := -1.
Definition pwl_ex_h : list Q := [1#2; 1#2; -1].
Lemma pwl_ex_mb : pwl_mb pwl_ex_c. Proof. repeat split. left; reflexivity. Qed.
Lemma pwl_ex_valid : pwl_valid pwl_ex_c 3.
Proof. unfold pwl_valid, pwl_ex_c; cbn. repeat split; try lia; try (intros; discriminate); auto. repeat constructor. Qed.
Ltac qle_compute := apply Qle_bool_iff; vm_compute; reflexivity.
Lemma pwl_ex_feasible : feasible pwl_ex_c 0 [1; 1; 1].
Proof. apply (feasible_iff_sets _ _ _ pwl_ex_mb). split.
  - repeat constructor; unfold sign_ok; cbn; lra.
  - unfold bounds_set, pwl_ex_c; cbn. split; qle_compute. Qed.

Example pwl_fixpoint_nearest_hyps :
  pwl_mb pwl_ex_c /\ (1 <= 3)%nat /\ length pwl_ex_h = 3%nat /\
  reproduces pwl_ex_c (dyk_iter pwl_ex_c 1 (dyk_init pwl_ex_b pwl_ex_h)) /\
  reproduces pwl_ex_c (dyk_iter pwl_ex_c (p_iters pwl_ex_c) (dyk_init pwl_ex_b pwl_ex_h)) /\
  qleq (wl (dyk_iter pwl_ex_c 1 (dyk_init pwl_ex_b pwl_ex_h))) [0; 1#2; 1#2; 0] /\
  ~ reproduces pwl_ex_c (dyk_init pwl_ex_b pwl_ex_h) /\
  pwl_moves pwl_ex_c (dyk_iter pwl_ex_c 1 (dyk_init pwl_ex_b pwl_ex_h)) <= 0 /\
  0 < pwl_moves pwl_ex_c (dyk_init pwl_ex_b pwl_ex_h) /\
  pwl_valid pwl_ex_c 3 /\ feasible pwl_ex_c 0 [1; 1; 1].
Proof. split; [exact pwl_ex_mb|]. split; [lia|]. split; [reflexivity|].
  assert (R : forall k, k = 1%nat \/ k = 3%nat -> reproduces pwl_ex_c (dyk_iter pwl_ex_c k (dyk_init pwl_ex_b pwl_ex_h))).
  { intros k [-> | ->]; vm_compute; repeat constructor. }
  split; [apply R; auto|]. split; [apply R; auto|]. split.
  { vm_compute. repeat constructor. }
  split. { vm_compute. intros (H & _). discriminate H. }
  split. { qle_compute. }
  split. { vm_compute. reflexivity. }
  split. exact pwl_ex_valid. exact pwl_ex_feasible. Qed.

(* the movement bound: strict for Y = (0; 1, 1, 1), tight for the nearest point
   Y = (0; 1/2, 1/2, 0) *)
Example pwl_never_farther_hyps :
  feasible pwl_ex_c 0 [1; 1; 1] /\ feasible pwl_ex_c 0 [1#2; 1#2; 0] /\
  wd2 (wl (dyk_iter pwl_ex_c 2 (dyk_init pwl_ex_b pwl_ex_h))) [0; 1; 1; 1] + qsum (pwl_loop_moves pwl_ex_c 2 (dyk_init pwl_ex_b pwl_ex_h))
    < wd2 (pwl_ex_b :: pwl_ex_h) [0; 1; 1; 1] /\
  wd2 (wl (dyk_iter pwl_ex_c 2 (dyk_init pwl_ex_b pwl_ex_h))) [0; 1#2; 1#2; 0] + qsum (pwl_loop_moves pwl_ex_c 2 (dyk_init pwl_ex_b pwl_ex_h))
    == wd2 (pwl_ex_b :: pwl_ex_h) [0; 1#2; 1#2; 0].
Proof. split; [exact pwl_ex_feasible|]. split.
  - apply (feasible_iff_sets _ _ _ pwl_ex_mb). split.
    + repeat constructor; unfold sign_ok; cbn; lra.
    + unfold bounds_set, pwl_ex_c; cbn. split; qle_compute.
  - split. vm_compute. reflexivity. apply Qeq_bool_eq. vm_compute. reflexivity. Qed.

(* decreasing, CLAMPED maximum at the left end and BOUND minimum: the set is
   bias == 4 /\ 0 <= bias + sum heights; the map lands in the set and the
   hypotheses of the theorems hold *)
Definition pwl_ex_c2 : pwl_cfg := mkPwl (-1) 0 0 4 BBound BClamped [1; 1; 1] 2.
Example pwl_dec_clamped_hyps :
  pwl_mb pwl_ex_c2 /\ pwl_valid pwl_ex_c2 3 /\ feasible pwl_ex_c2 4 [-1; -1; -1] /\
  reproduces pwl_ex_c2 (dyk_iter pwl_ex_c2 1 (dyk_init 5 [-1; 1; -1])) /\
  qleq (wl (dyk_iter pwl_ex_c2 1 (dyk_init 5 [-1; 1; -1]))) [4; -1; 0; -1].
Proof. assert (M : pwl_mb pwl_ex_c2) by (repeat split; right; reflexivity).
  split; [exact M|]. split.
  { unfold pwl_valid, pwl_ex_c2; cbn. repeat split; try lia; try (intros; discriminate); auto. repeat constructor. }
  split.
  { apply (feasible_iff_sets _ _ _ M). split.
    - repeat constructor; unfold sign_ok; cbn; lra.
    - unfold bounds_set, pwl_ex_c2; cbn. split. reflexivity. qle_compute. }
  split.
  { vm_compute. repeat constructor. }
  vm_compute. repeat constructor. Qed.

(* feasibility = membership of the weight vector in both sets *)
Lemma feasible_iff_vec c n b h : pwl_mb c -> length h = n ->
  (feasible c b h <-> (CBv c n (vof (b :: h)) /\ CMv (p_mono c) n (vof (b :: h)))).
Proof. intros Hc HL. rewrite (feasible_iff_sets c b h Hc). apply in_sets_vec. exact HL. Qed.

(* the loop does not in general reach a fixpoint after finitely many iterations:
   same configuration, start (5; -3, 1, -3); the nearest feasible column is
   (4; -2, 0, -2) *)
Example pwl_not_finite_example :
  qleq (wl (dyk_iter pwl_ex_c2 2 (dyk_init 5 [-3; 1; -3]))) [4; -20#9; 0; -20#9] /\
  ~ reproduces pwl_ex_c2 (dyk_iter pwl_ex_c2 2 (dyk_init 5 [-3; 1; -3])) /\
  feasible pwl_ex_c2 4 [-2; 0; -2].
Proof. split. vm_compute. repeat constructor. split.
  - intros (_ & H & _). apply (qleq_nth _ _ 0%nat) in H. vm_compute in H. discriminate H.
  - apply feasible_iff_sets. repeat split; right; reflexivity. split.
    + repeat constructor; unfold sign_ok; cbn; lra.
    + unfold bounds_set, pwl_ex_c2; cbn. split. reflexivity. apply Qle_bool_iff; vm_compute; reflexivity. Qed.
