(* Square roots without the exact-root idealisation.

   Several L2 theorems (C06 order-2 normalisation, C13 scalar torsion amounts,
   C12 L2 norm test) were stated for an oracle r with r * r == s.  Over Q such
   an r exists only when s is a rational square, so for almost every input the
   hypothesis is unsatisfiable.  This file proves statements that hold for
   EVERY input:

   A. normalisation by ANY r <> 0:   sumsq (w / r) * (r * r) == sumsq w, and the
      approximate-root corollary   (1-e) s <= r*r <= (1+e) s  ->
      1 <= sumsq (w / r) * (1+e)  /\  sumsq (w / r) * (1-e) <= 1;
   B. the EXECUTED root qsqrt (60 Newton steps from 1 + a, every step rounded
      DOWN to a multiple of u = 2^-80): for every a
        0 <= qsqrt a,   0 < qsqrt a -> a <= (qsqrt a + u)^2,
      for 2^-158 < a:   u < qsqrt a  and
        qsqrt a ^2 <= a + (1 + a + a^2) / 4^60 + (9/4) u^2,
      hence for 1e-16 <= a <= 2^32:  (1 - 2^-50) a <= qsqrt a ^2 <= (1 + 2^-64) a.
      Because of the rounding DOWN the one-sided bound a <= qsqrt a ^2 is FALSE
      (qsqrt_two_below: qsqrt 2 ^2 < 2);
   C. instances for lin_project_col (C06), the scalar torsion amount (C13) and
      the L2 norm test of assert_constraints (C12), the L2 analogue for the
      Linear layer output (C20). *)
From TFL Require Import Model.LinearProject Proofs.PartialOrder Proofs.TopoSort Proofs.LinearProject.
From TFL Require Import Model.LinearEval Proofs.LinearEval Model.LinearLayer Proofs.LinearComposed.
From Coq Require Import Lia Lra Psatz.
Open Scope Q_scope.

(* ====================================================================== *)
(* A. normalisation by an arbitrary divisor                                *)
(* ====================================================================== *)
Definition sumsq (w : list Q) : Q := qsum (map (fun x => x * x) w).

Lemma sumsq_qsq w : sumsq w = qsum (map qsq w).
Proof. reflexivity. Qed.
Lemma sumsq_nonneg w : 0 <= sumsq w.
Proof. rewrite sumsq_qsq. apply qsum_sq_nonneg. Qed.

(* the exact identity: no hypothesis on r except that one can divide by it *)
Lemma sumsq_div_any (r : Q) w : ~ r == 0 -> sumsq (map (fun x => x / r) w) * (r * r) == sumsq w.
Proof. intros Hr. unfold sumsq. rewrite map_map.
  rewrite (qsum_map_ext (fun x => x / r * (x / r)) (fun x => (/ r * / r) * (x * x))).
  - rewrite qsum_map_scale. field. exact Hr.
  - intros x _. field. exact Hr. Qed.
(* the model divides and reduces the fraction *)
Lemma sumsq_div_red_any (r : Q) w : ~ r == 0 -> sumsq (map (fun x => Qred (x / r)) w) * (r * r) == sumsq w.
Proof. intros Hr. rewrite <- (sumsq_div_any r w Hr). unfold sumsq. rewrite !map_map.
  apply Qmult_comp; [|reflexivity]. apply qsum_map_ext. intros x _. rewrite Qred_correct. reflexivity. Qed.

(* T * (r*r) == s with an approximate root: T is within the same relative error of 1 *)
Lemma approx_root_unit (T r s e : Q) : 0 <= T -> T * (r * r) == s -> 0 < s ->
  (1 - e) * s <= r * r -> r * r <= (1 + e) * s ->
  1 <= T * (1 + e) /\ T * (1 - e) <= 1.
Proof. intros HT Hid Hs Hlo Hhi. set (q := r * r) in *. split.
  - (* s = T q <= T (1+e) s *)
    destruct (Qlt_le_dec (T * (1 + e)) 1) as [C|C]; [exfalso|exact C].
    pose proof (qmul_le_l T q ((1 + e) * s) HT Hhi) as H1.
    assert (H2 : (T * (1 + e)) * s < 1 * s). { apply Qmult_lt_compat_r; assumption. }
    lra.
  - destruct (Qlt_le_dec 1 (T * (1 - e))) as [C|C]; [exfalso|exact C].
    pose proof (qmul_le_l T ((1 - e) * s) q HT Hlo) as H1.
    assert (H2 : 1 * s < (T * (1 - e)) * s). { apply Qmult_lt_compat_r; assumption. }
    lra. Qed.

Lemma approx_root_unit_div (r : Q) w e : 0 < r -> 0 < sumsq w ->
  (1 - e) * sumsq w <= r * r -> r * r <= (1 + e) * sumsq w ->
  1 <= sumsq (map (fun x => x / r) w) * (1 + e) /\ sumsq (map (fun x => x / r) w) * (1 - e) <= 1.
Proof. intros Hr Hs Hlo Hhi. apply (approx_root_unit _ r (sumsq w) e); try assumption.
  - apply sumsq_nonneg.
  - apply sumsq_div_any. lra. Qed.

(* ---------- the model's order-2 branch ---------- *)
Lemma normalize_l2_any rt w :
  (rt (sumsq w) < norm_eps /\ peq (normalize rt 2 w) w) \/
  (norm_eps <= rt (sumsq w) /\ sumsq (normalize rt 2 w) * (rt (sumsq w) * rt (sumsq w)) == sumsq w).
Proof. destruct (Qlt_le_dec (col_norm rt 2 w) norm_eps) as [H|H].
  - left. split; [exact H|]. apply normalize_small. exact H.
  - right. split; [exact H|]. rewrite normalize_S. unfold norm_div. apply qlt_false in H. rewrite H. apply qlt_false in H.
    cbn [col_norm] in *. fold (sumsq w) in *. apply sumsq_div_red_any. unfold norm_eps in H. lra. Qed.

Lemma normalize_l2_approx rt w e :
  (1 - e) * sumsq w <= rt (sumsq w) * rt (sumsq w) -> rt (sumsq w) * rt (sumsq w) <= (1 + e) * sumsq w -> e < 1 ->
  (rt (sumsq w) < norm_eps /\ peq (normalize rt 2 w) w) \/
  (norm_eps <= rt (sumsq w) /\ 0 < sumsq w /\
   1 <= sumsq (normalize rt 2 w) * (1 + e) /\ sumsq (normalize rt 2 w) * (1 - e) <= 1).
Proof. intros Hlo Hhi He. destruct (normalize_l2_any rt w) as [H|[H Hid]]; [left; exact H|right].
  split; [exact H|]. set (r := rt (sumsq w)) in *. set (s := sumsq w) in *.
  assert (Hr : 0 < r) by (unfold norm_eps in H; lra).
  assert (Hrr : 0 < r * r) by (apply Qmult_lt_0_compat; assumption).
  assert (Hs : 0 < s).
  { destruct (Qlt_le_dec 0 s) as [C|C]; [exact C|exfalso].
    pose proof (sumsq_nonneg w) as Hn. fold s in Hn. assert (s == 0) by lra. rewrite H0 in Hhi. lra. }
  split; [exact Hs|]. apply (approx_root_unit _ r s e); try assumption. apply sumsq_nonneg. Qed.

(* ---------- lin_project_col ---------- *)
Lemma lin_norm2_any rt c n w r :
  lin_valid c n -> length w = n -> lc_norm c = 2%nat -> lin_project_col rt c w = Some r ->
  exists w3, lin_project_col rt (with_norm c 0) w = Some w3 /\
    let S := sumsq w3 in
    (rt S < norm_eps /\ peq r w3) \/ (norm_eps <= rt S /\ sumsq r * (rt S * rt S) == S).
Proof. intros V L N E. destruct (lin_spec rt c n w r V L E) as [w3 [e [E3 [Er _]]]].
  exists w3. rewrite lin_pre_norm0. split; [exact E3|]. rewrite N in Er. subst r. cbv zeta. apply normalize_l2_any. Qed.

Lemma lin_norm2_approx rt c n w r :
  lin_valid c n -> length w = n -> lc_norm c = 2%nat -> lin_project_col rt c w = Some r ->
  exists w3, lin_project_col rt (with_norm c 0) w = Some w3 /\
    let S := sumsq w3 in
    forall e, e < 1 -> (1 - e) * S <= rt S * rt S -> rt S * rt S <= (1 + e) * S ->
    (rt S < norm_eps /\ peq r w3) \/
    (norm_eps <= rt S /\ 0 < S /\ 1 <= sumsq r * (1 + e) /\ sumsq r * (1 - e) <= 1).
Proof. intros V L N E. destruct (lin_spec rt c n w r V L E) as [w3 [e0 [E3 [Er _]]]].
  exists w3. rewrite lin_pre_norm0. split; [exact E3|]. rewrite N in Er. subst r. cbv zeta.
  intros e He Hlo Hhi. apply normalize_l2_approx; assumption. Qed.

(* the exact-root theorem (Proofs/LinearProject.v lin_norm2, Props C06_norm_one_or_zero_l2)
   is the instance e = 0 of lin_norm2_approx *)
Lemma lin_norm2_exact_instance rt c n w r :
  lin_valid c n -> length w = n -> lc_norm c = 2%nat -> lin_project_col rt c w = Some r ->
  exists w3, lin_project_col rt (with_norm c 0) w = Some w3 /\
    let S := qsum (map (fun x => x * x) w3) in
    (rt S * rt S == S ->
     qsum (map (fun x => x * x) r) == 1 \/ (rt S < norm_eps /\ peq r w3)).
Proof. intros V L N E. destruct (lin_norm2_approx rt c n w r V L N E) as [w3 [E3 H]].
  exists w3. split; [exact E3|]. cbv zeta in *. fold (sumsq w3). fold (sumsq r). intros Hex.
  destruct (H 0 ltac:(lra) ltac:(lra) ltac:(lra)) as [A|[_ [_ [A B]]]]; [right; exact A|left; lra]. Qed.

(* ====================================================================== *)
(* B. the executed root: truncated Newton iteration                        *)
(* ====================================================================== *)
Definition u80 : Q := 1 # (2 ^ 80).
Lemma u80_pos : 0 < u80. Proof. reflexivity. Qed.

Lemma floor_grid (d : positive) (x : Q) :
  (Qfloor (x * inject_Z (Zpos d)) # d) <= x /\ x - (1 # d) < (Qfloor (x * inject_Z (Zpos d)) # d).
Proof. set (c := inject_Z (Zpos d)). assert (Hc : 0 < c) by reflexivity.
  assert (E0 : (Qfloor (x * c) # d) == inject_Z (Qfloor (x * c)) / c) by (unfold c; rewrite Qmake_Qdiv; reflexivity).
  split.
  - rewrite E0. apply Qle_shift_div_r; [exact Hc|]. apply Qfloor_le.
  - rewrite E0. apply Qlt_shift_div_l; [exact Hc|].
    assert (E : (1 # d) == 1 / c) by (unfold c; rewrite Qmake_Qdiv; reflexivity).
    rewrite E. pose proof (Qlt_floor (x * c)) as H. rewrite inject_Z_plus in H.
    assert (E2 : (x - 1 / c) * c == x * c - 1) by (field; lra). rewrite E2.
    change (inject_Z 1) with 1 in H. lra. Qed.

Lemma pow80 : (2 ^ 80)%Z = Zpos (2 ^ 80)%positive. Proof. reflexivity. Qed.
Lemma qtrunc_le z : qtrunc z <= z.
Proof. unfold qtrunc. rewrite Qred_correct, pow80. apply floor_grid. Qed.
Lemma qtrunc_gt z : z - u80 < qtrunc z.
Proof. unfold qtrunc, u80. rewrite Qred_correct, pow80. apply floor_grid. Qed.
Lemma qtrunc_nonneg z : 0 <= z -> 0 <= qtrunc z.
Proof. intros Hz. unfold qtrunc. rewrite Qred_correct, pow80. set (d := (2 ^ 80)%positive).
  assert (H : (0 <= Qfloor (z * inject_Z (Zpos d)))%Z).
  { change 0%Z with (Qfloor 0). apply Qfloor_resp_le. apply qmul_nonneg; [exact Hz|discriminate]. }
  unfold Qle. cbn [Qnum Qden]. lia. Qed.
Lemma qtrunc_comp x y : x == y -> qtrunc x = qtrunc y.
Proof. intros H. unfold qtrunc. rewrite H. reflexivity. Qed.

(* one exact Newton step z = (y + a/y)/2 followed by ANY rounding y' with z - u < y' <= z *)
Section Step.
Variables (u a y y' : Q).
Hypotheses (Hu : 0 < u) (Ha : 0 < a) (Hy : 0 < y).
Let z := (y + a / y) * (1#2).
Hypothesis (Hlo : z - u < y').

Lemma step_q : exists q, 0 < q /\ q * y == a /\ z == (y + q) * (1#2).
Proof. exists (a / y). split; [|split].
  - apply Qlt_shift_div_l; [exact Hy|lra].
  - field. lra.
  - reflexivity. Qed.

(* AM-GM: z^2 >= a, hence (y' + u)^2 >= a *)
Lemma step_lower : a <= (y' + u) * (y' + u).
Proof. destruct step_q as [q [Hq [Hqa Hz]]]. rewrite Hz in Hlo.
  assert (Hz0 : 0 < (y + q) * (1#2)) by lra.
  assert (H1 : a <= (y + q) * (1#2) * ((y + q) * (1#2))).
  { rewrite <- Hqa. pose proof (qmul_nonneg (y - q) (y - q)) as P.
    destruct (Qlt_le_dec (y - q) 0) as [C|C].
    - pose proof (qmul_nonneg (q - y) (q - y) ltac:(lra) ltac:(lra)). lra.
    - specialize (P C C). lra. }
  set (t := (y + q) * (1#2)) in *. set (v := y' + u).
  assert (Hv : t < v) by (unfold v; lra).
  assert (H2 : t * t <= v * v).
  { pose proof (qmul_le_l t t v ltac:(lra) ltac:(lra)). pose proof (qmul_le_l v t v ltac:(lra) ltac:(lra)). lra. }
  lra. Qed.

Lemma step_pos : 4 * (u * u) < a -> u < y'.
Proof. intros H4. destruct (Qlt_le_dec u y') as [C|C]; [exact C|exfalso].
  pose proof step_lower as L. destruct step_q as [q [Hq [Hqa Hz]]]. rewrite Hz in Hlo.
  set (v := y' + u) in *. assert (Hv0 : 0 < v) by (unfold v; lra). assert (Hv2 : v <= 2 * u) by (unfold v; lra).
  pose proof (qmul_le_l v v (2 * u) ltac:(lra) Hv2). pose proof (qmul_le_l (2 * u) v (2 * u) ltac:(lra) Hv2). lra. Qed.

(* error after the step: quartered while above the root, at most (9/4) u^2 once below *)
Hypotheses (Hhi : y' <= z) (Hy' : 0 <= y') (Hyu : u < y) (Hinv : a <= (y + u) * (y + u)).
Lemma step_upper E : 0 <= E -> y * y - a <= E + (9#4) * (u * u) ->
  y' * y' - a <= E * (1#4) + (9#4) * (u * u).
Proof. intros HE HD. destruct step_q as [q [Hq [Hqa Hz]]]. rewrite Hz in Hhi.
  set (t := (y + q) * (1#2)) in *.
  assert (Ht : y' * y' <= t * t).
  { pose proof (qmul_le_l y' y' t Hy' Hhi). pose proof (qmul_le_l t y' t ltac:(lra) Hhi). lra. }
  assert (Huu : 0 < u * u) by (apply Qmult_lt_0_compat; exact Hu).
  (* t^2 - a = (y - q)^2 / 4 *)
  assert (Ht2 : t * t - a == (y - q) * (y - q) * (1#4)) by (unfold t; rewrite <- Hqa; ring).
  destruct (Qlt_le_dec y q) as [C|C].
  - (* below the root: q - y <= 3 u *)
    assert (Hd : q - y <= 3 * u).
    { destruct (Qlt_le_dec (3 * u) (q - y)) as [C2|C2]; [exfalso|exact C2].
      assert (P : y * (3 * u) < y * (q - y)) by (apply Qmult_lt_l; assumption).
      assert (P2 : u * u < u * y) by (apply Qmult_lt_l; assumption).
      rewrite <- Hqa in Hinv. lra. }
    assert (Hsq : (q - y) * (q - y) <= 3 * u * (3 * u)).
    { pose proof (qmul_le_l (q - y) (q - y) (3 * u) ltac:(lra) Hd). pose proof (qmul_le_l (3 * u) (q - y) (3 * u) ltac:(lra) Hd). lra. }
    assert (Hsame : (y - q) * (y - q) == (q - y) * (q - y)) by ring.
    pose proof (qmul_nonneg E (1#4) HE ltac:(lra)). lra.
  - (* above the root: (y - q)^2 <= y (y - q) = y^2 - a *)
    assert (Hsq : (y - q) * (y - q) <= y * y - a).
    { rewrite <- Hqa. pose proof (qmul_nonneg q (y - q) ltac:(lra) ltac:(lra)). lra. }
    lra. Qed.
End Step.

Fixpoint qpow4 (n : nat) : Q := match n with O => 1 | S n' => (1#4) * qpow4 n' end.
Lemma qpow4_nonneg n : 0 <= qpow4 n.
Proof. induction n; cbn [qpow4]; lra. Qed.

Definition nstep (a y : Q) : Q := qtrunc ((y + a / y) * (1#2)).
Lemma newton_S n a y : newton (S n) a y = newton n a (nstep a y).
Proof. reflexivity. Qed.

(* every input: the result is >= 0 and, when positive, at most u below the root *)
Lemma nstep_weak a y : 0 < a -> 0 <= y -> 0 <= nstep a y /\ (0 < nstep a y -> a <= (nstep a y + u80) * (nstep a y + u80)).
Proof. intros Ha Hy. unfold nstep. destruct (Qlt_le_dec 0 y) as [C|C].
  - split.
    + apply qtrunc_nonneg. assert (0 < a / y) by (apply Qlt_shift_div_l; [exact C|lra]). lra.
    + intros _. apply (step_lower u80 a y _ Ha C). apply qtrunc_gt.
  - assert (E : y == 0) by lra.
    assert (Z : (y + a / y) * (1#2) == 0). { rewrite E. unfold Qdiv. change (/ 0) with 0. ring. }
    rewrite (qtrunc_comp _ _ Z). split; [discriminate|intros H; discriminate H]. Qed.
Lemma newton_weak a : 0 < a -> forall n y, 0 <= y -> (0 < y -> a <= (y + u80) * (y + u80)) ->
  0 <= newton n a y /\ (0 < newton n a y -> a <= (newton n a y + u80) * (newton n a y + u80)).
Proof. intros Ha. induction n as [|n IH]; intros y Hy Hinv.
  - split; assumption.
  - rewrite newton_S. destruct (nstep_weak a y Ha Hy) as [A B]. apply IH; assumption. Qed.

(* inputs above 4 u^2 = 2^-158: the iterates stay above u and the error decays *)
Lemma newton_strong a : 4 * (u80 * u80) < a -> forall n y E,
  u80 < y -> a <= (y + u80) * (y + u80) -> 0 <= E -> y * y - a <= E + (9#4) * (u80 * u80) ->
  u80 < newton n a y /\ a <= (newton n a y + u80) * (newton n a y + u80) /\
  newton n a y * newton n a y - a <= E * qpow4 n + (9#4) * (u80 * u80).
Proof. intros H4. assert (Ha : 0 < a). { pose proof u80_pos. pose proof (qmul_nonneg u80 u80). lra. }
  induction n as [|n IH]; intros y E Hy Hinv HE HD.
  - cbn [newton qpow4]. split; [exact Hy|split; [exact Hinv|lra]].
  - rewrite newton_S. pose proof u80_pos as Hu. assert (Hy0 : 0 < y) by lra.
    assert (Hgt : (y + a / y) * (1#2) - u80 < nstep a y) by apply qtrunc_gt.
    assert (Hle : nstep a y <= (y + a / y) * (1#2)) by apply qtrunc_le.
    pose proof (step_pos u80 a y _ Hu Ha Hy0 Hgt H4) as P1.
    pose proof (step_lower u80 a y _ Ha Hy0 Hgt) as P2.
    pose proof (step_upper u80 a y _ Hu Ha Hy0 Hle ltac:(lra) Hy Hinv E HE HD) as P3.
    destruct (IH (nstep a y) (E * (1#4)) P1 P2 ltac:(lra) P3) as [A [B C]].
    split; [exact A|split; [exact B|]]. cbn [qpow4]. lra. Qed.

(* ---------- qsqrt ---------- *)
Lemma qsqrt_pos_arg a : 0 < a -> qsqrt a = newton 60 a (1 + a).
Proof. intros Ha. unfold qsqrt. destruct (Qle_bool a 0) eqn:E; [|reflexivity].
  apply Qle_bool_iff in E. lra. Qed.
Lemma qsqrt_nonpos_arg a : a <= 0 -> qsqrt a = 0.
Proof. intros Ha. unfold qsqrt. apply Qle_bool_iff in Ha. rewrite Ha. reflexivity. Qed.

Lemma start_above a : 0 < a -> a <= (1 + a + u80) * (1 + a + u80).
Proof. intros Ha. pose proof u80_pos as Hu.
  pose proof (qmul_nonneg a a ltac:(lra) ltac:(lra)). pose proof (qmul_nonneg u80 u80 ltac:(lra) ltac:(lra)).
  pose proof (qmul_nonneg a u80 ltac:(lra) ltac:(lra)). lra. Qed.

Theorem qsqrt_nonneg a : 0 <= qsqrt a.
Proof. destruct (Qlt_le_dec 0 a) as [Ha|Ha].
  - rewrite (qsqrt_pos_arg a Ha). apply (newton_weak a Ha); [lra|intros _; apply start_above; exact Ha].
  - rewrite (qsqrt_nonpos_arg a Ha). lra. Qed.
(* never more than u = 2^-80 below the true root *)
Theorem qsqrt_lower a : 0 < qsqrt a -> a <= (qsqrt a + u80) * (qsqrt a + u80).
Proof. destruct (Qlt_le_dec 0 a) as [Ha|Ha].
  - rewrite (qsqrt_pos_arg a Ha). apply (newton_weak a Ha); [lra|intros _; apply start_above; exact Ha].
  - rewrite (qsqrt_nonpos_arg a Ha). intros H. discriminate H. Qed.

Lemma qpow4_60 : qpow4 60 == 1 # (2 ^ 120).
Proof. vm_compute. reflexivity. Qed.

Theorem qsqrt_strong a : 4 * (u80 * u80) < a ->
  u80 < qsqrt a /\ a <= (qsqrt a + u80) * (qsqrt a + u80) /\
  qsqrt a * qsqrt a <= a + (1 + a + a * a) * (1 # (2 ^ 120)) + (9#4) * (u80 * u80).
Proof. intros H4. pose proof u80_pos as Hu. assert (Ha : 0 < a). { pose proof (qmul_nonneg u80 u80). lra. }
  rewrite (qsqrt_pos_arg a Ha).
  pose proof (qmul_nonneg a a ltac:(lra) ltac:(lra)) as Haa.
  destruct (newton_strong a H4 60 (1 + a) (1 + a + a * a)) as [A [B C]].
  - assert (u80 < 1) by reflexivity. lra.
  - apply start_above. exact Ha.
  - lra.
  - pose proof (qmul_nonneg u80 u80 ltac:(lra) ltac:(lra)). lra.
  - split; [exact A|split; [exact B|]]. rewrite qpow4_60 in C. lra. Qed.

Theorem qsqrt_pos a : 4 * (u80 * u80) < a -> 0 < qsqrt a.
Proof. intros H. pose proof (qsqrt_strong a H) as [A _]. pose proof u80_pos. lra. Qed.

(* ---------- consequences in relative form ---------- *)
Lemma p120 : (2 ^ 120)%positive = 1329227995784915872903807060280344576%positive. Proof. reflexivity. Qed.
Lemma p80 : (2 ^ 80)%positive = 1208925819614629174706176%positive. Proof. reflexivity. Qed.
Lemma p64 : (2 ^ 64)%positive = 18446744073709551616%positive. Proof. reflexivity. Qed.
Lemma p60 : (2 ^ 60)%positive = 1152921504606846976%positive. Proof. reflexivity. Qed.
Lemma p51 : (2 ^ 51)%positive = 2251799813685248%positive. Proof. reflexivity. Qed.
Lemma p50 : (2 ^ 50)%positive = 1125899906842624%positive. Proof. reflexivity. Qed.
Lemma p32 : (2 ^ 32)%positive = 4294967296%positive. Proof. reflexivity. Qed.
Lemma p16 : (10 ^ 16)%positive = 10000000000000000%positive. Proof. reflexivity. Qed.
Ltac lits := unfold u80, norm_eps in *; rewrite ?p120, ?p80, ?p64, ?p60, ?p51, ?p50, ?p32, ?p16 in *.

Lemma sq_le_sq x y : 0 <= x -> x <= y -> x * x <= y * y.
Proof. intros Hx Hxy. pose proof (qmul_le_l x x y Hx Hxy). pose proof (qmul_le_l y x y ltac:(lra) Hxy). lra. Qed.
Lemma sq_lt_sq x y : 0 <= x -> x < y -> x * x < y * y.
Proof. intros Hx Hxy. pose proof (qmul_le_l x x y Hx ltac:(lra)).
  assert (x * y < y * y) by (apply Qmult_lt_compat_r; lra). lra. Qed.

(* a <= (q + u)^2 and u <= k q  give  a <= (1 + k)^2 q^2 *)
Lemma rel_lower_k (q a u k : Q) : 0 <= q -> 0 <= u -> u <= k * q -> a <= (q + u) * (q + u) ->
  a <= (1 + k) * (1 + k) * (q * q).
Proof. intros Hq Hu Hk Ha. pose proof (sq_le_sq (q + u) ((1 + k) * q) ltac:(lra) ltac:(lra)). lra. Qed.

(* the guard of the model: once the executed root is at least 1e-8, its square
   is at least a / (1 + 2^-51) *)
Theorem qsqrt_guard_lower a : norm_eps <= qsqrt a -> a <= (1 + (1 # 2 ^ 51)) * (qsqrt a * qsqrt a).
Proof. intros Hg. set (q := qsqrt a) in *.
  assert (Hq : 0 < q) by (unfold norm_eps in Hg; lra).
  pose proof (qsqrt_lower a Hq) as L. fold q in L.
  pose proof (rel_lower_k q a u80 (1 # 2 ^ 53) ltac:(lra) ltac:(pose proof u80_pos; lra)) as R.
  assert (Hk : u80 <= (1 # 2 ^ 53) * q).
  { assert (E : u80 <= (1 # 2 ^ 53) * norm_eps) by (vm_compute; discriminate).
    pose proof (qmul_le_l (1 # 2 ^ 53) norm_eps q ltac:(discriminate) Hg). lra. }
  specialize (R Hk L).
  assert (Hc : (1 + (1 # 2 ^ 53)) * (1 + (1 # 2 ^ 53)) <= 1 + (1 # 2 ^ 51)) by (vm_compute; discriminate).
  pose proof (qmul_nonneg q q ltac:(lra) ltac:(lra)) as Hqq.
  pose proof (qmul_le_r _ _ (q * q) Hqq Hc). lra. Qed.

(* small inputs: every positive iterate is a multiple of u, hence >= u, and the
   iterates halve down to about 4 u *)
Lemma qtrunc_grid z : 0 < qtrunc z -> u80 <= qtrunc z.
Proof. unfold qtrunc, u80. rewrite !Qred_correct, pow80. set (d := (2 ^ 80)%positive).
  set (k := Qfloor (z * inject_Z (Z.pos d))). unfold Qlt, Qle. cbn [Qnum Qden]. nia. Qed.

Fixpoint qpow2 (n : nat) : Q := match n with O => 1 | S n' => (1#2) * qpow2 n' end.
Lemma newton_small a : 0 < a -> a <= 4 * (u80 * u80) -> forall n y B,
  0 <= y -> (0 < y -> u80 <= y) -> 0 <= B -> y <= B + 4 * u80 -> newton n a y <= B * qpow2 n + 4 * u80.
Proof. intros Ha Hs. pose proof u80_pos as Hu. induction n as [|n IH]; intros y B Hy Hg HB Hle.
  - cbn [newton qpow2]. lra.
  - rewrite newton_S. cbn [qpow2].
    assert (Hn : 0 <= nstep a y) by (apply nstep_weak; assumption).
    assert (Hgn : 0 < nstep a y -> u80 <= nstep a y) by (unfold nstep; apply qtrunc_grid).
    assert (Hb : nstep a y <= B * (1#2) + 4 * u80).
    { unfold nstep. eapply Qle_trans; [apply qtrunc_le|].
      destruct (Qlt_le_dec 0 y) as [C|C].
      - specialize (Hg C). assert (Hd : a / y <= 4 * u80).
        { apply Qle_shift_div_r; [exact C|]. pose proof (qmul_le_l (4 * u80) u80 y ltac:(lra) Hg). lra. }
        lra.
      - assert (E : y == 0) by lra. rewrite E. unfold Qdiv. change (/ 0) with 0. lra. }
    pose proof (IH (nstep a y) (B * (1#2)) Hn Hgn ltac:(lra) Hb). lra. Qed.

Lemma qpow2_60 : qpow2 60 == 1 # (2 ^ 60).
Proof. vm_compute. reflexivity. Qed.

Theorem qsqrt_small a : a <= 4 * (u80 * u80) -> qsqrt a < norm_eps.
Proof. intros Hs. destruct (Qlt_le_dec 0 a) as [Ha|Ha].
  - rewrite (qsqrt_pos_arg a Ha). pose proof u80_pos as Hu.
    pose proof (newton_small a Ha Hs 60 (1 + a) (1 + a) ltac:(lra)) as H.
    assert (Hu1 : u80 <= 1) by (vm_compute; discriminate).
    specialize (H ltac:(intros _; lra) ltac:(lra) ltac:(lra)). rewrite qpow2_60 in H.
    assert (Hb : 4 * (u80 * u80) <= 1) by (vm_compute; discriminate).
    assert (Hc : 2 * (1 # 2 ^ 60) + 4 * u80 < norm_eps) by (vm_compute; reflexivity).
    assert (Hd : (1 + a) * (1 # 2 ^ 60) <= 2 * (1 # 2 ^ 60)).
    { apply qmul_le_r; [discriminate|lra]. }
    lra.
  - rewrite (qsqrt_nonpos_arg a Ha). reflexivity. Qed.

Corollary qsqrt_guard_range a : norm_eps <= qsqrt a -> 4 * (u80 * u80) < a.
Proof. intros Hg. destruct (Qlt_le_dec (4 * (u80 * u80)) a) as [C|C]; [exact C|].
  pose proof (qsqrt_small a C). lra. Qed.

(* relative upper bound on a range of inputs *)
Theorem qsqrt_range_upper a : norm_eps * norm_eps * (1#2) <= a -> a <= inject_Z (2 ^ 32) ->
  qsqrt a * qsqrt a <= (1 + (1 # 2 ^ 64)) * a.
Proof. intros Hlo Hhi.
  assert (H4 : 4 * (u80 * u80) < a).
  { assert (4 * (u80 * u80) < norm_eps * norm_eps * (1#2)) by reflexivity. lra. }
  destruct (qsqrt_strong a H4) as [_ [_ U]].
  assert (Ha : 0 < a) by (assert (0 < norm_eps * norm_eps * (1#2)) by reflexivity; lra).
  change (inject_Z (2 ^ 32)) with 4294967296 in Hhi.
  assert (N : norm_eps * norm_eps * (1#2) == 1 # (2 * 10 ^ 16)) by reflexivity. rewrite N in Hlo.
  assert (P2e16 : (2 * 10 ^ 16)%positive = 20000000000000000%positive) by reflexivity. rewrite P2e16 in Hlo.
  assert (Huu : u80 * u80 == 1 # (2 ^ 80 * 2 ^ 80)) by reflexivity. rewrite Huu in U.
  assert (P160 : (2 ^ 80 * 2 ^ 80)%positive = 1461501637330902918203684832716283019655932542976%positive) by reflexivity.
  rewrite P160 in U. lits.
  destruct (Qlt_le_dec a 1) as [C|C].
  - pose proof (qmul_le_l a a 1 ltac:(lra) ltac:(lra)) as Hsq. lra.
  - pose proof (qmul_le_l a a 4294967296 ltac:(lra) Hhi) as Hsq. lra. Qed.

(* two-sided relative error of the executed root on [1e-16, 2^32] *)
Theorem qsqrt_range a : norm_eps * norm_eps <= a -> a <= inject_Z (2 ^ 32) ->
  0 < qsqrt a /\ (1 - (1 # 2 ^ 50)) * a <= qsqrt a * qsqrt a /\ qsqrt a * qsqrt a <= (1 + (1 # 2 ^ 64)) * a.
Proof. intros Hlo Hhi.
  assert (H4 : 4 * (u80 * u80) < a).
  { assert (4 * (u80 * u80) < norm_eps * norm_eps) by reflexivity. lra. }
  destruct (qsqrt_strong a H4) as [P [L _]]. pose proof u80_pos as Hu. set (q := qsqrt a) in *.
  split; [lra|]. split; [|apply qsqrt_range_upper; [assert (0 <= norm_eps * norm_eps) by discriminate; lra|assumption]].
  (* q >= norm_eps / 2 *)
  assert (Hh : norm_eps * (1#2) <= q).
  { destruct (Qlt_le_dec q (norm_eps * (1#2))) as [C|C]; [exfalso|exact C].
    assert (Hs : q + u80 < norm_eps). { assert (u80 < norm_eps * (1#2)) by reflexivity. lra. }
    pose proof (sq_lt_sq (q + u80) norm_eps ltac:(lra) Hs). lra. }
  assert (Hk : u80 <= (1 # 2 ^ 52) * q).
  { assert (E : u80 <= (1 # 2 ^ 52) * (norm_eps * (1#2))) by (vm_compute; discriminate).
    pose proof (qmul_le_l (1 # 2 ^ 52) _ q ltac:(discriminate) Hh). lra. }
  pose proof (rel_lower_k q a u80 (1 # 2 ^ 52) ltac:(lra) ltac:(lra) Hk L) as R.
  pose proof (qmul_nonneg q q ltac:(lra) ltac:(lra)) as Hqq.
  (* (1 - e) (1 + k)^2 <= 1 *)
  assert (Hc : (1 - (1 # 2 ^ 50)) * ((1 + (1 # 2 ^ 52)) * (1 + (1 # 2 ^ 52))) <= 1) by (vm_compute; discriminate).
  pose proof (qmul_le_l (1 - (1 # 2 ^ 50)) _ _ ltac:(discriminate) R) as R2.
  pose proof (qmul_le_r _ _ (q * q) Hqq Hc) as R3. lra. Qed.

(* the one-sided bound a <= qsqrt a ^2 does NOT hold: every step rounds down *)
Example qsqrt_two_below : 0 < qsqrt 2 /\ qsqrt 2 * qsqrt 2 < 2 /\ 2 <= (qsqrt 2 + u80) * (qsqrt 2 + u80).
Proof. split; [|split]; vm_compute; first [reflexivity|discriminate]. Qed.

(* qsqrt respects == (its results are reduced fractions on the grid) and is exact at 1 *)
Lemma newton_comp n : forall a a' y y', a == a' -> y == y' -> newton n a y == newton n a' y'.
Proof. induction n as [|n IH]; intros a a' y y' Ha Hy; [exact Hy|].
  rewrite !newton_S. apply IH; [exact Ha|]. unfold nstep. rewrite (qtrunc_comp _ ((y' + a' / y') * (1#2))); [reflexivity|].
  rewrite Ha, Hy. reflexivity. Qed.
Lemma qsqrt_comp a a' : a == a' -> qsqrt a == qsqrt a'.
Proof. intros H. unfold qsqrt. rewrite H. destruct (Qle_bool a' 0); [reflexivity|]. apply newton_comp; [exact H|rewrite H; reflexivity]. Qed.
Lemma qsqrt_one x : x == 1 -> qsqrt x == 1.
Proof. intros H. rewrite (qsqrt_comp x 1 H). vm_compute. reflexivity. Qed.

(* ====================================================================== *)
(* C.1  lin_project_col with the executed root (C06)                       *)
(* ====================================================================== *)
Lemma lin_norm2_executed c n w r :
  lin_valid c n -> length w = n -> lc_norm c = 2%nat -> lin_project_col qsqrt c w = Some r ->
  exists w3, lin_project_col qsqrt (with_norm c 0) w = Some w3 /\
    let S := sumsq w3 in let q := qsqrt S in
    (q < norm_eps /\ peq r w3) \/
    (norm_eps <= q /\ sumsq r * (q * q) == S /\
     sumsq r <= 1 + (1 # 2 ^ 51) /\
     (S <= inject_Z (2 ^ 32) -> 1 <= sumsq r * (1 + (1 # 2 ^ 64)))).
Proof. intros V L N E. destruct (lin_norm2_any qsqrt c n w r V L N E) as [w3 [E3 H]].
  exists w3. split; [exact E3|]. cbv zeta in *. destruct H as [H|[Hg Hid]]; [left; exact H|right].
  set (S := sumsq w3) in *. set (q := qsqrt S) in *. set (T := sumsq r) in *.
  assert (Hq : 0 < q) by (unfold norm_eps in Hg; lra).
  assert (Hqq : 0 < q * q) by (apply Qmult_lt_0_compat; assumption).
  assert (HT : 0 <= T) by apply sumsq_nonneg.
  pose proof (qsqrt_guard_lower S Hg) as Lo. fold q in Lo.
  split; [exact Hg|]. split; [exact Hid|]. split.
  - (* T q^2 = S <= (1+e) q^2 *)
    destruct (Qlt_le_dec (1 + (1 # 2 ^ 51)) T) as [C|C]; [exfalso|exact C].
    assert ((1 + (1 # 2 ^ 51)) * (q * q) < T * (q * q)) by (apply Qmult_lt_compat_r; assumption). lra.
  - intros Hr.
    (* eps^2 <= q^2 <= S + tiny, so S >= eps^2 / 2 *)
    pose proof (sq_le_sq norm_eps q ltac:(discriminate) Hg) as P.
    assert (Hlo : norm_eps * norm_eps * (1#2) <= S).
    { destruct (Qlt_le_dec S (norm_eps * norm_eps * (1#2))) as [C|C]; [exfalso|exact C].
      destruct (qsqrt_strong S (qsqrt_guard_range S Hg)) as [_ [_ U]]. fold q in U.
      pose proof (sumsq_nonneg w3) as HS0. fold S in HS0.
      assert (Hsm : S <= 1) by (assert (norm_eps * norm_eps * (1#2) <= 1) by discriminate; lra).
      pose proof (qmul_le_l S S 1 HS0 Hsm) as Hss.
      assert (K : 3 * (1 # 2 ^ 120) + (9 # 4) * (u80 * u80) < norm_eps * norm_eps * (1#2)) by (vm_compute; reflexivity).
      assert (K2 : (1 + S + S * S) * (1 # 2 ^ 120) <= 3 * (1 # 2 ^ 120)) by (apply qmul_le_r; [discriminate|lra]).
      lra. }
    pose proof (qsqrt_range_upper S Hlo Hr) as U. fold q in U.
    assert (Hs : 0 < S) by (assert (0 < norm_eps * norm_eps * (1#2)) by reflexivity; lra).
    (* S = T q^2 <= T (1+e) S *)
    destruct (Qlt_le_dec (T * (1 + (1 # 2 ^ 64))) 1) as [C|C]; [exfalso|exact C].
    pose proof (qmul_le_l T _ _ HT U) as H1.
    assert (H2 : T * (1 + (1 # 2 ^ 64)) * S < 1 * S) by (apply Qmult_lt_compat_r; assumption).
    lra. Qed.

(* unit-norm feasible weights are a fixed point with the executed root too *)
Lemma lin_fixed_norm2_executed c n w r :
  lin_valid c n -> length w = n -> lc_norm c = 2%nat ->
  lin_feasible c w -> qsum (map (fun x => x * x) w) == 1 -> lin_project_col qsqrt c w = Some r -> peq r w.
Proof. apply lin_fixed_norm2. exact qsqrt_one. Qed.

(* w = (1, 1): sum of squares 2 is not a rational square; 99/70 is a root with
   relative error 1/9800 in the square, the executed root one with error < 2^-50 *)
Example approx_root_two :
  let s := sumsq [1; 1] in let r := 99 # 70 in
  s == 2 /\ 0 < r /\ (1 - (1 # 9800)) * s <= r * r /\ r * r <= (1 + (1 # 9800)) * s /\ (1 # 9800) < 1 /\
  1 <= sumsq (map (fun x => x / r) [1; 1]) * (1 + (1 # 9800)) /\
  sumsq (map (fun x => x / r) [1; 1]) * (1 - (1 # 9800)) <= 1 /\
  ~ sumsq (map (fun x => x / r) [1; 1]) == 1.
Proof. cbv zeta. repeat split; vm_compute; first [reflexivity|discriminate]. Qed.

(* the same column through the model: monotonicities (1, 1), order 2, raw column (1, 1) *)
Definition rt2_cfg : lin_cfg := with_norm zero_cfg 2.
Lemma rt2_cfg_valid : lin_valid rt2_cfg 2.
Proof. apply lin_valid_with_norm. exact zero_cfg_valid. Qed.
Definition rt_99_70 (x : Q) : Q := 99 # 70.

(* hypotheses of lin_norm2_any / lin_norm2_approx with the non-square sum 2 and
   the rational approximation 99/70 (e = 1/9800); the result is NOT of unit norm *)
Example any_root_applies : exists r,
  lin_valid rt2_cfg 2 /\ length [1; 1] = 2%nat /\ lc_norm rt2_cfg = 2%nat /\
  lin_project_col rt_99_70 rt2_cfg [1; 1] = Some r /\
  lin_project_col rt_99_70 (with_norm rt2_cfg 0) [1; 1] = Some [1; 1] /\
  sumsq [1; 1] == 2 /\ norm_eps <= rt_99_70 2 /\
  (1 # 9800) < 1 /\ (1 - (1 # 9800)) * 2 <= rt_99_70 2 * rt_99_70 2 /\ rt_99_70 2 * rt_99_70 2 <= (1 + (1 # 9800)) * 2 /\
  ~ rt_99_70 2 * rt_99_70 2 == 2 /\
  sumsq r * (rt_99_70 2 * rt_99_70 2) == 2 /\ 1 <= sumsq r * (1 + (1 # 9800)) /\ sumsq r * (1 - (1 # 9800)) <= 1.
Proof. eexists. split; [exact rt2_cfg_valid|]. split; [reflexivity|]. split; [reflexivity|].
  split; [vm_compute; reflexivity|]. repeat split; vm_compute; first [reflexivity|discriminate]. Qed.

(* the executed root on the same column: guard passed, 2 in range, result norm
   strictly ABOVE 1 (the root is rounded down) but within the proved bound *)
Example executed_root_applies : exists r,
  lin_project_col qsqrt rt2_cfg [1; 1] = Some r /\
  lin_project_col qsqrt (with_norm rt2_cfg 0) [1; 1] = Some [1; 1] /\
  norm_eps <= qsqrt 2 /\ 2 <= inject_Z (2 ^ 32) /\ norm_eps * norm_eps <= 2 /\
  1 < sumsq r /\ sumsq r <= 1 + (1 # 2 ^ 51) /\ sumsq r * (qsqrt 2 * qsqrt 2) == 2.
Proof. eexists. split; [vm_compute; reflexivity|]. repeat split; vm_compute; first [reflexivity|discriminate]. Qed.

(* ====================================================================== *)
(* C.2  the scalar torsion amount (C13)                                    *)
(* ====================================================================== *)
(* lattice_lib.torsion_regularizer turns a scalar amount l into the list
   [math.sqrt(l)] * rank and later multiplies the factors of two dimensions.
   With r the number the square root actually returned, the code computes the
   model's value for the scalar amount r * r -- for EVERY r. *)
From TFL Require Model.Regularizers Proofs.Regularizers.
Module TorsionRoot.
Import TFL.Model.Regularizers TFL.Proofs.Regularizers.

Lemma tors_scalar_any_root sizes units (r1 r2 : Q) w :
  lattice_torsion sizes units (PerDim (repeat r1 (length sizes))) (PerDim (repeat r2 (length sizes))) w ==
  lattice_torsion sizes units (Scalar (r1 * r1)) (Scalar (r2 * r2)) w.
Proof. apply tors_sqrt_oracle; reflexivity. Qed.

(* ... which is the documented sum with pair weight r*r, and differs from the
   documented sum with weight l by (r*r - l) times the unit-weight penalties *)
Lemma tors_scalar_any_root_doc sizes units (r1 r2 l1 l2 : Q) w : (1 <= units)%nat ->
  let code := lattice_torsion sizes units (PerDim (repeat r1 (length sizes))) (PerDim (repeat r2 (length sizes))) w in
  code == doc_torsion sizes units (Scalar (r1 * r1)) (Scalar (r2 * r2)) w /\
  code - doc_torsion sizes units (Scalar l1) (Scalar l2) w ==
    (r1 * r1 - l1) * doc_torsion sizes units (Scalar 1) (Scalar 0) w +
    (r2 * r2 - l2) * doc_torsion sizes units (Scalar 0) (Scalar 1) w.
Proof. intros Hu. cbv zeta. rewrite tors_scalar_any_root. split.
  - apply lattice_torsion_doc; [exact Hu|exact I|exact I].
  - rewrite <- !(lattice_torsion_doc sizes units (Scalar _) (Scalar _) w Hu I I).
    rewrite (lattice_torsion_linear sizes units (r1 * r1) (r2 * r2)), (lattice_torsion_linear sizes units l1 l2). ring. Qed.

(* approximate roots: the penalty is within the same relative error *)
Lemma tors_scalar_approx_root sizes units (r1 r2 l1 l2 e : Q) w : (1 <= units)%nat ->
  (1 - e) * l1 <= r1 * r1 -> r1 * r1 <= (1 + e) * l1 ->
  (1 - e) * l2 <= r2 * r2 -> r2 * r2 <= (1 + e) * l2 ->
  let code := lattice_torsion sizes units (PerDim (repeat r1 (length sizes))) (PerDim (repeat r2 (length sizes))) w in
  (1 - e) * doc_torsion sizes units (Scalar l1) (Scalar l2) w <= code /\
  code <= (1 + e) * doc_torsion sizes units (Scalar l1) (Scalar l2) w.
Proof. intros Hu A1 A2 B1 B2. cbv zeta. rewrite tors_scalar_any_root.
  rewrite <- !(lattice_torsion_doc sizes units (Scalar _) (Scalar _) w Hu I I).
  rewrite (lattice_torsion_linear sizes units (r1 * r1) (r2 * r2)), (lattice_torsion_linear sizes units l1 l2).
  assert (HA : 0 <= lattice_torsion sizes units (Scalar 1) (Scalar 0) w) by (apply lattice_torsion_nonneg; cbn; lra).
  assert (HB : 0 <= lattice_torsion sizes units (Scalar 0) (Scalar 1) w) by (apply lattice_torsion_nonneg; cbn; lra).
  set (A := lattice_torsion sizes units (Scalar 1) (Scalar 0) w) in *.
  set (B := lattice_torsion sizes units (Scalar 0) (Scalar 1) w) in *.
  pose proof (qmul_le_r _ _ A HA A1). pose proof (qmul_le_r _ _ A HA A2).
  pose proof (qmul_le_r _ _ B HB B1). pose proof (qmul_le_r _ _ B HB B2).
  split; lra. Qed.

(* amount 2 (not a rational square) on a 2x2 lattice with a twist: root 99/70 *)
Example tors_root_two :
  let r := 99 # 70 in let e := 1 # 9800 in let w := [0; 0; 0; 1] in
  (1 - e) * 2 <= r * r /\ r * r <= (1 + e) * 2 /\ ~ r * r == 2 /\
  doc_torsion [2; 2]%nat 1 (Scalar 2) (Scalar 2) w == 4 /\
  lattice_torsion [2; 2]%nat 1 (PerDim (repeat r 2)) (PerDim (repeat r 2)) w == 2 * (r * r) /\
  (1 - e) * 4 <= 2 * (r * r) /\ 2 * (r * r) <= (1 + e) * 4.
Proof. cbv zeta. repeat split; vm_compute; first [reflexivity|discriminate]. Qed.
End TorsionRoot.

(* ====================================================================== *)
(* C.3  the L2 norm test of assert_constraints (C12)                       *)
(* ====================================================================== *)
(* The model compares the SUM OF SQUARES s with squared thresholds; the code
   compares r = tf.norm(...) (a rounded square root of s) with the thresholds.
   For every r >= 0 the code's test on r is the squared test on r * r; when
   r * r is within relative error d of s the two tests agree unless s is within
   that relative error of a threshold. *)
Lemma qabs_lt_iff x e : qabs x < e <-> - e < x /\ x < e.
Proof. split; intros H; qcases; lra. Qed.

Lemma l2_check_any_root r eps : 0 <= r -> 0 <= eps ->
  (qabs (r - 1) < eps <-> r * r < (1 + eps) * (1 + eps) /\ (1 - eps < 0 \/ (1 - eps) * (1 - eps) < r * r)).
Proof. intros Hr He. rewrite qabs_lt_iff. split.
  - intros [H1 H2]. split.
    + pose proof (sq_lt_sq r (1 + eps) Hr ltac:(lra)). lra.
    + destruct (Qlt_le_dec (1 - eps) 0) as [Hn|Hn]; [left; exact Hn|right].
      pose proof (sq_lt_sq (1 - eps) r Hn ltac:(lra)). lra.
  - intros [H1 H2]. split.
    + destruct H2 as [H2|H2]; [lra|]. destruct (Qlt_le_dec (- eps) (r - 1)) as [G|G]; [exact G|]. exfalso.
      destruct (Qlt_le_dec (1 - eps) 0) as [Hn|Hn]; [lra|].
      pose proof (sq_le_sq r (1 - eps) Hr ltac:(lra)). lra.
    + destruct (Qlt_le_dec (r - 1) eps) as [G|G]; [exact G|]. exfalso.
      pose proof (sq_le_sq (1 + eps) r ltac:(lra) ltac:(lra)). lra. Qed.

Lemma l2_check_approx_root r s eps d : 0 <= r -> 0 <= eps ->
  (1 - d) * s <= r * r -> r * r <= (1 + d) * s ->
  ((1 + d) * s < (1 + eps) * (1 + eps) /\ (1 - eps < 0 \/ (1 - eps) * (1 - eps) < (1 - d) * s) -> qabs (r - 1) < eps) /\
  (qabs (r - 1) < eps -> (1 - d) * s < (1 + eps) * (1 + eps) /\ (1 - eps < 0 \/ (1 - eps) * (1 - eps) < (1 + d) * s)).
Proof. intros Hr He Hlo Hhi. rewrite (l2_check_any_root r eps Hr He). split.
  - intros [A [B|B]]; (split; [lra|]); [left; exact B|right; lra].
  - intros [A [B|B]]; (split; [lra|]); [left; exact B|right; lra]. Qed.

Lemma l2_zero_any_root r ne : 0 <= r -> 0 < ne -> (qabs r < ne <-> r * r < ne * ne).
Proof. intros Hr Hn. rewrite qabs_lt_iff. split.
  - intros [H1 H2]. pose proof (sq_lt_sq r ne Hr H2). lra.
  - intros H. split; [lra|]. destruct (Qlt_le_dec r ne) as [G|G]; [exact G|]. exfalso.
    pose proof (sq_le_sq ne r ltac:(lra) G). lra. Qed.
Lemma l2_zero_approx_root r s ne d : 0 <= r -> 0 < ne ->
  (1 - d) * s <= r * r -> r * r <= (1 + d) * s ->
  ((1 + d) * s < ne * ne -> qabs r < ne) /\ (qabs r < ne -> (1 - d) * s < ne * ne).
Proof. intros Hr Hn Hlo Hhi. rewrite (l2_zero_any_root r ne Hr Hn). split; intros; lra. Qed.

Example l2_check_root_two :
  let r := 99 # 70 in let d := 1 # 9800 in let eps := 1 # 2 in
  0 <= r /\ 0 <= eps /\ (1 - d) * 2 <= r * r /\ r * r <= (1 + d) * 2 /\ ~ r * r == 2 /\
  (1 + d) * 2 < (1 + eps) * (1 + eps) /\ (1 - eps) * (1 - eps) < (1 - d) * 2 /\ qabs (r - 1) < eps.
Proof. cbv zeta. repeat split; vm_compute; first [reflexivity|discriminate]. Qed.

(* ====================================================================== *)
(* C.4  the Linear layer with order-2 normalisation (C20)                  *)
(* ====================================================================== *)
(* The monotonicity / dominance theorems of Proofs/LinearComposed.v hold for
   EVERY function rt (no hypothesis at all: the guard `norm < 1e-8 -> 1` makes
   the divisor positive whatever rt returns).  The only L2-specific function
   level statement is the Cauchy-Schwarz bound: |output - bias| is at most
   ||kernel||_2 * ||clipped input||_2, and ||kernel||_2 is 1 up to the
   relative error of the root. *)
Lemma cs_step a b P A B : 0 <= A -> 0 <= B -> P * P <= A * B ->
  (a * b + P) * (a * b + P) <= (a * a + A) * (b * b + B).
Proof. intros HA HB HP.
  assert (K : 2 * (a * b * P) <= a * a * B + b * b * A).
  { destruct (Qlt_le_dec 0 B) as [C|C].
    - (* B * (a^2 B + b^2 A - 2abP) = (aB - bP)^2 + b^2 (AB - P^2) *)
      assert (S1 : 0 <= (a * B - b * P) * (a * B - b * P)).
      { destruct (Qlt_le_dec (a * B - b * P) 0) as [D|D].
        - pose proof (qmul_nonneg (-(a * B - b * P)) (-(a * B - b * P)) ltac:(lra) ltac:(lra)). lra.
        - apply qmul_nonneg; assumption. }
      assert (S2 : 0 <= b * b * (A * B - P * P)).
      { apply qmul_nonneg; [|lra]. destruct (Qlt_le_dec b 0) as [D|D].
        - pose proof (qmul_nonneg (- b) (- b) ltac:(lra) ltac:(lra)). lra.
        - apply qmul_nonneg; assumption. }
      assert (S3 : 0 <= B * (a * a * B + b * b * A - 2 * (a * b * P))).
      { assert (E : B * (a * a * B + b * b * A - 2 * (a * b * P)) ==
                    (a * B - b * P) * (a * B - b * P) + b * b * (A * B - P * P)) by ring.
        rewrite E. lra. }
      destruct (Qlt_le_dec (a * a * B + b * b * A) (2 * (a * b * P))) as [D|D]; [exfalso|exact D].
      assert (B * (a * a * B + b * b * A - 2 * (a * b * P)) < B * 0) by (apply Qmult_lt_l; [exact C|lra]). lra.
    - assert (EB : B == 0) by lra. rewrite EB in HP |- *.
      assert (P0 : P == 0).
      { destruct (Qlt_le_dec P 0) as [D|D]; [|destruct (Qlt_le_dec 0 P) as [D2|D2]; [|lra]].
        - assert (0 < (- P) * (- P)) by (apply Qmult_lt_0_compat; lra). lra.
        - assert (0 < P * P) by (apply Qmult_lt_0_compat; lra). lra. }
      rewrite P0. assert (0 <= b * b * A).
      { apply qmul_nonneg; [|exact HA]. destruct (Qlt_le_dec b 0) as [D|D].
        - pose proof (qmul_nonneg (- b) (- b) ltac:(lra) ltac:(lra)). lra.
        - apply qmul_nonneg; assumption. }
      lra. }
  assert (E : (a * a + A) * (b * b + B) - (a * b + P) * (a * b + P) ==
              (a * a * B + b * b * A - 2 * (a * b * P)) + (A * B - P * P)) by ring.
  lra. Qed.

Lemma lin_sum_cs : forall k bs x, lin_sum k bs x * lin_sum k bs x <= sumsq k * sumsq (clipped bs x).
Proof. induction k as [|kq k IH]; intros bs x.
  - cbn. lra.
  - destruct bs as [|[lo hi] bs]; [|destruct x as [|xq x]].
    + cbn [lin_sum clipped]. change (sumsq []) with 0. lra.
    + cbn [lin_sum clipped]. change (sumsq []) with 0. lra.
    + cbn [lin_sum clipped]. unfold sumsq in *. cbn [map qsum]. fold (sumsq k). fold (sumsq (clipped bs x)).
      apply cs_step; [apply sumsq_nonneg|apply sumsq_nonneg|apply IH]. Qed.

(* any kernel whatsoever *)
Lemma lin_unit_cs k b bs x :
  (lin_unit k b bs x - b) * (lin_unit k b bs x - b) <= sumsq k * sumsq (clipped bs x).
Proof. unfold lin_unit. assert (E : b + lin_sum k bs x - b == lin_sum k bs x) by ring. rewrite E. apply lin_sum_cs. Qed.

Lemma projected_l2_output_approx rt c n w r b x :
  lin_valid c n -> length w = n -> lc_norm c = 2%nat -> lin_project_col rt c w = Some r ->
  exists w3, lin_project_col rt (with_norm c 0) w = Some w3 /\
    let S := sumsq w3 in let out := lin_unit r b (layer_bounds c n) x in
    forall e, e < 1 -> (1 - e) * S <= rt S * rt S -> rt S * rt S <= (1 + e) * S -> norm_eps <= rt S ->
    (1 - e) * ((out - b) * (out - b)) <= sumsq (clipped (layer_bounds c n) x).
Proof. intros V L N E. destruct (lin_norm2_approx rt c n w r V L N E) as [w3 [E3 H]].
  exists w3. split; [exact E3|]. cbv zeta in *. intros e He Hlo Hhi Hg.
  destruct (H e He Hlo Hhi) as [[A _]|[_ [_ [_ HT]]]]; [lra|].
  pose proof (lin_unit_cs r b (layer_bounds c n) x) as CS.
  set (o := (lin_unit r b (layer_bounds c n) x - b) * (lin_unit r b (layer_bounds c n) x - b)) in *.
  set (X := sumsq (clipped (layer_bounds c n) x)) in *. set (T := sumsq r) in *.
  assert (HX : 0 <= X) by apply sumsq_nonneg.
  pose proof (qmul_le_l (1 - e) _ _ ltac:(lra) CS) as H1.
  pose proof (qmul_le_r _ _ X HX HT) as H2. lra. Qed.

Lemma projected_l2_output_executed c n w r b x :
  lin_valid c n -> length w = n -> lc_norm c = 2%nat -> lin_project_col qsqrt c w = Some r ->
  exists w3, lin_project_col qsqrt (with_norm c 0) w = Some w3 /\
    let out := lin_unit r b (layer_bounds c n) x in
    (norm_eps <= qsqrt (sumsq w3) ->
     (out - b) * (out - b) <= (1 + (1 # 2 ^ 51)) * sumsq (clipped (layer_bounds c n) x)).
Proof. intros V L N E. destruct (lin_norm2_executed c n w r V L N E) as [w3 [E3 H]].
  exists w3. split; [exact E3|]. cbv zeta in *. intros Hg.
  destruct H as [[A _]|[_ [_ [HT _]]]]; [lra|].
  pose proof (lin_unit_cs r b (layer_bounds c n) x) as CS.
  pose proof (qmul_le_r _ _ _ (sumsq_nonneg (clipped (layer_bounds c n) x)) HT). lra. Qed.

Example projected_l2_applies : exists r,
  lin_project_col qsqrt rt2_cfg [1; 1] = Some r /\ norm_eps <= qsqrt (sumsq [1; 1]) /\
  let out := lin_unit r 5 (layer_bounds rt2_cfg 2) [3; 4] in
  sumsq (clipped (layer_bounds rt2_cfg 2) [3; 4]) == 25 /\
  (out - 5) * (out - 5) <= (1 + (1 # 2 ^ 51)) * 25.
Proof. eexists. split; [vm_compute; reflexivity|]. cbv zeta. repeat split; vm_compute; first [reflexivity|discriminate]. Qed.
