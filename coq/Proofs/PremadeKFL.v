(* Premade / composed models with KroneckerFactoredLattice members: lemmas for
   the KFL part of Props/C03.v.  Re-uses Proofs/KFL.v (property C07): the
   per-(unit, term) invariant [kgood] / [sgood] that the two KFL constraints
   establish ([run_good]) and from which C07_monotone / C07_bounded follow
   ([unit_eval_mono], [unit_eval_bounded]); and Proofs/Premade.v (calibrators,
   combiners, layer state machine). *)
From TFL Require Import Model.PremadeKFL Proofs.Premade.
From TFL Require Import Proofs.PWLEval Proofs.LinearEval Proofs.LatticeInterp.
From TFL Require Proofs.KFL.
Module PK := TFL.Proofs.KFL.
Open Scope Q_scope.

(* ====================================================================== *)
(* 1. The feasible set of one KFL layer                                     *)
(* ====================================================================== *)
(* Exactly what C07_monotone and C07_bounded use of "both constraints have
   been applied": for every (unit, term) the weights have the layer's shape,
   satisfy [kgood] relative to the CURRENT scale of the term (sign-relative
   sortedness and non-negativity of the monotone factors, product of the
   per-dimension max-abs weights <= 1 with two bounds, non-negative weights
   with one bound) and the scale satisfies [sgood] (inside the half-width /
   of the bounded sign); and the bias of a bounded layer has its fixed value. *)
Definition kfl_feasible (c : MK.config) (dims : nat) (p : MK.params) : Prop :=
  Forall2 (Forall2 (fun s vs => PK.tshape (MK.c_size c) dims vs /\ PK.kgood c s vs /\ PK.sgood c s))
          (MK.p_scale p) (MK.p_kern p) /\
  (MK.has_bounds c = true -> Forall (fun b => b == MK.bias_init1 (MK.c_min c) (MK.c_max c)) (MK.p_bias p)).

Lemma inv_feasible c dims p : PK.inv c dims (PK.kgood c) (PK.sgood c) true true p ->
  Forall2 (Forall2 (fun s vs => PK.tshape (MK.c_size c) dims vs /\ PK.kgood c s vs /\ PK.sgood c s))
          (MK.p_scale p) (MK.p_kern p).
Proof. unfold PK.inv. intros H. eapply PK.Forall2_impl. exact H. cbn beta. intros su ku Hu.
  eapply PK.Forall2_impl. exact Hu. cbn beta. intros s vs (H1 & H2 & H3). auto. Qed.

(* C07's statement form: a constraint history containing both constraints,
   from ANY well-shaped parameters, ends in the feasible set *)
Lemma run_feasible root c dims steps p : PK.root_ok root -> PK.cfg_ok c dims -> PK.shaped c dims p ->
  PK.hasK steps = true -> PK.hasS steps = true ->
  (MK.has_bounds c = true -> Forall (fun b => b == MK.bias_init1 (MK.c_min c) (MK.c_max c)) (MK.p_bias p)) ->
  kfl_feasible c dims (MK.run root c steps p).
Proof. intros Hr Hc Hsh HK HS Hb. split.
  - apply inv_feasible. pose proof (PK.run_good root Hr c dims steps p Hc Hsh) as H. rewrite HK, HS in H. exact H.
  - rewrite PK.run_bias. exact Hb. Qed.

(* ---- the KFL layer as ONE variable of the layer state machine ---- *)
Definition kfl_shape (d : kfl_desc) (raw : MK.params) : Prop := PK.shaped (kd_cfg d) (kd_dims d) raw.
Definition kfl_inv (d : kfl_desc) (p : MK.params) : Prop := kfl_feasible (kd_cfg d) (kd_dims d) p.
(* tf.pow facts, accepted configuration, every update applies BOTH constraints
   (in the order kd_steps), feasible initial parameters (KFL initializers: C10) *)
Definition kfl_desc_ok (d : kfl_desc) : Prop :=
  PK.root_ok (kd_root d) /\ PK.cfg_ok (kd_cfg d) (kd_dims d) /\
  PK.hasK (kd_steps d) = true /\ PK.hasS (kd_steps d) = true /\ kfl_inv d (kd_init d).

Lemma kfl_update_feasible d raw : kfl_desc_ok d -> kfl_shape d raw -> kfl_inv d (kfl_update d raw).
Proof. intros (Hr & Hc & HK & HS & Hi) Hsh. unfold kfl_inv, kfl_update. apply run_feasible; try assumption.
  - unfold kfl_fix_bias, kfl_shape, PK.shaped in *. destruct (MK.has_bounds (kd_cfg d)); exact Hsh.
  - intros Hb. unfold kfl_fix_bias. rewrite Hb. cbn [MK.p_bias]. destruct Hi as [_ Hi]. exact (Hi Hb). Qed.

Theorem reachable_feasible_kfl ds ops : (forall d, In d ds -> kfl_desc_ok d) ->
  ops_shaped MK.params kfl_desc kfl_shape ds ops ->
  forall s, In s (run (map kfl_var ds) ops) -> Forall2 kfl_inv ds s.
Proof. intros H Hops s Hs.
  apply (reachable_feasible MK.params kfl_desc kfl_var kfl_inv kfl_shape ds) with (ops := ops); try assumption.
  - intros d Hd. destruct (H d Hd) as (_ & _ & _ & _ & Hi). exact Hi.
  - intros d w Hd Hw. cbn [kfl_var v_con]. apply kfl_update_feasible. apply H; exact Hd. exact Hw. Qed.

(* ---- the legacy (per-variable) discipline ---- *)
(* in the layer's own variable order scale, bias, kernel (what
   model.trainable_variables, hence model.fit and optimizer.minimize, pass) it
   IS the update "assign everything, then scale constraint, then kernel
   constraint": the scale constraint neither reads nor writes the kernel *)
Lemma legacy_layer_order root c raw p :
  legacy_update root c [VScale; VBias; VKernel] raw p = MK.run root c [MK.StepS; MK.StepK] raw.
Proof. destruct raw, p. reflexivity. Qed.
(* bounded layer: the bias is not trainable, hence not in grads_and_vars *)
Lemma legacy_layer_order_fixed_bias root c raw p :
  legacy_update root c [VScale; VKernel] raw p =
  MK.run root c [MK.StepS; MK.StepK] (MK.mkPar (MK.p_kern raw) (MK.p_scale raw) (MK.p_bias p)).
Proof. destruct raw, p. reflexivity. Qed.

(* FINDING (reproduced on the implementation): with the kernel listed BEFORE the
   scale in grads_and_vars a legacy optimizer constrains the kernel against the
   OLD scale and then moves the scale; and ANY optimizer that is given only the
   scale variable never re-applies the kernel constraint.  A sign change of the
   scale then reverses the direction of the term: from a feasible state,
   lattice_sizes=2, monotonicities=[1], output_min=-1, output_max=1, one term,
   kernel [1/5, 3/10], scale 1 -> raw scale -1/2: f(0) = -1/10 > f(1) = -3/20. *)
Definition lk_cfg : MK.config := MK.mkCfg 2 (Some [true]) (Some (-(1))) (Some 1) false.
Definition lk_par : MK.params := MK.mkPar [[ [[1#5; 3#10]] ]] [[ 1 ]] [0].
Definition lk_raw : MK.params := MK.mkPar [[ [[1#5; 3#10]] ]] [[ -(1#2) ]] [0].

Lemma lk_cfg_ok : PK.cfg_ok lk_cfg 1.
Proof. split; [cbn; lia|split; [lia|split]].
  - intros lo hi H1 H2. cbn in H1, H2. injection H1 as <-. injection H2 as <-. lra.
  - intros ms E. cbn in E. injection E as <-. reflexivity. Qed.
Lemma lk_feasible : kfl_feasible lk_cfg 1 lk_par.
Proof. split.
  - cbn [lk_par MK.p_scale MK.p_kern]. constructor; [|constructor]. constructor; [|constructor].
    split; [|split].
    + split. reflexivity. constructor; [reflexivity|constructor].
    + split; [|split].
      * intros ms0 E Hc. cbn in E. injection E as <-. right. left. split. lra. split.
        -- constructor; [|constructor]. constructor; [lra|]. constructor; [lra|constructor].
        -- constructor; [|constructor]. intros _. cbn. split; [lra|exact I].
      * intros _ _. unfold PK.prodmax. vm_compute. discriminate.
      * intros Hne. cbn in Hne. congruence.
    + unfold PK.sgood. cbn. lra.
  - intros _. cbn. constructor; [|constructor]. vm_compute. reflexivity. Qed.

Lemma legacy_kernel_first_refuted : exists root c dims p raw ms xs ys,
  PK.root_ok root /\ PK.cfg_ok c dims /\ kfl_feasible c dims p /\ PK.shaped c dims raw /\
  MK.canon_monos (MK.c_monos c) = Some ms /\ PK.coords_le ms xs ys /\
  PK.in_range (MK.c_size c) xs /\ PK.in_range (MK.c_size c) ys /\
  MK.unit_out c (legacy_update root c [VKernel; VScale] raw p) 0 ys <
    MK.unit_out c (legacy_update root c [VKernel; VScale] raw p) 0 xs /\
  MK.unit_out c (legacy_update root c [VScale] raw p) 0 ys <
    MK.unit_out c (legacy_update root c [VScale] raw p) 0 xs.
Proof. exists (fun _ x => x), lk_cfg, 1%nat, lk_par, lk_raw, [true], [0], [1].
  split. exact PK.root_ok_id. split. exact lk_cfg_ok. split. exact lk_feasible.
  split. repeat constructor. split. reflexivity.
  split. cbn. split; [lra|exact I].
  split. constructor; [|constructor]. change (MK.qn (MK.c_size lk_cfg)) with 2. lra.
  split. constructor; [|constructor]. change (MK.qn (MK.c_size lk_cfg)) with 2. lra.
  split; vm_compute; reflexivity. Qed.

(* ====================================================================== *)
(* 2. A feasible KFL unit is monotone and bounded on in-range points          *)
(* ====================================================================== *)
Lemma kfl_state_monotone c dims p ms u xs ys : PK.cfg_ok c dims -> kfl_feasible c dims p ->
  MK.canon_monos (MK.c_monos c) = Some ms -> PK.coords_le ms xs ys ->
  MK.c_clip c = true \/ (PK.in_range (MK.c_size c) xs /\ PK.in_range (MK.c_size c) ys) ->
  MK.unit_out c p u xs <= MK.unit_out c p u ys.
Proof. intros Hc [Hf _] Em Hle Hr.
  destruct (Nat.eq_dec (MK.count_true ms) 0) as [E0|E0].
  - rewrite (PK.coords_le_no_mono ms xs ys E0 Hle). lra.
  - unfold MK.unit_out. destruct (Nat.lt_ge_cases u (length (MK.p_scale p))) as [Hu|Hu].
    + pose proof (PK.Forall2_nth _ _ _ u [] [] Hf Hu) as Hu'. cbn beta in Hu'.
      destruct Hc as (HL & _). apply (PK.unit_eval_mono _ _ dims ms); auto.
      eapply PK.Forall2_impl. exact Hu'. cbn beta. intros s vs (H1 & H2 & _). split. exact H1.
      destruct H2 as [H3 _]. apply H3. exact Em. lia.
    + rewrite (nth_overflow (MK.p_scale p) [] Hu). unfold MK.unit_eval. cbn [map2]. lra. Qed.

Lemma has_bounds_false c : MK.has_bounds c = false -> MK.c_min c = None /\ MK.c_max c = None.
Proof. unfold MK.has_bounds. destruct (MK.c_min c), (MK.c_max c); cbn; intros H; try discriminate. auto. Qed.

Lemma kfl_state_bounded c dims p u xs : PK.cfg_ok c dims -> kfl_feasible c dims p ->
  (u < length (MK.p_scale p))%nat -> (u < length (MK.p_bias p))%nat ->
  length xs = dims -> MK.c_clip c = true \/ PK.in_range (MK.c_size c) xs ->
  (forall lo, MK.c_min c = Some lo -> lo <= MK.unit_out c p u xs) /\
  (forall hi, MK.c_max c = Some hi -> MK.unit_out c p u xs <= hi).
Proof. intros Hc [Hf Hb] Hu Hub Hlen Hr.
  destruct (MK.has_bounds c) eqn:B.
  - unfold MK.unit_out. pose proof (PK.Forall2_nth _ _ _ u [] [] Hf Hu) as H. cbn beta in H.
    apply (PK.unit_eval_bounded c dims); auto.
    specialize (Hb eq_refl). rewrite Forall_forall in Hb. apply Hb. apply nth_In. exact Hub.
  - destruct (has_bounds_false c B) as [E1 E2]. split; intros b E; congruence. Qed.

(* ====================================================================== *)
(* 3. Calibrators feeding a KFL unit                                        *)
(* ====================================================================== *)
Lemma nth_repeat_lt {A} (a d : A) n j : (j < n)%nat -> nth j (repeat a n) d = a.
Proof. revert j. induction n as [|n IH]; intros [|j] H; cbn; try lia. reflexivity. apply IH. lia. Qed.

(* wiring: every calibrator emits values inside [0, L-1], so the unclipped KFL
   layer is evaluated in range (where C07 speaks) *)
Lemma calibrate_in_range L dims cals x : (2 <= L)%nat -> length cals = dims -> length x = dims ->
  cals_in_range (repeat L dims) cals -> PK.in_range L (calibrate cals x).
Proof. intros HL Hc Hx Hr. unfold PK.in_range. apply Forall_forall. intros z Hz.
  destruct (In_nth _ _ 0 Hz) as [j [Hj Ej]]. rewrite calibrate_length in Hj by lia.
  rewrite nth_calibrate in Ej by lia. subst z.
  pose proof (Hr j ltac:(rewrite repeat_length; lia)) as Hrj. rewrite nth_repeat_lt in Hrj by lia.
  change (MK.qn L) with (qn L).
  assert (H0 : 0 <= 0 <= qn L - 1).
  { pose proof (qn_size_ge [L] 0 ltac:(repeat constructor; lia) ltac:(cbn; lia)) as H. cbn [nth] in H. exact H. }
  pose proof (calib_eval_range _ _ _ (nth j x 0) Hrj (or_introl H0)). tauto. Qed.

Lemma coords_le_nth : forall ms xs ys, length xs = length ms -> length ys = length ms ->
  (forall q, (q < length ms)%nat -> if nth q ms false then nth q xs 0 <= nth q ys 0 else nth q xs 0 = nth q ys 0) ->
  PK.coords_le ms xs ys.
Proof. induction ms as [|m ms IH]; intros [|x xs] [|y ys] Hx Hy H; cbn [length] in *; try discriminate. exact I.
  cbn [PK.coords_le]. split.
  - exact (H 0%nat ltac:(lia)).
  - apply IH; try lia. intros q Hq. exact (H (S q) ltac:(lia)). Qed.

(* ---- the composition theorem in its general form ---- *)
Theorem cal_kfl_core c dims p ms cals oc x i v :
  PK.cfg_ok c dims -> kfl_feasible c dims p -> MK.canon_monos (MK.c_monos c) = Some ms -> nth i ms false = true ->
  length cals = dims -> length x = dims -> (i < dims)%nat ->
  cals_in_range (repeat (MK.c_size c) dims) cals -> out_monotone oc ->
  calib_eval (nth i cals dcal) (nth i x 0) <= calib_eval (nth i cals dcal) v ->
  cal_kfl_eval c p cals oc x <= cal_kfl_eval c p cals oc (set_nth i v x).
Proof. intros Hc Hf Em Hm Hlc Hlx Hi Hr Ho Hle. unfold cal_kfl_eval. apply out_eval_mono. exact Ho.
  pose proof Hc as (HL & _ & _ & Hms). specialize (Hms ms Em).
  apply (kfl_state_monotone c dims p ms); try assumption.
  - rewrite calibrate_set_nth by lia. apply PK.coords_le_set_nth.
    + rewrite calibrate_length; lia.
    + exact Hm.
    + rewrite nth_calibrate by lia. exact Hle.
  - right. split; apply (calibrate_in_range _ dims); try assumption. rewrite set_nth_length. exact Hlx. Qed.

(* numeric feature: increasing / decreasing calibrator + monotone KFL dimension *)
Theorem compose_monotone_kfl c dims p ms cals oc x i v kps lens col miss :
  PK.cfg_ok c dims -> kfl_feasible c dims p -> MK.canon_monos (MK.c_monos c) = Some ms -> nth i ms false = true ->
  length cals = dims -> length x = dims -> (i < dims)%nat ->
  cals_in_range (repeat (MK.c_size c) dims) cals -> out_monotone oc ->
  nth i cals dcal = CPwl kps lens col miss ->
  regular_input (nth i cals dcal) (nth i x 0) -> regular_input (nth i cals dcal) v -> nth i x 0 <= v ->
  (outs_nondecr col -> cal_kfl_eval c p cals oc x <= cal_kfl_eval c p cals oc (set_nth i v x)) /\
  (outs_nonincr col -> cal_kfl_eval c p cals oc (set_nth i v x) <= cal_kfl_eval c p cals oc x).
Proof. intros Hc Hf Em Hm Hlc Hlx Hi Hr Ho E Rx Rv Hle. rewrite E in Rx, Rv.
  assert (Hl : Forall (fun l => 0 < l) lens).
  { pose proof (Hr i ltac:(rewrite repeat_length; exact Hi)) as H. rewrite E in H. destruct H as [[e Hseg] _].
    eapply segments_pos; eassumption. }
  destruct (calib_pwl_monotone kps lens col miss _ _ Hl Rx Rv Hle) as [Inc Dec]. split; intros Hd.
  - apply (cal_kfl_core c dims p ms); try assumption. rewrite E. apply Inc. exact Hd.
  - pose proof (cal_kfl_core c dims p ms cals oc (set_nth i v x) i (nth i x 0) Hc Hf Em Hm Hlc
                  ltac:(rewrite set_nth_length; exact Hlx) Hi Hr Ho) as H.
    rewrite set_nth_twice, set_nth_self in H. apply H. rewrite nth_set_nth_same by lia. rewrite E. apply Dec. exact Hd. Qed.

(* categorical feature: pair (a, b) with value_a <= value_b + monotone KFL dimension *)
Theorem compose_monotone_kfl_categorical c dims p ms cals oc x i vals d a b :
  PK.cfg_ok c dims -> kfl_feasible c dims p -> MK.canon_monos (MK.c_monos c) = Some ms -> nth i ms false = true ->
  length cals = dims -> length x = dims -> (i < dims)%nat ->
  cals_in_range (repeat (MK.c_size c) dims) cals -> out_monotone oc ->
  nth i cals dcal = CCat vals d -> (a < length vals)%nat -> (b < length vals)%nat ->
  d <> Some (Z.of_nat a) -> d <> Some (Z.of_nat b) -> nth a vals 0 <= nth b vals 0 ->
  cal_kfl_eval c p cals oc (set_nth i (qn a) x) <= cal_kfl_eval c p cals oc (set_nth i (qn b) x).
Proof. intros Hc Hf Em Hm Hlc Hlx Hi Hr Ho E Ha Hb Da Db Hab.
  pose proof (cal_kfl_core c dims p ms cals oc (set_nth i (qn a) x) i (qn b) Hc Hf Em Hm Hlc
                ltac:(rewrite set_nth_length; exact Hlx) Hi Hr Ho) as H.
  rewrite set_nth_twice in H. apply H. rewrite nth_set_nth_same by lia. rewrite E.
  apply calib_cat_pair; assumption. Qed.

(* bounds: for ALL inputs (in range, out of range, missing, any bucket) *)
Theorem bounded_kfl c dims p cals oc lo hi x :
  PK.cfg_ok c dims -> kfl_feasible c dims p -> (0 < length (MK.p_scale p))%nat -> (0 < length (MK.p_bias p))%nat ->
  length cals = dims -> length x = dims -> cals_in_range (repeat (MK.c_size c) dims) cals ->
  (oc = None -> MK.c_min c = Some lo /\ MK.c_max c = Some hi) -> out_range oc lo hi ->
  lo <= cal_kfl_eval c p cals oc x <= hi.
Proof. intros Hc Hf Hu Hub Hlc Hlx Hr Hb Ho. unfold cal_kfl_eval. apply out_eval_range. exact Ho.
  intros E. destruct (Hb E) as [E1 E2]. pose proof Hc as (HL & _).
  destruct (kfl_state_bounded c dims p 0 (calibrate cals x) Hc Hf Hu Hub ltac:(rewrite calibrate_length; lia)
              (or_intror (calibrate_in_range _ dims cals x HL Hlc Hlx Hr))) as [B1 B2].
  split; [apply B1|apply B2]; assumption. Qed.

(* one configured bound, no output calibrator *)
Theorem bounded_kfl_one_sided c dims p cals x :
  PK.cfg_ok c dims -> kfl_feasible c dims p -> (0 < length (MK.p_scale p))%nat -> (0 < length (MK.p_bias p))%nat ->
  length cals = dims -> length x = dims -> cals_in_range (repeat (MK.c_size c) dims) cals ->
  (forall lo, MK.c_min c = Some lo -> lo <= cal_kfl_eval c p cals None x) /\
  (forall hi, MK.c_max c = Some hi -> cal_kfl_eval c p cals None x <= hi).
Proof. intros Hc Hf Hu Hub Hlc Hlx Hr. unfold cal_kfl_eval. cbn [out_eval]. pose proof Hc as (HL & _).
  exact (kfl_state_bounded c dims p 0 (calibrate cals x) Hc Hf Hu Hub ltac:(rewrite calibrate_length; lia)
           (or_intror (calibrate_in_range _ dims cals x HL Hlc Hlx Hr))). Qed.

(* ====================================================================== *)
(* 4. Ensembles whose members are lattices or KFL units                      *)
(* ====================================================================== *)
Lemma nth_reads cals idx (x : list Q) q : length cals = length idx -> (q < length idx)%nat ->
  nth q (calibrate cals (map (fun j => nth j x 0) idx)) 0 = calib_eval (nth q cals dcal) (nth (nth q idx 0%nat) x 0).
Proof. intros Hl Hq. rewrite nth_calibrate by (rewrite ?map_length; lia). f_equal.
  rewrite (nth_indep _ 0 (nth 0%nat x 0)) by (rewrite map_length; exact Hq).
  exact (map_nth (fun j => nth j x 0) idx 0%nat q). Qed.

(* every position at which the member reads feature i is a monotone dimension
   of the member, and its calibrator unit does not decrease from xi to v *)
Definition reads_monotone (idx : list nat) (cals : list calib) (monod : nat -> Prop) (i : nat) (xi v : Q) : Prop :=
  forall q, (q < length idx)%nat -> nth q idx 0%nat = i ->
    monod q /\ calib_eval (nth q cals dcal) xi <= calib_eval (nth q cals dcal) v.

Lemma reads_pointwise idx cals (x : list Q) i v q : length cals = length idx -> (i < length x)%nat -> (q < length idx)%nat ->
  (nth q idx 0%nat = i /\
   nth q (calibrate cals (map (fun j => nth j x 0) idx)) 0 = calib_eval (nth q cals dcal) (nth i x 0) /\
   nth q (calibrate cals (map (fun j => nth j (set_nth i v x) 0) idx)) 0 = calib_eval (nth q cals dcal) v) \/
  (nth q idx 0%nat <> i /\
   nth q (calibrate cals (map (fun j => nth j (set_nth i v x) 0) idx)) 0 =
   nth q (calibrate cals (map (fun j => nth j x 0) idx)) 0).
Proof. intros Hl Hi Hq. rewrite !nth_reads by assumption. rewrite nth_set_nth_Q by exact Hi.
  destruct (Nat.eqb_spec i (nth q idx 0%nat)) as [E|N].
  - left. rewrite <- E. auto.
  - right. split; [congruence|reflexivity]. Qed.

(* ---- a lattice moved along SEVERAL monotone coordinates ---- *)
Fixpoint hyb (k : nat) (z z' : list Q) : list Q :=
  match k with O => z | S k' => set_nth k' (nth k' z' 0) (hyb k' z z') end.
Lemma hyb_length k z z' : length (hyb k z z') = length z.
Proof. induction k as [|k IH]; cbn [hyb]. reflexivity. rewrite set_nth_length. exact IH. Qed.
Lemma nth_hyb : forall k z z' q, (k <= length z)%nat ->
  nth q (hyb k z z') 0 = if (q <? k)%nat then nth q z' 0 else nth q z 0.
Proof. induction k as [|k IH]; intros z z' q Hk; cbn [hyb]. reflexivity.
  rewrite nth_set_nth_Q by (rewrite hyb_length; lia). rewrite IH by lia.
  destruct (Nat.eqb_spec k q) as [->|N].
  - assert (E : (q <? S q)%nat = true) by (apply Nat.ltb_lt; lia). rewrite E. reflexivity.
  - destruct (Nat.ltb_spec q k); destruct (Nat.ltb_spec q (S k)); try lia; reflexivity. Qed.
Lemma hyb_full z z' : length z = length z' -> hyb (length z) z z' = z'.
Proof. intros Hl. apply (nth_ext _ _ 0 0). rewrite hyb_length. exact Hl.
  intros n Hn. rewrite hyb_length in Hn. rewrite nth_hyb by lia.
  assert (E : (n <? length z)%nat = true) by (apply Nat.ltb_lt; exact Hn). rewrite E. reflexivity. Qed.

Lemma inr_nth sizes z q : inr sizes z -> (q < length sizes)%nat ->
  0 <= nth q z 0 /\ nth q z 0 <= qn (nth q sizes 0%nat) - 1.
Proof. intros H Hq. exact (PK.Forall2_nth _ _ _ q 0%nat 0 H Hq). Qed.

Lemma lat_part_monotone_multi sc sizes K z z' : sizes_ok sizes -> wfK 1 K 0 -> inr sizes z -> inr sizes z' ->
  (forall q, (q < length sizes)%nat ->
     nth q z' 0 = nth q z 0 \/ (nth q z 0 <= nth q z' 0 /\ knondecr sizes (kern sizes K 0) q)) ->
  lat_part sc sizes K z <= lat_part sc sizes K z'.
Proof. intros Hs Hw Hz Hz' H. pose proof (inr_length _ _ Hz) as Lz. pose proof (inr_length _ _ Hz') as Lz'.
  assert (G : forall k, (k <= length sizes)%nat ->
            inr sizes (hyb k z z') /\ lat_part sc sizes K z <= lat_part sc sizes K (hyb k z z')).
  { induction k as [|k IH]; intros Hk. cbn [hyb]. split. exact Hz. lra.
    destruct (IH ltac:(lia)) as [I1 I2]. cbn [hyb].
    destruct (inr_nth sizes z' k Hz' ltac:(lia)) as [B0 B1].
    split. apply inr_set_nth; assumption.
    assert (Ek : nth k (hyb k z z') 0 = nth k z 0).
    { rewrite nth_hyb by lia. rewrite Nat.ltb_irrefl. reflexivity. }
    destruct (H k ltac:(lia)) as [E|[Hle HK]].
    - rewrite E, <- Ek, set_nth_self. exact I2.
    - eapply Qle_trans. exact I2. rewrite <- (set_nth_self (hyb k z z') k) at 1. rewrite Ek.
      destruct (inr_nth sizes z k Hz ltac:(lia)) as [A0 A1].
      apply lat_part_monotone; try assumption; try lia. }
  destruct (G (length sizes) (le_n _)) as [_ G2]. rewrite <- Lz in G2. rewrite hyb_full in G2 by congruence.
  exact G2. Qed.

(* ---- members ---- *)
Definition kfl_mono_dim (c : MK.config) (q : nat) : Prop :=
  exists ms, MK.canon_monos (MK.c_monos c) = Some ms /\ nth q ms false = true.

Definition member2_ok (m : member2) : Prop :=
  match m with
  | MLat m => member_ok m
  | MKfl idx cals c p u =>
      exists dims, PK.cfg_ok c dims /\ kfl_feasible c dims p /\ length idx = dims /\ length cals = dims /\
                   cals_in_range (repeat (MK.c_size c) dims) cals
  end.
(* position q of the member is a dimension along which its function is non-decreasing *)
Definition member2_mono_dim (m : member2) (q : nat) : Prop :=
  match m with
  | MLat m => knondecr (m_sizes m) (kern (m_sizes m) (m_K m) 0) q
  | MKfl _ _ c _ _ => kfl_mono_dim c q
  end.
Definition member2_monotone_in (m : member2) (i : nat) (xi v : Q) : Prop :=
  reads_monotone (member2_idx m) (member2_cals m) (member2_mono_dim m) i xi v.

Lemma member2_monotone m x i v : member2_ok m -> (i < length x)%nat -> member2_monotone_in m i (nth i x 0) v ->
  member2_eval m x <= member2_eval m (set_nth i v x).
Proof. destruct m as [m|idx cals c p u]; cbn [member2_ok member2_eval]; unfold member2_monotone_in;
    cbn [member2_idx member2_cals member2_mono_dim]; intros Hok Hi Hmono.
  - destruct Hok as (Hne & Hs & Hw & Hl & Hc & Hix & Hr).
    change (lat_part (m_sc m) (m_sizes m) (m_K m) (calibrate (m_cals m) (member_inputs m x)) <=
            lat_part (m_sc m) (m_sizes m) (m_K m) (calibrate (m_cals m) (member_inputs m (set_nth i v x)))).
    unfold member_inputs.
    apply lat_part_monotone_multi; try assumption.
    + apply calibrate_inr; try assumption. rewrite map_length. exact Hix.
    + apply calibrate_inr; try assumption. rewrite map_length. exact Hix.
    + intros q Hq. destruct (reads_pointwise (m_idx m) (m_cals m) x i v q ltac:(lia) Hi ltac:(lia)) as [(E & E1 & E2)|(N & E)].
      * right. destruct (Hmono q ltac:(lia) E) as [HK Hle]. rewrite E1, E2. split; assumption.
      * left. exact E.
  - destruct Hok as (dims & Hc & Hf & Hix & Hlc & Hr). pose proof Hc as (HL & _ & _ & Hms).
    set (z := calibrate cals (map (fun j => nth j x 0) idx)).
    set (z' := calibrate cals (map (fun j => nth j (set_nth i v x) 0) idx)).
    assert (Lz : length z = dims) by (unfold z; rewrite calibrate_length; rewrite map_length; lia).
    assert (Lz' : length z' = dims) by (unfold z'; rewrite calibrate_length; rewrite map_length; lia).
    destruct (MK.canon_monos (MK.c_monos c)) as [ms|] eqn:Em.
    + specialize (Hms ms eq_refl).
      apply (kfl_state_monotone c dims p ms); try assumption.
      * apply coords_le_nth; try lia. intros q Hq.
        destruct (reads_pointwise idx cals x i v q ltac:(lia) Hi ltac:(lia)) as [(E & E1 & E2)|(N & E)];
          [fold z in E1; fold z' in E2|fold z z' in E].
        -- destruct (Hmono q ltac:(lia) E) as [(ms' & Em' & Hq') Hle]. rewrite Em in Em'. injection Em' as <-.
           rewrite Hq'. rewrite E1, E2. exact Hle.
        -- rewrite E. destruct (nth q ms false); [lra|reflexivity].
      * right. split; apply (calibrate_in_range _ dims); try assumption; rewrite map_length; lia.
    + assert (E : z' = z).
      { apply (nth_ext _ _ 0 0). lia. intros q Hq.
        destruct (reads_pointwise idx cals x i v q ltac:(lia) Hi ltac:(lia)) as [(E & _)|(N & E)]; [|fold z z' in E].
        - destruct (Hmono q ltac:(lia) E) as [(ms' & Em' & _) _]. rewrite Em in Em'. discriminate.
        - exact E. }
      rewrite E. lra. Qed.

(* the one-position form of Proofs/Premade.v is an instance *)
Lemma member_monotone_in_embed m i xi v : member_monotone_in m i xi v -> member2_monotone_in (MLat m) i xi v.
Proof. unfold member2_monotone_in, reads_monotone. cbn [member2_idx member2_cals member2_mono_dim].
  intros [Hun|(p & Hp & Ep & Hq & HK & Hle)] q Hql Eq.
  - exfalso. apply Hun. rewrite <- Eq. apply nth_In. exact Hql.
  - destruct (Nat.eq_dec q p) as [->|N]. split; assumption. exfalso. exact (Hq q Hql N Eq). Qed.
Lemma ensemble2_of_ensemble ms c oc x : ensemble_eval ms c oc x = ensemble2_eval (map MLat ms) c oc x.
Proof. unfold ensemble_eval, ensemble2_eval. rewrite map_map. reflexivity. Qed.

Theorem ensemble2_monotone ms c oc x x' : comb_monotone c -> out_monotone oc ->
  (forall m, In m ms -> member2_eval m x <= member2_eval m x') ->
  ensemble2_eval ms c oc x <= ensemble2_eval ms c oc x'.
Proof. intros Hc Ho H. unfold ensemble2_eval. apply out_eval_mono. exact Ho. apply combine_mono. exact Hc.
  induction ms as [|m ms IH]; cbn [map]; constructor. apply H; left; reflexivity. apply IH. intros; apply H; right; assumption. Qed.

Theorem ensemble2_compose_monotone ms c oc x i v : comb_monotone c -> out_monotone oc -> (i < length x)%nat ->
  (forall m, In m ms -> member2_ok m /\ member2_monotone_in m i (nth i x 0) v) ->
  ensemble2_eval ms c oc x <= ensemble2_eval ms c oc (set_nth i v x).
Proof. intros Hc Ho Hi H. apply ensemble2_monotone; try assumption. intros m Hm. destruct (H m Hm) as [Hok Hmono].
  apply member2_monotone; assumption. Qed.

(* bounds of a member: kernel entries of a lattice, configured bounds of a KFL unit *)
Definition member2_in_bounds (m : member2) (lo hi : Q) : Prop :=
  match m with
  | MLat m => forall i, valid (m_sizes m) i -> lo <= kern (m_sizes m) (m_K m) 0 i <= hi
  | MKfl _ _ c p u => MK.c_min c = Some lo /\ MK.c_max c = Some hi /\
                      (u < length (MK.p_scale p))%nat /\ (u < length (MK.p_bias p))%nat
  end.

Lemma member2_bounds m x lo hi : member2_ok m -> member2_in_bounds m lo hi -> lo <= member2_eval m x <= hi.
Proof. destruct m as [m|idx cals c p u]; cbn [member2_ok member2_in_bounds member2_eval]; intros Hok Hb.
  - apply member_bounds; assumption.
  - destruct Hok as (dims & Hc & Hf & Hix & Hlc & Hr). destruct Hb as (E1 & E2 & Hu & Hub). pose proof Hc as (HL & _).
    destruct (kfl_state_bounded c dims p u (calibrate cals (map (fun j => nth j x 0) idx)) Hc Hf Hu Hub
                ltac:(rewrite calibrate_length; rewrite map_length; lia)
                (or_intror (calibrate_in_range _ dims cals (map (fun j => nth j x 0) idx) HL Hlc ltac:(rewrite map_length; lia) Hr))) as [B1 B2].
    split; [apply B1|apply B2]; assumption. Qed.

Theorem ensemble2_bounded ms c oc lo hi x :
  (oc = None -> comb_average_like c (length ms) /\
                forall m, In m ms -> member2_ok m /\ member2_in_bounds m lo hi) ->
  out_range oc lo hi -> lo <= ensemble2_eval ms c oc x <= hi.
Proof. intros H Ho. unfold ensemble2_eval. apply out_eval_range. exact Ho. intros E. destruct (H E) as [Hc Hm].
  apply Proofs.Premade.combine_range. rewrite map_length; exact Hc.
  intros v Hv. apply in_map_iff in Hv. destruct Hv as [m [<- Hin]]. destruct (Hm m Hin) as [Hok HK].
  apply member2_bounds; assumption. Qed.

(* ====================================================================== *)
(* 5. Non-vacuity                                                          *)
(* ====================================================================== *)
(* one increasing feature, keypoints 0, 1 -> outputs 0, 1 (lattice size 2), into
   the feasible KFL unit lk_cfg / lk_par (bounds [-1, 1], scale 1, weights 1/5, 3/10) *)
Definition exk_cal : calib := CPwl [0] [1] [0; 1] None.
Example exk_in_range : cals_in_range (repeat (MK.c_size lk_cfg) 1) [exk_cal].
Proof. intros j Hj. cbn in Hj. destruct j as [|j]; [|lia]. cbn [nth repeat MK.c_size lk_cfg exk_cal calib_range].
  split. exists 1. cbn. lra. split. reflexivity. split; [|exact I].
  assert (E : qn 2 - 1 == 1) by reflexivity. unfold kp_outs. cbn [cumsum_incl In].
  intros y Hy. rewrite E. destruct Hy as [<-|[<-|[]]]; lra. Qed.
Example exk_outs_nondecr : outs_nondecr [0; 1].
Proof. intros j Hj. cbn in Hj. unfold kp_outs. destruct j as [|j]; cbn; try lra; lia. Qed.
Example exk_hypotheses :
  PK.cfg_ok lk_cfg 1 /\ kfl_feasible lk_cfg 1 lk_par /\ MK.canon_monos (MK.c_monos lk_cfg) = Some [true] /\
  nth 0 [true] false = true /\ cals_in_range (repeat (MK.c_size lk_cfg) 1) [exk_cal] /\ out_monotone None /\
  regular_input exk_cal (-(3)) /\ regular_input exk_cal (1#2) /\ outs_nondecr [0; 1] /\
  MK.c_min lk_cfg = Some (-(1)) /\ MK.c_max lk_cfg = Some 1.
Proof. split. exact lk_cfg_ok. split. exact lk_feasible. split. reflexivity. split. reflexivity.
  split. exact exk_in_range. split. exact I. split. exact I. split. exact I. split. exact exk_outs_nondecr.
  split; reflexivity. Qed.
Example exk_values :
  cal_kfl_eval lk_cfg lk_par [exk_cal] None [-(3)] == 1#5 /\
  cal_kfl_eval lk_cfg lk_par [exk_cal] None [1#2] == 1#4 /\
  cal_kfl_eval lk_cfg lk_par [exk_cal] None [7] == 3#10.
Proof. repeat split; vm_compute; reflexivity. Qed.

(* state machine: the layer driven by a hostile history (raw scale of the other
   sign, raw weights far outside), both constraint orders; the final state is
   feasible by reachable_feasible_kfl and, evaluated, still increasing *)
Definition exk_d (steps : list MK.step) : kfl_desc := mkKflD (fun _ x => x) lk_cfg 1 steps lk_par.
Definition exk_raw1 : MK.params := MK.mkPar [[ [[100; -(7)]] ]] [[ -(50) ]] [33].
Definition exk_raw2 : MK.params := MK.mkPar [[ [[-(3); 2]] ]] [[ 1#3 ]] [-(9)].
Definition exk_ops : list (op MK.params) :=
  [Update (fun _ => exk_raw1); Restore 0; Update (fun _ => exk_raw2); Init; Restore 1].
Example exk_desc_ok : kfl_desc_ok (exk_d [MK.StepS; MK.StepK]) /\ kfl_desc_ok (exk_d [MK.StepK; MK.StepS]).
Proof. split; (split; [exact PK.root_ok_id|split; [exact lk_cfg_ok|split; [reflexivity|split; [reflexivity|exact lk_feasible]]]]). Qed.
Example exk_history_shaped steps : ops_shaped MK.params kfl_desc kfl_shape [exk_d steps; exk_d steps] exk_ops.
Proof. intros delta H i d Hd.
  assert (E : d = exk_d steps) by (destruct i as [|[|[|i]]]; cbn in Hd; try discriminate; injection Hd as <-; reflexivity).
  subst d. cbn in H. destruct H as [H|[H|[H|[H|[H|[]]]]]]; try discriminate; inversion H; subst;
    repeat constructor. Qed.
Example exk_history_run :
  let s := nth 0 (final (map kfl_var [exk_d [MK.StepK; MK.StepS]]) [Update (fun _ => exk_raw1)]) lk_par in
  MK.unit_out lk_cfg s 0 [0] == -(1) /\ MK.unit_out lk_cfg s 0 [1] == 0.
Proof. split; vm_compute; reflexivity. Qed.
